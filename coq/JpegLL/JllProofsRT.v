(* End-to-end round trip of the JPEG Lossless and SV1 models: container <-> samples, marker
   segments, scan extraction, and the composition with the lockstep of JllProofs. *)
From V Require Import Common.Base JpegLL.JllBits JpegLL.JllHuff JpegLL.JllModel JpegLL.JllT81
  JpegLL.JllProofsBits JpegLL.JllProofsHuff JpegLL.JllProofs.

(* ---------- well-formed images ---------- *)
Definition samples_of (P : Z) (pixels : list Z) : list Z := if P <=? 8 then pixels else le16 pixels.

Definition wf_image (w h comps P : Z) (pixels : list Z) : Prop :=
  1 <= w <= 65535 /\ 1 <= h <= 65535 /\ (comps = 1 \/ comps = 3) /\ 2 <= P <= 16 /\
  zlen pixels = w * h * comps * ((P + 7) / 8) /\
  Forall (fun b => 0 <= b < 256) pixels /\
  Forall (fun v => 0 <= v < 2 ^ P) (samples_of P pixels).

Lemma bps_cases : forall P, 2 <= P <= 16 ->
  (P <= 8 /\ (P + 7) / 8 = 1) \/ (8 < P /\ (P + 7) / 8 = 2).
Proof.
  intros P HP. destruct (Z_le_gt_dec P 8); [left | right]; split; try lia.
  - symmetry. apply Z.div_unique with (r := P - 1); lia.
  - symmetry. apply Z.div_unique with (r := P - 9); lia.
Qed.

Lemma le16_length : forall m l, length l = (2 * m)%nat -> length (le16 l) = m.
Proof.
  induction m; intros l H.
  - destruct l; [reflexivity | simpl in H; lia].
  - destruct l as [|lo [|hi l]]; try (simpl in H; lia).
    cbn [le16 length]. rewrite IHm; [reflexivity | simpl in H; lia].
Qed.

Lemma le16_back : forall m l, length l = (2 * m)%nat -> Forall (fun b => 0 <= b < 256) l ->
  flat_map (sample_bytes 16) (le16 l) = l.
Proof.
  induction m; intros l H F.
  - destruct l; [reflexivity | simpl in H; lia].
  - destruct l as [|lo [|hi l]]; try (simpl in H; lia).
    inversion F as [|? ? Hlo F']; subst. inversion F' as [|? ? Hhi F'']; subst.
    cbn [le16 flat_map]. rewrite IHm; [|simpl in H; lia|assumption].
    unfold sample_bytes. cbn [Z.leb Z.compare].
    destruct (le16_val lo hi Hlo Hhi) as (E1 & E2 & _). cbv zeta in E1, E2.
    change (16 <=? 8) with false. cbv iota. rewrite E1, E2. reflexivity.
Qed.

Lemma bytes_back : forall l, Forall (fun b => 0 <= b < 256) l -> flat_map (sample_bytes 8) l = l.
Proof.
  induction l; intros F; [reflexivity|]. inversion F; subst. cbn [flat_map].
  rewrite IHl by assumption. unfold sample_bytes. change (8 <=? 8) with true. cbv iota.
  rewrite byte_of_small by assumption. reflexivity.
Qed.

Lemma sample_bytes_P : forall P v, sample_bytes P v = sample_bytes (if P <=? 8 then 8 else 16) v.
Proof. intros. unfold sample_bytes. destruct (P <=? 8); reflexivity. Qed.

(* the rows the encoder works on, and what converting them back gives *)
Lemma rows_facts : forall w h comps P pixels, wf_image w h comps P pixels ->
  let rows := pixels_to_rows w h comps P pixels in
  length rows = Z.to_nat h /\
  Forall (fun r => length r = Z.to_nat w /\ Forall (goodpx P (Z.to_nat comps)) r) rows /\
  rows_to_pixels P rows = pixels.
Proof.
  intros w h comps P pixels (Hw & Hh & Hc & HP & Hlen & Hb & Hs). cbv zeta.
  unfold pixels_to_rows. fold (samples_of P pixels).
  set (n := Z.to_nat (w * h * comps)).
  assert (Hn : length (samples_of P pixels) = n).
  { unfold samples_of, n. unfold zlen in Hlen. destruct (bps_cases P HP) as [[H8 E]|[H8 E]]; rewrite E in Hlen.
    - destruct (Z.leb_spec P 8); [|lia]. lia.
    - destruct (Z.leb_spec P 8); [lia|]. apply le16_length. lia. }
  rewrite <- Hn. rewrite firstn_all.
  set (samples := samples_of P pixels) in *.
  assert (Hcn : (0 < Z.to_nat comps)%nat) by lia.
  assert (Hwn : (0 < Z.to_nat w)%nat) by lia.
  unfold chunk.
  destruct (chunk_f_shape (Z.to_nat (w * h)) (length samples) (Z.to_nat comps) samples Hcn) as [L1 F1].
  { rewrite Hn. unfold n. rewrite <- Z2Nat.inj_mul by nia. f_equal. }
  { rewrite Hn. unfold n. apply Z2Nat.inj_le; nia. }
  set (pxs := chunk_f (length samples) (Z.to_nat comps) samples) in *.
  destruct (chunk_f_shape (Z.to_nat h) (length pxs) (Z.to_nat w) pxs Hwn) as [L2 F2].
  { rewrite L1. rewrite <- Z2Nat.inj_mul by lia. f_equal. lia. }
  { rewrite L1. apply Z2Nat.inj_le; nia. }
  split; [exact L2|]. split.
  - assert (G : Forall (goodpx P (Z.to_nat comps)) pxs).
    { pose proof (chunk_f_Forall (fun v => 0 <= v < 2 ^ P) (length samples) (Z.to_nat comps) samples Hs) as G1.
      fold pxs in G1. apply Forall_forall. intros px Hpx. split.
      - apply (proj1 (Forall_forall _ _) F1). assumption.
      - apply (proj1 (Forall_forall _ _) G1). assumption. }
    pose proof (chunk_f_Forall (goodpx P (Z.to_nat comps)) (length pxs) (Z.to_nat w) pxs G) as G2.
    apply Forall_forall. intros r Hr. split.
    + apply (proj1 (Forall_forall _ _) F2). assumption.
    + apply (proj1 (Forall_forall _ _) G2). assumption.
  - unfold rows_to_pixels. rewrite chunk_f_concat by (assumption || lia).
    unfold pxs. rewrite chunk_f_concat by (assumption || lia).
    unfold samples, samples_of.
    erewrite flat_map_ext by (intros; apply sample_bytes_P).
    destruct (bps_cases P HP) as [[H8 E]|[H8 E]]; rewrite E in Hlen; unfold zlen in Hlen.
    + destruct (Z.leb_spec P 8); [|lia]. apply bytes_back. assumption.
    + destruct (Z.leb_spec P 8); [lia|]. apply le16_back with (m := n); [unfold n; lia | assumption].
Qed.

(* ---------- marker segments ---------- *)
Lemma read_marker_ok : forall m rest, 1 <= m <= 254 ->
  read_marker (255 :: m :: rest) = Ok (65280 + m, rest).
Proof.
  intros m rest Hm. unfold read_marker. change (255 =? 255) with true. cbn [negb skip_ff].
  destruct (Z.eqb_spec m 255); [lia|]. cbn [obind fst snd].
  destruct (Z.eqb_spec m 0); [lia|]. reflexivity.
Qed.

Lemma read_segment_ok : forall data rest, zlen data + 2 < 65536 ->
  read_segment (be16 (wrapU 16 (zlen data + 2)) ++ data ++ rest) = Ok (data, rest).
Proof.
  intros data rest H. unfold zlen in *.
  rewrite wrapU_small by (change (2 ^ 16) with 65536; lia).
  unfold be16. cbn [app read_segment].
  destruct (be16_val (Z.of_nat (length data) + 2) ltac:(lia)) as (_ & E & _). rewrite E.
  destruct (Z.ltb_spec (Z.of_nat (length data) + 2) 2); [lia|].
  replace (Z.to_nat (Z.of_nat (length data) + 2 - 2)) with (length data) by lia.
  destruct (Nat.ltb_spec (length (data ++ rest)) (length data)) as [Hlt|_].
  - rewrite app_length in Hlt. lia.
  - rewrite firstn_len_app, skipn_len_app. reflexivity.
Qed.

(* one iteration of the marker loop of lossless.Decode on a segment with a length field *)
Lemma ll_loop_step : forall f m data rest st, 1 <= m <= 254 -> zlen data + 2 < 65536 ->
  ll_loop (S f) (255 :: m :: be16 (wrapU 16 (zlen data + 2)) ++ data ++ rest) st =
  let mk := 65280 + m in
  if mk =? M_SOF3 then obind (ll_parse_sof3 data st) (fun st' => ll_loop f rest st')
  else if mk =? M_DHT then obind (ll_parse_dht (length data) data st) (fun st' => ll_loop f rest st')
  else if mk =? M_SOS then obind (ll_parse_sos data st) (fun st' => ll_decode_scan st' rest)
  else if mk =? M_EOI then Err
  else if foreign_frame mk then Err
  else if has_length mk then ll_loop f rest st
  else ll_loop f (be16 (wrapU 16 (zlen data + 2)) ++ data ++ rest) st.
Proof.
  intros f m data rest st Hm Hl. cbn [ll_loop]. rewrite read_marker_ok by assumption.
  cbn [obind fst snd]. cbv zeta. rewrite read_segment_ok by assumption. cbn [obind fst snd].
  reflexivity.
Qed.

Lemma sv1_loop_step : forall f m data rest st, 1 <= m <= 254 -> zlen data + 2 < 65536 ->
  sv1_loop (S f) (255 :: m :: be16 (wrapU 16 (zlen data + 2)) ++ data ++ rest) st =
  let mk := 65280 + m in
  if mk =? M_SOF3 then obind (sv1_parse_sof3 data st) (fun st' => sv1_loop f rest st')
  else if mk =? M_DHT then obind (sv1_parse_dht (length data) data st) (fun st' => sv1_loop f rest st')
  else if mk =? M_SOS then obind (sv1_parse_sos data st) (fun st' => sv1_decode_scan st' rest)
  else if mk =? M_EOI then Ok (sv1_pixels st (sv1_zero_rows st))
  else if foreign_frame mk then Err
  else if has_length mk then sv1_loop f rest st
  else sv1_loop f (be16 (wrapU 16 (zlen data + 2)) ++ data ++ rest) st.
Proof.
  intros f m data rest st Hm Hl. cbn [sv1_loop]. rewrite read_marker_ok by assumption.
  cbn [obind fst snd]. cbv zeta. rewrite read_segment_ok by assumption. cbn [obind fst snd].
  reflexivity.
Qed.

Lemma segment_shape : forall marker data rest,
  segment marker data ++ rest =
  byte_of (Z.shiftr marker 8) :: byte_of marker :: be16 (wrapU 16 (zlen data + 2)) ++ data ++ rest.
Proof. intros. unfold segment. unfold be16 at 1. cbn [app]. rewrite <- !app_assoc. reflexivity. Qed.

(* ---------- scan extraction ---------- *)
Lemma ll_extract_stuff : forall bs tail, bytes_ok bs ->
  ll_extract_scan (stuff bs ++ 255 :: 217 :: tail) = stuff bs.
Proof.
  induction bs as [|b bs IH]; intros tail Hb.
  - reflexivity.
  - inversion Hb; subst. unfold stuff in *. cbn [flat_map]. unfold write_byte at 1 3.
    destruct (Z.eqb_spec b 255) as [E|E].
    + subst. cbn [app ll_extract_scan]. change (255 =? 255) with true. cbv iota.
      change (0 =? 0) with true. cbv iota. rewrite IH by assumption. reflexivity.
    + cbn [app ll_extract_scan]. destruct (Z.eqb_spec b 255); [contradiction|].
      rewrite IH by assumption. reflexivity.
Qed.
Lemma sv1_extract_stuff : forall bs tail, bytes_ok bs ->
  sv1_extract_scan (stuff bs ++ 255 :: 217 :: tail) = stuff bs.
Proof.
  induction bs as [|b bs IH]; intros tail Hb.
  - reflexivity.
  - inversion Hb; subst. unfold stuff in *. cbn [flat_map]. unfold write_byte at 1 3.
    destruct (Z.eqb_spec b 255) as [E|E].
    + subst. cbn [app sv1_extract_scan]. change (255 =? 255) with true. cbv iota.
      change (0 =? 0) with true. cbv iota. rewrite IH by assumption. reflexivity.
    + cbn [app sv1_extract_scan]. destruct (Z.eqb_spec b 255); [contradiction|].
      rewrite IH by assumption. reflexivity.
Qed.

(* ---------- header parsing of what the encoder writes ---------- *)
Lemma znth6 : forall (a0 a1 a2 a3 a4 a5 : Z) l d,
  znth (a0 :: a1 :: a2 :: a3 :: a4 :: a5 :: l) 0 d = a0 /\
  znth (a0 :: a1 :: a2 :: a3 :: a4 :: a5 :: l) 1 d = a1 /\
  znth (a0 :: a1 :: a2 :: a3 :: a4 :: a5 :: l) 2 d = a2 /\
  znth (a0 :: a1 :: a2 :: a3 :: a4 :: a5 :: l) 3 d = a3 /\
  znth (a0 :: a1 :: a2 :: a3 :: a4 :: a5 :: l) 4 d = a4 /\
  znth (a0 :: a1 :: a2 :: a3 :: a4 :: a5 :: l) 5 d = a5.
Proof. intros. repeat split; reflexivity. Qed.

Lemma parse_sof3_ok : forall w h comps P st, d_w st = 0 -> d_h st = 0 ->
  1 <= w <= 65535 -> 1 <= h <= 65535 -> comps = 1 \/ comps = 3 -> 2 <= P <= 16 ->
  ll_parse_sof3 (sof3_data w h comps P) st =
  Ok (mkD w h comps P (d_pred st) (d_tabs st) (d_sels st)).
Proof.
  intros w h comps P st Hw0 Hh0 Hw Hh Hc HP. unfold sof3_data. set (tl := flat_map _ _). cbn [app].
  unfold ll_parse_sof3. rewrite Hw0, Hh0. change (negb (0 =? 0) || negb (0 =? 0)) with false. cbv iota.
  destruct (znth6 (byte_of P) (byte_of (Z.shiftr h 8)) (byte_of h) (byte_of (Z.shiftr w 8))
                  (byte_of w) (byte_of comps) tl 0) as (E0 & E1 & E2 & E3 & E4 & E5).
  rewrite E0, E1, E2, E3, E4, E5.
  destruct (Z.ltb_spec (zlen (byte_of P :: byte_of (Z.shiftr h 8) :: byte_of h ::
             byte_of (Z.shiftr w 8) :: byte_of w :: byte_of comps :: tl)) 6) as [Hl|_].
  { unfold zlen in Hl. cbn [length] in Hl. lia. }
  rewrite (byte_of_small P) by lia. rewrite (byte_of_small comps) by lia.
  destruct (be16_val h ltac:(lia)) as (Eh & _ & _). destruct (be16_val w ltac:(lia)) as (Ew & _ & _).
  rewrite Eh, Ew.
  destruct (Z.ltb_spec P 2); [lia|]. destruct (Z.ltb_spec 16 P); [lia|]. cbn [orb].
  destruct (Z.leb_spec w 0); [lia|]. destruct (Z.leb_spec h 0); [lia|]. cbn [orb].
  destruct Hc; subst comps; reflexivity.
Qed.

Lemma map_byte_of_id : forall l, Forall (fun b => 0 <= b < 256) l -> map byte_of l = l.
Proof.
  induction l; intros F; [reflexivity|]. inversion F; subst. cbn [map].
  rewrite byte_of_small, IHl by assumption. reflexivity.
Qed.

Lemma dht_data_ok : forall bits vals, table_facts bits vals -> dht_data 0 bits vals = 0 :: bits ++ vals.
Proof.
  intros bits vals F. destruct F as [Fl Fb Fs Fv Fn Ff]. unfold dht_data, copy_pad. cbn [app].
  change (byte_of 0) with 0. rewrite map_byte_of_id by assumption.
  rewrite Fs. unfold zlen. rewrite Nat2Z.id, firstn_all, Nat.sub_diag. cbn [repeat].
  rewrite app_nil_r. reflexivity.
Qed.

Lemma parse_dht_ok : forall bits vals t st, table_facts bits vals -> build_table bits vals = Ok t ->
  ll_parse_dht (length (0 :: bits ++ vals)) (0 :: bits ++ vals) st =
  Ok (mkD (d_w st) (d_h st) (d_comps st) (d_P st) (d_pred st) (zupd (d_tabs st) 0 (Some t)) (d_sels st)).
Proof.
  intros bits vals t st F Ht. pose proof F as F0. destruct F as [Fl Fb Fs Fv Fn Ff]. cbn [length ll_parse_dht].
  change (Z.land (Z.shiftr 0 4) 15) with 0. change (Z.land 0 15) with 0.
  change (4 <=? 0) with false. cbv iota.
  destruct (Nat.ltb_spec (length (bits ++ vals)) 16) as [Hlt|_]; [rewrite app_length in Hlt; lia|].
  rewrite <- Fl. rewrite firstn_len_app, skipn_len_app.
  rewrite Fs. destruct (Z.ltb_spec (zlen vals) (zlen vals)); [lia|].
  unfold zlen. rewrite Nat2Z.id, firstn_all, skipn_all.
  rewrite Ht. cbn [obind]. change (0 =? 0) with true. cbv iota.
  destruct (length (bits ++ vals)); reflexivity.
Qed.

Lemma parse_sos_ok : forall w h comps P p0 tabs pred,
  comps = 1 \/ comps = 3 -> 1 <= pred <= 7 ->
  ll_parse_sos (sos_data comps pred) (mkD w h comps P p0 tabs [0; 0; 0]) =
  Ok (mkD w h comps P pred tabs [0; 0; 0]).
Proof.
  intros w h comps P p0 tabs pred Hc Hp.
  destruct Hc; subst comps; unfold sos_data, ll_parse_sos; cbn [d_comps d_w d_h d_P d_tabs d_sels];
    [change (Z.to_nat 1) with 1%nat | change (Z.to_nat 3) with 3%nat];
    cbn [seqZ flat_map app]; rewrite (byte_of_small pred) by lia;
    unfold zlen; cbn [length];
    vm_compute (Z.of_nat _ <? _); cbv iota.
  - vm_compute (znth _ 0 0 =? 1). cbv iota. cbn [negb].
    change (znth _ (1 + 1 * 2) 0) with pred.
    destruct (Z.ltb_spec pred 1); [lia|]. destruct (Z.ltb_spec 7 pred); [lia|]. cbn [orb].
    reflexivity.
  - vm_compute (znth _ 0 0 =? 3). cbv iota. cbn [negb].
    change (znth _ (1 + 3 * 2) 0) with pred.
    destruct (Z.ltb_spec pred 1); [lia|]. destruct (Z.ltb_spec 7 pred); [lia|]. cbn [orb].
    reflexivity.
Qed.

Lemma ll_step_app0 : forall f data rest st, zlen data + 2 < 65536 ->
  ll_loop (S f) (segment M_APP0 data ++ rest) st = ll_loop f rest st.
Proof.
  intros. rewrite segment_shape. change (byte_of (Z.shiftr M_APP0 8)) with 255.
  change (byte_of M_APP0) with 224. rewrite ll_loop_step by lia. reflexivity.
Qed.
Lemma ll_step_sof3 : forall f data rest st, zlen data + 2 < 65536 ->
  ll_loop (S f) (segment M_SOF3 data ++ rest) st =
  obind (ll_parse_sof3 data st) (fun st' => ll_loop f rest st').
Proof.
  intros. rewrite segment_shape. change (byte_of (Z.shiftr M_SOF3 8)) with 255.
  change (byte_of M_SOF3) with 195. rewrite ll_loop_step by lia. reflexivity.
Qed.
Lemma ll_step_dht : forall f data rest st, zlen data + 2 < 65536 ->
  ll_loop (S f) (segment M_DHT data ++ rest) st =
  obind (ll_parse_dht (length data) data st) (fun st' => ll_loop f rest st').
Proof.
  intros. rewrite segment_shape. change (byte_of (Z.shiftr M_DHT 8)) with 255.
  change (byte_of M_DHT) with 196. rewrite ll_loop_step by lia. reflexivity.
Qed.
Lemma ll_step_sos : forall f data rest st, zlen data + 2 < 65536 ->
  ll_loop (S f) (segment M_SOS data ++ rest) st =
  obind (ll_parse_sos data st) (fun st' => ll_decode_scan st' rest).
Proof.
  intros. rewrite segment_shape. change (byte_of (Z.shiftr M_SOS 8)) with 255.
  change (byte_of M_SOS) with 218. rewrite ll_loop_step by lia. reflexivity.
Qed.

Lemma segment_length : forall m data, (4 <= length (segment m data))%nat.
Proof. intros. unfold segment, be16. cbn [app length]. lia. Qed.

(* ---------- every element produced by the traversal ---------- *)
Lemma rows_map_Forall : forall {B} (f : bool -> bool -> Z -> Z -> Z -> Z -> B) (Q : B -> Prop),
  (forall r c l a al x, Q (f r c l a al x)) ->
  forall r0 dpx prev rows, Forall Q (rows_map f r0 dpx prev rows).
Proof.
  intros B f Q HQ r0 dpx prev rows.
  assert (H4 : forall r c l a al x, Forall Q (map4 f r c l a al x)).
  { intros r c l. induction l as [|l0 l IH]; intros a al x; destruct a, al, x; cbn [map4]; try constructor.
    - apply HQ.
    - apply IH. }
  assert (Hr : forall r c left aleft pv cur, Forall Q (row_map f r c left aleft pv cur)).
  { intros r c left aleft pv cur. revert c left aleft pv.
    induction cur as [|px cur IH]; intros c left aleft pv; destruct pv; cbn [row_map]; try constructor.
    apply Forall_app. split; [apply H4 | apply IH]. }
  revert r0 prev.
  induction rows as [|r rows IH]; intros r0 prev; cbn [rows_map]; [constructor|].
  apply Forall_app. split; [apply Hr | apply IH].
Qed.

Lemma ll_diffs_rows_map : forall w comps P pred rows,
  ll_diffs w comps P pred rows =
  rows_map (fdiff (ll_pred pred (2 ^ (P - 1)))) true (repeat 0 (Z.to_nat comps))
           (repeat (repeat 0 (Z.to_nat comps)) (Z.to_nat w)) rows.
Proof. reflexivity. Qed.
Lemma sv1_diffs_rows_map : forall w comps P rows,
  sv1_diffs w comps P rows =
  rows_map (fdiff (sv1_pred (2 ^ (P - 1)))) true (repeat 0 (Z.to_nat comps))
           (repeat (repeat 0 (Z.to_nat comps)) (Z.to_nat w)) rows.
Proof. reflexivity. Qed.

Lemma repeat_goodpx : forall P n, 2 <= P -> goodpx P n (repeat 0 n).
Proof.
  intros P n HP. split; [apply repeat_length|]. apply Forall_forall. intros x Hx.
  apply repeat_spec in Hx. subst. unfold good. split; [lia | apply Z.pow_pos_nonneg; lia].
Qed.

Lemma Ok_inj : forall {A} (a b : A), Ok a = Ok b -> a = b.
Proof. intros A a b H. injection H as H. exact H. Qed.

Lemma sof3_len : forall w h comps P, comps = 1 \/ comps = 3 -> zlen (sof3_data w h comps P) = 6 + 3 * comps.
Proof. intros w h comps P [H|H]; subst comps; reflexivity. Qed.
Lemma sos_len : forall comps pred, comps = 1 \/ comps = 3 -> zlen (sos_data comps pred) = 4 + 2 * comps.
Proof. intros comps pred [H|H]; subst comps; reflexivity. Qed.

Lemma zsum_bound : forall l, Forall (fun b => 0 <= b < 256) l -> 0 <= zsum l <= 255 * zlen l.
Proof.
  induction l; intros F; [cbn; lia|]. inversion F; subst. specialize (IHl H2).
  unfold zsum, zlen in *. cbn [fold_right length]. lia.
Qed.
Lemma dht_len : forall bits vals, table_facts bits vals -> zlen (0 :: bits ++ vals) + 2 < 65536.
Proof.
  intros bits vals [Fl Fb Fs Fv Fn Ff]. pose proof (zsum_bound bits Fb) as Hb.
  unfold zlen in *. cbn [length]. rewrite app_length. rewrite Fl in *. lia.
Qed.

Lemma jll_decode_soi : forall rest,
  jll_decode (be16 M_SOI ++ rest) = ll_loop (S (S (length rest))) rest d_init.
Proof.
  intros. unfold jll_decode. change (be16 M_SOI ++ rest) with (255 :: 216 :: rest).
  rewrite read_marker_ok by lia. reflexivity.
Qed.

(* ---------- decoding what encode_stream wrote ---------- *)
Definition stream_of (w h comps P pred : Z) (diffs bits vals : list Z) : list Z :=
  be16 M_SOI ++ segment M_APP0 jfif_payload
  ++ segment M_SOF3 (sof3_data w h comps P)
  ++ segment M_DHT (dht_data 0 bits vals)
  ++ segment M_SOS (sos_data comps pred)
  ++ enc_syms (build_codes bits vals) w_init diffs
  ++ be16 M_EOI.

Lemma obind_Ok : forall {A B} (a : A) (f : A -> outcome B), obind (Ok a) f = f a.
Proof. reflexivity. Qed.

Lemma encode_stream_fwd : forall w h comps P pred diffs bits vals,
  build_optimal (count_freqs diffs) = Ok (bits, vals) ->
  encode_stream w h comps P pred diffs = Ok (stream_of w h comps P pred diffs bits vals).
Proof.
  intros w h comps P pred diffs bits vals Hopt.
  unfold encode_stream, build_optimal_table. rewrite Hopt. rewrite obind_Ok.
  unfold fst, snd. pose proof (build_table_never_panics bits vals) as Hnp.
  destruct (build_table bits vals); try contradiction; reflexivity.
Qed.

Definition covers (vals diffs : list Z) : Prop := Forall (fun d => In (diff_category d) vals) diffs.

(* lossless.Decode on the stream layout of lossless.Encode, for ANY valid Huffman table that
   contains the categories of the differences (not only the optimal one) *)
Lemma ll_decode_stream_of : forall w h comps P pred rows bits vals,
  1 <= w <= 65535 -> 1 <= h <= 65535 -> comps = 1 \/ comps = 3 -> 2 <= P <= 16 -> 1 <= pred <= 7 ->
  length rows = Z.to_nat h ->
  Forall (fun r => length r = Z.to_nat w /\ Forall (goodpx P (Z.to_nat comps)) r) rows ->
  forall diffs, diffs = ll_diffs w comps P pred rows ->
  t81_table_ok bits vals = true -> covers vals diffs ->
  jll_decode (stream_of w h comps P pred diffs bits vals) = Ok (rows_to_pixels P rows, w, h, comps, P).
Proof.
  intros w h comps P pred rows bits vals Hw Hh Hc HP Hpred Hlen Hrows diffs Ediffs Hok Hcov.
  rewrite ll_diffs_rows_map in Ediffs.
  pose proof (table_ok_facts _ _ Hok) as F.
  unfold stream_of.
  pose proof (build_table_facts bits vals F) as Hbt.
  (* the scan bytes *)
  assert (Hdok : diffs_ok vals diffs).
  { unfold diffs_ok. apply Forall_forall. intros d Hd. split.
    - revert d Hd. apply Forall_forall. rewrite Ediffs. apply rows_map_Forall.
      intros. apply narrow16_range.
    - apply (proj1 (Forall_forall _ _) Hcov). assumption. }
  rewrite (enc_syms_emit bits vals diffs w_init [] F Hdok winv_init).
  destruct (emit_stuff (map (word bits vals) diffs) []) as (bs & pad & E1 & E2 & E3); [simpl; lia|].
  rewrite E1. cbn [app] in E3.
  (* marker loop *)
  rewrite jll_decode_soi.
  match goal with |- context [ll_loop _ ?r d_init] => set (rest := r) end.
  assert (Hfuel : exists f, length rest = S (S f)).
  { unfold rest. rewrite app_length. pose proof (segment_length M_APP0 jfif_payload).
    destruct (length (segment M_APP0 jfif_payload)) as [|[|n]]; try lia. eexists. reflexivity. }
  destruct Hfuel as [f Hf]. rewrite Hf. unfold rest.
  rewrite ll_step_app0 by (vm_compute; reflexivity).
  rewrite ll_step_sof3 by (rewrite sof3_len by assumption; lia).
  rewrite parse_sof3_ok by (assumption || reflexivity). cbn [obind d_init d_pred d_tabs d_sels].
  rewrite dht_data_ok by assumption.
  rewrite ll_step_dht by (pose proof (dht_len bits vals F); lia).
  rewrite (parse_dht_ok bits vals (ht_of bits vals)) by assumption.
  cbn [obind d_w d_h d_comps d_P d_pred d_tabs d_sels].
  change (zupd [None; None; None; None] 0 (Some (ht_of bits vals)))
    with [Some (ht_of bits vals); None; None; None].
  rewrite ll_step_sos by (rewrite sos_len by assumption; lia).
  rewrite parse_sos_ok by assumption. cbn [obind].
  (* the scan *)
  unfold ll_decode_scan. cbn [d_w d_h d_comps d_P d_pred].
  change (be16 M_EOI) with [255; 217]. rewrite ll_extract_stuff by assumption.
  unfold dec_image.
  assert (Htabs : ll_tabs (mkD w h comps P pred [Some (ht_of bits vals); None; None; None] [0; 0; 0])
                  = tabs bits vals (Z.to_nat comps)).
  { unfold ll_tabs, tabs. cbn [d_comps d_sels d_tabs]. destruct Hc; subst comps; reflexivity. }
  rewrite Htabs.
  assert (Hlt : length (tabs bits vals (Z.to_nat comps)) = Z.to_nat comps) by apply repeat_length.
  rewrite Hlt.
  pose proof (repeat_goodpx P (Z.to_nat comps) ltac:(lia)) as Gd.
  destruct (dec_rows_ok bits vals Hok P (ll_pred pred (2 ^ (P - 1))) recon16
              (fun r c l a al x _ _ _ Hx => diff_reconstruct P x _ HP Hx)
              rows (repeat (repeat 0 (Z.to_nat comps)) (Z.to_nat w)) (repeat 0 (Z.to_nat comps))
              (Z.to_nat comps) (Z.to_nat w) (r_init (stuff bs)) pad true)
    as (st' & Edec & _).
  - exact Hrows.
  - apply repeat_length.
  - apply Forall_forall. intros x Hx. apply repeat_spec in Hx. subst x. exact Gd.
  - exact Gd.
  - rewrite <- Ediffs. exact Hdok.
  - rewrite <- Ediffs. unfold wd. rewrite <- E3. rewrite <- (app_nil_r (stuff bs)). apply rep_init. exact E2.
  - rewrite <- Hlen. rewrite Edec. reflexivity.
Qed.

Lemma ll_decode_stream : forall w h comps P pred rows bits vals s,
  1 <= w <= 65535 -> 1 <= h <= 65535 -> comps = 1 \/ comps = 3 -> 2 <= P <= 16 -> 1 <= pred <= 7 ->
  length rows = Z.to_nat h ->
  Forall (fun r => length r = Z.to_nat w /\ Forall (goodpx P (Z.to_nat comps)) r) rows ->
  forall diffs, diffs = ll_diffs w comps P pred rows ->
  build_optimal (count_freqs diffs) = Ok (bits, vals) ->
  t81_table_ok bits vals = true -> covers vals diffs ->
  encode_stream w h comps P pred diffs = Ok s ->
  jll_decode s = Ok (rows_to_pixels P rows, w, h, comps, P).
Proof.
  intros w h comps P pred rows bits vals s Hw Hh Hc HP Hpred Hlen Hrows diffs Ediffs Hopt Hok Hcov Henc.
  pose proof (encode_stream_fwd w h comps P pred diffs bits vals Hopt) as Hf. rewrite Henc in Hf.
  apply Ok_inj in Hf. subst s.
  eapply ll_decode_stream_of; eassumption.
Qed.

(* ---------- jll_roundtrip ---------- *)
Lemma select_loop_range : forall ps var best minv, 1 <= best <= 7 ->
  Forall (fun p => 1 <= p <= 7) ps -> 1 <= select_loop ps var best minv <= 7.
Proof.
  induction ps as [|p ps IH]; intros var best minv Hb Hp; cbn [select_loop]; [assumption|].
  inversion Hp; subst. destruct (var p <? minv); apply IH; assumption.
Qed.
Lemma select_best_range : forall w h comps rows, 1 <= select_best w h comps rows <= 7.
Proof.
  intros. unfold select_best. apply select_loop_range; [lia|].
  repeat constructor; lia.
Qed.

Lemma params_ok_wf : forall w h comps P pixels, wf_image w h comps P pixels ->
  params_ok w h comps P pixels = true.
Proof.
  intros w h comps P pixels (Hw & Hh & Hc & HP & Hlen & _). unfold params_ok.
  rewrite Hlen. rewrite Z.leb_refl.
  destruct (Z.ltb_spec 0 w); [|lia]. destruct (Z.ltb_spec 0 h); [|lia].
  destruct (Z.leb_spec w 65535); [|lia]. destruct (Z.leb_spec h 65535); [|lia].
  destruct (Z.leb_spec 2 P); [|lia]. destruct (Z.leb_spec P 16); [|lia].
  destruct Hc; subst comps; reflexivity.
Qed.

(* the predictor the encoder ends up using (0 = automatic selection) *)
Definition effective_pred (w h comps P pred : Z) (pixels : list Z) : Z :=
  if pred =? 0 then select_best w h comps (pixels_to_rows w h comps P pixels) else pred.

(* the hypothesis on the Huffman table the encoder builds for the image: it is a valid
   canonical table (Kraft sum <= 1, distinct symbols) containing every category that occurs.
   (C02_build_table_ok, i.e. that BuildOptimalHuffmanTable always produces such a table, is
   not proved; the harness evaluates this predicate on every table the Go encoder emits.) *)
Definition table_hyp (diffs : list Z) : Prop :=
  exists bits vals, build_optimal (count_freqs diffs) = Ok (bits, vals) /\
                    t81_table_ok bits vals = true /\ covers vals diffs.

Lemma jll_encode_fwd : forall w h comps P pred pixels,
  wf_image w h comps P pixels -> 0 <= pred <= 7 ->
  jll_encode w h comps P pred pixels =
  encode_stream w h comps P (effective_pred w h comps P pred pixels)
    (ll_diffs w comps P (effective_pred w h comps P pred pixels) (pixels_to_rows w h comps P pixels)).
Proof.
  intros w h comps P pred pixels Hwf Hpred. unfold jll_encode.
  rewrite (params_ok_wf _ _ _ _ _ Hwf). cbn [negb].
  destruct (Z.ltb_spec pred 0); [lia|]. destruct (Z.ltb_spec 7 pred); [lia|]. cbn [orb].
  reflexivity.
Qed.

Theorem jll_roundtrip : forall w h comps P pred pixels s,
  wf_image w h comps P pixels -> 0 <= pred <= 7 ->
  table_hyp (ll_diffs w comps P (effective_pred w h comps P pred pixels)
                      (pixels_to_rows w h comps P pixels)) ->
  jll_encode w h comps P pred pixels = Ok s ->
  jll_decode s = Ok (pixels, w, h, comps, P).
Proof.
  intros w h comps P pred pixels s Hwf Hpred (bits & vals & Hopt & Hok & Hcov) Henc.
  destruct (rows_facts w h comps P pixels Hwf) as (Hlen & Hrows & Hback).
  pose proof Hwf as (Hw & Hh & Hc & HP & _).
  rewrite (jll_encode_fwd _ _ _ _ _ _ Hwf Hpred) in Henc.
  assert (Hep : 1 <= effective_pred w h comps P pred pixels <= 7).
  { unfold effective_pred. destruct (Z.eqb_spec pred 0); [apply select_best_range | lia]. }
  rewrite <- Hback at 1.
  eapply ll_decode_stream; try eassumption. reflexivity.
Time Qed.

(* ---------- the Selection-Value-1 codec ---------- *)
Lemma sv1_step_app0 : forall f data rest st, zlen data + 2 < 65536 ->
  sv1_loop (S f) (segment M_APP0 data ++ rest) st = sv1_loop f rest st.
Proof.
  intros. rewrite segment_shape. change (byte_of (Z.shiftr M_APP0 8)) with 255.
  change (byte_of M_APP0) with 224. rewrite sv1_loop_step by lia. reflexivity.
Qed.
Lemma sv1_step_sof3 : forall f data rest st, zlen data + 2 < 65536 ->
  sv1_loop (S f) (segment M_SOF3 data ++ rest) st =
  obind (sv1_parse_sof3 data st) (fun st' => sv1_loop f rest st').
Proof.
  intros. rewrite segment_shape. change (byte_of (Z.shiftr M_SOF3 8)) with 255.
  change (byte_of M_SOF3) with 195. rewrite sv1_loop_step by lia. reflexivity.
Qed.
Lemma sv1_step_dht : forall f data rest st, zlen data + 2 < 65536 ->
  sv1_loop (S f) (segment M_DHT data ++ rest) st =
  obind (sv1_parse_dht (length data) data st) (fun st' => sv1_loop f rest st').
Proof.
  intros. rewrite segment_shape. change (byte_of (Z.shiftr M_DHT 8)) with 255.
  change (byte_of M_DHT) with 196. rewrite sv1_loop_step by lia. reflexivity.
Qed.
Lemma sv1_step_sos : forall f data rest st, zlen data + 2 < 65536 ->
  sv1_loop (S f) (segment M_SOS data ++ rest) st =
  obind (sv1_parse_sos data st) (fun st' => sv1_decode_scan st' rest).
Proof.
  intros. rewrite segment_shape. change (byte_of (Z.shiftr M_SOS 8)) with 255.
  change (byte_of M_SOS) with 218. rewrite sv1_loop_step by lia. reflexivity.
Qed.

Lemma sv1_decode_soi : forall rest,
  sv1_decode (be16 M_SOI ++ rest) = sv1_loop (S (S (length rest))) rest s_init.
Proof.
  intros. unfold sv1_decode. change (be16 M_SOI ++ rest) with (255 :: 216 :: rest).
  rewrite read_marker_ok by lia. reflexivity.
Qed.

Definition sv1_comp_list (comps : Z) : list (Z * Z) :=
  if comps =? 1 then [(1, 0)] else [(1, 0); (2, 0); (3, 0)].

Lemma sv1_parse_sof3_ok : forall w h comps P st, s_w st = 0 -> s_h st = 0 ->
  1 <= w <= 65535 -> 1 <= h <= 65535 -> comps = 1 \/ comps = 3 -> 2 <= P <= 16 ->
  sv1_parse_sof3 (sof3_data w h comps P) st = Ok (mkS w h P (sv1_comp_list comps) (s_tabs st)).
Proof.
  intros w h comps P st Hw0 Hh0 Hw Hh Hc HP. unfold sv1_parse_sof3.
  rewrite Hw0, Hh0. change (negb (0 =? 0) || negb (0 =? 0)) with false. cbv iota.
  rewrite sof3_len by assumption.
  unfold sof3_data. set (tl := flat_map _ _). cbn [app].
  destruct (znth6 (byte_of P) (byte_of (Z.shiftr h 8)) (byte_of h) (byte_of (Z.shiftr w 8))
                  (byte_of w) (byte_of comps) tl 0) as (E0 & E1 & E2 & E3 & E4 & E5).
  rewrite E0, E1, E2, E3, E4, E5.
  destruct (Z.ltb_spec (6 + 3 * comps) 6) as [Hl|_]; [lia|].
  rewrite (byte_of_small P) by lia. rewrite (byte_of_small comps) by lia.
  destruct (be16_val h ltac:(lia)) as (Eh & _ & _). destruct (be16_val w ltac:(lia)) as (Ew & _ & _).
  rewrite Eh, Ew.
  destruct (Z.ltb_spec P 2); [lia|]. destruct (Z.ltb_spec 16 P); [lia|]. cbn [orb].
  destruct (Z.leb_spec w 0); [lia|]. destruct (Z.leb_spec h 0); [lia|]. cbn [orb].
  destruct (Z.ltb_spec (6 + 3 * comps) (6 + comps * 3)); [lia|].
  unfold tl. destruct Hc; subst comps; reflexivity.
Qed.

Lemma sv1_parse_dht_ok : forall bits vals t st, table_facts bits vals -> build_table bits vals = Ok t ->
  sv1_parse_dht (length (0 :: bits ++ vals)) (0 :: bits ++ vals) st =
  Ok (mkS (s_w st) (s_h st) (s_P st) (s_comps st) (zupd (s_tabs st) 0 (Some t))).
Proof.
  intros bits vals t st F Ht. destruct F as [Fl Fb Fs Fv Fn Ff]. cbn [length sv1_parse_dht].
  change (Z.shiftr 0 4) with 0. change (Z.land 0 15) with 0.
  change (3 <? 0) with false. cbv iota.
  destruct (Nat.ltb_spec (length (bits ++ vals)) 16) as [Hlt|_]; [rewrite app_length in Hlt; lia|].
  rewrite <- Fl. rewrite firstn_len_app, skipn_len_app.
  rewrite Fs. destruct (Z.ltb_spec (zlen vals) (zlen vals)); [lia|].
  unfold zlen. rewrite Nat2Z.id, firstn_all, skipn_all.
  rewrite Ht. cbn [obind]. change (0 =? 0) with true. cbv iota.
  destruct (length (bits ++ vals)); reflexivity.
Qed.

Lemma sv1_parse_sos_ok : forall w h comps P tabs,
  comps = 1 \/ comps = 3 ->
  sv1_parse_sos (sos_data comps 1) (mkS w h P (sv1_comp_list comps) tabs) =
  Ok (mkS w h P (sv1_comp_list comps) tabs).
Proof.
  intros w h comps P tabs Hc. destruct Hc; subst comps; reflexivity.
Qed.

Lemma sv1_pred_good : forall P r c l a al, 2 <= P -> good P l -> good P a -> good P al ->
  good P (sv1_pred (2 ^ (P - 1)) r c l a al).
Proof.
  intros P r c l a al HP Hl Ha Hal. unfold sv1_pred.
  assert (good P (2 ^ (P - 1))).
  { unfold good. split; [apply Z.pow_nonneg; lia | apply Z.pow_lt_mono_r; lia]. }
  destruct c, r; assumption.
Qed.

Lemma sv1_decode_stream_of : forall w h comps P rows bits vals,
  1 <= w <= 65535 -> 1 <= h <= 65535 -> comps = 1 \/ comps = 3 -> 2 <= P <= 16 ->
  length rows = Z.to_nat h ->
  Forall (fun r => length r = Z.to_nat w /\ Forall (goodpx P (Z.to_nat comps)) r) rows ->
  forall diffs, diffs = sv1_diffs w comps P rows ->
  t81_table_ok bits vals = true -> covers vals diffs ->
  sv1_decode (stream_of w h comps P 1 diffs bits vals) = Ok (rows_to_pixels P rows, w, h, comps, P).
Proof.
  intros w h comps P rows bits vals Hw Hh Hc HP Hlen Hrows diffs Ediffs Hok Hcov.
  rewrite sv1_diffs_rows_map in Ediffs.
  pose proof (table_ok_facts _ _ Hok) as F.
  unfold stream_of.
  pose proof (build_table_facts bits vals F) as Hbt.
  assert (Hdok : diffs_ok vals diffs).
  { unfold diffs_ok. apply Forall_forall. intros d Hd. split.
    - revert d Hd. apply Forall_forall. rewrite Ediffs. apply rows_map_Forall.
      intros. apply narrow16_range.
    - apply (proj1 (Forall_forall _ _) Hcov). assumption. }
  rewrite (enc_syms_emit bits vals diffs w_init [] F Hdok winv_init).
  destruct (emit_stuff (map (word bits vals) diffs) []) as (bs & pad & E1 & E2 & E3); [simpl; lia|].
  rewrite E1. cbn [app] in E3.
  rewrite sv1_decode_soi.
  match goal with |- context [sv1_loop _ ?r s_init] => set (rest := r) end.
  assert (Hfuel : exists f, length rest = S (S f)).
  { unfold rest. rewrite app_length. pose proof (segment_length M_APP0 jfif_payload).
    destruct (length (segment M_APP0 jfif_payload)) as [|[|n]]; try lia. eexists. reflexivity. }
  destruct Hfuel as [f Hf]. rewrite Hf. unfold rest.
  rewrite sv1_step_app0 by (vm_compute; reflexivity).
  rewrite sv1_step_sof3 by (rewrite sof3_len by assumption; lia).
  rewrite sv1_parse_sof3_ok by (assumption || reflexivity). cbn [obind s_init s_tabs].
  rewrite dht_data_ok by assumption.
  rewrite sv1_step_dht by (pose proof (dht_len bits vals F); lia).
  rewrite (sv1_parse_dht_ok bits vals (ht_of bits vals)) by assumption.
  cbn [obind s_w s_h s_P s_comps s_tabs].
  change (zupd [None; None; None; None] 0 (Some (ht_of bits vals)))
    with [Some (ht_of bits vals); None; None; None].
  rewrite sv1_step_sos by (rewrite sos_len by assumption; lia).
  rewrite sv1_parse_sos_ok by assumption. cbn [obind].
  unfold sv1_decode_scan. cbn [s_w s_h s_P s_comps s_tabs].
  change (be16 M_EOI) with [255; 217]. rewrite sv1_extract_stuff by assumption.
  unfold dec_image.
  assert (Htabs : map (fun c : Z * Z => sv1_tab [Some (ht_of bits vals); None; None; None] (snd c))
                      (sv1_comp_list comps) = tabs bits vals (Z.to_nat comps)).
  { unfold tabs. destruct Hc; subst comps; reflexivity. }
  rewrite Htabs.
  assert (Hlt : length (tabs bits vals (Z.to_nat comps)) = Z.to_nat comps) by apply repeat_length.
  rewrite Hlt.
  pose proof (repeat_goodpx P (Z.to_nat comps) ltac:(lia)) as Gd.
  destruct (dec_rows_ok bits vals Hok P (sv1_pred (2 ^ (P - 1))) (recon (2 ^ P))
              (fun r c l a al x Hl Ha Hal Hx =>
                 diff_reconstruct_single_wrap P x _ HP Hx (sv1_pred_good P r c l a al ltac:(lia) Hl Ha Hal))
              rows (repeat (repeat 0 (Z.to_nat comps)) (Z.to_nat w)) (repeat 0 (Z.to_nat comps))
              (Z.to_nat comps) (Z.to_nat w) (r_init (stuff bs)) pad true)
    as (st' & Edec & _).
  - exact Hrows.
  - apply repeat_length.
  - apply Forall_forall. intros x Hx. apply repeat_spec in Hx. subst x. exact Gd.
  - exact Gd.
  - rewrite <- Ediffs. exact Hdok.
  - rewrite <- Ediffs. unfold wd. rewrite <- E3. rewrite <- (app_nil_r (stuff bs)). apply rep_init. exact E2.
  - rewrite <- Hlen. rewrite Edec. cbn [obind fst]. unfold sv1_pixels. cbn [s_w s_h s_P s_comps].
    destruct Hc; subst comps; reflexivity.
Qed.

Lemma sv1_decode_stream : forall w h comps P rows bits vals s,
  1 <= w <= 65535 -> 1 <= h <= 65535 -> comps = 1 \/ comps = 3 -> 2 <= P <= 16 ->
  length rows = Z.to_nat h ->
  Forall (fun r => length r = Z.to_nat w /\ Forall (goodpx P (Z.to_nat comps)) r) rows ->
  forall diffs, diffs = sv1_diffs w comps P rows ->
  build_optimal (count_freqs diffs) = Ok (bits, vals) ->
  t81_table_ok bits vals = true -> covers vals diffs ->
  encode_stream w h comps P 1 diffs = Ok s ->
  sv1_decode s = Ok (rows_to_pixels P rows, w, h, comps, P).
Proof.
  intros w h comps P rows bits vals s Hw Hh Hc HP Hlen Hrows diffs Ediffs Hopt Hok Hcov Henc.
  pose proof (encode_stream_fwd w h comps P 1 diffs bits vals Hopt) as Hf. rewrite Henc in Hf.
  apply Ok_inj in Hf. subst s.
  eapply sv1_decode_stream_of; eassumption.
Qed.

Lemma sv1_encode_fwd : forall w h comps P pixels, wf_image w h comps P pixels ->
  sv1_encode w h comps P pixels =
  encode_stream w h comps P 1 (sv1_diffs w comps P (pixels_to_rows w h comps P pixels)).
Proof.
  intros w h comps P pixels Hwf. unfold sv1_encode.
  rewrite (params_ok_wf _ _ _ _ _ Hwf). reflexivity.
Qed.

Theorem sv1_roundtrip : forall w h comps P pixels s,
  wf_image w h comps P pixels ->
  table_hyp (sv1_diffs w comps P (pixels_to_rows w h comps P pixels)) ->
  sv1_encode w h comps P pixels = Ok s ->
  sv1_decode s = Ok (pixels, w, h, comps, P).
Proof.
  intros w h comps P pixels s Hwf (bits & vals & Hopt & Hok & Hcov) Henc.
  destruct (rows_facts w h comps P pixels Hwf) as (Hlen & Hrows & Hback).
  pose proof Hwf as (Hw & Hh & Hc & HP & _).
  rewrite (sv1_encode_fwd _ _ _ _ _ Hwf) in Henc.
  rewrite <- Hback at 1.
  eapply sv1_decode_stream; try eassumption. reflexivity.
Time Qed.

(* ---------- boolean versions of the hypotheses (for concrete instances) ---------- *)
Definition wf_imageb (w h comps P : Z) (pixels : list Z) : bool :=
  (1 <=? w) && (w <=? 65535) && (1 <=? h) && (h <=? 65535) && ((comps =? 1) || (comps =? 3))
  && (2 <=? P) && (P <=? 16) && (zlen pixels =? w * h * comps * ((P + 7) / 8))
  && forallb (fun b => (0 <=? b) && (b <? 256)) pixels
  && forallb (fun v => (0 <=? v) && (v <? 2 ^ P)) (samples_of P pixels).
Lemma wf_imageb_ok : forall w h comps P pixels, wf_imageb w h comps P pixels = true ->
  wf_image w h comps P pixels.
Proof.
  intros w h comps P pixels H. unfold wf_imageb in H. rewrite !andb_true_iff in H.
  destruct H as [[[[[[[[[H1 H2] H3] H4] H5] H6] H7] H8] H9] H10].
  unfold wf_image. split; [lia|]. split; [lia|]. split; [|split; [lia|]; split; [lia|]; split].
  - apply orb_true_iff in H5. destruct H5 as [H5|H5]; apply Z.eqb_eq in H5; [left | right]; assumption.
  - apply Forall_forall. intros b Hb. apply (proj1 (forallb_forall _ _) H9) in Hb. lia.
  - apply Forall_forall. intros b Hb. apply (proj1 (forallb_forall _ _) H10) in Hb. lia.
Qed.
Definition coversb (vals diffs : list Z) : bool :=
  forallb (fun d => existsb (Z.eqb (diff_category d)) vals) diffs.
Lemma coversb_ok : forall vals diffs, coversb vals diffs = true -> covers vals diffs.
Proof.
  intros vals diffs H. apply Forall_forall. intros d Hd.
  apply (proj1 (forallb_forall _ _) H) in Hd. apply existsb_exists in Hd.
  destruct Hd as (v & Hv & E). apply Z.eqb_eq in E. subst. assumption.
Qed.
