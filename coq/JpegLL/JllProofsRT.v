(* End-to-end round trip of the JPEG Lossless and SV1 models: container <-> samples, marker
   segments, scan extraction, and the composition with the lockstep of JllProofs. *)
From V Require Import Common.Base JpegLL.JllBits JpegLL.JllHuff JpegLL.JllModel JpegLL.JllT81
  JpegLL.JllProofsBits JpegLL.JllProofsHuff JpegLL.JllProofs.

(* ---------- well-formed images ---------- *)
Definition samples_of (P : Z) (pixels : list Z) : list Z := if P <=? 8 then pixels else le16 pixels.

Definition wf_image (w h comps P : Z) (pixels : list Z) : Prop :=
  1 <= w <= 65535 /\ 1 <= h <= 65535 /\ (comps = 1 \/ comps = 3) /\ 2 <= P <= 16 /\
  zlen pixels = w * h * comps * ((P + 7) / 8) /\
  Forall (fun b => 0 <= b < 256) pixels /\
  Forall (fun v => 0 <= v < 2 ^ P) (samples_of P pixels).

Lemma bps_cases : forall P, 2 <= P <= 16 ->
  (P <= 8 /\ (P + 7) / 8 = 1) \/ (8 < P /\ (P + 7) / 8 = 2).
Proof.
  intros P HP. destruct (Z_le_gt_dec P 8); [left | right]; split; try lia.
  - symmetry. apply Z.div_unique with (r := P - 1); lia.
  - symmetry. apply Z.div_unique with (r := P - 9); lia.
Qed.

Lemma le16_length : forall m l, length l = (2 * m)%nat -> length (le16 l) = m.
Proof.
  induction m; intros l H.
  - destruct l; [reflexivity | simpl in H; lia].
  - destruct l as [|lo [|hi l]]; try (simpl in H; lia).
    cbn [le16 length]. rewrite IHm; [reflexivity | simpl in H; lia].
Qed.

Lemma le16_back : forall m l, length l = (2 * m)%nat -> Forall (fun b => 0 <= b < 256) l ->
  flat_map (sample_bytes 16) (le16 l) = l.
Proof.
  induction m; intros l H F.
  - destruct l; [reflexivity | simpl in H; lia].
  - destruct l as [|lo [|hi l]]; try (simpl in H; lia).
    inversion F as [|? ? Hlo F']; subst. inversion F' as [|? ? Hhi F'']; subst.
    cbn [le16 flat_map]. rewrite IHm; [|simpl in H; lia|assumption].
    unfold sample_bytes. cbn [Z.leb Z.compare].
    destruct (le16_val lo hi Hlo Hhi) as (E1 & E2 & _). cbv zeta in E1, E2.
    change (16 <=? 8) with false. cbv iota. rewrite E1, E2. reflexivity.
Qed.

Lemma bytes_back : forall l, Forall (fun b => 0 <= b < 256) l -> flat_map (sample_bytes 8) l = l.
Proof.
  induction l; intros F; [reflexivity|]. inversion F; subst. cbn [flat_map].
  rewrite IHl by assumption. unfold sample_bytes. change (8 <=? 8) with true. cbv iota.
  rewrite byte_of_small by assumption. reflexivity.
Qed.

Lemma sample_bytes_P : forall P v, sample_bytes P v = sample_bytes (if P <=? 8 then 8 else 16) v.
Proof. intros. unfold sample_bytes. destruct (P <=? 8); reflexivity. Qed.

(* the rows the encoder works on, and what converting them back gives *)
Lemma rows_facts : forall w h comps P pixels, wf_image w h comps P pixels ->
  let rows := pixels_to_rows w h comps P pixels in
  length rows = Z.to_nat h /\
  Forall (fun r => length r = Z.to_nat w /\ Forall (goodpx P (Z.to_nat comps)) r) rows /\
  rows_to_pixels P rows = pixels.
Proof.
  intros w h comps P pixels (Hw & Hh & Hc & HP & Hlen & Hb & Hs). cbv zeta.
  unfold pixels_to_rows. fold (samples_of P pixels).
  set (n := Z.to_nat (w * h * comps)).
  assert (Hn : length (samples_of P pixels) = n).
  { unfold samples_of, n. unfold zlen in Hlen. destruct (bps_cases P HP) as [[H8 E]|[H8 E]]; rewrite E in Hlen.
    - destruct (Z.leb_spec P 8); [|lia]. lia.
    - destruct (Z.leb_spec P 8); [lia|]. apply le16_length. lia. }
  rewrite <- Hn. rewrite firstn_all.
  set (samples := samples_of P pixels) in *.
  assert (Hcn : (0 < Z.to_nat comps)%nat) by lia.
  assert (Hwn : (0 < Z.to_nat w)%nat) by lia.
  unfold chunk.
  destruct (chunk_f_shape (Z.to_nat (w * h)) (length samples) (Z.to_nat comps) samples Hcn) as [L1 F1].
  { rewrite Hn. unfold n. rewrite <- Z2Nat.inj_mul by nia. f_equal. }
  { rewrite Hn. unfold n. apply Z2Nat.inj_le; nia. }
  set (pxs := chunk_f (length samples) (Z.to_nat comps) samples) in *.
  destruct (chunk_f_shape (Z.to_nat h) (length pxs) (Z.to_nat w) pxs Hwn) as [L2 F2].
  { rewrite L1. rewrite <- Z2Nat.inj_mul by lia. f_equal. lia. }
  { rewrite L1. apply Z2Nat.inj_le; nia. }
  split; [exact L2|]. split.
  - assert (G : Forall (goodpx P (Z.to_nat comps)) pxs).
    { pose proof (chunk_f_Forall (fun v => 0 <= v < 2 ^ P) (length samples) (Z.to_nat comps) samples Hs) as G1.
      fold pxs in G1. apply Forall_forall. intros px Hpx. split.
      - apply (proj1 (Forall_forall _ _) F1). assumption.
      - apply (proj1 (Forall_forall _ _) G1). assumption. }
    pose proof (chunk_f_Forall (goodpx P (Z.to_nat comps)) (length pxs) (Z.to_nat w) pxs G) as G2.
    apply Forall_forall. intros r Hr. split.
    + apply (proj1 (Forall_forall _ _) F2). assumption.
    + apply (proj1 (Forall_forall _ _) G2). assumption.
  - unfold rows_to_pixels. rewrite chunk_f_concat by (assumption || lia).
    unfold pxs. rewrite chunk_f_concat by (assumption || lia).
    unfold samples, samples_of.
    erewrite flat_map_ext by (intros; apply sample_bytes_P).
    destruct (bps_cases P HP) as [[H8 E]|[H8 E]]; rewrite E in Hlen; unfold zlen in Hlen.
    + destruct (Z.leb_spec P 8); [|lia]. apply bytes_back. assumption.
    + destruct (Z.leb_spec P 8); [lia|]. apply le16_back with (m := n); [unfold n; lia | assumption].
Qed.
