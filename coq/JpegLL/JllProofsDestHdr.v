(* C13, second half: the marker loops of lossless.Decode and lossless14sv1.Decode (models) on
   every header layout of the general T.81 stream generator JllT81Gen.t81_gen. *)
From V Require Import Common.Base JpegLL.JllBits JpegLL.JllHuff JpegLL.JllModel JpegLL.JllT81
  JpegLL.JllT81Gen JpegLL.JllProofsBits JpegLL.JllProofsHuff JpegLL.JllProofs JpegLL.JllProofsRT
  JpegLL.JllProofsT81 JpegLL.JllProofsDest.

(* ---------- segments ---------- *)
Lemma t81_seg_shape : forall code payload rest, zlen payload + 2 < 65536 ->
  t81_seg code payload ++ rest = 255 :: code :: be16 (wrapU 16 (zlen payload + 2)) ++ payload ++ rest.
Proof.
  intros code payload rest H. unfold t81_seg, zlen in *.
  rewrite t81_be16_be16 by lia. rewrite wrapU_small by (change (2 ^ 16) with 65536; lia).
  cbn [app]. rewrite <- app_assoc. reflexivity.
Qed.

Lemma t81_seg_nonempty : forall code payload, (1 <= length (t81_seg code payload))%nat.
Proof. intros. unfold t81_seg. cbn [app length]. lia. Qed.

(* ---------- table slots ---------- *)
Definition slot_ht (o : option tbt) : option htable :=
  match o with Some t => Some (ht_of (fst t) (snd t)) | None => None end.
Lemma t81g_set_length : forall {A} (l : list A) i v, length (t81g_set l i v) = length l.
Proof. induction l; intros [|i] v; cbn [t81g_set length]; try reflexivity. rewrite IHl. reflexivity. Qed.
Lemma t81g_set_Forall : forall {A} (Q : A -> Prop) (l : list A) i v, Forall Q l -> Q v -> Forall Q (t81g_set l i v).
Proof.
  induction l as [|x l IH]; intros i v Hl Hv; [destruct i; constructor|].
  inversion Hl; subst. destruct i; cbn [t81g_set]; constructor; try assumption. apply IH; assumption.
Qed.
Lemma t81g_set_upd : forall {A} (l : list A) i v, t81g_set l i v = upd l i v.
Proof. intros. reflexivity. Qed.
Lemma map_upd : forall {A B} (g : A -> B) (l : list A) i v, map g (upd l i v) = upd (map g l) i (g v).
Proof. induction l; intros [|i] v; cbn [map upd]; try reflexivity. rewrite IHl. reflexivity. Qed.

Lemma dht_apply_inv : forall tabs sl, forallb t81g_tab_ok tabs = true ->
  length sl = 4%nat -> Forall slot_ok sl ->
  length (t81g_dht_apply sl tabs) = 4%nat /\ Forall slot_ok (t81g_dht_apply sl tabs).
Proof.
  induction tabs as [|[[tc th] [bits vals]] tabs IH]; intros sl Hok Hl Hs; [split; assumption|].
  cbn [forallb] in Hok. apply andb_true_iff in Hok. destruct Hok as [Hok1 Hok2].
  unfold t81g_dht_apply. cbn [fold_left fst snd]. apply IH; [assumption| |].
  - destruct (tc =? 0); [rewrite t81g_set_length|]; assumption.
  - destruct (tc =? 0); [|assumption]. apply t81g_set_Forall; [assumption|].
    unfold t81g_tab_ok in Hok1. cbn [fst snd] in Hok1. rewrite !andb_true_iff in Hok1.
    destruct Hok1 as [_ Hok1]. exact Hok1.
Qed.

Lemma slots_of_inv : forall items seen sl, t81g_items_ok seen items = true ->
  length sl = 4%nat -> Forall slot_ok sl ->
  length (t81g_slots_of items sl) = 4%nat /\ Forall slot_ok (t81g_slots_of items sl).
Proof.
  induction items as [|it items IH]; intros seen sl Hok Hl Hs; [split; assumption|].
  destruct it as [code payload|tabs|]; cbn [t81g_items_ok t81g_slots_of] in *.
  - apply andb_true_iff in Hok. destruct Hok as [_ Hok]. eapply IH; eassumption.
  - apply andb_true_iff in Hok. destruct Hok as [Hit Hok].
    cbn [t81g_item_ok] in Hit. rewrite !andb_true_iff in Hit. destruct Hit as [[_ Hit] _].
    destruct (dht_apply_inv tabs sl Hit Hl Hs) as [L1 F1]. eapply IH; eassumption.
  - apply andb_true_iff in Hok. destruct Hok as [_ Hok]. eapply IH; eassumption.
Qed.

Lemma slot_lookup : forall slots td, 0 <= td -> t81g_slot_defined slots td = true ->
  znth (map slot_ht slots) td None = Some (ht_of (fst (tb_at slots td)) (snd (tb_at slots td))) /\
  nth (Z.to_nat td) slots None = Some (tb_at slots td).
Proof.
  intros slots td Htd Hd. unfold znth, tb_at, t81g_slot_defined in *.
  destruct (Z.ltb_spec td 0); [lia|].
  change (@None htable) with (slot_ht None). rewrite map_nth.
  destruct (nth (Z.to_nat td) slots None); [split; reflexivity | discriminate].
Qed.

(* ---------- one table of a DHT segment ---------- *)
Lemma tab_ok_parts : forall tc th bits vals, t81g_tab_ok (tc, th, (bits, vals)) = true ->
  (tc = 0 \/ tc = 1) /\ (th = 0 \/ th = 1 \/ th = 2 \/ th = 3) /\ t81_table_ok bits vals = true.
Proof.
  intros tc th bits vals H. unfold t81g_tab_ok in H. cbn [fst snd] in H. rewrite !andb_true_iff in H.
  destruct H as [[[H1 H2] H3] H4]. split; [|split; [|exact H4]].
  - apply orb_true_iff in H1. destruct H1 as [H1|H1]; apply Z.eqb_eq in H1; [left | right]; exact H1.
  - lia.
Qed.

Lemma ll_parse_dht_step : forall f tc th bits vals rest st,
  t81g_tab_ok (tc, th, (bits, vals)) = true ->
  ll_parse_dht (S f) (t81g_tab_bytes (tc, th, (bits, vals)) ++ rest) st =
  ll_parse_dht f rest
    (if tc =? 0 then mkD (d_w st) (d_h st) (d_comps st) (d_P st) (d_pred st)
                         (zupd (d_tabs st) th (Some (ht_of bits vals))) (d_sels st) else st).
Proof.
  intros f tc th bits vals rest st Hok.
  destruct (tab_ok_parts _ _ _ _ Hok) as (Htc & Hth & Ht).
  pose proof (table_ok_facts _ _ Ht) as F. pose proof (build_table_facts bits vals F) as Hbt.
  destruct F as [Fl Fb Fs Fv Fn Ff].
  unfold t81g_tab_bytes. cbn [fst snd app]. rewrite <- app_assoc. cbn [ll_parse_dht].
  assert (E1 : Z.land (Z.shiftr (16 * tc + th) 4) 15 = tc /\ Z.land (16 * tc + th) 15 = th).
  { destruct Htc as [-> | ->]; destruct Hth as [-> | [-> | [-> | ->]]]; split; reflexivity. }
  destruct E1 as [E1 E2]. rewrite E1, E2.
  destruct (Z.leb_spec 4 th); [lia|].
  destruct (Nat.ltb_spec (length (bits ++ vals ++ rest)) 16) as [Hlt|_]; [rewrite app_length in Hlt; lia|].
  rewrite <- Fl. rewrite firstn_len_app, skipn_len_app.
  rewrite Fs. destruct (Z.ltb_spec (zlen (vals ++ rest)) (zlen vals)) as [Hlt|_].
  { unfold zlen in Hlt. rewrite app_length in Hlt. lia. }
  unfold zlen. rewrite Nat2Z.id, firstn_len_app, skipn_len_app.
  rewrite Hbt. cbn [obind]. reflexivity.
Qed.

Lemma sv1_parse_dht_step : forall f tc th bits vals rest st,
  t81g_tab_ok (tc, th, (bits, vals)) = true ->
  sv1_parse_dht (S f) (t81g_tab_bytes (tc, th, (bits, vals)) ++ rest) st =
  sv1_parse_dht f rest
    (if tc =? 0 then mkS (s_w st) (s_h st) (s_P st) (s_comps st)
                         (zupd (s_tabs st) th (Some (ht_of bits vals))) else st).
Proof.
  intros f tc th bits vals rest st Hok.
  destruct (tab_ok_parts _ _ _ _ Hok) as (Htc & Hth & Ht).
  pose proof (table_ok_facts _ _ Ht) as F. pose proof (build_table_facts bits vals F) as Hbt.
  destruct F as [Fl Fb Fs Fv Fn Ff].
  unfold t81g_tab_bytes. cbn [fst snd app]. rewrite <- app_assoc. cbn [sv1_parse_dht].
  assert (E1 : Z.shiftr (16 * tc + th) 4 = tc /\ Z.land (16 * tc + th) 15 = th).
  { destruct Htc as [-> | ->]; destruct Hth as [-> | [-> | [-> | ->]]]; split; reflexivity. }
  destruct E1 as [E1 E2]. rewrite E1, E2.
  destruct (Z.ltb_spec 3 th); [lia|].
  destruct (Nat.ltb_spec (length (bits ++ vals ++ rest)) 16) as [Hlt|_]; [rewrite app_length in Hlt; lia|].
  rewrite <- Fl. rewrite firstn_len_app, skipn_len_app.
  rewrite Fs. destruct (Z.ltb_spec (zlen (vals ++ rest)) (zlen vals)) as [Hlt|_].
  { unfold zlen in Hlt. rewrite app_length in Hlt. lia. }
  unfold zlen. rewrite Nat2Z.id, firstn_len_app, skipn_len_app.
  rewrite Hbt. cbn [obind]. reflexivity.
Qed.

Lemma zupd_slots : forall slots th t, 0 <= th ->
  zupd (map slot_ht slots) th (Some (ht_of (fst t) (snd t))) = map slot_ht (t81g_set slots (Z.to_nat th) (Some t)).
Proof.
  intros slots th t Hth. unfold zupd. destruct (Z.ltb_spec th 0); [lia|].
  change (t81g_set slots (Z.to_nat th) (Some t)) with (upd slots (Z.to_nat th) (Some t)).
  rewrite map_upd. reflexivity.
Qed.

Lemma dht_payload_length : forall tabs, (length tabs <= length (t81g_dht_payload tabs))%nat.
Proof.
  induction tabs as [|t tabs IH]; [simpl; lia|]. unfold t81g_dht_payload in *. cbn [map concat length].
  rewrite app_length. unfold t81g_tab_bytes at 1. cbn [app length]. lia.
Qed.

Lemma extra_marker : forall code, (224 <= code <= 239 \/ code = 254) ->
  (65280 + code =? M_SOF3) = false /\ (65280 + code =? M_DHT) = false /\ (65280 + code =? M_SOS) = false /\
  (65280 + code =? M_EOI) = false /\ foreign_frame (65280 + code) = false /\ has_length (65280 + code) = true.
Proof.
  intros code H.
  assert (Hin : In code [224; 225; 226; 227; 228; 229; 230; 231; 232; 233; 234; 235; 236; 237; 238; 239; 254]).
  { cbn [In]. lia. }
  cbn [In] in Hin.
  repeat (destruct Hin as [<-|Hin]; [repeat split; reflexivity|]). contradiction.
Qed.

Lemma extra_ok_parts : forall code payload, t81_extra_ok (code, payload) = true ->
  (224 <= code <= 239 \/ code = 254) /\ zlen payload + 2 < 65536.
Proof.
  intros code payload H. unfold t81_extra_ok in H. cbn [fst snd] in H.
  apply andb_true_iff in H. destruct H as [H1 H2]. apply Z.ltb_lt in H2. unfold zlen. split; [|lia].
  apply orb_true_iff in H1. destruct H1 as [H1|H1]; [left | right; apply Z.eqb_eq; exact H1].
  apply andb_true_iff in H1. lia.
Qed.

Section Loop.
  Variables hv w h P : Z.
  Variable cids : list Z.
  Let comps := Z.of_nat (length cids).
  Hypothesis Hw : 1 <= w <= 65535.
  Hypothesis Hh : 1 <= h <= 65535.
  Hypothesis HP : 2 <= P <= 16.
  Hypothesis Hc : (length cids = 1 \/ length cids = 3)%nat.
  Hypothesis Hcid : Forall (fun c => 0 <= c < 256) cids.

  Definition sof_payload : list Z :=
    [P] ++ t81_be16 h ++ t81_be16 w ++ [Z.of_nat (length cids)] ++ flat_map (fun ci => [ci; t81g_hv hv cids; 0]) cids.
  Lemma sof_payload_len : zlen sof_payload = 6 + 3 * comps.
  Proof. unfold sof_payload, comps, zlen. destruct Hc as [E|E]; destruct cids as [|a [|b [|c [|d l]]]]; try discriminate; reflexivity. Qed.

  (* ---------- lossless.Decode ---------- *)
  Definition ll_st (seen : bool) (slots : list (option tbt)) : dstate :=
    if seen then mkD w h comps P 0 (map slot_ht slots) [0; 0; 0]
    else mkD 0 0 0 0 0 (map slot_ht slots) [0; 0; 0].

  Lemma ll_parse_dht_tabs : forall tabs fuel seen slots,
    (length tabs <= fuel)%nat -> forallb t81g_tab_ok tabs = true ->
    ll_parse_dht fuel (t81g_dht_payload tabs) (ll_st seen slots) = Ok (ll_st seen (t81g_dht_apply slots tabs)).
  Proof.
    induction tabs as [|[[tc th] [bits vals]] tabs IH]; intros fuel seen slots Hf Hok.
    - destruct fuel; reflexivity.
    - destruct fuel as [|f]; [simpl in Hf; lia|].
      cbn [forallb] in Hok. apply andb_true_iff in Hok. destruct Hok as [Hok1 Hok2].
      unfold t81g_dht_payload. cbn [map concat]. rewrite (ll_parse_dht_step f tc th bits vals _ _ Hok1).
      destruct (tab_ok_parts _ _ _ _ Hok1) as (_ & Hth & _).
      unfold t81g_dht_apply. cbn [fold_left fst snd].
      fold (t81g_dht_payload tabs).
      match goal with |- ll_parse_dht f _ ?s = Ok (ll_st seen (fold_left ?g tabs ?sl)) =>
        replace s with (ll_st seen sl); [apply (IH f seen sl); [simpl in Hf; lia | exact Hok2]|] end.
      destruct (tc =? 0); [|reflexivity].
      destruct seen; cbn [ll_st d_w d_h d_comps d_P d_pred d_tabs d_sels];
        pose proof (zupd_slots slots th (bits, vals) ltac:(lia)) as Ez; cbn [fst snd] in Ez;
        rewrite Ez; reflexivity.
  Qed.

  Lemma ll_sof_ok : forall slots, ll_parse_sof3 sof_payload (ll_st false slots) = Ok (ll_st true slots).
  Proof.
    intros slots. unfold sof_payload. rewrite !t81_be16_be16 by lia. unfold be16.
    set (tl := flat_map _ _). cbn [app].
    unfold ll_parse_sof3, ll_st. cbn [d_w d_h d_pred d_tabs d_sels].
    change (negb (0 =? 0) || negb (0 =? 0)) with false. cbv iota.
    destruct (znth6 P (byte_of (Z.shiftr h 8)) (byte_of h) (byte_of (Z.shiftr w 8))
                    (byte_of w) (Z.of_nat (length cids)) tl 0) as (E0 & E1 & E2 & E3 & E4 & E5).
    rewrite E0, E1, E2, E3, E4, E5.
    destruct (Z.ltb_spec (zlen (P :: byte_of (Z.shiftr h 8) :: byte_of h ::
               byte_of (Z.shiftr w 8) :: byte_of w :: Z.of_nat (length cids) :: tl)) 6) as [Hl|_].
    { unfold zlen in Hl. cbn [length] in Hl. lia. }
    destruct (be16_val h ltac:(lia)) as (Eh & _ & _). destruct (be16_val w ltac:(lia)) as (Ew & _ & _).
    rewrite Eh, Ew.
    destruct (Z.ltb_spec P 2); [lia|]. destruct (Z.ltb_spec 16 P); [lia|]. cbn [orb].
    destruct (Z.leb_spec w 0); [lia|]. destruct (Z.leb_spec h 0); [lia|]. cbn [orb].
    fold comps. destruct Hc as [E|E]; unfold comps; rewrite E; reflexivity.
  Qed.

  Lemma ll_loop_items : forall items fuel seen slots rest,
    (length items < fuel)%nat -> t81g_items_ok seen items = true ->
    ll_loop fuel (concat (map (t81g_item_bytes hv w h P cids) items) ++ rest) (ll_st seen slots) =
    ll_loop (fuel - length items) rest (ll_st true (t81g_slots_of items slots)).
  Proof.
    induction items as [|it items IH]; intros fuel seen slots rest Hf Hok.
    - cbn [t81g_items_ok] in Hok. subst seen. cbn [map concat app length t81g_slots_of].
      rewrite Nat.sub_0_r. reflexivity.
    - destruct fuel as [|f]; [lia|]. cbn [length] in Hf.
      cbn [map concat length t81g_slots_of Nat.sub]. rewrite <- app_assoc.
      destruct it as [code payload|tabs|]; cbn [t81g_items_ok t81g_item_bytes] in *.
      + apply andb_true_iff in Hok. destruct Hok as [Hit Hok]. cbn [t81g_item_ok] in Hit.
        destruct (extra_ok_parts _ _ Hit) as [Hcode Hlen].
        rewrite t81_seg_shape by assumption. rewrite ll_loop_step by lia. cbv zeta.
        destruct (extra_marker code Hcode) as (M1 & M2 & M3 & M4 & M5 & M6).
        rewrite M1, M2, M3, M4, M5, M6. apply IH; [lia | exact Hok].
      + apply andb_true_iff in Hok. destruct Hok as [Hit Hok]. cbn [t81g_item_ok] in Hit.
        rewrite !andb_true_iff in Hit. destruct Hit as [[_ Htabs] Hlen]. apply Z.ltb_lt in Hlen.
        rewrite t81_seg_shape by (unfold zlen; lia). rewrite ll_loop_step by (unfold zlen; lia). cbv zeta.
        change (65280 + 196 =? M_SOF3) with false. change (65280 + 196 =? M_DHT) with true. cbv iota.
        rewrite ll_parse_dht_tabs by (apply dht_payload_length || exact Htabs). cbn [obind].
        apply IH; [lia | exact Hok].
      + apply andb_true_iff in Hok. destruct Hok as [Hseen Hok]. destruct seen; [discriminate|].
        unfold t81g_sof3. fold sof_payload.
        pose proof sof_payload_len as Hsl.
        assert (Hcb : 1 <= comps <= 3) by (unfold comps; destruct Hc as [E|E]; rewrite E; lia).
        rewrite t81_seg_shape by lia. rewrite ll_loop_step by lia. cbv zeta.
        change (65280 + 195 =? M_SOF3) with true. cbv iota.
        rewrite ll_sof_ok. cbn [obind]. apply IH; [lia | exact Hok].
  Qed.
End Loop.

(* ---------- what a successful run of the generator says ---------- *)
Lemma t81_gen_inv : forall hv sel cids tds items w h P pixels s,
  t81_gen_hv hv sel cids tds items w h P pixels = Some s ->
  1 <= w <= 65535 /\ 1 <= h <= 65535 /\ 2 <= P <= 16 /\ 1 <= sel <= 7 /\ length tds = length cids /\
  Forall (fun td => 0 <= td <= 3) tds /\ Forall (fun c => 0 <= c < 256) cids /\ NoDup cids /\
  t81g_items_ok false items = true /\
  forallb (t81g_slot_defined (t81g_slots_of items [None; None; None; None])) tds = true /\
  exists ws, t81g_words (t81g_slots_of items [None; None; None; None]) tds
                        (t81_scan_diffs w h (Z.of_nat (length cids)) P sel pixels) = Some ws /\
    s = [255; 216] ++ concat (map (t81g_item_bytes hv w h P cids) items) ++ t81g_sos sel cids tds
        ++ t81_emit [] ws ++ [255; 217].
Proof.
  intros hv sel cids tds items w h P pixels s H. unfold t81_gen_hv in H. cbv zeta in H.
  match type of H with (if negb ?b then _ else _) = _ => destruct b eqn:Hchk end; cbn [negb] in H; [|discriminate].
  rewrite !andb_true_iff in Hchk.
  destruct Hchk as [[[[[[[[[[[[[[[[[[[C1 C2] C3] C4] C5] C6] C7] C8] C9] C10] C11] C12] C13] C14] C15] C16] C17] C18] C19] _].
  destruct (t81g_words _ tds _) as [ws|] eqn:Ew; [|discriminate]. injection H as <-.
  repeat match goal with |- _ /\ _ => split end; try lia.
  - apply Nat.eqb_eq. exact C11.
  - apply Forall_forall. intros td Hin. apply (proj1 (forallb_forall _ _) C12) in Hin. lia.
  - apply Forall_forall. intros c Hin. apply (proj1 (forallb_forall _ _) C13) in Hin. lia.
  - apply distinct_NoDup. exact C14.
  - exact C18.
  - exact C19.
  - exists ws. split; reflexivity.
Qed.

Lemma items_bytes_length : forall hv w h P cids items,
  (length items <= length (concat (map (t81g_item_bytes hv w h P cids) items)))%nat.
Proof.
  intros hv w h P cids. induction items as [|it items IH]; [simpl; lia|].
  cbn [map concat length]. rewrite app_length.
  assert (1 <= length (t81g_item_bytes hv w h P cids it))%nat.
  { destruct it; cbn [t81g_item_bytes]; apply t81_seg_nonempty. }
  lia.
Qed.

Lemma shiftr16 : forall t, 0 <= t <= 3 -> Z.shiftr (16 * t) 4 = t.
Proof. intros t Ht. rewrite Z.shiftr_div_pow2 by lia. change (2 ^ 4) with 16. rewrite Z.mul_comm, Z.div_mul; lia. Qed.

(* ---------- the scan header, lossless.Decode ---------- *)
Lemma ll_sos_ok1 : forall w h P tabs c0 t0 sel, 0 <= t0 <= 3 -> 1 <= sel <= 7 ->
  ll_parse_sos [1; c0; 16 * t0; sel; 0; 0] (mkD w h 1 P 0 tabs [0; 0; 0]) = Ok (mkD w h 1 P sel tabs [t0; 0; 0]).
Proof.
  intros w h P tabs c0 t0 sel Ht Hs. unfold ll_parse_sos. cbn [d_comps d_w d_h d_P d_tabs d_sels].
  set (data := [1; c0; 16 * t0; sel; 0; 0]).
  change (zlen data <? 1 + 1 * 2 + 3) with false. change (znth data 0 0) with 1.
  change (znth data (1 + 1 * 2) 0) with sel. cbv iota. change (negb (1 =? 1)) with false. cbv iota zeta.
  destruct (Z.ltb_spec sel 1); [lia|]. destruct (Z.ltb_spec 7 sel); [lia|]. cbn [orb].
  change (Z.to_nat 1) with 1%nat. cbn [ll_selectors].
  change (znth data (2 + 0 * 2) 0) with (16 * t0). rewrite shiftr16 by assumption.
  destruct (Z.leb_spec 4 t0); [lia|]. reflexivity.
Qed.

Lemma ll_sos_ok3 : forall w h P tabs c0 c1 c2 t0 t1 t2 sel,
  0 <= t0 <= 3 -> 0 <= t1 <= 3 -> 0 <= t2 <= 3 -> 1 <= sel <= 7 ->
  ll_parse_sos [3; c0; 16 * t0; c1; 16 * t1; c2; 16 * t2; sel; 0; 0] (mkD w h 3 P 0 tabs [0; 0; 0])
  = Ok (mkD w h 3 P sel tabs [t0; t1; t2]).
Proof.
  intros w h P tabs c0 c1 c2 t0 t1 t2 sel Ht0 Ht1 Ht2 Hs. unfold ll_parse_sos.
  cbn [d_comps d_w d_h d_P d_tabs d_sels].
  set (data := [3; c0; 16 * t0; c1; 16 * t1; c2; 16 * t2; sel; 0; 0]).
  change (zlen data <? 1 + 3 * 2 + 3) with false. change (znth data 0 0) with 3.
  change (znth data (1 + 3 * 2) 0) with sel. cbv iota. change (negb (3 =? 3)) with false. cbv iota zeta.
  destruct (Z.ltb_spec sel 1); [lia|]. destruct (Z.ltb_spec 7 sel); [lia|]. cbn [orb].
  change (Z.to_nat 3) with 3%nat. cbn [ll_selectors].
  change (znth data (2 + 0 * 2) 0) with (16 * t0). rewrite shiftr16 by assumption.
  destruct (Z.leb_spec 4 t0); [lia|].
  change (znth data (2 + (0 + 1) * 2) 0) with (16 * t1). rewrite shiftr16 by assumption.
  destruct (Z.leb_spec 4 t1); [lia|].
  change (znth data (2 + (0 + 1 + 1) * 2) 0) with (16 * t2). rewrite shiftr16 by assumption.
  destruct (Z.leb_spec 4 t2); [lia|]. reflexivity.
Qed.

(* ---------- lossless14sv1.Decode ---------- *)
(* the sampling byte of a single component is not looked at (numComponents = 1) *)
Lemma sv1_sof_comps_ok : forall hv (cs : list Z) a0 a1 a2 a3 a4 a5, (length cs = 1 \/ length cs = 3)%nat ->
  sv1_sof_comps (Z.of_nat (length cs)) (length cs) 0
                (a0 :: a1 :: a2 :: a3 :: a4 :: a5 :: flat_map (fun ci => [ci; t81g_hv hv cs; 0]) cs)
  = Ok (map (fun c => (c, 0)) cs).
Proof.
  intros hv cs a0 a1 a2 a3 a4 a5 [E|E].
  - destruct cs as [|c0 [|? ?]]; try discriminate. reflexivity.
  - destruct cs as [|c0 [|c1 [|c2 [|? ?]]]]; try discriminate. reflexivity.
Qed.

Section LoopSV1.
  Variables hv w h P : Z.
  Variable cids : list Z.
  Let comps := Z.of_nat (length cids).
  Hypothesis Hw : 1 <= w <= 65535.
  Hypothesis Hh : 1 <= h <= 65535.
  Hypothesis HP : 2 <= P <= 16.
  Hypothesis Hc : (length cids = 1 \/ length cids = 3)%nat.
  Hypothesis Hcid : Forall (fun c => 0 <= c < 256) cids.

  Definition sv1_st (seen : bool) (slots : list (option tbt)) : sstate :=
    if seen then mkS w h P (map (fun c => (c, 0)) cids) (map slot_ht slots)
    else mkS 0 0 0 [] (map slot_ht slots).

  Lemma sv1_parse_dht_tabs : forall tabs fuel seen slots,
    (length tabs <= fuel)%nat -> forallb t81g_tab_ok tabs = true ->
    sv1_parse_dht fuel (t81g_dht_payload tabs) (sv1_st seen slots) = Ok (sv1_st seen (t81g_dht_apply slots tabs)).
  Proof.
    induction tabs as [|[[tc th] [bits vals]] tabs IH]; intros fuel seen slots Hf Hok.
    - destruct fuel; reflexivity.
    - destruct fuel as [|f]; [simpl in Hf; lia|].
      cbn [forallb] in Hok. apply andb_true_iff in Hok. destruct Hok as [Hok1 Hok2].
      unfold t81g_dht_payload. cbn [map concat]. rewrite (sv1_parse_dht_step f tc th bits vals _ _ Hok1).
      destruct (tab_ok_parts _ _ _ _ Hok1) as (_ & Hth & _).
      unfold t81g_dht_apply. cbn [fold_left fst snd].
      fold (t81g_dht_payload tabs).
      match goal with |- sv1_parse_dht f _ ?s = Ok (sv1_st seen (fold_left ?g tabs ?sl)) =>
        replace s with (sv1_st seen sl); [apply (IH f seen sl); [simpl in Hf; lia | exact Hok2]|] end.
      destruct (tc =? 0); [|reflexivity].
      destruct seen; cbn [sv1_st s_w s_h s_P s_comps s_tabs];
        pose proof (zupd_slots slots th (bits, vals) ltac:(lia)) as Ez; cbn [fst snd] in Ez;
        rewrite Ez; reflexivity.
  Qed.

  Lemma sv1_sof_ok : forall slots, sv1_parse_sof3 (sof_payload hv w h P cids) (sv1_st false slots) = Ok (sv1_st true slots).
  Proof.
    intros slots. unfold sv1_parse_sof3, sv1_st. cbn [s_w s_h s_tabs].
    change (negb (0 =? 0) || negb (0 =? 0)) with false. cbv iota.
    rewrite sof_payload_len by assumption.
    unfold sof_payload. rewrite !t81_be16_be16 by lia. unfold be16.
    set (tl := flat_map _ _). cbn [app].
    destruct (znth6 P (byte_of (Z.shiftr h 8)) (byte_of h) (byte_of (Z.shiftr w 8))
                    (byte_of w) (Z.of_nat (length cids)) tl 0) as (E0 & E1 & E2 & E3 & E4 & E5).
    rewrite E0, E1, E2, E3, E4, E5.
    destruct (Z.ltb_spec (6 + 3 * Z.of_nat (length cids)) 6) as [Hl|_]; [lia|].
    destruct (be16_val h ltac:(lia)) as (Eh & _ & _). destruct (be16_val w ltac:(lia)) as (Ew & _ & _).
    rewrite Eh, Ew.
    destruct (Z.ltb_spec P 2); [lia|]. destruct (Z.ltb_spec 16 P); [lia|]. cbn [orb].
    destruct (Z.leb_spec w 0); [lia|]. destruct (Z.leb_spec h 0); [lia|]. cbn [orb].
    destruct (Z.ltb_spec (6 + 3 * Z.of_nat (length cids)) (6 + Z.of_nat (length cids) * 3)); [lia|].
    unfold tl. rewrite Nat2Z.id. rewrite (sv1_sof_comps_ok hv cids _ _ _ _ _ _ Hc).
    destruct Hc as [E|E]; rewrite E; reflexivity.
  Qed.

  Lemma sv1_loop_items : forall items fuel seen slots rest,
    (length items < fuel)%nat -> t81g_items_ok seen items = true ->
    sv1_loop fuel (concat (map (t81g_item_bytes hv w h P cids) items) ++ rest) (sv1_st seen slots) =
    sv1_loop (fuel - length items) rest (sv1_st true (t81g_slots_of items slots)).
  Proof.
    induction items as [|it items IH]; intros fuel seen slots rest Hf Hok.
    - cbn [t81g_items_ok] in Hok. subst seen. cbn [map concat app length t81g_slots_of].
      rewrite Nat.sub_0_r. reflexivity.
    - destruct fuel as [|f]; [lia|]. cbn [length] in Hf.
      cbn [map concat length t81g_slots_of Nat.sub]. rewrite <- app_assoc.
      destruct it as [code payload|tabs|]; cbn [t81g_items_ok t81g_item_bytes] in *.
      + apply andb_true_iff in Hok. destruct Hok as [Hit Hok]. cbn [t81g_item_ok] in Hit.
        destruct (extra_ok_parts _ _ Hit) as [Hcode Hlen].
        rewrite t81_seg_shape by assumption. rewrite sv1_loop_step by lia. cbv zeta.
        destruct (extra_marker code Hcode) as (M1 & M2 & M3 & M4 & M5 & M6).
        rewrite M1, M2, M3, M4, M5, M6. apply IH; [lia | exact Hok].
      + apply andb_true_iff in Hok. destruct Hok as [Hit Hok]. cbn [t81g_item_ok] in Hit.
        rewrite !andb_true_iff in Hit. destruct Hit as [[_ Htabs] Hlen]. apply Z.ltb_lt in Hlen.
        rewrite t81_seg_shape by (unfold zlen; lia). rewrite sv1_loop_step by (unfold zlen; lia). cbv zeta.
        change (65280 + 196 =? M_SOF3) with false. change (65280 + 196 =? M_DHT) with true. cbv iota.
        rewrite sv1_parse_dht_tabs by (apply dht_payload_length || exact Htabs). cbn [obind].
        apply IH; [lia | exact Hok].
      + apply andb_true_iff in Hok. destruct Hok as [Hseen Hok]. destruct seen; [discriminate|].
        unfold t81g_sof3. fold (sof_payload hv w h P cids).
        pose proof (sof_payload_len hv w h P cids Hc Hcid) as Hsl.
        assert (Hcb : 1 <= Z.of_nat (length cids) <= 3) by (destruct Hc as [E|E]; rewrite E; lia).
        rewrite t81_seg_shape by lia. rewrite sv1_loop_step by lia. cbv zeta.
        change (65280 + 195 =? M_SOF3) with true. cbv iota.
        rewrite sv1_sof_ok. cbn [obind]. apply IH; [lia | exact Hok].
  Qed.
End LoopSV1.

(* the scan header: predictor 1 only *)
Lemma sv1_sos_ok1 : forall w h P tabs c0 t0, 0 <= t0 <= 3 ->
  sv1_parse_sos [1; c0; 16 * t0; 1; 0; 0] (mkS w h P [(c0, 0)] tabs) = Ok (mkS w h P [(c0, t0)] tabs).
Proof.
  intros w h P tabs c0 t0 Ht. unfold sv1_parse_sos.
  set (data := [1; c0; 16 * t0; 1; 0; 0]).
  change (zlen data <? 1) with false. change (znth data 0 0) with 1.
  change (zlen data <? 1 + 1 * 2 + 3) with false. cbv iota. cbn [s_comps s_w s_h s_P s_tabs].
  change (Z.to_nat 1) with 1%nat. cbn [sv1_sos_comps].
  change (znth data (1 + 0 * 2 + 1) 0) with (16 * t0). change (znth data (1 + 0 * 2) 0) with c0.
  rewrite shiftr16 by assumption. cbn [sv1_set_sel]. rewrite Z.eqb_refl.
  destruct (Z.leb_spec 4 t0); [lia|]. cbn [obind].
  change (znth data (1 + 1 * 2) 0) with 1. reflexivity.
Qed.

Lemma sv1_sos_ok3 : forall w h P tabs c0 c1 c2 t0 t1 t2,
  0 <= t0 <= 3 -> 0 <= t1 <= 3 -> 0 <= t2 <= 3 -> NoDup [c0; c1; c2] ->
  sv1_parse_sos [3; c0; 16 * t0; c1; 16 * t1; c2; 16 * t2; 1; 0; 0] (mkS w h P [(c0, 0); (c1, 0); (c2, 0)] tabs)
  = Ok (mkS w h P [(c0, t0); (c1, t1); (c2, t2)] tabs).
Proof.
  intros w h P tabs c0 c1 c2 t0 t1 t2 Ht0 Ht1 Ht2 Hnd. unfold sv1_parse_sos.
  assert (N01 : c0 <> c1 /\ c0 <> c2 /\ c1 <> c2).
  { inversion Hnd as [|? ? H1 Hnd']; subst. inversion Hnd' as [|? ? H2 _]; subst. cbn [In] in *.
    repeat split; intros E; subst; tauto. }
  destruct N01 as (N01 & N02 & N12).
  set (data := [3; c0; 16 * t0; c1; 16 * t1; c2; 16 * t2; 1; 0; 0]).
  change (zlen data <? 1) with false. change (znth data 0 0) with 3.
  change (zlen data <? 1 + 3 * 2 + 3) with false. cbv iota. cbn [s_comps s_w s_h s_P s_tabs].
  change (Z.to_nat 3) with 3%nat. cbn [sv1_sos_comps].
  change (znth data (1 + 0 * 2 + 1) 0) with (16 * t0). change (znth data (1 + 0 * 2) 0) with c0.
  change (znth data (1 + (0 + 1) * 2 + 1) 0) with (16 * t1). change (znth data (1 + (0 + 1) * 2) 0) with c1.
  change (znth data (1 + (0 + 1 + 1) * 2 + 1) 0) with (16 * t2). change (znth data (1 + (0 + 1 + 1) * 2) 0) with c2.
  rewrite !shiftr16 by assumption. cbn [sv1_set_sel]. rewrite Z.eqb_refl.
  destruct (Z.leb_spec 4 t0); [lia|].
  cbn [sv1_set_sel]. destruct (Z.eqb_spec c0 c1); [contradiction|]. rewrite Z.eqb_refl.
  destruct (Z.leb_spec 4 t1); [lia|].
  cbn [sv1_set_sel]. destruct (Z.eqb_spec c0 c2); [contradiction|]. destruct (Z.eqb_spec c1 c2); [contradiction|].
  rewrite Z.eqb_refl. destruct (Z.leb_spec 4 t2); [lia|]. cbn [obind].
  change (znth data (1 + 3 * 2) 0) with 1. reflexivity.
Qed.
