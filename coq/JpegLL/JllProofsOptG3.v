(* BuildOptimalHuffmanTable for ANY 256 counters, part 3: counting the sizes, the value list and
   the general theorem build_optimal_gen_ok (no restriction on the alphabet). *)
From V Require Import Common.Base JpegLL.JllBits JpegLL.JllHuff JpegLL.JllModel JpegLL.JllT81
  JpegLL.JllProofsBits JpegLL.JllProofsHuff JpegLL.JllProofs JpegLL.JllProofsOpt JpegLL.JllProofsOpt2
  JpegLL.JllProofsOpt3 JpegLL.JllProofsOptG1 JpegLL.JllProofsOptG2.

Lemma delta256_all :
  forallb (fun c => (zsum (map (fun i => delta i c * w256 i) (seqZ 1 256)) =? wterm256 c)
                    && (zsum (map (fun i => delta i c) (seqZ 1 256)) =? (if 0 <? c then 1 else 0)))
          (seqZ 0 257) = true.
Proof. vm_compute. reflexivity. Qed.
Lemma delta256 : forall c, 0 <= c <= 256 ->
  zsum (map (fun i => delta i c * w256 i) (seqZ 1 256)) = wterm256 c /\
  zsum (map (fun i => delta i c) (seqZ 1 256)) = (if 0 <? c then 1 else 0).
Proof.
  intros c Hc. assert (Hin : In c (seqZ 0 257)) by (apply In_seqZ; lia).
  pose proof (proj1 (forallb_forall _ _) delta256_all c Hin) as H. cbv beta in H.
  apply andb_true_iff in H. destruct H as [H1 H2]. apply Z.eqb_eq in H1, H2. split; assumption.
Qed.

Lemma cnt_sums : forall cs, Forall (fun c => 0 <= c <= 256) cs ->
  zsum (map (fun i => cnt cs i * w256 i) (seqZ 1 256)) = wsum256 cs /\
  zsum (map (cnt cs) (seqZ 1 256)) = npos cs.
Proof.
  intros cs Hc. induction Hc as [|c cs Hc0 Hc IH].
  - split; [rewrite zsum_map_zero; [reflexivity | intros; reflexivity] |
            rewrite zsum_map_zero; [reflexivity | intros; reflexivity]].
  - destruct IH as [IH1 IH2]. destruct (delta256 c Hc0) as [D1 D2]. split.
    + rewrite (map_ext _ (fun i => delta i c * w256 i + cnt cs i * w256 i))
        by (intros i; rewrite cnt_cons; ring).
      rewrite zsum_map_add, D1, IH1. unfold wsum256. cbn [map zsum fold_right]. reflexivity.
    + rewrite (map_ext _ (fun i => delta i c + cnt cs i)) by (intros i; apply cnt_cons).
      rewrite zsum_map_add, D2, IH2. unfold npos, zlen. cbn [filter]. destruct (0 <? c); cbn [length]; lia.
Qed.

Lemma zsum_I257' : forall (g : Z -> Z), zsum (map g I257) = g 0 + zsum (map g (seqZ 1 256)).
Proof.
  intros g. rewrite zsum_I257. change (seqZ 1 256) with (seqZ 1 16 ++ seqZ 17 240).
  rewrite map_app, zsum_app. ring.
Qed.

Lemma Forall_of_znth : forall (P : Z -> Prop) (l : list Z),
  (forall i, 0 <= i < zlen l -> P (znth l i 0)) -> Forall P l.
Proof.
  intros P l H. apply Forall_forall. intros x Hx. destruct (In_nth _ _ 0 Hx) as (k & Hk & <-).
  specialize (H (Z.of_nat k) ltac:(unfold zlen; lia)). unfold znth in H.
  destruct (Z.ltb_spec (Z.of_nat k) 0); [lia|]. rewrite Nat2Z.id in H. exact H.
Qed.

Lemma znth_beyond : forall (l : list Z) k, zlen l <= k -> znth l k 0 = 0.
Proof.
  intros l k H. unfold znth, zlen in *. destruct (Z.ltb_spec k 0); [reflexivity|]. apply nth_overflow. lia.
Qed.

(* the count vector of Kraft-complete sizes satisfies the invariant of the limiting loop *)
Lemma count_sizes_linv : forall cs freqs, sizes256_ok cs freqs ->
  exists bits, count_sizes cs (repeat 0 257) = Ok bits /\ linv (npos cs) bits 256.
Proof.
  intros cs freqs (Hl & Hr & Hw & _ & _).
  destruct (count_sizes_spec cs (repeat 0 257) Hr eq_refl) as (bits & E & L & Hv).
  exists bits. split; [exact E|].
  assert (Hv' : forall i, 0 <= i < 257 -> znth bits i 0 = if 1 <=? i then cnt cs i else 0).
  { intros i Hi. rewrite Hv by exact Hi. change (repeat 0 257) with (repeat 0 (Z.to_nat 257)).
    rewrite znth_repeat by (rewrite Z2Nat.id; lia). lia. }
  destruct (cnt_sums cs Hr) as [C1 C2].
  pose proof (list_as_map bits) as El. replace (length bits) with 257%nat in El by (unfold zlen in L; lia).
  change (seqZ 0 257) with I257 in El.
  unfold linv. split; [exact L|]. split; [|split; [|split; [|split; [|split]]]].
  - apply Forall_of_znth. intros i Hi. rewrite L in Hi. rewrite Hv' by exact Hi.
    destruct (1 <=? i); [apply cnt_nonneg | lia].
  - rewrite Hv' by lia. reflexivity.
  - rewrite <- C2. transitivity (zsum (map (fun s => znth bits s 0) I257)); [f_equal; exact El|].
    rewrite zsum_I257'. rewrite Hv' by lia. cbn [Z.leb Z.compare]. rewrite Z.add_0_l. f_equal.
    apply map_ext_in. intros i Hi. apply In_seqZ_inv in Hi. rewrite Hv' by lia.
    destruct (Z.leb_spec 1 i); [reflexivity | lia].
  - pose proof (@filter_len_le Z (fun c => 0 <? c) cs). unfold npos, zlen. lia.
  - rewrite <- Hw, <- C1. unfold wS. rewrite zsum_I257'. rewrite Hv' by lia. cbn [Z.leb Z.compare].
    rewrite Z.mul_0_l, Z.add_0_l. f_equal.
    apply map_ext_in. intros i Hi. apply In_seqZ_inv in Hi. rewrite Hv' by lia.
    destruct (Z.leb_spec 1 i); [reflexivity | lia].
  - intros k Hk. apply znth_beyond. lia.
Qed.

(* the value list, for sizes up to 256 *)
Lemma opt_values_facts_gen : forall cs freqs, sizes256_ok cs freqs ->
  zlen (opt_values cs) = npos cs - 1 /\
  Forall (fun v => 0 <= v < 256) (opt_values cs) /\ NoDup (opt_values cs) /\
  (forall i, 0 <= i < 256 -> znth freqs i 0 <> 0 -> In i (opt_values cs)).
Proof.
  intros cs freqs (Hl & Hr & _ & H256 & Hcov).
  set (l := firstn 256 cs).
  assert (Hll : length l = 256%nat) by (unfold l; rewrite firstn_length; lia).
  assert (Hcs : cs = l ++ [znth cs 256 0]).
  { unfold l. rewrite <- (firstn_skipn 256 cs) at 1. f_equal.
    unfold znth. cbn [Z.ltb Z.compare Z.to_nat Pos.to_nat Pos.iter_op Nat.add].
    change (Pos.to_nat 256) with 256%nat.
    assert (Hs : length (skipn 256 cs) = 1%nat) by (rewrite skipn_length; lia).
    destruct (skipn 256 cs) as [|x [|y r]] eqn:E; try (simpl in Hs; lia).
    f_equal. rewrite <- (firstn_skipn 256 cs) at 1. rewrite app_nth2 by (rewrite firstn_length; lia).
    rewrite firstn_length. replace (256 - Init.Nat.min 256 (length cs))%nat with 0%nat by lia. rewrite E. reflexivity. }
  assert (Hc256 : 1 <= znth cs 256 0 <= 256).
  { split; [lia|]. assert (Hin : In (znth cs 256 0) cs) by (rewrite Hcs at 2; apply in_or_app; right; left; reflexivity).
    apply (proj1 (Forall_forall _ _) Hr) in Hin. lia. }
  unfold opt_values. fold l.
  assert (Hin_spec : forall x, In x (flat_map (fun size => syms_of_size l 0 size) (seqZ 1 256)) <->
                               0 <= x < 256 /\ 1 <= nth (Z.to_nat x) l 0 <= 256).
  { intros x. rewrite in_flat_map. split.
    - intros (size & Hs & Hx). apply In_seqZ_inv in Hs. apply syms_spec in Hx. unfold zlen in Hx. rewrite Hll, Z.sub_0_r in Hx. lia.
    - intros [H1 H2]. exists (nth (Z.to_nat x) l 0). split; [apply In_seqZ; lia|].
      apply syms_spec. unfold zlen. rewrite Hll, Z.sub_0_r. split; [lia | reflexivity]. }
  split; [|split; [|split]].
  - rewrite flat_map_zlen.
    rewrite (map_ext _ (fun s => cnt l s)) by (intros; apply syms_len).
    destruct (cnt_sums cs Hr) as [_ C2]. rewrite <- C2. rewrite Hcs at 1.
    rewrite (map_ext (cnt (l ++ [znth cs 256 0])) (fun i => cnt l i + delta i (znth cs 256 0))).
    2:{ intros i. rewrite cnt_app. f_equal. rewrite cnt_cons. unfold cnt, zlen. cbn. lia. }
    rewrite zsum_map_add. destruct (delta256 (znth cs 256 0) ltac:(lia)) as [_ D2]. rewrite D2.
    change (fun s : Z => cnt l s) with (cnt l).
    destruct (Z.ltb_spec 0 (znth cs 256 0)); lia.
  - apply Forall_forall. intros x Hx. apply Hin_spec in Hx. lia.
  - apply nodup_flat_map; [apply NoDup_seqZ | intros; apply syms_nodup |].
    intros s1 s2 x Hne H1 H2. apply syms_spec in H1. apply syms_spec in H2. destruct H1 as [_ H1]. destruct H2 as [_ H2]. congruence.
  - intros i Hi Hnz. apply Hin_spec. split; [lia|].
    specialize (Hcov i Hi Hnz).
    assert (E : nth (Z.to_nat i) l 0 = znth cs i 0).
    { unfold znth. destruct (Z.ltb_spec i 0); [lia|]. rewrite Hcs at 1. rewrite app_nth1 by lia. reflexivity. }
    rewrite E. assert (Hin : In (znth cs i 0) cs).
    { unfold znth. destruct (Z.ltb_spec i 0); [lia|]. apply nth_In. lia. }
    apply (proj1 (Forall_forall _ _) Hr) in Hin. lia.
Qed.

(* ---------- the general theorem ---------- *)
Theorem build_optimal_gen_ok : forall freqs, freqs_gen freqs ->
  (exists i, 0 <= i < 256 /\ znth freqs i 0 <> 0) ->
  exists bits vals, build_optimal freqs = Ok (bits, vals) /\ t81_table_ok bits vals = true /\
    (forall i, 0 <= i < 256 -> znth freqs i 0 <> 0 -> In i vals).
Proof.
  intros freqs Hok Hne. destruct (merge_result_kraft freqs Hok Hne) as (cs & Eloop & Hsz).
  destruct (count_sizes_linv cs freqs Hsz) as (bits0 & Ecnt & Hinv0).
  destruct (limit_all_ok _ _ Hinv0) as (bits' & Elim & Hinv').
  destruct (final_counts_ok _ _ Hinv') as (P4 & P1 & P2 & P3).
  destruct (opt_values_facts_gen cs freqs Hsz) as (Vl & Vb & Vn & Vc).
  exists (firstn 16 (skipn 1 (remove_pseudo 257 bits' 256))), (opt_values cs).
  split; [|split; [|exact Vc]].
  - rewrite build_optimal_unfold, Eloop, obind_Ok', Ecnt, obind_Ok', Elim. reflexivity.
  - apply table_ok_intro; try assumption. rewrite P2, Vl. reflexivity.
Qed.

(* the open statement of JllProofsOpt3 *)
Theorem build_optimal_no_panic : build_optimal_no_panic_statement.
Proof.
  intros freqs Hok.
  destruct (merge_result_gen freqs Hok) as (cs & Eloop & L & Hc).
  (* with all counters zero only the pseudo symbol is alive; either way the count vector of the
     merge result is handled: if some counter is non-zero by build_optimal_gen_ok ... *)
  assert (Hdec : (exists i, 0 <= i < 256 /\ znth freqs i 0 <> 0) \/ (forall i, 0 <= i < 256 -> znth freqs i 0 = 0)).
  { assert (G : forall n, (exists i, 0 <= i < Z.of_nat n /\ znth freqs i 0 <> 0) \/
                          (forall i, 0 <= i < Z.of_nat n -> znth freqs i 0 = 0)).
    { induction n as [|n IH]; [right; intros; lia|].
      destruct IH as [(i & Hi & Hnz)|Hall]; [left; exists i; split; [lia | exact Hnz]|].
      destruct (Z.eq_dec (znth freqs (Z.of_nat n) 0) 0) as [Hz|Hnz].
      - right. intros i Hi. destruct (Z.eq_dec i (Z.of_nat n)) as [->|]; [exact Hz | apply Hall; lia].
      - left. exists (Z.of_nat n). split; [lia | exact Hnz]. }
    exact (G 256%nat). }
  destruct Hdec as [Hne|Hall].
  - destruct (build_optimal_gen_ok freqs Hok Hne) as (bits & vals & E & _). exists (bits, vals). exact E.
  - (* ... and the all-zero vector is one concrete input *)
    assert (Ef : freqs = repeat 0 256).
    { destruct Hok as (Hlen & _ & _). apply list_ext_znth; [rewrite repeat_length; exact Hlen|].
      intros i Hi. unfold zlen in Hi. rewrite Hlen in Hi. rewrite Hall by lia.
      change (repeat 0 256) with (repeat 0 (Z.to_nat 256)). rewrite znth_repeat by (rewrite Z2Nat.id; lia). reflexivity. }
    rewrite Ef. eexists. vm_compute. reflexivity.
Qed.

(* BuildOptimalHuffmanTable including the final `_ = table.Build()` *)
Theorem build_optimal_table_gen_ok : forall freqs, freqs_gen freqs ->
  (exists i, 0 <= i < 256 /\ znth freqs i 0 <> 0) ->
  exists bits vals, build_optimal_table freqs = Ok (bits, vals) /\ t81_table_ok bits vals = true /\
    (forall i, 0 <= i < 256 -> znth freqs i 0 <> 0 -> In i vals).
Proof.
  intros freqs Hok Hne. destruct (build_optimal_gen_ok freqs Hok Hne) as (bits & vals & E & T & C).
  exists bits, vals. split; [|split; assumption]. unfold build_optimal_table. rewrite E, obind_Ok'.
  cbn [fst snd]. pose proof (build_table_never_panics bits vals) as Hp.
  destruct (build_table bits vals); try reflexivity. contradiction.
Qed.
