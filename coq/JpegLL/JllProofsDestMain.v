(* C13, second half: lossless.Decode and lossless14sv1.Decode (models) reconstruct the source of
   EVERY stream of the general T.81 generator (any table destinations, any valid tables, any
   header layout, any sampling factors H1, V1 in 1..4 of a single-component frame). *)
From V Require Import Common.Base JpegLL.JllBits JpegLL.JllHuff JpegLL.JllModel JpegLL.JllT81
  JpegLL.JllT81Gen JpegLL.JllProofsBits JpegLL.JllProofsHuff JpegLL.JllProofs JpegLL.JllProofsRT
  JpegLL.JllProofsT81 JpegLL.JllProofsDest JpegLL.JllProofsDestHdr.

Lemma slots0_ok : length [@None tbt; None; None; None] = 4%nat /\ Forall slot_ok [@None tbt; None; None; None].
Proof. split; [reflexivity | repeat constructor]. Qed.

Lemma ll_tab_lookup : forall slots td, 0 <= td -> t81g_slot_defined slots td = true ->
  opt_table (znth (map slot_ht slots) td None) = Ok (ht_of (fst (tb_at slots td)) (snd (tb_at slots td))).
Proof. intros slots td H0 Hd. destruct (slot_lookup slots td H0 Hd) as [E _]. rewrite E. reflexivity. Qed.

Theorem jll_decodes_t81_gen_hv : forall hv sel cids tds items w h P pixels s,
  (length cids = 1 \/ length cids = 3)%nat ->
  wf_image w h (Z.of_nat (length cids)) P pixels ->
  t81_gen_hv hv sel cids tds items w h P pixels = Some s ->
  jll_decode s = Ok (pixels, w, h, Z.of_nat (length cids), P).
Proof.
  intros hv sel cids tds items w h P pixels s Hc Hwf Hgen.
  destruct (t81_gen_inv _ _ _ _ _ _ _ _ _ _ Hgen) as (Hw & Hh & HP & Hsel & Hlt & Htds & Hcid & _ & Hitems & Hdef & ws & Ew & ->).
  set (slots := t81g_slots_of items [None; None; None; None]) in *.
  destruct slots0_ok as [L0 F0].
  destruct (slots_of_inv items false _ Hitems L0 F0) as [Ls Fs]. fold slots in Ls, Fs.
  destruct (gen_scan sel cids tds slots w h P pixels ws Hwf Hsel Hlt Fs Hdef Ew) as (Htok & bs & pad & E1 & E2 & Hcov & Hbits).
  destruct (rows_facts w h _ P pixels Hwf) as (Hlen & Hrows & Hback). rewrite Nat2Z.id in Hrows.
  rewrite E1.
  change ([255; 216] ++ ?r) with (be16 M_SOI ++ r). rewrite jll_decode_soi.
  match goal with |- ll_loop ?fu _ _ = _ => set (fuel := fu) end.
  change d_init with (ll_st w h P cids false [None; None; None; None]).
  pose proof (items_bytes_length hv w h P cids items) as Hil.
  rewrite (ll_loop_items hv w h P cids Hw Hh HP Hc Hcid items fuel false) by
    (try exact Hitems; unfold fuel; rewrite app_length; lia).
  fold slots.
  destruct (fuel - length items)%nat as [|f] eqn:Ef;
    [exfalso; unfold fuel in Ef; rewrite app_length in Ef; lia|].
  (* the scan header *)
  unfold t81g_sos.
  assert (Hdefs : forall td, In td tds -> 0 <= td <= 3 /\ t81g_slot_defined slots td = true).
  { intros td Hin. split; [apply (proj1 (Forall_forall _ _) Htds); exact Hin |
      apply (proj1 (forallb_forall _ _) Hdef); exact Hin]. }
  replace (Ok (pixels, w, h, Z.of_nat (length cids), P)) with
    (Ok (rows_to_pixels P (pixels_to_rows w h (Z.of_nat (length cids)) P pixels), w, h, Z.of_nat (length cids), P))
    by (rewrite Hback; reflexivity).
  assert (Hrec : forall r c l a al x, good P l -> good P a -> good P al -> good P x ->
            recon16 (ll_pred sel (2 ^ (P - 1)) r c l a al) (narrow_diff x (ll_pred sel (2 ^ (P - 1)) r c l a al)) = x).
  { intros r c l a al x _ _ _ Hx. apply (diff_reconstruct P x _ HP Hx). }
  destruct Hc as [Hc|Hc].
  - destruct cids as [|c0 [|? ?]]; try discriminate. destruct tds as [|t0 [|? ?]]; try discriminate.
    destruct (Hdefs t0 ltac:(left; reflexivity)) as [Ht0 Hd0].
    cbn [length combine flat_map app Z.of_nat Pos.of_succ_nat fst snd] in *.
    rewrite t81_seg_shape by (unfold zlen; cbn [length]; lia). rewrite ll_loop_step by (unfold zlen; cbn [length]; lia). cbv zeta.
    change (65280 + 218 =? M_SOF3) with false. change (65280 + 218 =? M_DHT) with false.
    change (65280 + 218 =? M_SOS) with true. cbv iota.
    unfold ll_st. cbn [length Z.of_nat Pos.of_succ_nat].
    rewrite ll_sos_ok1 by assumption. cbn [obind].
    unfold ll_decode_scan. cbn [d_w d_h d_comps d_P d_pred].
    rewrite ll_extract_stuff by assumption.
    assert (Htabs : ll_tabs (mkD w h 1 P sel (map slot_ht slots) [t0; 0; 0]) = htabs (map (tb_at slots) [t0])).
    { unfold ll_tabs. cbn [d_comps d_sels d_tabs]. change (Z.to_nat 1) with 1%nat. cbn [firstn map htabs].
      rewrite ll_tab_lookup by (lia || assumption). reflexivity. }
    rewrite Htabs.
    rewrite (dec_image_gen sel P (ll_pred sel (2 ^ (P - 1))) recon16 (fun _ _ _ _ _ => eq_refl) Hrec
               w h (map (tb_at slots) [t0]) (pixels_to_rows w h 1 P pixels) bs pad); try assumption; try lia; reflexivity.
  - destruct cids as [|c0 [|c1 [|c2 [|? ?]]]]; try discriminate.
    destruct tds as [|t0 [|t1 [|t2 [|? ?]]]]; try discriminate.
    destruct (Hdefs t0 ltac:(left; reflexivity)) as [Ht0 Hd0].
    destruct (Hdefs t1 ltac:(right; left; reflexivity)) as [Ht1 Hd1].
    destruct (Hdefs t2 ltac:(right; right; left; reflexivity)) as [Ht2 Hd2].
    cbn [length combine flat_map app Z.of_nat Pos.of_succ_nat Pos.succ fst snd] in *.
    rewrite t81_seg_shape by (unfold zlen; cbn [length]; lia). rewrite ll_loop_step by (unfold zlen; cbn [length]; lia). cbv zeta.
    change (65280 + 218 =? M_SOF3) with false. change (65280 + 218 =? M_DHT) with false.
    change (65280 + 218 =? M_SOS) with true. cbv iota.
    unfold ll_st. cbn [length Z.of_nat Pos.of_succ_nat Pos.succ].
    rewrite ll_sos_ok3 by assumption. cbn [obind].
    unfold ll_decode_scan. cbn [d_w d_h d_comps d_P d_pred].
    rewrite ll_extract_stuff by assumption.
    assert (Htabs : ll_tabs (mkD w h 3 P sel (map slot_ht slots) [t0; t1; t2]) = htabs (map (tb_at slots) [t0; t1; t2])).
    { unfold ll_tabs. cbn [d_comps d_sels d_tabs]. change (Z.to_nat 3) with 3%nat. cbn [firstn map htabs].
      rewrite !ll_tab_lookup by (lia || assumption). reflexivity. }
    rewrite Htabs.
    rewrite (dec_image_gen sel P (ll_pred sel (2 ^ (P - 1))) recon16 (fun _ _ _ _ _ => eq_refl) Hrec
               w h (map (tb_at slots) [t0; t1; t2]) (pixels_to_rows w h 3 P pixels) bs pad); try assumption; try lia; reflexivity.
Qed.

Lemma sv1_tab_lookup : forall slots td, 0 <= td <= 3 -> t81g_slot_defined slots td = true ->
  sv1_tab (map slot_ht slots) td = Ok (ht_of (fst (tb_at slots td)) (snd (tb_at slots td))).
Proof.
  intros slots td Ht Hd. unfold sv1_tab. destruct (Z.leb_spec 4 td); [lia|].
  apply ll_tab_lookup; [lia | exact Hd].
Qed.

Theorem sv1_decodes_t81_gen_hv : forall hv cids tds items w h P pixels s,
  (length cids = 1 \/ length cids = 3)%nat ->
  wf_image w h (Z.of_nat (length cids)) P pixels ->
  t81_gen_hv hv 1 cids tds items w h P pixels = Some s ->
  sv1_decode s = Ok (pixels, w, h, Z.of_nat (length cids), P).
Proof.
  intros hv cids tds items w h P pixels s Hc Hwf Hgen.
  destruct (t81_gen_inv _ _ _ _ _ _ _ _ _ _ Hgen) as (Hw & Hh & HP & Hsel & Hlt & Htds & Hcid & Hnd & Hitems & Hdef & ws & Ew & ->).
  set (slots := t81g_slots_of items [None; None; None; None]) in *.
  destruct slots0_ok as [L0 F0].
  destruct (slots_of_inv items false _ Hitems L0 F0) as [Ls Fs]. fold slots in Ls, Fs.
  destruct (gen_scan 1 cids tds slots w h P pixels ws Hwf Hsel Hlt Fs Hdef Ew) as (Htok & bs & pad & E1 & E2 & Hcov & Hbits).
  destruct (rows_facts w h _ P pixels Hwf) as (Hlen & Hrows & Hback). rewrite Nat2Z.id in Hrows.
  rewrite E1.
  change ([255; 216] ++ ?r) with (be16 M_SOI ++ r). rewrite sv1_decode_soi.
  match goal with |- sv1_loop ?fu _ _ = _ => set (fuel := fu) end.
  change s_init with (sv1_st w h P cids false [None; None; None; None]).
  pose proof (items_bytes_length hv w h P cids items) as Hil.
  rewrite (sv1_loop_items hv w h P cids Hw Hh HP Hc Hcid items fuel false) by
    (try exact Hitems; unfold fuel; rewrite app_length; lia).
  fold slots.
  destruct (fuel - length items)%nat as [|f] eqn:Ef;
    [exfalso; unfold fuel in Ef; rewrite app_length in Ef; lia|].
  unfold t81g_sos.
  assert (Hdefs : forall td, In td tds -> 0 <= td <= 3 /\ t81g_slot_defined slots td = true).
  { intros td Hin. split; [apply (proj1 (Forall_forall _ _) Htds); exact Hin |
      apply (proj1 (forallb_forall _ _) Hdef); exact Hin]. }
  replace (Ok (pixels, w, h, Z.of_nat (length cids), P)) with
    (Ok (rows_to_pixels P (pixels_to_rows w h (Z.of_nat (length cids)) P pixels), w, h, Z.of_nat (length cids), P))
    by (rewrite Hback; reflexivity).
  assert (Hrec : forall r c l a al x, good P l -> good P a -> good P al -> good P x ->
            recon (2 ^ P) (sv1_pred (2 ^ (P - 1)) r c l a al) (narrow_diff x (sv1_pred (2 ^ (P - 1)) r c l a al)) = x).
  { intros r c l a al x Hl Ha Hal Hx.
    apply (diff_reconstruct_single_wrap P x _ HP Hx (sv1_pred_good P r c l a al ltac:(lia) Hl Ha Hal)). }
  destruct Hc as [Hc|Hc].
  - destruct cids as [|c0 [|? ?]]; try discriminate. destruct tds as [|t0 [|? ?]]; try discriminate.
    destruct (Hdefs t0 ltac:(left; reflexivity)) as [Ht0 Hd0].
    cbn [length combine flat_map app Z.of_nat Pos.of_succ_nat fst snd] in *.
    rewrite t81_seg_shape by (unfold zlen; cbn [length]; lia). rewrite sv1_loop_step by (unfold zlen; cbn [length]; lia). cbv zeta.
    change (65280 + 218 =? M_SOF3) with false. change (65280 + 218 =? M_DHT) with false.
    change (65280 + 218 =? M_SOS) with true. cbv iota.
    unfold sv1_st. cbn [map].
    rewrite sv1_sos_ok1 by assumption. cbn [obind].
    unfold sv1_decode_scan. cbn [s_w s_h s_P s_comps s_tabs].
    rewrite sv1_extract_stuff by assumption.
    cbn [map snd]. rewrite sv1_tab_lookup by assumption.
    change [Ok (ht_of (fst (tb_at slots t0)) (snd (tb_at slots t0)))] with (htabs (map (tb_at slots) [t0])).
    rewrite (dec_image_gen 1 P (sv1_pred (2 ^ (P - 1))) (recon (2 ^ P)) (sv1_pred_eq (2 ^ (P - 1))) Hrec
               w h (map (tb_at slots) [t0]) (pixels_to_rows w h 1 P pixels) bs pad); try assumption; try lia; reflexivity.
  - destruct cids as [|c0 [|c1 [|c2 [|? ?]]]]; try discriminate.
    destruct tds as [|t0 [|t1 [|t2 [|? ?]]]]; try discriminate.
    destruct (Hdefs t0 ltac:(left; reflexivity)) as [Ht0 Hd0].
    destruct (Hdefs t1 ltac:(right; left; reflexivity)) as [Ht1 Hd1].
    destruct (Hdefs t2 ltac:(right; right; left; reflexivity)) as [Ht2 Hd2].
    cbn [length combine flat_map app Z.of_nat Pos.of_succ_nat Pos.succ fst snd] in *.
    rewrite t81_seg_shape by (unfold zlen; cbn [length]; lia). rewrite sv1_loop_step by (unfold zlen; cbn [length]; lia). cbv zeta.
    change (65280 + 218 =? M_SOF3) with false. change (65280 + 218 =? M_DHT) with false.
    change (65280 + 218 =? M_SOS) with true. cbv iota.
    unfold sv1_st. cbn [map].
    rewrite sv1_sos_ok3 by assumption. cbn [obind].
    unfold sv1_decode_scan. cbn [s_w s_h s_P s_comps s_tabs].
    rewrite sv1_extract_stuff by assumption.
    cbn [map snd]. rewrite !sv1_tab_lookup by assumption.
    change [Ok (ht_of (fst (tb_at slots t0)) (snd (tb_at slots t0)));
            Ok (ht_of (fst (tb_at slots t1)) (snd (tb_at slots t1)));
            Ok (ht_of (fst (tb_at slots t2)) (snd (tb_at slots t2)))] with (htabs (map (tb_at slots) [t0; t1; t2])).
    rewrite (dec_image_gen 1 P (sv1_pred (2 ^ (P - 1))) (recon (2 ^ P)) (sv1_pred_eq (2 ^ (P - 1))) Hrec
               w h (map (tb_at slots) [t0; t1; t2]) (pixels_to_rows w h 3 P pixels) bs pad); try assumption; try lia; reflexivity.
Qed.

(* ---------- what the decoders do NOT accept although T.81 allows it ---------- *)
(* The statement without the restriction to 1 or 3 components: T.81 allows Nf = 1..255 and up to
   4 components in an interleaved scan; both decoders return ErrInvalidComponents for 2 and 4. *)
Definition decoders_any_component_count_statement : Prop :=
  forall sel cids tds items w h P pixels s,
    t81_gen sel cids tds items w h P pixels = Some s ->
    jll_decode s = Ok (pixels, w, h, Z.of_nat (length cids), P).
Definition two_comp_stream : list Z :=
  [255; 216; 255; 195; 0; 14; 8; 0; 1; 0; 2; 2; 1; 17; 0; 2; 17; 0;
   255; 196; 0; 36; 0; 0; 1; 5; 1; 1; 1; 1; 1; 1; 1; 1; 1; 1; 1; 0; 0;
   0; 1; 2; 3; 4; 5; 6; 7; 8; 9; 10; 11; 12; 13; 14; 15; 16; 255; 218;
   0; 10; 2; 1; 0; 2; 0; 1; 0; 0; 240; 159; 19; 212; 212; 255; 217].
Theorem decoders_any_component_count_refuted :
  t81_gen 1 [1; 2] [0; 0] [GSof; GDht [(0, 0, (t81_std_bits, t81_std_vals))]] 2 1 8 [10; 20; 30; 40]
    = Some two_comp_stream /\
  t81_decode two_comp_stream = Some ([10; 20; 30; 40], 2, 1, 2, 8) /\
  jll_decode two_comp_stream = Err /\ sv1_decode two_comp_stream = Err /\
  ~ decoders_any_component_count_statement.
Proof.
  assert (E : t81_gen 1 [1; 2] [0; 0] [GSof; GDht [(0, 0, (t81_std_bits, t81_std_vals))]] 2 1 8 [10; 20; 30; 40]
              = Some two_comp_stream) by (vm_compute; reflexivity).
  assert (J : jll_decode two_comp_stream = Err) by (vm_compute; reflexivity).
  split; [exact E|]. split; [vm_compute; reflexivity|]. split; [exact J|]. split; [vm_compute; reflexivity|].
  intros H. specialize (H _ _ _ _ _ _ _ _ _ E). rewrite J in H. discriminate.
Qed.

(* A one-component frame whose sampling factors are H1 = V1 = 2 (T.81 A.1.1: with one component
   Hmax = H1, so the component has the dimensions of the image; A.2.2: a non-interleaved scan
   has one sample per MCU whatever H and V) is the same image as with H1 = V1 = 1.
   lossless.Decode ignores the factors.  History (finding F54): lossless14sv1.Decode checked
   H = V = 1 for every component and returned ErrUnsupportedFormat for this stream
   (sv1_grey_sampling_refuted, found by this file); the repaired parseSOF3 applies the check
   only when numComponents > 1, and the stream below is now an instance of
   sv1_decodes_t81_gen_hv_full. *)
Definition grey_h2v2_stream : list Z :=
  [255; 216; 255; 195; 0; 11; 8; 0; 1; 0; 2; 1; 1; 34; 0; 255; 196; 0;
   36; 0; 0; 1; 5; 1; 1; 1; 1; 1; 1; 1; 1; 1; 1; 1; 0; 0; 0; 1; 2; 3;
   4; 5; 6; 7; 8; 9; 10; 11; 12; 13; 14; 15; 16; 255; 218; 0; 8; 1; 1;
   0; 1; 0; 0; 240; 155; 95; 255; 217].
(* both decoders return the source of the former witness; it is the stream the generator writes
   for the sampling byte 0x22, and differs from the 0x11 stream in that byte only *)
Theorem grey_sampling_decoded :
  t81_gen_hv 34 1 [1] [0] [GSof; GDht [(0, 0, (t81_std_bits, t81_std_vals))]] 2 1 8 [10; 20]
    = Some grey_h2v2_stream /\
  t81_gen 1 [1] [0] [GSof; GDht [(0, 0, (t81_std_bits, t81_std_vals))]] 2 1 8 [10; 20]
    = Some (firstn 13 grey_h2v2_stream ++ [17] ++ skipn 14 grey_h2v2_stream) /\
  jll_decode grey_h2v2_stream = Ok ([10; 20], 2, 1, 1, 8) /\
  sv1_decode grey_h2v2_stream = Ok ([10; 20], 2, 1, 1, 8).
Proof. repeat split; vm_compute; reflexivity. Qed.

(* ---------- the generator only accepts well-formed images ---------- *)
Lemma le16_range : forall l, Forall (fun b => 0 <= b < 256) l -> Forall (fun v => 0 <= v < 65536) (le16 l).
Proof.
  intros l. remember (length l) as n eqn:Hn. revert l Hn.
  induction n as [n IH] using lt_wf_ind. intros l Hn F.
  destruct l as [|lo [|hi l]]; [constructor | constructor |].
  inversion F as [|? ? Hlo F']; subst. inversion F' as [|? ? Hhi F'']; subst.
  cbn [le16]. apply Forall_cons.
  - destruct (le16_val lo hi Hlo Hhi) as (_ & _ & E3). exact E3.
  - apply (IH (length l)); [simpl; lia | reflexivity | assumption].
Qed.

Lemma t81_gen_hv_wf : forall hv sel cids tds items w h P pixels s,
  (length cids = 1 \/ length cids = 3)%nat ->
  t81_gen_hv hv sel cids tds items w h P pixels = Some s ->
  wf_image w h (Z.of_nat (length cids)) P pixels.
Proof.
  intros hv sel cids tds items w h P pixels s Hc H. unfold t81_gen_hv in H. cbv zeta in H.
  match type of H with (if negb ?b then _ else _) = _ => destruct b eqn:Hchk end; cbn [negb] in H; [|discriminate].
  clear H. rewrite !andb_true_iff in Hchk.
  destruct Hchk as [[[[[[[[[[[[[[[[[[[C1 C2] C3] C4] C5] C6] C7] C8] C9] C10] C11] C12] C13] C14] C15] C16] C17] C18] C19] _].
  assert (HP : 2 <= P <= 16) by lia.
  assert (Hb : Forall (fun b => 0 <= b < 256) pixels).
  { apply Forall_forall. intros b Hin. apply (proj1 (forallb_forall _ _) C16) in Hin. lia. }
  unfold wf_image. split; [lia|]. split; [lia|]. split; [destruct Hc as [E|E]; rewrite E; [left | right]; reflexivity|].
  split; [exact HP|]. split; [|split; [exact Hb|]].
  - apply Z.eqb_eq in C15. unfold zlen. rewrite C15.
    destruct (bps_cases P HP) as [[H8 E]|[H8 E]]; rewrite E; destruct (Z.leb_spec P 8); lia.
  - assert (Hsamp : t81_samples P pixels = samples_of P pixels).
    { unfold t81_samples, samples_of. destruct (P <=? 8); [reflexivity | apply le_pairs_le16; assumption]. }
    rewrite Hsamp in C17. apply Forall_forall. intros v Hin.
    pose proof (proj1 (forallb_forall _ _) C17 v Hin) as Hv. apply Z.ltb_lt in Hv. split; [|exact Hv].
    unfold samples_of in Hin. destruct (P <=? 8).
    + apply (proj1 (Forall_forall _ _) Hb) in Hin. lia.
    + apply (proj1 (Forall_forall _ _) (le16_range pixels Hb)) in Hin. lia.
Qed.

Lemma t81_gen_wf : forall sel cids tds items w h P pixels s,
  (length cids = 1 \/ length cids = 3)%nat ->
  t81_gen sel cids tds items w h P pixels = Some s ->
  wf_image w h (Z.of_nat (length cids)) P pixels.
Proof. intros sel cids tds items w h P pixels s. apply (t81_gen_hv_wf 17). Qed.

(* the sampling byte the generator accepts: H1, V1 in 1..4 (T.81 Table B.2) *)
Lemma t81_gen_hv_sampling : forall hv sel cids tds items w h P pixels s,
  t81_gen_hv hv sel cids tds items w h P pixels = Some s ->
  1 <= hv / 16 <= 4 /\ 1 <= hv mod 16 <= 4.
Proof.
  intros hv sel cids tds items w h P pixels s H. unfold t81_gen_hv in H. cbv zeta in H.
  match type of H with (if negb ?b then _ else _) = _ => destruct b eqn:Hchk end; cbn [negb] in H; [|discriminate].
  apply andb_true_iff in Hchk. destruct Hchk as [_ Hhv]. unfold t81g_hv_ok in Hhv.
  rewrite !andb_true_iff in Hhv. lia.
Qed.

(* the headline theorems without the well-formedness hypothesis *)
Theorem jll_decodes_t81_gen_hv_full : forall hv sel cids tds items w h P pixels s,
  (length cids = 1 \/ length cids = 3)%nat ->
  t81_gen_hv hv sel cids tds items w h P pixels = Some s ->
  jll_decode s = Ok (pixels, w, h, Z.of_nat (length cids), P).
Proof.
  intros hv sel cids tds items w h P pixels s Hc H.
  apply (jll_decodes_t81_gen_hv hv sel cids tds items); [exact Hc | eapply t81_gen_hv_wf; eassumption | exact H].
Qed.

Theorem sv1_decodes_t81_gen_hv_full : forall hv cids tds items w h P pixels s,
  (length cids = 1 \/ length cids = 3)%nat ->
  t81_gen_hv hv 1 cids tds items w h P pixels = Some s ->
  sv1_decode s = Ok (pixels, w, h, Z.of_nat (length cids), P).
Proof.
  intros hv cids tds items w h P pixels s Hc H.
  apply (sv1_decodes_t81_gen_hv hv cids tds items); [exact Hc | eapply t81_gen_hv_wf; eassumption | exact H].
Qed.

(* all sampling factors 1 (t81_gen = t81_gen_hv 17) *)
Theorem jll_decodes_t81_gen_full : forall sel cids tds items w h P pixels s,
  (length cids = 1 \/ length cids = 3)%nat ->
  t81_gen sel cids tds items w h P pixels = Some s ->
  jll_decode s = Ok (pixels, w, h, Z.of_nat (length cids), P).
Proof. intros sel cids tds items w h P pixels s. apply (jll_decodes_t81_gen_hv_full 17). Qed.

Theorem sv1_decodes_t81_gen_full : forall cids tds items w h P pixels s,
  (length cids = 1 \/ length cids = 3)%nat ->
  t81_gen 1 cids tds items w h P pixels = Some s ->
  sv1_decode s = Ok (pixels, w, h, Z.of_nat (length cids), P).
Proof. intros cids tds items w h P pixels s. apply (sv1_decodes_t81_gen_hv_full 17). Qed.
