(* BuildOptimalHuffmanTable for ANY 256 counters, part 2: the libjpeg length limiting
     for size := 256; size > 16; size-- { for bits[size] > 0 { j := size-2; for bits[j]==0 {j--};
        bits[size] -= 2; bits[size-1]++; bits[j+1] += 2; bits[j]-- } }
   on ANY count vector that is Kraft-complete (sum_l bits[l] * 2^(256-l) = 2^256) with at most 257
   codes.  Invariant [linv]: 257 entries >= 0, bits[0] = 0, the number of codes and the Kraft sum
   do not change, nothing above the current size.  Safety argument (libjpeg's comment made
   precise): at the deepest used level i the count is even (Kraft equality modulo 2^(257-i)), so
   bits[i] >= 2; and if no level j <= i-2 were used, bits[i] + 2*bits[i-1] = 2^i >= 2^17, but
   there are only 257 codes - so the search for j stops at some j >= 1 (bits[0] = 0 is never
   read as non-zero, bits[-1] is never read).  Fuel: bits[i] <= 257 drops by 2 per step. *)
From V Require Import Common.Base JpegLL.JllBits JpegLL.JllHuff JpegLL.JllModel JpegLL.JllT81
  JpegLL.JllProofsBits JpegLL.JllProofsHuff JpegLL.JllProofs JpegLL.JllProofsOpt JpegLL.JllProofsOpt2
  JpegLL.JllProofsOpt3.

Definition I257 : list Z := seqZ 0 257.
Lemma I257_nodup : NoDup I257.
Proof. apply NoDup_seqZ. Qed.
Lemma I257_in : forall k, In k I257 <-> 0 <= k < 257.
Proof.
  intros k. split; intros H.
  - apply In_seqZ_inv in H. lia.
  - apply In_seqZ. lia.
Qed.
Lemma I257_split : I257 = seqZ 0 1 ++ seqZ 1 16 ++ seqZ 17 240.
Proof. reflexivity. Qed.
Global Opaque I257.

(* weighted sum of a 257-entry vector *)
Definition wS (w : Z -> Z) (l : list Z) : Z := zsum (map (fun k => znth l k 0 * w k) I257).
Definition w256 (k : Z) : Z := 2 ^ (256 - k).

Lemma in_I257_dec : forall i, 0 <= i < 257 -> forall (T : Type) (a b : T),
  (if in_dec Z.eq_dec i I257 then a else b) = a.
Proof.
  intros i Hi T a b. destruct (in_dec Z.eq_dec i I257) as [_|Hn]; [reflexivity|].
  exfalso. apply Hn. apply (proj2 (I257_in i)). exact Hi.
Qed.

Lemma wS_upd : forall w l i v, 0 <= i < 257 -> zlen l = 257 ->
  wS w (zupd l i v) = wS w l + (v - znth l i 0) * w i.
Proof.
  intros w l i v Hi Hl. unfold wS.
  set (g1 := fun k => znth (zupd l i v) k 0 * w k).
  set (g2 := fun k => znth l k 0 * w k).
  rewrite (sum_point g1 i I257 I257_nodup), (sum_point g2 i I257 I257_nodup).
  rewrite !in_I257_dec by exact Hi.
  assert (E : map (fun s => if s =? i then 0 else g1 s) I257 = map (fun s => if s =? i then 0 else g2 s) I257).
  { apply map_ext. intros s. destruct (Z.eqb_spec s i) as [|Hne]; [reflexivity|]. unfold g1, g2.
    rewrite znth_zupd_other by (intros E; apply Hne; symmetry; exact E). reflexivity. }
  rewrite E. unfold g1, g2. rewrite znth_zupd_same by lia. ring.
Qed.

Lemma zsum_divide : forall d (g : Z -> Z) l, (forall x, In x l -> (d | g x)) -> (d | zsum (map g l)).
Proof.
  intros d g l. induction l as [|a l IH]; intros H; cbn [map zsum fold_right].
  - apply Z.divide_0_r.
  - fold (zsum (map g l)). apply Z.divide_add_r; [apply H; left; reflexivity | apply IH; intros x Hx; apply H; right; exact Hx].
Qed.

Lemma znth_nonneg : forall l k, Forall (fun v => 0 <= v) l -> 0 <= znth l k 0.
Proof.
  intros l k H. unfold znth. destruct (k <? 0); [lia|].
  destruct (lt_dec (Z.to_nat k) (length l)) as [Hlt|Hge].
  - apply (proj1 (Forall_forall _ _) H). apply nth_In. exact Hlt.
  - rewrite nth_overflow by lia. lia.
Qed.

Lemma w256_double : forall k, 0 <= k < 256 -> w256 k = 2 * w256 (k + 1).
Proof.
  intros k Hk. unfold w256. replace (256 - k) with (1 + (256 - (k + 1))) by lia.
  rewrite Z.pow_add_r by lia. reflexivity.
Qed.
Lemma w256_pos : forall k, k <= 256 -> 0 < w256 k.
Proof. intros k Hk. unfold w256. apply Z.pow_pos_nonneg; lia. Qed.

(* the count at the deepest used level of a Kraft-complete vector is even *)
Lemma deepest_even : forall l i, zlen l = 257 -> wS w256 l = 2 ^ 256 -> 1 <= i <= 256 ->
  (forall k, i < k -> znth l k 0 = 0) -> exists m, znth l i 0 = 2 * m.
Proof.
  intros l i Hl Hk Hi Hz. unfold wS in Hk.
  set (g := fun k => znth l k 0 * w256 k) in Hk.
  rewrite (sum_point g i I257 I257_nodup) in Hk. rewrite in_I257_dec in Hk by lia.
  set (D := 2 ^ (257 - i)).
  assert (HD : (D | zsum (map (fun s => if s =? i then 0 else g s) I257))).
  { apply zsum_divide. intros s Hs. apply (proj1 (I257_in s)) in Hs.
    destruct (Z.eqb_spec s i) as [|Hne]; [apply Z.divide_0_r|]. unfold g.
    destruct (Z_lt_le_dec s i) as [Hlt|Hge].
    - apply Z.divide_mul_r. unfold D, w256. exists (2 ^ (i - 1 - s)).
      rewrite <- Z.pow_add_r by lia. f_equal. lia.
    - rewrite Hz by lia. rewrite Z.mul_0_l. apply Z.divide_0_r. }
  assert (H256 : (D | 2 ^ 256)).
  { unfold D. exists (2 ^ (i - 1)). rewrite <- Z.pow_add_r by lia. f_equal. lia. }
  assert (Hg : (D | g i)).
  { replace (g i) with (2 ^ 256 - zsum (map (fun s => if s =? i then 0 else g s) I257)) by lia.
    apply Z.divide_sub_r; assumption. }
  destruct Hg as (q & Hq). unfold g, w256 in Hq. unfold D in Hq.
  replace (257 - i) with (1 + (256 - i)) in Hq by lia. rewrite Z.pow_add_r in Hq by lia.
  exists q. assert (Hp : 0 < 2 ^ (256 - i)) by (apply Z.pow_pos_nonneg; lia).
  apply (Z.mul_reg_r _ _ (2 ^ (256 - i))); [lia|]. rewrite Hq. change (2 ^ 1) with 2. ring.
Qed.

(* ---------- the invariant ---------- *)
Definition linv (N : Z) (l : list Z) (s : Z) : Prop :=
  zlen l = 257 /\ Forall (fun v => 0 <= v) l /\ znth l 0 0 = 0 /\ zsum l = N /\ N <= 257 /\
  wS w256 l = 2 ^ 256 /\ (forall k, s < k -> znth l k 0 = 0).

(* some level below size-1 is used *)
Lemma prefix_must_exist : forall N l i, linv N l i -> 17 <= i <= 256 ->
  (forall k, 0 <= k <= i - 2 -> znth l k 0 = 0) -> False.
Proof.
  intros N l i (Hl & Hnn & H0 & Hs & HN & Hk & Hz) Hi Hlow. unfold wS in Hk.
  set (g := fun k => znth l k 0 * w256 k) in Hk.
  rewrite (sum_point g i I257 I257_nodup) in Hk. rewrite in_I257_dec in Hk by lia.
  rewrite (sum_point (fun s => if s =? i then 0 else g s) (i - 1) I257 I257_nodup) in Hk.
  rewrite in_I257_dec in Hk by lia.
  destruct (Z.eqb_spec (i - 1) i) as [|_]; [lia|].
  rewrite zsum_map_zero in Hk.
  2:{ intros s Hs'. apply (proj1 (I257_in s)) in Hs'.
      destruct (Z.eqb_spec s (i - 1)); [reflexivity|]. destruct (Z.eqb_spec s i); [reflexivity|]. unfold g.
      destruct (Z_lt_le_dec s i); [rewrite Hlow by lia | rewrite Hz by lia]; apply Z.mul_0_l. }
  unfold g in Hk. rewrite (w256_double (i - 1)) in Hk by lia. replace (i - 1 + 1) with i in Hk by lia.
  assert (Hp : 0 < w256 i) by (apply w256_pos; lia).
  assert (E : 2 ^ 256 = 2 ^ i * w256 i).
  { unfold w256. rewrite <- Z.pow_add_r by lia. f_equal. lia. }
  assert (E2 : (znth l i 0 + 2 * znth l (i - 1) 0) * w256 i = 2 ^ i * w256 i) by lia.
  apply Z.mul_reg_r in E2; [|lia].
  assert (H17 : 2 ^ 17 <= 2 ^ i) by (apply Z.pow_le_mono_r; lia).
  pose proof (znth_le_zsum l i Hnn ltac:(lia)) as B1.
  pose proof (znth_le_zsum l (i - 1) Hnn ltac:(lia)) as B2.
  change (2 ^ 17) with 131072 in H17. lia.
Qed.

Lemma find_prefix_dec : forall fuel l j0, j0 < Z.of_nat fuel ->
  (find_prefix fuel l j0 = None /\ forall k, 0 <= k <= j0 -> znth l k 0 = 0) \/
  (exists j, find_prefix fuel l j0 = Some j /\ 0 <= j <= j0 /\ znth l j 0 <> 0).
Proof.
  induction fuel as [|f IH]; intros l j0 Hf; cbn [find_prefix].
  - destruct (Z.ltb_spec j0 0); [|lia]. left. split; [reflexivity | intros; lia].
  - destruct (Z.ltb_spec j0 0) as [Hneg|Hge]; [left; split; [reflexivity | intros; lia]|].
    destruct (Z.eqb_spec (znth l j0 0) 0) as [Hz|Hnz]; cbn [negb].
    + destruct (IH l (j0 - 1) ltac:(lia)) as [[E Hall]|(j & E & Hj & Hnz)].
      * left. split; [exact E|]. intros k Hk. destruct (Z.eq_dec k j0) as [->|]; [exact Hz | apply Hall; lia].
      * right. exists j. split; [exact E|]. split; [lia | exact Hnz].
    + right. exists j0. split; [reflexivity|]. split; [lia | exact Hnz].
Qed.

(* one step of the inner loop *)
Definition lstep (l : list Z) (i j : Z) : list Z :=
  let b1 := zupd l i (znth l i 0 - 2) in
  let b2 := zupd b1 (i - 1) (znth b1 (i - 1) 0 + 1) in
  let b3 := zupd b2 (j + 1) (znth b2 (j + 1) 0 + 2) in
  zupd b3 j (znth b3 j 0 - 1).

Lemma lstep_ok : forall N l i, linv N l i -> 17 <= i <= 256 -> 0 < znth l i 0 ->
  exists j, find_prefix 300 l (i - 2) = Some j /\ linv N (lstep l i j) i /\
            znth (lstep l i j) i 0 = znth l i 0 - 2.
Proof.
  intros N l i Hinv Hi Hpos. pose proof Hinv as (Hl & Hnn & H0 & Hs & HN & Hk & Hz).
  assert (H300 : Z.of_nat 300 = 300) by reflexivity.
  destruct (find_prefix_dec 300 l (i - 2) ltac:(lia)) as [[_ Hall]|(j & E & Hj & Hnz)].
  { exfalso. exact (prefix_must_exist N l i Hinv Hi Hall). }
  exists j. split; [exact E|].
  assert (Hj1 : 1 <= j) by (destruct (Z.eq_dec j 0) as [->|]; [contradiction | lia]).
  destruct (deepest_even l i Hl Hk ltac:(lia) Hz) as (m & Hm).
  unfold lstep.
  set (b1 := zupd l i (znth l i 0 - 2)).
  set (b2 := zupd b1 (i - 1) (znth b1 (i - 1) 0 + 1)).
  set (b3 := zupd b2 (j + 1) (znth b2 (j + 1) 0 + 2)).
  set (b4 := zupd b3 j (znth b3 j 0 - 1)).
  assert (L1 : zlen b1 = 257) by (unfold b1, zlen in *; rewrite zupd_length; exact Hl).
  assert (L2 : zlen b2 = 257) by (unfold b2, zlen in *; rewrite zupd_length; exact L1).
  assert (L3 : zlen b3 = 257) by (unfold b3, zlen in *; rewrite zupd_length; exact L2).
  assert (L4 : zlen b4 = 257) by (unfold b4, zlen in *; rewrite zupd_length; exact L3).
  assert (F1 : Forall (fun v => 0 <= v) b1) by (apply Forall_zupd; [exact Hnn | lia]).
  assert (F2 : Forall (fun v => 0 <= v) b2).
  { apply Forall_zupd; [exact F1|]. pose proof (znth_nonneg b1 (i - 1) F1). lia. }
  assert (F3 : Forall (fun v => 0 <= v) b3).
  { apply Forall_zupd; [exact F2|]. pose proof (znth_nonneg b2 (j + 1) F2). lia. }
  assert (Ej : znth b3 j 0 = znth l j 0).
  { unfold b3, b2, b1. rewrite !znth_zupd_other by lia. reflexivity. }
  assert (F4 : Forall (fun v => 0 <= v) b4).
  { apply Forall_zupd; [exact F3|]. rewrite Ej. pose proof (znth_nonneg l j Hnn). lia. }
  assert (S1 : zsum b1 = zsum l - 2) by (unfold b1; rewrite zsum_zupd by lia; lia).
  assert (S2 : zsum b2 = zsum b1 + 1) by (unfold b2; rewrite zsum_zupd by lia; lia).
  assert (S3 : zsum b3 = zsum b2 + 2) by (unfold b3; rewrite zsum_zupd by lia; lia).
  assert (S4 : zsum b4 = zsum b3 - 1) by (unfold b4; rewrite zsum_zupd by lia; lia).
  assert (K1 : wS w256 b1 = wS w256 l - 2 * w256 i) by (unfold b1; rewrite wS_upd by lia; ring).
  assert (K2 : wS w256 b2 = wS w256 b1 + w256 (i - 1)) by (unfold b2; rewrite wS_upd by lia; ring).
  assert (K3 : wS w256 b3 = wS w256 b2 + 2 * w256 (j + 1)) by (unfold b3; rewrite wS_upd by lia; ring).
  assert (K4 : wS w256 b4 = wS w256 b3 - w256 j) by (unfold b4; rewrite wS_upd by lia; ring).
  pose proof (w256_double (i - 1) ltac:(lia)) as W1. replace (i - 1 + 1) with i in W1 by lia.
  pose proof (w256_double j ltac:(lia)) as W2.
  split.
  - unfold linv. split; [exact L4|]. split; [exact F4|]. split; [|split; [|split; [|split]]].
    + unfold b4, b3, b2, b1. rewrite !znth_zupd_other by lia. exact H0.
    + lia.
    + exact HN.
    + lia.
    + intros k Hk'. unfold b4, b3, b2, b1. rewrite !znth_zupd_other by lia. apply Hz. exact Hk'.
  - unfold b4, b3, b2. rewrite !znth_zupd_other by lia. unfold b1. rewrite znth_zupd_same by lia. reflexivity.
Qed.

Lemma limit_size_ok : forall fuel N l i, linv N l i -> 17 <= i <= 256 ->
  znth l i 0 <= 2 * Z.of_nat fuel ->
  exists l', limit_size fuel l i = Ok l' /\ linv N l' (i - 1).
Proof.
  induction fuel as [|f IH]; intros N l i Hinv Hi Hf.
  - cbn [limit_size]. destruct (Z.ltb_spec 0 (znth l i 0)) as [Hpos|Hle]; [cbn [Z.of_nat] in Hf; lia|].
    exists l. split; [reflexivity|]. destruct Hinv as (Hl & Hnn & H0 & Hs & HN & Hk & Hz).
    repeat (split; [assumption|]). intros k Hk'. destruct (Z.eq_dec k i) as [->|]; [|apply Hz; lia].
    pose proof (znth_nonneg l i Hnn). lia.
  - cbn [limit_size]. destruct (Z.ltb_spec 0 (znth l i 0)) as [Hpos|Hle].
    + destruct (lstep_ok N l i Hinv Hi Hpos) as (j & E & Hinv' & Hdec). rewrite E.
      change (exists l', limit_size f (lstep l i j) i = Ok l' /\ linv N l' (i - 1)).
      apply IH; [exact Hinv' | exact Hi | rewrite Hdec; lia].
    + exists l. split; [reflexivity|]. destruct Hinv as (Hl & Hnn & H0 & Hs & HN & Hk & Hz).
      repeat (split; [assumption|]). intros k Hk'. destruct (Z.eq_dec k i) as [->|]; [|apply Hz; lia].
      pose proof (znth_nonneg l i Hnn). lia.
Qed.

Lemma limit_all_ok_n : forall n N l, linv N l (16 + Z.of_nat n) -> (n <= 240)%nat ->
  exists l', limit_all (rev (seqZ 17 n)) l = Ok l' /\ linv N l' 16.
Proof.
  induction n as [|n IH]; intros N l Hinv Hn.
  - exists l. split; [reflexivity|]. cbn [Z.of_nat] in Hinv. rewrite Z.add_0_r in Hinv. exact Hinv.
  - replace (S n) with (n + 1)%nat by lia. rewrite seqZ_app, rev_app_distr. cbn [seqZ rev app limit_all].
    replace (16 + Z.of_nat (S n)) with (17 + Z.of_nat n) in Hinv by lia.
    assert (H300 : Z.of_nat 300 = 300) by reflexivity.
    destruct (limit_size_ok 300 N l (17 + Z.of_nat n) Hinv ltac:(lia)) as (l1 & E1 & Hinv1).
    { destruct Hinv as (Hl & Hnn & H0 & Hs & HN & Hk & Hz).
      pose proof (znth_le_zsum l (17 + Z.of_nat n) Hnn ltac:(lia)). lia. }
    rewrite E1, obind_Ok'. apply IH; [|lia].
    replace (16 + Z.of_nat n) with (17 + Z.of_nat n - 1) by lia. exact Hinv1.
Qed.

(* the whole limiting loop: no panic, no fuel exhaustion, nothing left above 16 *)
Theorem limit_all_ok : forall N l, linv N l 256 ->
  exists l', limit_all sizes_hi l = Ok l' /\ linv N l' 16.
Proof.
  intros N l Hinv. unfold sizes_hi. apply limit_all_ok_n; [|apply Nat.le_refl].
  assert (E : 16 + Z.of_nat 240 = 256) by reflexivity. rewrite E. exact Hinv.
Qed.

(* ---------- removal of the pseudo symbol ---------- *)
Lemma remove_pseudo_dec : forall fuel l size, size < Z.of_nat fuel ->
  (remove_pseudo fuel l size = l /\ forall k, 1 <= k <= size -> ~ 0 < znth l k 0) \/
  (exists d, 1 <= d <= size /\ 0 < znth l d 0 /\ (forall k, d < k <= size -> ~ 0 < znth l k 0) /\
             remove_pseudo fuel l size = zupd l d (znth l d 0 - 1)).
Proof.
  induction fuel as [|f IH]; intros l size Hf; cbn [remove_pseudo].
  - left. split; [reflexivity | intros; lia].
  - destruct (Z.leb_spec size 0) as [Hle|Hgt]; [left; split; [reflexivity | intros; lia]|].
    destruct (Z.ltb_spec 0 (znth l size 0)) as [Hpos|Hnp].
    + right. exists size. split; [lia|]. split; [exact Hpos|]. split; [intros; lia | reflexivity].
    + destruct (IH l (size - 1) ltac:(lia)) as [[E Hall]|(d & Hd & Hp & Hab & E)].
      * left. split; [exact E|]. intros k Hk. destruct (Z.eq_dec k size) as [->|]; [lia | apply Hall; lia].
      * right. exists d. split; [lia|]. split; [exact Hp|]. split; [|exact E].
        intros k Hk. destruct (Z.eq_dec k size) as [->|]; [lia | apply Hab; lia].
Qed.

Lemma two_le_zsum : forall l k d, Forall (fun v => 0 <= v) l -> 0 <= k < zlen l -> 0 <= d < zlen l -> k <> d ->
  znth l k 0 + znth l d 0 <= zsum l.
Proof.
  intros l k d Hnn Hk Hd Hne.
  assert (F : Forall (fun v => 0 <= v) (zupd l d 0)) by (apply Forall_zupd; [exact Hnn | lia]).
  pose proof (znth_le_zsum (zupd l d 0) k F ltac:(unfold zlen in *; rewrite zupd_length; lia)) as H.
  rewrite znth_zupd_other in H by (intros E; apply Hne; symmetry; exact E).
  rewrite zsum_zupd in H by lia. lia.
Qed.

Lemma sub16_as_map : forall l, length l = 257%nat ->
  firstn 16 (skipn 1 l) = map (fun k => znth l k 0) (seqZ 1 16).
Proof.
  intros l Hl. rewrite (list_as_map l) at 1. rewrite Hl.
  rewrite skipn_map, firstn_map. f_equal.
Qed.

Lemma t81_kraft_map : forall (g : Z -> Z) n s,
  t81_kraft (map g (seqZ s n)) s = zsum (map (fun i => g i * 2 ^ (16 - i)) (seqZ s n)).
Proof.
  induction n; intros s; cbn [seqZ map t81_kraft zsum fold_right]; [reflexivity|]. rewrite IHn. reflexivity.
Qed.

Lemma zsum_map_scale : forall c (g : Z -> Z) l, zsum (map (fun k => c * g k) l) = c * zsum (map g l).
Proof.
  intros c g l. induction l as [|a l IH]; cbn [map zsum fold_right]; [ring|].
  fold (zsum (map (fun k => c * g k) l)). fold (zsum (map g l)). rewrite IH. ring.
Qed.

Lemma zsum_I257 : forall (g : Z -> Z),
  zsum (map g I257) = g 0 + zsum (map g (seqZ 1 16)) + zsum (map g (seqZ 17 240)).
Proof.
  intros g. rewrite I257_split, !map_app, !zsum_app. cbn [seqZ map zsum fold_right]. ring.
Qed.

(* after the limiting: the 16 counts that go into the table *)
Theorem final_counts_ok : forall N l, linv N l 16 ->
  let b16 := firstn 16 (skipn 1 (remove_pseudo 257 l 256)) in
  length b16 = 16%nat /\ forallb (fun b => (0 <=? b) && (b <? 256)) b16 = true /\
  zsum b16 = N - 1 /\ (t81_kraft b16 1 <=? 65536) = true.
Proof.
  intros N l Hinv. pose proof Hinv as (Hl & Hnn & H0 & Hs & HN & Hk & Hz).
  assert (H257 : Z.of_nat 257 = 257) by reflexivity.
  destruct (remove_pseudo_dec 257 l 256 ltac:(lia)) as [[_ Hall]|(d & Hd & Hp & Hab & E)].
  { exfalso. unfold wS in Hk. rewrite zsum_map_zero in Hk.
    - assert (0 < 2 ^ 256) by (apply Z.pow_pos_nonneg; lia). lia.
    - intros k Hk'. apply (proj1 (I257_in k)) in Hk'. destruct (Z.eq_dec k 0) as [->|]; [rewrite H0; apply Z.mul_0_l|].
      specialize (Hall k ltac:(lia)). pose proof (znth_nonneg l k Hnn).
      replace (znth l k 0) with 0 by lia. apply Z.mul_0_l. }
  cbv zeta. rewrite E. clear E.
  assert (Hd16 : d <= 16).
  { destruct (Z_le_gt_dec d 16); [assumption|]. rewrite Hz in Hp by lia. lia. }
  assert (Hzd : forall k, d < k -> znth l k 0 = 0).
  { intros k Hk'. destruct (Z_le_gt_dec k 256).
    - specialize (Hab k ltac:(lia)). pose proof (znth_nonneg l k Hnn). lia.
    - apply Hz. lia. }
  destruct (deepest_even l d Hl Hk ltac:(lia) Hzd) as (m & Hm).
  set (l2 := zupd l d (znth l d 0 - 1)).
  assert (L2 : zlen l2 = 257) by (unfold l2, zlen in *; rewrite zupd_length; exact Hl).
  assert (F2 : Forall (fun v => 0 <= v) l2) by (apply Forall_zupd; [exact Hnn | lia]).
  assert (S2 : zsum l2 = N - 1) by (unfold l2; rewrite zsum_zupd by lia; lia).
  assert (K2 : wS w256 l2 = 2 ^ 256 - w256 d) by (unfold l2; rewrite wS_upd by lia; rewrite Hk; ring).
  assert (Z2 : forall k, 16 < k -> znth l2 k 0 = 0).
  { intros k Hk'. unfold l2. rewrite znth_zupd_other by lia. apply Hz. exact Hk'. }
  assert (H20 : znth l2 0 0 = 0) by (unfold l2; rewrite znth_zupd_other by lia; exact H0).
  rewrite sub16_as_map by (unfold zlen in L2; lia).
  split; [rewrite map_length, seqZ_length; reflexivity|]. split; [|split].
  - apply forallb_forall. intros x Hx. apply in_map_iff in Hx. destruct Hx as (k & <- & Hk').
    apply In_seqZ_inv in Hk'. apply andb_true_iff. split; [apply Z.leb_le; apply znth_nonneg; exact F2|].
    apply Z.ltb_lt. unfold l2. destruct (Z.eq_dec k d) as [->|Hne].
    + rewrite znth_zupd_same by lia. pose proof (znth_le_zsum l d Hnn ltac:(lia)). lia.
    + rewrite znth_zupd_other by (intros E; apply Hne; symmetry; exact E).
      pose proof (two_le_zsum l k d Hnn ltac:(lia) ltac:(lia) Hne). lia.
  - rewrite <- S2. pose proof (list_as_map l2) as El.
    replace (length l2) with 257%nat in El by (unfold zlen in L2; lia).
    change (seqZ 0 257) with I257 in El.
    transitivity (zsum (map (fun s => znth l2 s 0) I257)); [|f_equal; symmetry; exact El].
    rewrite zsum_I257. rewrite H20.
    rewrite (zsum_map_zero (fun s => znth l2 s 0) (seqZ 17 240)).
    + lia.
    + intros x Hx. apply In_seqZ_inv in Hx. apply Z2. lia.
  - apply Z.leb_le. rewrite t81_kraft_map.
    unfold wS in K2. rewrite zsum_I257 in K2. rewrite H20, Z.mul_0_l in K2.
    rewrite (zsum_map_zero _ (seqZ 17 240)) in K2.
    2:{ intros x Hx. apply In_seqZ_inv in Hx. rewrite Z2 by lia. apply Z.mul_0_l. }
    rewrite (map_ext_in _ (fun k => 2 ^ 240 * (znth l2 k 0 * 2 ^ (16 - k)))) in K2.
    2:{ intros k Hk'. apply In_seqZ_inv in Hk'. unfold w256. replace (256 - k) with (240 + (16 - k)) by lia.
        rewrite Z.pow_add_r by lia. ring. }
    rewrite zsum_map_scale in K2.
    pose proof (w256_pos d ltac:(lia)) as Hwd.
    set (T := zsum (map (fun i => znth l2 i 0 * 2 ^ (16 - i)) (seqZ 1 16))) in *.
    assert (E256 : 2 ^ 256 = 2 ^ 240 * 65536) by reflexivity.
    assert (P240 : 0 < 2 ^ 240) by reflexivity.
    apply (Z.mul_le_mono_pos_l _ _ (2 ^ 240) P240). lia.
Qed.
