(* C02_build_table_ok: the hypothesis table_hyp of the round-trip theorems always holds, and
   the unconditional round-trip / conformance theorems. *)
From V Require Import Common.Base JpegLL.JllBits JpegLL.JllHuff JpegLL.JllModel JpegLL.JllT81
  JpegLL.JllProofsBits JpegLL.JllProofsHuff JpegLL.JllProofs JpegLL.JllProofsRT JpegLL.JllProofsT81
  JpegLL.JllProofsCanon JpegLL.JllProofsT81Dec
  JpegLL.JllProofsOpt JpegLL.JllProofsOpt2 JpegLL.JllProofsOpt3.

(* ---------- count_freqs ---------- *)
Definition fstep (fr : list Z) (d : Z) : list Z :=
  let c := diff_category d in zupd fr c (znth fr c 0 + 1).

Lemma count_freqs_fold : forall diffs, count_freqs diffs = fold_left fstep diffs (repeat 0 256).
Proof. reflexivity. Qed.

Lemma fstep_facts : forall fr d, length fr = 256%nat -> Forall (fun v => 0 <= v) fr -> -32768 <= d <= 32767 ->
  length (fstep fr d) = 256%nat /\ Forall (fun v => 0 <= v) (fstep fr d) /\
  zsum (fstep fr d) = zsum fr + 1 /\
  (forall i, znth fr i 0 <= znth (fstep fr d) i 0) /\
  0 < znth (fstep fr d) (diff_category d) 0 /\
  (forall i, 17 <= i -> znth (fstep fr d) i 0 = znth fr i 0).
Proof.
  intros fr d Hl Hnn Hd. unfold fstep. cbv zeta.
  pose proof (cat_exhaustive d Hd) as Hc. destruct (encode_lossless_diff d) as [cat mag]. destruct Hc as (Hc1 & _ & Hc3).
  rewrite <- Hc3.
  assert (Hge : 0 <= znth fr cat 0).
  { unfold znth. destruct (Z.ltb_spec cat 0); [lia|]. apply (proj1 (Forall_forall _ _) Hnn). apply nth_In. lia. }
  split; [rewrite zupd_length; assumption|]. split; [apply Forall_zupd; [assumption | lia]|].
  split; [rewrite zsum_zupd by (unfold zlen; lia); lia|]. split; [|split].
  - intros i. destruct (Z.eq_dec i cat) as [->|Hne].
    + rewrite znth_zupd_same by (unfold zlen; lia). lia.
    + rewrite znth_zupd_other by (intros E; apply Hne; symmetry; exact E). lia.
  - rewrite znth_zupd_same by (unfold zlen; lia). lia.
  - intros i Hi. apply znth_zupd_other. lia.
Qed.

Lemma fold_fstep_facts : forall diffs fr, length fr = 256%nat -> Forall (fun v => 0 <= v) fr ->
  Forall (fun d => -32768 <= d <= 32767) diffs ->
  let fr' := fold_left fstep diffs fr in
  length fr' = 256%nat /\ Forall (fun v => 0 <= v) fr' /\ zsum fr' = zsum fr + zlen diffs /\
  (forall i, znth fr i 0 <= znth fr' i 0) /\
  (forall d, In d diffs -> 0 < znth fr' (diff_category d) 0) /\
  (forall i, 17 <= i -> znth fr' i 0 = znth fr i 0).
Proof.
  induction diffs as [|d ds IH]; intros fr Hl Hnn Hd; cbn [fold_left]; cbv zeta.
  - split; [assumption|]. split; [assumption|]. split; [unfold zlen; cbn; lia|].
    split; [intros; lia|]. split; [intros d []|]. intros; reflexivity.
  - inversion Hd as [|? ? Hd0 Hd']; subst.
    destruct (fstep_facts fr d Hl Hnn Hd0) as (S1 & S2 & S3 & S4 & S5 & S6).
    destruct (IH (fstep fr d) S1 S2 Hd') as (T1 & T2 & T3 & T4 & T5 & T6). cbv zeta in *.
    split; [exact T1|]. split; [exact T2|]. split; [|split; [|split]].
    + rewrite T3, S3. unfold zlen. cbn [length]. lia.
    + intros i. specialize (S4 i). specialize (T4 i). lia.
    + intros d' [E|Hin]; [subst d'; specialize (T4 (diff_category d)); lia | apply T5; exact Hin].
    + intros i Hi. rewrite T6, S6 by assumption. reflexivity.
Qed.

(* ---------- C02_build_table_ok ---------- *)
Theorem table_hyp_holds : forall diffs, diffs <> [] -> Forall (fun d => -32768 <= d <= 32767) diffs ->
  zlen diffs < 2 ^ 63 -> table_hyp diffs.
Proof.
  intros diffs Hne Hr Hlen.
  destruct (fold_fstep_facts diffs (repeat 0 256) (repeat_length _ _)
              ltac:(apply Forall_forall; intros v Hv; apply repeat_spec in Hv; lia) Hr)
    as (F1 & F2 & F3 & _ & F5 & F6). cbv zeta in *. rewrite <- count_freqs_fold in *.
  assert (Hz0 : zsum (repeat 0 256) = 0) by reflexivity.
  assert (Hok : freqs_ok (count_freqs diffs)).
  { split; [exact F1|]. split; [exact F2|]. split; [|lia].
    intros i Hi. rewrite F6 by lia. apply znth_repeat. lia. }
  assert (Hcat : forall d, In d diffs -> 0 <= diff_category d <= 16).
  { intros d Hd. apply (proj1 (Forall_forall _ _) Hr) in Hd. pose proof (cat_exhaustive d Hd) as Hc.
    destruct (encode_lossless_diff d) as [cat mag]. destruct Hc as (Hc1 & _ & Hc3). lia. }
  assert (Hex : exists i, 0 <= i < 256 /\ znth (count_freqs diffs) i 0 <> 0).
  { destruct diffs as [|d ds]; [contradiction|]. exists (diff_category d).
    specialize (Hcat d (or_introl eq_refl)). specialize (F5 d (or_introl eq_refl)). split; lia. }
  destruct (build_optimal_ok (count_freqs diffs) Hok Hex) as (bits & vals & E1 & E2 & E3).
  exists bits, vals. split; [exact E1|]. split; [exact E2|].
  apply Forall_forall. intros d Hd. apply E3.
  - specialize (Hcat d Hd). lia.
  - specialize (F5 d Hd). lia.
Qed.

(* the difference sequence of an image: all in int16, one per sample *)
Lemma ll_diffs_facts : forall w h comps P pred pixels, wf_image w h comps P pixels ->
  let diffs := ll_diffs w comps P pred (pixels_to_rows w h comps P pixels) in
  diffs <> [] /\ Forall (fun d => -32768 <= d <= 32767) diffs /\ zlen diffs < 2 ^ 63.
Proof.
  intros w h comps P pred pixels Hwf. cbv zeta.
  destruct (rows_facts w h comps P pixels Hwf) as (Hlen & Hrows & _).
  pose proof Hwf as (Hw & Hh & Hc & HP & _).
  set (rows := pixels_to_rows w h comps P pixels) in *.
  set (c := Z.to_nat comps).
  rewrite ll_diffs_rows_map. fold c.
  assert (Hr : Forall (fun d => -32768 <= d <= 32767)
                      (rows_map (fdiff (ll_pred pred (2 ^ (P - 1)))) true (repeat 0 c) (repeat (repeat 0 c) (Z.to_nat w)) rows)).
  { apply rows_map_Forall. intros. apply narrow16_range. }
  assert (Hlen_d : length (rows_map (fdiff (ll_pred pred (2 ^ (P - 1)))) true (repeat 0 c) (repeat (repeat 0 c) (Z.to_nat w)) rows)
                   = (length rows * Z.to_nat w * c)%nat).
  { rewrite (rows_map_Drows pred P).
    assert (HD : Forall (fun v => length v = c) (Drows pred P true (repeat 0 c) (repeat (repeat 0 c) (Z.to_nat w)) rows)).
    { apply Drows_pxok.
      - apply Forall_forall. intros row Hrow. apply (proj1 (Forall_forall _ _) Hrows) in Hrow. destruct Hrow as [_ Hrow].
        eapply Forall_impl; [|exact Hrow]. intros px [Hp _]. exact Hp.
      - apply Forall_forall. intros x Hx. apply repeat_spec in Hx. subst x. apply repeat_length. }
    assert (Hcl : forall (D : list (list Z)), Forall (fun v => length v = c) D -> length (concat D) = (length D * c)%nat).
    { induction D as [|v D IH]; intros HF; [reflexivity|]. inversion HF; subst. cbn [concat length]. rewrite app_length, IH by assumption. lia. }
    rewrite Hcl by assumption. f_equal.
    apply Drows_length; [apply repeat_length|].
    eapply Forall_impl; [|exact Hrows]. intros row [Hrl _]. exact Hrl. }
  split; [|split; [exact Hr|]].
  - intros E. rewrite E in Hlen_d. cbn [length] in Hlen_d. rewrite Hlen in Hlen_d. unfold c in Hlen_d. nia.
  - unfold zlen. rewrite Hlen_d, Hlen. unfold c.
    assert (Z.of_nat (Z.to_nat h * Z.to_nat w * Z.to_nat comps) = h * w * comps) by lia.
    rewrite H. assert (h * w * comps <= 65535 * 65535 * 3) by nia. change (2 ^ 63) with 9223372036854775808. lia.
Qed.

Lemma sv1_diffs_facts : forall w h comps P pixels, wf_image w h comps P pixels ->
  let diffs := sv1_diffs w comps P (pixels_to_rows w h comps P pixels) in
  diffs <> [] /\ Forall (fun d => -32768 <= d <= 32767) diffs /\ zlen diffs < 2 ^ 63.
Proof. intros w h comps P pixels Hwf. cbv zeta. rewrite sv1_diffs_eq. apply (ll_diffs_facts w h comps P 1 pixels Hwf). Qed.

(* ---------- the unconditional theorems ---------- *)
Theorem jll_table_hyp : forall w h comps P pred pixels, wf_image w h comps P pixels ->
  table_hyp (ll_diffs w comps P pred (pixels_to_rows w h comps P pixels)).
Proof.
  intros. destruct (ll_diffs_facts w h comps P pred pixels H) as (H1 & H2 & H3). apply table_hyp_holds; assumption.
Qed.

Theorem sv1_table_hyp : forall w h comps P pixels, wf_image w h comps P pixels ->
  table_hyp (sv1_diffs w comps P (pixels_to_rows w h comps P pixels)).
Proof.
  intros. destruct (sv1_diffs_facts w h comps P pixels H) as (H1 & H2 & H3). apply table_hyp_holds; assumption.
Qed.

Theorem jll_roundtrip_full : forall w h comps P pred pixels s,
  wf_image w h comps P pixels -> 0 <= pred <= 7 ->
  jll_encode w h comps P pred pixels = Ok s ->
  jll_decode s = Ok (pixels, w, h, comps, P).
Proof.
  intros w h comps P pred pixels s Hwf Hp Henc.
  exact (jll_roundtrip w h comps P pred pixels s Hwf Hp (jll_table_hyp _ _ _ _ _ _ Hwf) Henc).
Qed.

Theorem sv1_roundtrip_full : forall w h comps P pixels s,
  wf_image w h comps P pixels -> sv1_encode w h comps P pixels = Ok s ->
  sv1_decode s = Ok (pixels, w, h, comps, P).
Proof.
  intros w h comps P pixels s Hwf Henc.
  exact (sv1_roundtrip w h comps P pixels s Hwf (sv1_table_hyp _ _ _ _ _ Hwf) Henc).
Qed.

(* the encoders never fail on a well-formed image *)
Theorem jll_encode_total : forall w h comps P pred pixels,
  wf_image w h comps P pixels -> 0 <= pred <= 7 -> exists s, jll_encode w h comps P pred pixels = Ok s.
Proof.
  intros w h comps P pred pixels Hwf Hp.
  destruct (jll_table_hyp w h comps P (effective_pred w h comps P pred pixels) pixels Hwf) as (bits & vals & E & _ & _).
  rewrite (jll_encode_fwd _ _ _ _ _ _ Hwf Hp). rewrite (encode_stream_fwd _ _ _ _ _ _ bits vals E). eexists. reflexivity.
Qed.

Theorem t81_decodes_jll_full : forall w h comps P pred pixels s,
  wf_image w h comps P pixels -> 0 <= pred <= 7 ->
  jll_encode w h comps P pred pixels = Ok s ->
  t81_decode s = Some (pixels, w, h, comps, P).
Proof.
  intros w h comps P pred pixels s Hwf Hp Henc.
  exact (t81_decodes_jll w h comps P pred pixels s Hwf Hp (jll_table_hyp _ _ _ _ _ _ Hwf) Henc).
Qed.

Theorem t81_decodes_sv1_full : forall w h comps P pixels s,
  wf_image w h comps P pixels -> sv1_encode w h comps P pixels = Ok s ->
  t81_decode s = Some (pixels, w, h, comps, P).
Proof.
  intros w h comps P pixels s Hwf Henc.
  exact (t81_decodes_sv1 w h comps P pixels s Hwf (sv1_table_hyp _ _ _ _ _ Hwf) Henc).
Qed.
