(* BuildOptimalHuffmanTable (JllHuff.build_optimal): the merge loop keeps a forest of code trees
   stored as linked chains in the [others] array; every tree satisfies the Kraft equality.
   Part A of C02_build_table_ok. *)
From V Require Import Common.Base JpegLL.JllBits JpegLL.JllHuff JpegLL.JllModel JpegLL.JllT81
  JpegLL.JllProofsBits JpegLL.JllProofsHuff.
From Coq Require Import Permutation.

Notation NS := 257 (only parsing).

(* ---------- chains in the others array ---------- *)
Inductive chain_of (others : list Z) : Z -> list Z -> Prop :=
| ch_last : forall s, 0 <= s < NS -> znth others s (-1) < 0 -> chain_of others s [s]
| ch_cons : forall s t l, 0 <= s < NS -> znth others s (-1) = t -> 0 <= t ->
    chain_of others t l -> chain_of others s (s :: l).

Lemma chain_hd : forall others s l, chain_of others s l -> hd 0 l = s /\ l <> [].
Proof. intros others s l H. inversion H; subst; split; try reflexivity; discriminate. Qed.
Lemma chain_range : forall others s l, chain_of others s l -> Forall (fun x => 0 <= x < NS) l.
Proof. intros others s l H. induction H; constructor; try assumption. constructor. Qed.

Definition incr_all (cs : list Z) (l : list Z) : list Z :=
  fold_left (fun c x => zupd c x (znth c x 0 + 1)) l cs.

Lemma incr_chain_spec : forall others s l, chain_of others s l ->
  forall fuel cs, (length l <= fuel)%nat -> incr_chain fuel cs others s = Some (incr_all cs l).
Proof.
  intros others s l H. induction H as [s Hs Hn | s t l Hs Ht Ht0 Hc IH]; intros fuel cs Hf.
  - destruct fuel as [|f]; [simpl in Hf; lia|]. cbn [incr_chain incr_all fold_left].
    destruct (Z.ltb_spec s 0); [lia|].
    destruct f; cbn [incr_chain]; destruct (Z.ltb_spec (znth others s (-1)) 0); try lia; reflexivity.
  - destruct fuel as [|f]; [simpl in Hf; lia|]. cbn [incr_chain incr_all fold_left].
    destruct (Z.ltb_spec s 0); [lia|]. rewrite Ht. apply IH. simpl in Hf. lia.
Qed.

Lemma last_indep : forall (l : list Z) d d', l <> [] -> last l d = last l d'.
Proof.
  induction l as [|x l IH]; intros d d' H; [contradiction|]. destruct l as [|y l]; [reflexivity|].
  cbn [last]. apply IH. discriminate.
Qed.
Lemma last_cons : forall (x : Z) l d, l <> [] -> last (x :: l) d = last l d.
Proof. intros x l d H. destruct l; [contradiction | reflexivity]. Qed.

Lemma last_branch_spec : forall others s l, chain_of others s l ->
  forall fuel, (length l <= S fuel)%nat -> last_branch fuel others s = Some (last l s).
Proof.
  intros others s l H. induction H as [s Hs Hn | s t l Hs Ht Ht0 Hc IH]; intros fuel Hf.
  - destruct fuel; cbn [last_branch last]; destruct (Z.ltb_spec (znth others s (-1)) 0); try lia; reflexivity.
  - destruct fuel as [|f]; [destruct l; [inversion Hc | simpl in Hf; lia]|].
    cbn [last_branch]. destruct (Z.ltb_spec (znth others s (-1)) 0); [lia|]. rewrite Ht.
    rewrite IH by (simpl in Hf; lia).
    destruct (chain_hd _ _ _ Hc) as [_ Hne]. f_equal. rewrite last_cons by assumption.
    apply last_indep. assumption.
Qed.

Lemma last_In : forall (l : list Z) d, l <> [] -> In (last l d) l.
Proof.
  induction l as [|x l IH]; intros d H; [contradiction|]. destruct l as [|y l]; [left; reflexivity|].
  right. apply IH. discriminate.
Qed.

(* a chain does not see updates outside of it *)
Lemma chain_frame : forall others s l x v, chain_of others s l -> ~ In x l ->
  chain_of (zupd others x v) s l.
Proof.
  intros others s l x v H. induction H as [s Hs Hn | s t l Hs Ht Ht0 Hc IH]; intros Hx.
  - apply ch_last; [assumption|]. rewrite znth_zupd_other; [assumption|]. intros E. apply Hx. left. symmetry. exact E.
  - apply ch_cons with (t := t); try assumption.
    + rewrite znth_zupd_other; [assumption|]. intros E. apply Hx. left. symmetry. exact E.
    + apply IH. intros Hin. apply Hx. right. exact Hin.
Qed.

(* linking the end of chain A to the head of chain B *)
Lemma chain_link : forall others a A b B, chain_of others a A -> chain_of others b B ->
  NoDup A -> (forall x, In x A -> ~ In x B) -> zlen others = NS ->
  chain_of (zupd others (last A a) b) a (A ++ B).
Proof.
  intros others a A b B HA. induction HA as [s Hs Hn | s t l Hs Ht Ht0 Hc IH]; intros HB Hnd Hdisj Hlen.
  - cbn [last app]. apply ch_cons with (t := b).
    + assumption.
    + apply znth_zupd_same. lia.
    + inversion HB; lia.
    + apply chain_frame; [assumption|]. apply Hdisj. left. reflexivity.
  - apply NoDup_cons_iff in Hnd. destruct Hnd as [Hnin Hnd'].
    destruct (chain_hd _ _ _ Hc) as [Hhd Hne].
    assert (Hlast : last (s :: l) s = last l t).
    { rewrite last_cons by assumption. apply last_indep. assumption. }
    rewrite Hlast. cbn [app]. apply ch_cons with (t := t); try assumption.
    + rewrite znth_zupd_other; [assumption|]. intros E. apply Hnin. rewrite <- E. apply last_In. assumption.
    + apply IH; try assumption. intros x Hx. apply Hdisj. right. assumption.
Qed.

(* ---------- incr_all ---------- *)
Lemma incr_all_length : forall l cs, length (incr_all cs l) = length cs.
Proof.
  induction l; intros cs; cbn [incr_all fold_left]; [reflexivity|].
  fold (incr_all (zupd cs a (znth cs a 0 + 1)) l). rewrite IHl. apply zupd_length.
Qed.
Lemma incr_all_notin : forall l cs y, ~ In y l -> znth (incr_all cs l) y 0 = znth cs y 0.
Proof.
  induction l as [|x l IH]; intros cs y H; cbn [incr_all fold_left]; [reflexivity|].
  fold (incr_all (zupd cs x (znth cs x 0 + 1)) l). rewrite IH by (intros Hin; apply H; right; exact Hin).
  apply znth_zupd_other. intros E. apply H. left. exact E.
Qed.
Lemma incr_all_in : forall l cs y, NoDup l -> In y l -> 0 <= y < zlen cs ->
  znth (incr_all cs l) y 0 = znth cs y 0 + 1.
Proof.
  induction l as [|x l IH]; intros cs y Hnd Hin Hy; [destruct Hin|].
  inversion Hnd as [|? ? Hnin Hnd']; subst. cbn [incr_all fold_left].
  fold (incr_all (zupd cs x (znth cs x 0 + 1)) l). destruct Hin as [E|Hin].
  - subst y. rewrite incr_all_notin by assumption. apply znth_zupd_same. assumption.
  - rewrite IH; try assumption.
    + rewrite znth_zupd_other; [reflexivity|]. intros E. subst. contradiction.
    + unfold zlen in *. rewrite zupd_length. assumption.
Qed.

(* ---------- Kraft weight of a set of symbols: sum 2^(K - size) ---------- *)
Definition kraft (K : Z) (cs : list Z) (l : list Z) : Z := zsum (map (fun x => 2 ^ (K - znth cs x 0)) l).

Lemma kraft_app : forall K cs a b, kraft K cs (a ++ b) = kraft K cs a + kraft K cs b.
Proof.
  intros. unfold kraft, zsum. rewrite map_app, fold_right_app.
  induction (map (fun x => 2 ^ (K - znth cs x 0)) a); cbn [fold_right]; lia.
Qed.
Lemma kraft_ext : forall K cs cs' l, (forall x, In x l -> znth cs' x 0 = znth cs x 0) -> kraft K cs' l = kraft K cs l.
Proof.
  intros K cs cs' l H. unfold kraft. f_equal. apply map_ext_in. intros x Hx. rewrite H by assumption. reflexivity.
Qed.
Lemma kraft_incr : forall K cs cs' l, (forall x, In x l -> znth cs' x 0 = znth cs x 0 + 1 /\ znth cs x 0 <= K - 1) ->
  2 * kraft K cs' l = kraft K cs l.
Proof.
  intros K cs cs' l. induction l as [|x l IH]; intros H; [reflexivity|].
  unfold kraft in *. cbn [map zsum fold_right]. fold (zsum (map (fun x0 : Z => 2 ^ (K - znth cs' x0 0)) l)).
  fold (zsum (map (fun x0 : Z => 2 ^ (K - znth cs x0 0)) l)).
  destruct (H x (or_introl eq_refl)) as [E Hb]. rewrite E.
  replace (K - znth cs x 0) with (1 + (K - (znth cs x 0 + 1))) by lia. rewrite Z.pow_add_r by lia.
  change (2 ^ 1) with 2.
  specialize (IH (fun y Hy => H y (or_intror Hy))). lia.
Qed.

(* ---------- smallestFrequencySymbol ---------- *)
Lemma smallest_go_spec : forall l i excl sym sm, 0 <= i ->
  let r := smallest_go l i excl sym sm in
  (sym < 0 -> (r < 0 /\ forall k, (k < length l)%nat -> nth k l 0 = 0 \/ i + Z.of_nat k = excl)
              \/ (i <= r < i + zlen l /\ nth (Z.to_nat (r - i)) l 0 <> 0 /\ r <> excl)) /\
  (0 <= sym -> r = sym \/ (i <= r < i + zlen l /\ nth (Z.to_nat (r - i)) l 0 <> 0 /\ r <> excl)).
Proof.
  induction l as [|v l IH]; intros i excl sym sm Hi; cbn zeta.
  - cbn [smallest_go]. split; intros H; [left; split; [assumption | intros k Hk; simpl in Hk; lia] | left; reflexivity].
  - cbn [smallest_go]. unfold zlen. cbn [length]. rewrite Nat2Z.inj_succ.
    destruct (negb (v =? 0) && negb (i =? excl) && ((sym <? 0) || (v <=? sm))) eqn:Ec.
    + (* v selected *)
      apply andb_true_iff in Ec. destruct Ec as [Ec _]. apply andb_true_iff in Ec. destruct Ec as [Ev Ee].
      apply negb_true_iff in Ev. apply negb_true_iff in Ee. apply Z.eqb_neq in Ev. apply Z.eqb_neq in Ee.
      destruct (IH (i + 1) excl i v ltac:(lia)) as [_ IH2]. specialize (IH2 Hi).
      assert (Hres : i <= smallest_go l (i + 1) excl i v < i + Z.succ (Z.of_nat (length l)) /\
                     nth (Z.to_nat (smallest_go l (i + 1) excl i v - i)) (v :: l) 0 <> 0 /\
                     smallest_go l (i + 1) excl i v <> excl).
      { destruct IH2 as [E|(Hr & Hn & He)].
        - rewrite E. rewrite Z.sub_diag. cbn [Z.to_nat nth]. repeat split; try lia; assumption.
        - unfold zlen in Hr. repeat split; try lia; try assumption.
          replace (Z.to_nat (smallest_go l (i + 1) excl i v - i)) with (S (Z.to_nat (smallest_go l (i + 1) excl i v - (i + 1)))) by lia.
          cbn [nth]. exact Hn. }
      split; intros _; right; exact Hres.
    + (* v not selected *)
      destruct (IH (i + 1) excl sym sm ltac:(lia)) as [IH1 IH2].
      assert (Hshift : forall r, i + 1 <= r < i + 1 + zlen l /\ nth (Z.to_nat (r - (i + 1))) l 0 <> 0 /\ r <> excl ->
                i <= r < i + Z.succ (Z.of_nat (length l)) /\ nth (Z.to_nat (r - i)) (v :: l) 0 <> 0 /\ r <> excl).
      { intros r (Hr & Hn & He). unfold zlen in Hr. repeat split; try lia; try assumption.
        replace (Z.to_nat (r - i)) with (S (Z.to_nat (r - (i + 1)))) by lia. cbn [nth]. exact Hn. }
      split.
      * intros Hs. destruct (IH1 Hs) as [[Hr Hall]|H3]; [left | right; apply Hshift; exact H3].
        split; [exact Hr|]. intros k Hk. destruct k as [|k].
        -- cbn [nth]. rewrite Z.add_0_r.
           destruct (Z.eqb_spec v 0); [left; assumption|]. destruct (Z.eqb_spec i excl); [right; assumption|].
           exfalso. destruct (Z.ltb_spec sym 0); [|lia]. cbn in Ec. discriminate.
        -- cbn [nth]. destruct (Hall k ltac:(lia)) as [H0|H0]; [left; exact H0 | right; lia].
      * intros Hs. destruct (IH2 Hs) as [E|H3]; [left; exact E | right; apply Hshift; exact H3].
Qed.

Lemma smallest_sym_spec : forall freq excl,
  let r := smallest_sym freq excl in
  (r < 0 /\ forall s, 0 <= s < zlen freq -> znth freq s 0 = 0 \/ s = excl)
  \/ (0 <= r < zlen freq /\ znth freq r 0 <> 0 /\ r <> excl).
Proof.
  intros freq excl. cbn zeta. unfold smallest_sym.
  destruct (smallest_go_spec freq 0 excl (-1) 0 ltac:(lia)) as [H1 _]. cbn zeta in H1.
  destruct (H1 ltac:(lia)) as [[Hr Hall]|(Hr & Hn & He)].
  - left. split; [exact Hr|]. intros s Hs. unfold zlen in Hs.
    destruct (Hall (Z.to_nat s) ltac:(lia)) as [H0|H0].
    + left. unfold znth. destruct (Z.ltb_spec s 0); [lia|]. exact H0.
    + right. lia.
  - right. repeat split; try lia; try assumption.
    unfold znth. destruct (Z.ltb_spec (smallest_go freq 0 excl (-1) 0) 0); [lia|].
    rewrite Z.sub_0_r in Hn. exact Hn.
Qed.

(* ---------- the forest invariant of the merge loop ---------- *)
Definition chain_ok (K : Z) (freq cs others : list Z) (ch : list Z) : Prop :=
  chain_of others (hd 0 ch) ch /\ 0 < znth freq (hd 0 ch) 0 /\
  Forall (fun x => znth freq x 0 = 0) (tl ch) /\ kraft K cs ch = 2 ^ K.

Record inv (K : Z) (E0 : list Z) (freq cs others : list Z) (forest : list (list Z)) (m A T : Z) : Prop := {
  i_elems : forall s, In s E0 <-> In s (concat forest);
  i_len : zlen freq = NS /\ zlen cs = NS /\ zlen others = NS;
  i_nodup : NoDup (concat forest);
  i_chains : Forall (chain_ok K freq cs others) forest;
  i_out : forall s, 0 <= s < NS -> ~ In s (concat forest) -> znth freq s 0 = 0 /\ znth cs s 0 = 0;
  i_cs : forall s, 0 <= s < NS -> 0 <= znth cs s 0 <= m;
  i_cnt : m + zlen forest = A;
  i_freq : Forall (fun v => 0 <= v) freq /\ zsum freq = T }.

Lemma Permutation_concat' : forall (l l' : list (list Z)), Permutation l l' -> Permutation (concat l) (concat l').
Proof.
  intros l l' H. induction H; cbn [concat].
  - constructor.
  - apply Permutation_app_head. assumption.
  - rewrite !app_assoc. apply Permutation_app_tail. apply Permutation_app_comm.
  - eapply Permutation_trans; eassumption.
Qed.

Lemma inv_perm : forall K E0 freq cs others forest forest' m A T, Permutation forest forest' ->
  inv K E0 freq cs others forest m A T -> inv K E0 freq cs others forest' m A T.
Proof.
  intros K E0 freq cs others forest forest' m A T Hp [H0 H1 H2 H3 H4 H5 H6 H7].
  pose proof (Permutation_concat' _ _ Hp) as Hpc.
  constructor; try assumption.
  - intros s. rewrite H0. split; intros Hin; [eapply Permutation_in; eassumption | eapply Permutation_in; [symmetry|]; eassumption].
  - eapply Permutation_NoDup; eassumption.
  - eapply Permutation_Forall; eassumption.
  - intros s Hs Hn. apply H4; [assumption|]. intros Hin. apply Hn. eapply Permutation_in; eassumption.
  - unfold zlen in *. rewrite <- (Permutation_length Hp). assumption.
Qed.

(* a symbol with a non-zero frequency is the head of a tree *)
Lemma nonzero_is_head : forall K E0 freq cs others forest m A T s, inv K E0 freq cs others forest m A T ->
  0 <= s < NS -> znth freq s 0 <> 0 -> exists ch, In ch forest /\ hd 0 ch = s.
Proof.
  intros K E0 freq cs others forest m A T s I Hs Hnz.
  destruct (in_dec Z.eq_dec s (concat forest)) as [Hin|Hnin].
  - apply in_concat in Hin. destruct Hin as (ch & Hch & Hs').
    exists ch. split; [assumption|].
    pose proof (proj1 (Forall_forall _ _) (i_chains _ _ _ _ _ _ _ _ _ I) ch Hch) as (Hc & _ & Ht & _).
    destruct (chain_hd _ _ _ Hc) as [_ Hne]. destruct ch as [|x t]; [contradiction|]. cbn [hd tl] in *.
    destruct Hs' as [E|Hs']; [assumption|]. exfalso. apply Hnz. apply (proj1 (Forall_forall _ _) Ht). assumption.
  - exfalso. apply Hnz. apply (i_out _ _ _ _ _ _ _ _ _ I s Hs Hnin).
Qed.

Lemma in_perm_front : forall (x : list Z) l, In x l -> exists r, Permutation l (x :: r).
Proof.
  intros x l H. apply in_split in H. destruct H as (l1 & l2 & E). subst l.
  exists (l1 ++ l2). symmetry. apply Permutation_middle.
Qed.

Lemma zsum_zupd : forall l i v, 0 <= i < zlen l -> zsum (zupd l i v) = zsum l - znth l i 0 + v.
Proof.
  intros l i v Hi. unfold zupd, znth, zlen in *. destruct (Z.ltb_spec i 0); [lia|].
  remember (Z.to_nat i) as n eqn:En. assert (Hn : (n < length l)%nat) by lia. clear En Hi H.
  revert n Hn. induction l as [|x l IH]; intros n Hn; [simpl in Hn; lia|].
  destruct n; cbn [upd nth zsum fold_right].
  - unfold zsum. lia.
  - fold (zsum (upd l n v)). fold (zsum l). rewrite IH by (simpl in Hn; lia). lia.
Qed.

Lemma Forall_zupd : forall (Q : Z -> Prop) l i v, Forall Q l -> Q v -> Forall Q (zupd l i v).
Proof.
  intros Q l i v Hl Hv. unfold zupd. destruct (i <? 0); [assumption|].
  generalize (Z.to_nat i) as n. induction Hl; intros n; destruct n; cbn [upd]; constructor; auto.
Qed.

Lemma znth_le_zsum : forall l i, Forall (fun v => 0 <= v) l -> 0 <= i < zlen l -> znth l i 0 <= zsum l.
Proof.
  intros l i Hl Hi. unfold znth, zlen in *. destruct (Z.ltb_spec i 0); [lia|].
  remember (Z.to_nat i) as n eqn:En. assert (Hn : (n < length l)%nat) by lia. clear En Hi H.
  revert n Hn. induction Hl as [|x l Hx Hl IH]; intros n Hn; [simpl in Hn; lia|].
  assert (0 <= zsum l). { clear -Hl. induction Hl; cbn [zsum fold_right]; [lia|]. unfold zsum in *. lia. }
  destruct n; cbn [nth zsum fold_right]; fold (zsum l); [lia|]. specialize (IH n ltac:(simpl in Hn; lia)). lia.
Qed.

Lemma nodup_range_len : forall l n, NoDup l -> Forall (fun x => 0 <= x < Z.of_nat n) l -> (length l <= n)%nat.
Proof.
  intros l n Hnd Hr. rewrite <- (seqZ_length n 0). apply NoDup_incl_length; [assumption|].
  intros x Hx. apply In_seqZ. apply (proj1 (Forall_forall _ _) Hr). assumption.
Qed.

Lemma znth_incr_le : forall cs l y, NoDup l -> 0 <= y < zlen cs ->
  znth cs y 0 <= znth (incr_all cs l) y 0 <= znth cs y 0 + 1.
Proof.
  intros cs l y Hnd Hy. destruct (in_dec Z.eq_dec y l).
  - rewrite incr_all_in by assumption. lia.
  - rewrite incr_all_notin by assumption. lia.
Qed.

Lemma nodup_app_inv : forall (a b : list Z), NoDup (a ++ b) ->
  NoDup a /\ NoDup b /\ (forall x, In x a -> ~ In x b).
Proof.
  induction a as [|x a IH]; intros b H; cbn [app] in H.
  - split; [constructor|]. split; [assumption|]. intros x [].
  - inversion H as [|? ? Hn Hnd]; subst. destruct (IH b Hnd) as (Ha & Hb & Hd).
    split; [|split; [assumption|]].
    + constructor; [|assumption]. intros Hin. apply Hn. apply in_or_app. left. exact Hin.
    + intros y [E|Hy] Hyb; [subst; apply Hn; apply in_or_app; right; exact Hyb | exact (Hd y Hy Hyb)].
Qed.

Lemma merge_step : forall K E0 freq cs others A B rest m AA T,
  inv K E0 freq cs others (A :: B :: rest) m AA T -> AA <= K + 1 -> T < 2 ^ 64 ->
  let c1 := hd 0 A in
  let c2 := hd 0 B in
  incr_chain 257 cs others c1 = Some (incr_all cs A) /\
  last_branch 257 others c1 = Some (last A c1) /\
  incr_chain 257 (incr_all cs A) (zupd others (last A c1) c2) c2 = Some (incr_all (incr_all cs A) B) /\
  inv K E0 (zupd (zupd freq c1 (wrapU 64 (znth freq c1 0 + znth freq c2 0))) c2 0)
      (incr_all (incr_all cs A) B) (zupd others (last A c1) c2) ((A ++ B) :: rest) (m + 1) AA T.
Proof.
  intros K E0 freq cs others A B rest m AA T [Hel [L1 [L2 L3]] Hnd Hch Hout Hcs Hcnt [Hf0 HfT]] HAA HT c1 c2.
  pose proof (Forall_inv Hch) as [HcA [HfA [HtA HkA]]]. pose proof (Forall_inv_tail Hch) as Hch'.
  pose proof (Forall_inv Hch') as [HcB [HfB [HtB HkB]]]. pose proof (Forall_inv_tail Hch') as Hrest.
  fold c1 in HcA, HfA. fold c2 in HcB, HfB.
  cbn [concat] in Hnd.
  destruct (nodup_app_inv _ _ Hnd) as (HndA & HndBR & HdAB).
  destruct (nodup_app_inv _ _ HndBR) as (HndB & _ & HdBR).
  pose proof (chain_range _ _ _ HcA) as HrA. pose proof (chain_range _ _ _ HcB) as HrB.
  destruct (chain_hd _ _ _ HcA) as [_ HneA]. destruct (chain_hd _ _ _ HcB) as [_ HneB].
  assert (Hc1A : In c1 A) by (unfold c1; destruct A; [contradiction | left; reflexivity]).
  assert (Hc2B : In c2 B) by (unfold c2; destruct B; [contradiction | left; reflexivity]).
  assert (Hc1r : 0 <= c1 < NS) by (apply (proj1 (Forall_forall _ _) HrA); assumption).
  assert (Hc2r : 0 <= c2 < NS) by (apply (proj1 (Forall_forall _ _) HrB); assumption).
  assert (Hc12 : c1 <> c2).
  { intros E. apply (HdAB c1 Hc1A). apply in_or_app. left. rewrite E. exact Hc2B. }
  assert (HlenA : (length A <= 257)%nat) by (apply nodup_range_len; assumption).
  assert (HlenB : (length B <= 257)%nat) by (apply nodup_range_len; assumption).
  assert (HlastA : In (last A c1) A) by (apply last_In; assumption).
  assert (HlastB : ~ In (last A c1) B).
  { intros Hin. apply (HdAB _ HlastA). apply in_or_app. left. exact Hin. }
  set (others1 := zupd others (last A c1) c2).
  assert (HcB1 : chain_of others1 c2 B) by (apply chain_frame; assumption).
  split; [apply incr_chain_spec; assumption|].
  split; [apply last_branch_spec; [assumption | lia]|].
  split; [apply incr_chain_spec; assumption|].
  set (cs1 := incr_all cs A). set (cs2 := incr_all cs1 B).
  set (f12 := wrapU 64 (znth freq c1 0 + znth freq c2 0)).
  set (freq2 := zupd (zupd freq c1 f12) c2 0).
  (* facts about the new arrays *)
  assert (Hle1 : znth freq c1 0 <= T) by (rewrite <- HfT; apply znth_le_zsum; [assumption | lia]).
  assert (Hf12 : f12 = znth freq c1 0 + znth freq c2 0).
  { unfold f12. apply wrapU_small.
    assert (znth freq c1 0 + znth freq c2 0 <= T).
    { rewrite <- HfT. rewrite <- (Z.add_0_r (zsum freq)).
      pose proof (zsum_zupd freq c1 0 ltac:(lia)) as E1.
      assert (Hnn : Forall (fun v => 0 <= v) (zupd freq c1 0)) by (apply Forall_zupd; [assumption | lia]).
      pose proof (znth_le_zsum (zupd freq c1 0) c2 Hnn ltac:(unfold zlen in *; rewrite zupd_length; lia)) as E2.
      rewrite znth_zupd_other in E2 by assumption. lia. }
    lia. }
  assert (Hfreq2_other : forall x, x <> c1 -> x <> c2 -> znth freq2 x 0 = znth freq x 0).
  { intros x H1 H2. unfold freq2. rewrite !znth_zupd_other by (intros E; subst; contradiction). reflexivity. }
  assert (Hfreq2_c1 : znth freq2 c1 0 = f12).
  { unfold freq2. rewrite znth_zupd_other by (intros E; apply Hc12; symmetry; exact E).
    apply znth_zupd_same. lia. }
  assert (Hfreq2_c2 : znth freq2 c2 0 = 0).
  { unfold freq2. apply znth_zupd_same. unfold zlen in *. rewrite zupd_length. lia. }
  assert (Hcs2_A : forall x, In x A -> znth cs2 x 0 = znth cs x 0 + 1).
  { intros x Hx. unfold cs2. rewrite incr_all_notin.
    - unfold cs1. apply incr_all_in; try assumption. pose proof (proj1 (Forall_forall _ _) HrA x Hx) as Hxr. cbv beta in Hxr. lia.
    - intros Hin. apply (HdAB x Hx). apply in_or_app. left. exact Hin. }
  assert (Hcs2_B : forall x, In x B -> znth cs2 x 0 = znth cs x 0 + 1).
  { intros x Hx. unfold cs2. rewrite incr_all_in; try assumption.
    - unfold cs1. rewrite incr_all_notin; [reflexivity|]. intros Hin. apply (HdAB x Hin). apply in_or_app. left. exact Hx.
    - unfold cs1, zlen in *. rewrite incr_all_length. pose proof (proj1 (Forall_forall _ _) HrB x Hx) as Hxr. cbv beta in Hxr. lia. }
  assert (Hcs2_other : forall x, ~ In x A -> ~ In x B -> znth cs2 x 0 = znth cs x 0).
  { intros x H1 H2. unfold cs2, cs1. rewrite !incr_all_notin by assumption. reflexivity. }
  assert (Hm16 : m <= K - 1).
  { unfold zlen in Hcnt. cbn [length] in Hcnt. lia. }
  constructor.
  - intros s. rewrite Hel. cbn [concat]. rewrite <- app_assoc. reflexivity.
  - unfold freq2, cs2, cs1, others1, zlen in *. rewrite !zupd_length, !incr_all_length. repeat split; assumption.
  - cbn [concat]. rewrite <- app_assoc. exact Hnd.
  - constructor.
    + (* the merged tree *)
      assert (Hhd : hd 0 (A ++ B) = c1) by (unfold c1; destruct A; [contradiction | reflexivity]).
      unfold chain_ok. rewrite Hhd. split; [|split; [|split]].
      * apply chain_link; try assumption. intros x Hx Hin. apply (HdAB x Hx). apply in_or_app. left. exact Hin.
      * rewrite Hfreq2_c1, Hf12. lia.
      * assert (Htl : tl (A ++ B) = tl A ++ B) by (destruct A; [contradiction | reflexivity]).
        rewrite Htl. apply Forall_app. split.
        -- apply Forall_forall. intros x Hx.
           assert (HxA : In x A) by (destruct A; [contradiction | right; exact Hx]).
           rewrite Hfreq2_other.
           ++ apply (proj1 (Forall_forall _ _) HtA). exact Hx.
           ++ intros E. subst x. destruct A as [|a A']; [contradiction|]. cbn [hd tl] in *.
              inversion HndA; subst. contradiction.
           ++ intros E. subst x. apply (HdAB c2 HxA). apply in_or_app. left. exact Hc2B.
        -- apply Forall_forall. intros x Hx. destruct (Z.eq_dec x c2) as [->|Hne]; [exact Hfreq2_c2|].
           rewrite Hfreq2_other; [| |assumption].
           ++ apply (proj1 (Forall_forall _ _) HtB). destruct B as [|b B']; [contradiction|]. cbn [hd tl] in *.
              destruct Hx as [E|Hx]; [subst; contradiction | exact Hx].
           ++ intros E. subst x. apply (HdAB c1 Hc1A). apply in_or_app. left. exact Hx.
      * rewrite kraft_app.
        assert (HA2 : 2 * kraft K cs2 A = kraft K cs A).
        { apply kraft_incr. intros x Hx. split; [apply Hcs2_A; assumption|].
          pose proof (Hcs x ltac:(apply (proj1 (Forall_forall _ _) HrA); assumption)). lia. }
        assert (HB2 : 2 * kraft K cs2 B = kraft K cs B).
        { apply kraft_incr. intros x Hx. split; [apply Hcs2_B; assumption|].
          pose proof (Hcs x ltac:(apply (proj1 (Forall_forall _ _) HrB); assumption)). lia. }
        lia.
    + (* the other trees are untouched *)
      apply Forall_forall. intros C HC.
      pose proof (proj1 (Forall_forall _ _) Hrest C HC) as (HcC & HfC & HtC & HkC).
      assert (HCin : forall x, In x C -> In x (concat rest)) by (intros x Hx; apply in_concat; exists C; split; assumption).
      assert (HCA : forall x, In x C -> ~ In x A).
      { intros x Hx HxA. apply (HdAB x HxA). apply in_or_app. right. apply HCin. exact Hx. }
      assert (HCB : forall x, In x C -> ~ In x B).
      { intros x Hx HxB. apply (HdBR x HxB). apply HCin. exact Hx. }
      destruct (chain_hd _ _ _ HcC) as [_ HneC].
      assert (HhC : In (hd 0 C) C) by (destruct C; [contradiction | left; reflexivity]).
      unfold chain_ok. split; [|split; [|split]].
      * apply chain_frame; [assumption|]. intros Hin. apply (HCA _ Hin). exact HlastA.
      * rewrite Hfreq2_other; [assumption | |].
        -- intros E. apply (HCA _ HhC). rewrite E. exact Hc1A.
        -- intros E. apply (HCB _ HhC). rewrite E. exact Hc2B.
      * apply Forall_forall. intros x Hx.
        assert (HxC : In x C) by (destruct C; [contradiction | right; exact Hx]).
        rewrite Hfreq2_other.
        -- apply (proj1 (Forall_forall _ _) HtC). exact Hx.
        -- intros E. apply (HCA _ HxC). rewrite E. exact Hc1A.
        -- intros E. apply (HCB _ HxC). rewrite E. exact Hc2B.
      * rewrite <- HkC. apply kraft_ext. intros x Hx. apply Hcs2_other; [apply HCA | apply HCB]; assumption.
  - intros s Hs Hn. cbn [concat] in Hn.
    assert (HnA : ~ In s A) by (intros H; apply Hn; apply in_or_app; left; apply in_or_app; left; exact H).
    assert (HnB : ~ In s B) by (intros H; apply Hn; apply in_or_app; left; apply in_or_app; right; exact H).
    assert (Hn' : ~ In s (concat (A :: B :: rest))).
    { cbn [concat]. intros H. apply in_app_or in H. destruct H as [H|H]; [contradiction|].
      apply in_app_or in H. destruct H as [H|H]; [contradiction|]. apply Hn. apply in_or_app. right. exact H. }
    destruct (Hout s Hs Hn') as [E1 E2]. split.
    + rewrite Hfreq2_other; [assumption | |]; intros E; subst s; contradiction.
    + rewrite Hcs2_other; assumption.
  - intros s Hs. specialize (Hcs s Hs).
    destruct (in_dec Z.eq_dec s A) as [HA|HA]; [rewrite Hcs2_A by assumption; lia|].
    destruct (in_dec Z.eq_dec s B) as [HB|HB]; [rewrite Hcs2_B by assumption; lia|].
    rewrite Hcs2_other by assumption. lia.
  - unfold zlen in *. cbn [length] in *. lia.
  - split.
    + unfold freq2. apply Forall_zupd; [|lia]. apply Forall_zupd; [assumption|].
      rewrite Hf12. pose proof (proj1 (Forall_forall _ _) Hf0) as Hnn.
      assert (0 <= znth freq c1 0) by lia. assert (0 <= znth freq c2 0) by lia. lia.
    + unfold freq2. rewrite zsum_zupd by (unfold zlen in *; rewrite zupd_length; lia).
      rewrite zsum_zupd by lia. rewrite znth_zupd_other by assumption. rewrite Hf12. lia.
Qed.

(* ---------- the merge loop ---------- *)
Lemma head_facts : forall K E0 freq cs others forest m A T C, inv K E0 freq cs others forest m A T ->
  In C forest -> 0 <= hd 0 C < 257 /\ znth freq (hd 0 C) 0 <> 0 /\ In (hd 0 C) C.
Proof.
  intros K E0 freq cs others forest m A T C I HC.
  pose proof (proj1 (Forall_forall _ _) (i_chains _ _ _ _ _ _ _ _ _ I) C HC) as (Hc & Hf & _ & _).
  destruct (chain_hd _ _ _ Hc) as [_ Hne].
  assert (Hin : In (hd 0 C) C) by (destruct C; [contradiction | left; reflexivity]).
  pose proof (proj1 (Forall_forall _ _) (chain_range _ _ _ Hc) _ Hin) as Hr. cbv beta in Hr.
  repeat split; try lia; assumption.
Qed.

Lemma merge_loop_ok : forall fuel K E0 freq cs others forest m AA T,
  inv K E0 freq cs others forest m AA T -> AA <= K + 1 -> T < 2 ^ 64 -> forest <> [] ->
  (length forest <= fuel)%nat ->
  exists cs' freq' others' ch,
    merge_loop fuel freq cs others = Ok cs' /\ inv K E0 freq' cs' others' [ch] (AA - 1) AA T.
Proof.
  induction fuel as [|fuel IH]; intros K E0 freq cs others forest m AA T I HAA HT Hne Hfuel.
  - destruct forest; [contradiction | simpl in Hfuel; lia].
  - destruct forest as [|C0 forest0]; [contradiction|].
    destruct (head_facts _ _ _ _ _ _ _ _ _ C0 I (or_introl eq_refl)) as (Hh0r & Hh0f & Hh0in).
    pose proof (i_len _ _ _ _ _ _ _ _ _ I) as (L1 & L2 & L3).
    cbn [merge_loop].
    (* c1 *)
    destruct (smallest_sym_spec freq (-1)) as [[_ Hall]|(Hc1r & Hc1f & _)].
    { exfalso. destruct (Hall (hd 0 C0) ltac:(lia)) as [E|E]; [contradiction | lia]. }
    set (c1 := smallest_sym freq (-1)) in *.
    destruct (nonzero_is_head _ _ _ _ _ _ _ _ _ c1 I ltac:(lia) Hc1f) as (A & HA & HhA).
    (* c2 *)
    destruct (smallest_sym_spec freq c1) as [[Hc2neg Hall]|(Hc2r & Hc2f & Hc2ne)].
    + (* a single tree is left *)
      destruct (Z.ltb_spec (smallest_sym freq c1) 0); [|lia].
      assert (Hsingle : forest0 = []).
      { destruct forest0 as [|C1 forest1]; [reflexivity|]. exfalso.
        destruct (head_facts _ _ _ _ _ _ _ _ _ C1 I (or_intror (or_introl eq_refl))) as (Hh1r & Hh1f & Hh1in).
        destruct (Hall (hd 0 C0) ltac:(lia)) as [E|E0']; [contradiction|].
        destruct (Hall (hd 0 C1) ltac:(lia)) as [E|E1']; [contradiction|].
        pose proof (i_nodup _ _ _ _ _ _ _ _ _ I) as Hnd. cbn [concat] in Hnd.
        destruct (nodup_app_inv _ _ Hnd) as (_ & _ & Hd).
        apply (Hd (hd 0 C0) Hh0in). apply in_or_app. left. rewrite E0', <- E1'. exact Hh1in. }
      subst forest0. exists cs, freq, others, C0. split; [reflexivity|].
      pose proof (i_cnt _ _ _ _ _ _ _ _ _ I) as Hcnt. unfold zlen in Hcnt. cbn [length] in Hcnt.
      replace (AA - 1) with m by lia. exact I.
    + (* merge the trees of c1 and c2 *)
      set (c2 := smallest_sym freq c1) in *.
      destruct (Z.ltb_spec c2 0); [lia|]. destruct (Z.ltb_spec c1 0); [lia|].
      destruct (nonzero_is_head _ _ _ _ _ _ _ _ _ c2 I ltac:(lia) Hc2f) as (B & HB & HhB).
      assert (HAB : A <> B) by (intros E; subst B; lia).
      destruct (in_perm_front A _ HA) as (r1 & Hp1).
      assert (HB1 : In B r1).
      { pose proof (Permutation_in B Hp1 HB) as H'. destruct H' as [E|H']; [contradiction | exact H']. }
      destruct (in_perm_front B _ HB1) as (rest & Hp2).
      assert (Hp : Permutation (C0 :: forest0) (A :: B :: rest)).
      { eapply Permutation_trans; [exact Hp1|]. apply perm_skip. exact Hp2. }
      pose proof (inv_perm _ _ _ _ _ _ _ _ _ _ Hp I) as I'.
      destruct (merge_step _ _ _ _ _ A B rest m AA T I' HAA HT) as (E1 & E2 & E3 & I2).
      rewrite HhA in E1, E2, E3, I2. rewrite HhB in E3, I2.
      assert (Hlo : length others = 257%nat) by (unfold zlen in L3; lia).
      rewrite Hlo. rewrite E1, E2, E3.
      apply (IH K E0 _ _ _ ((A ++ B) :: rest) (m + 1) AA T I2 HAA HT); [discriminate|].
      pose proof (Permutation_length Hp) as Hl. cbn [length] in *. lia.
Qed.

(* ---------- the initial state ---------- *)
Lemma NoDup_seqZ : forall n s, NoDup (seqZ s n).
Proof.
  induction n; intros s; cbn [seqZ]; constructor; [|apply IHn].
  intros Hin. assert (H : forall m a x, In x (seqZ a m) -> a <= x) by
    (induction m; intros a x Hx; cbn [seqZ] in Hx; [destruct Hx | destruct Hx as [E|Hx]; [lia | apply IHm in Hx; lia]]).
  apply H in Hin. lia.
Qed.
Lemma In_seqZ_inv : forall n s x, In x (seqZ s n) -> s <= x < s + Z.of_nat n.
Proof.
  induction n; intros s x H; cbn [seqZ] in H; [destruct H|]. destruct H as [E|H]; [lia|]. apply IHn in H. lia.
Qed.
Lemma concat_singletons : forall (l : list Z), concat (map (fun s => [s]) l) = l.
Proof. induction l; [reflexivity|]. cbn [map concat app]. rewrite IHl. reflexivity. Qed.
Lemma nth_repeat' : forall (v d : Z) n k, (k < n)%nat -> nth k (repeat v n) d = v.
Proof. induction n; intros k Hk; [lia|]. destruct k; [reflexivity|]. cbn [repeat nth]. apply IHn. lia. Qed.
Lemma znth_repeat : forall (v d : Z) n i, 0 <= i < Z.of_nat n -> znth (repeat v n) i d = v.
Proof.
  intros v d n i Hi. unfold znth. destruct (Z.ltb_spec i 0); [lia|]. apply nth_repeat'. lia.
Qed.

Definition freq0 (freqs : list Z) : list Z := firstn 256 freqs ++ [1].
Definition alive0 (freqs : list Z) : list Z :=
  filter (fun s => negb (znth (freq0 freqs) s 0 =? 0)) (seqZ 0 257).

(* what count_freqs delivers: 256 non-negative counters, only categories 0..16 used *)
Definition freqs_ok (freqs : list Z) : Prop :=
  length freqs = 256%nat /\ Forall (fun v => 0 <= v) freqs /\
  (forall i, 17 <= i < 256 -> znth freqs i 0 = 0) /\ zsum freqs < 2 ^ 63.

(* any 256 non-negative counters whose sum does not overflow *)
Definition freqs_gen (freqs : list Z) : Prop :=
  length freqs = 256%nat /\ Forall (fun v => 0 <= v) freqs /\ zsum freqs < 2 ^ 63.
Lemma freqs_ok_gen : forall freqs, freqs_ok freqs -> freqs_gen freqs.
Proof. intros freqs (H1 & H2 & _ & H4). repeat split; assumption. Qed.

Lemma freq0_facts : forall freqs, freqs_gen freqs ->
  zlen (freq0 freqs) = 257 /\ Forall (fun v => 0 <= v) (freq0 freqs) /\
  zsum (freq0 freqs) < 2 ^ 64 /\ znth (freq0 freqs) 256 0 = 1 /\
  (forall i, 0 <= i < 256 -> znth (freq0 freqs) i 0 = znth freqs i 0).
Proof.
  intros freqs (Hl & Hnn & Hs). unfold freq0. rewrite firstn_all2 by lia.
  repeat split.
  - unfold zlen. rewrite app_length, Hl. reflexivity.
  - apply Forall_app. split; [assumption | repeat constructor; lia].
  - unfold zsum in *. rewrite fold_right_app. cbn [fold_right].
    assert (E : forall l a, fold_right Z.add a l = fold_right Z.add 0 l + a) by (induction l; intros; cbn [fold_right]; [lia | rewrite IHl; lia]).
    rewrite E. change (2 ^ 64) with (2 * 2 ^ 63). lia.
  - unfold znth. cbn [Z.ltb Z.compare]. rewrite app_nth2 by (rewrite Hl; cbn; lia). rewrite Hl. reflexivity.
  - intros i Hi. unfold znth. destruct (Z.ltb_spec i 0); [lia|]. apply app_nth1. lia.
Qed.

Lemma alive0_spec : forall freqs s,
  In s (alive0 freqs) <-> 0 <= s < 257 /\ znth (freq0 freqs) s 0 <> 0.
Proof.
  intros freqs s. unfold alive0. rewrite filter_In. split.
  - intros [Hin Hb]. apply In_seqZ_inv in Hin. apply negb_true_iff, Z.eqb_neq in Hb. split; [lia | assumption].
  - intros [Hr Hb]. split; [apply In_seqZ; lia | apply negb_true_iff, Z.eqb_neq; assumption].
Qed.
Lemma alive0_nodup : forall freqs, NoDup (alive0 freqs).
Proof. intros. apply NoDup_filter, NoDup_seqZ. Qed.
Lemma init_inv : forall K freqs, 0 <= K -> freqs_gen freqs ->
  inv K (alive0 freqs) (freq0 freqs) (repeat 0 257) (repeat (-1) 257) (map (fun s => [s]) (alive0 freqs)) 0
      (zlen (alive0 freqs)) (zsum (freq0 freqs))
  /\ In 256 (alive0 freqs).
Proof.
  intros K freqs HK Hok. set (E0 := alive0 freqs). destruct (freq0_facts freqs Hok) as (Hl & Hnn & Hs & H256 & Hlow).
  assert (HE0 : forall s, In s E0 <-> 0 <= s < 257 /\ znth (freq0 freqs) s 0 <> 0).
  { intros s. unfold E0, alive0. rewrite filter_In. split.
    - intros [Hin Hb]. apply In_seqZ_inv in Hin. apply negb_true_iff, Z.eqb_neq in Hb. split; [lia | assumption].
    - intros [Hr Hb]. split; [apply In_seqZ; lia | apply negb_true_iff, Z.eqb_neq; assumption]. }
  assert (HndE0 : NoDup E0) by (apply NoDup_filter, NoDup_seqZ).
  split.
  - constructor.
    + intros s. rewrite concat_singletons. reflexivity.
    + split; [assumption|]. split; unfold zlen; rewrite repeat_length; reflexivity.
    + rewrite concat_singletons. assumption.
    + apply Forall_forall. intros ch Hch. apply in_map_iff in Hch. destruct Hch as (s & <- & Hs').
      apply HE0 in Hs'. destruct Hs' as [Hr Hnz]. unfold chain_ok. cbn [hd tl]. split; [|split; [|split]].
      * apply ch_last; [assumption|]. rewrite znth_repeat by lia. lia.
      * pose proof (proj1 (Forall_forall _ _) Hnn (znth (freq0 freqs) s 0)) as Hge.
        assert (In (znth (freq0 freqs) s 0) (freq0 freqs)).
        { unfold znth. destruct (Z.ltb_spec s 0); [lia|]. apply nth_In. unfold zlen in Hl. lia. }
        specialize (Hge H). cbv beta in Hge. lia.
      * constructor.
      * unfold kraft. cbn [map zsum fold_right]. rewrite znth_repeat by lia. rewrite Z.sub_0_r. lia.
    + intros s Hs' Hn. rewrite concat_singletons in Hn. split; [|apply znth_repeat; lia].
      destruct (Z.eq_dec (znth (freq0 freqs) s 0) 0) as [E|E]; [assumption|]. exfalso. apply Hn. apply HE0. split; assumption.
    + intros s Hs'. rewrite znth_repeat by lia. lia.
    + unfold zlen. rewrite map_length. lia.
    + split; [assumption | reflexivity].
  - apply HE0. split; [lia|]. rewrite H256. lia.
Qed.

Lemma filter_len_le : forall {A} (p : A -> bool) l, (length (filter p l) <= length l)%nat.
Proof. induction l; [apply Nat.le_refl|]. cbn [filter]. destruct (p a); cbn [length]; lia. Qed.
Lemma alive0_le257 : forall freqs, (length (alive0 freqs) <= length (seqZ 0 257))%nat.
Proof. intros. unfold alive0. apply filter_len_le. Qed.

(* at most 18 symbols are alive when only the categories 0..16 are counted *)
Lemma alive0_le18 : forall freqs, freqs_ok freqs -> zlen (alive0 freqs) <= 18.
Proof.
  intros freqs Hok. destruct (freq0_facts freqs (freqs_ok_gen _ Hok)) as (Hl & Hnn & Hs & H256 & Hlow).
  pose proof (alive0_nodup freqs) as HndE0. pose proof (alive0_spec freqs) as HE0.
  assert (Hincl : incl (alive0 freqs) (seqZ 0 17 ++ [256])).
  { intros s Hs'. apply HE0 in Hs'. destruct Hs' as [Hr Hnz]. apply in_or_app.
    destruct (Z_lt_le_dec s 17); [left; apply In_seqZ; lia|].
    destruct (Z.eq_dec s 256); [right; left; lia|]. exfalso. apply Hnz.
    rewrite Hlow by lia. destruct Hok as (_ & _ & Hz & _). apply Hz. lia. }
  pose proof (NoDup_incl_length HndE0 Hincl) as Hle. rewrite app_length, seqZ_length in Hle. cbn [length] in Hle.
  unfold zlen. lia.
Qed.

(* ---------- the code sizes the merge loop returns ---------- *)
Definition wterm (c : Z) : Z := if 0 <? c then 2 ^ (17 - c) else 0.
Definition wsum (cs : list Z) : Z := zsum (map wterm cs).
Definition npos (cs : list Z) : Z := zlen (filter (fun c => 0 <? c) cs).

Definition sizes_ok (cs freqs : list Z) : Prop :=
  length cs = 257%nat /\ Forall (fun c => 0 <= c <= 17) cs /\ wsum cs = 2 ^ 17 /\ npos cs <= 18 /\
  0 < znth cs 256 0 /\ (forall i, 0 <= i < 256 -> znth freqs i 0 <> 0 -> 0 < znth cs i 0).

Lemma zsum_app : forall a b, zsum (a ++ b) = zsum a + zsum b.
Proof. intros. unfold zsum. rewrite fold_right_app. induction a; cbn [fold_right]; lia. Qed.
Lemma zsum_perm : forall a b, Permutation a b -> zsum a = zsum b.
Proof. intros a b H. unfold zsum. induction H; cbn [fold_right]; lia. Qed.
Lemma zsum_nonneg : forall l, Forall (fun v => 0 <= v) l -> 0 <= zsum l.
Proof. intros l H. induction H; cbn [zsum fold_right]; [lia|]. unfold zsum in *. lia. Qed.

Lemma nth_seqZ : forall n s k, (k < n)%nat -> nth k (seqZ s n) 0 = s + Z.of_nat k.
Proof.
  induction n; intros s k H; [lia|]. destruct k; cbn [seqZ nth]; [lia|]. rewrite IHn by lia. lia.
Qed.
Lemma list_as_map : forall (cs : list Z), cs = map (fun s => znth cs s 0) (seqZ 0 (length cs)).
Proof.
  intros cs. apply nth_ext with (d := 0) (d' := znth cs 0 0).
  - rewrite map_length, seqZ_length. reflexivity.
  - intros n Hn. change (znth cs 0 0) with ((fun s => znth cs s 0) 0). rewrite map_nth.
    rewrite nth_seqZ by assumption. unfold znth. destruct (Z.ltb_spec (0 + Z.of_nat n) 0); [lia|].
    f_equal. lia.
Qed.

Lemma sum_point : forall (g : Z -> Z) x l, NoDup l ->
  zsum (map g l) = (if in_dec Z.eq_dec x l then g x else 0) + zsum (map (fun s => if s =? x then 0 else g s) l).
Proof.
  intros g x l H. induction H as [|a l Hn Hnd IH]; [destruct (in_dec Z.eq_dec x []) as [[]|]; reflexivity|].
  cbn [map zsum fold_right]. fold (zsum (map g l)). fold (zsum (map (fun s => if s =? x then 0 else g s) l)).
  rewrite IH. destruct (Z.eqb_spec a x) as [E|E].
  - subst a. destruct (in_dec Z.eq_dec x l); [contradiction|].
    destruct (in_dec Z.eq_dec x (x :: l)) as [_|Hc]; [lia | exfalso; apply Hc; left; reflexivity].
  - destruct (in_dec Z.eq_dec x l) as [Hi|Hi]; destruct (in_dec Z.eq_dec x (a :: l)) as [Hj|Hj]; try lia.
    + exfalso. apply Hj. right. exact Hi.
    + exfalso. destruct Hj as [Hj|Hj]; [apply E; exact Hj | contradiction].
Qed.

Lemma sum_support : forall ch (g : Z -> Z) n, NoDup ch -> (forall x, In x ch -> 0 <= x < Z.of_nat n) ->
  (forall s, 0 <= s < Z.of_nat n -> ~ In s ch -> g s = 0) ->
  zsum (map g (seqZ 0 n)) = zsum (map g ch).
Proof.
  induction ch as [|x ch IH]; intros g n Hnd Hr Hz.
  - cbn [map zsum fold_right]. assert (H : forall l, (forall s, In s l -> g s = 0) -> zsum (map g l) = 0).
    { induction l; intros Hl; [reflexivity|]. cbn [map zsum fold_right]. fold (zsum (map g l)).
      rewrite IHl by (intros s Hs; apply Hl; right; exact Hs). rewrite (Hl a (or_introl eq_refl)). lia. }
    apply H. intros s Hs. apply In_seqZ_inv in Hs. apply Hz; [lia | intros []].
  - inversion Hnd as [|? ? Hnin Hnd']; subst.
    rewrite (sum_point g x (seqZ 0 n) (NoDup_seqZ n 0)).
    destruct (in_dec Z.eq_dec x (seqZ 0 n)) as [_|Hc].
    2:{ exfalso. apply Hc. apply In_seqZ. specialize (Hr x (or_introl eq_refl)). lia. }
    rewrite (IH (fun s => if s =? x then 0 else g s) n Hnd').
    + cbn [map zsum fold_right]. fold (zsum (map g ch)). f_equal. f_equal. apply map_ext_in.
      intros s Hs. destruct (Z.eqb_spec s x); [subst; contradiction | reflexivity].
    + intros y Hy. apply Hr. right. exact Hy.
    + intros s Hs Hn. destruct (Z.eqb_spec s x); [reflexivity|]. apply Hz; [assumption|].
      intros [E|Hin]; [apply n0; symmetry; exact E | contradiction].
Qed.

Lemma filter_map_length : forall {A B} (p : B -> bool) (f : A -> B) l,
  length (filter p (map f l)) = length (filter (fun x => p (f x)) l).
Proof. induction l; [reflexivity|]. cbn [map filter]. destruct (p (f a)); cbn [length]; rewrite IHl; reflexivity. Qed.

Opaque alive0.
Theorem merge_result : forall freqs, freqs_ok freqs ->
  (exists i, 0 <= i < 256 /\ znth freqs i 0 <> 0) ->
  exists cs, merge_loop 258 (freq0 freqs) (repeat 0 257) (repeat (-1) 257) = Ok cs /\ sizes_ok cs freqs.
Proof.
  intros freqs Hok (i0 & Hi0 & Hnz0).
  destruct (init_inv 17 freqs ltac:(lia) (freqs_ok_gen _ Hok)) as (I0 & H256).
  pose proof (alive0_le18 freqs Hok) as HA.
  destruct (freq0_facts freqs (freqs_ok_gen _ Hok)) as (Hl & Hnn & Hs & Hf256 & Hlow).
  pose proof (alive0_spec freqs) as HE0.
  pose proof (alive0_nodup freqs) as HndE0.
  assert (Hi0E : In i0 (alive0 freqs)) by (apply HE0; split; [lia | rewrite Hlow by lia; assumption]).
  destruct (merge_loop_ok 258 17 (alive0 freqs) _ _ _ _ 0 (zlen (alive0 freqs)) (zsum (freq0 freqs)) I0 HA Hs) as (cs & freq' & others' & ch & Eloop & If).
  { intros E. apply map_eq_nil in E. rewrite E in H256. destruct H256. }
  { rewrite map_length. apply Nat.le_trans with 18%nat; [apply Nat2Z.inj_le; exact HA | apply Nat.leb_le; reflexivity]. }
  exists cs. split; [exact Eloop|]. clear Eloop I0.
  assert (Hi256 : i0 <> 256) by lia.
  destruct If as [Hel [_ [L2 _]] Hnd Hch Hout Hcs _ _].
  cbn [concat] in Hel, Hnd, Hout. rewrite app_nil_r in Hnd.
  assert (Hel' : forall s, In s (alive0 freqs) <-> In s ch) by (intros s; rewrite Hel, app_nil_r; reflexivity).
  assert (Hout' : forall s, 0 <= s < 257 -> ~ In s ch -> znth cs s 0 = 0).
  { intros s Hs' Hn. apply Hout; [assumption | rewrite app_nil_r; assumption]. }
  pose proof (Forall_inv Hch) as (Hc & _ & _ & Hk).
  pose proof (chain_range _ _ _ Hc) as Hr.
  assert (Hlen_ch : (length ch <= 18)%nat).
  { assert (incl ch (alive0 freqs)) by (intros s Hs'; apply Hel'; assumption).
    pose proof (NoDup_incl_length Hnd H). unfold zlen in HA. lia. }
  assert (Hcs17 : forall s, 0 <= s < 257 -> 0 <= znth cs s 0 <= 17) by (intros s Hs'; specialize (Hcs s Hs'); lia).
  (* every member of the final tree has a positive size *)
  assert (Hpos : forall x, In x ch -> 0 < znth cs x 0).
  { intros x Hx.
    assert (Hxr : 0 <= x < 257) by (apply (proj1 (Forall_forall _ _) Hr) in Hx; exact Hx).
    destruct (Z_lt_le_dec 0 (znth cs x 0)) as [|Hle]; [assumption|]. exfalso.
    assert (Hx0 : znth cs x 0 = 0) by (specialize (Hcs17 x Hxr); lia).
    assert (Hy : exists y, In y ch /\ y <> x).
    { destruct (Z.eq_dec x 256) as [E256|N256].
      - exists i0. split; [apply Hel'; exact Hi0E | rewrite E256; exact Hi256].
      - exists 256. split; [apply Hel'; exact H256 | intros E; apply N256; symmetry; exact E]. }
    destruct Hy as (y & Hy & Hyx).
    assert (Hyr : 0 <= y < 257) by (apply (proj1 (Forall_forall _ _) Hr) in Hy; exact Hy).
    unfold kraft in Hk. rewrite (sum_point _ x ch Hnd) in Hk.
    destruct (in_dec Z.eq_dec x ch); [|contradiction].
    rewrite (sum_point _ y ch Hnd) in Hk. destruct (in_dec Z.eq_dec y ch); [|contradiction].
    destruct (Z.eqb_spec y x); [contradiction|]. rewrite Hx0 in Hk.
    assert (Hnn' : 0 <= zsum (map (fun s => if s =? y then 0 else if s =? x then 0 else 2 ^ (17 - znth cs s 0)) ch)).
    { apply zsum_nonneg. apply Forall_forall. intros v Hv. apply in_map_iff in Hv. destruct Hv as (s & <- & _).
      destruct (s =? y); [lia|]. destruct (s =? x); [lia|]. apply Z.pow_nonneg. lia. }
    assert (0 < 2 ^ (17 - znth cs y 0)) by (apply Z.pow_pos_nonneg; [lia | specialize (Hcs17 y Hyr); lia]).
    change (2 ^ (17 - 0)) with (2 ^ 17) in Hk. lia. }
  unfold sizes_ok. unfold zlen in L2. split; [lia|]. split; [|split; [|split; [|split]]].
  - apply Forall_forall. intros c Hc'. destruct (In_nth _ _ 0 Hc') as (k & Hk' & <-).
    specialize (Hcs17 (Z.of_nat k) ltac:(lia)). unfold znth in Hcs17.
    destruct (Z.ltb_spec (Z.of_nat k) 0); [lia|]. rewrite Nat2Z.id in Hcs17. exact Hcs17.
  - unfold wsum. rewrite (list_as_map cs) at 1. rewrite map_map.
    replace (length cs) with 257%nat by lia.
    rewrite (sum_support ch (fun s => wterm (znth cs s 0)) 257 Hnd).
    + rewrite <- Hk. unfold kraft. f_equal. apply map_ext_in. intros s Hs'. unfold wterm.
      specialize (Hpos s Hs'). destruct (Z.ltb_spec 0 (znth cs s 0)); [reflexivity | lia].
    + intros x Hx. apply (proj1 (Forall_forall _ _) Hr) in Hx. cbv beta in Hx. lia.
    + intros s Hs' Hn. rewrite Hout' by (lia || assumption). reflexivity.
  - unfold npos, zlen. rewrite (list_as_map cs). rewrite filter_map_length.
    replace (length cs) with 257%nat by lia.
    assert (Hincl : incl (filter (fun x => 0 <? znth cs x 0) (seqZ 0 257)) ch).
    { intros s Hs'. apply filter_In in Hs'. destruct Hs' as [Hin Hp]. apply In_seqZ_inv in Hin. apply Z.ltb_lt in Hp.
      destruct (in_dec Z.eq_dec s ch) as [|Hn]; [assumption|]. rewrite Hout' in Hp by (lia || assumption). lia. }
    pose proof (NoDup_incl_length (NoDup_filter _ (NoDup_seqZ 257 0)) Hincl). lia.
  - apply Hpos. apply Hel'. exact H256.
  - intros i Hi Hnz. apply Hpos. apply Hel'. apply HE0. split; [lia | rewrite Hlow by lia; assumption].
Qed.

(* ---------- for ANY 256 counters (sum < 2^63): the merge loop ends and no code size exceeds
   256 = the number of merges a forest of 257 trees can undergo.  This is why bits[257] in
   BuildOptimalHuffmanTable cannot be indexed out of range (finding F48 was bits[33]). ---------- *)
Theorem merge_result_gen : forall freqs, freqs_gen freqs ->
  exists cs, merge_loop 258 (freq0 freqs) (repeat 0 257) (repeat (-1) 257) = Ok cs /\
             zlen cs = 257 /\ Forall (fun c => 0 <= c <= 256) cs.
Proof.
  intros freqs Hok.
  destruct (init_inv 256 freqs ltac:(lia) Hok) as (I0 & H256).
  destruct (freq0_facts freqs Hok) as (Hl & Hnn & Hs & Hf256 & Hlow).
  pose proof (alive0_le257 freqs) as Hle. rewrite seqZ_length in Hle.
  assert (HA : zlen (alive0 freqs) <= 256 + 1) by (apply (proj1 (Nat2Z.inj_le _ _)) in Hle; exact Hle).
  destruct (merge_loop_ok 258 256 (alive0 freqs) _ _ _ _ 0 (zlen (alive0 freqs)) (zsum (freq0 freqs)) I0 HA Hs)
    as (cs & freq' & others' & ch & Eloop & If).
  { intros E. apply map_eq_nil in E. rewrite E in H256. destruct H256. }
  { rewrite map_length. apply Nat.le_trans with 257%nat; [exact Hle | apply Nat.leb_le; reflexivity]. }
  exists cs. split; [exact Eloop|]. clear Eloop I0.
  destruct If as [_ [_ [L2 _]] _ _ _ Hcs _ _]. split; [exact L2|].
  apply Forall_forall. intros c Hc. destruct (In_nth _ _ 0 Hc) as (k & Hk & <-).
  assert (Hk' : 0 <= Z.of_nat k < 257) by (unfold zlen in L2; lia).
  specialize (Hcs (Z.of_nat k) Hk'). unfold znth in Hcs.
  destruct (Z.ltb_spec (Z.of_nat k) 0); [lia|]. rewrite Nat2Z.id in Hcs. lia.
Qed.
