(* EXTRACT *)
(* An independent lossless JPEG (ITU-T T.81 Annex H, Huffman coding, process 14) encoder and
   decoder written from the text of the Recommendation, NOT from the Go code:
     B.1/B.2   marker segments, frame header (SOF3), scan header (SOS), DHT, fill bytes
     C         generation of the Huffman code tables (HUFFSIZE, HUFFCODE)
     F.1.2.1   additional bits of a difference; F.1.2.3 byte stuffing; F.2.2.1 EXTEND
     H.1.2.1   prediction: first sample of the first line 2^(P-Pt-1), rest of the first line
               Ra, first sample of every other line Rb, otherwise the selected predictor 1..7
     H.1.2.2   differences modulo 2^16, categories SSSS 0..16, SSSS = 16 has no extra bits
   Restrictions (streams outside them give None): one frame, one scan containing all
   components, all sampling factors 1, point transform 0, no restart intervals, no DNL.
   Deliberately different in shape from JllModel: the encoder works plane by plane with whole
   line operations, the decoder keeps one sliding state per component, codes are looked up
   in an association list of (size, code, value), bits are lists of bool.
   Pixel container (the codec API under test): samples interleaved in scan order, one byte
   per sample for P <= 8, two bytes little-endian for P > 8. *)
From V Require Import Common.Base.

(* ---------- Annex C ---------- *)
(* Figure C.1: HUFFSIZE — BITS(i) copies of i, i = 1..16 *)
Fixpoint t81_huffsize (bits : list Z) (i : Z) : list Z :=
  match bits with
  | [] => []
  | b :: bs => repeat i (Z.to_nat b) ++ t81_huffsize bs (i + 1)
  end.
(* Figure C.2: HUFFCODE — consecutive codes, shifted left when the size grows *)
Fixpoint t81_huffcode (sizes : list Z) (code si : Z) : list Z :=
  match sizes with
  | [] => []
  | s :: ss => let c := code * 2 ^ (s - si) in c :: t81_huffcode ss (c + 1) s
  end.
(* the code table as a list of (size, code, value) in HUFFVAL order *)
Definition t81_entries (bits vals : list Z) : list (Z * Z * Z) :=
  let sizes := t81_huffsize bits 1 in
  combine (combine sizes (t81_huffcode sizes 0 (hd 1 sizes))) vals.

Fixpoint t81_distinct (l : list Z) : bool :=
  match l with
  | [] => true
  | x :: l' => negb (existsb (Z.eqb x) l') && t81_distinct l'
  end.
Fixpoint t81_kraft (bits : list Z) (i : Z) : Z :=      (* sum BITS(i) * 2^(16-i) *)
  match bits with
  | [] => 0
  | b :: bs => b * 2 ^ (16 - i) + t81_kraft bs (i + 1)
  end.
(* a usable table: 16 counts (bytes), as many values as codes, values distinct bytes, and the
   codes fit a binary tree of depth 16 (Kraft sum <= 1) *)
Definition t81_table_ok (bits vals : list Z) : bool :=
  (length bits =? 16)%nat && forallb (fun b => (0 <=? b) && (b <? 256)) bits
  && (fold_right Z.add 0 bits =? Z.of_nat (length vals))
  && forallb (fun v => (0 <=? v) && (v <? 256)) vals && t81_distinct vals
  && (t81_kraft bits 1 <=? 65536).

(* K.3.1 luminance DC table (categories 0..11, lengths 2,3,3,3,3,3,4,5,6,7,8,9) continued in
   the same way to categories 12..16 (lengths 10..14) *)
Definition t81_std_bits : list Z := [0; 1; 5; 1; 1; 1; 1; 1; 1; 1; 1; 1; 1; 1; 0; 0].
Definition t81_std_vals : list Z := [0; 1; 2; 3; 4; 5; 6; 7; 8; 9; 10; 11; 12; 13; 14; 15; 16].

(* ---------- bits ---------- *)
Fixpoint t81_to_bits (n : nat) (v : Z) : list bool :=       (* n low bits of v, MSB first *)
  match n with
  | O => []
  | S k => Z.testbit v (Z.of_nat k) :: t81_to_bits k v
  end.
Fixpoint t81_of_bits (l : list bool) (acc : Z) : Z :=
  match l with
  | [] => acc
  | b :: l' => t81_of_bits l' (2 * acc + (if b then 1 else 0))
  end.
(* F.1.2.3: full bytes, a zero byte stuffed after every X'FF'; returns the bits left over *)
Fixpoint t81_pack (l : list bool) : list Z * list bool :=
  match l with
  | b7 :: b6 :: b5 :: b4 :: b3 :: b2 :: b1 :: b0 :: rest =>
    let v := t81_of_bits [b7; b6; b5; b4; b3; b2; b1; b0] 0 in
    let r := t81_pack rest in
    ((if v =? 255 then [255; 0] else [v]) ++ fst r, snd r)
  | _ => ([], l)
  end.
(* entropy-coded segment of a sequence of code words; the last byte is padded with 1-bits *)
Fixpoint t81_emit (pend : list bool) (words : list (list bool)) : list Z :=
  match words with
  | [] => match pend with
          | [] => []
          | _ => fst (t81_pack (pend ++ repeat true (8 - length pend)))
          end
  | wd :: ws => let r := t81_pack (pend ++ wd) in fst r ++ t81_emit (snd r) ws
  end.

(* reading: (bits left of the current byte, following bytes) *)
Definition t81_bitstate : Type := list bool * list Z.
Definition t81_next_bit (s : t81_bitstate) : option (bool * t81_bitstate) :=
  match fst s with
  | b :: c => Some (b, (c, snd s))
  | [] =>
    match snd s with
    | [] => None
    | x :: r =>
      if x =? 255 then
        match r with
        | y :: r' => if y =? 0 then Some (true, (repeat true 7, r')) else None   (* a marker *)
        | [] => None
        end
      else match t81_to_bits 8 x with
           | b :: c => Some (b, (c, r))
           | [] => None
           end
    end
  end.
Fixpoint t81_receive (n : nat) (acc : Z) (s : t81_bitstate) : option (Z * t81_bitstate) :=
  match n with
  | O => Some (acc, s)
  | S k => match t81_next_bit s with
           | None => None
           | Some (b, s') => t81_receive k (2 * acc + (if b then 1 else 0)) s'
           end
  end.

(* ---------- Huffman coding of one value ---------- *)
Fixpoint t81_find_val (entries : list (Z * Z * Z)) (v : Z) : option (Z * Z) :=
  match entries with
  | [] => None
  | (s, c, x) :: es => if x =? v then Some (s, c) else t81_find_val es v
  end.
Fixpoint t81_find_code (entries : list (Z * Z * Z)) (size code : Z) : option Z :=
  match entries with
  | [] => None
  | (s, c, x) :: es => if (s =? size) && (c =? code) then Some x else t81_find_code es size code
  end.
Fixpoint t81_decode_sym (fuel : nat) (entries : list (Z * Z * Z)) (size code : Z)
         (s : t81_bitstate) : option (Z * t81_bitstate) :=
  match fuel with
  | O => None
  | S f =>
    match t81_next_bit s with
    | None => None
    | Some (b, s') =>
      let code' := 2 * code + (if b then 1 else 0) in
      match t81_find_code entries (size + 1) code' with
      | Some v => Some (v, s')
      | None => t81_decode_sym f entries (size + 1) code' s'
      end
    end
  end.

(* ---------- H.1.2.2: differences and categories ---------- *)
(* difference modulo 2^16, represented in -32768..32767 *)
Definition t81_diff (x px : Z) : Z :=
  let d := (x - px) mod 65536 in if d <? 32768 then d else d - 65536.
(* Table H.2 *)
Definition t81_ssss (d : Z) : Z := if d =? 0 then 0 else Z.log2 (Z.abs d) + 1.
(* the code word of a difference with table [entries]: Huffman code of SSSS followed, for
   SSSS in 1..15, by the SSSS low bits of d (d >= 0) or of d-1 (d < 0) *)
Definition t81_word (entries : list (Z * Z * Z)) (d : Z) : option (list bool) :=
  let s := t81_ssss d in
  match t81_find_val entries s with
  | None => None
  | Some (size, code) =>
    let extra := if (s =? 0) || (s =? 16) then []
                 else t81_to_bits (Z.to_nat s) (if 0 <=? d then d else d - 1) in
    Some (t81_to_bits (Z.to_nat size) code ++ extra)
  end.
(* decoding of one difference: DECODE, RECEIVE, EXTEND *)
Definition t81_read_diff (entries : list (Z * Z * Z)) (s : t81_bitstate)
  : option (Z * t81_bitstate) :=
  match t81_decode_sym 16 entries 0 0 s with
  | None => None
  | Some (ssss, s1) =>
    if ssss =? 0 then Some (0, s1)
    else if ssss =? 16 then Some (32768, s1)
    else if 16 <? ssss then None
    else match t81_receive (Z.to_nat ssss) 0 s1 with
         | None => None
         | Some (v, s2) => Some (if v <? 2 ^ (ssss - 1) then v - 2 ^ ssss + 1 else v, s2)
         end
  end.

(* ---------- H.1.2.1: predictors (Table H.1) ---------- *)
Definition t81_predictor (sel ra rb rc : Z) : Z :=
  match sel with
  | 1 => ra
  | 2 => rb
  | 3 => rc
  | 4 => ra + rb - rc
  | 5 => ra + (rb - rc) / 2
  | 6 => rb + (ra - rc) / 2
  | 7 => (ra + rb) / 2
  | _ => 0
  end.

(* ---------- encoder: plane by plane, line by line ---------- *)
Fixpoint t81_map3 (f : Z -> Z -> Z -> Z) (a b c : list Z) : list Z :=
  match a, b, c with
  | x :: a', y :: b', z :: c' => f x y z :: t81_map3 f a' b' c'
  | _, _, _ => []
  end.
Fixpoint t81_map2 (f : Z -> Z -> Z) (a b : list Z) : list Z :=
  match a, b with
  | x :: a', y :: b' => f x y :: t81_map2 f a' b'
  | _, _ => []
  end.
(* predictions of a whole line from the line itself and the line above (None: first line) *)
Definition t81_line_pred (sel P : Z) (above : option (list Z)) (line : list Z) : list Z :=
  match above with
  | None => 2 ^ (P - 1) :: removelast line
  | Some ab => hd 0 ab :: t81_map3 (t81_predictor sel) (removelast line) (tl ab) (removelast ab)
  end.
Fixpoint t81_plane_diffs (sel P : Z) (above : option (list Z)) (lines : list (list Z))
  : list (list Z) :=
  match lines with
  | [] => []
  | ln :: rest =>
    t81_map2 t81_diff ln (t81_line_pred sel P above ln) :: t81_plane_diffs sel P (Some ln) rest
  end.

Fixpoint t81_chunks (fuel k : nat) (l : list Z) : list (list Z) :=
  match fuel with
  | O => []
  | S f => match l with [] => [] | _ => firstn k l :: t81_chunks f k (skipn k l) end
  end.
(* samples of the container *)
Fixpoint t81_le_pairs (l : list Z) : list Z :=
  match l with
  | lo :: hi :: l' => (lo + 256 * hi) :: t81_le_pairs l'
  | _ => []
  end.
Definition t81_samples (P : Z) (pixels : list Z) : list Z :=
  if P <=? 8 then pixels else t81_le_pairs pixels.
(* plane k of an interleaved sample sequence, as lines of w samples *)
Definition t81_plane (comps w : nat) (samples : list Z) (k : nat) : list (list Z) :=
  let px := t81_chunks (length samples) comps samples in
  let pl := map (fun p => nth k p 0) px in
  t81_chunks (length pl) w pl.
(* back to scan order: one element of every list in turn, tagged with its list index *)
Fixpoint t81_interleave (fuel : nat) (ls : list (list Z)) : list (nat * Z) :=
  match fuel with
  | O => []
  | S f =>
    if forallb (fun l => match l with [] => true | _ => false end) ls then []
    else combine (seq 0 (length ls)) (map (hd 0) ls) ++ t81_interleave f (map (@tl Z) ls)
  end.

(* the differences of the image in scan order, tagged with the component index *)
Definition t81_scan_diffs (w h comps P sel : Z) (pixels : list Z) : list (nat * Z) :=
  let samples := t81_samples P pixels in
  let nc := Z.to_nat comps in
  let planes := map (t81_plane nc (Z.to_nat w) samples) (seq 0 nc) in
  let dplanes := map (fun pl => concat (t81_plane_diffs sel P None pl)) planes in
  t81_interleave (Z.to_nat (w * h)) dplanes.

Fixpoint t81_incr (l : list Z) (i : nat) : list Z :=
  match l, i with
  | [], _ => []
  | x :: l', O => (x + 1) :: l'
  | x :: l', S i' => x :: t81_incr l' i'
  end.
(* category counts (256 entries) of the components whose table selector is [id] *)
Definition t81_table_freqs (w h comps P sel : Z) (tds : list Z) (id : Z) (pixels : list Z)
  : list Z :=
  let ds := t81_scan_diffs w h comps P sel pixels in
  fold_left (fun fr kd => if nth (fst kd) tds (-1) =? id
                          then t81_incr fr (Z.to_nat (t81_ssss (snd kd))) else fr)
            ds (repeat 0 256).

(* ---------- marker segments (B.1.1.3, B.2.2, B.2.3, B.2.4.2) ---------- *)
Definition t81_be16 (v : Z) : list Z := [v / 256; v mod 256].
Definition t81_seg (code : Z) (payload : list Z) : list Z :=
  [255; code] ++ t81_be16 (Z.of_nat (length payload) + 2) ++ payload.
Definition t81_sof3 (w h P : Z) (ncomps : nat) : list Z :=
  t81_seg 195 ([P] ++ t81_be16 h ++ t81_be16 w ++ [Z.of_nat ncomps]
               ++ flat_map (fun i => [Z.of_nat i + 1; 17; 0]) (seq 0 ncomps)).
Definition t81_dht (id : Z) (bits vals : list Z) : list Z := t81_seg 196 ([id] ++ bits ++ vals).
Definition t81_sos (sel : Z) (tds : list Z) : list Z :=
  t81_seg 218 ([Z.of_nat (length tds)]
               ++ concat (map (fun it => [Z.of_nat (fst it) + 1; 16 * snd it])
                              (combine (seq 0 (length tds)) tds))
               ++ [sel; 0; 0]).

Fixpoint t81_assoc {A} (l : list (Z * A)) (k : Z) : option A :=
  match l with
  | [] => None
  | (k', a) :: l' => if k' =? k then Some a else t81_assoc l' k
  end.

Fixpoint t81_words (tabs : list (Z * list (Z * Z * Z))) (tds : list Z) (ds : list (nat * Z))
  : option (list (list bool)) :=
  match ds with
  | [] => Some []
  | (k, d) :: ds' =>
    match t81_assoc tabs (nth k tds (-1)) with
    | None => None
    | Some entries =>
      match t81_word entries d, t81_words tabs tds ds' with
      | Some wd, Some ws => Some (wd :: ws)
      | _, _ => None
      end
    end
  end.

(* extra segments used by the harness: APP1, COM, APP14 whose payloads contain marker-like
   byte pairs (they must be skipped by length) *)
Definition t81_demo_extras : list (Z * list Z) :=
  [(225, [118; 101; 114; 105; 102; 0; 255; 218; 255; 196; 0; 1]);
   (254, [255; 217; 99; 111; 109; 255]);
   (238, [65; 100; 111; 98; 101; 0; 100; 0; 0; 0; 0; 0])].

(* t81_encode sel tds tables dht_after extras w h comps P pixels.
   tables: (id, (BITS, HUFFVAL)) with distinct ids 0..3; extras: (marker code byte of an APPn or
   COM segment, payload) placed after SOI *)
Definition t81_extra_ok (e : Z * list Z) : bool :=
  (((224 <=? fst e) && (fst e <=? 239)) || (fst e =? 254)) && (Z.of_nat (length (snd e)) <? 65534).
(* t81_encode_x: as t81_encode below, with a second list of APPn/COM segments [mids] placed
   directly in front of the scan header (after SOF3 and all DHT segments) *)
Definition t81_encode_x (sel : Z) (tds : list Z) (tables : list (Z * (list Z * list Z)))
           (dht_after : bool) (extras mids : list (Z * list Z))
           (w h comps P : Z) (pixels : list Z) : option (list Z) :=
  let bps := if P <=? 8 then 1 else 2 in
  if negb ((1 <=? w) && (w <=? 65535) && (1 <=? h) && (h <=? 65535) && (1 <=? comps) && (comps <=? 4)
           && (2 <=? P) && (P <=? 16) && (1 <=? sel) && (sel <=? 7)
           && (Z.of_nat (length tds) =? comps)
           && forallb (fun td => (0 <=? td) && (td <=? 3)) tds
           && (Z.of_nat (length pixels) =? w * h * comps * bps)
           && forallb (fun b => (0 <=? b) && (b <? 256)) pixels
           && forallb (fun v => v <? 2 ^ P) (t81_samples P pixels)
           && forallb (fun t => (0 <=? fst t) && (fst t <=? 3) && t81_table_ok (fst (snd t)) (snd (snd t))) tables
           && t81_distinct (map fst tables)
           && forallb t81_extra_ok extras && forallb t81_extra_ok mids)
  then None
  else
    let etabs := map (fun t => (fst t, t81_entries (fst (snd t)) (snd (snd t)))) tables in
    match t81_words etabs tds (t81_scan_diffs w h comps P sel pixels) with
    | None => None
    | Some words =>
      let dhts := concat (map (fun t => t81_dht (fst t) (fst (snd t)) (snd (snd t))) tables) in
      Some ([255; 216]
            ++ concat (map (fun e => t81_seg (fst e) (snd e)) extras)
            ++ (if dht_after then [] else dhts)
            ++ t81_sof3 w h P (Z.to_nat comps)
            ++ (if dht_after then dhts else [])
            ++ concat (map (fun e => t81_seg (fst e) (snd e)) mids)
            ++ t81_sos sel tds
            ++ t81_emit [] words
            ++ [255; 217])
    end.

Definition t81_encode (sel : Z) (tds : list Z) (tables : list (Z * (list Z * list Z)))
           (dht_after : bool) (extras : list (Z * list Z))
           (w h comps P : Z) (pixels : list Z) : option (list Z) :=
  t81_encode_x sel tds tables dht_after extras [] w h comps P pixels.

(* segments with EMPTY payloads (Lp = 2), a one-byte and a long one: in front of the frame
   header ... *)
Definition t81_empty_extras : list (Z * list Z) :=
  [(254, []); (227, []); (225, [7]);
   (254, [255; 217; 99; 111; 109; 255; 0; 1; 2; 3; 4; 5; 6; 7; 8; 9; 10; 11; 12; 13; 14; 15; 16; 17; 18; 19; 20])].
(* ... and directly in front of the scan header *)
Definition t81_empty_mids : list (Z * list Z) := [(254, []); (231, []); (238, [1])].

(* ---------- decoder ---------- *)
(* one component: its id, the table selected for it, the rest of the line above starting
   at the current column, Rc (the sample above-left), the current line reversed (head = Ra) *)
Record t81_comp := mkT81C { tc_entries : list (Z * Z * Z); tc_above : list Z; tc_rc : Z;
                            tc_cur : list Z }.

Definition t81_px (sel P : Z) (first_line first_col : bool) (c : t81_comp) : Z :=
  let ra := hd 0 (tc_cur c) in
  let rb := hd 0 (tc_above c) in
  if first_line then (if first_col then 2 ^ (P - 1) else ra)
  else if first_col then rb
  else t81_predictor sel ra rb (tc_rc c).

(* one sample of every component in turn (the MCU of a scan with all sampling factors 1) *)
Fixpoint t81_dec_mcu (sel P : Z) (fl fc : bool) (cs : list t81_comp) (s : t81_bitstate)
  : option (list t81_comp * list Z * t81_bitstate) :=
  match cs with
  | [] => Some ([], [], s)
  | c :: cs' =>
    match t81_read_diff (tc_entries c) s with
    | None => None
    | Some (d, s1) =>
      let x := (t81_px sel P fl fc c + d) mod 65536 in
      let c' := mkT81C (tc_entries c) (tl (tc_above c)) (hd 0 (tc_above c)) (x :: tc_cur c) in
      match t81_dec_mcu sel P fl fc cs' s1 with
      | None => None
      | Some (cs'', xs, s2) => Some (c' :: cs'', x :: xs, s2)
      end
    end
  end.
Fixpoint t81_dec_line (n : nat) (sel P : Z) (fl fc : bool) (cs : list t81_comp)
         (s : t81_bitstate) : option (list t81_comp * list Z * t81_bitstate) :=
  match n with
  | O => Some (cs, [], s)
  | S k =>
    match t81_dec_mcu sel P fl fc cs s with
    | None => None
    | Some (cs1, xs, s1) =>
      match t81_dec_line k sel P fl false cs1 s1 with
      | None => None
      | Some (cs2, ys, s2) => Some (cs2, xs ++ ys, s2)
      end
    end
  end.
Definition t81_next_line (c : t81_comp) : t81_comp :=
  mkT81C (tc_entries c) (rev (tc_cur c)) 0 [].
Fixpoint t81_dec_lines (n w : nat) (sel P : Z) (fl : bool) (cs : list t81_comp)
         (s : t81_bitstate) : option (list Z * t81_bitstate) :=
  match n with
  | O => Some ([], s)
  | S k =>
    match t81_dec_line w sel P fl true cs s with
    | None => None
    | Some (cs1, xs, s1) =>
      match t81_dec_lines k w sel P false (map t81_next_line cs1) s1 with
      | None => None
      | Some (ys, s2) => Some (xs ++ ys, s2)
      end
    end
  end.

Definition t81_sample_bytes (P v : Z) : list Z :=
  if P <=? 8 then [v] else [v mod 256; v / 256].

(* parser state: DC/lossless tables by id; frame header (P, Y, X, component ids) *)
Record t81_hdr := mkT81H { th_tabs : list (Z * list (Z * Z * Z));
                           th_frame : option (Z * Z * Z * list Z) }.

(* one or more tables in a DHT payload; class 1 (AC) tables are skipped *)
Fixpoint t81_parse_dht (fuel : nat) (p : list Z) (tabs : list (Z * list (Z * Z * Z)))
  : option (list (Z * list (Z * Z * Z))) :=
  match p with
  | [] => Some tabs
  | tcth :: rest =>
    match fuel with
    | O => None
    | S f =>
      let tc := tcth / 16 in
      let th := tcth mod 16 in
      let bits := firstn 16 rest in
      let n := Z.to_nat (fold_right Z.add 0 bits) in
      let vals := firstn n (skipn 16 rest) in
      if negb ((tc <=? 1) && (th <=? 3) && (length bits =? 16)%nat && (length vals =? n)%nat
               && t81_table_ok bits vals) then None
      else t81_parse_dht f (skipn n (skipn 16 rest))
                         (if tc =? 0 then (th, t81_entries bits vals) :: tabs else tabs)
    end
  end.

Definition t81_parse_sof3 (p : list Z) : option (Z * Z * Z * list Z) :=
  match p with
  | P :: y1 :: y0 :: x1 :: x0 :: nf :: rest =>
    let Y := 256 * y1 + y0 in
    let X := 256 * x1 + x0 in
    let cps := t81_chunks (length rest) 3 rest in
    if (2 <=? P) && (P <=? 16) && (1 <=? Y) && (1 <=? X) && (1 <=? nf) && (nf <=? 4)
       && (Z.of_nat (length rest) =? 3 * nf)
       && forallb (fun c => nth 1 c 0 =? 17) cps
       && t81_distinct (map (fun c => nth 0 c 0) cps)
    then Some (P, Y, X, map (fun c => nth 0 c 0) cps)
    else None
  | _ => None
  end.

(* scan header: returns the predictor and the table selectors in component order *)
Definition t81_parse_sos (p : list Z) (ids : list Z) : option (Z * list Z) :=
  match p with
  | ns :: rest =>
    let n := length ids in
    let cps := t81_chunks (length rest) 2 (firstn (2 * n)%nat rest) in
    let tail := skipn (2 * n)%nat rest in
    if (ns =? Z.of_nat n) && (length rest =? 2 * n + 3)%nat
       && forallb (fun ic => nth 0 (snd ic) (-1) =? fst ic) (combine ids cps)
       && forallb (fun c => (nth 1 c 0 mod 16 =? 0) && (nth 1 c 0 / 16 <=? 3)) cps
    then
      match tail with
      | [ss; se; ahal] =>
        if (1 <=? ss) && (ss <=? 7) && (se =? 0) && (ahal =? 0)
        then Some (ss, map (fun c => nth 1 c 0 / 16) cps) else None
      | _ => None
      end
    else None
  | [] => None
  end.

(* after the last MCU: the rest of the current byte is padding; then fill bytes and EOI *)
Fixpoint t81_expect_eoi (l : list Z) (seen_ff : bool) : bool :=
  match l with
  | [] => false
  | b :: l' => if b =? 255 then t81_expect_eoi l' true
               else seen_ff && (b =? 217)
  end.

Definition t81_result : Type := list Z * Z * Z * Z * Z.

Definition t81_decode_scan (h : t81_hdr) (p : list Z) (ecs : list Z) : option t81_result :=
  match th_frame h with
  | None => None
  | Some (P, Y, X, ids) =>
    match t81_parse_sos p ids with
    | None => None
    | Some (sel, tds) =>
      let comps := map (fun td => match t81_assoc (th_tabs h) td with
                                  | Some e => Some (mkT81C e [] 0 [])
                                  | None => None end) tds in
      if forallb (fun c => match c with Some _ => true | None => false end) comps then
        let cs := flat_map (fun c => match c with Some x => [x] | None => [] end) comps in
        match t81_dec_lines (Z.to_nat Y) (Z.to_nat X) sel P true cs ([], ecs) with
        | None => None
        | Some (xs, s) =>
          if t81_expect_eoi (snd s) false
          then Some (flat_map (t81_sample_bytes P) xs, X, Y, Z.of_nat (length ids), P)
          else None
        end
      else None
    end
  end.

(* marker: X'FF', optional fill bytes X'FF', then the code *)
Fixpoint t81_marker (l : list Z) (seen_ff : bool) : option (Z * list Z) :=
  match l with
  | [] => None
  | b :: l' => if b =? 255 then t81_marker l' true
               else if seen_ff then Some (b, l') else None
  end.
Definition t81_payload (l : list Z) : option (list Z * list Z) :=
  match l with
  | hi :: lo :: l' =>
    let n := 256 * hi + lo - 2 in
    if (0 <=? n) && (n <=? Z.of_nat (length l')) then Some (firstn (Z.to_nat n) l', skipn (Z.to_nat n) l')
    else None
  | _ => None
  end.

Fixpoint t81_segments (fuel : nat) (l : list Z) (h : t81_hdr) : option t81_result :=
  match fuel with
  | O => None
  | S f =>
    match t81_marker l false with
    | None => None
    | Some (code, l1) =>
      match t81_payload l1 with
      | None => None
      | Some (p, l2) =>
        if code =? 196 then                                     (* DHT *)
          match t81_parse_dht (length p) p (th_tabs h) with
          | None => None
          | Some tabs => t81_segments f l2 (mkT81H tabs (th_frame h))
          end
        else if code =? 195 then                                (* SOF3 *)
          match th_frame h, t81_parse_sof3 p with
          | None, Some fr => t81_segments f l2 (mkT81H (th_tabs h) (Some fr))
          | _, _ => None
          end
        else if code =? 218 then t81_decode_scan h p l2         (* SOS *)
        else if ((224 <=? code) && (code <=? 239)) || (code =? 254) || (code =? 219)
                || (code =? 204) then
          t81_segments f l2 h                                   (* APPn, COM, DQT, DAC *)
        else if code =? 221 then                                (* DRI: only Ri = 0 *)
          match p with
          | [0; 0] => t81_segments f l2 h
          | _ => None
          end
        else None
      end
    end
  end.

Definition t81_decode (l : list Z) : option t81_result :=
  match l with
  | 255 :: 216 :: l' => t81_segments (length l) l' (mkT81H [] None)
  | _ => None
  end.
