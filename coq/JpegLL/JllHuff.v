(* EXTRACT *)
(* Model of jpeg/standard: HuffmanTable.Build (huffman.go), HuffmanDecoder.Decode /
   ReceiveExtend / ReceiveLosslessDifference (huffman.go), BuildHuffmanCodes / EncodeCategory /
   EncodeLosslessDifference (huffman_encoder.go), BuildOptimalHuffmanTable (optimal_huffman.go)
   and diffCategory (jpeg/lossless/encoder.go). Code as it is. *)
From V Require Import Common.Base JpegLL.JllBits.

(* ---------- small list helpers ---------- *)
Fixpoint upd {A} (l : list A) (i : nat) (v : A) : list A :=
  match l, i with
  | [], _ => []
  | _ :: l', O => v :: l'
  | x :: l', S i' => x :: upd l' i' v
  end.
Definition zupd {A} (l : list A) (i : Z) (v : A) : list A :=
  if i <? 0 then l else upd l (Z.to_nat i) v.
Fixpoint seqZ (start : Z) (n : nat) : list Z :=
  match n with O => [] | S k => start :: seqZ (start + 1) k end.
Definition zsum (l : list Z) : Z := fold_right Z.add 0 l.

(* ---------- HuffmanTable ---------- *)
(* Bits [16]int, Values []byte, and per length l (0-based) the triple
   (minCode[l], maxCode[l], valPtr[l]) computed by Build. *)
Record htable := mkHT { ht_bits : list Z; ht_vals : list Z; ht_mmv : list (Z * Z * Z) }.

(* second loop of Build: code, p running; maxCode = -1 for an unused length *)
Fixpoint build_mmv (bits : list Z) (code p : Z) : list (Z * Z * Z) :=
  match bits with
  | [] => []
  | b :: bs =>
    if b =? 0 then (0, -1, 0) :: build_mmv bs (2 * code) p
    else (code, code + b - 1, p) :: build_mmv bs (2 * (code + b)) (p + b)
  end.

(* Build, validation loop (T.81 Annex C): Bits[l] >= 0, the canonical code of each length fits
   (next + Bits[l] <= 2^(l+1)), and afterwards total <= len(Values); otherwise ErrInvalidDHT.
   Returns the total number of codes. *)
Fixpoint build_valid (bits : list Z) (l total next : Z) : option Z :=
  match bits with
  | [] => Some total
  | b :: bs =>
    if b <? 0 then None
    else let next' := next + b in
         if 2 ^ (l + 1) <? next' then None
         else build_valid bs (l + 1) (total + b) (2 * next')
  end.
Definition table_valid (bits vals : list Z) : bool :=
  match build_valid bits 0 0 0 with
  | None => false
  | Some total => total <=? zlen vals
  end.

(* Build, lookup-table loop (the table is dead: the fast path of Decode needs nBits >= 8 and
   nBits <= 7 after every ReadBit/ReadBits).  Its only observable effect would be an
   index-out-of-range panic: for l < 8, for i < Bits[l]: Values[p] needs p < len(Values) and
   lookupTable[(canonical<<(7-l)) + j], j < 2^(7-l), needs (canonical+1)*2^(7-l) <= 256.
   [lookup_ok] is true iff no index is out of range (JllProofsHuff: always, after validation). *)
Fixpoint lookup_ok_len (cnt : nat) (l p canonical nvals : Z) : bool :=
  match cnt with
  | O => true
  | S c => (p <? nvals) && ((canonical + 1) * 2 ^ (7 - l) <=? 256)
           && lookup_ok_len c l (p + 1) (canonical + 1) nvals
  end.
Fixpoint lookup_ok (bits : list Z) (l p canonical nvals : Z) : bool :=
  match bits with
  | [] => true
  | b :: bs =>
    if 8 <=? l then true
    else lookup_ok_len (Z.to_nat b) l p canonical nvals
         && lookup_ok bs (l + 1) (p + Z.max 0 b) (2 * (canonical + Z.max 0 b)) nvals
  end.

(* HuffmanTable.Build: Err when the validation fails (ErrInvalidDHT); Panic if the lookup
   fill indexed out of range *)
Definition build_table (bits vals : list Z) : outcome htable :=
  if negb (table_valid bits vals) then Err
  else if lookup_ok bits 0 0 0 (zlen vals) then Ok (mkHT bits vals (build_mmv bits 0 0))
  else Panic.

(* HuffmanDecoder.Decode, slow path (the only live one): bit-serial over lengths 1..16 *)
Fixpoint decode_loop (mmv : list (Z * Z * Z)) (vals : list Z) (code : Z) (st : rstate)
  : option (Z * rstate) :=
  match mmv with
  | [] => None                                     (* ErrHuffmanDecode *)
  | (mn, mx, vp) :: rest =>
    match read_bit st with
    | None => None
    | Some (bit, st') =>
      let code' := 2 * code + (if bit then 1 else 0) in
      if (code' <=? mx) && (0 <=? mx) then
        let idx := vp + code' - mn in
        if (0 <=? idx) && (idx <? zlen vals) then Some (znth vals idx 0, st')
        else decode_loop rest vals code' st'
      else decode_loop rest vals code' st'
    end
  end.
Definition huff_decode (t : htable) (st : rstate) : option (Z * rstate) :=
  decode_loop (ht_mmv t) (ht_vals t) 0 st.

(* ReceiveExtend(ssss): ssss may be anything in 0..255 when the table is hostile *)
(* EXTEND: val := int(bits); if val < (1 << (ssss-1)) { val += (-1 << ssss) + 1 } *)
Definition extend_val (ssss v : Z) : Z :=
  if v <? shl64 1 (ssss - 1) then v + (shl64 (-1) ssss + 1) else v.
Definition receive_extend (st : rstate) (ssss : Z) : option (Z * rstate) :=
  if ssss =? 0 then Some (0, st)
  else
    match read_bits st ssss with
    | None => None
    | Some (v, st') => Some (extend_val ssss v, st')
    end.
(* ReceiveLosslessDifference *)
Definition receive_lossless (st : rstate) (cat : Z) : option (Z * rstate) :=
  if cat =? 16 then Some (-32768, st) else receive_extend st cat.

(* ---------- encoder side ---------- *)
(* BuildHuffmanCodes: canonical (Code uint16, Len) for the value positions in order ... *)
Fixpoint canon (bits : list Z) (len code : Z) : list (Z * Z) :=
  match bits with
  | [] => []
  | b :: bs =>
    map (fun i => (wrapU 16 (code + i), len)) (seqZ 0 (Z.to_nat b))
      ++ canon bs (len + 1) (wrapU 16 (2 * wrapU 16 (code + Z.max 0 b)))
  end.
(* ... written into codes[256] in that order (a later duplicate overwrites); assignments stop
   when p reaches len(Values) (combine truncates). *)
Definition build_codes (bits vals : list Z) : list (Z * Z) :=
  fold_left (fun codes vc => zupd codes (fst vc) (snd vc))
            (combine vals (canon bits 1 0)) (repeat (0, 0) 256).

(* diffCategory (jpeg/lossless, jpeg/lossless14sv1): bit length of |val| by shifting *)
Fixpoint bitlen_loop (fuel : nat) (val cat : Z) : Z :=
  match fuel with
  | O => cat
  | S f => if 0 <? val then bitlen_loop f (Z.shiftr val 1) (cat + 1) else cat
  end.
Definition diff_category (val : Z) : Z :=
  if val =? 0 then 0 else bitlen_loop 64 (Z.abs val) 0.

(* EncodeCategory: cat = 1; for (1<<cat) <= absVal { cat++ } *)
(* [pow] = 1 << cat, kept incrementally *)
Fixpoint cat_loop (fuel : nat) (absval cat pow : Z) : Z :=
  match fuel with
  | O => cat
  | S f => if pow <=? absval then cat_loop f absval (cat + 1) (2 * pow) else cat
  end.
Definition encode_category (val : Z) : Z * Z :=
  if val =? 0 then (0, 0)
  else
    let cat := cat_loop 64 (Z.abs val) 1 2 in
    if 0 <? val then (cat, u32 val) else (cat, u32 (Z.shiftl 1 cat + val - 1)).
(* EncodeLosslessDifference *)
Definition encode_lossless_diff (d : Z) : Z * Z :=
  if d =? -32768 then (16, 0) else encode_category d.

(* ---------- BuildOptimalHuffmanTable ---------- *)
(* smallestFrequencySymbol: last index among the minima (value <= smallest), skipping zeros
   and [excluded]; -1 when none *)
Fixpoint smallest_go (l : list Z) (i excluded symbol smallest : Z) : Z :=
  match l with
  | [] => symbol
  | v :: l' =>
    if negb (v =? 0) && negb (i =? excluded) && ((symbol <? 0) || (v <=? smallest))
    then smallest_go l' (i + 1) excluded i v
    else smallest_go l' (i + 1) excluded symbol smallest
  end.
Definition smallest_sym (freq : list Z) (excluded : Z) : Z := smallest_go freq 0 excluded (-1) 0.

(* incrementCodeSize: walk the others-chain; None = chain longer than the array (a cycle: the
   Go loop would not terminate) *)
Fixpoint incr_chain (fuel : nat) (cs others : list Z) (sym : Z) : option (list Z) :=
  if sym <? 0 then Some cs else
  match fuel with
  | O => None
  | S f => incr_chain f (zupd cs sym (znth cs sym 0 + 1)) others (znth others sym (-1))
  end.
(* lastBranchSymbol *)
Fixpoint last_branch (fuel : nat) (others : list Z) (sym : Z) : option Z :=
  if znth others sym (-1) <? 0 then Some sym else
  match fuel with
  | O => None
  | S f => last_branch f others (znth others sym (-1))
  end.

(* the merge loop; fuel = number of symbols + 1 (each round zeroes one frequency) *)
Fixpoint merge_loop (fuel : nat) (freq cs others : list Z) : outcome (list Z) :=
  match fuel with
  | O => OutOfFuel
  | S f =>
    let c1 := smallest_sym freq (-1) in
    let c2 := smallest_sym freq c1 in
    if c2 <? 0 then Ok cs
    else if c1 <? 0 then Panic                       (* freq[-1] *)
    else
      let freq1 := zupd freq c1 (wrapU 64 (znth freq c1 0 + znth freq c2 0)) in
      let freq2 := zupd freq1 c2 0 in
      let n := length others in
      match incr_chain n cs others c1 with
      | None => OutOfFuel
      | Some cs1 =>
        match last_branch n others c1 with
        | None => OutOfFuel
        | Some lb =>
          let others1 := zupd others lb c2 in
          match incr_chain n cs1 others1 c2 with
          | None => OutOfFuel
          | Some cs2 => merge_loop f freq2 cs2 others1
          end
        end
      end
  end.

(* bits[size]++ for every size > 0; bits has maxHuffmanCodeLength+1 = 257 entries: size > 256
   would be an index panic.  History (finding F48, fixed in /repo): the bound was 32 and a
   Fibonacci-like frequency vector over 33 symbols made bits[33] panic. *)
Fixpoint count_sizes (cs : list Z) (bits : list Z) : outcome (list Z) :=
  match cs with
  | [] => Ok bits
  | s :: cs' =>
    if 0 <? s then
      if 256 <? s then Panic else count_sizes cs' (zupd bits s (znth bits s 0 + 1))
    else count_sizes cs' bits
  end.

(* for bits[prefixSize] == 0 { prefixSize-- } ; index -1 is a panic *)
Fixpoint find_prefix (fuel : nat) (bits : list Z) (j : Z) : option Z :=
  if j <? 0 then None else
  if negb (znth bits j 0 =? 0) then Some j else
  match fuel with
  | O => None
  | S f => find_prefix f bits (j - 1)
  end.
(* for bits[size] > 0 { ... } : one step moves two codes of length size up *)
Fixpoint limit_size (fuel : nat) (bits : list Z) (size : Z) : outcome (list Z) :=
  if 0 <? znth bits size 0 then
    match fuel with
    | O => OutOfFuel
    | S f =>
      match find_prefix 300 bits (size - 2) with
      | None => Panic
      | Some j =>
        let b1 := zupd bits size (znth bits size 0 - 2) in
        let b2 := zupd b1 (size - 1) (znth b1 (size - 1) 0 + 1) in
        let b3 := zupd b2 (j + 1) (znth b2 (j + 1) 0 + 2) in
        let b4 := zupd b3 j (znth b3 j 0 - 1) in
        limit_size f b4 size
      end
    end
  else Ok bits.
(* for size := 256; size > 16; size-- *)
Fixpoint limit_all (sizes : list Z) (bits : list Z) : outcome (list Z) :=
  match sizes with
  | [] => Ok bits
  | s :: ss => obind (limit_size 300 bits s) (fun b => limit_all ss b)
  end.
Definition sizes_hi : list Z := rev (seqZ 17 240).   (* 256, 255, ..., 17 *)

(* for size := 256; size > 0; size-- { if bits[size] > 0 { bits[size]--; break } } *)
Fixpoint remove_pseudo (fuel : nat) (bits : list Z) (size : Z) : list Z :=
  match fuel with
  | O => bits
  | S f =>
    if size <=? 0 then bits
    else if 0 <? znth bits size 0 then zupd bits size (znth bits size 0 - 1)
    else remove_pseudo f bits (size - 1)
  end.

(* Values: for size 1..256, for symbol 0..255: codeSize[symbol] == size *)
Fixpoint syms_of_size (cs : list Z) (sym size : Z) : list Z :=
  match cs with
  | [] => []
  | s :: cs' => if s =? size then sym :: syms_of_size cs' (sym + 1) size
                else syms_of_size cs' (sym + 1) size
  end.
Definition opt_values (cs : list Z) : list Z :=
  flat_map (fun size => syms_of_size (firstn 256 cs) 0 size) (seqZ 1 256).

(* BuildOptimalHuffmanTable(frequencies [256]uint64): (Bits[16], Values) *)
Definition build_optimal (freqs : list Z) : outcome (list Z * list Z) :=
  let freq := firstn 256 freqs ++ [1] in
  obind (merge_loop 258 freq (repeat 0 257) (repeat (-1) 257)) (fun cs =>
  obind (count_sizes cs (repeat 0 257)) (fun bits =>
  obind (limit_all sizes_hi bits) (fun bits' =>
    let bits'' := remove_pseudo 257 bits' 256 in
    Ok (firstn 16 (skipn 1 bits''), opt_values cs)))).
(* ... followed by `_ = table.Build()`: the error is dropped, a panic would not be *)
Definition build_optimal_table (freqs : list Z) : outcome (list Z * list Z) :=
  obind (build_optimal freqs) (fun bv =>
    match build_table (fst bv) (snd bv) with
    | Panic => Panic
    | _ => Ok bv
    end).
