(* EXTRACT *)
(* Model of jpeg/lossless/{encoder,decoder,predictors}.go and jpeg/lossless14sv1/{encoder,
   decoder}.go (code as it is), on top of JllBits / JllHuff (jpeg/standard).

   Representation.  The Go code keeps planes samples[comp][row*width+col]; the loops visit
   (row, col, comp) in that order and read the neighbours (row,col-1), (row-1,col),
   (row-1,col-1) of the same plane.  The model keeps the samples in scan order as rows of
   pixels of components (list (list (list Z))): sample (comp,row,col) of the Go code is
   element comp of pixel col of row row.  The traversal passes, for every sample, the flags
   row = 0 / col = 0 and the three neighbours (placeholders where the Go code does not index).
   Go int is 64 bit; the sample arithmetic stays far below 2^63 for dimensions <= 65535
   (at most 2^32 differences of magnitude <= 2^15 are accumulated), so it is done in Z.
   bytes.Buffer / io.Reader plumbing is modelled by list append / list consumption. *)
From V Require Import Common.Base JpegLL.JllBits JpegLL.JllHuff.

(* ---------- predictors.go ---------- *)
Definition predictor (p ra rb rc : Z) : Z :=
  if p =? 1 then ra
  else if p =? 2 then rb
  else if p =? 3 then rc
  else if p =? 4 then ra + rb - rc
  else if p =? 5 then ra + Z.shiftr (rb - rc) 1
  else if p =? 6 then rb + Z.shiftr (ra - rc) 1
  else if p =? 7 then Z.shiftr (ra + rb) 1
  else ra.

(* ---------- scan-order traversal shared by encoder, table optimiser, selector ---------- *)
Fixpoint chunk_f {A} (fuel k : nat) (l : list A) : list (list A) :=
  match fuel with
  | O => []
  | S f => match l with [] => [] | _ => firstn k l :: chunk_f f k (skipn k l) end
  end.
Definition chunk {A} (k : nat) (l : list A) : list (list A) := chunk_f (length l) k l.

Section ScanMap.
  Context {B : Type}.
  (* f row0 col0 left above aboveleft x *)
  Variable f : bool -> bool -> Z -> Z -> Z -> Z -> B.
  Fixpoint map4 (row0 col0 : bool) (l a al x : list Z) : list B :=
    match l, a, al, x with
    | l0 :: l', a0 :: a', al0 :: al', x0 :: x' =>
      f row0 col0 l0 a0 al0 x0 :: map4 row0 col0 l' a' al' x'
    | _, _, _, _ => []
    end.
  Fixpoint row_map (row0 col0 : bool) (left aleft : list Z) (prev cur : list (list Z)) : list B :=
    match cur, prev with
    | px :: cur', ab :: prev' =>
      map4 row0 col0 left ab aleft px ++ row_map row0 false px ab prev' cur'
    | _, _ => []
    end.
  Fixpoint rows_map (row0 : bool) (dpx : list Z) (prev : list (list Z))
           (rows : list (list (list Z))) : list B :=
    match rows with
    | [] => []
    | r :: rs => row_map row0 true dpx dpx prev r ++ rows_map false dpx r rs
    end.
  (* comps, w as nat: placeholder pixel / placeholder row above row 0 *)
  Definition scan_map (comps w : nat) (rows : list (list (list Z))) : list B :=
    let dpx := repeat 0 comps in rows_map true dpx (repeat dpx w) rows.
End ScanMap.

(* ---------- prediction as coded in encodeScan / decodeScan / optimizeHuffmanTables ------ *)
(* edgeAwarePrediction (predictors.go): the T.81 H.1.2.1 first-line / first-column rules *)
Definition edge_aware (pred : Z) (row0 col0 : bool) (ra rb rc dflt : Z) : Z :=
  if row0 && col0 then dflt
  else if row0 then ra
  else if col0 then rb
  else predictor pred ra rb rc.
(* dflt = 1 << (precision-1); ra, rb, rc as selected in encodeScan / decodeScan /
   optimizeHuffmanTables: the default value where the neighbour does not exist.
   History (findings F08/F09, fixed in /repo): until commit 571863c the code used
   Predictor(p, ra, rb, rc) with these defaults for every sample but the first (and Ra := the
   sample above for predictor 1 in column 0), which is not H.1.2.1 for predictors 2,3,5,6,7
   (smallest witness: 2x1 image {0,0}, P = 8, predictor 2: 128 predicted for the 2nd sample). *)
Definition ll_pred (pred dflt : Z) (row0 col0 : bool) (left above aleft : Z) : Z :=
  let ra := if col0 then dflt else left in
  let rb := if row0 then dflt else above in
  let rc := if row0 || col0 then dflt else aleft in
  edge_aware pred row0 col0 ra rb rc dflt.
(* lossless14sv1: first pixel 2^(P-1), first column the pixel above, otherwise the left one *)
Definition sv1_pred (dflt : Z) (row0 col0 : bool) (left above aleft : Z) : Z :=
  if col0 then (if row0 then dflt else above) else left.

(* diff := int(int16(sample - predicted)) *)
(* int16(v) = wrapS 16 v, moduli written as literals (narrow16_wrapS in JllProofs) *)
Definition narrow16 (v : Z) : Z := let m := Z.land v 65535 in if m <? 32768 then m else m - 65536.
Definition narrow_diff (x px : Z) : Z := narrow16 (x - px).

(* ---------- pixelsToSamples ---------- *)
Fixpoint le16 (l : list Z) : list Z :=
  match l with
  | lo :: hi :: l' => Z.lor lo (Z.shiftl hi 8) :: le16 l'
  | _ => []
  end.
Definition pixels_to_rows (w h comps P : Z) (pixels : list Z) : list (list (list Z)) :=
  let n := Z.to_nat (w * h * comps) in
  let samples := firstn n (if P <=? 8 then pixels else le16 pixels) in
  chunk (Z.to_nat w) (chunk (Z.to_nat comps) samples).

(* ---------- SelectBestPredictor / calculatePredictionVariance ---------- *)
Definition var_term (p : Z) (row0 col0 : bool) (left above aleft x : Z) : Z :=
  let ra := if col0 then 0 else left in
  let rb := if row0 then 0 else above in
  let rc := if row0 || col0 then 0 else aleft in
  let d := x - predictor p ra rb rc in d * d.
Definition pred_variance (w h comps : Z) (rows : list (list (list Z))) (p : Z) : Z :=
  let s := wrapS 64 (zsum (scan_map (var_term p) (Z.to_nat comps) (Z.to_nat w) rows)) in
  Z.quot s (w * h * comps).
Fixpoint select_loop (ps : list Z) (var : Z -> Z) (best minv : Z) : Z :=
  match ps with
  | [] => best
  | p :: ps' => let v := var p in
                if v <? minv then select_loop ps' var p v else select_loop ps' var best minv
  end.
Definition select_best (w h comps : Z) (rows : list (list (list Z))) : Z :=
  select_loop [1;2;3;4;5;6;7] (pred_variance w h comps rows) 1 (2 ^ 62).

(* ---------- optimizeHuffmanTables ---------- *)
Definition count_freqs (diffs : list Z) : list Z :=
  fold_left (fun fr d => let c := diff_category d in zupd fr c (znth fr c 0 + 1))
            diffs (repeat 0 256).

(* ---------- encodeScan ---------- *)
Fixpoint enc_syms (codes : list (Z * Z)) (st : wstate) (diffs : list Z) : list Z :=
  match diffs with
  | [] => w_flush st
  | d :: ds =>
    let '(cat, mag) := encode_lossless_diff d in
    let '(code, len) := znth codes cat (0, 0) in
    let '(st1, o1) := write_bits st code len in
    let '(st2, o2) := if (0 <? cat) && negb (cat =? 16) then write_bits st1 mag cat
                      else (st1, []) in
    o1 ++ o2 ++ enc_syms codes st2 ds
  end.

(* ---------- writer.go ---------- *)
Definition be16 (v : Z) : list Z := [byte_of (Z.shiftr v 8); byte_of v].
Definition segment (marker : Z) (data : list Z) : list Z :=
  be16 marker ++ be16 (wrapU 16 (zlen data + 2)) ++ data.
Definition M_SOI := 65496.   (* FFD8 *)
Definition M_EOI := 65497.   (* FFD9 *)
Definition M_SOF3 := 65475.  (* FFC3 *)
Definition M_DHT := 65476.   (* FFC4 *)
Definition M_SOS := 65498.   (* FFDA *)
Definition M_APP0 := 65504.  (* FFE0 *)
Definition jfif_payload : list Z := [74; 70; 73; 70; 0; 1; 1; 0; 0; 1; 0; 1; 0; 0].

Definition sof3_data (w h comps P : Z) : list Z :=
  [byte_of P; byte_of (Z.shiftr h 8); byte_of h; byte_of (Z.shiftr w 8); byte_of w; byte_of comps]
  ++ flat_map (fun i => [byte_of (i + 1); 17; 0]) (seqZ 0 (Z.to_nat comps)).
(* copy(data[17:], Values) into a zeroed slice of totalValues entries *)
Definition copy_pad (total : Z) (vals : list Z) : list Z :=
  let t := Z.to_nat total in firstn t vals ++ repeat 0 (t - length vals).
Definition dht_data (th : Z) (bits vals : list Z) : list Z :=
  [byte_of th] ++ map byte_of bits ++ copy_pad (zsum bits) vals.
Definition sos_data (comps pred : Z) : list Z :=
  [byte_of comps] ++ flat_map (fun i => [byte_of (i + 1); 0]) (seqZ 0 (Z.to_nat comps))
  ++ [byte_of pred; 0; 0].

(* ---------- Encode (jpeg/lossless) ---------- *)
Definition params_ok (w h comps P : Z) (pixels : list Z) : bool :=
  (0 <? w) && (0 <? h) && (w <=? 65535) && (h <=? 65535)
  && ((comps =? 1) || (comps =? 3)) && (2 <=? P) && (P <=? 16)
  && (w * h * comps * ((P + 7) / 8) <=? zlen pixels).

(* everything after the samples and the difference sequence are known *)
Definition encode_stream (w h comps P pred : Z) (diffs : list Z) : outcome (list Z) :=
  obind (build_optimal_table (count_freqs diffs)) (fun t =>
    let codes := build_codes (fst t) (snd t) in
    Ok (be16 M_SOI ++ segment M_APP0 jfif_payload
        ++ segment M_SOF3 (sof3_data w h comps P)
        ++ segment M_DHT (dht_data 0 (fst t) (snd t))
        ++ segment M_SOS (sos_data comps pred)
        ++ enc_syms codes w_init diffs
        ++ be16 M_EOI)).

Definition ll_diffs (w comps P pred : Z) (rows : list (list (list Z))) : list Z :=
  let dflt := 2 ^ (P - 1) in
  scan_map (fun row0 col0 l a al x => narrow_diff x (ll_pred pred dflt row0 col0 l a al))
           (Z.to_nat comps) (Z.to_nat w) rows.

Definition jll_encode (w h comps P pred : Z) (pixels : list Z) : outcome (list Z) :=
  if negb (params_ok w h comps P pixels) then Err
  else if (pred <? 0) || (7 <? pred) then Err
  else
    let rows := pixels_to_rows w h comps P pixels in
    let pred' := if pred =? 0 then select_best w h comps rows else pred in
    encode_stream w h comps P pred' (ll_diffs w comps P pred' rows).

(* ---------- Encode (jpeg/lossless14sv1) ---------- *)
Definition sv1_diffs (w comps P : Z) (rows : list (list (list Z))) : list Z :=
  let dflt := 2 ^ (P - 1) in
  scan_map (fun row0 col0 l a al x => narrow_diff x (sv1_pred dflt row0 col0 l a al))
           (Z.to_nat comps) (Z.to_nat w) rows.
Definition sv1_encode (w h comps P : Z) (pixels : list Z) : outcome (list Z) :=
  if negb (params_ok w h comps P pixels) then Err
  else
    let rows := pixels_to_rows w h comps P pixels in
    encode_stream w h comps P 1 (sv1_diffs w comps P rows).

(* ====================== decoders ====================== *)
(* ---------- reader.go ---------- *)
Fixpoint skip_ff (l : list Z) : outcome (Z * list Z) :=
  match l with
  | [] => Err
  | b :: l' => if b =? 255 then skip_ff l' else Ok (b, l')
  end.
Definition read_marker (l : list Z) : outcome (Z * list Z) :=
  match l with
  | [] => Err
  | b :: l' =>
    if negb (b =? 255) then Err
    else obind (skip_ff l') (fun bl => if fst bl =? 0 then Err else Ok (65280 + fst bl, snd bl))
  end.
Definition read_segment (l : list Z) : outcome (list Z * list Z) :=
  match l with
  | hi :: lo :: l' =>
    let len := hi * 256 + lo in
    if len <? 2 then Err
    else let n := Z.to_nat (len - 2) in
         if (length l' <? n)%nat then Err else Ok (firstn n l', skipn n l')
  | _ => Err
  end.
Definition is_rst (m : Z) : bool := (65488 <=? m) && (m <=? 65495).   (* FFD0..FFD7 *)
Definition has_length (m : Z) : bool := negb ((m =? M_SOI) || (m =? M_EOI) || is_rst m).
(* standard.IsSOF: FFC0-C3, C5-C7, C9-CB, CD-CF *)
Definition is_sof (m : Z) : bool :=
  ((65472 <=? m) && (m <=? 65475)) || ((65477 <=? m) && (m <=? 65479))
  || ((65481 <=? m) && (m <=? 65483)) || ((65485 <=? m) && (m <=? 65487)).
(* default branch of the marker loops: a frame header of another process (or FFF7, JPEG-LS) *)
Definition foreign_frame (m : Z) : bool := is_sof m || (m =? 65527).

(* ---------- sample reconstruction, shared by both decoders ---------- *)
(* jpeg/lossless: sample := (predicted + diff) & 0xFFFF  (modulo 2^16, T.81 H.1.2.1).
   History (finding F08, fixed in /repo by commit 26af654): the decoder used to wrap once by
   2^P like the SV1 decoder below, which is wrong for predictors 4,5,6 at P = 15
   (witness: P = 15, predictor 4, 2x2 image {0,32767,32767,0} decoded its last sample as 32768). *)
Definition recon16 (px diff : Z) : Z := Z.land (px + diff) 65535.
(* jpeg/lossless14sv1: add the prediction and wrap ONCE by modulus = 2^P *)
Definition recon (modulus px diff : Z) : Z :=
  let s := px + diff in
  if s <? 0 then s + modulus else if modulus <=? s then s - modulus else s.
(* Decode the category, receive the difference, reconstruct with [rec] *)
Definition dec_sample (t : htable) (rec : Z -> Z -> Z) (px : Z) (st : rstate) : option (Z * rstate) :=
  match huff_decode t st with
  | None => None
  | Some (cat, st1) =>
    match (if 0 <? cat then receive_lossless st1 cat else Some (0, st1)) with
    | None => None
    | Some (diff, st2) => Some (rec px diff, st2)
    end
  end.

Section DecScan.
  (* predf row0 col0 left above aboveleft ; tabs: per component, the table lookup result
     (Ok table / Err: nil table / Panic: selector outside the array), evaluated when the
     component's sample is decoded, as in the Go loops *)
  Variable predf : bool -> bool -> Z -> Z -> Z -> Z.
  Variable rec : Z -> Z -> Z.
  Fixpoint dec_px (tabs : list (outcome htable)) (row0 col0 : bool) (l a al : list Z)
           (st : rstate) : outcome (list Z * rstate) :=
    match tabs, l, a, al with
    | t :: tabs', l0 :: l', a0 :: a', al0 :: al' =>
      obind t (fun tb =>
        match dec_sample tb rec (predf row0 col0 l0 a0 al0) st with
        | None => Err
        | Some (s, st1) =>
          obind (dec_px tabs' row0 col0 l' a' al' st1) (fun r => Ok (s :: fst r, snd r))
        end)
    | _, _, _, _ => Ok ([], st)
    end.
  Fixpoint dec_row (tabs : list (outcome htable)) (row0 col0 : bool) (left aleft : list Z)
           (prev : list (list Z)) (st : rstate) : outcome (list (list Z) * rstate) :=
    match prev with
    | [] => Ok ([], st)
    | ab :: prev' =>
      obind (dec_px tabs row0 col0 left ab aleft st) (fun r1 =>
      obind (dec_row tabs row0 false (fst r1) ab prev' (snd r1)) (fun r2 =>
        Ok (fst r1 :: fst r2, snd r2)))
    end.
  Fixpoint dec_rows (n : nat) (tabs : list (outcome htable)) (row0 : bool) (dpx : list Z)
           (prev : list (list Z)) (st : rstate) : outcome (list (list (list Z)) * rstate) :=
    match n with
    | O => Ok ([], st)
    | S k =>
      obind (dec_row tabs row0 true dpx dpx prev st) (fun r1 =>
      obind (dec_rows k tabs false dpx (fst r1) (snd r1)) (fun r2 =>
        Ok (fst r1 :: fst r2, snd r2)))
    end.
  Definition dec_image (w h : Z) (tabs : list (outcome htable)) (scan : list Z)
    : outcome (list (list (list Z))) :=
    let dpx := repeat 0 (length tabs) in
    obind (dec_rows (Z.to_nat h) tabs true dpx (repeat dpx (Z.to_nat w)) (r_init scan))
          (fun r => Ok (fst r)).
End DecScan.

(* samplesToPixels / convertToPixels *)
Definition sample_bytes (P : Z) (v : Z) : list Z :=
  if P <=? 8 then [byte_of v] else [byte_of v; byte_of (Z.shiftr v 8)].
Definition rows_to_pixels (P : Z) (rows : list (list (list Z))) : list Z :=
  flat_map (sample_bytes P) (concat (concat rows)).

Definition dec_result : Type := list Z * Z * Z * Z * Z.   (* pixels, width, height, comps, P *)

(* ---------- Decode (jpeg/lossless) ---------- *)
(* dcTables [4], dcTableSelectors [3] *)
Record dstate := mkD { d_w : Z; d_h : Z; d_comps : Z; d_P : Z; d_pred : Z;
                       d_tabs : list (option htable); d_sels : list Z }.
Definition d_init : dstate := mkD 0 0 0 0 0 [None; None; None; None] [0; 0; 0].

Definition ll_parse_sof3 (data : list Z) (st : dstate) : outcome dstate :=
  if zlen data <? 6 then Err
  else if negb (d_w st =? 0) || negb (d_h st =? 0) then Err     (* a second frame header *)
  else
    let P := znth data 0 0 in
    if (P <? 2) || (16 <? P) then Err
    else
      let h := Z.lor (Z.shiftl (znth data 1 0) 8) (znth data 2 0) in
      let w := Z.lor (Z.shiftl (znth data 3 0) 8) (znth data 4 0) in
      let comps := znth data 5 0 in
      if (w <=? 0) || (h <=? 0) then Err
      else if negb ((comps =? 1) || (comps =? 3)) then Err
      else Ok (mkD w h comps P (d_pred st) (d_tabs st) (d_sels st)).

Fixpoint ll_parse_dht (fuel : nat) (data : list Z) (st : dstate) : outcome dstate :=
  match data with
  | [] => Ok st
  | tcth :: rest =>
    match fuel with
    | O => OutOfFuel
    | S f =>
      let tc := Z.land (Z.shiftr tcth 4) 15 in
      let th := Z.land tcth 15 in
      if 4 <=? th then Err
      else if (length rest <? 16)%nat then Err
      else
        let bits := firstn 16 rest in
        let rest1 := skipn 16 rest in
        let total := zsum bits in
        if zlen rest1 <? total then Err
        else
          let vals := firstn (Z.to_nat total) rest1 in
          obind (build_table bits vals) (fun t =>
            let st' := if tc =? 0
                       then mkD (d_w st) (d_h st) (d_comps st) (d_P st) (d_pred st)
                                (zupd (d_tabs st) th (Some t)) (d_sels st)
                       else st in
            ll_parse_dht f (skipn (Z.to_nat total) rest1) st')
    end
  end.

Fixpoint ll_selectors (k : nat) (comp : Z) (data : list Z) (sels : list Z) : outcome (list Z) :=
  match k with
  | O => Ok sels
  | S k' =>
    let sel := Z.shiftr (znth data (2 + comp * 2) 0) 4 in
    if 4 <=? sel then Err else ll_selectors k' (comp + 1) data (zupd sels comp sel)
  end.
Definition ll_parse_sos (data : list Z) (st : dstate) : outcome dstate :=
  let comps := d_comps st in
  if zlen data <? 1 + comps * 2 + 3 then Err
  else if negb (znth data 0 0 =? comps) then Err
  else
    let pred := znth data (1 + comps * 2) 0 in
    if (pred <? 1) || (7 <? pred) then Err
    else obind (ll_selectors (Z.to_nat comps) 0 data (d_sels st)) (fun sels =>
           Ok (mkD (d_w st) (d_h st) comps (d_P st) pred (d_tabs st) sels)).

(* decodeScan: scan bytes up to (excluding) the first FF xx with xx <> 0; FF at EOF kept *)
Fixpoint ll_extract_scan (l : list Z) : list Z :=
  match l with
  | [] => []
  | b :: l' =>
    if b =? 255 then
      match l' with
      | [] => [b]
      | b2 :: l'' => if b2 =? 0 then b :: b2 :: ll_extract_scan l'' else []
      end
    else b :: ll_extract_scan l'
  end.

Definition opt_table (o : option htable) : outcome htable :=
  match o with Some t => Ok t | None => Err end.
Definition ll_tabs (st : dstate) : list (outcome htable) :=
  map (fun sel => opt_table (znth (d_tabs st) sel None))
      (firstn (Z.to_nat (d_comps st)) (d_sels st)).

Definition ll_decode_scan (st : dstate) (l : list Z) : outcome dec_result :=
  let P := d_P st in
  obind (dec_image (ll_pred (d_pred st) (2 ^ (P - 1))) recon16 (d_w st) (d_h st) (ll_tabs st)
                   (ll_extract_scan l))
        (fun rows => Ok (rows_to_pixels P rows, d_w st, d_h st, d_comps st, P)).

Fixpoint ll_loop (fuel : nat) (l : list Z) (st : dstate) : outcome dec_result :=
  match fuel with
  | O => OutOfFuel
  | S f =>
    obind (read_marker l) (fun ml =>
      let m := fst ml in
      let l1 := snd ml in
      if m =? M_SOF3 then
        obind (read_segment l1) (fun dl =>
        obind (ll_parse_sof3 (fst dl) st) (fun st' => ll_loop f (snd dl) st'))
      else if m =? M_DHT then
        obind (read_segment l1) (fun dl =>
        obind (ll_parse_dht (length (fst dl)) (fst dl) st) (fun st' => ll_loop f (snd dl) st'))
      else if m =? M_SOS then
        obind (read_segment l1) (fun dl =>
        obind (ll_parse_sos (fst dl) st) (fun st' => ll_decode_scan st' (snd dl)))
      else if m =? M_EOI then Err
      else if foreign_frame m then Err
      else if has_length m then
        obind (read_segment l1) (fun dl => ll_loop f (snd dl) st)
      else ll_loop f l1 st)
  end.

Definition jll_decode (l : list Z) : outcome dec_result :=
  obind (read_marker l) (fun ml =>
    if negb (fst ml =? M_SOI) then Err else ll_loop (length l) (snd ml) d_init).

(* ---------- Decode (jpeg/lossless14sv1) ---------- *)
(* components: (ID, dcTableSelector) in frame order; dcTables [4] *)
Record sstate := mkS { s_w : Z; s_h : Z; s_P : Z; s_comps : list (Z * Z);
                       s_tabs : list (option htable) }.
Definition s_init : sstate := mkS 0 0 0 [] [None; None; None; None].

(* n = numComponents.  The sampling factor check applies only when n > 1: for a single
   component the factors do not change the image (T.81 A.1.1 / A.2.2).  History (finding
   F54): the check was unconditional, so a conformant greyscale frame whose SOF3 declares
   H1 = V1 = 2 was rejected with ErrUnsupportedFormat. *)
Fixpoint sv1_sof_comps (n : Z) (k : nat) (i : Z) (data : list Z) : outcome (list (Z * Z)) :=
  match k with
  | O => Ok []
  | S k' =>
    let off := 6 + i * 3 in
    let hv := znth data (off + 1) 0 in
    if (1 <? n) && (negb (Z.shiftr hv 4 =? 1) || negb (Z.land hv 15 =? 1)) then Err
    else obind (sv1_sof_comps n k' (i + 1) data) (fun cs => Ok ((znth data off 0, 0) :: cs))
  end.
Definition sv1_parse_sof3 (data : list Z) (st : sstate) : outcome sstate :=
  if zlen data <? 6 then Err
  else if negb (s_w st =? 0) || negb (s_h st =? 0) then Err     (* a second frame header *)
  else
    let P := znth data 0 0 in
    if (P <? 2) || (16 <? P) then Err
    else
      let h := Z.lor (Z.shiftl (znth data 1 0) 8) (znth data 2 0) in
      let w := Z.lor (Z.shiftl (znth data 3 0) 8) (znth data 4 0) in
      let n := znth data 5 0 in
      if (w <=? 0) || (h <=? 0) then Err
      else if negb ((n =? 1) || (n =? 3)) then Err
      else if zlen data <? 6 + n * 3 then Err
      else obind (sv1_sof_comps n (Z.to_nat n) 0 data) (fun cs => Ok (mkS w h P cs (s_tabs st))).

Fixpoint sv1_parse_dht (fuel : nat) (data : list Z) (st : sstate) : outcome sstate :=
  match data with
  | [] => Ok st
  | tcth :: rest =>
    match fuel with
    | O => OutOfFuel
    | S f =>
      let tc := Z.shiftr tcth 4 in
      let th := Z.land tcth 15 in
      if 3 <? th then Err
      else if (length rest <? 16)%nat then Err
      else
        let bits := firstn 16 rest in
        let rest1 := skipn 16 rest in
        let total := zsum bits in
        if zlen rest1 <? total then Err
        else
          let vals := firstn (Z.to_nat total) rest1 in
          obind (build_table bits vals) (fun t =>
            let st' := if tc =? 0
                       then mkS (s_w st) (s_h st) (s_P st) (s_comps st) (zupd (s_tabs st) th (Some t))
                       else st in
            sv1_parse_dht f (skipn (Z.to_nat total) rest1) st')
    end
  end.

(* comp.dcTableSelector = selector on the first component whose ID is cs *)
Fixpoint sv1_set_sel (cs td : Z) (comps : list (Z * Z)) : option (list (Z * Z)) :=
  match comps with
  | [] => None
  | (id, sel) :: rest =>
    if id =? cs then Some ((id, td) :: rest)
    else match sv1_set_sel cs td rest with
         | None => None
         | Some rest' => Some ((id, sel) :: rest')
         end
  end.
Fixpoint sv1_sos_comps (k : nat) (i : Z) (data : list Z) (comps : list (Z * Z))
  : outcome (list (Z * Z)) :=
  match k with
  | O => Ok comps
  | S k' =>
    (* selector := int(td >> 4); >= len(dcTables) -> ErrInvalidSOS (after the component
       lookup).  History (finding F11, fixed by commit c78645a): the whole Td|Ta byte was
       stored, so Td = 1 indexed dcTables[16] and panicked. *)
    let sel := Z.shiftr (znth data (1 + i * 2 + 1) 0) 4 in
    match sv1_set_sel (znth data (1 + i * 2) 0) sel comps with
    | None => Err
    | Some comps' => if 4 <=? sel then Err else sv1_sos_comps k' (i + 1) data comps'
    end
  end.
Definition sv1_parse_sos (data : list Z) (st : sstate) : outcome sstate :=
  if zlen data <? 1 then Err
  else
    let ns := znth data 0 0 in
    if zlen data <? 1 + ns * 2 + 3 then Err
    else obind (sv1_sos_comps (Z.to_nat ns) 0 data (s_comps st)) (fun comps =>
           if negb (znth data (1 + ns * 2) 0 =? 1) then Err
           else Ok (mkS (s_w st) (s_h st) (s_P st) comps (s_tabs st))).

(* scan collection: FF 00 kept, FF RSTn dropped (the bit stream just continues), any other
   FF xx ends the scan, FF at EOF kept *)
Fixpoint sv1_extract_scan (l : list Z) : list Z :=
  match l with
  | [] => []
  | b :: l' =>
    if b =? 255 then
      match l' with
      | [] => [b]
      | b2 :: l'' =>
        if b2 =? 0 then b :: b2 :: sv1_extract_scan l''
        else if is_rst (65280 + b2) then sv1_extract_scan l''
        else []
      end
    else b :: sv1_extract_scan l'
  end.

(* d.dcTables[comp.dcTableSelector] : a selector >= 4 would be an index-out-of-range panic
   (parseSOS now rejects it) *)
Definition sv1_tab (tabs : list (option htable)) (sel : Z) : outcome htable :=
  if 4 <=? sel then Panic else opt_table (znth tabs sel None).

Definition sv1_pixels (st : sstate) (rows : list (list (list Z))) : dec_result :=
  (rows_to_pixels (s_P st) rows, s_w st, s_h st, zlen (s_comps st), s_P st).

Definition sv1_decode_scan (st : sstate) (l : list Z) : outcome dec_result :=
  let P := s_P st in
  obind (dec_image (sv1_pred (2 ^ (P - 1))) (recon (2 ^ P)) (s_w st) (s_h st)
                   (map (fun c => sv1_tab (s_tabs st) (snd c)) (s_comps st))
                   (sv1_extract_scan l))
        (fun rows => Ok (sv1_pixels st rows)).

(* EOI before SOS: convertToPixels of the zero-initialised planes *)
Definition sv1_zero_rows (st : sstate) : list (list (list Z)) :=
  repeat (repeat (repeat 0 (length (s_comps st))) (Z.to_nat (s_w st))) (Z.to_nat (s_h st)).

Fixpoint sv1_loop (fuel : nat) (l : list Z) (st : sstate) : outcome dec_result :=
  match fuel with
  | O => OutOfFuel
  | S f =>
    obind (read_marker l) (fun ml =>
      let m := fst ml in
      let l1 := snd ml in
      if m =? M_SOF3 then
        obind (read_segment l1) (fun dl =>
        obind (sv1_parse_sof3 (fst dl) st) (fun st' => sv1_loop f (snd dl) st'))
      else if m =? M_DHT then
        obind (read_segment l1) (fun dl =>
        obind (sv1_parse_dht (length (fst dl)) (fst dl) st) (fun st' => sv1_loop f (snd dl) st'))
      else if m =? M_SOS then
        obind (read_segment l1) (fun dl =>
        obind (sv1_parse_sos (fst dl) st) (fun st' => sv1_decode_scan st' (snd dl)))
      else if m =? M_EOI then Ok (sv1_pixels st (sv1_zero_rows st))
      else if foreign_frame m then Err
      else if has_length m then
        obind (read_segment l1) (fun dl => sv1_loop f (snd dl) st)
      else sv1_loop f l1 st)
  end.

Definition sv1_decode (l : list Z) : outcome dec_result :=
  obind (read_marker l) (fun ml =>
    if negb (fst ml =? M_SOI) then Err else sv1_loop (length l) (snd ml) s_init).
