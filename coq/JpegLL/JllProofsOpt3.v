(* BuildOptimalHuffmanTable, part C: counting the sizes, the value list, and the final theorem
   build_optimal_ok: the table is a valid canonical table containing every symbol that occurs. *)
From V Require Import Common.Base JpegLL.JllBits JpegLL.JllHuff JpegLL.JllModel JpegLL.JllT81
  JpegLL.JllProofsBits JpegLL.JllProofsHuff JpegLL.JllProofs JpegLL.JllProofsOpt JpegLL.JllProofsOpt2.

Definition cnt (cs : list Z) (i : Z) : Z := zlen (filter (Z.eqb i) cs).
Definition delta (i c : Z) : Z := if i =? c then 1 else 0.

Lemma cnt_cons : forall c cs i, cnt (c :: cs) i = delta i c + cnt cs i.
Proof.
  intros. unfold cnt, delta, zlen. cbn [filter]. destruct (i =? c); cbn [length]; lia.
Qed.
Lemma cnt_nonneg : forall cs i, 0 <= cnt cs i.
Proof. intros. unfold cnt, zlen. lia. Qed.
Lemma cnt_app : forall a b i, cnt (a ++ b) i = cnt a i + cnt b i.
Proof. intros. unfold cnt, zlen. rewrite filter_app, app_length. lia. Qed.
Lemma cnt_zero : forall cs i, Forall (fun c => c <> i) cs -> cnt cs i = 0.
Proof.
  induction cs as [|c cs IH]; intros i H; [reflexivity|]. inversion H; subst. rewrite cnt_cons, IH by assumption.
  unfold delta. destruct (Z.eqb_spec i c); [subst; contradiction | reflexivity].
Qed.

(* ---------- count_sizes ---------- *)
Lemma count_sizes_spec : forall cs bits, Forall (fun c => 0 <= c <= 256) cs -> zlen bits = 257 ->
  exists bits', count_sizes cs bits = Ok bits' /\ zlen bits' = 257 /\
    forall i, 0 <= i < 257 -> znth bits' i 0 = znth bits i 0 + (if 1 <=? i then cnt cs i else 0).
Proof.
  induction cs as [|c cs IH]; intros bits Hc Hl.
  - exists bits. split; [reflexivity|]. split; [assumption|]. intros i Hi. unfold cnt, zlen. cbn. destruct (1 <=? i); lia.
  - inversion Hc as [|? ? Hc0 Hc']; subst. cbn [count_sizes].
    destruct (Z.ltb_spec 0 c) as [Hpos|Hz].
    + destruct (Z.ltb_spec 256 c); [lia|].
      destruct (IH (zupd bits c (znth bits c 0 + 1)) Hc' ltac:(unfold zlen in *; rewrite zupd_length; assumption)) as (bits' & E & L & Hv).
      exists bits'. split; [exact E|]. split; [exact L|]. intros i Hi. rewrite Hv by assumption. rewrite cnt_cons. unfold delta.
      destruct (Z.eqb_spec i c) as [->|Hne].
      * rewrite znth_zupd_same by lia. destruct (Z.leb_spec 1 c); lia.
      * rewrite znth_zupd_other by (intros E'; apply Hne; symmetry; exact E'). destruct (1 <=? i); lia.
    + destruct (IH bits Hc' Hl) as (bits' & E & L & Hv).
      exists bits'. split; [exact E|]. split; [exact L|]. intros i Hi. rewrite Hv by assumption. rewrite cnt_cons. unfold delta.
      destruct (Z.leb_spec 1 i); [|reflexivity]. destruct (Z.eqb_spec i c); [lia|]. lia.
Qed.

Lemma list_ext_znth : forall (a b : list Z), length a = length b ->
  (forall i, 0 <= i < zlen a -> znth a i 0 = znth b i 0) -> a = b.
Proof.
  intros a b Hl H. apply nth_ext with (d := 0) (d' := 0); [assumption|].
  intros n Hn. specialize (H (Z.of_nat n) ltac:(unfold zlen; lia)). unfold znth in H.
  destruct (Z.ltb_spec (Z.of_nat n) 0); [lia|]. rewrite Nat2Z.id in H. exact H.
Qed.

Definition b17_of (cs : list Z) : list Z := map (cnt cs) (seqZ 1 17).

Lemma znth_map_seqZ : forall (g : Z -> Z) s n i, 0 <= i < Z.of_nat n -> znth (map g (seqZ s n)) i 0 = g (s + i).
Proof.
  intros g s n i Hi. unfold znth. destruct (Z.ltb_spec i 0); [lia|].
  rewrite (nth_indep _ 0 (g 0)) by (rewrite map_length, seqZ_length; lia). rewrite map_nth.
  rewrite nth_seqZ by lia. f_equal. lia.
Qed.

Lemma count_sizes_b17 : forall cs, Forall (fun c => 0 <= c <= 17) cs ->
  count_sizes cs (repeat 0 257) = Ok (0 :: b17_of cs ++ repeat 0 239).
Proof.
  intros cs Hc.
  assert (Hc256 : Forall (fun c => 0 <= c <= 256) cs) by (eapply Forall_impl; [|exact Hc]; cbv beta; intros; lia).
  destruct (count_sizes_spec cs (repeat 0 257) Hc256 eq_refl) as (bits' & E & L & Hv).
  assert (L2 : zlen (0 :: b17_of cs ++ repeat 0 239) = 257).
  { unfold zlen. cbn [length]. rewrite app_length, repeat_length. unfold b17_of. rewrite map_length, seqZ_length. reflexivity. }
  rewrite E. f_equal. apply list_ext_znth.
  - unfold zlen in L, L2. apply Nat2Z.inj. rewrite L, L2. reflexivity.
  - intros i Hi. rewrite L in Hi. rewrite Hv by lia.
    change (repeat 0 257) with (repeat 0 (Z.to_nat 257)). rewrite znth_repeat by (rewrite Z2Nat.id; lia).
    destruct (Z.eq_dec i 0) as [->|Hi0]; [reflexivity|].
    destruct (Z.leb_spec 1 i); [|lia].
    unfold znth. destruct (Z.ltb_spec i 0); [lia|].
    replace (Z.to_nat i) with (S (Z.to_nat (i - 1))) by lia. cbn [nth].
    assert (Hb17 : length (b17_of cs) = 17%nat) by (unfold b17_of; rewrite map_length, seqZ_length; reflexivity).
    destruct (Z_lt_le_dec i 18) as [Hlt|Hge].
    + rewrite app_nth1 by (rewrite Hb17; lia).
      pose proof (znth_map_seqZ (cnt cs) 1 17 (i - 1) ltac:(lia)) as Hz. unfold znth in Hz.
      destruct (Z.ltb_spec (i - 1) 0); [lia|]. unfold b17_of. rewrite Hz. rewrite Z.add_0_l. f_equal. lia.
    + rewrite app_nth2 by (rewrite Hb17; lia). rewrite Hb17.
      assert (Hz : nth (Z.to_nat (i - 1) - 17) (repeat 0 239) 0 = 0).
      { clear. generalize (Z.to_nat (i - 1) - 17)%nat as k. generalize 239%nat as n. induction n; intros k; destruct k; cbn [repeat nth]; auto. }
      rewrite Hz. rewrite Z.add_0_l. apply cnt_zero. eapply Forall_impl; [|exact Hc]. cbv beta. intros; lia.
Qed.

(* ---------- sums over the count vector ---------- *)
Lemma zsum_map_add : forall (f g : Z -> Z) l,
  zsum (map (fun i => f i + g i) l) = zsum (map f l) + zsum (map g l).
Proof. induction l; cbn [map zsum fold_right]; [reflexivity|]. unfold zsum in *. lia. Qed.

Lemma kraftw_map : forall (g : Z -> Z) n s,
  kraftw (map g (seqZ s n)) s = zsum (map (fun i => g i * 2 ^ (17 - i)) (seqZ s n)).
Proof.
  induction n; intros s; cbn [seqZ map kraftw zsum fold_right]; [reflexivity|]. rewrite IHn. reflexivity.
Qed.

Lemma delta_w_all : forallb (fun c => (zsum (map (fun i => delta i c * 2 ^ (17 - i)) (seqZ 1 17)) =? wterm c)
                                      && (zsum (map (fun i => delta i c) (seqZ 1 17)) =? (if 0 <? c then 1 else 0)))
                            (seqZ 0 18) = true.
Proof. vm_compute. reflexivity. Qed.
Lemma delta_w : forall c, 0 <= c <= 17 ->
  zsum (map (fun i => delta i c * 2 ^ (17 - i)) (seqZ 1 17)) = wterm c /\
  zsum (map (fun i => delta i c) (seqZ 1 17)) = (if 0 <? c then 1 else 0).
Proof.
  intros c Hc. assert (Hin : In c (seqZ 0 18)) by (apply In_seqZ; lia).
  pose proof (proj1 (forallb_forall _ _) delta_w_all c Hin) as H. cbv beta in H.
  apply andb_true_iff in H. destruct H as [H1 H2]. apply Z.eqb_eq in H1, H2. split; assumption.
Qed.

Lemma b17_sums : forall cs, Forall (fun c => 0 <= c <= 17) cs ->
  kraftw (b17_of cs) 1 = wsum cs /\ zsum (b17_of cs) = npos cs.
Proof.
  intros cs Hc. unfold b17_of. rewrite kraftw_map.
  induction Hc as [|c cs Hc0 Hc IH].
  - split; vm_compute; reflexivity.
  - destruct IH as [IH1 IH2]. destruct (delta_w c Hc0) as [D1 D2]. split.
    + rewrite (map_ext _ (fun i => delta i c * 2 ^ (17 - i) + cnt cs i * 2 ^ (17 - i)))
        by (intros i; rewrite cnt_cons; ring).
      rewrite zsum_map_add, D1, IH1. unfold wsum. cbn [map zsum fold_right]. reflexivity.
    + rewrite (map_ext _ (fun i => delta i c + cnt cs i)) by (intros i; apply cnt_cons).
      rewrite zsum_map_add, D2, IH2. unfold npos, zlen. cbn [filter]. destruct (0 <? c); cbn [length]; lia.
Qed.

Lemma obind_Ok' : forall {A B} (a : A) (f : A -> outcome B), obind (Ok a) f = f a.
Proof. reflexivity. Qed.

(* ---------- the value list ---------- *)
Lemma syms_spec : forall l s0 size x,
  In x (syms_of_size l s0 size) <-> s0 <= x < s0 + zlen l /\ nth (Z.to_nat (x - s0)) l 0 = size.
Proof.
  induction l as [|c l IH]; intros s0 size x; cbn [syms_of_size]; unfold zlen; cbn [length].
  - split; [intros [] | intros [H _]; lia].
  - rewrite Nat2Z.inj_succ.
    assert (Hrest : In x (syms_of_size l (s0 + 1) size) <->
                    s0 + 1 <= x < s0 + Z.succ (Z.of_nat (length l)) /\ nth (Z.to_nat (x - s0)) (c :: l) 0 = size).
    { rewrite IH. unfold zlen. split; intros [H1 H2]; (split; [lia|]).
      - replace (Z.to_nat (x - s0)) with (S (Z.to_nat (x - (s0 + 1)))) by lia. exact H2.
      - replace (Z.to_nat (x - s0)) with (S (Z.to_nat (x - (s0 + 1)))) in H2 by lia. exact H2. }
    destruct (Z.eqb_spec c size) as [E|E].
    + cbn [In]. rewrite Hrest. split.
      * intros [Hx|[H1 H2]]; [subst x; split; [lia|]; rewrite Z.sub_diag; exact E | split; [lia | exact H2]].
      * intros [H1 H2]. destruct (Z.eq_dec x s0) as [->|]; [left; reflexivity | right; split; [lia | exact H2]].
    + rewrite Hrest. split.
      * intros [H1 H2]. split; [lia | exact H2].
      * intros [H1 H2]. destruct (Z.eq_dec x s0) as [->|]; [rewrite Z.sub_diag in H2; cbn in H2; contradiction | split; [lia | exact H2]].
Qed.

Lemma syms_len : forall l s0 size, zlen (syms_of_size l s0 size) = cnt l size.
Proof.
  induction l as [|c l IH]; intros s0 size; [reflexivity|]. cbn [syms_of_size]. rewrite cnt_cons. unfold delta.
  rewrite (Z.eqb_sym size c). destruct (c =? size); unfold zlen in *; cbn [length]; rewrite <- (IH (s0 + 1) size); lia.
Qed.

Lemma syms_nodup : forall l s0 size, NoDup (syms_of_size l s0 size).
Proof.
  induction l as [|c l IH]; intros s0 size; cbn [syms_of_size]; [constructor|].
  destruct (c =? size); [|apply IH]. constructor; [|apply IH].
  intros Hin. apply syms_spec in Hin. lia.
Qed.

Lemma nodup_flat_map : forall (f : Z -> list Z) sizes, NoDup sizes -> (forall s, NoDup (f s)) ->
  (forall s1 s2 x, s1 <> s2 -> In x (f s1) -> ~ In x (f s2)) -> NoDup (flat_map f sizes).
Proof.
  intros f sizes Hnd Hf Hd. induction Hnd as [|s sizes Hn Hnd IH]; cbn [flat_map]; [constructor|].
  assert (Happ : forall a b : list Z, NoDup a -> NoDup b -> (forall x, In x a -> ~ In x b) -> NoDup (a ++ b)).
  { induction a as [|y a IHa]; intros b Ha Hb Hdis; [exact Hb|]. inversion Ha; subst. cbn [app]. constructor.
    - intros Hin. apply in_app_or in Hin. destruct Hin as [Hin|Hin]; [contradiction | apply (Hdis y (or_introl eq_refl) Hin)].
    - apply IHa; try assumption. intros x Hx. apply Hdis. right. exact Hx. }
  apply Happ; [apply Hf | exact IH |].
  intros x Hx Hin. apply in_flat_map in Hin. destruct Hin as (s2 & Hs2 & Hx2).
  apply (Hd s s2 x); [intros E; subst; contradiction | assumption | assumption].
Qed.

Lemma nodup_distinct : forall l, NoDup l -> t81_distinct l = true.
Proof.
  intros l H. induction H as [|x l Hn Hnd IH]; [reflexivity|]. cbn [t81_distinct]. rewrite IH, andb_true_r.
  apply negb_true_iff. destruct (existsb (Z.eqb x) l) eqn:E; [|reflexivity].
  apply existsb_exists in E. destruct E as (y & Hy & Exy). apply Z.eqb_eq in Exy. subst. contradiction.
Qed.

Lemma zsum_map_zero : forall (g : Z -> Z) l, (forall x, In x l -> g x = 0) -> zsum (map g l) = 0.
Proof.
  induction l; intros H; [reflexivity|]. cbn [map zsum fold_right]. fold (zsum (map g l)).
  rewrite IHl by (intros x Hx; apply H; right; exact Hx). rewrite (H a (or_introl eq_refl)). lia.
Qed.

Lemma flat_map_zlen : forall (f : Z -> list Z) l, zlen (flat_map f l) = zsum (map (fun s => zlen (f s)) l).
Proof.
  induction l; [reflexivity|]. cbn [flat_map map zsum fold_right]. unfold zlen in *. rewrite app_length, Nat2Z.inj_add, IHl.
  reflexivity.
Qed.

Lemma seqZ_app : forall n m s, seqZ s (n + m) = seqZ s n ++ seqZ (s + Z.of_nat n) m.
Proof.
  induction n; intros m s; [cbn [Nat.add seqZ app]; f_equal; lia|].
  cbn [Nat.add seqZ app]. f_equal. rewrite IHn. f_equal. f_equal. lia.
Qed.

(* the facts about opt_values that the table check needs *)
Lemma opt_values_facts : forall cs freqs, sizes_ok cs freqs ->
  zlen (opt_values cs) = zsum (b17_of cs) - 1 /\
  Forall (fun v => 0 <= v < 256) (opt_values cs) /\ NoDup (opt_values cs) /\
  (forall i, 0 <= i < 256 -> znth freqs i 0 <> 0 -> In i (opt_values cs)).
Proof.
  intros cs freqs (Hl & Hr & _ & _ & H256 & Hcov).
  set (l := firstn 256 cs).
  assert (Hll : length l = 256%nat) by (unfold l; rewrite firstn_length; lia).
  assert (Hcs : cs = l ++ [znth cs 256 0]).
  { unfold l. rewrite <- (firstn_skipn 256 cs) at 1. f_equal.
    unfold znth. cbn [Z.ltb Z.compare Z.to_nat Pos.to_nat Pos.iter_op Nat.add].
    change (Pos.to_nat 256) with 256%nat.
    assert (Hs : length (skipn 256 cs) = 1%nat) by (rewrite skipn_length; lia).
    destruct (skipn 256 cs) as [|x [|y r]] eqn:E; try (simpl in Hs; lia).
    f_equal. rewrite <- (firstn_skipn 256 cs) at 1. rewrite app_nth2 by (rewrite firstn_length; lia).
    rewrite firstn_length. replace (256 - Init.Nat.min 256 (length cs))%nat with 0%nat by lia. rewrite E. reflexivity. }
  assert (Hrl : Forall (fun c => 0 <= c <= 17) l).
  { apply Forall_forall. intros c Hc. apply (proj1 (Forall_forall _ _) Hr). unfold l in Hc. eapply In_firstn'. exact Hc. }
  assert (Hc256 : 1 <= znth cs 256 0 <= 17).
  { split; [lia|]. assert (Hin : In (znth cs 256 0) cs) by (rewrite Hcs at 2; apply in_or_app; right; left; reflexivity).
    apply (proj1 (Forall_forall _ _) Hr) in Hin. lia. }
  unfold opt_values. fold l.
  assert (Hin_spec : forall x, In x (flat_map (fun size => syms_of_size l 0 size) (seqZ 1 256)) <->
                               0 <= x < 256 /\ 1 <= nth (Z.to_nat x) l 0 <= 256).
  { intros x. rewrite in_flat_map. split.
    - intros (size & Hs & Hx). apply In_seqZ_inv in Hs. apply syms_spec in Hx. unfold zlen in Hx. rewrite Hll, Z.sub_0_r in Hx. lia.
    - intros [H1 H2]. exists (nth (Z.to_nat x) l 0). split; [apply In_seqZ; lia|].
      apply syms_spec. unfold zlen. rewrite Hll, Z.sub_0_r. split; [lia | reflexivity]. }
  split; [|split; [|split]].
  - rewrite flat_map_zlen.
    rewrite (map_ext _ (fun s => cnt l s)) by (intros; apply syms_len).
    change 256%nat with (17 + 239)%nat. rewrite seqZ_app, map_app, zsum_app.
    rewrite (zsum_map_zero (fun s => cnt l s) (seqZ (1 + Z.of_nat 17) 239)).
    2:{ intros x Hx. apply In_seqZ_inv in Hx. apply cnt_zero. eapply Forall_impl; [|exact Hrl]. cbv beta. intros; lia. }
    unfold b17_of. rewrite Hcs at 1.
    rewrite (map_ext (cnt (l ++ [znth cs 256 0])) (fun i => cnt l i + delta i (znth cs 256 0))).
    2:{ intros i. rewrite cnt_app. f_equal. rewrite cnt_cons. unfold cnt, zlen. cbn. lia. }
    rewrite zsum_map_add. destruct (delta_w (znth cs 256 0) ltac:(lia)) as [_ D2]. rewrite D2.
    change (fun s : Z => cnt l s) with (cnt l).
    destruct (Z.ltb_spec 0 (znth cs 256 0)); lia.
  - apply Forall_forall. intros x Hx. apply Hin_spec in Hx. lia.
  - apply nodup_flat_map; [apply NoDup_seqZ | intros; apply syms_nodup |].
    intros s1 s2 x Hne H1 H2. apply syms_spec in H1. apply syms_spec in H2. destruct H1 as [_ H1]. destruct H2 as [_ H2]. congruence.
  - intros i Hi Hnz. apply Hin_spec. split; [lia|].
    specialize (Hcov i Hi Hnz).
    assert (E : nth (Z.to_nat i) l 0 = znth cs i 0).
    { unfold znth. destruct (Z.ltb_spec i 0); [lia|]. rewrite Hcs at 1. rewrite app_nth1 by lia. reflexivity. }
    rewrite E. assert (Hin : In (znth cs i 0) cs).
    { unfold znth. destruct (Z.ltb_spec i 0); [lia|]. apply nth_In. lia. }
    apply (proj1 (Forall_forall _ _) Hr) in Hin. lia.
Qed.

(* ---------- build_optimal_ok ---------- *)
Lemma build_optimal_unfold : forall freqs,
  build_optimal freqs =
  obind (merge_loop 258 (freq0 freqs) (repeat 0 257) (repeat (-1) 257)) (fun cs =>
  obind (count_sizes cs (repeat 0 257)) (fun bits =>
  obind (limit_all sizes_hi bits) (fun bits' =>
    Ok (firstn 16 (skipn 1 (remove_pseudo 257 bits' 256)), opt_values cs)))).
Proof. reflexivity. Qed.

Lemma table_ok_intro : forall bits vals, length bits = 16%nat ->
  forallb (fun b => (0 <=? b) && (b <? 256)) bits = true -> zsum bits = zlen vals ->
  Forall (fun v => 0 <= v < 256) vals -> NoDup vals -> (t81_kraft bits 1 <=? 65536) = true ->
  t81_table_ok bits vals = true.
Proof.
  intros bits vals H1 H2 H3 H4 H5 H6. unfold t81_table_ok. rewrite !andb_true_iff.
  refine (conj (conj (conj (conj (conj _ _) _) _) _) _).
  - apply Nat.eqb_eq. exact H1.
  - exact H2.
  - apply Z.eqb_eq. exact H3.
  - apply forallb_forall. intros v Hv. apply (proj1 (Forall_forall _ _) H4) in Hv.
    apply andb_true_iff. split; [apply Z.leb_le | apply Z.ltb_lt]; lia.
  - apply nodup_distinct. exact H5.
  - exact H6.
Qed.

Theorem build_optimal_ok : forall freqs, freqs_ok freqs ->
  (exists i, 0 <= i < 256 /\ znth freqs i 0 <> 0) ->
  exists bits vals, build_optimal freqs = Ok (bits, vals) /\ t81_table_ok bits vals = true /\
    (forall i, 0 <= i < 256 -> znth freqs i 0 <> 0 -> In i vals).
Proof.
  intros freqs Hok Hne. destruct (merge_result freqs Hok Hne) as (cs & Eloop & Hsz).
  pose proof Hsz as (Hl & Hr & Hw & Hn & H256 & Hcov).
  destruct (b17_sums cs Hr) as [Bk Bs].
  assert (Hpost : post_of (limit_all sizes_hi (0 :: b17_of cs ++ repeat 0 239)) (zsum (b17_of cs)) = true).
  { apply post_ok.
    - unfold b17_of. rewrite map_length, seqZ_length. reflexivity.
    - unfold b17_of. apply Forall_forall. intros x Hx. apply in_map_iff in Hx. destruct Hx as (i & <- & _). apply cnt_nonneg.
    - rewrite Bs. exact Hn.
    - rewrite Bk. exact Hw. }
  destruct (post_of_inv _ _ Hpost) as (bits' & Elim & P1 & P2 & P3 & P4).
  destruct (opt_values_facts cs freqs Hsz) as (Vl & Vb & Vn & Vc).
  exists (firstn 16 (skipn 1 (remove_pseudo 257 bits' 256))), (opt_values cs).
  split; [|split; [|exact Vc]].
  - rewrite build_optimal_unfold, Eloop, obind_Ok', (count_sizes_b17 cs Hr), obind_Ok', Elim. reflexivity.
  - apply table_ok_intro; try assumption. rewrite P2, Vl. reflexivity.
Qed.

(* ---------- no index panic at bits[size]++ for ANY frequency vector (finding F48) ---------- *)
(* For any 256 non-negative counters with sum < 2^63 the merge loop terminates with code sizes
   <= 256 and count_sizes (bits[codeSize]++ on the 257-entry array) succeeds; what is left of
   BuildOptimalHuffmanTable is the length limiting of that count vector. *)
Theorem build_optimal_count_sizes_ok : forall freqs, freqs_gen freqs ->
  exists cs bits,
    merge_loop 258 (freq0 freqs) (repeat 0 257) (repeat (-1) 257) = Ok cs /\
    count_sizes cs (repeat 0 257) = Ok bits /\
    build_optimal freqs =
    obind (limit_all sizes_hi bits) (fun bits' =>
      Ok (firstn 16 (skipn 1 (remove_pseudo 257 bits' 256)), opt_values cs)).
Proof.
  intros freqs Hok. destruct (merge_result_gen freqs Hok) as (cs & Eloop & L & Hc).
  destruct (count_sizes_spec cs (repeat 0 257) Hc eq_refl) as (bits & E & _ & _).
  exists cs, bits. split; [exact Eloop|]. split; [exact E|].
  rewrite build_optimal_unfold, Eloop, obind_Ok', E, obind_Ok'. reflexivity.
Qed.

(* not proved: the length limiting never indexes bits[-1] (libjpeg's `while (bits[j] == 0) j--`
   relies on the Kraft equality of the count vector) and never runs out of the model's fuel,
   for ANY such frequency vector; proved above for the vectors the lossless encoders produce
   (build_optimal_ok) *)
Definition build_optimal_no_panic_statement : Prop :=
  forall freqs, freqs_gen freqs -> exists bv, build_optimal freqs = Ok bv.
