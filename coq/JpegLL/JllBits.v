(* EXTRACT *)
(* Model of jpeg/standard/huffman_encoder.go (HuffmanEncoder: WriteBits / writeByte / Flush)
   and of the bit reader of jpeg/standard/huffman.go (HuffmanDecoder: ReadBit / ReadBits).
   Code as it is: uint32 accumulators, 0xFF/0x00 stuffing, 1-padding on Flush.
   Byte streams are [list Z] with entries in [0,256). *)
From V Require Import Common.Base.

(* ---------- Go uint32 / int helpers ---------- *)
(* uint32(x) = wrapU 32 x = x mod 2^32, written as a bit mask with a literal (Z.land_ones) so
   that the extracted code neither recomputes 2^32 nor runs the slow binary division of
   Z.modulo in per-sample paths (u32_wrapU in JllProofsBits); likewise byte_of and the
   divisions by 8 below are written as masks / shifts. *)
Definition u32 (x : Z) : Z := Z.land x 4294967295.
(* x << n on uint32 (n >= 0; Go: a shift count >= 32 gives 0) *)
Definition shl32 (x n : Z) : Z := u32 (Z.shiftl x n).
(* (1 << uint(n)) - 1 evaluated in uint32: 0xFFFFFFFF for n >= 32 *)
Definition mask32 (n : Z) : Z := u32 (shl32 1 n - 1).
(* x << n on Go int (64 bit two's complement; a shift count >= 64 gives 0) *)
Definition shl64 (x n : Z) : Z := if 64 <=? n then 0 else wrapS 64 (Z.shiftl x n).
Definition byte_of (x : Z) : Z := Z.land x 255.

(* ---------- HuffmanEncoder ---------- *)
Record wstate := mkW { w_bits : Z; w_n : Z }.
Definition w_init : wstate := mkW 0 0.

(* writeByte: the byte, followed by 0x00 when it is 0xFF *)
Definition write_byte (b : Z) : list Z := if b =? 255 then [255; 0] else [b].

(* for e.nBits >= 8 { b := byte(e.bits >> (e.nBits-8)); writeByte(b); e.nBits -= 8 }
   the loop runs exactly nBits/8 times; [k] is that count. *)
Fixpoint w_drain (k : nat) (bits n : Z) : Z * list Z :=
  match k with
  | O => (n, [])
  | S k' =>
    let b := byte_of (Z.shiftr bits (n - 8)) in
    let '(n', out) := w_drain k' bits (n - 8) in
    (n', write_byte b ++ out)
  end.

(* WriteBits(bits uint32, n int): returns the new state and the bytes appended to the buffer *)
Definition write_bits (st : wstate) (v n : Z) : wstate * list Z :=
  if n =? 0 then (st, [])
  else
    let bits := Z.lor (shl32 (w_bits st) n) (Z.land v (mask32 n)) in
    let nb := w_n st + n in
    let '(n', out) := w_drain (Z.to_nat (Z.shiftr nb 3)) bits nb in
    (mkW bits n', out).

(* Flush: pad the last partial byte with ones *)
Definition w_flush (st : wstate) : list Z :=
  if 0 <? w_n st then
    let k := 8 - w_n st in
    write_byte (byte_of (Z.lor (shl32 (w_bits st) k) (u32 (shl32 1 k - 1))))
  else [].

(* ---------- HuffmanDecoder: bit reader ---------- *)
Record rstate := mkR { r_bits : Z; r_n : Z; r_rest : list Z }.
Definition r_init (l : list Z) : rstate := mkR 0 0 l.

(* one byte from the underlying reader with the stuffing rule of ReadBit/ReadBits:
   0xFF must be followed by 0x00 (which is dropped); EOF or 0xFF xx -> error (None) *)
Definition next_byte (l : list Z) : option (Z * list Z) :=
  match l with
  | [] => None
  | b :: l' =>
    if b =? 255 then
      match l' with
      | [] => None
      | b2 :: l'' => if b2 =? 0 then Some (b, l'') else None
      end
    else Some (b, l')
  end.

Definition read_bit (st : rstate) : option (bool * rstate) :=
  if r_n st =? 0 then
    match next_byte (r_rest st) with
    | None => None
    | Some (b, rest) => Some (Z.odd (Z.shiftr b 7), mkR b 7 rest)
    end
  else
    let n := r_n st - 1 in
    Some (Z.odd (Z.shiftr (r_bits st) n), mkR (r_bits st) n (r_rest st)).

(* for d.nBits < n { read byte; d.bits = d.bits<<8 | b; d.nBits += 8 } : [k] iterations *)
Fixpoint r_fill (k : nat) (bits n : Z) (rest : list Z) : option (Z * Z * list Z) :=
  match k with
  | O => Some (bits, n, rest)
  | S k' =>
    match next_byte rest with
    | None => None
    | Some (b, rest') => r_fill k' (Z.lor (shl32 bits 8) b) (n + 8) rest'
    end
  end.

Definition read_bits (st : rstate) (n : Z) : option (Z * rstate) :=
  if n =? 0 then Some (0, st)
  else
    let k := if r_n st <? n then Z.to_nat (Z.shiftr (n - r_n st + 7) 3) else O in
    match r_fill k (r_bits st) (r_n st) (r_rest st) with
    | None => None
    | Some (bits, nb, rest) =>
      let nb' := nb - n in
      Some (Z.land (Z.shiftr bits nb') (mask32 n), mkR bits nb' rest)
    end.
