(* HTJ2K vs classic packet-header coder (C06): headline statements of the glue.
   PROVED
     hth_classic_coincide_small   for every one of the 104 191 precinct configurations of
        T2hProofsMain.small_domain (all grids with at most 6 positions x 4 block kinds; 3x3, 4x2, 2x4 x 3
        kinds; all 2- and 3-band packets of bands without blocks or with at most 2 positions x 4 kinds)
        the two coders, run inside the kernel, write the same bits and the same inclusion records when
        at least one block is included, and otherwise the HTJ2K coder writes the bit 0 where the classic
        coder writes 1 and one 0 per band with code-blocks.  No differing configuration exists in the
        domain (the search for a smallest counterexample came back empty): the HTJ2K trees start from
        255 and propagate minima, but 255 only stands for absent grid positions, which band_scope
        excludes, and a unary difference to the parent is what the classic tag tree writes too.
     hth_classic_differ_all_zero  for ANY bands without a block with data the HTJ2K coder writes [0]
        (from T2hProofsEmpty).
   OPEN  T2hProofsGlue.hth_classic_coincide_statement for arbitrary grids: the same tag-tree walk
        lemmas (1)-(3) listed at the end of T2hProofsMain.v, here against T2TagTree.tt_enc_nodes
        (T2ProofsTagTree.enc_loop_spec gives the per-node bits: value - low zeros and a 1 once). *)
From V Require Import Common.Base Framing.FrmWriters T2.T2Bio T2.T2TagTree T2.T2Header J2KGeo.GeoLayers
  T2Ht.T2hModel T2Ht.T2hSpec T2Ht.T2hProofsSmall T2Ht.T2hProofsEmpty T2Ht.T2hProofsMain
  T2Ht.T2hProofsGlue T2Ht.T2hProofsGlue2 T2Ht.T2hProofsGlue3.

Theorem hth_classic_coincide_small : forall bands, In bands small_domain -> glue_at bands.
Proof.
  intros bands H. apply glue_check_sound. unfold small_domain in H.
  apply in_app_or in H as [H|H]; [|apply in_app_or in H as [H|H]].
  - pose proof glue_dom1_checked as D. rewrite forallb_forall in D. exact (D bands H).
  - pose proof glue_dom2_checked as D. rewrite forallb_forall in D. exact (D bands H).
  - pose proof glue_dom3_checked as D. rewrite forallb_forall in D. exact (D bands H).
Qed.

(* the usable form: a packet of the domain with a contribution has the same header BYTES and records *)
Theorem hth_classic_same_header_small : forall bands, In bands small_domain -> any_coded bands = true ->
  exists hdr incs obss st, hth_header bands 0 = Ok (hdr, incs, obss) /\ enc_header bands 0 = Ok (hdr, incs, st).
Proof.
  intros bands H Hc. pose proof (hth_classic_coincide_small bands H) as G. unfold glue_at in G. rewrite Hc in G.
  destruct G as [bits [incs [obss [st [E1 E2]]]]].
  exists (bio_encode bits), incs, obss, st. unfold hth_header, enc_header. rewrite E1, E2. split; reflexivity.
Qed.

(* any bands: without a block with data the HTJ2K header is the bit 0 *)
Theorem hth_classic_differ_all_zero : forall bands,
  (forall p, In p bands -> forall b, In b (ebn_blocks p) -> eb_ld b = None /\ eb_data b = []) ->
  exists incs obss, hth_header_bits bands 0 = Ok ([0], incs, obss).
Proof.
  intros bands H.
  assert (Hn : forall p, In p bands -> none_included p 0).
  { intros p Hp b Hb. destruct (H p Hp b Hb) as [A B]. apply no_data_not_included; assumption. }
  destruct (bands_none bands 0 0 Hn) as [incs [obss E]]. exists incs, obss.
  unfold hth_header_bits. rewrite E. reflexivity.
Qed.

Theorem hth_classic_coincide_partial :
  (forall bands, In bands small_domain -> glue_at bands) /\
  (forall bands, (forall p, In p bands -> forall b, In b (ebn_blocks p) -> eb_ld b = None /\ eb_data b = []) ->
     exists incs obss, hth_header_bits bands 0 = Ok ([0], incs, obss)).
Proof. split; [exact hth_classic_coincide_small | exact hth_classic_differ_all_zero]. Qed.
