(* HTJ2K vs classic packet-header coder (C06): exhaustive comparison, domain D2 (one band 3x3, 4x2,
   2x4: three tree levels, odd sizes; 3 block kinds) *)
From V Require Import Common.Base T2.T2Header T2Ht.T2hModel T2Ht.T2hSpec T2Ht.T2hProofsSmall T2Ht.T2hProofsGlue.

Lemma glue_dom2_checked : forallb glue_check dom2 = true.
Proof. vm_compute. reflexivity. Qed.
