(* HTJ2K packet header (C06): exhaustive check, domain D2 (one band 3x3, 4x2, 2x4; 3 block kinds) *)
From V Require Import Common.Base T2.T2Header T2Ht.T2hModel T2Ht.T2hSpec T2Ht.T2hProofsSmall.

Lemma dom2_checked : forallb (hth_check rest_b) dom2 = true.
Proof. vm_compute. reflexivity. Qed.
