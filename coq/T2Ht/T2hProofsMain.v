(* HTJ2K packet header (C06): headline statements.
   PROVED
     hth_roundtrip_small      the full round trip for every instance of the finite domains
                              dom1 (one band, all grids with <= 6 positions, 4 block kinds; two
                              different continuations of the byte stream), dom2 (3x3, 4x2, 2x4;
                              3 kinds), dom3 (2 or 3 bands, each without blocks or with <= 2
                              positions: every pattern of leading / middle / trailing empty bands
                              and the empty packet) - 104 191 precinct configurations, each run
                              through the model of the Go encoder and of the Go parser in the kernel;
     hth_roundtrip_all_zero   (T2hProofsEmpty) for ANY bands: no block with data => the header is
                              the byte 00 and the parser reports the empty packet;
     hth_header_bits_split    (T2hProofsBands) for ANY bands: the delayed "1" and skippedBands
                              zeros are exactly the bits in decoder order;
     hth_absent_position_refuted / hth_zero_dims_refuted
                              the two completeness conditions of band_scope are necessary: the
                              coder's output for a precinct with an absent grid position, or with
                              blocks but NumCodeBlocksX = 0, is NOT read back by the generic parser.
   OPEN  T2hSpec.hth_roundtrip_statement for arbitrary grids and values (see the end of the file). *)
From V Require Import Common.Base Framing.FrmWriters T2.T2Bio T2.T2TagTree T2.T2Header J2KGeo.GeoLayers
  T2Ht.T2hModel T2Ht.T2hSpec T2Ht.T2hProofsSmall T2Ht.T2hProofsSmall2 T2Ht.T2hProofsSmall3
  T2Ht.T2hProofsEmpty T2Ht.T2hProofsBands.

Definition small_domain : list (list eband) := dom1 ++ dom2 ++ dom3.

Lemma small_domain_size : zlen small_domain = 104191.
Proof. vm_compute. reflexivity. Qed.

Theorem hth_roundtrip_small : forall bands, In bands small_domain -> roundtrip_at bands rest_b.
Proof.
  intros bands H. apply hth_check_sound. unfold small_domain in H.
  apply in_app_or in H as [H|H]; [|apply in_app_or in H as [H|H]].
  - pose proof dom1_checked as D. rewrite forallb_forall in D. specialize (D bands H).
    apply andb_prop in D as [_ D]. exact D.
  - pose proof dom2_checked as D. rewrite forallb_forall in D. exact (D bands H).
  - pose proof dom3_checked as D. rewrite forallb_forall in D. exact (D bands H).
Qed.

(* dom1 also with nothing behind the header *)
Theorem hth_roundtrip_small_end : forall bands, In bands dom1 -> roundtrip_at bands [].
Proof.
  intros bands H. apply hth_check_sound.
  pose proof dom1_checked as D. rewrite forallb_forall in D. specialize (D bands H).
  apply andb_prop in D as [D _]. exact D.
Qed.

(* ---------- necessity of the grid conditions ---------- *)

(* a 2 x 1 precinct whose CodeBlocks list holds only the block at (1, 0) (3 bytes, 2 zero bit
   planes): the coder writes nothing for the nil position, the parser walks the full grid and
   attributes the contribution to position (0, 0) *)
Definition absent_witness : list eband := [hth_mk_band 2 1 [hth_mk_block 1 0 2 1 [7; 7; 7] 0]].

Definition parsed_view (bands : list eband) (rest : list Z) : option (list bool * Z * Z * list (bool * Z * Z * Z)) :=
  match hth_header bands 0 with
  | Ok (hdr, incs, _) =>
    match parse_header (hdr ++ rest) 0 (map hth_dband bands) false with
    | Ok (n, _, dincs, _) => Some (map ei_included incs, zlen hdr, n, map dview dincs)
    | _ => None
    end
  | _ => None
  end.

(* encoder: (0,0) not included, (1,0) included; parser: (0,0) included with 1 pass, 3 bytes,
   2 zero bit planes, (1,0) not included *)
Theorem hth_absent_position_refuted :
  parsed_view absent_witness [170] = Some ([false; true], 2, 2, [(true, 1, 3, 2); (false, 0, 0, 0)]).
Proof. vm_compute. reflexivity. Qed.

(* CodeBlocks non-empty but NumCodeBlocksX = NumCodeBlocksY = 0: the coder clamps the grid to
   1 x 1 and codes the block, the parser skips a band without grid *)
Definition zero_dims_witness : list eband := [hth_mk_band 0 0 [hth_mk_block 0 0 2 1 [7; 7; 7] 0]].

(* encoder: one included block, header of 2 bytes; parser: 1 byte read, no record *)
Theorem hth_zero_dims_refuted :
  parsed_view zero_dims_witness [170] = Some ([true], 2, 1, []).
Proof. vm_compute. reflexivity. Qed.

(* ---------- what is proved of the general statement, what is missing ----------
   hth_roundtrip_statement (T2hSpec) for ALL bands in band_scope is proved here
     - when no block has data (hth_roundtrip_all_zero, any grids), and
     - for the 104 191 configurations of small_domain,
   and its band loop is reduced to decoder order for all bands (hth_header_bits_split).
   Missing for the full statement: the tag-tree walk for arbitrary grids, i.e.
     (1) hth_dim w h l = the l-th entry of T2TagTree.tt_dims (ceil(w / 2^l) = iterated (w+1)/2) and
         x >> l = iterated x / 2, so that the ids encodeInclusion / encodeMissingMSBs visit are
         rev (tt_path (tt_new w h) x y);
     (2) the build is monotone: hth_node_min gives parent <= child, inclusion values in {0, 1};
     (3) the simulation of hth_incl_loop against tt_dec_nodes at threshold 1 with the per-node
         invariant  sent & value 0 -> decoder node resolved to 0;  sent & value 1 -> decoder low >= 1;
         not sent -> decoder node unset and (low = 0 or the PARENT's value is 1)
         and of hth_miss_loop against tt_dec_nodes at threshold 32 (sent <-> resolved to the value;
         T2ProofsTagTree.dec_zeros does the run of zeros);
     (4) the composition over positions (states list) / bands, with T2ProofsCodes
         numpasses_code_exhaustive and lblock_roundtrip for the tail of an included block
         (they apply as they are: termAll = false, pl = None). *)
Theorem hth_roundtrip_partial :
  (forall bands rest,
     (forall p, In p bands -> forall b, In b (ebn_blocks p) -> eb_ld b = None /\ eb_data b = []) ->
     roundtrip_at bands rest) /\
  (forall bands, In bands small_domain -> roundtrip_at bands rest_b).
Proof. split; [exact hth_roundtrip_all_zero | exact hth_roundtrip_small]. Qed.
