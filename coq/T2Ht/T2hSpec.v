(* HTJ2K packet header (C06): what the generic packet-header parser has to read back from the
   bytes of encodeHTJ2KPacketHeader, the scope of the statement, and the statement itself.
   (Definitions only; proofs are in T2hProofs*.v.) *)
From V Require Import Common.Base Framing.FrmWriters T2.T2Bio T2.T2TagTree T2.T2Header J2KGeo.GeoLayers
  T2Ht.T2hModel.
Require Import Coq.Sorting.Permutation.

(* the observable part of a parsed inclusion record: included, passes, length, zero bit planes *)
Definition dview (d : dincl) : bool * Z * Z * Z := (di_included d, di_np d, di_len d, di_zbp d).

(* the block the HTJ2K encoder hands over for grid position (x, y) of a precinct band *)
Definition block_at (p : eband) (xy : Z * Z) : option eblock :=
  hth_lookup (ebn_blocks p) (ebn_w p) (snd xy * ebn_w p + fst xy).

(* single-layer contribution: a block is in the packet iff it has data *)
Definition blk_coded (b : eblock) : bool := 0 <? zlen (eb_data b).

Definition expect_pos (p : eband) (xy : Z * Z) : bool * Z * Z * Z :=
  match block_at p xy with
  | Some b => if blk_coded b then (true, eb_npt b, zlen (eb_data b), eb_zbp b) else (false, 0, 0, 0)
  | None => (false, 0, 0, 0)
  end.

(* one record per code-block position, bands in order, raster order inside a band *)
Definition expect_band (p : eband) : list (bool * Z * Z * Z) :=
  match ebn_blocks p with
  | [] => []
  | _ => map (expect_pos p) (grid_positions (ebn_w p) (ebn_h p))
  end.

Definition any_coded (bands : list eband) : bool :=
  existsb (fun p => existsb blk_coded (ebn_blocks p)) bands.

Definition expect_all (bands : list eband) : list (bool * Z * Z * Z) :=
  if any_coded bands then flat_map expect_band bands else [].

(* ---------- scope ---------- *)

(* a block as encodeSingleLayerCodeBlock leaves it before the first (and only) packet:
   no layer tables, not yet included, NumLenBits still 0 (or the initial 3);
   with data: 1..164 passes (HTJ2K: 1), 0..31 zero bit planes, at most 65535 bytes... any length
   below 2^25 is in scope; without data (all-zero block, NumPassesTotal = 0): never included *)
Definition blk_scope (b : eblock) : Prop :=
  eb_ld b = None /\ eb_lp b = [] /\ eb_included b = false /\ (eb_nlb b <= 0 \/ eb_nlb b = 3) /\
  0 <= eb_zbp b /\
  (eb_data b <> [] -> 1 <= eb_npt b <= 164 /\ eb_zbp b <= 31 /\ zlen (eb_data b) < 2 ^ 25).

(* a precinct band: either no code-blocks at all (then the decoder must see an empty grid too),
   or a w x h grid with exactly one block per position *)
Definition band_scope (p : eband) : Prop :=
  (ebn_blocks p = [] /\ (ebn_w p <= 0 \/ ebn_h p <= 0)) \/
  (1 <= ebn_w p /\ 1 <= ebn_h p /\ Forall blk_scope (ebn_blocks p) /\
   Permutation (map (fun b => (eb_cbx b, eb_cby b)) (ebn_blocks p))
                           (grid_positions (ebn_w p) (ebn_h p))).

(* ---------- the statement ---------- *)

(* For ONE packet of a single-layer codestream (layer 0, fresh encoder and decoder state - the only
   way the HTJ2K path runs), any list of precinct bands in scope and any bytes `rest` following the
   header: the generic parser parsePacketHeaderMulti consumes exactly the header and returns, for
   every band with code-blocks in order and every grid position in raster order, "not included" for
   the all-zero blocks and (passes, length, zero bit planes) of the others; a packet in which no
   block is included is the empty packet (first bit 0, no records). *)
Definition hth_roundtrip_statement : Prop :=
  forall bands rest, Forall band_scope bands ->
  exists hdr incs obss dincs ds,
    hth_header bands 0 = Ok (hdr, incs, obss) /\
    parse_header (hdr ++ rest) 0 (map hth_dband bands) false = Ok (zlen hdr, any_coded bands, dincs, ds) /\
    map dview dincs = expect_all bands.

(* the same as a boolean check of one instance (used for the exhaustive small-grid theorem) *)
Definition view_eqb (a b : bool * Z * Z * Z) : bool :=
  let '(i1, n1, l1, z1) := a in let '(i2, n2, l2, z2) := b in
  Bool.eqb i1 i2 && (n1 =? n2) && (l1 =? l2) && (z1 =? z2).

Fixpoint views_eqb (a b : list (bool * Z * Z * Z)) : bool :=
  match a, b with
  | [], [] => true
  | x :: a', y :: b' => view_eqb x y && views_eqb a' b'
  | _, _ => false
  end.

Definition hth_check (rest : list Z) (bands : list eband) : bool :=
  match hth_header bands 0 with
  | Ok (hdr, _, _) =>
    match parse_header (hdr ++ rest) 0 (map hth_dband bands) false with
    | Ok (n, present, dincs, _) =>
      (n =? zlen hdr) && Bool.eqb present (any_coded bands) && views_eqb (map dview dincs) (expect_all bands)
    | _ => false
    end
  | _ => false
  end.
