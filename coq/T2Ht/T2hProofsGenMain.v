(* HTJ2K vs classic packet-header coder (C06), arbitrary grids: what is proved of
   T2hProofsGlue.hth_classic_coincide_statement in general, and what is still missing.

   PROVED for every grid / every leaf / every flag state (T2hProofsGen1 .. Gen5)
     group (1)  hth_dim = the entries of tt_dims, t.levels = len(levelWidths), the nodes the HTJ2K walks
                touch are exactly T2TagTree.tt_path of the classic tree            (hth_ids_tt_path_levels)
     group (2)  the value arrays of newHTJ2KPrecinctTree: rows, node = min(255, children), parent <= child
                along every walk, 0 / 1 leaves give 0 / 1 nodes, node = 0 iff a child = 0
     group (3)  ONE walk: encodeMissingMSBs = Encode(thr) on a tree holding the same values with
                known = sent (hth_miss_walk_agrees); encodeInclusion = Encode(1) on a tree holding 0 where
                the HTJ2K tree holds 0 and nothing elsewhere, with sent = known on the 0 nodes and
                sent = (low = 1) on the others (hth_incl_walk_agrees); both with the post-state of the
                classic tree, i.e. the invariant is re-established on the walk and untouched elsewhere.
   A 5 x 3 instance of the full statement is decided in the kernel (glue_5x3).

   REFUTED AS STATED (end of this file): hth_classic_coincide_statement quantifies over T2hSpec.band_scope, which
   leaves PassLengths / Passes of the blocks free; hth_classic_coincide_refuted gives a 1 x 1 witness.  The
   statement to prove is hth_classic_coincide_statement2 (no pass tables).

   OPEN (hth_classic_coincide_statement2)
     (3')  the state of the classic trees after preparePacketHeaderPrecinct.  PROVED so far: the HTJ2K half
           (T2hProofsGen9: every node is 255 or the value of a leaf below it, and at most every leaf below
           it; 0 / 1 arrays: 0 iff a leaf below is 0) and SetValue in closed form (T2hProofsGen10
           tt_setvalue_spec: v is stored on the walk up to the first node holding <= v, nothing else changes).
           Also PROVED: the induction over prepare_values (T2hProofsGen11 setvalue_char, T2hProofsGen12
           reset_char / prepare_values_char): from ResetEncoding of NewTagTree the trees are characterised by the
           processed leaves (unset iff no processed leaf below, else the minimum below; low 0, known false).
           STILL OPEN: the link Char + hth_val_attained / hth_val_below / hth_val_zero_leaf -> StateRel for the
           fresh flags (drafted in coq/scratch/hthdrgen/T2hProofsGen13.v, initial_state_rel; the draft does not
           terminate in coqc yet), its leaf hypotheses (hth_lookup on a permutation of the grid gives the block
           of each position), and sort_blocks of a permutation of the grid = the raster order of ht_blocks;
     (3'') PROVED in T2hProofsGen5 (hth_incl_total / hth_miss_total): on hth_new of ANY band the lookups of
           the walks succeed for every leaf of the grid and every flag array of the right shape (row lengths,
           top level 1 x 1, the virtual parent {0} is read at index 0), the results are the closed forms;
     (4)   one block: PROVED in T2hProofsGen6 / Gen7 (miss_walk_inv, incl_walk_inv): under the GLOBAL
           correspondences InvM / InvI of the flag arrays with the classic trees (all nodes of all walks),
           one encodeMissingMSBs / encodeInclusion call and one classic Encode walk write the same bits,
           agree on "included", and re-establish the correspondence on the whole tree.
           The block loop of one band: PROVED in T2hProofsGen8 (block_agrees, blocks_agree): hth_blocks and
           enc_blocks write the same bits and the same CodeBlockIncl records for blocks without pass tables
           whose leaves hold their own values (blk_ok), starting from related states (StateRel), when the
           HTJ2K loop succeeds (enc_numpasses / enc_lengths are the identical calls on both sides).
           STILL OPEN: StateRel holds initially (= item (3')); ht_blocks = map Some (sort_blocks (ebn_blocks p))
           and blk_ok for the blocks of a band in band_scope2 (hth_lookup on a permutation of the grid); success
           of the HTJ2K loop in scope (enc_numpasses on 1..164); the bands
           (T2hProofsBands.hth_header_bits_split on the HTJ2K side; a band without included block costs one 0
           on both sides - on the classic side this is incl_walk_inv on a tree whose root holds 1).
   hth_roundtrip_from_coincide_statement: the transfer of T2ProofsHeader3.packet_header_roundtrip to the
   HTJ2K coder; besides the coincidence it needs BandsRel for fresh bands in band_scope, where band_static
   asks for blocks in raster order (pos_sorted) - band_scope only gives a permutation, so the transfer
   also needs "enc_header is invariant under permuting ebn_blocks" (sort_blocks) - and the all-zero case
   T2hProofsEmpty.hth_roundtrip_all_zero. *)
From V Require Import Common.Base Framing.FrmWriters T2.T2Bio T2.T2TagTree T2.T2ProofsStore T2.T2ProofsTagTree
  T2.T2Header J2KGeo.GeoLayers
  T2Ht.T2hModel T2Ht.T2hSpec T2Ht.T2hProofsSmall T2Ht.T2hProofsGlue
  T2Ht.T2hProofsGen1 T2Ht.T2hProofsGen2 T2Ht.T2hProofsGen3 T2Ht.T2hProofsGen4 T2Ht.T2hProofsGen5
  T2Ht.T2hProofsGen6 T2Ht.T2hProofsGen7 T2Ht.T2hProofsGen8 T2Ht.T2hProofsGen9 T2Ht.T2hProofsGen10
  T2Ht.T2hProofsGen11 T2Ht.T2hProofsGen12.

Definition hth_roundtrip_from_coincide_statement : Prop :=
  hth_classic_coincide_statement -> hth_roundtrip_statement.

(* a 5 x 3 precinct: coded blocks (zero bit planes 3, 0, 7, 2), all-zero blocks elsewhere *)
Definition grid_5x3 : list eband :=
  [hth_mk_band 5 3
     (map (fun xy : Z * Z =>
             let '(x, y) := xy in
             if (x =? 4) && (y =? 2) then hth_mk_block x y 3 1 [1; 2; 3] 0
             else if (x =? 1) && (y =? 0) then hth_mk_block x y 0 1 [9] 0
             else if (x =? 2) && (y =? 1) then hth_mk_block x y 7 1 (zrep 5 300) 0
             else if (x =? 0) && (y =? 2) then hth_mk_block x y 2 1 [4; 4] 0
             else hth_mk_block x y (x + y) 0 [] 0)
          (grid_positions 5 3))].

Lemma glue_5x3 : glue_at grid_5x3 /\ any_coded grid_5x3 = true.
Proof. split; [apply glue_check_sound; vm_compute; reflexivity | vm_compute; reflexivity]. Qed.

(* the geometry theorems on the same grid: 4 levels, the walk of leaf (4, 2) *)
Lemma path_5x3 : tt_path (tt_new 5 3) 4 2 = [(0, 14); (1, 5); (2, 1); (3, 0)] /\ hth_levels 64 5 3 = 4.
Proof. vm_compute. split; reflexivity. Qed.

(* groups (1) - (3) together *)
Theorem hth_classic_coincide_partial_gen :
  (forall w h x y, 1 <= w <= 2 ^ 63 -> 1 <= h <= 2 ^ 63 ->
     tt_path (tt_new w h) x y = map (hth_id w h x y) (zseq (hth_levels 64 w h))) /\
  (forall w h row0 x y l, 1 <= w -> 1 <= h -> 0 <= x < w -> 0 <= y < h ->
     hth_val w h row0 (S l) (Z.shiftr x (Z.of_nat (S l))) (Z.shiftr y (Z.of_nat (S l)))
     <= hth_val w h row0 l (Z.shiftr x (Z.of_nat l)) (Z.shiftr y (Z.of_nat l))) /\
  (forall w h row0 l, row_all bit01 w h row0 0 -> row_all bit01 w h row0 l).
Proof. split; [exact hth_ids_tt_path_levels | split; [exact hth_parent_le | exact hth_rown_01]]. Qed.

Lemma dims_levels : forall w h,
  (forall fuel k d, nth_error (tt_dims fuel w h) k = Some d -> d = hth_dim w h (Z.of_nat k)) /\
  (w <= 2 ^ 63 -> h <= 2 ^ 63 -> hth_levels 64 w h = zlen (tt_dims 64 w h)).
Proof. intros w h. split; [intros fuel k d; apply tt_dims_nth_hth_dim | apply hth_levels_64]. Qed.

(* ---------- a concrete instance of the hypotheses of the walk theorems: leaf (4, 2) of grid_5x3, fresh
   flags, the classic trees as preparePacketHeaderPrecinct leaves them ---------- *)

Definition ex_band : eband := hd (hth_mk_band 1 1 []) grid_5x3.
Definition ex_t : httree := hth_new ex_band 0.
Definition ex_trees : ttree * ttree :=
  match ebn_trees (prepare_band ex_band 0) with Some tz => tz | None => (tt_new 1 1, tt_new 1 1) end.
Definition ex_pvm : nat -> Z := walk_val ex_band 0 (miss0 ex_band 0) 4 2.
Definition ex_pvi : nat -> Z := walk_val ex_band 0 (incl0 ex_band 0) 4 2.

Ltac ex_solve :=
  vm_compute; repeat split; try (left; reflexivity); try (right; reflexivity); try (intro; discriminate);
  try reflexivity; try congruence.
Ltac ex_cases k H := do 5 (destruct k as [|k]; [ex_solve|]); exfalso; lia.

Lemma ex_miss_walk_hyps :
  (forall k, (k <= 4)%nat ->
     hth_value ex_t (ht_miss ex_t) (Z.of_nat k) (Z.shiftr 4 (Z.of_nat k)) (Z.shiftr 2 (Z.of_nat k)) = Some (ex_pvm k)) /\
  (forall k, (k < 4)%nat -> get2o (ht_msent ex_t) (fst (pid ex_t 4 2 k)) (snd (pid ex_t 4 2 k)) = Some false) /\
  same_shapes (snd ex_trees) /\ (forall k, (k < 4)%nat -> vid (snd ex_trees) (pid ex_t 4 2 k)) /\
  (forall k, (k < 4)%nat ->
     nu (snd ex_trees) (pid ex_t 4 2 k) = false /\ nv (snd ex_trees) (pid ex_t 4 2 k) = ex_pvm k /\
     ex_pvm (S k) <= ex_pvm k < 999 /\
     nl (snd ex_trees) (pid ex_t 4 2 k) = (if nk (snd ex_trees) (pid ex_t 4 2 k) then ex_pvm k else 0)) /\
  0 <= ex_pvm 4 /\
  (forall k, (k < 4)%nat -> false = nk (snd ex_trees) (pid ex_t 4 2 k)) /\
  map ex_pvm [0; 1; 2; 3; 4]%nat = [3; 3; 3; 0; 0].
Proof.
  split; [intros k H; ex_cases k H|]. split; [intros k H; ex_cases k H|]. split; [ex_solve|].
  split; [intros k H; ex_cases k H|]. split; [intros k H; ex_cases k H|]. split; [ex_solve|].
  split; [intros k H; ex_cases k H|]. vm_compute. reflexivity.
Qed.

Lemma ex_incl_walk_hyps :
  (forall k, (k <= 4)%nat ->
     hth_value ex_t (ht_incl ex_t) (Z.of_nat k) (Z.shiftr 4 (Z.of_nat k)) (Z.shiftr 2 (Z.of_nat k)) = Some (ex_pvi k)) /\
  (forall k, (k < 4)%nat -> get2o (ht_isent ex_t) (fst (pid ex_t 4 2 k)) (snd (pid ex_t 4 2 k)) = Some false) /\
  ex_pvi 4%nat = 0 /\
  same_shapes (fst ex_trees) /\ (forall k, (k < 4)%nat -> vid (fst ex_trees) (pid ex_t 4 2 k)) /\
  (forall k, (k < 4)%nat -> incl_node_pre (ht_w ex_t) (ht_h ex_t) 4 2 ex_pvi (fst ex_trees) k) /\
  (forall k, (k < 4)%nat -> false = sbc (ht_w ex_t) (ht_h ex_t) 4 2 ex_pvi (fst ex_trees) k).
Proof.
  split; [intros k H; ex_cases k H|]. split; [intros k H; ex_cases k H|]. split; [ex_solve|]. split; [ex_solve|].
  split; [intros k H; ex_cases k H|]. split; [intros k H; ex_cases k H|]. intros k H; ex_cases k H.
Qed.

Ltac ex_cases4 k := do 4 (destruct k as [|k]; [ex_solve|]); exfalso; lia.
Ltac ex_grid x y Hx Hy :=
  let Hxs := fresh in let Hys := fresh in
  assert (Hxs : x = 0 \/ x = 1 \/ x = 2 \/ x = 3 \/ x = 4) by lia;
  assert (Hys : y = 0 \/ y = 1 \/ y = 2) by lia;
  clear Hx Hy;
  destruct Hxs as [->|[->|[->|[->| ->]]]]; destruct Hys as [->|[->| ->]].

(* the global correspondences hold on the example before the first block (all 15 leaves, 4 levels) *)
Lemma ex_InvM : InvM ex_band 0 (ht_msent ex_t) (snd ex_trees) /\ miss_nonneg ex_band 0 /\
  in_grid2 ex_band 0 4 2 /\ mval ex_band 0 4 2 0 < 255 /\ ebn_w ex_band <= 2 ^ 63 /\ ebn_h ex_band <= 2 ^ 63.
Proof.
  split; [|split; [|split; [|split; [|split]]]].
  - split; [reflexivity|]. split; [ex_solve|]. intros x y k [Hx Hy] Hk.
    change (ht_w (hth_new ex_band 0)) with 5 in Hx. change (ht_h (hth_new ex_band 0)) with 3 in Hy.
    change (Z.to_nat (ht_levels (hth_new ex_band 0))) with 4%nat in Hk.
    ex_grid x y Hx Hy; ex_cases4 k.
  - intros x y Hx Hy. change (fst (hth_dim (ht_w (hth_new ex_band 0)) (ht_h (hth_new ex_band 0)) (Z.of_nat 0))) with 5 in Hx.
    change (snd (hth_dim (ht_w (hth_new ex_band 0)) (ht_h (hth_new ex_band 0)) (Z.of_nat 0))) with 3 in Hy.
    ex_grid x y Hx Hy; ex_solve.
  - ex_solve.
  - ex_solve.
  - ex_solve.
  - ex_solve.
Qed.

Lemma ex_InvI : InvI ex_band 0 (ht_isent ex_t) (fst ex_trees) /\ incl_01 ex_band 0 /\ in_grid2 ex_band 0 4 2.
Proof.
  split; [|split].
  - split; [reflexivity|]. split; [ex_solve|]. intros x y k [Hx Hy] Hk.
    change (ht_w (hth_new ex_band 0)) with 5 in Hx. change (ht_h (hth_new ex_band 0)) with 3 in Hy.
    change (Z.to_nat (ht_levels (hth_new ex_band 0))) with 4%nat in Hk.
    ex_grid x y Hx Hy; ex_cases4 k.
  - intros x y Hx Hy. change (fst (hth_dim (ht_w (hth_new ex_band 0)) (ht_h (hth_new ex_band 0)) (Z.of_nat 0))) with 5 in Hx.
    change (snd (hth_dim (ht_w (hth_new ex_band 0)) (ht_h (hth_new ex_band 0)) (Z.of_nat 0))) with 3 in Hy.
    ex_grid x y Hx Hy; ex_solve.
  - ex_solve.
Qed.

(* ---------- the scope of the coincidence statement needs the pass tables ----------
   T2hSpec.blk_scope does not mention PassLengths / Passes / UseTERMALL (the HTJ2K coder never reads them),
   but the classic coder does (encodeCodeBlockLengths with a pass-length table).  A 1 x 1 precinct whose
   block carries PassLengths = {7} and 3 bytes of data: the HTJ2K coder writes the length 3, the classic one
   the length 7.  So T2hProofsGlue.hth_classic_coincide_statement is FALSE as stated; the statement to prove
   is hth_classic_coincide_statement2 (blocks as encodeSingleLayerCodeBlock builds them: no tables).
   hth_roundtrip_statement is not affected (it does not mention the classic coder). *)
Definition tables_witness : list eband :=
  [hth_mk_band 1 1
     [{| eb_cbx := 0; eb_cby := 0; eb_zbp := 2; eb_lp := []; eb_ld := None;
         eb_data := [1; 2; 3]; eb_npt := 1; eb_pl := [7]; eb_passes := []; eb_termall := false;
         eb_included := false; eb_nlb := 0 |}]].

Lemma tables_witness_scope : Forall band_scope tables_witness.
Proof.
  constructor; [|constructor]. right. cbn. split; [lia|]. split; [lia|]. split.
  - constructor; [|constructor]. unfold blk_scope. cbn. repeat split; try lia; try reflexivity; left; lia.
  - apply Permutation.Permutation_refl.
Qed.

Lemma tables_witness_bits :
  any_coded tables_witness = true /\
  (exists i o, hth_header_bits tables_witness 0 = Ok ([1; 1; 0; 0; 1; 0; 0; 0; 1; 1], i, o)) /\
  (exists i o, enc_header_bits tables_witness 0 = Ok ([1; 1; 0; 0; 1; 0; 0; 1; 1; 1], i, o)).
Proof. vm_compute. split; [reflexivity|]. split; eexists; eexists; reflexivity. Qed.

Theorem hth_classic_coincide_refuted : ~ hth_classic_coincide_statement.
Proof.
  intros H. pose proof (H tables_witness tables_witness_scope) as G. unfold glue_at in G.
  destruct tables_witness_bits as [Hc [[i1 [o1 E1]] [i2 [o2 E2]]]]. rewrite Hc in G.
  destruct G as [bits [incs [obss [st [G1 G2]]]]]. rewrite E1 in G1. rewrite E2 in G2.
  injection G1 as <- _ _. discriminate G2.
Qed.

Definition blk_scope2 (b : eblock) : Prop := blk_scope b /\ eb_pl b = [] /\ eb_passes b = [].

Definition band_scope2 (p : eband) : Prop := band_scope p /\ Forall blk_scope2 (ebn_blocks p).

Definition hth_classic_coincide_statement2 : Prop :=
  forall bands, Forall band_scope2 bands -> glue_at bands.

(* every configuration of the finite domains and the 5 x 3 example are inside the corrected scope's block
   shape (hth_mk_block has no tables) *)
Lemma mk_block_scope2_tables : forall cbx cby zbp npt data nlb,
  eb_pl (hth_mk_block cbx cby zbp npt data nlb) = [] /\ eb_passes (hth_mk_block cbx cby zbp npt data nlb) = [].
Proof. intros. split; reflexivity. Qed.

(* the block loop on the example: related initial states, every block of the band is blk_ok *)
Lemma ex_blocks_hyps :
  StateRel ex_band (ht_isent ex_t) (ht_msent ex_t) (fst ex_trees) (snd ex_trees) /\
  incl_01 ex_band 0 /\ miss_nonneg ex_band 0 /\ Forall (blk_ok ex_band) (ebn_blocks ex_band) /\
  (exists bits incs obs', hth_blocks ex_t 0 (map Some (ebn_blocks ex_band)) (ht_isent ex_t) (ht_msent ex_t)
                          = Ok (bits, incs, obs') /\ zlen bits = 75).
Proof.
  destruct ex_InvM as [A [B _]]. destruct ex_InvI as [C [D _]].
  split; [|split; [exact D|split; [exact B|split]]].
  - split; [exact C|]. split; [exact A|]. split; ex_solve.
  - apply Forall_forall. intros b Hb. vm_compute in Hb.
    repeat (destruct Hb as [<-|Hb]; [ex_solve|]). destruct Hb.
  - vm_compute. eexists. eexists. eexists. split; reflexivity.
Qed.

(* SetValue on the example: the reset tree of the 5 x 3 grid, leaf (4, 2) *)
Lemma ex_setvalue_hyps :
  same_shapes (tt_reset (tt_new 5 3)) /\ tt_in_range (tt_reset (tt_new 5 3)) 4 2 = true /\
  tt_path (tt_reset (tt_new 5 3)) 4 2 = map (hth_id 5 3 4 2) (zseq (Z.of_nat 4)) /\
  (forall k, (k < 4)%nat -> vid (tt_reset (tt_new 5 3)) (cid 5 3 4 2 k)).
Proof. split; [ex_solve|]. split; [ex_solve|]. split; [ex_solve|]. intros k Hk. ex_cases4 k. Qed.
