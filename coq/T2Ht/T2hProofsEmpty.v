(* HTJ2K packet header (C06), general part 1: the packet in which no code-block is included.
   For ANY list of precinct bands (any grid sizes, any positions, duplicates, absent positions) in
   which no block contributes to the layer, encodeHTJ2KPacketHeader writes the single byte 0x00
   (the "empty packet" bit) and the generic parser, whatever its band state, reports an absent
   header after exactly one byte.  This is the case of an all-zero tile-component resolution. *)
From V Require Import Common.Base Framing.FrmWriters T2.T2Bio T2.T2TagTree T2.T2Header J2KGeo.GeoLayers
  T2Ht.T2hModel T2Ht.T2hSpec.

Lemma lookup_in_gen : forall blocks w key acc b,
  fold_left (fun acc b => if eb_cby b * w + eb_cbx b =? key then Some b else acc) blocks acc = Some b ->
  In b blocks \/ acc = Some b.
Proof.
  induction blocks as [|x l IH]; intros w key acc b H; cbn [fold_left] in H; [right; exact H|].
  destruct (IH _ _ _ _ H) as [Hin|Hacc]; [left; right; exact Hin|].
  destruct (eb_cby x * w + eb_cbx x =? key).
  - injection Hacc as ->. left. left. reflexivity.
  - right. exact Hacc.
Qed.

Lemma lookup_in : forall blocks w key b, hth_lookup blocks w key = Some b -> In b blocks.
Proof. intros blocks w key b H. destruct (lookup_in_gen _ _ _ _ _ H) as [Hin|Hn]; [exact Hin | discriminate]. Qed.

Definition none_included (p : eband) (layer : Z) : Prop :=
  forall b, In b (ebn_blocks p) -> hth_block_included b layer = false.

Lemma leaf_not_included : forall p layer w xy, none_included p layer ->
  snd (fst (hth_leaf (ebn_blocks p) w layer xy)) = 1.
Proof.
  intros p layer w xy Hn. unfold hth_leaf.
  destruct (hth_lookup (ebn_blocks p) w (snd xy * w + fst xy)) as [b|] eqn:E; [|reflexivity].
  cbn [fst snd]. rewrite (Hn b (lookup_in _ _ _ _ E)). reflexivity.
Qed.

Lemma existsb_all_one : forall (l : list Z), (forall v, In v l -> v = 1) -> existsb (fun v => v =? 0) l = false.
Proof.
  induction l as [|x l IH]; intros H; [reflexivity|]. cbn [existsb].
  rewrite (H x (or_introl eq_refl)). cbn. apply IH. intros v Hv. apply H. right. exact Hv.
Qed.

Lemma new_not_coded : forall p layer, none_included p layer -> ht_coded (hth_new p layer) = false.
Proof.
  intros p layer Hn. unfold hth_new. cbn [ht_coded]. apply existsb_all_one.
  intros v Hv. rewrite map_map in Hv. apply in_map_iff in Hv as [xy [<- _]].
  apply leaf_not_included. exact Hn.
Qed.

Lemma bands_none : forall bands layer k, (forall p, In p bands -> none_included p layer) ->
  exists incs obss, hth_bands bands layer false k = Ok ([], incs, obss, false).
Proof.
  induction bands as [|p bands IH]; intros layer k H; cbn [hth_bands].
  - exists [], []. reflexivity.
  - assert (Hr : forall q, In q bands -> none_included q layer) by (intros q Hq; apply H; right; exact Hq).
    destruct (ebn_blocks p) as [|b0 bl] eqn:Eb.
    + destruct (IH layer k Hr) as [incs [obss E]]. rewrite E. cbn [obind]. eexists. eexists. reflexivity.
    + rewrite (new_not_coded p layer (H p (or_introl eq_refl))). cbn [negb].
      destruct (IH layer (k + 1) Hr) as [incs [obss E]]. rewrite E. cbn [obind app]. eexists. eexists. reflexivity.
Qed.

Lemma parse_empty_bit : forall rest layer ds termAll,
  parse_header (0 :: rest) layer ds termAll = Ok (1, false, [], ds).
Proof. intros. reflexivity. Qed.

Theorem hth_empty_packet : forall bands rest ds termAll,
  (forall p, In p bands -> none_included p 0) ->
  exists incs obss,
    hth_header bands 0 = Ok ([0], incs, obss) /\
    parse_header ([0] ++ rest) 0 ds termAll = Ok (1, false, [], ds).
Proof.
  intros bands rest ds termAll H. destruct (bands_none bands 0 0 H) as [incs [obss E]].
  exists incs, obss. split.
  - unfold hth_header, hth_header_bits. rewrite E. reflexivity.
  - apply parse_empty_bit.
Qed.

(* in the terms of T2hSpec: blocks without data are not included (single-layer fallback of
   layerContribution), whatever NumPassesTotal says *)
Lemma no_data_not_included : forall b, eb_ld b = None -> eb_data b = [] -> hth_block_included b 0 = false.
Proof. intros b Hl Hd. unfold hth_block_included, layer_contribution. rewrite Hl, Hd. reflexivity. Qed.

Theorem hth_roundtrip_all_zero : forall bands rest,
  (forall p, In p bands -> forall b, In b (ebn_blocks p) -> eb_ld b = None /\ eb_data b = []) ->
  exists hdr incs obss dincs ds,
    hth_header bands 0 = Ok (hdr, incs, obss) /\
    parse_header (hdr ++ rest) 0 (map hth_dband bands) false = Ok (zlen hdr, any_coded bands, dincs, ds) /\
    map dview dincs = expect_all bands.
Proof.
  intros bands rest H.
  assert (Hn : forall p, In p bands -> none_included p 0).
  { intros p Hp b Hb. destruct (H p Hp b Hb) as [A B]. apply no_data_not_included; assumption. }
  destruct (hth_empty_packet bands rest (map hth_dband bands) false Hn) as [incs [obss [E P]]].
  assert (Ha : any_coded bands = false).
  { unfold any_coded. clear -H. induction bands as [|p bands IH]; [reflexivity|]. cbn [existsb].
    rewrite IH by (intros q Hq; apply H; right; exact Hq). rewrite Bool.orb_false_r.
    assert (G : forall l, (forall b, In b l -> eb_data b = []) -> existsb blk_coded l = false).
    { induction l as [|b l IHl]; intros Hl; [reflexivity|]. cbn [existsb]. unfold blk_coded at 1.
      rewrite (Hl b (or_introl eq_refl)). cbn. apply IHl. intros b' Hb'. apply Hl. right. exact Hb'. }
    apply G. intros b Hb. apply (H p (or_introl eq_refl) b Hb). }
  exists [0], incs, obss, [], (map hth_dband bands). split; [exact E|]. split.
  - rewrite P, Ha. reflexivity.
  - unfold expect_all. rewrite Ha. reflexivity.
Qed.
