(* HTJ2K packet header (C06), glue to the classic coder: PacketEncoder.encodeHTJ2KPacketHeader
   (T2hModel.hth_header_bits) against encodePacketHeaderWithTagTreeMulti in classic mode
   (T2Header.enc_header_bits), single layer, layer 0, fresh state.

   Claim (hth_classic_coincide_statement): for bands in T2hSpec.band_scope the two coders write the
   SAME bit string and the SAME inclusion records whenever at least one block of the packet is
   included; when none is, the HTJ2K coder writes the single bit 0 and the classic coder writes
   1 followed by one 0 per band with code-blocks (classic_empty_bits).

   Why they agree (informal; the general tag-tree simulation is NOT proved here):
     inclusion   classic: tag tree with value 0 for the included blocks, "unset" (placeholder 999)
                 for the others, coded at threshold 1: a node writes 1 when its value is 0, writes 0
                 when it is unset / >= 1, and nothing once its parent's lower bound reached 1;
                 HTJ2K: 0 / 1 leaves, parents = min, a node not yet sent writes 1 - (child - parent)
                 and the walk stops at the first node with value 1.  Same bits, same stopping points.
     zero planes classic: tag tree over eb_zbp of EVERY block of the grid at threshold 999: a node
                 writes (value - parent value) zeros and a 1, once; HTJ2K: missing-MSB tree over the
                 same leaves (255 only for absent positions, excluded by band_scope), parents = min,
                 the root's parent is 0: the same unary differences.
     passes / lengths  the same functions enc_numpasses / enc_lengths with termAll = false and no
                 pass-length table.
     bands       hth_header_bits_split (T2hProofsBands): the delayed 1 and the skipped zeros are the
                 classic order (first bit, then band after band; a band without an included block
                 costs exactly one 0 in both).

   This file: the executable comparison, its soundness, and the first finite domain. *)
From V Require Import Common.Base Framing.FrmWriters T2.T2Bio T2.T2TagTree T2.T2Header J2KGeo.GeoLayers
  T2Ht.T2hModel T2Ht.T2hSpec T2Ht.T2hProofsSmall.

Fixpoint zl_eqb (a b : list Z) : bool :=
  match a, b with
  | [], [] => true
  | x :: a', y :: b' => (x =? y) && zl_eqb a' b'
  | _, _ => false
  end.

Lemma zl_eqb_eq : forall a b, zl_eqb a b = true -> a = b.
Proof.
  induction a as [|x a IH]; intros [|y b] H; cbn [zl_eqb] in H; try discriminate; [reflexivity|].
  apply andb_prop in H as [H1 H2]. apply Z.eqb_eq in H1. subst y. f_equal. apply IH. exact H2.
Qed.

Definition eincl_eqb (a b : eincl) : bool :=
  Bool.eqb (ei_included a) (ei_included b) && (ei_np a =? ei_np b) && (ei_len a =? ei_len b)
  && zl_eqb (ei_data a) (ei_data b).

Lemma eincl_eqb_eq : forall a b, eincl_eqb a b = true -> a = b.
Proof.
  intros [i1 n1 l1 d1] [i2 n2 l2 d2] H. unfold eincl_eqb in H. cbn [ei_included ei_np ei_len ei_data] in H.
  apply andb_prop in H as [H Hd]. apply andb_prop in H as [H Hl]. apply andb_prop in H as [Hi Hn].
  apply Bool.eqb_prop in Hi. apply Z.eqb_eq in Hn, Hl. apply zl_eqb_eq in Hd. subst. reflexivity.
Qed.

Fixpoint eincls_eqb (a b : list eincl) : bool :=
  match a, b with
  | [], [] => true
  | x :: a', y :: b' => eincl_eqb x y && eincls_eqb a' b'
  | _, _ => false
  end.

Lemma eincls_eqb_eq : forall a b, eincls_eqb a b = true -> a = b.
Proof.
  induction a as [|x a IH]; intros [|y b] H; cbn [eincls_eqb] in H; try discriminate; [reflexivity|].
  apply andb_prop in H as [H1 H2]. apply eincl_eqb_eq in H1. apply IH in H2. congruence.
Qed.

(* the two coders agree on one packet: same bits, same inclusion records *)
Definition coincide_at (bands : list eband) : Prop :=
  exists bits incs obss st,
    hth_header_bits bands 0 = Ok (bits, incs, obss) /\ enc_header_bits bands 0 = Ok (bits, incs, st).

(* what the classic coder writes for a packet without contribution: 1, then one 0 per band with
   code-blocks; the HTJ2K coder writes the single bit 0 *)
Definition classic_empty_bits (bands : list eband) : list Z :=
  1 :: flat_map (fun p => match ebn_blocks p with [] => [] | _ => [0] end) bands.

Definition differ_at (bands : list eband) : Prop :=
  exists incs obss incs' st,
    hth_header_bits bands 0 = Ok ([0], incs, obss) /\
    enc_header_bits bands 0 = Ok (if has_code_blocks bands then classic_empty_bits bands else [0], incs', st).

Definition glue_at (bands : list eband) : Prop :=
  if any_coded bands then coincide_at bands else differ_at bands.

Definition glue_check (bands : list eband) : bool :=
  match hth_header_bits bands 0, enc_header_bits bands 0 with
  | Ok (b1, i1, _), Ok (b2, i2, _) =>
    if any_coded bands then zl_eqb b1 b2 && eincls_eqb i1 i2
    else zl_eqb b1 [0] && zl_eqb b2 (if has_code_blocks bands then classic_empty_bits bands else [0])
  | _, _ => false
  end.

Lemma glue_check_sound : forall bands, glue_check bands = true -> glue_at bands.
Proof.
  intros bands H. unfold glue_check in H. unfold glue_at.
  destruct (hth_header_bits bands 0) as [[[b1 i1] o1]| | |] eqn:E1; try discriminate.
  destruct (enc_header_bits bands 0) as [[[b2 i2] s2]| | |] eqn:E2; try discriminate.
  destruct (any_coded bands).
  - apply andb_prop in H as [Hb Hi]. apply zl_eqb_eq in Hb. apply eincls_eqb_eq in Hi. subst.
    exists b2, i2, o1, s2. split; assumption.
  - apply andb_prop in H as [Hb Hc]. apply zl_eqb_eq in Hb, Hc. subst.
    exists i1, o1, i2, s2. split; assumption.
Qed.

(* the general claim, for the record (open; see T2hProofsGlueMain.v for what is proved) *)
Definition hth_classic_coincide_statement : Prop :=
  forall bands, Forall band_scope bands -> glue_at bands.

(* D1: one band, every grid with at most 6 positions, 4 block kinds *)
Lemma glue_dom1_checked : forallb glue_check dom1 = true.
Proof. vm_compute. reflexivity. Qed.
