(* HTJ2K packet header (C06), general part 7: the lookups of the two walks on newHTJ2KPrecinctTree (item
   (3'') of T2hProofsGenMain.v), for EVERY precinct band (any block list), every leaf of the grid and every
   flag state of the right shape:
     hth_levels_bound     w, h <= 2^(levels-1): the top level is 1 x 1
     value_lookup         value(level, x, y) reads hth_val for every node inside the level's grid
     value_lookup_top     the virtual parent of the root reads 0
     flags_lookup         a flag array shaped like hth_flags answers inside every level's grid
     hth_incl_total / hth_miss_total   encodeInclusion / encodeMissingMSBs on hth_new never index out of
                          range and return the closed forms of T2hProofsGen3 *)
From V Require Import Common.Base T2.T2TagTree T2.T2ProofsStore T2.T2Header T2Ht.T2hModel
  T2Ht.T2hProofsGen1 T2Ht.T2hProofsGen2 T2Ht.T2hProofsGen3.

(* ---------- the number of levels ---------- *)

Lemma hth_levels_bound : forall f w h, 1 <= w <= 2 ^ Z.of_nat f -> 1 <= h <= 2 ^ Z.of_nat f ->
  1 <= hth_levels (S f) w h /\ w <= 2 ^ (hth_levels (S f) w h - 1) /\ h <= 2 ^ (hth_levels (S f) w h - 1).
Proof.
  induction f as [|f IH]; intros w h Hw Hh.
  - change (2 ^ Z.of_nat 0) with 1 in *. cbn [hth_levels].
    destruct (Z.gtb_spec w 1); [lia|]. destruct (Z.gtb_spec h 1); [lia|]. cbn [orb]. cbn. lia.
  - change (hth_levels (S (S f)) w h) with
      (if (w >? 1) || (h >? 1) then 1 + hth_levels (S f) (Z.shiftr (w + 1) 1) (Z.shiftr (h + 1) 1) else 1).
    destruct ((w >? 1) || (h >? 1)) eqn:Eb.
    + rewrite !Z.shiftr_div_pow2 by lia. change (2 ^ 1) with 2.
      assert (Hp : 2 ^ Z.of_nat (S f) = 2 * 2 ^ Z.of_nat f).
      { rewrite Nat2Z.inj_succ, Z.pow_succ_r by lia. reflexivity. }
      assert (Hp0 : 0 < 2 ^ Z.of_nat f) by (apply Z.pow_pos_nonneg; lia).
      pose proof (Z.div_mod (w + 1) 2 ltac:(lia)) as D1. pose proof (Z.mod_pos_bound (w + 1) 2 ltac:(lia)) as M1.
      pose proof (Z.div_mod (h + 1) 2 ltac:(lia)) as D2. pose proof (Z.mod_pos_bound (h + 1) 2 ltac:(lia)) as M2.
      destruct (IH ((w + 1) / 2) ((h + 1) / 2) ltac:(lia) ltac:(lia)) as [L1 [L2 L3]].
      set (L := hth_levels (S f) ((w + 1) / 2) ((h + 1) / 2)) in *.
      replace (1 + L - 1) with (Z.succ (L - 1)) by lia. rewrite Z.pow_succ_r by lia. lia.
    + apply Bool.orb_false_iff in Eb as [E1 E2].
      destruct (Z.gtb_spec w 1); [discriminate|]. destruct (Z.gtb_spec h 1); [discriminate|]. cbn. lia.
Qed.

Lemma shiftr_small : forall x l, 0 <= l -> 0 <= x < 2 ^ l -> Z.shiftr x l = 0.
Proof. intros x l Hl Hx. rewrite Z.shiftr_div_pow2 by lia. apply Z.div_small. lia. Qed.

(* ---------- row lengths ---------- *)

Lemma flat_map_length_const : forall {A B} (f : A -> list B) m l, (forall a, length (f a) = m) ->
  length (flat_map f l) = (length l * m)%nat.
Proof.
  intros A B f m l H. induction l as [|a l IH]; [reflexivity|]. cbn [flat_map length]. rewrite app_length, H, IH. lia.
Qed.

Lemma grid_positions_zlen : forall w h, 0 <= w -> 0 <= h -> zlen (grid_positions w h) = w * h.
Proof.
  intros w h Hw Hh. unfold zlen, grid_positions.
  rewrite (flat_map_length_const _ (Z.to_nat w)) by (intros a; rewrite map_length; apply zseq_length).
  rewrite zseq_length. nia.
Qed.

Lemma rown_zlen : forall w h row0 k, 1 <= w -> 1 <= h -> zlen row0 = w * h ->
  zlen (hth_rown w h row0 k) = fst (hth_dim w h (Z.of_nat k)) * snd (hth_dim w h (Z.of_nat k)).
Proof.
  intros w h row0 k Hw Hh H0. destruct k as [|k].
  - change (Z.of_nat 0) with 0. rewrite hth_dim_0. exact H0.
  - cbn [hth_rown]. destruct (hth_dim_pos w h (Z.of_nat (S k)) ltac:(lia) Hw Hh) as [P1 P2].
    destruct (hth_dim w h (Z.of_nat (S k))) as [lw lh]. destruct (hth_dim w h (Z.of_nat k)) as [pw ph].
    cbn [fst snd] in *. unfold zlen. rewrite map_length. apply grid_positions_zlen; lia.
Qed.

Lemma nth_error_seq0 : forall n k, (k < n)%nat -> nth_error (seq 0 n) k = Some k.
Proof. intros n k H. rewrite (nth_error_nth' _ 0%nat) by (rewrite seq_length; lia). rewrite seq_nth by lia. reflexivity. Qed.

(* ---------- value() ---------- *)

Section Lookup.
Variable t : httree.
Variables w h : Z.
Hypothesis Etw : ht_w t = w.
Hypothesis Eth : ht_h t = h.
Hypothesis Hw : 1 <= w.
Hypothesis Hh : 1 <= h.
Variable row0 : list Z.
Variable m : nat.
Hypothesis Hrow0 : zlen row0 = w * h.

Definition vals_of : list (list Z) := row0 :: hth_up m w h 1 row0 ++ [[0]].

Lemma vals_row : forall k, (k <= m)%nat -> nth_opt vals_of (Z.of_nat k) = Some (hth_rown w h row0 k).
Proof.
  intros k Hk. unfold vals_of. rewrite hth_rows_eq. unfold nth_opt.
  destruct (Z.ltb_spec (Z.of_nat k) 0); [lia|]. rewrite Nat2Z.id.
  rewrite nth_error_app1 by (rewrite map_length, seq_length; lia).
  rewrite nth_error_map, nth_error_seq0 by lia. reflexivity.
Qed.

Lemma vals_top : nth_opt vals_of (Z.of_nat (S m)) = Some [0].
Proof.
  unfold vals_of. rewrite hth_rows_eq. unfold nth_opt.
  destruct (Z.ltb_spec (Z.of_nat (S m)) 0); [lia|]. rewrite Nat2Z.id.
  rewrite nth_error_app2 by (rewrite map_length, seq_length; lia).
  rewrite map_length, seq_length. replace (S m - S m)%nat with 0%nat by lia. reflexivity.
Qed.

Theorem value_lookup : forall k X Y, (k <= m)%nat ->
  0 <= X < fst (hth_dim w h (Z.of_nat k)) -> 0 <= Y < snd (hth_dim w h (Z.of_nat k)) ->
  hth_value t vals_of (Z.of_nat k) X Y = Some (hth_val w h row0 k X Y).
Proof.
  intros k X Y Hk HX HY. unfold hth_value, get2o. rewrite (vals_row k Hk), Etw, Eth.
  rewrite (nth_opt_spec _ _ 255). rewrite (rown_zlen w h row0 k Hw Hh Hrow0).
  set (lw := fst (hth_dim w h (Z.of_nat k))) in *. set (lh := snd (hth_dim w h (Z.of_nat k))) in *.
  destruct (Z.leb_spec 0 (Y * lw + X)); [|nia]. destruct (Z.ltb_spec (Y * lw + X) (lw * lh)); [|nia].
  reflexivity.
Qed.

Theorem value_lookup_top : forall X Y, X = 0 -> Y = 0 ->
  hth_value t vals_of (Z.of_nat (S m)) X Y = Some 0.
Proof. intros X Y -> ->. unfold hth_value, get2o. rewrite vals_top. reflexivity. Qed.

End Lookup.

(* ---------- the flags ---------- *)

Lemma flags_row : forall w h L k, (k < Z.to_nat L)%nat ->
  nth_opt (hth_flags w h L) (Z.of_nat k) =
  Some (zrep false (fst (hth_dim w h (Z.of_nat k)) * snd (hth_dim w h (Z.of_nat k)))).
Proof.
  intros w h L k Hk. unfold hth_flags, nth_opt. destruct (Z.ltb_spec (Z.of_nat k) 0); [lia|]. rewrite Nat2Z.id.
  unfold zseq. rewrite map_map, nth_error_map, nth_error_seq0 by lia. cbn [option_map].
  destruct (hth_dim w h (Z.of_nat k)). reflexivity.
Qed.

Lemma flags_valid : forall w h L k X Y, (k < Z.to_nat L)%nat ->
  0 <= X < fst (hth_dim w h (Z.of_nat k)) -> 0 <= Y < snd (hth_dim w h (Z.of_nat k)) ->
  valid2 (hth_flags w h L) (Z.of_nat k) (Y * fst (hth_dim w h (Z.of_nat k)) + X) = true /\
  get2 (hth_flags w h L) (Z.of_nat k) (Y * fst (hth_dim w h (Z.of_nat k)) + X) true = false.
Proof.
  intros w h L k X Y Hk HX HY.
  set (lw := fst (hth_dim w h (Z.of_nat k))) in *. set (lh := snd (hth_dim w h (Z.of_nat k))) in *.
  assert (G : get2o (hth_flags w h L) (Z.of_nat k) (Y * lw + X) = Some false).
  { unfold get2o. rewrite (flags_row w h L k Hk). fold lw lh. rewrite (nth_opt_spec _ _ true).
    unfold zrep at 1. unfold zlen. rewrite repeat_length.
    destruct (Z.leb_spec 0 (Y * lw + X)); [|nia].
    destruct (Z.ltb_spec (Y * lw + X) (Z.of_nat (Z.to_nat (lw * lh)))); [|nia]. cbn [andb].
    f_equal. unfold znth, zrep. destruct (Z.ltb_spec (Y * lw + X) 0); [lia|].
    apply nth_error_nth. apply nth_error_repeat. nia. }
  rewrite (get2o_spec _ _ _ true) in G. destruct (valid2 (hth_flags w h L) (Z.of_nat k) (Y * lw + X)); [|discriminate].
  injection G as G. split; [reflexivity | exact G].
Qed.

(* any flag array of the shape of hth_flags answers on the walk of a leaf of the grid *)
Theorem flags_lookup : forall w h L (sent : list (list bool)) x y k,
  shape sent = shape (hth_flags w h L) -> 1 <= w -> 1 <= h -> 0 <= x < w -> 0 <= y < h -> (k < Z.to_nat L)%nat ->
  get2o sent (fst (hth_id w h x y (Z.of_nat k))) (snd (hth_id w h x y (Z.of_nat k))) =
  Some (get2 sent (fst (hth_id w h x y (Z.of_nat k))) (snd (hth_id w h x y (Z.of_nat k))) false).
Proof.
  intros w h L sent x y k Hsh Hw Hh Hx Hy Hk. rewrite (get2o_spec _ _ _ false).
  rewrite (valid2_shape sent (hth_flags w h L)) by exact Hsh. unfold hth_id. cbn [fst snd].
  destruct (hth_pos_in_level w h x y (Z.of_nat k) ltac:(lia) Hx Hy) as [PX PY].
  destruct (flags_valid w h L k _ _ Hk PX PY) as [V _]. rewrite V. reflexivity.
Qed.

(* ---------- the walks on newHTJ2KPrecinctTree ---------- *)

Section NewTree.
Variable p : eband.
Variable layer : Z.
Let t := hth_new p layer.
Let w := ht_w t.
Let h := ht_h t.
Hypothesis Hwb : ebn_w p <= 2 ^ 63.
Hypothesis Hhb : ebn_h p <= 2 ^ 63.

Lemma new_w_pos : 1 <= w <= 2 ^ 63.
Proof. subst w t. unfold hth_new. cbn [ht_w]. destruct (Z.ltb_spec (ebn_w p) 1); lia. Qed.
Lemma new_h_pos : 1 <= h <= 2 ^ 63.
Proof. subst h t. unfold hth_new. cbn [ht_h]. destruct (Z.ltb_spec (ebn_h p) 1); lia. Qed.

Lemma new_levels : ht_levels t = hth_levels 64 w h.
Proof. reflexivity. Qed.

Let n := Z.to_nat (ht_levels t).

Lemma new_levels_facts : (1 <= n)%nat /\ Z.of_nat n = ht_levels t /\ w <= 2 ^ (Z.of_nat n - 1) /\ h <= 2 ^ (Z.of_nat n - 1).
Proof.
  pose proof new_w_pos as Hw. pose proof new_h_pos as Hh.
  destruct (hth_levels_bound 63 w h ltac:(exact Hw) ltac:(exact Hh)) as [L1 [L2 L3]].
  change (hth_levels 64 w h) with (ht_levels t) in *. subst n.
  rewrite Z2Nat.id by lia. repeat split; try assumption; lia.
Qed.

Definition incl0 : list Z := nth 0 (ht_incl t) [].
Definition miss0 : list Z := nth 0 (ht_miss t) [].

Lemma new_incl_vals : ht_incl t = vals_of w h incl0 (Nat.pred n).
Proof.
  unfold vals_of, incl0. subst n. replace (Nat.pred (Z.to_nat (ht_levels t))) with (Z.to_nat (ht_levels t - 1)) by (rewrite <- Nat.sub_1_r; lia).
  reflexivity.
Qed.

Lemma new_miss_vals : ht_miss t = vals_of w h miss0 (Nat.pred n).
Proof.
  unfold vals_of, miss0. subst n. replace (Nat.pred (Z.to_nat (ht_levels t))) with (Z.to_nat (ht_levels t - 1)) by (rewrite <- Nat.sub_1_r; lia).
  reflexivity.
Qed.

Lemma new_row0_len : zlen incl0 = w * h /\ zlen miss0 = w * h.
Proof.
  pose proof new_w_pos. pose proof new_h_pos.
  unfold incl0, miss0. subst t w h. unfold hth_new in *. cbn [ht_incl ht_miss ht_w ht_h nth] in *.
  unfold zlen. rewrite !map_length. split; apply grid_positions_zlen; lia.
Qed.

(* the value of the walk's node of level k; the virtual parent of the root holds 0 *)
Definition walk_val (row0 : list Z) (x y : Z) (k : nat) : Z :=
  if (k <? n)%nat then hth_val w h row0 k (Z.shiftr x (Z.of_nat k)) (Z.shiftr y (Z.of_nat k)) else 0.

Lemma new_value_walk : forall vals row0 x y k, vals = vals_of w h row0 (Nat.pred n) -> zlen row0 = w * h ->
  0 <= x < w -> 0 <= y < h -> (k <= n)%nat ->
  hth_value t vals (Z.of_nat k) (Z.shiftr x (Z.of_nat k)) (Z.shiftr y (Z.of_nat k)) = Some (walk_val row0 x y k).
Proof.
  intros vals row0 x y k -> Hlen Hx Hy Hk.
  pose proof new_w_pos as Hw. pose proof new_h_pos as Hh. destruct new_levels_facts as [N1 [N2 [N3 N4]]].
  unfold walk_val. destruct (Nat.ltb_spec k n) as [Hlt|Hge].
  - destruct (hth_pos_in_level w h x y (Z.of_nat k) ltac:(lia) Hx Hy) as [PX PY].
    apply (value_lookup t w h eq_refl eq_refl ltac:(lia) ltac:(lia) row0 (Nat.pred n) Hlen k _ _ ltac:(lia) PX PY).
  - assert (k = S (Nat.pred n)) by lia. subst k.
    assert (P : 2 ^ (Z.of_nat n - 1) <= 2 ^ Z.of_nat (S (Nat.pred n))) by (apply Z.pow_le_mono_r; lia).
    apply (value_lookup_top t w h row0 (Nat.pred n)); apply shiftr_small; lia.
Qed.

Lemma new_flags_shape : ht_isent t = hth_flags w h (ht_levels t) /\ ht_msent t = hth_flags w h (ht_levels t).
Proof. split; reflexivity. Qed.

(* encodeInclusion on the tree of ANY band, any leaf of its grid, any flags of the right shape *)
Theorem hth_incl_total : forall sent x y, shape sent = shape (ht_isent t) -> 0 <= x < w -> 0 <= y < h ->
  hth_encode_inclusion t sent x y =
  Ok (fst (incl_res (walk_val incl0 x y) (fun k => get2 sent (fst (pid t x y k)) (snd (pid t x y k)) false) n),
      imark t x y (walk_val incl0 x y) sent n,
      snd (incl_res (walk_val incl0 x y) (fun k => get2 sent (fst (pid t x y k)) (snd (pid t x y k)) false) n)).
Proof.
  intros sent x y Hsh Hx Hy. pose proof new_w_pos as Hw. pose proof new_h_pos as Hh.
  destruct new_levels_facts as [N1 [N2 [N3 N4]]]. destruct new_row0_len as [R1 R2].
  unfold hth_encode_inclusion. fold n.
  apply hth_incl_loop_closed; [symmetry; exact N2 | |].
  - intros k Hk. apply new_value_walk; try assumption. apply new_incl_vals.
  - intros k Hk. apply (flags_lookup w h (ht_levels t) sent x y k); try assumption; lia.
Qed.

Theorem hth_miss_total : forall sent x y, shape sent = shape (ht_msent t) -> 0 <= x < w -> 0 <= y < h ->
  hth_encode_missing t sent x y =
  Ok (miss_bits (walk_val miss0 x y) (fun k => get2 sent (fst (pid t x y k)) (snd (pid t x y k)) false) n,
      mark t x y sent n).
Proof.
  intros sent x y Hsh Hx Hy. pose proof new_w_pos as Hw. pose proof new_h_pos as Hh.
  destruct new_levels_facts as [N1 [N2 [N3 N4]]]. destruct new_row0_len as [R1 R2].
  unfold hth_encode_missing. fold n. rewrite <- N2.
  apply hth_miss_loop_closed.
  - intros k Hk. apply new_value_walk; try assumption. apply new_miss_vals.
  - intros k Hk. apply (flags_lookup w h (ht_levels t) sent x y k); try assumption; lia.
Qed.

End NewTree.
