(* HTJ2K packet header (C06), general part 11: every node of a value array of newHTJ2KPrecinctTree is 255 or
   the value of a leaf below it, and it is at most the value of every leaf below it (so: the minimum of 255
   and the leaves below) - the HTJ2K half of item (3') of T2hProofsGenMain.v.
     hth_val_attained   value(k, X, Y) = 255  or  = the level-0 value of a leaf (x, y) of the grid with
                        x >> k = X, y >> k = Y
     hth_val_below      value(k, x >> k, y >> k) <= value(0, x, y)
     hth_val_zero_leaf  0 / 1 arrays: a node is 0 iff a leaf below it is 0 *)
From V Require Import Common.Base T2.T2TagTree T2.T2Header T2Ht.T2hModel T2Ht.T2hProofsGen1 T2Ht.T2hProofsGen2.

Theorem hth_val_attained : forall w h row0 k X Y, 1 <= w -> 1 <= h ->
  0 <= X < fst (hth_dim w h (Z.of_nat k)) -> 0 <= Y < snd (hth_dim w h (Z.of_nat k)) ->
  hth_val w h row0 k X Y = 255 \/
  exists x y, 0 <= x < w /\ 0 <= y < h /\ Z.shiftr x (Z.of_nat k) = X /\ Z.shiftr y (Z.of_nat k) = Y /\
              hth_val w h row0 0 x y = hth_val w h row0 k X Y.
Proof.
  intros w h row0 k. induction k as [|k IH]; intros X Y Hw Hh HX HY.
  - right. change (Z.of_nat 0) with 0 in *. rewrite hth_dim_0 in HX, HY. cbn [fst snd] in HX, HY.
    exists X, Y. rewrite !Z.shiftr_0_r. repeat split; try lia.
  - rewrite hth_rown_at by assumption.
    destruct (node_min_witness (hth_rown w h row0 k) (fst (hth_dim w h (Z.of_nat k))) (snd (hth_dim w h (Z.of_nat k))) (X, Y))
      as [E | [dx [dy [Bx [By [Hin E]]]]]]; [left; exact E|].
    destruct (child_in_grid w h k X Y dx dy ltac:(lia) ltac:(lia) Bx By Hin) as [Cx Cy].
    rewrite E. unfold child_val. cbn [fst snd].
    change (znth (hth_rown w h row0 k) ((Y * 2 + dy) * fst (hth_dim w h (Z.of_nat k)) + (X * 2 + dx)) 255)
      with (hth_val w h row0 k (X * 2 + dx) (Y * 2 + dy)).
    destruct (IH (X * 2 + dx) (Y * 2 + dy) Hw Hh Cx Cy) as [E255 | [x [y [Hx [Hy [Sx [Sy Ev]]]]]]]; [left; exact E255|].
    right. exists x, y. repeat split; try lia; try assumption.
    + replace (Z.of_nat (S k)) with (Z.of_nat k + 1) by lia. rewrite shiftr_succ_half by lia. rewrite Sx.
      unfold bit01 in Bx. symmetry. apply (Z.div_unique _ 2 X dx); lia.
    + replace (Z.of_nat (S k)) with (Z.of_nat k + 1) by lia. rewrite shiftr_succ_half by lia. rewrite Sy.
      unfold bit01 in By. symmetry. apply (Z.div_unique _ 2 Y dy); lia.
Qed.

Theorem hth_val_below : forall w h row0 x y k, 1 <= w -> 1 <= h -> 0 <= x < w -> 0 <= y < h ->
  hth_val w h row0 k (Z.shiftr x (Z.of_nat k)) (Z.shiftr y (Z.of_nat k)) <= hth_val w h row0 0 x y.
Proof.
  intros w h row0 x y k Hw Hh Hx Hy. induction k as [|k IH].
  - change (Z.of_nat 0) with 0. rewrite !Z.shiftr_0_r. lia.
  - pose proof (hth_parent_le w h row0 x y k Hw Hh Hx Hy). lia.
Qed.

Theorem hth_val_zero_leaf : forall w h row0 k x y, 1 <= w -> 1 <= h -> 0 <= x < w -> 0 <= y < h ->
  row_all bit01 w h row0 0 ->
  (hth_val w h row0 k (Z.shiftr x (Z.of_nat k)) (Z.shiftr y (Z.of_nat k)) = 0 <->
   exists x' y', 0 <= x' < w /\ 0 <= y' < h /\ Z.shiftr x' (Z.of_nat k) = Z.shiftr x (Z.of_nat k) /\
                 Z.shiftr y' (Z.of_nat k) = Z.shiftr y (Z.of_nat k) /\ hth_val w h row0 0 x' y' = 0).
Proof.
  intros w h row0 k x y Hw Hh Hx Hy H01.
  destruct (hth_pos_in_level w h x y (Z.of_nat k) ltac:(lia) Hx Hy) as [PX PY].
  pose proof (hth_rown_01 w h row0 k H01 _ _ PX PY) as Hb. split.
  - intros E. destruct (hth_val_attained w h row0 k _ _ Hw Hh PX PY) as [E255 | [x' [y' [Hx' [Hy' [Sx [Sy Ev]]]]]]]; [lia|].
    exists x', y'. repeat split; try lia; try assumption.
  - intros [x' [y' [Hx' [Hy' [Sx [Sy E0]]]]]].
    pose proof (hth_val_below w h row0 x' y' k Hw Hh Hx' Hy') as Hle. rewrite Sx, Sy, E0 in Hle.
    unfold bit01 in Hb. lia.
Qed.
