(* HTJ2K packet header (C06), general part 9: ONE block against the GLOBAL correspondence of the coder
   states, inclusion side (second half of item (4), one block), layer 0 / threshold 1:
     InvI   flags of encodeInclusion  <->  the classic inclusion tree: a node holding 0 in the HTJ2K tree holds
            0 in the classic one with low = 0 and known = sent; a node holding 1 is unset in the classic tree
            with low in {0, 1}, and sent = (low = 1) as long as its parent holds 0 (below a 1-node the HTJ2K
            coder never comes, the classic one only raises low)
     incl_walk_inv   one encodeInclusion call and one Encode(1) walk write the same bits, agree on
            "included", and re-establish InvI on the WHOLE tree *)
From V Require Import Common.Base T2.T2Bio T2.T2TagTree T2.T2ProofsStore T2.T2ProofsTagTree T2.T2Header
  T2Ht.T2hModel T2Ht.T2hProofsGen1 T2Ht.T2hProofsGen2 T2Ht.T2hProofsGen3 T2Ht.T2hProofsGen4 T2Ht.T2hProofsGen5
  T2Ht.T2hProofsGen6.

Lemma incl_res_ext2 : forall pv sb sb' n, pv n <= 0 ->
  (forall k, (k < n)%nat -> pv (S k) <= 0 -> sb k = sb' k) -> incl_res pv sb n = incl_res pv sb' n.
Proof.
  intros pv sb sb' n. induction n as [|k IH]; intros Hn H; [reflexivity|]. cbn [incl_res].
  rewrite (H k ltac:(lia) Hn). destruct (Z.gtb_spec (pv k) 0) as [G|G]; [reflexivity|].
  rewrite IH; [reflexivity | lia | intros j Hj; apply H; lia].
Qed.

(* ---------- reading the flags after an inclusion walk ---------- *)

Lemma imark_shape : forall t x y pv sent n, shape (imark t x y pv sent n) = shape sent.
Proof.
  intros t x y pv sent n. revert sent. induction n as [|k IH]; intros sent; [reflexivity|].
  cbn [imark]. destruct (pv k >? 0); [apply set2_shape | rewrite IH; apply set2_shape].
Qed.

Lemma imark_get_out : forall t x y pv n sent id d, (forall k, (k < n)%nat -> id <> pid t x y k) ->
  get2 (imark t x y pv sent n) (fst id) (snd id) d = get2 sent (fst id) (snd id) d.
Proof.
  intros t x y pv n. induction n as [|k IH]; intros sent id d H; [reflexivity|].
  cbn [imark].
  assert (E : get2 (set2 sent (fst (pid t x y k)) (snd (pid t x y k)) true) (fst id) (snd id) d = get2 sent (fst id) (snd id) d).
  { apply get2_set2_other. intros E. apply (H k ltac:(lia)). destruct id, (pid t x y k). cbn [fst snd] in E. congruence. }
  destruct (pv k >? 0); [exact E|]. rewrite IH by (intros j Hj; apply H; lia). exact E.
Qed.

Lemma imark_get_in : forall t x y pv n sent k d, (k < n)%nat ->
  valid2 sent (fst (pid t x y k)) (snd (pid t x y k)) = true ->
  (forall j, (k < j < n)%nat -> pv j <= 0) ->
  get2 (imark t x y pv sent n) (fst (pid t x y k)) (snd (pid t x y k)) d = true.
Proof.
  intros t x y pv n. induction n as [|m IH]; intros sent k d Hk Hv Hab; [lia|].
  cbn [imark]. destruct (Nat.eq_dec k m) as [->|Hne].
  - destruct (pv m >? 0); [apply get2_set2_same; exact Hv|].
    rewrite imark_get_out by (intros j Hj; apply pid_neq; lia). apply get2_set2_same. exact Hv.
  - pose proof (Hab m ltac:(lia)). destruct (Z.gtb_spec (pv m) 0); [lia|].
    apply IH; [lia | rewrite valid2_set2; exact Hv | intros j Hj; apply Hab; lia].
Qed.

Lemma imark_get_stop : forall t x y pv n sent k d, (k < n)%nat ->
  (exists j, (k < j < n)%nat /\ 0 < pv j) ->
  get2 (imark t x y pv sent n) (fst (pid t x y k)) (snd (pid t x y k)) d =
  get2 sent (fst (pid t x y k)) (snd (pid t x y k)) d.
Proof.
  intros t x y pv n. induction n as [|m IH]; intros sent k d Hk [j [Hj Hp]]; [lia|].
  cbn [imark].
  assert (E : get2 (set2 sent (fst (pid t x y m)) (snd (pid t x y m)) true) (fst (pid t x y k)) (snd (pid t x y k)) d
              = get2 sent (fst (pid t x y k)) (snd (pid t x y k)) d).
  { apply get2_set2_other. intros E. apply (pid_neq t x y m k ltac:(lia)).
    destruct (pid t x y m), (pid t x y k). cbn [fst snd] in E. exact E. }
  destruct (Z.gtb_spec (pv m) 0) as [G|G]; [exact E|].
  assert (j <> m) by (intros ->; lia).
  rewrite IH; [exact E | lia | exists j; split; [lia | exact Hp]].
Qed.

Section OneBandIncl.
Variable p : eband.
Variable layer : Z.
Hypothesis Hwb : ebn_w p <= 2 ^ 63.
Hypothesis Hhb : ebn_h p <= 2 ^ 63.
Let t := hth_new p layer.
Let w := ht_w t.
Let h := ht_h t.
Let n := Z.to_nat (ht_levels t).

Definition ival (x y : Z) (k : nat) : Z := walk_val p layer (incl0 p layer) x y k.

Definition InvI (isent : list (list bool)) (it : ttree) : Prop :=
  shape isent = shape (ht_isent t) /\ same_shapes it /\
  forall x y k, in_grid2 p layer x y -> (k < n)%nat ->
    let id := pid t x y k in
    let s := get2 isent (fst id) (snd id) false in
    vid it id /\ (nl it id = 0 \/ nl it id = 1) /\
    (ival x y k = 0 -> nu it id = false /\ nv it id = 0 /\ nl it id = 0 /\ s = nk it id) /\
    (ival x y k = 1 -> nu it id = true /\ (ival x y (S k) = 0 -> s = (nl it id =? 1))).

(* the leaves of the inclusion array are 0 (included in this layer) or 1 *)
Definition incl_01 : Prop := row_all bit01 w h (incl0 p layer) 0.

Lemma ival_top : forall x y, ival x y n = 0.
Proof. intros x y. unfold ival, walk_val. fold t. fold n. rewrite Nat.ltb_irrefl. reflexivity. Qed.

Lemma ival_01 : forall x y k, incl_01 -> in_grid2 p layer x y -> ival x y k = 0 \/ ival x y k = 1.
Proof.
  intros x y k H01 [Hx Hy]. unfold ival, walk_val. fold t. fold n. fold w. fold h.
  destruct (Nat.ltb_spec k n); [|left; reflexivity].
  destruct (hth_pos_in_level w h x y (Z.of_nat k) ltac:(lia) Hx Hy) as [PX PY].
  apply (hth_rown_01 w h (incl0 p layer) k H01 _ _ PX PY).
Qed.

Lemma ival_mono : forall x y k, incl_01 -> in_grid2 p layer x y -> (k < n)%nat -> ival x y (S k) <= ival x y k.
Proof.
  intros x y k H01 Hg Hk. pose proof Hg as [Hx Hy].
  pose proof (new_w_pos p layer Hwb : 1 <= w <= 2 ^ 63) as Hw. pose proof (new_h_pos p layer Hhb : 1 <= h <= 2 ^ 63) as Hh.
  destruct (Nat.ltb_spec (S k) n) as [Hlt|Hge].
  - unfold ival, walk_val. fold t. fold n. fold w. fold h.
    destruct (Nat.ltb_spec k n); [|lia]. destruct (Nat.ltb_spec (S k) n); [|lia].
    apply hth_parent_le; try assumption; lia.
  - assert (S k = n) by lia. rewrite H, ival_top. destruct (ival_01 x y k H01 Hg); lia.
Qed.

Theorem incl_walk_inv : forall isent it x y, InvI isent it -> incl_01 -> in_grid2 p layer x y ->
  exists bits isent' it' inc,
    hth_encode_inclusion t isent x y = Ok (bits, isent', inc) /\
    tt_enc_nodes it (cpath w h x y n) 0 1 = (bits, it') /\
    (inc = true <-> ival x y 0 = 0) /\
    enc_same it it' /\ InvI isent' it'.
Proof.
  intros isent it x y [Hsh [Hss Hinv]] H01 Hg. pose proof Hg as [Hx Hy].
  set (pv := ival x y).
  assert (Hmono : forall k, (k < n)%nat -> pv (S k) <= pv k) by (intros k Hk; apply ival_mono; assumption).
  assert (Hb : forall k, pv k = 0 \/ pv k = 1) by (intros k; apply ival_01; assumption).
  assert (Hpre : forall k, (k < n)%nat -> incl_node_pre w h x y pv it k).
  { intros k Hk. destruct (Hinv x y k Hg Hk) as [_ [A [B C]]]. change (cid w h x y k) with (pid t x y k).
    unfold incl_node_pre. change (cid w h x y k) with (pid t x y k).
    split; [apply Hb|]. split; [apply Hmono; exact Hk|]. split; [exact A|].
    split; [intros P0; destruct (B P0) as [B1 [B2 [B3 _]]]; repeat split; assumption | intros P1; apply (C P1)]. }
  destruct (enc_nodes_incl_closed w h x y pv n it (ival_top x y) Hss
              ltac:(intros k Hk; apply (Hinv x y k Hg Hk)) Hpre)
    as [it' [E [Hsame [Hpost Hframe]]]].
  set (sbH := fun k => get2 isent (fst (pid t x y k)) (snd (pid t x y k)) false).
  assert (Eres : incl_res pv sbH n = incl_res pv (sbc w h x y pv it) n).
  { apply incl_res_ext2; [rewrite (ival_top x y : pv n = 0); lia|].
    intros k Hk Hp. destruct (Hinv x y k Hg Hk) as [_ [_ [B C]]]. unfold sbc, sbH.
    change (cid w h x y k) with (pid t x y k).
    destruct (Hb k) as [P0|P1].
    - fold pv in B. rewrite P0. destruct (B P0) as [_ [_ [_ F]]]. exact F.
    - fold pv in C. rewrite P1. destruct (C P1) as [_ F]. apply F. destruct (Hb (S k)); [assumption | lia]. }
  exists (fst (incl_res pv sbH n)), (imark t x y pv isent n), it', (snd (incl_res pv sbH n)).
  split; [|split; [|split; [|split; [exact Hsame|]]]].
  - unfold t at 1. rewrite (hth_incl_total p layer Hwb Hhb isent x y Hsh Hx Hy). reflexivity.
  - rewrite E, Eres. reflexivity.
  - rewrite incl_res_included. split.
    + intros H. destruct (new_levels_facts p layer Hwb Hhb) as [N1 _].
      pose proof (H 0%nat N1). destruct (Hb 0%nat); [assumption | lia].
    + intros H0 k Hk. pose proof (pv_chain pv 0 k ltac:(lia) ltac:(intros i Hi; apply Hmono; lia)). fold pv in H0. lia.
  - split; [rewrite imark_shape; exact Hsh|]. split; [apply Hsame|].
    intros x' y' k Hg' Hk. cbv zeta.
    destruct (Hinv x' y' k Hg' Hk) as [V [A [B C]]].
    split; [apply (enc_same_vid it it' _ Hsame V)|].
    rewrite (enc_same_nu it it' _ Hsame), (enc_same_nv it it' _ Hsame).
    destruct (Z.eq_dec (snd (pid t x' y' k)) (snd (pid t x y k))) as [Es|Ns].
    + assert (Eid : pid t x' y' k = pid t x y k).
      { destruct (pid t x' y' k) eqn:E1, (pid t x y k) eqn:E2. cbn [snd] in Es.
        apply (f_equal fst) in E1, E2. cbn [fst] in E1, E2. unfold pid, hth_id in E1, E2. cbn [fst] in E1, E2. congruence. }
      destruct (walk_val_same p layer Hwb Hhb (incl0 p layer) x y x' y' k Hg Hg' Eid) as [W1 W2].
      fold (ival x' y' k) in W1. fold (ival x y k) in W1. fold (ival x' y' (S k)) in W2. fold (ival x y (S k)) in W2.
      rewrite W1, W2 in *. rewrite Eid in *. fold pv in B, C |- *.
      destruct (Hpost k Hk) as [Q0 Q1]. change (cid w h x y k) with (pid t x y k) in Q0, Q1.
      assert (Hvalid : valid2 isent (fst (pid t x y k)) (snd (pid t x y k)) = true).
      { rewrite (valid2_shape isent (ht_isent t)) by exact Hsh.
        destruct (hth_pos_in_level w h x y (Z.of_nat k) ltac:(lia) Hx Hy) as [PX PY].
        apply (flags_valid w h (ht_levels t) k _ _ Hk PX PY). }
      assert (Habove : pv (S k) = 0 -> forall j, (k < j < n)%nat -> pv j <= 0).
      { intros P j Hj. pose proof (pv_chain pv (S k) j ltac:(lia) ltac:(intros i Hi; apply Hmono; lia)). lia. }
      destruct (Hb k) as [P0|P1].
      * (* a 0 node: its parent holds 0 too; visited, known *)
        destruct (Q0 P0) as [R1 R2]. destruct (B P0) as [B1 [B2 _]].
        assert (PS : pv (S k) = 0).
        { destruct (Nat.eq_dec (S k) n) as [EQ|]; [rewrite EQ; apply ival_top|]. pose proof (Hmono k Hk). destruct (Hb (S k)); lia. }
        split; [left; exact R1|]. split; [|intros; lia].
        intros _. rewrite R1, R2. repeat split; try assumption.
        apply imark_get_in; [exact Hk | exact Hvalid | apply Habove; exact PS].
      * destruct (Q1 P1) as [R1 R2]. destruct (C P1) as [C1 _].
        split; [right; exact R1|]. split; [intros; lia|].
        intros _. split; [exact C1|]. intros PS. rewrite R1. change (1 =? 1) with true.
        apply imark_get_in; [exact Hk | exact Hvalid | apply Habove; exact PS].
    + assert (Hout : ~ In (pid t x' y' k) (cpath w h x y n)).
      { intros Hin. clear - Hin Ns. induction n as [|m IH]; [exact Hin|]. cbn [cpath In] in Hin. destruct Hin as [E0|Hin]; [|apply IH; exact Hin].
        destruct (Nat.eq_dec m k) as [->|Hne]; [apply Ns; change (cid w h x y k) with (pid t x y k) in E0; rewrite E0; reflexivity|].
        apply (f_equal fst) in E0. unfold cid, pid, hth_id in E0. cbn [fst] in E0. lia. }
      destruct (Hframe _ Hout) as [F1 F2]. rewrite F1, F2.
      rewrite imark_get_out by (intros j Hj E1; apply Hout; rewrite E1; apply (cid_in w h x y n j Hj)).
      split; [exact A|]. split; [exact B | exact C].
Qed.

End OneBandIncl.
