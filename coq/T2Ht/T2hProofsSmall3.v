(* HTJ2K packet header (C06): exhaustive check, domain D3 (two or three bands, each empty or a grid
   of at most two positions; 4 block kinds) *)
From V Require Import Common.Base T2.T2Header T2Ht.T2hModel T2Ht.T2hSpec T2Ht.T2hProofsSmall.

Lemma dom3_checked : forallb (hth_check rest_b) dom3 = true.
Proof. vm_compute. reflexivity. Qed.
