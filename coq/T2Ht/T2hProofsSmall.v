(* HTJ2K packet header (C06): the round trip decided over a finite domain of precinct shapes.
   Every instance is run through the MODEL of the Go encoder (T2hModel.hth_header) and the model of
   the Go generic parser (T2Header.parse_header) inside the kernel (vm_compute); the bound is part
   of the statement.  The general statement is T2hSpec.hth_roundtrip_statement. *)
From V Require Import Common.Base Framing.FrmWriters T2.T2Bio T2.T2TagTree T2.T2Header J2KGeo.GeoLayers
  T2Ht.T2hModel T2Ht.T2hSpec.

(* ---------- hth_check is the statement for one instance ---------- *)

Lemma view_eqb_eq : forall a b, view_eqb a b = true -> a = b.
Proof.
  intros [[[i1 n1] l1] z1] [[[i2 n2] l2] z2] H. cbn [view_eqb] in H.
  apply andb_prop in H as [H Hz]. apply andb_prop in H as [H Hl]. apply andb_prop in H as [Hi Hn].
  apply Bool.eqb_prop in Hi. apply Z.eqb_eq in Hn, Hl, Hz. congruence.
Qed.

Lemma views_eqb_eq : forall a b, views_eqb a b = true -> a = b.
Proof.
  induction a as [|x a IH]; intros [|y b] H; cbn [views_eqb] in H; try discriminate; [reflexivity|].
  apply andb_prop in H as [H1 H2]. apply view_eqb_eq in H1. apply IH in H2. congruence.
Qed.

Definition roundtrip_at (bands : list eband) (rest : list Z) : Prop :=
  exists hdr incs obss dincs ds,
    hth_header bands 0 = Ok (hdr, incs, obss) /\
    parse_header (hdr ++ rest) 0 (map hth_dband bands) false = Ok (zlen hdr, any_coded bands, dincs, ds) /\
    map dview dincs = expect_all bands.

Lemma hth_check_sound : forall rest bands, hth_check rest bands = true -> roundtrip_at bands rest.
Proof.
  intros rest bands H. unfold hth_check in H.
  destruct (hth_header bands 0) as [[[hdr incs] obss]| | |] eqn:E; try discriminate.
  destruct (parse_header (hdr ++ rest) 0 (map hth_dband bands) false) as [[[[n pr] dincs] ds]| | |] eqn:P; try discriminate.
  apply andb_prop in H as [H Hv]. apply andb_prop in H as [Hn Hp].
  apply Z.eqb_eq in Hn. apply Bool.eqb_prop in Hp. apply views_eqb_eq in Hv.
  exists hdr, incs, obss, dincs, ds. split; [exact E|]. split; [|exact Hv]. rewrite P, Hn, Hp. reflexivity.
Qed.

(* ---------- the domain ---------- *)

(* a block kind: zero bit planes, number of data bytes (0 = all-zero block: no pass, no data) *)
Definition kind_block (k : Z * Z) (xy : Z * Z) : eblock :=
  hth_mk_block (fst xy) (snd xy) (fst k) (if snd k =? 0 then 0 else 1) (zrep 0 (snd k)) 0.

Fixpoint fills (kinds : list (Z * Z)) (n : nat) : list (list (Z * Z)) :=
  match n with
  | O => [[]]
  | S m => flat_map (fun k => map (cons k) (fills kinds m)) kinds
  end.

Definition band_of (wh : Z * Z) (fill : list (Z * Z)) : eband :=
  hth_mk_band (fst wh) (snd wh) (map (fun kx => kind_block (fst kx) (snd kx)) (combine fill (grid_positions (fst wh) (snd wh)))).

Definition bands_of_shape (kinds : list (Z * Z)) (wh : Z * Z) : list eband :=
  map (band_of wh) (fills kinds (Z.to_nat (fst wh * snd wh))).

(* all-zero with 0 / 9 zero bit planes (below / above the coded blocks of the band), coded with
   0 zero bit planes and 1 byte, coded with 3 zero bit planes and 300 bytes (Lblock increment) *)
Definition kinds4 : list (Z * Z) := [(0, 0); (9, 0); (0, 1); (3, 300)].
Definition kinds3 : list (Z * Z) := [(5, 0); (2, 1); (4, 300)].

(* D1: one band, every grid with at most 6 positions (1x1 .. 6x1, 1x6, 2x2, 2x3, 3x2), 4 kinds *)
Definition shapes6 : list (Z * Z) :=
  [(1,1); (2,1); (1,2); (3,1); (1,3); (4,1); (1,4); (2,2); (5,1); (1,5); (6,1); (1,6); (3,2); (2,3)].
Definition dom1 : list (list eband) :=
  map (fun b => [b]) (flat_map (bands_of_shape kinds4) shapes6).

(* D2: one band 3x3, 2x4, 4x2 (three tree levels, odd sizes), 3 kinds *)
Definition dom2 : list (list eband) :=
  map (fun b => [b]) (flat_map (bands_of_shape kinds3) [(3,3); (4,2); (2,4)]).

(* D3: up to three bands (HL, LH, HH of one precinct), each without code-blocks (0 x 0) or a grid
   of at most 2 positions, 4 kinds: leading / middle / trailing empty bands, empty packets *)
Definition small_bands : list eband :=
  hth_mk_band 0 0 [] :: flat_map (bands_of_shape kinds4) [(1,1); (2,1); (1,2)].
Definition dom3 : list (list eband) :=
  flat_map (fun a => flat_map (fun b => map (fun c => [a; b; c]) small_bands) small_bands) small_bands
  ++ flat_map (fun a => map (fun b => [a; b]) small_bands) small_bands.

Definition rest_a : list Z := [].
Definition rest_b : list Z := [255; 145; 3].

Lemma dom1_checked : forallb (fun bs => hth_check rest_a bs && hth_check rest_b bs) dom1 = true.
Proof. vm_compute. reflexivity. Qed.
