(* HTJ2K packet header (C06), general part 14: the classic trees after preparePacketHeaderPrecinct at layer 0
   (item (3'), classic side complete): starting from ResetEncoding of NewTagTree(w, h) (reset_char: every node
   unset, low 0, known false) the SetValue loop prepare_values yields trees characterised by the processed
   leaves (prepare_values_char): the inclusion tree by the positions of the blocks that contribute (value 0),
   the zero-bit-plane tree by (position, eb_zbp) of every block; low / known stay 0 / false. *)
From V Require Import Common.Base T2.T2Bio T2.T2TagTree T2.T2ProofsStore T2.T2ProofsTagTree T2.T2Header J2KGeo.GeoLayers
  T2Ht.T2hModel T2Ht.T2hProofsGen1 T2Ht.T2hProofsGen3 T2Ht.T2hProofsGen4 T2Ht.T2hProofsGen5 T2Ht.T2hProofsGen6
  T2Ht.T2hProofsGen8 T2Ht.T2hProofsGen10 T2Ht.T2hProofsGen11.

Lemma get2_map_map : forall {A B} (f : A -> B) (l : list (list A)) lv idx d d',
  valid2 l lv idx = true -> get2 (map (map f) l) lv idx d' = f (get2 l lv idx d).
Proof.
  intros A B f l lv idx d d' H. apply valid2_spec in H as [H1 [H2 [H3 H4]]]. unfold get2.
  rewrite !znth_nth by lia.
  rewrite (nth_indep (map (map f) l) [] (map f [])) by (rewrite map_length; exact H3). rewrite map_nth.
  rewrite (nth_indep _ d' (f d)) by (rewrite map_length; exact H4). apply map_nth.
Qed.

Lemma get2_const_default : forall {A} (l : list (list A)) lv idx (c : A),
  (forall row, In row l -> forall a, In a row -> a = c) -> get2 l lv idx c = c.
Proof.
  intros A l lv idx c H. unfold get2, znth. destruct (lv <? 0); [destruct (idx <? 0); [reflexivity | destruct (Z.to_nat idx); reflexivity]|].
  destruct (idx <? 0); [reflexivity|].
  destruct (nth_in_or_default (Z.to_nat lv) l []) as [Hin|E].
  - destruct (nth_in_or_default (Z.to_nat idx) (nth (Z.to_nat lv) l []) c) as [Hin2|E2]; [apply (H _ Hin _ Hin2) | exact E2].
  - rewrite E. destruct (Z.to_nat idx); reflexivity.
Qed.

(* low = 0 and known = false on every id *)
Definition quiet (ct : ttree) : Prop := forall id, nl ct id = 0 /\ nk ct id = false.

Lemma reset_quiet : forall t, quiet (tt_reset t).
Proof.
  intros t id. unfold nl, nk, tt_reset. cbn [tt_low tt_known]. split; apply get2_const_default;
    intros row Hr a Ha; apply in_map_iff in Hr as [r0 [<- _]]; apply in_map_iff in Ha as [a0 [<- _]]; reflexivity.
Qed.

Lemma setvalue_quiet : forall ct x y v, quiet ct -> quiet (tt_setvalue ct x y v).
Proof.
  intros ct x y v H id. unfold tt_setvalue. destruct (tt_in_range ct x y); [|apply H].
  unfold nl, nk, tt_with. cbn [tt_low tt_known]. apply H.
Qed.

Lemma tt_new_dims' : forall w h, 0 < w -> 0 < h -> tt_w (tt_new w h) = w /\ tt_h (tt_new w h) = h.
Proof.
  intros w h Hw Hh. unfold tt_new. cbn [tt_w tt_h].
  destruct (Z.leb_spec w 0); [lia|]. destruct (Z.leb_spec h 0); [lia|]. cbn [orb]. split; reflexivity.
Qed.

Section Start.
Variables w h : Z.
Hypothesis Hw : 1 <= w <= 2 ^ 63.
Hypothesis Hh : 1 <= h <= 2 ^ 63.
Let n := Z.to_nat (hth_levels 64 w h).

Lemma levels_n : hth_levels 64 w h = Z.of_nat n.
Proof. destruct (hth_levels_bound 63 w h Hw Hh) as [L _]. subst n. lia. Qed.

Theorem reset_char : Char w h n (tt_reset (tt_new w h)) [] /\ quiet (tt_reset (tt_new w h)) /\
  tt_w (tt_reset (tt_new w h)) = w /\ tt_h (tt_reset (tt_new w h)) = h /\
  tt_lw (tt_reset (tt_new w h)) = tt_lw (tt_new w h).
Proof.
  pose proof (tt_reset_wf _ (tt_new_wf w h)) as Hwf.
  destruct (tt_new_dims' w h ltac:(lia) ltac:(lia)) as [D1 D2].
  assert (Hss : same_shapes (tt_reset (tt_new w h))).
  { destruct Hwf as [dims Hd]. apply Hd. }
  assert (Hgeo : forall x y, ingrid w h x y ->
            tt_in_range (tt_reset (tt_new w h)) x y = true /\
            tt_path (tt_reset (tt_new w h)) x y = map (hth_id w h x y) (zseq (Z.of_nat n))).
  { intros x y [Hx Hy]. split.
    - unfold tt_in_range. change (tt_w (tt_reset (tt_new w h))) with (tt_w (tt_new w h)).
      change (tt_h (tt_reset (tt_new w h))) with (tt_h (tt_new w h)). rewrite D1, D2.
      destruct (Z.leb_spec 0 x); [|lia]. destruct (Z.ltb_spec x w); [|lia].
      destruct (Z.leb_spec 0 y); [|lia]. destruct (Z.ltb_spec y h); [|lia]. reflexivity.
    - change (tt_path (tt_reset (tt_new w h)) x y) with (tt_path (tt_new w h) x y).
      rewrite (hth_ids_tt_path_levels w h x y Hw Hh), levels_n. reflexivity. }
  split; [|split; [apply reset_quiet | split; [exact D1 | split; [exact D2 | reflexivity]]]].
  split; [exact Hss|]. split; [exact Hgeo|]. split; [intros e []|].
  intros x' y' k Hg Hk. cbv zeta. destruct (Hgeo x' y' Hg) as [Hr Hp].
  assert (V : vid (tt_reset (tt_new w h)) (cid w h x' y' k)).
  { apply (wf_path_valid _ x' y' _ Hwf Hr). rewrite Hp. apply in_map_iff. exists (Z.of_nat k). split; [reflexivity|].
    apply in_zseq_iff. lia. }
  assert (U : nu (tt_reset (tt_new w h)) (cid w h x' y' k) = true).
  { unfold nu, tt_reset. cbn [tt_unset]. apply (get2_map_map (fun _ => true) _ _ _ false false).
    pose proof (same_shapes_vid_unset _ _ Hss V) as V'. unfold tt_reset in V'. cbn [tt_unset] in V'.
    rewrite valid2_shape with (m := tt_unset (tt_new w h)) in V' by apply map_shape. exact V'. }
  split; [exact V|]. split; [intros _ e []|]. split; [intros e []|]. intros Hu. congruence.
Qed.

End Start.

(* ---------- the SetValue loop ---------- *)

Definition blk_contributes (b : eblock) : bool :=
  negb (eb_included b) && fst (fst (layer_contribution (eb_ld b) (eb_lp b) (eb_data b) (eb_npt b) 0)).

Fixpoint accI_of (blocks : list eblock) (acc : list entry) : list entry :=
  match blocks with
  | [] => acc
  | b :: r => accI_of r (if blk_contributes b then (eb_cbx b, eb_cby b, 0) :: acc else acc)
  end.

Fixpoint accZ_of (blocks : list eblock) (acc : list entry) : list entry :=
  match blocks with
  | [] => acc
  | b :: r => accZ_of r ((eb_cbx b, eb_cby b, eb_zbp b) :: acc)
  end.

Theorem prepare_values_char : forall w h n, 1 <= w -> 1 <= h ->
  forall blocks it zt aI aZ,
  Char w h n it aI -> Char w h n zt aZ -> quiet it -> quiet zt ->
  Forall (fun b => ingrid w h (eb_cbx b) (eb_cby b)) blocks ->
  Char w h n (fst (prepare_values blocks 0 it zt)) (accI_of blocks aI) /\
  Char w h n (snd (prepare_values blocks 0 it zt)) (accZ_of blocks aZ) /\
  quiet (fst (prepare_values blocks 0 it zt)) /\ quiet (snd (prepare_values blocks 0 it zt)).
Proof.
  intros w h n Hw Hh. induction blocks as [|b r IH]; intros it zt aI aZ CI CZ QI QZ Hg.
  - cbn [prepare_values accI_of accZ_of fst snd]. split; [exact CI | split; [exact CZ | split; assumption]].
  - cbn [prepare_values accI_of accZ_of]. change (0 =? 0) with true. cbv iota.
    pose proof (Forall_inv Hg) as Hb. pose proof (Forall_inv_tail Hg) as Hr.
    fold (blk_contributes b).
    apply IH; try assumption.
    + destruct (blk_contributes b); [apply (setvalue_char w h n Hw Hh _ _ _ _ _ CI Hb) | exact CI].
    + apply (setvalue_char w h n Hw Hh _ _ _ _ _ CZ Hb).
    + destruct (blk_contributes b); [apply setvalue_quiet; exact QI | exact QI].
    + apply setvalue_quiet; exact QZ.
Qed.
