(* HTJ2K packet header (C06), general part 4: the values of the OpenJPH-style precinct trees (lemma
   group (2) of the list at the end of T2hProofsMain.v), for ALL grids:
     node_min_le_child / node_min_le_255 / node_min_witness / node_min_lower
                         hth_node_min is the minimum of 255 and the children inside the level below
     hth_rows_eq         ht_incl / ht_miss of newHTJ2KPrecinctTree are the rows hth_rown 0 .. levels-1
                         followed by {0}
     hth_rown_at         the entry of node (x, y) of level l+1 is hth_node_min of row l
     hth_parent_le       parent <= child along the walk of any leaf (x, y)  (monotone build)
     hth_rown_01         leaves in {0, 1} -> every node in {0, 1};  hth_rown_zero_iff: a node is 0 iff
                         one of its children inside the grid is 0 *)
From V Require Import Common.Base T2.T2TagTree T2.T2Header T2Ht.T2hModel T2Ht.T2hProofsGen1.

(* ---------- zmin / one node ---------- *)

Lemma zmin_le_l : forall a b, zmin a b <= a.
Proof. intros a b. unfold zmin. destruct (Z.ltb_spec b a); lia. Qed.
Lemma zmin_le_r : forall a b, zmin a b <= b.
Proof. intros a b. unfold zmin. destruct (Z.ltb_spec b a); lia. Qed.
Lemma zmin_cases : forall a b, zmin a b = a \/ zmin a b = b.
Proof. intros a b. unfold zmin. destruct (b <? a); [right | left]; reflexivity. Qed.
Lemma zmin_glb : forall a b c, c <= a -> c <= b -> c <= zmin a b.
Proof. intros a b c Ha Hb. destruct (zmin_cases a b) as [-> | ->]; assumption. Qed.

Definition nm_child (prev : list Z) (pw ph : Z) (xy : Z * Z) (m dx dy : Z) : Z :=
  let cx := fst xy * 2 + dx in
  let cy := snd xy * 2 + dy in
  if (cx <? pw) && (cy <? ph) then zmin m (znth prev (cy * pw + cx) 255) else m.

Lemma node_min_unfold : forall prev pw ph xy,
  hth_node_min prev pw ph xy =
  nm_child prev pw ph xy (nm_child prev pw ph xy (nm_child prev pw ph xy (nm_child prev pw ph xy 255 0 0) 1 0) 0 1) 1 1.
Proof. reflexivity. Qed.

Definition child_val (prev : list Z) (pw : Z) (xy : Z * Z) (dx dy : Z) : Z :=
  znth prev ((snd xy * 2 + dy) * pw + (fst xy * 2 + dx)) 255.

Definition child_in (pw ph : Z) (xy : Z * Z) (dx dy : Z) : Prop :=
  fst xy * 2 + dx < pw /\ snd xy * 2 + dy < ph.

Lemma nm_child_le : forall prev pw ph xy m dx dy, nm_child prev pw ph xy m dx dy <= m.
Proof. intros. unfold nm_child. destruct (_ && _); [apply zmin_le_l | lia]. Qed.

Lemma nm_child_le_val : forall prev pw ph xy m dx dy, child_in pw ph xy dx dy ->
  nm_child prev pw ph xy m dx dy <= child_val prev pw xy dx dy.
Proof.
  intros prev pw ph xy m dx dy [H1 H2]. unfold nm_child, child_val.
  destruct (Z.ltb_spec (fst xy * 2 + dx) pw); [|lia]. destruct (Z.ltb_spec (snd xy * 2 + dy) ph); [|lia].
  cbn [andb]. apply zmin_le_r.
Qed.

Lemma nm_child_cases : forall prev pw ph xy m dx dy,
  nm_child prev pw ph xy m dx dy = m \/
  (child_in pw ph xy dx dy /\ nm_child prev pw ph xy m dx dy = child_val prev pw xy dx dy).
Proof.
  intros prev pw ph xy m dx dy. unfold nm_child, child_val, child_in.
  destruct (Z.ltb_spec (fst xy * 2 + dx) pw); [|left; reflexivity].
  destruct (Z.ltb_spec (snd xy * 2 + dy) ph); [|left; reflexivity]. cbn [andb].
  destruct (zmin_cases m (znth prev ((snd xy * 2 + dy) * pw + (fst xy * 2 + dx)) 255)) as [E|E]; [left; exact E|].
  right. split; [split; assumption | exact E].
Qed.

Lemma nm_child_glb : forall prev pw ph xy m dx dy c, c <= m ->
  (child_in pw ph xy dx dy -> c <= child_val prev pw xy dx dy) -> c <= nm_child prev pw ph xy m dx dy.
Proof.
  intros prev pw ph xy m dx dy c Hm Hc.
  destruct (nm_child_cases prev pw ph xy m dx dy) as [-> | [Hin ->]]; [exact Hm | apply Hc; exact Hin].
Qed.

Definition bit01 (d : Z) : Prop := d = 0 \/ d = 1.

Theorem node_min_le_255 : forall prev pw ph xy, hth_node_min prev pw ph xy <= 255.
Proof.
  intros. rewrite node_min_unfold.
  repeat (eapply Z.le_trans; [apply nm_child_le|]). lia.
Qed.

Theorem node_min_le_child : forall prev pw ph xy dx dy, bit01 dx -> bit01 dy -> child_in pw ph xy dx dy ->
  hth_node_min prev pw ph xy <= child_val prev pw xy dx dy.
Proof.
  intros prev pw ph xy dx dy Hx Hy Hin. rewrite node_min_unfold.
  destruct Hx as [-> | ->]; destruct Hy as [-> | ->].
  - do 3 (eapply Z.le_trans; [apply nm_child_le|]). apply nm_child_le_val. exact Hin.
  - do 1 (eapply Z.le_trans; [apply nm_child_le|]). apply nm_child_le_val. exact Hin.
  - do 2 (eapply Z.le_trans; [apply nm_child_le|]). apply nm_child_le_val. exact Hin.
  - apply nm_child_le_val. exact Hin.
Qed.

Theorem node_min_witness : forall prev pw ph xy,
  hth_node_min prev pw ph xy = 255 \/
  exists dx dy, bit01 dx /\ bit01 dy /\ child_in pw ph xy dx dy /\
                hth_node_min prev pw ph xy = child_val prev pw xy dx dy.
Proof.
  intros prev pw ph xy. rewrite node_min_unfold. unfold bit01.
  destruct (nm_child_cases prev pw ph xy
              (nm_child prev pw ph xy (nm_child prev pw ph xy (nm_child prev pw ph xy 255 0 0) 1 0) 0 1) 1 1)
    as [-> | [Hin E]]; [|right; exists 1, 1; repeat split; try (right; reflexivity); try apply Hin; exact E].
  destruct (nm_child_cases prev pw ph xy (nm_child prev pw ph xy (nm_child prev pw ph xy 255 0 0) 1 0) 0 1)
    as [-> | [Hin E]]; [|right; exists 0, 1; repeat split; try (right; reflexivity); try (left; reflexivity); try apply Hin; exact E].
  destruct (nm_child_cases prev pw ph xy (nm_child prev pw ph xy 255 0 0) 1 0)
    as [-> | [Hin E]]; [|right; exists 1, 0; repeat split; try (right; reflexivity); try (left; reflexivity); try apply Hin; exact E].
  destruct (nm_child_cases prev pw ph xy 255 0 0)
    as [-> | [Hin E]]; [left; reflexivity|right; exists 0, 0; repeat split; try (left; reflexivity); try apply Hin; exact E].
Qed.

Theorem node_min_lower : forall prev pw ph xy c, c <= 255 ->
  (forall dx dy, bit01 dx -> bit01 dy -> child_in pw ph xy dx dy -> c <= child_val prev pw xy dx dy) ->
  c <= hth_node_min prev pw ph xy.
Proof.
  intros prev pw ph xy c Hc H. rewrite node_min_unfold. unfold bit01 in H.
  repeat (apply nm_child_glb; [|intros Hin; apply H; [| |exact Hin]; auto]). exact Hc.
Qed.

(* ---------- indexing the raster grid ---------- *)

Lemma nth_error_flat_map_const : forall {A B} (f : A -> list B) m l i j a,
  (forall a, length (f a) = m) -> (j < m)%nat -> nth_error l i = Some a ->
  nth_error (flat_map f l) (i * m + j) = nth_error (f a) j.
Proof.
  intros A B f m l. induction l as [|a0 l IH]; intros i j a Hlen Hj H; [destruct i; discriminate|].
  cbn [flat_map]. destruct i as [|i].
  - cbn [nth_error] in H. injection H as ->. cbn [Nat.mul Nat.add]. apply nth_error_app1. rewrite Hlen. exact Hj.
  - cbn [nth_error] in H. rewrite nth_error_app2 by (rewrite Hlen; cbn [Nat.mul]; lia).
    rewrite Hlen. replace (S i * m + j - m)%nat with (i * m + j)%nat by (cbn [Nat.mul]; lia).
    apply IH; assumption.
Qed.

Lemma zseq_nth_error : forall n i, 0 <= i < n -> nth_error (zseq n) (Z.to_nat i) = Some i.
Proof.
  intros n i Hi. unfold zseq. rewrite nth_error_map.
  rewrite (nth_error_nth' _ 0%nat) by (rewrite seq_length; lia). rewrite seq_nth by lia.
  cbn [option_map Nat.add]. f_equal. lia.
Qed.

Lemma zseq_length : forall n, length (zseq n) = Z.to_nat n.
Proof. intros. unfold zseq. rewrite map_length, seq_length. reflexivity. Qed.

Lemma grid_positions_nth : forall w h x y, 0 <= x < w -> 0 <= y < h ->
  nth_error (grid_positions w h) (Z.to_nat (y * w + x)) = Some (x, y).
Proof.
  intros w h x y Hx Hy. unfold grid_positions.
  replace (Z.to_nat (y * w + x)) with (Z.to_nat y * Z.to_nat w + Z.to_nat x)%nat by nia.
  rewrite (nth_error_flat_map_const (fun y0 => map (fun x0 => (x0, y0)) (zseq w)) (Z.to_nat w) (zseq h) _ _ y).
  - rewrite nth_error_map, zseq_nth_error by lia. reflexivity.
  - intros a. rewrite map_length. apply zseq_length.
  - lia.
  - apply zseq_nth_error. lia.
Qed.

Lemma znth_map_grid : forall (f : Z * Z -> Z) w h x y d, 0 <= x < w -> 0 <= y < h ->
  znth (map f (grid_positions w h)) (y * w + x) d = f (x, y).
Proof.
  intros f w h x y d Hx Hy. unfold znth. destruct (Z.ltb_spec (y * w + x) 0); [nia|].
  apply nth_error_nth. rewrite nth_error_map, grid_positions_nth by lia. reflexivity.
Qed.

(* ---------- the rows of one value array ---------- *)

Fixpoint hth_rown (w h : Z) (row0 : list Z) (l : nat) : list Z :=
  match l with
  | O => row0
  | S k =>
    let '(lw, lh) := hth_dim w h (Z.of_nat (S k)) in
    let '(pw, ph) := hth_dim w h (Z.of_nat k) in
    map (hth_node_min (hth_rown w h row0 k) pw ph) (grid_positions lw lh)
  end.

Lemma hth_up_rows : forall n w h row0 l0,
  hth_up n w h (Z.of_nat (S l0)) (hth_rown w h row0 l0) =
  map (fun k => hth_rown w h row0 (S l0 + k)) (seq 0 n).
Proof.
  induction n as [|n IH]; intros w h row0 l0; [reflexivity|].
  cbn [hth_up seq map].
  replace (Z.of_nat (S l0) - 1) with (Z.of_nat l0) by lia.
  replace (S l0 + 0)%nat with (S l0) by lia.
  change (hth_rown w h row0 (S l0)) with
    (let '(lw, lh) := hth_dim w h (Z.of_nat (S l0)) in
     let '(pw, ph) := hth_dim w h (Z.of_nat l0) in
     map (hth_node_min (hth_rown w h row0 l0) pw ph) (grid_positions lw lh)).
  destruct (hth_dim w h (Z.of_nat (S l0))) as [lw lh] eqn:E1.
  destruct (hth_dim w h (Z.of_nat l0)) as [pw ph] eqn:E2.
  f_equal.
  assert (Er : map (hth_node_min (hth_rown w h row0 l0) pw ph) (grid_positions lw lh) = hth_rown w h row0 (S l0)).
  { cbn [hth_rown]. rewrite E1, E2. reflexivity. }
  rewrite Er. replace (Z.of_nat (S l0) + 1) with (Z.of_nat (S (S l0))) by lia.
  rewrite IH. rewrite <- seq_shift, map_map. apply map_ext. intros a. f_equal. lia.
Qed.

(* all rows of a value array of newHTJ2KPrecinctTree *)
Theorem hth_rows_eq : forall n w h row0,
  row0 :: hth_up n w h 1 row0 ++ [[0]] = map (hth_rown w h row0) (seq 0 (S n)) ++ [[0]].
Proof.
  intros n w h row0. cbn [seq map app]. f_equal. f_equal.
  pose proof (hth_up_rows n w h row0 0) as G. cbn [hth_rown] in G. change (Z.of_nat 1) with 1 in G.
  rewrite G. rewrite <- seq_shift, map_map. reflexivity.
Qed.

(* the value of node (x, y) of level l, as value() reads it (default 255 never used inside the grid) *)
Definition hth_val (w h : Z) (row0 : list Z) (l : nat) (x y : Z) : Z :=
  znth (hth_rown w h row0 l) (y * fst (hth_dim w h (Z.of_nat l)) + x) 255.

Theorem hth_rown_at : forall w h row0 l x y,
  0 <= x < fst (hth_dim w h (Z.of_nat (S l))) -> 0 <= y < snd (hth_dim w h (Z.of_nat (S l))) ->
  hth_val w h row0 (S l) x y =
  hth_node_min (hth_rown w h row0 l) (fst (hth_dim w h (Z.of_nat l))) (snd (hth_dim w h (Z.of_nat l))) (x, y).
Proof.
  intros w h row0 l x y Hx Hy. unfold hth_val. cbn [hth_rown].
  destruct (hth_dim w h (Z.of_nat (S l))) as [lw lh] eqn:E1.
  destruct (hth_dim w h (Z.of_nat l)) as [pw ph] eqn:E2. cbn [fst snd] in *.
  apply znth_map_grid; assumption.
Qed.

(* a node of level l+1 inside its grid has its (0, 0) child inside level l *)
Lemma half_in : forall a x, 0 <= x < (a + 1) / 2 -> x * 2 < a.
Proof. intros a x Hx. pose proof (Z.div_mod (a + 1) 2 ltac:(lia)). pose proof (Z.mod_pos_bound (a + 1) 2 ltac:(lia)). lia. Qed.

Lemma shiftr_split : forall x l, 0 <= l -> 0 <= x ->
  exists dx, bit01 dx /\ Z.shiftr x l = Z.shiftr x (l + 1) * 2 + dx.
Proof.
  intros x l Hl Hx. rewrite shiftr_succ_half by lia. exists (Z.shiftr x l mod 2). split.
  - pose proof (Z.mod_pos_bound (Z.shiftr x l) 2 ltac:(lia)). unfold bit01. lia.
  - pose proof (Z.div_mod (Z.shiftr x l) 2 ltac:(lia)). lia.
Qed.

(* group (2), monotone build: along the walk of leaf (x, y) the parent's value is at most the child's *)
Theorem hth_parent_le : forall w h row0 x y l, 1 <= w -> 1 <= h -> 0 <= x < w -> 0 <= y < h ->
  hth_val w h row0 (S l) (Z.shiftr x (Z.of_nat (S l))) (Z.shiftr y (Z.of_nat (S l)))
  <= hth_val w h row0 l (Z.shiftr x (Z.of_nat l)) (Z.shiftr y (Z.of_nat l)).
Proof.
  intros w h row0 x y l Hw Hh Hx Hy.
  destruct (hth_pos_in_level w h x y (Z.of_nat (S l)) ltac:(lia) Hx Hy) as [Px Py].
  destruct (hth_pos_in_level w h x y (Z.of_nat l) ltac:(lia) Hx Hy) as [Qx Qy].
  rewrite hth_rown_at by assumption.
  replace (Z.of_nat (S l)) with (Z.of_nat l + 1) in * by lia.
  destruct (shiftr_split x (Z.of_nat l) ltac:(lia) ltac:(lia)) as [dx [Bx Ex]].
  destruct (shiftr_split y (Z.of_nat l) ltac:(lia) ltac:(lia)) as [dy [By Ey]].
  pose proof (node_min_le_child (hth_rown w h row0 l) (fst (hth_dim w h (Z.of_nat l))) (snd (hth_dim w h (Z.of_nat l)))
                (Z.shiftr x (Z.of_nat l + 1), Z.shiftr y (Z.of_nat l + 1)) dx dy Bx By) as G.
  unfold child_in, child_val in G. cbn [fst snd] in G. rewrite <- Ex, <- Ey in G.
  unfold hth_val. apply G. lia.
Qed.

(* every in-grid node of a row satisfies P *)
Definition row_all (P : Z -> Prop) (w h : Z) (row0 : list Z) (l : nat) : Prop :=
  forall x y, 0 <= x < fst (hth_dim w h (Z.of_nat l)) -> 0 <= y < snd (hth_dim w h (Z.of_nat l)) ->
  P (hth_val w h row0 l x y).

Lemma child_in_grid : forall w h l x y dx dy, 0 <= x -> 0 <= y -> bit01 dx -> bit01 dy ->
  child_in (fst (hth_dim w h (Z.of_nat l))) (snd (hth_dim w h (Z.of_nat l))) (x, y) dx dy ->
  0 <= x * 2 + dx < fst (hth_dim w h (Z.of_nat l)) /\ 0 <= y * 2 + dy < snd (hth_dim w h (Z.of_nat l)).
Proof. intros w h l x y dx dy Hx Hy Bx By [H1 H2]. cbn [fst snd] in *. unfold bit01 in *. lia. Qed.

(* group (2), inclusion values: 0 / 1 leaves give 0 / 1 nodes on every level *)
Theorem hth_rown_01 : forall w h row0 l, row_all bit01 w h row0 0 -> row_all bit01 w h row0 l.
Proof.
  intros w h row0 l H0. induction l as [|l IH]; [exact H0|].
  intros x y Hx Hy. rewrite hth_rown_at by assumption.
  set (pw := fst (hth_dim w h (Z.of_nat l))) in *. set (ph := snd (hth_dim w h (Z.of_nat l))) in *.
  assert (Hd : hth_dim w h (Z.of_nat (S l)) = ((pw + 1) / 2, (ph + 1) / 2)).
  { replace (Z.of_nat (S l)) with (Z.of_nat l + 1) by lia. apply hth_dim_succ. lia. }
  rewrite Hd in Hx, Hy. cbn [fst snd] in Hx, Hy.
  assert (Hin00 : child_in pw ph (x, y) 0 0).
  { unfold child_in. cbn [fst snd]. pose proof (half_in pw x Hx). pose proof (half_in ph y Hy). lia. }
  assert (Hc : forall dx dy, bit01 dx -> bit01 dy -> child_in pw ph (x, y) dx dy ->
               bit01 (child_val (hth_rown w h row0 l) pw (x, y) dx dy)).
  { intros dx dy Bx By Hin.
    destruct (child_in_grid w h l x y dx dy ltac:(lia) ltac:(lia) Bx By Hin) as [Cx Cy].
    apply (IH _ _ Cx Cy). }
  pose proof (node_min_le_child (hth_rown w h row0 l) pw ph (x, y) 0 0 (or_introl eq_refl) (or_introl eq_refl) Hin00) as Hle.
  pose proof (Hc 0 0 (or_introl eq_refl) (or_introl eq_refl) Hin00) as H00.
  destruct (node_min_witness (hth_rown w h row0 l) pw ph (x, y)) as [E | [dx [dy [Bx [By [Hin E]]]]]].
  - unfold bit01 in H00. lia.
  - rewrite E. apply Hc; assumption.
Qed.

(* a 0 / 1 node is 0 exactly when one of its children inside the grid is 0 *)
Theorem hth_rown_zero_iff : forall w h row0 l x y, row_all bit01 w h row0 0 ->
  0 <= x < fst (hth_dim w h (Z.of_nat (S l))) -> 0 <= y < snd (hth_dim w h (Z.of_nat (S l))) ->
  (hth_val w h row0 (S l) x y = 0 <->
   exists dx dy, bit01 dx /\ bit01 dy /\
     child_in (fst (hth_dim w h (Z.of_nat l))) (snd (hth_dim w h (Z.of_nat l))) (x, y) dx dy /\
     hth_val w h row0 l (x * 2 + dx) (y * 2 + dy) = 0).
Proof.
  intros w h row0 l x y H0 Hx Hy. pose proof (hth_rown_01 w h row0 l H0) as Hl.
  pose proof (hth_rown_01 w h row0 (S l) H0 x y Hx Hy) as Hn.
  rewrite hth_rown_at in * by assumption.
  set (pw := fst (hth_dim w h (Z.of_nat l))) in *. set (ph := snd (hth_dim w h (Z.of_nat l))) in *.
  split.
  - intros E. destruct (node_min_witness (hth_rown w h row0 l) pw ph (x, y)) as [E' | [dx [dy [Bx [By [Hin E']]]]]]; [lia|].
    exists dx, dy. repeat split; try assumption; try apply Hin. unfold hth_val. fold pw.
    unfold child_val in E'. cbn [fst snd] in E'. rewrite <- E'. exact E.
  - intros [dx [dy [Bx [By [Hin E]]]]].
    pose proof (node_min_le_child (hth_rown w h row0 l) pw ph (x, y) dx dy Bx By Hin) as G.
    unfold child_val in G. cbn [fst snd] in G. unfold hth_val in E. fold pw in E. rewrite E in G.
    unfold bit01 in Hn. lia.
Qed.

(* lower bounds propagate (missing-MSB tree: every node >= 0 when the leaves are) *)
Theorem hth_rown_lower : forall w h row0 l c, c <= 255 ->
  row_all (fun v => c <= v) w h row0 0 -> row_all (fun v => c <= v) w h row0 l.
Proof.
  intros w h row0 l c Hc H0. induction l as [|l IH]; [exact H0|].
  intros x y Hx Hy. rewrite hth_rown_at by assumption. apply node_min_lower; [exact Hc|].
  intros dx dy Bx By Hin.
  destruct (child_in_grid w h l x y dx dy ltac:(lia) ltac:(lia) Bx By Hin) as [Cx Cy].
  apply (IH _ _ Cx Cy).
Qed.
