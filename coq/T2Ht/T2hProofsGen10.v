(* HTJ2K packet header (C06), general part 12: TagTree.SetValue in closed form (the classic half of item (3')
   of T2hProofsGenMain.v, first step): on a tree with the geometry of NewTagTree(w, h), SetValue(x, y, v)
   climbs the walk of leaf (x, y) up to a level s, stores v on the levels below s (each of them was unset or
   held more than v), stops at level s because that node holds a value <= v (or s is above the root), and
   changes nothing else; low / known are untouched. *)
From V Require Import Common.Base T2.T2Bio T2.T2TagTree T2.T2ProofsStore T2.T2ProofsTagTree T2.T2Header
  T2Ht.T2hModel T2Ht.T2hProofsGen1 T2Ht.T2hProofsGen3 T2Ht.T2hProofsGen4.

Lemma setvalue_ids_cons : forall nodes unset id r v,
  tt_setvalue_ids nodes unset (id :: r) v =
  if snd id >=? zlen (znth nodes (fst id) []) then (nodes, unset)
  else if get2 unset (fst id) (snd id) false || (get2 nodes (fst id) (snd id) 0 >? v)
       then tt_setvalue_ids (set2 nodes (fst id) (snd id) v) (set2 unset (fst id) (snd id) false) r v
       else (nodes, unset).
Proof. intros nodes unset [lv idx] r v. reflexivity. Qed.

Section SetValue.
Variables w h x y : Z.

(* the walk from level k0 upwards, m nodes *)
Fixpoint apath (k0 m : nat) : list (Z * Z) :=
  match m with
  | O => []
  | S m' => cid w h x y k0 :: apath (S k0) m'
  end.

Lemma apath_seq : forall m k0, map (fun k => hth_id w h x y (Z.of_nat k)) (seq k0 m) = apath k0 m.
Proof. induction m as [|m IH]; intros k0; [reflexivity|]. cbn [seq map apath]. rewrite IH. reflexivity. Qed.

Lemma apath_zseq : forall n, map (hth_id w h x y) (zseq (Z.of_nat n)) = apath 0 n.
Proof. intros n. unfold zseq. rewrite Nat2Z.id, map_map. apply apath_seq. Qed.

Definition gv (nodes : list (list Z)) (id : Z * Z) : Z := get2 nodes (fst id) (snd id) 0.
Definition gu (unset : list (list bool)) (id : Z * Z) : bool := get2 unset (fst id) (snd id) false.

Variable v : Z.

Lemma setvalue_ids_spec : forall m k0 nodes unset,
  (forall j, (k0 <= j < k0 + m)%nat -> valid2 nodes (fst (cid w h x y j)) (snd (cid w h x y j)) = true /\
                                        valid2 unset (fst (cid w h x y j)) (snd (cid w h x y j)) = true) ->
  exists nodes' unset' s,
    tt_setvalue_ids nodes unset (apath k0 m) v = (nodes', unset') /\
    shape nodes' = shape nodes /\ shape unset' = shape unset /\ (k0 <= s <= k0 + m)%nat /\
    (forall j, (k0 <= j < s)%nat ->
       gv nodes' (cid w h x y j) = v /\ gu unset' (cid w h x y j) = false /\
       (gu unset (cid w h x y j) = true \/ gv nodes (cid w h x y j) > v)) /\
    ((s < k0 + m)%nat -> gu unset (cid w h x y s) = false /\ gv nodes (cid w h x y s) <= v) /\
    (forall id, (forall j, (k0 <= j < s)%nat -> id <> cid w h x y j) ->
       gv nodes' id = gv nodes id /\ gu unset' id = gu unset id).
Proof.
  induction m as [|m IH]; intros k0 nodes unset Hval.
  - exists nodes, unset, k0. cbn [apath tt_setvalue_ids]. split; [reflexivity|]. split; [reflexivity|]. split; [reflexivity|].
    split; [lia|]. split; [intros j Hj; lia|]. split; [intros; lia | intros id _; split; reflexivity].
  - cbn [apath]. rewrite setvalue_ids_cons.
    destruct (Hval k0 ltac:(lia)) as [V1 V2]. pose proof V1 as V1'. apply valid2_spec in V1' as [Hlv0 [Hidx0 [_ Hidx]]].
    destruct (Z.geb_spec (snd (cid w h x y k0)) (zlen (znth nodes (fst (cid w h x y k0)) []))) as [Hge|_].
    { exfalso. rewrite znth_nth in Hge by exact Hlv0. unfold zlen in Hge. lia. }
    fold (gu unset (cid w h x y k0)). fold (gv nodes (cid w h x y k0)).
    destruct (gu unset (cid w h x y k0) || (gv nodes (cid w h x y k0) >? v)) eqn:Ec.
    + set (nodes1 := set2 nodes (fst (cid w h x y k0)) (snd (cid w h x y k0)) v).
      set (unset1 := set2 unset (fst (cid w h x y k0)) (snd (cid w h x y k0)) false).
      destruct (IH (S k0) nodes1 unset1) as [nodes' [unset' [s [E [S1 [S2 [Hs [Hset [Hstop Hfr]]]]]]]]].
      { intros j Hj. subst nodes1 unset1. rewrite !valid2_set2. apply Hval. lia. }
      assert (Hother : forall id, id <> cid w h x y k0 -> gv nodes1 id = gv nodes id /\ gu unset1 id = gu unset id).
      { intros id Hne. subst nodes1 unset1. unfold gv, gu. split; apply get2_set2_other; intros E'; apply Hne;
          destruct id, (cid w h x y k0); cbn [fst snd] in E'; congruence. }
      exists nodes', unset', s. split; [exact E|].
      split; [rewrite S1; subst nodes1; apply set2_shape|]. split; [rewrite S2; subst unset1; apply set2_shape|].
      split; [lia|]. split; [|split].
      * intros j Hj. destruct (Nat.eq_dec j k0) as [->|Hne].
        -- destruct (Hfr (cid w h x y k0) ltac:(intros i Hi; apply cid_neq; lia)) as [F1 F2]. rewrite F1, F2.
           subst nodes1 unset1. unfold gv, gu. rewrite !get2_set2_same by assumption.
           split; [reflexivity|]. split; [reflexivity|].
           apply Bool.orb_true_iff in Ec as [Ec|Ec]; [left; exact Ec | right; apply Z.gtb_lt in Ec; unfold gv in Ec; lia].
        -- destruct (Hset j ltac:(lia)) as [A [B C]]. destruct (Hother (cid w h x y j) (cid_neq w h x y j k0 Hne)) as [O1 O2].
           rewrite O1, O2 in C. repeat split; assumption.
      * intros Hlt. destruct (Hstop ltac:(lia)) as [A B].
        destruct (Hother (cid w h x y s) (cid_neq w h x y s k0 ltac:(lia))) as [O1 O2]. rewrite O1 in B. rewrite O2 in A. split; assumption.
      * intros id Hid. destruct (Hfr id ltac:(intros j Hj; apply Hid; lia)) as [F1 F2].
        destruct (Hother id (Hid k0 ltac:(lia))) as [O1 O2]. rewrite F1, F2. split; assumption.
    + apply Bool.orb_false_iff in Ec as [Ec1 Ec2].
      exists nodes, unset, k0. split; [reflexivity|]. split; [reflexivity|]. split; [reflexivity|]. split; [lia|].
      split; [intros j Hj; lia|]. split; [|intros id _; split; reflexivity].
      intros _. split; [exact Ec1|]. destruct (Z.gtb_spec (gv nodes (cid w h x y k0)) v); [discriminate | lia].
Qed.

End SetValue.

(* SetValue on a tree whose leaf-to-root stack of (x, y) is the walk of the HTJ2K tree *)
Theorem tt_setvalue_spec : forall w h x y v n ct,
  same_shapes ct -> tt_in_range ct x y = true ->
  tt_path ct x y = map (hth_id w h x y) (zseq (Z.of_nat n)) ->
  (forall k, (k < n)%nat -> vid ct (cid w h x y k)) ->
  exists ct' s,
    tt_setvalue ct x y v = ct' /\
    tt_low ct' = tt_low ct /\ tt_known ct' = tt_known ct /\ tt_w ct' = tt_w ct /\ tt_h ct' = tt_h ct /\
    tt_lw ct' = tt_lw ct /\ same_shapes ct' /\ shape (tt_nodes ct') = shape (tt_nodes ct) /\ (s <= n)%nat /\
    (forall j, (j < s)%nat ->
       nv ct' (cid w h x y j) = v /\ nu ct' (cid w h x y j) = false /\
       (nu ct (cid w h x y j) = true \/ nv ct (cid w h x y j) > v)) /\
    ((s < n)%nat -> nu ct (cid w h x y s) = false /\ nv ct (cid w h x y s) <= v) /\
    (forall id, (forall j, (j < s)%nat -> id <> cid w h x y j) -> nv ct' id = nv ct id /\ nu ct' id = nu ct id).
Proof.
  intros w h x y v n ct Hss Hr Hp Hvid.
  destruct (setvalue_ids_spec w h x y v n 0 (tt_nodes ct) (tt_unset ct)) as [nodes' [unset' [s [E [S1 [S2 [Hs [Hset [Hstop Hfr]]]]]]]]].
  { intros j Hj. split; [apply (Hvid j ltac:(lia)) | apply same_shapes_vid_unset; [exact Hss | apply (Hvid j ltac:(lia))]]. }
  exists (tt_setvalue ct x y v), s. split; [reflexivity|].
  unfold tt_setvalue. rewrite Hr, Hp, apath_zseq, E. unfold tt_with. cbn [fst snd tt_low tt_known tt_w tt_h tt_lw tt_nodes tt_unset].
  split; [reflexivity|]. split; [reflexivity|]. split; [reflexivity|]. split; [reflexivity|]. split; [reflexivity|].
  split.
  { destruct Hss as [A [B C]]. unfold same_shapes. cbn [tt_low tt_known tt_nodes tt_unset]. rewrite S1, S2. repeat split; assumption. }
  split; [exact S1|]. split; [lia|].
  unfold nv, nu. cbn [tt_nodes tt_unset].
  split; [intros j Hj; apply (Hset j ltac:(lia))|]. split; [intros Hlt; apply Hstop; lia|].
  intros id Hid. apply Hfr. intros j Hj. apply Hid. lia.
Qed.
