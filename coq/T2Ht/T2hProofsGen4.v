(* HTJ2K packet header (C06), general part 6: the classic tag-tree ENCODER walk (T2TagTree.tt_enc_nodes) in
   the same closed form as the HTJ2K walks of T2hProofsGen3 (second half of lemma group (3)), and the
   agreement of the two coders on one walk:
     enc_nodes_set_closed    a walk through nodes that all hold a value below the threshold, values
                             non-decreasing towards the leaf (zero-bit-plane tree, any threshold):
                             the bits are miss_bits with `known` in the place of `sent`
     enc_nodes_sat           carried lower bound already at the threshold: nothing is written
     enc_nodes_incl_closed   threshold 1 (layer 0), nodes hold 0 or are unset: the bits are those of
                             incl_res with  sent := known  on the 0 nodes and  sent := (low = 1)  on the unset
                             ones (the classic coder walks on below the first unset node but writes
                             nothing there)
     hth_miss_walk_agrees / hth_incl_walk_agrees   encodeMissingMSBs / encodeInclusion and Encode write
                             the same bits whenever the flag states correspond on the walk *)
From V Require Import Common.Base T2.T2Bio T2.T2TagTree T2.T2ProofsStore T2.T2ProofsTagTree T2.T2Header
  T2Ht.T2hModel T2Ht.T2hProofsGen1 T2Ht.T2hProofsGen3.

Lemma enc_nodes_cons : forall t id r low thr,
  tt_enc_nodes t (id :: r) low thr =
  let low1 := if low >? nl t id then low else nl t id in
  let '(bs, low2, k2) := tt_enc_loop (loop_fuel low1 thr) low1 thr (nv t id) (nu t id) (nk t id) in
  let '(bs', t3) := tt_enc_nodes (enc_upd t id low2 k2) r low2 thr in (bs ++ bs', t3).
Proof. intros t [lv idx] r low thr. reflexivity. Qed.

(* what a walk leaves untouched *)
Definition enc_same (ct ct' : ttree) : Prop :=
  tt_nodes ct' = tt_nodes ct /\ tt_unset ct' = tt_unset ct /\ same_shapes ct' /\
  tt_w ct' = tt_w ct /\ tt_h ct' = tt_h ct /\ tt_lw ct' = tt_lw ct.

Lemma enc_same_refl : forall ct, same_shapes ct -> enc_same ct ct.
Proof. intros ct H. repeat split; try reflexivity; apply H. Qed.

Lemma enc_same_trans : forall a b c, enc_same a b -> enc_same b c -> enc_same a c.
Proof.
  intros a b c [A1 [A2 [A3 [A4 [A5 A6]]]]] [B1 [B2 [B3 [B4 [B5 B6]]]]].
  unfold enc_same. repeat split; try congruence; apply B3.
Qed.

Lemma enc_same_upd : forall ct id low k, same_shapes ct -> vid ct id -> enc_same ct (enc_upd ct id low k).
Proof.
  intros ct id low k Hs Hv. destruct (enc_upd_facts ct id low k Hs Hv) as [A [B [C [D [E [F _]]]]]].
  unfold enc_same. repeat split; try assumption; apply C.
Qed.

Lemma enc_same_nv : forall ct ct' id, enc_same ct ct' -> nv ct' id = nv ct id.
Proof. intros ct ct' id [H _]. unfold nv. rewrite H. reflexivity. Qed.
Lemma enc_same_nu : forall ct ct' id, enc_same ct ct' -> nu ct' id = nu ct id.
Proof. intros ct ct' id [_ [H _]]. unfold nu. rewrite H. reflexivity. Qed.
Lemma enc_same_vid : forall ct ct' id, enc_same ct ct' -> vid ct id -> vid ct' id.
Proof. intros ct ct' id [H _] Hv. unfold vid in *. rewrite H. exact Hv. Qed.

Section ClassicWalk.
Variables w h x y : Z.

Definition cid (k : nat) : Z * Z := hth_id w h x y (Z.of_nat k).

(* root-to-leaf list of the nodes of levels n-1 .. 0 *)
Fixpoint cpath (n : nat) : list (Z * Z) :=
  match n with
  | O => []
  | S k => cid k :: cpath k
  end.

Lemma cid_neq : forall j k, j <> k -> cid j <> cid k.
Proof. intros j k H E. apply (f_equal fst) in E. unfold cid, hth_id in E. cbn [fst] in E. lia. Qed.

Lemma cid_not_in : forall n k, (n <= k)%nat -> ~ In (cid k) (cpath n).
Proof.
  induction n as [|n IH]; intros k Hk; [intros []|]. cbn [cpath In]. intros [E|E].
  - apply (cid_neq n k ltac:(lia) E).
  - apply (IH k ltac:(lia) E).
Qed.

Lemma cid_in : forall n k, (k < n)%nat -> In (cid k) (cpath n).
Proof.
  induction n as [|n IH]; intros k Hk; [lia|]. cbn [cpath In].
  destruct (Nat.eq_dec k n) as [->|]; [left; reflexivity | right; apply IH; lia].
Qed.

(* cpath is rev (tt_path ...) *)
Lemma cpath_rev : forall n, cpath n = rev (map (fun k => hth_id w h x y k) (zseq (Z.of_nat n))).
Proof.
  induction n as [|n IH]; [reflexivity|]. cbn [cpath]. unfold zseq in *. rewrite Nat2Z.id in *.
  rewrite seq_S, !map_app, rev_app_distr. cbn [map rev app Nat.add]. rewrite <- IH. reflexivity.
Qed.

Variable pv : nat -> Z.

(* ---------- all nodes set, values below the threshold (zero-bit-plane tree) ---------- *)

Theorem enc_nodes_set_closed : forall thr n ct,
  same_shapes ct -> (forall k, (k < n)%nat -> vid ct (cid k)) ->
  (forall k, (k < n)%nat ->
     nu ct (cid k) = false /\ nv ct (cid k) = pv k /\ pv (S k) <= pv k < thr /\
     nl ct (cid k) = (if nk ct (cid k) then pv k else 0)) ->
  0 <= pv n ->
  exists ct', tt_enc_nodes ct (cpath n) (pv n) thr = (miss_bits pv (fun k => nk ct (cid k)) n, ct') /\
    enc_same ct ct' /\
    (forall k, (k < n)%nat -> nl ct' (cid k) = pv k /\ nk ct' (cid k) = true) /\
    (forall id, ~ In id (cpath n) -> nl ct' id = nl ct id /\ nk ct' id = nk ct id).
Proof.
  intros thr. induction n as [|k IH]; intros ct Hs Hvid Hn H0.
  - exists ct. cbn [cpath tt_enc_nodes miss_bits]. split; [reflexivity|]. split; [apply enc_same_refl; exact Hs|].
    split; [intros k Hk; lia | intros id _; split; reflexivity].
  - cbn [cpath miss_bits]. rewrite enc_nodes_cons.
    destruct (Hn k ltac:(lia)) as [Hu [Hv [Hm Hl]]]. rewrite Hu, Hv.
    set (L := if pv (S k) >? nl ct (cid k) then pv (S k) else nl ct (cid k)).
    assert (HL : L = if nk ct (cid k) then pv k else pv (S k)).
    { subst L. rewrite Hl. destruct (nk ct (cid k)).
      - destruct (Z.gtb_spec (pv (S k)) (pv k)); [lia | reflexivity].
      - destruct (Z.gtb_spec (pv (S k)) 0); [reflexivity | lia]. }
    assert (EL : tt_enc_loop (loop_fuel L thr) L thr (pv k) false (nk ct (cid k)) =
                 ((if nk ct (cid k) then [] else repeat 0 (Z.to_nat (pv k - pv (S k))) ++ [1]), pv k, true)).
    { rewrite (enc_loop_spec (Z.to_nat (thr - L))); [|reflexivity|unfold loop_fuel; lia|intros _; rewrite HL; destruct (nk ct (cid k)); lia].
      destruct (Z.ltb_spec L thr) as [H1|H1]; [|rewrite HL in H1; destruct (nk ct (cid k)); lia].
      destruct (Z.ltb_spec (pv k) thr); [|lia]. rewrite HL.
      destruct (nk ct (cid k)); [rewrite Z.sub_diag; reflexivity | reflexivity]. }
    cbv zeta. rewrite EL.
    pose proof (Hvid k ltac:(lia)) as Hvk.
    pose proof (enc_same_upd ct (cid k) (pv k) true Hs Hvk) as Hsame.
    destruct (enc_upd_facts ct (cid k) (pv k) true Hs Hvk) as [_ [_ [Hs2 [_ [_ [_ [Hnl [Hnk Hfr]]]]]]]].
    set (ct2 := enc_upd ct (cid k) (pv k) true) in *.
    destruct (IH ct2 Hs2) as [ct' [E [Hsm [Hpost Hframe]]]].
    + intros j Hj. apply (enc_same_vid ct ct2 _ Hsame). apply Hvid. lia.
    + intros j Hj. destruct (Hn j ltac:(lia)) as [A [B [C D]]].
      destruct (Hfr (cid j) (cid_neq j k ltac:(lia))) as [F1 F2].
      rewrite (enc_same_nu ct ct2 _ Hsame), (enc_same_nv ct ct2 _ Hsame), F1, F2. repeat split; try assumption; lia.
    + lia.
    + exists ct'. rewrite E. split; [|split; [|split]].
      * f_equal. f_equal. apply miss_bits_ext. intros j Hj. apply (Hfr (cid j) (cid_neq j k ltac:(lia))).
      * apply (enc_same_trans ct ct2 ct' Hsame Hsm).
      * intros j Hj. destruct (Nat.eq_dec j k) as [->|Hne]; [|apply Hpost; lia].
        destruct (Hframe (cid k) (cid_not_in k k ltac:(lia))) as [F1 F2]. rewrite F1, F2. split; assumption.
      * intros id Hid. cbn [In] in Hid. destruct (Hframe id ltac:(tauto)) as [F1 F2].
        destruct (Hfr id ltac:(intros E'; apply Hid; left; symmetry; exact E')) as [G1 G2].
        rewrite F1, F2. split; assumption.
Qed.

(* ---------- carried lower bound at the threshold: silence ---------- *)

Theorem enc_nodes_sat : forall thr n ct low, thr <= low ->
  same_shapes ct -> (forall k, (k < n)%nat -> vid ct (cid k)) ->
  (forall k, (k < n)%nat -> nl ct (cid k) <= low) ->
  exists ct', tt_enc_nodes ct (cpath n) low thr = ([], ct') /\ enc_same ct ct' /\
    (forall k, (k < n)%nat -> nl ct' (cid k) = low /\ nk ct' (cid k) = nk ct (cid k)) /\
    (forall id, ~ In id (cpath n) -> nl ct' id = nl ct id /\ nk ct' id = nk ct id).
Proof.
  intros thr. induction n as [|k IH]; intros ct low Hlow Hs Hvid Hnl0.
  - exists ct. split; [reflexivity|]. split; [apply enc_same_refl; exact Hs|].
    split; [intros k Hk; lia | intros id _; split; reflexivity].
  - cbn [cpath]. rewrite enc_nodes_cons.
    assert (HL : (if low >? nl ct (cid k) then low else nl ct (cid k)) = low).
    { pose proof (Hnl0 k ltac:(lia)). destruct (Z.gtb_spec low (nl ct (cid k))); lia. }
    rewrite HL.
    assert (EL : forall v u b, tt_enc_loop (loop_fuel low thr) low thr v u b = ([], low, b)).
    { intros v u b. unfold loop_fuel. cbn [tt_enc_loop]. destruct (Z.ltb_spec low thr); [lia | reflexivity]. }
    cbv zeta. rewrite EL.
    pose proof (Hvid k ltac:(lia)) as Hvk.
    pose proof (enc_same_upd ct (cid k) low (nk ct (cid k)) Hs Hvk) as Hsame.
    destruct (enc_upd_facts ct (cid k) low (nk ct (cid k)) Hs Hvk) as [_ [_ [Hs2 [_ [_ [_ [Hnl [Hnk Hfr]]]]]]]].
    set (ct2 := enc_upd ct (cid k) low (nk ct (cid k))) in *.
    destruct (IH ct2 low Hlow Hs2) as [ct' [E [Hsm [Hpost Hframe]]]].
    + intros j Hj. apply (enc_same_vid ct ct2 _ Hsame). apply Hvid. lia.
    + intros j Hj. destruct (Hfr (cid j) (cid_neq j k ltac:(lia))) as [G1 _]. rewrite G1. apply Hnl0. lia.
    + exists ct'. rewrite E. split; [reflexivity|]. split; [apply (enc_same_trans ct ct2 ct' Hsame Hsm)|]. split.
      * intros j Hj. destruct (Nat.eq_dec j k) as [->|Hne].
        -- destruct (Hframe (cid k) (cid_not_in k k ltac:(lia))) as [F1 F2]. rewrite F1, F2. split; assumption.
        -- destruct (Hpost j ltac:(lia)) as [P1 P2].
           destruct (Hfr (cid j) (cid_neq j k Hne)) as [_ G2]. rewrite G2 in P2. split; assumption.
      * intros id Hid. cbn [In] in Hid. destruct (Hframe id ltac:(tauto)) as [F1 F2].
        destruct (Hfr id ltac:(intros E'; apply Hid; left; symmetry; exact E')) as [G1 G2].
        rewrite F1, F2. split; assumption.
Qed.

(* ---------- threshold 1, nodes hold 0 or are unset (inclusion tree, layer 0) ---------- *)

(* what plays the part of the HTJ2K `sent` flag *)
Definition sbc (ct : ttree) (k : nat) : bool :=
  if pv k =? 0 then nk ct (cid k) else nl ct (cid k) =? 1.

Lemma pv_chain : forall j k, (j <= k)%nat -> (forall i, (j <= i < k)%nat -> pv (S i) <= pv i) -> pv k <= pv j.
Proof.
  intros j k Hjk. induction k as [|k IH]; intros H.
  - assert (j = 0)%nat by lia. subst j. lia.
  - destruct (Nat.eq_dec j (S k)) as [->|Hne]; [lia|].
    pose proof (H k ltac:(lia)). pose proof (IH ltac:(lia) ltac:(intros i Hi; apply H; lia)). lia.
Qed.

Definition incl_node_pre (ct : ttree) (k : nat) : Prop :=
  (pv k = 0 \/ pv k = 1) /\ pv (S k) <= pv k /\ (nl ct (cid k) = 0 \/ nl ct (cid k) = 1) /\
  (pv k = 0 -> nu ct (cid k) = false /\ nv ct (cid k) = 0 /\ nl ct (cid k) = 0) /\
  (pv k = 1 -> nu ct (cid k) = true).

Theorem enc_nodes_incl_closed : forall n ct, pv n = 0 ->
  same_shapes ct -> (forall k, (k < n)%nat -> vid ct (cid k)) ->
  (forall k, (k < n)%nat -> incl_node_pre ct k) ->
  exists ct', tt_enc_nodes ct (cpath n) 0 1 = (fst (incl_res pv (sbc ct) n), ct') /\ enc_same ct ct' /\
    (forall k, (k < n)%nat ->
       (pv k = 0 -> nl ct' (cid k) = 0 /\ nk ct' (cid k) = true) /\
       (pv k = 1 -> nl ct' (cid k) = 1 /\ nk ct' (cid k) = nk ct (cid k))) /\
    (forall id, ~ In id (cpath n) -> nl ct' id = nl ct id /\ nk ct' id = nk ct id).
Proof.
  induction n as [|k IH]; intros ct Hn0 Hs Hvid H.
  - exists ct. split; [reflexivity|]. split; [apply enc_same_refl; exact Hs|].
    split; [intros k Hk; lia | intros id _; split; reflexivity].
  - cbn [cpath incl_res]. rewrite enc_nodes_cons. cbv zeta.
    destruct (H k ltac:(lia)) as [H01 [Hmono [Hnl01 [Hz Ho]]]].
    pose proof (Hvid k ltac:(lia)) as Hvk.
    destruct H01 as [P0|P1].
    + (* a node holding 0 *)
      destruct (Hz P0) as [Hu [Hv Hl]]. rewrite Hu, Hv, Hl. change (if 0 >? 0 then 0 else 0) with 0.
      assert (E0 : forall b, tt_enc_loop (loop_fuel 0 1) 0 1 0 false b = ((if b then [] else [1]), 0, true))
        by (intros []; reflexivity).
      rewrite E0.
      assert (Esb : sbc ct k = nk ct (cid k)) by (unfold sbc; rewrite P0; reflexivity).
      rewrite Esb, P0, Hn0. change (0 >? 0) with false. cbv iota. cbn [fst snd]. change (1 - (0 - 0)) with 1.
      pose proof (enc_same_upd ct (cid k) 0 true Hs Hvk) as Hsame.
      destruct (enc_upd_facts ct (cid k) 0 true Hs Hvk) as [_ [_ [Hs2 [_ [_ [_ [Hnl [Hnk Hfr]]]]]]]].
      set (ct2 := enc_upd ct (cid k) 0 true) in *.
      destruct (IH ct2 P0 Hs2) as [ct' [E [Hsm [Hpost Hframe]]]].
      * intros j Hj. apply (enc_same_vid ct ct2 _ Hsame). apply Hvid. lia.
      * intros j Hj. destruct (H j ltac:(lia)) as [A [B [C [D F]]]].
        destruct (Hfr (cid j) (cid_neq j k ltac:(lia))) as [F1 F2]. unfold incl_node_pre.
        rewrite (enc_same_nu ct ct2 _ Hsame), (enc_same_nv ct ct2 _ Hsame), F1. repeat split; try assumption; try tauto.
      * exists ct'. rewrite E. split; [|split; [|split]].
        -- rewrite (incl_res_ext pv (sbc ct2) (sbc ct) k); [reflexivity|]. intros j Hj. unfold sbc.
           destruct (Hfr (cid j) (cid_neq j k ltac:(lia))) as [F1 F2]. rewrite F1, F2. reflexivity.
        -- apply (enc_same_trans ct ct2 ct' Hsame Hsm).
        -- intros j Hj. destruct (Nat.eq_dec j k) as [->|Hne].
           ++ destruct (Hframe (cid k) (cid_not_in k k ltac:(lia))) as [F1 F2]. rewrite F1, F2.
              split; [intros _; split; assumption | intros; lia].
           ++ destruct (Hpost j ltac:(lia)) as [Q0 Q1].
              destruct (Hfr (cid j) (cid_neq j k Hne)) as [_ G2]. rewrite G2 in Q1. split; assumption.
        -- intros id Hid. cbn [In] in Hid. destruct (Hframe id ltac:(tauto)) as [F1 F2].
           destruct (Hfr id ltac:(intros E'; apply Hid; left; symmetry; exact E')) as [G1 G2].
           rewrite F1, F2. split; assumption.
    + (* the first unset node: one 0 unless its lower bound is already 1; silence below *)
      pose proof (Ho P1) as Hu. rewrite Hu.
      assert (EL : tt_enc_loop (loop_fuel (if 0 >? nl ct (cid k) then 0 else nl ct (cid k)) 1)
                     (if 0 >? nl ct (cid k) then 0 else nl ct (cid k)) 1 (nv ct (cid k)) true (nk ct (cid k))
                   = ((if nl ct (cid k) =? 1 then [] else [0]), 1, nk ct (cid k))).
      { destruct Hnl01 as [N|N]; rewrite N; reflexivity. }
      rewrite EL.
      assert (Esb : sbc ct k = (nl ct (cid k) =? 1)) by (unfold sbc; rewrite P1; reflexivity).
      rewrite Esb, P1, Hn0. change (1 >? 0) with true. cbv iota. cbn [fst snd]. change (1 - (1 - 0)) with 0.
      pose proof (enc_same_upd ct (cid k) 1 (nk ct (cid k)) Hs Hvk) as Hsame.
      destruct (enc_upd_facts ct (cid k) 1 (nk ct (cid k)) Hs Hvk) as [_ [_ [Hs2 [_ [_ [_ [Hnl [Hnk Hfr]]]]]]]].
      set (ct2 := enc_upd ct (cid k) 1 (nk ct (cid k))) in *.
      destruct (enc_nodes_sat 1 k ct2 1 ltac:(lia) Hs2) as [ct' [E [Hsm [Hpost Hframe]]]].
      * intros j Hj. apply (enc_same_vid ct ct2 _ Hsame). apply Hvid. lia.
      * intros j Hj. destruct (Hfr (cid j) (cid_neq j k ltac:(lia))) as [G1 _]. rewrite G1.
        destruct (H j ltac:(lia)) as [_ [_ [C _]]]. lia.
      * exists ct'. rewrite E. split; [|split; [|split]].
        -- rewrite app_nil_r. reflexivity.
        -- apply (enc_same_trans ct ct2 ct' Hsame Hsm).
        -- intros j Hj. destruct (Nat.eq_dec j k) as [->|Hne].
           ++ destruct (Hframe (cid k) (cid_not_in k k ltac:(lia))) as [F1 F2]. rewrite F1, F2.
              split; [intros; lia | intros _; split; assumption].
           ++ assert (Pj : pv j = 1).
              { pose proof (pv_chain j k ltac:(lia) ltac:(intros i Hi; apply (H i ltac:(lia)))).
                destruct (H j ltac:(lia)) as [[A|A] _]; lia. }
              destruct (Hpost j ltac:(lia)) as [Q1 Q2].
              destruct (Hfr (cid j) (cid_neq j k Hne)) as [_ G2]. rewrite G2 in Q2.
              split; [intros; lia | intros _; split; assumption].
        -- intros id Hid. cbn [In] in Hid. destruct (Hframe id ltac:(tauto)) as [F1 F2].
           destruct (Hfr id ltac:(intros E'; apply Hid; left; symmetry; exact E')) as [G1 G2].
           rewrite F1, F2. split; assumption.
Qed.

End ClassicWalk.

(* ---------- one walk: the two coders write the same bits ---------- *)

(* encodeMissingMSBs against Encode(threshold thr) on a zero-bit-plane tree holding the same values, the
   `known` flags of the walk being the `sent` flags *)
Theorem hth_miss_walk_agrees : forall t x y pv sb n sent thr ct,
  (forall k, (k <= n)%nat ->
     hth_value t (ht_miss t) (Z.of_nat k) (Z.shiftr x (Z.of_nat k)) (Z.shiftr y (Z.of_nat k)) = Some (pv k)) ->
  (forall k, (k < n)%nat -> get2o sent (fst (pid t x y k)) (snd (pid t x y k)) = Some (sb k)) ->
  same_shapes ct -> (forall k, (k < n)%nat -> vid ct (pid t x y k)) ->
  (forall k, (k < n)%nat ->
     nu ct (pid t x y k) = false /\ nv ct (pid t x y k) = pv k /\ pv (S k) <= pv k < thr /\
     nl ct (pid t x y k) = (if nk ct (pid t x y k) then pv k else 0)) ->
  0 <= pv n ->
  (forall k, (k < n)%nat -> sb k = nk ct (pid t x y k)) ->
  exists bits ct',
    hth_miss_loop t n (Z.of_nat n) x y sent = Ok (bits, mark t x y sent n) /\
    tt_enc_nodes ct (cpath (ht_w t) (ht_h t) x y n) (pv n) thr = (bits, ct') /\ enc_same ct ct' /\
    (forall k, (k < n)%nat -> nl ct' (pid t x y k) = pv k /\ nk ct' (pid t x y k) = true) /\
    (forall id, ~ In id (cpath (ht_w t) (ht_h t) x y n) -> nl ct' id = nl ct id /\ nk ct' id = nk ct id).
Proof.
  intros t x y pv sb n sent thr ct Hv Hsent Hs Hvid Hn H0 Hsb.
  destruct (enc_nodes_set_closed (ht_w t) (ht_h t) x y pv thr n ct Hs Hvid Hn H0) as [ct' [E [Hsm [Hp Hf]]]].
  exists (miss_bits pv sb n), ct'. split; [apply hth_miss_loop_closed; assumption|].
  split; [|split; [exact Hsm | split; assumption]].
  rewrite E. f_equal. apply miss_bits_ext. intros k Hk. symmetry. apply Hsb. exact Hk.
Qed.

(* encodeInclusion against Encode(threshold 1) on an inclusion tree holding 0 where the HTJ2K tree holds 0 and
   nothing where it holds 1 *)
Theorem hth_incl_walk_agrees : forall t x y pv sb n sent ct,
  (forall k, (k <= n)%nat ->
     hth_value t (ht_incl t) (Z.of_nat k) (Z.shiftr x (Z.of_nat k)) (Z.shiftr y (Z.of_nat k)) = Some (pv k)) ->
  (forall k, (k < n)%nat -> get2o sent (fst (pid t x y k)) (snd (pid t x y k)) = Some (sb k)) ->
  pv n = 0 -> same_shapes ct -> (forall k, (k < n)%nat -> vid ct (pid t x y k)) ->
  (forall k, (k < n)%nat -> incl_node_pre (ht_w t) (ht_h t) x y pv ct k) ->
  (forall k, (k < n)%nat -> sb k = sbc (ht_w t) (ht_h t) x y pv ct k) ->
  exists bits ct',
    hth_incl_loop t n (Z.of_nat n) x y sent = Ok (bits, imark t x y pv sent n, snd (incl_res pv sb n)) /\
    tt_enc_nodes ct (cpath (ht_w t) (ht_h t) x y n) 0 1 = (bits, ct') /\ enc_same ct ct' /\
    (snd (incl_res pv sb n) = true <-> (forall k, (k < n)%nat -> pv k <= 0)) /\
    (forall k, (k < n)%nat ->
       (pv k = 0 -> nl ct' (pid t x y k) = 0 /\ nk ct' (pid t x y k) = true) /\
       (pv k = 1 -> nl ct' (pid t x y k) = 1 /\ nk ct' (pid t x y k) = nk ct (pid t x y k))) /\
    (forall id, ~ In id (cpath (ht_w t) (ht_h t) x y n) -> nl ct' id = nl ct id /\ nk ct' id = nk ct id).
Proof.
  intros t x y pv sb n sent ct Hv Hsent Hn0 Hs Hvid Hpre Hsb.
  destruct (enc_nodes_incl_closed (ht_w t) (ht_h t) x y pv n ct Hn0 Hs Hvid Hpre) as [ct' [E [Hsm [Hp Hf]]]].
  exists (fst (incl_res pv sb n)), ct'.
  split; [apply hth_incl_loop_closed; [reflexivity | assumption | assumption]|].
  split; [|split; [exact Hsm | split; [apply incl_res_included | split; assumption]]].
  rewrite E. rewrite (incl_res_ext pv sb (sbc (ht_w t) (ht_h t) x y pv ct) n); [reflexivity|]. exact Hsb.
Qed.
