(* HTJ2K packet header (C06), general part 13: the SetValue loop of preparePacketHeaderPrecinct keeps the
   characterisation "a node is unset iff no processed leaf lies below it, otherwise it holds the minimum of
   the processed leaves below it" (item (3'), the induction step on the classic side).
     Char ct acc        the characterisation for the processed list acc of (x, y, value)
     setvalue_char      Char ct acc -> Char (tt_setvalue ct x y v) ((x, y, v) :: acc) *)
From V Require Import Common.Base T2.T2Bio T2.T2TagTree T2.T2ProofsStore T2.T2ProofsTagTree T2.T2Header
  T2Ht.T2hModel T2Ht.T2hProofsGen1 T2Ht.T2hProofsGen3 T2Ht.T2hProofsGen4 T2Ht.T2hProofsGen6 T2Ht.T2hProofsGen10.

Section CharSec.
Variables w h : Z.
Variable n : nat.
Hypothesis Hw : 1 <= w.
Hypothesis Hh : 1 <= h.

Definition ingrid (x y : Z) : Prop := 0 <= x < w /\ 0 <= y < h.

(* leaf (x, y) lies below the node of level k of the walk of (x', y') *)
Definition shares (x y x' y' : Z) (k : nat) : Prop :=
  Z.shiftr x (Z.of_nat k) = Z.shiftr x' (Z.of_nat k) /\ Z.shiftr y (Z.of_nat k) = Z.shiftr y' (Z.of_nat k).

Lemma shares_up : forall x y x' y' k j, (k <= j)%nat -> shares x y x' y' k -> shares x y x' y' j.
Proof.
  intros x y x' y' k j Hkj [A B]. induction j as [|j IH].
  - assert (k = 0)%nat by lia. subst k. split; assumption.
  - destruct (Nat.eq_dec k (S j)) as [->|Hne]; [split; assumption|].
    destruct (IH ltac:(lia)) as [A' B']. unfold shares.
    replace (Z.of_nat (S j)) with (Z.of_nat j + 1) by lia. rewrite !shiftr_succ_half by lia. rewrite A', B'. split; reflexivity.
Qed.

Lemma shares_cid : forall x y x' y' k, shares x y x' y' k -> cid w h x y k = cid w h x' y' k.
Proof. intros x y x' y' k [A B]. unfold cid, hth_id. rewrite A, B. reflexivity. Qed.

Lemma cid_shares : forall x y x' y' k, ingrid x y -> ingrid x' y' -> cid w h x y k = cid w h x' y' k -> shares x y x' y' k.
Proof.
  intros x y x' y' k [Hx Hy] [Hx' Hy'] E.
  destruct (node_identity w h x' y' x y k Hw Hh Hx' Hy' Hx Hy E) as [A B]. split; assumption.
Qed.

Definition entry : Type := (Z * Z * Z)%type.
Definition e_below (x' y' : Z) (k : nat) (e : entry) : Prop := shares (fst (fst e)) (snd (fst e)) x' y' k.

Definition Char (ct : ttree) (acc : list entry) : Prop :=
  same_shapes ct /\
  (forall x y, ingrid x y -> tt_in_range ct x y = true /\ tt_path ct x y = map (hth_id w h x y) (zseq (Z.of_nat n))) /\
  (forall e, In e acc -> ingrid (fst (fst e)) (snd (fst e))) /\
  forall x' y' k, ingrid x' y' -> (k < n)%nat ->
    let id := cid w h x' y' k in
    vid ct id /\
    (nu ct id = true -> forall e, In e acc -> ~ e_below x' y' k e) /\
    (forall e, In e acc -> e_below x' y' k e -> nu ct id = false /\ nv ct id <= snd e) /\
    (nu ct id = false -> exists e, In e acc /\ e_below x' y' k e /\ nv ct id = snd e).

Theorem setvalue_char : forall ct acc x y v, Char ct acc -> ingrid x y ->
  Char (tt_setvalue ct x y v) ((x, y, v) :: acc).
Proof.
  intros ct acc x y v [Hss [Hgeo [Hacc Hch]]] Hg.
  destruct (Hgeo x y Hg) as [Hr Hp].
  destruct (tt_setvalue_spec w h x y v n ct Hss Hr Hp ltac:(intros k Hk; apply (Hch x y k Hg Hk)))
    as [ct' [s [E [L1 [L2 [G1 [G2 [G3 [Hss' [Hsh [Hs [Hset [Hstop Hfr]]]]]]]]]]]]].
  rewrite E. clear E.
  split; [exact Hss'|]. split; [|split].
  - intros x0 y0 Hg0. destruct (Hgeo x0 y0 Hg0) as [R P]. unfold tt_in_range, tt_path in *. rewrite G1, G2, G3. split; assumption.
  - intros e [<-|He]; [exact Hg | apply Hacc; exact He].
  - intros x' y' k Hg' Hk. cbv zeta. destruct (Hch x' y' k Hg' Hk) as [V [C1 [C2 C3]]].
    split; [apply (vid_shape ct ct' _ Hsh V)|].
    destruct (Z.eq_dec (snd (cid w h x' y' k)) (snd (cid w h x y k))) as [Es|Ns].
    + (* the node is on the walk of (x, y) *)
      assert (Eid : cid w h x' y' k = cid w h x y k).
      { unfold cid, hth_id in *. cbn [snd] in Es. rewrite Es. reflexivity. }
      assert (Hsh0 : shares x y x' y' k) by (apply cid_shares; [exact Hg | exact Hg' | symmetry; exact Eid]).
      rewrite Eid in *.
      destruct (Nat.lt_ge_cases k s) as [Hlt|Hge].
      * destruct (Hset k Hlt) as [A [B C]]. rewrite A, B.
        split; [intros; discriminate|]. split; [|intros _; exists (x, y, v); split; [left; reflexivity | split; [exact Hsh0 | reflexivity]]].
        intros e [<-|He] Hb; [split; [reflexivity | cbn [snd]; lia]|].
        split; [reflexivity|]. destruct (C2 e He Hb) as [D1 D2]. destruct C as [C|C]; [congruence | lia].
      * assert (Hsn : (s < n)%nat) by lia. destruct (Hstop Hsn) as [A B].
        destruct (Hch x y s Hg Hsn) as [_ [_ [_ Q3]]]. destruct (Q3 A) as [e0 [He0 [Hb0 Ev0]]].
        assert (Hb0k : e_below x' y' k e0).
        { unfold e_below in *. pose proof (shares_up _ _ _ _ s k Hge Hb0) as U. destruct U as [U1 U2]. destruct Hsh0 as [S1 S2].
          split; congruence. }
        destruct (C2 e0 He0 Hb0k) as [D1 D2].
        destruct (Hfr (cid w h x y k) ltac:(intros j Hj; apply cid_neq; lia)) as [F1 F2]. rewrite F1, F2.
        split; [intros Hu; congruence|]. split; [|intros _; destruct (C3 D1) as [e [He [Hb Ev]]]; exists e; split; [right; exact He | split; assumption]].
        intros e [<-|He] Hb; [split; [exact D1 | cbn [snd]; lia] | apply (C2 e He Hb)].
    + (* not on the walk: untouched, and (x, y) is not below it *)
      assert (Hns : ~ shares x y x' y' k).
      { intros Hs'. apply Ns. rewrite (shares_cid _ _ _ _ _ Hs'). reflexivity. }
      destruct (Hfr (cid w h x' y' k)) as [F1 F2].
      { intros j Hj E'. destruct (Nat.eq_dec j k) as [->|Hne]; [apply Ns; rewrite E'; reflexivity|].
        apply (f_equal fst) in E'. unfold cid, hth_id in E'. cbn [fst] in E'. lia. }
      rewrite F1, F2.
      split; [intros Hu e [<-|He]; [exact Hns | apply (C1 Hu e He)]|].
      split; [intros e [<-|He] Hb; [exfalso; apply Hns; exact Hb | apply (C2 e He Hb)]|].
      intros Hu. destruct (C3 Hu) as [e [He [Hb Ev]]]. exists e. split; [right; exact He | split; assumption].
Qed.

End CharSec.
