(* HTJ2K packet header (C06), general part 3: geometry of the OpenJPH-style precinct tree against the
   classic tag tree (lemma group (1) of the list at the end of T2hProofsMain.v), for ALL grids:
     hth_dim_succ        dimension(l+1) = ceil-halving of dimension(l)
     tt_dims_nth_hth_dim the l-th entry of T2TagTree.tt_dims is hth_dim w h l
     hth_levels_tt_dims  hth_levels = number of entries of tt_dims (t.levels = len(levelWidths))
     shiftr_succ_half    x >> (l+1) = (x >> l) / 2
     hth_ids_tt_path     the (level, index) pairs encodeInclusion / encodeMissingMSBs visit, listed
                         leaf to root, are T2TagTree.tt_path (tt_new w h) x y *)
From V Require Import Common.Base T2.T2TagTree T2.T2Header T2Ht.T2hModel.

Lemma shiftl_1_pow : forall l, 0 <= l -> Z.shiftl 1 l = 2 ^ l.
Proof. intros l Hl. rewrite Z.shiftl_mul_pow2 by lia. lia. Qed.

(* ceil(a / 2^l) *)
Definition cdiv2 (a l : Z) : Z := (a + 2 ^ l - 1) / 2 ^ l.

Lemma hth_dim_cdiv : forall w h l, 0 <= l -> hth_dim w h l = (cdiv2 w l, cdiv2 h l).
Proof.
  intros w h l Hl. unfold hth_dim, cdiv2. rewrite shiftl_1_pow by lia.
  rewrite !Z.shiftr_div_pow2 by lia. reflexivity.
Qed.

Lemma cdiv2_0 : forall a, cdiv2 a 0 = a.
Proof. intros a. unfold cdiv2. cbn. rewrite Z.div_1_r. lia. Qed.

Lemma cdiv2_succ : forall a l, 0 <= l -> cdiv2 a (l + 1) = (cdiv2 a l + 1) / 2.
Proof.
  intros a l Hl. unfold cdiv2. assert (Hp : 0 < 2 ^ l) by (apply Z.pow_pos_nonneg; lia).
  rewrite Z.pow_add_r by lia. change (2 ^ 1) with 2.
  replace ((a + 2 ^ l - 1) / 2 ^ l + 1) with ((a + 2 ^ l - 1 + 1 * 2 ^ l) / 2 ^ l) by (rewrite Z.div_add by lia; reflexivity).
  rewrite Z.div_div by lia. f_equal. lia.
Qed.

Lemma cdiv2_pos : forall a l, 0 <= l -> 1 <= a -> 1 <= cdiv2 a l.
Proof.
  intros a l Hl Ha. unfold cdiv2. assert (Hp : 0 < 2 ^ l) by (apply Z.pow_pos_nonneg; lia).
  apply Z.div_le_lower_bound; lia.
Qed.

Lemma cdiv2_le_1 : forall a l, 0 <= l -> a <= 2 ^ l -> cdiv2 a l <= 1.
Proof.
  intros a l Hl Ha. unfold cdiv2. assert (Hp : 0 < 2 ^ l) by (apply Z.pow_pos_nonneg; lia).
  assert ((a + 2 ^ l - 1) / 2 ^ l < 2); [|lia]. apply Z.div_lt_upper_bound; lia.
Qed.

Lemma hth_dim_0 : forall w h, hth_dim w h 0 = (w, h).
Proof. intros. rewrite hth_dim_cdiv by lia. rewrite !cdiv2_0. reflexivity. Qed.

Lemma hth_dim_succ : forall w h l, 0 <= l ->
  hth_dim w h (l + 1) = ((fst (hth_dim w h l) + 1) / 2, (snd (hth_dim w h l) + 1) / 2).
Proof. intros w h l Hl. rewrite !hth_dim_cdiv by lia. cbn [fst snd]. rewrite !cdiv2_succ by lia. reflexivity. Qed.

Lemma hth_dim_pos : forall w h l, 0 <= l -> 1 <= w -> 1 <= h ->
  1 <= fst (hth_dim w h l) /\ 1 <= snd (hth_dim w h l).
Proof. intros. rewrite hth_dim_cdiv by lia. cbn [fst snd]. split; apply cdiv2_pos; lia. Qed.

(* tt_dims started at level l0 of the (w, h) pyramid *)
Lemma tt_dims_from : forall fuel w h l0 k d, 0 <= l0 ->
  nth_error (tt_dims fuel (fst (hth_dim w h l0)) (snd (hth_dim w h l0))) k = Some d ->
  d = hth_dim w h (l0 + Z.of_nat k).
Proof.
  induction fuel as [|f IH]; intros w h l0 k d Hl H; [destruct k; discriminate|].
  cbn [tt_dims] in H. destruct k as [|k].
  - cbn [nth_error] in H. injection H as <-. rewrite Z.add_0_r. reflexivity.
  - cbn [nth_error] in H.
    destruct ((fst (hth_dim w h l0) >? 1) || (snd (hth_dim w h l0) >? 1)); [|destruct k; discriminate].
    pose proof (hth_dim_succ w h l0 Hl) as E.
    replace ((fst (hth_dim w h l0) + 1) / 2) with (fst (hth_dim w h (l0 + 1))) in H by (rewrite E; reflexivity).
    replace ((snd (hth_dim w h l0) + 1) / 2) with (snd (hth_dim w h (l0 + 1))) in H by (rewrite E; reflexivity).
    apply IH in H; [|lia]. rewrite H. f_equal. lia.
Qed.

Theorem tt_dims_nth_hth_dim : forall fuel w h k d,
  nth_error (tt_dims fuel w h) k = Some d -> d = hth_dim w h (Z.of_nat k).
Proof.
  intros fuel w h k d H. pose proof (tt_dims_from fuel w h 0 k d ltac:(lia)) as G.
  rewrite hth_dim_0 in G. cbn [fst snd] in G. apply G. exact H.
Qed.

(* t.levels = len(levelWidths) whenever the fuel suffices (64 does for every Go int) *)
Lemma hth_levels_tt_dims : forall f w h, w <= 2 ^ Z.of_nat f -> h <= 2 ^ Z.of_nat f ->
  hth_levels (S f) w h = zlen (tt_dims (S f) w h).
Proof.
  induction f as [|f IH]; intros w h Hw Hh.
  - cbn [hth_levels tt_dims]. change (2 ^ Z.of_nat 0) with 1 in *.
    destruct (Z.gtb_spec w 1); [lia|]. destruct (Z.gtb_spec h 1); [lia|]. reflexivity.
  - change (hth_levels (S (S f)) w h) with
      (if (w >? 1) || (h >? 1) then 1 + hth_levels (S f) (Z.shiftr (w + 1) 1) (Z.shiftr (h + 1) 1) else 1).
    change (tt_dims (S (S f)) w h) with
      ((w, h) :: (if (w >? 1) || (h >? 1) then tt_dims (S f) ((w + 1) / 2) ((h + 1) / 2) else [])).
    destruct ((w >? 1) || (h >? 1)); [|reflexivity].
    rewrite !Z.shiftr_div_pow2 by lia. change (2 ^ 1) with 2.
    assert (Hp : 2 ^ Z.of_nat (S f) = 2 * 2 ^ Z.of_nat f).
    { rewrite Nat2Z.inj_succ, Z.pow_succ_r by lia. reflexivity. }
    assert (Hp0 : 0 < 2 ^ Z.of_nat f) by (apply Z.pow_pos_nonneg; lia).
    rewrite IH.
    + unfold zlen. cbn [length]. lia.
    + assert ((w + 1) / 2 < 2 ^ Z.of_nat f + 1); [|lia]. apply Z.div_lt_upper_bound; lia.
    + assert ((h + 1) / 2 < 2 ^ Z.of_nat f + 1); [|lia]. apply Z.div_lt_upper_bound; lia.
Qed.

Theorem hth_levels_64 : forall w h, w <= 2 ^ 63 -> h <= 2 ^ 63 ->
  hth_levels 64 w h = zlen (tt_dims 64 w h).
Proof. intros w h Hw Hh. apply (hth_levels_tt_dims 63); assumption. Qed.

Lemma shiftr_succ_half : forall x l, 0 <= l -> Z.shiftr x (l + 1) = Z.shiftr x l / 2.
Proof.
  intros x l Hl. rewrite !Z.shiftr_div_pow2 by lia. rewrite Z.pow_add_r by lia. change (2 ^ 1) with 2.
  assert (Hp : 0 < 2 ^ l) by (apply Z.pow_pos_nonneg; lia). rewrite Z.div_div by lia. reflexivity.
Qed.

(* the node encodeInclusion / encodeMissingMSBs touches at `child = level` for position (x, y) *)
Definition hth_id (w h x y level : Z) : Z * Z :=
  (level, Z.shiftr y level * fst (hth_dim w h level) + Z.shiftr x level).

Lemma tt_path_lv_hth : forall fuel w h x y l0, 0 <= l0 ->
  tt_path_lv (map fst (tt_dims fuel (fst (hth_dim w h l0)) (snd (hth_dim w h l0)))) l0 (Z.shiftr x l0) (Z.shiftr y l0)
  = map (fun k => hth_id w h x y (l0 + k))
        (zseq (zlen (tt_dims fuel (fst (hth_dim w h l0)) (snd (hth_dim w h l0))))).
Proof.
  induction fuel as [|f IH]; intros w h x y l0 Hl; [reflexivity|].
  cbn [tt_dims map tt_path_lv].
  set (tl := if (fst (hth_dim w h l0) >? 1) || (snd (hth_dim w h l0) >? 1)
             then tt_dims f ((fst (hth_dim w h l0) + 1) / 2) ((snd (hth_dim w h l0) + 1) / 2) else []).
  assert (Hz : zseq (zlen ((fst (hth_dim w h l0), snd (hth_dim w h l0)) :: tl)) = 0 :: map (fun k => k + 1) (zseq (zlen tl))).
  { unfold zseq, zlen. rewrite !Nat2Z.id. cbn [length seq map]. f_equal.
    rewrite <- seq_shift, !map_map. apply map_ext. intros a. lia. }
  rewrite Hz. cbn [map]. f_equal.
  - unfold hth_id. rewrite Z.add_0_r. reflexivity.
  - rewrite map_map. subst tl.
    destruct ((fst (hth_dim w h l0) >? 1) || (snd (hth_dim w h l0) >? 1)); [|reflexivity].
    pose proof (hth_dim_succ w h l0 Hl) as E.
    replace ((fst (hth_dim w h l0) + 1) / 2) with (fst (hth_dim w h (l0 + 1))) by (rewrite E; reflexivity).
    replace ((snd (hth_dim w h l0) + 1) / 2) with (snd (hth_dim w h (l0 + 1))) by (rewrite E; reflexivity).
    rewrite <- !shiftr_succ_half by lia. rewrite IH by lia.
    apply map_ext. intros a. f_equal. lia.
Qed.

(* group (1), final form: for a w x h grid (w, h >= 1) the classic stack of (x, y) is the list of HT nodes
   of levels 0 .. levels-1 *)
Theorem hth_ids_tt_path : forall w h x y, 1 <= w -> 1 <= h ->
  tt_path (tt_new w h) x y = map (hth_id w h x y) (zseq (zlen (tt_dims 64 w h))).
Proof.
  intros w h x y Hw Hh. unfold tt_path, tt_new.
  destruct (Z.leb_spec w 0); [lia|]. destruct (Z.leb_spec h 0); [lia|]. cbn [orb tt_lw].
  pose proof (tt_path_lv_hth 64 w h x y 0 ltac:(lia)) as G.
  rewrite hth_dim_0 in G. cbn [fst snd] in G. rewrite !Z.shiftr_0_r in G. rewrite G.
  apply map_ext. intros a. reflexivity.
Qed.

(* the same with t.levels, for grids a Go int can hold *)
Corollary hth_ids_tt_path_levels : forall w h x y, 1 <= w <= 2 ^ 63 -> 1 <= h <= 2 ^ 63 ->
  tt_path (tt_new w h) x y = map (hth_id w h x y) (zseq (hth_levels 64 w h)).
Proof. intros. rewrite hth_levels_64 by lia. apply hth_ids_tt_path; lia. Qed.

(* the root level is 1 x 1: dimension(levels - 1) = (1, 1) *)
Lemma hth_dim_root : forall w h l, 0 <= l -> 1 <= w <= 2 ^ l -> 1 <= h <= 2 ^ l -> hth_dim w h l = (1, 1).
Proof.
  intros w h l Hl Hw Hh. rewrite hth_dim_cdiv by lia.
  pose proof (cdiv2_pos w l Hl ltac:(lia)). pose proof (cdiv2_le_1 w l Hl ltac:(lia)).
  pose proof (cdiv2_pos h l Hl ltac:(lia)). pose proof (cdiv2_le_1 h l Hl ltac:(lia)).
  f_equal; lia.
Qed.

(* (x, y) inside level l of the pyramid stays inside level l + 1 *)
Lemma shiftr_in_dim : forall a x l, 0 <= l -> 0 <= x < a -> 0 <= Z.shiftr x l < cdiv2 a l.
Proof.
  intros a x l Hl Hx. rewrite Z.shiftr_div_pow2 by lia. unfold cdiv2.
  assert (Hp : 0 < 2 ^ l) by (apply Z.pow_pos_nonneg; lia). split.
  - apply Z.div_pos; lia.
  - apply Z.div_lt_upper_bound; [lia|].
    pose proof (Z.div_mod (a + 2 ^ l - 1) (2 ^ l) ltac:(lia)) as D.
    pose proof (Z.mod_pos_bound (a + 2 ^ l - 1) (2 ^ l) Hp). nia.
Qed.

Theorem hth_pos_in_level : forall w h x y l, 0 <= l -> 0 <= x < w -> 0 <= y < h ->
  0 <= Z.shiftr x l < fst (hth_dim w h l) /\ 0 <= Z.shiftr y l < snd (hth_dim w h l).
Proof. intros. rewrite hth_dim_cdiv by lia. cbn [fst snd]. split; apply shiftr_in_dim; lia. Qed.
