(* EXTRACT *)
(* The HTJ2K packet-header coder of jpeg2000/t2/packet_header_tagtree.go:
     PacketEncoder.encodeHTJ2KPacketHeader, newHTJ2KPrecinctTree,
     htj2kPrecinctTree.dimension / value / sent / encodeInclusion / encodeMissingMSBs
   (a Go translation of OpenJPH's precinct::prepare_precinct).

   Inputs are the `eband` / `eblock` records of T2/T2Header.v (t2.Precinct / PrecinctCodeBlock: the
   fields the packet-header code reads); ebn_trees is not used by this coder.  A nil *Precinct and a
   precinct without code-blocks take the same `continue`, so both are `ebn_blocks = []`.
   layerContribution / computePrevAndTotalPasses are the models of J2KGeo/GeoLayers.v,
   encodeNumPasses / encodeCodeBlockLengths the models of T2/T2Header.v (enc_numpasses, enc_lengths),
   the bit writer is Framing/FrmWriters.v (bio_encode).

   As in T2Header.v the coder returns the bits it hands to writeBit.  Every index expression
   values[level][y*w+x] / flags[level][y*w+x] is an explicit check (Panic); a Go `error` is Err. *)
From V Require Import Common.Base Framing.FrmWriters T2.T2Bio T2.T2TagTree T2.T2Header J2KGeo.GeoLayers.

(* htj2kPrecinctTree: inclusion / missing have levels+1 rows (the last is {0}), the sent flags
   have levels rows; blocks is the raster list of width*height pointers (None = nil) *)
Record httree : Type := {
  ht_w : Z; ht_h : Z; ht_levels : Z;
  ht_blocks : list (option eblock);
  ht_incl : list (list Z); ht_miss : list (list Z);
  ht_isent : list (list bool); ht_msent : list (list bool);
  ht_coded : bool
}.

(* t.levels = 1; for w, h := width, height; w > 1 || h > 1; { levels++; w = (w+1)>>1; h = (h+1)>>1 }
   (a Go int is below 2^63: 64 rounds reach 1 x 1) *)
Fixpoint hth_levels (fuel : nat) (w h : Z) : Z :=
  match fuel with
  | O => 1
  | S f => if (w >? 1) || (h >? 1) then 1 + hth_levels f (Z.shiftr (w + 1) 1) (Z.shiftr (h + 1) 1) else 1
  end.

(* dimension(level) *)
Definition hth_dim (w h level : Z) : Z * Z :=
  (Z.shiftr (w + Z.shiftl 1 level - 1) level, Z.shiftr (h + Z.shiftl 1 level - 1) level).

(* byPosition[cb.CBY*t.width + cb.CBX] = cb over precinct.CodeBlocks in order: the last wins *)
Definition hth_lookup (blocks : list eblock) (w key : Z) : option eblock :=
  fold_left (fun acc b => if eb_cby b * w + eb_cbx b =? key then Some b else acc) blocks None.

Definition hth_block_included (b : eblock) (layer : Z) : bool :=
  fst (fst (layer_contribution (eb_ld b) (eb_lp b) (eb_data b) (eb_npt b) layer)).

(* the x loop of one row of the level-0 fill: (blocks, inclusion[0], missing[0]) entries *)
Definition hth_leaf (blocks : list eblock) (w layer : Z) (xy : Z * Z) : option eblock * Z * Z :=
  let cb := hth_lookup blocks w (snd xy * w + fst xy) in
  match cb with
  | None => (None, 1, 255)
  | Some b => (Some b, (if hth_block_included b layer then 0 else 1), eb_zbp b)
  end.

Definition zmin (a b : Z) : Z := if b <? a then b else a.

(* one node of a level >= 1: the minimum over the (up to four) children inside the level below,
   starting from 255.  prev[cy*pw+cx] is read behind `cx < pw && cy < ph` (prev has pw*ph
   entries by construction). *)
Definition hth_node_min (prev : list Z) (pw ph : Z) (xy : Z * Z) : Z :=
  let child (m : Z) (dx dy : Z) : Z :=
    let cx := fst xy * 2 + dx in
    let cy := snd xy * 2 + dy in
    if (cx <? pw) && (cy <? ph) then zmin m (znth prev (cy * pw + cx) 255) else m in
  child (child (child (child 255 0 0) 1 0) 0 1) 1 1.

(* levels 1 .. levels-1 of one value array (n = levels - 1 rounds, level = the next level) *)
Fixpoint hth_up (n : nat) (w h level : Z) (prev : list Z) : list (list Z) :=
  match n with
  | O => []
  | S k =>
    let '(lw, lh) := hth_dim w h level in
    let '(pw, ph) := hth_dim w h (level - 1) in
    let cur := map (hth_node_min prev pw ph) (grid_positions lw lh) in
    cur :: hth_up k w h (level + 1) cur
  end.

Definition hth_flags (w h levels : Z) : list (list bool) :=
  map (fun l => let '(lw, lh) := hth_dim w h l in zrep false (lw * lh)) (zseq levels).

(* newHTJ2KPrecinctTree(precinct, layer, pe) *)
Definition hth_new (p : eband) (layer : Z) : httree :=
  let w := if ebn_w p <? 1 then 1 else ebn_w p in
  let h := if ebn_h p <? 1 then 1 else ebn_h p in
  let levels := hth_levels 64 w h in
  let leaves := map (hth_leaf (ebn_blocks p) w layer) (grid_positions w h) in
  let incl0 := map (fun e => snd (fst e)) leaves in
  let miss0 := map (fun e => snd e) leaves in
  {| ht_w := w; ht_h := h; ht_levels := levels;
     ht_blocks := map (fun e => fst (fst e)) leaves;
     ht_incl := incl0 :: hth_up (Z.to_nat (levels - 1)) w h 1 incl0 ++ [[0]];
     ht_miss := miss0 :: hth_up (Z.to_nat (levels - 1)) w h 1 miss0 ++ [[0]];
     ht_isent := hth_flags w h levels; ht_msent := hth_flags w h levels;
     ht_coded := existsb (fun v => v =? 0) incl0 |}.

(* values[level][y*w+x] with w from dimension(level) *)
Definition get2o {A} (l : list (list A)) (lv idx : Z) : option A :=
  match nth_opt l lv with
  | None => None
  | Some row => nth_opt row idx
  end.

Definition hth_value (t : httree) (vals : list (list Z)) (level x y : Z) : option Z :=
  get2o vals level (y * fst (hth_dim (ht_w t) (ht_h t) level) + x).

(* encodeInclusion(bb, x, y): the loop `for level := t.levels; level > 0; level--` as n rounds.
   Result: bits, the inclusionSent flags, the returned bool. *)
Fixpoint hth_incl_loop (t : httree) (n : nat) (level x y : Z) (sent : list (list bool))
  : outcome (list Z * list (list bool) * bool) :=
  match n with
  | O => Ok ([], sent, true)
  | S k =>
    let child := level - 1 in
    let cx := Z.shiftr x child in
    let cy := Z.shiftr y child in
    let idx := cy * fst (hth_dim (ht_w t) (ht_h t) child) + cx in
    match get2o sent child idx with
    | None => Panic
    | Some s =>
      match hth_value t (ht_incl t) child cx cy with
      | None => Panic
      | Some vc =>
        let step (bits : list Z) :=
          if vc >? 0 then Ok (bits, set2 sent child idx true, false)
          else obind (hth_incl_loop t k child x y (set2 sent child idx true)) (fun res =>
                 let '(bs, sent', inc) := res in Ok (bits ++ bs, sent', inc)) in
        if s then step []
        else
          match hth_value t (ht_incl t) level (Z.shiftr x level) (Z.shiftr y level) with
          | None => Panic
          | Some vp => step [1 - (vc - vp)]
          end
      end
    end
  end.

Definition hth_encode_inclusion (t : httree) (sent : list (list bool)) (x y : Z)
  : outcome (list Z * list (list bool) * bool) :=
  hth_incl_loop t (Z.to_nat (ht_levels t)) (ht_levels t) x y sent.

(* encodeMissingMSBs(bb, x, y) *)
Fixpoint hth_miss_loop (t : httree) (n : nat) (level x y : Z) (sent : list (list bool))
  : outcome (list Z * list (list bool)) :=
  match n with
  | O => Ok ([], sent)
  | S k =>
    let child := level - 1 in
    let cx := Z.shiftr x child in
    let cy := Z.shiftr y child in
    let idx := cy * fst (hth_dim (ht_w t) (ht_h t) child) + cx in
    match get2o sent child idx with
    | None => Panic
    | Some s =>
      let next (bits : list Z) :=
        obind (hth_miss_loop t k child x y (set2 sent child idx true)) (fun res =>
          Ok (bits ++ fst res, snd res)) in
      if s then next []
      else
        match hth_value t (ht_miss t) child cx cy, hth_value t (ht_miss t) level (Z.shiftr x level) (Z.shiftr y level) with
        | Some vc, Some vp => next (repeat 0 (Z.to_nat (vc - vp)) ++ [1])
        | _, _ => Panic
        end
    end
  end.

Definition hth_encode_missing (t : httree) (sent : list (list bool)) (x y : Z)
  : outcome (list Z * list (list bool)) :=
  hth_miss_loop t (Z.to_nat (ht_levels t)) (ht_levels t) x y sent.

(* the body of `for _, cb := range tree.blocks`.
   Result: bits, CodeBlockIncl, the block (Included / NumLenBits updated), the two flag arrays. *)
Definition hth_block (t : httree) (layer : Z) (ob : option eblock) (isent msent : list (list bool))
  : outcome (list Z * eincl * option eblock * list (list bool) * list (list bool)) :=
  match ob with
  | None => Ok ([], eincl_skip false, None, isent, msent)
  | Some b =>
    obind (hth_encode_inclusion t isent (eb_cbx b) (eb_cby b)) (fun r1 =>
      let '(bs1, isent', included) := r1 in
      if negb included then Ok (bs1, eincl_skip false, Some b, isent', msent) else
      obind (hth_encode_missing t msent (eb_cbx b) (eb_cby b)) (fun r2 =>
        let '(bs2, msent') := r2 in
        let '(_, np, data) := layer_contribution (eb_ld b) (eb_lp b) (eb_data b) (eb_npt b) layer in
        obind (enc_numpasses np) (fun bs3 =>
          let dataLen := zlen data in
          let prev := fst (prev_and_total_passes false (eb_lp b) (eb_npt b) layer np) in
          obind (enc_lengths (eb_nlb b) dataLen prev np false None []) (fun ln =>
            Ok (bs1 ++ bs2 ++ bs3 ++ fst ln,
                {| ei_included := true; ei_np := np; ei_len := dataLen; ei_data := data |},
                Some (eb_with b true (snd ln)), isent', msent')))))
  end.

Fixpoint hth_blocks (t : httree) (layer : Z) (obs : list (option eblock)) (isent msent : list (list bool))
  : outcome (list Z * list eincl * list (option eblock)) :=
  match obs with
  | [] => Ok ([], [], [])
  | ob :: r =>
    obind (hth_block t layer ob isent msent) (fun res =>
      let '(bs, inc, ob', isent', msent') := res in
      obind (hth_blocks t layer r isent' msent') (fun res' =>
        let '(bs2, incs, obs') := res' in Ok (bs ++ bs2, inc :: incs, ob' :: obs')))
  end.

(* the loop over the precincts (one per sub-band) with its two running variables *)
Fixpoint hth_bands (bands : list eband) (layer : Z) (coded : bool) (skipped : Z)
  : outcome (list Z * list eincl * list (list (option eblock)) * bool) :=
  match bands with
  | [] => Ok ([], [], [], coded)
  | p :: rest =>
    match ebn_blocks p with
    | [] => obind (hth_bands rest layer coded skipped) (fun res =>
              let '(bs, incs, obss, c) := res in Ok (bs, incs, [] :: obss, c))
    | _ =>
      let t := hth_new p layer in
      if negb (ht_coded t) then
        obind (hth_bands rest layer coded (if coded then skipped else skipped + 1)) (fun res =>
          let '(bs, incs, obss, c) := res in
          Ok ((if coded then [0] else []) ++ bs,
              map (fun _ => eincl_skip false) (ht_blocks t) ++ incs, ht_blocks t :: obss, c))
      else
        let pre := if coded then [] else 1 :: repeat 0 (Z.to_nat skipped) in
        obind (hth_blocks t layer (ht_blocks t) (ht_isent t) (ht_msent t)) (fun res =>
          let '(bs, incs, obs') := res in
          obind (hth_bands rest layer true skipped) (fun res' =>
            let '(bs2, incs2, obss, c) := res' in
            Ok (pre ++ bs ++ bs2, incs ++ incs2, obs' :: obss, c)))
    end
  end.

(* encodeHTJ2KPacketHeader: the bits *)
Definition hth_header_bits (bands : list eband) (layer : Z)
  : outcome (list Z * list eincl * list (list (option eblock))) :=
  obind (hth_bands bands layer false 0) (fun res =>
    let '(bs, incs, obss, c) := res in Ok (bs ++ (if c then [] else [0]), incs, obss)).

(* header bytes = writeBit for every bit, flush *)
Definition hth_header (bands : list eband) (layer : Z)
  : outcome (list Z * list eincl * list (list (option eblock))) :=
  obind (hth_header_bits bands layer) (fun res =>
    let '(bs, incs, obss) := res in Ok (bio_encode bs, incs, obss)).

(* ---------- drivers for the correspondence run and the proofs ---------- *)

(* a fresh single-layer block as the HTJ2K encoder builds it (encodeSingleLayerCodeBlock) *)
Definition hth_mk_block (cbx cby zbp npt : Z) (data : list Z) (nlb : Z) : eblock :=
  {| eb_cbx := cbx; eb_cby := cby; eb_zbp := zbp; eb_lp := []; eb_ld := None;
     eb_data := data; eb_npt := npt; eb_pl := []; eb_passes := []; eb_termall := false;
     eb_included := false; eb_nlb := nlb |}.

Definition hth_mk_band (w h : Z) (blocks : list eblock) : eband :=
  {| ebn_band := 0; ebn_w := w; ebn_h := h; ebn_blocks := blocks; ebn_trees := None |}.

(* the decoder's view of the same bands before the first packet (packetHeaderBand with nil state);
   bands without code-blocks keep their dimensions *)
Definition hth_dband (p : eband) : dband :=
  {| dbn_w := ebn_w p; dbn_h := ebn_h p; dbn_pos := []; dbn_incl := None; dbn_zbp := None; dbn_states := None |}.

(* what the generic parser reads from the HTJ2K header followed by `rest` *)
Definition hth_parse (bands : list eband) (rest : list Z) : outcome (Z * bool * list dincl * list dband) :=
  obind (hth_header bands 0) (fun res =>
    parse_header (fst (fst res) ++ rest) 0 (map hth_dband bands) false).
