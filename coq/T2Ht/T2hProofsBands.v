(* HTJ2K packet header (C06), general part 2: the band loop.
   The encoder delays the "non-empty packet" bit and the zero bits of leading empty bands until it
   meets the first band with an included block (skippedBands).  hth_bands_split: the bits it
   finally writes are 1, then exactly the bits the SAME loop writes when started with coded = true,
   i.e. in the order in which the decoder (first bit, then band after band) consumes them.
   No restriction on the bands. *)
From V Require Import Common.Base Framing.FrmWriters T2.T2Bio T2.T2TagTree T2.T2Header J2KGeo.GeoLayers
  T2Ht.T2hModel T2Ht.T2hSpec.

Lemma hth_bands_coded_skip : forall bands layer k k',
  hth_bands bands layer true k = hth_bands bands layer true k'.
Proof.
  induction bands as [|p bands IH]; intros layer k k'; cbn [hth_bands]; [reflexivity|].
  destruct (ebn_blocks p) as [|b0 bl].
  - rewrite (IH layer k k'). reflexivity.
  - destruct (negb (ht_coded (hth_new p layer))).
    + rewrite (IH layer k k'). reflexivity.
    + rewrite (IH layer k k'). reflexivity.
Qed.

Lemma repeat_snoc : forall {A} (x : A) n, repeat x n ++ [x] = x :: repeat x n.
Proof. intros A x n. induction n as [|n IH]; [reflexivity|]. cbn [repeat app]. rewrite IH. reflexivity. Qed.

Lemma hth_bands_split : forall bands layer k bs incs obss c, 0 <= k ->
  hth_bands bands layer false k = Ok (bs, incs, obss, c) ->
  (c = false /\ bs = []) \/
  (c = true /\ exists d, hth_bands bands layer true k = Ok (d, incs, obss, true) /\
                         bs = 1 :: repeat 0 (Z.to_nat k) ++ d).
Proof.
  induction bands as [|p bands IH]; intros layer k bs incs obss c Hk H; cbn [hth_bands] in H |- *.
  - injection H as <- <- <- <-. left. split; reflexivity.
  - destruct (ebn_blocks p) as [|b0 bl] eqn:Eb.
    + destruct (hth_bands bands layer false k) as [[[[bs1 incs1] obss1] c1]| | |] eqn:E; try discriminate.
      cbn [obind] in H. injection H as <- <- <- <-.
      destruct (IH layer k bs1 incs1 obss1 c1 Hk E) as [[-> ->]|[-> [d [Ed ->]]]].
      * left. split; reflexivity.
      * right. split; [reflexivity|]. exists d. rewrite Ed. cbn [obind]. split; reflexivity.
    + destruct (ht_coded (hth_new p layer)) eqn:Ec; cbn [negb] in H |- *.
      * (* the first coded band *)
        destruct (hth_blocks (hth_new p layer) layer (ht_blocks (hth_new p layer)) (ht_isent (hth_new p layer))
                   (ht_msent (hth_new p layer))) as [[[bsb incsb] obsb]| | |] eqn:Eblk; try discriminate.
        cbn [obind] in H |- *.
        destruct (hth_bands bands layer true k) as [[[[bs2 incs2] obss2] c2]| | |] eqn:E2; try discriminate.
        cbn [obind] in H |- *. injection H as <- <- <- <-.
        assert (Hc2 : c2 = true).
        { clear -E2. revert k bs2 incs2 obss2 c2 E2. induction bands as [|q bands IHb]; intros k bs2 incs2 obss2 c2 E2;
            cbn [hth_bands] in E2; [injection E2 as _ _ _ <-; reflexivity|].
          destruct (ebn_blocks q).
          - destruct (hth_bands bands layer true k) as [[[[a b] c] d]| | |] eqn:E; try discriminate.
            cbn [obind] in E2. injection E2 as _ _ _ <-. apply (IHb _ _ _ _ _ E).
          - destruct (negb (ht_coded (hth_new q layer))).
            + destruct (hth_bands bands layer true k) as [[[[a b] c] d]| | |] eqn:E; try discriminate.
              cbn [obind] in E2. injection E2 as _ _ _ <-. apply (IHb _ _ _ _ _ E).
            + destruct (hth_blocks _ _ _ _ _) as [[[a b] c]| | |]; try discriminate. cbn [obind] in E2.
              destruct (hth_bands bands layer true k) as [[[[a' b'] c'] d]| | |] eqn:E; try discriminate.
              cbn [obind] in E2. injection E2 as _ _ _ <-. apply (IHb _ _ _ _ _ E). }
        subst c2. right. split; [reflexivity|]. eexists. split; [reflexivity|].
        cbn [app]. reflexivity.
      * (* an empty band before the first coded one *)
        destruct (hth_bands bands layer false (k + 1)) as [[[[bs1 incs1] obss1] c1]| | |] eqn:E; try discriminate.
        cbn [obind app] in H. injection H as <- <- <- <-.
        destruct (IH layer (k + 1) bs1 incs1 obss1 c1 ltac:(lia) E) as [[-> ->]|[-> [d [Ed ->]]]].
        -- left. split; reflexivity.
        -- right. split; [reflexivity|]. exists (0 :: d).
           rewrite (hth_bands_coded_skip bands layer k (k + 1)), Ed. cbn [obind app]. split; [reflexivity|].
           replace (Z.to_nat (k + 1)) with (S (Z.to_nat k)) by lia.
           f_equal. change (0 :: d) with ([0] ++ d). rewrite app_assoc, repeat_snoc. reflexivity.
Qed.

(* the whole header in decoder order *)
Theorem hth_header_bits_split : forall bands layer bs incs obss,
  hth_header_bits bands layer = Ok (bs, incs, obss) ->
  (bs = [0] /\ hth_bands bands layer false 0 = Ok ([], incs, obss, false)) \/
  (exists d, bs = 1 :: d /\ hth_bands bands layer true 0 = Ok (d, incs, obss, true)).
Proof.
  intros bands layer bs incs obss H. unfold hth_header_bits in H.
  destruct (hth_bands bands layer false 0) as [[[[bs1 incs1] obss1] c1]| | |] eqn:E; try discriminate.
  cbn [obind] in H. injection H as <- <- <-.
  destruct (hth_bands_split bands layer 0 bs1 incs1 obss1 c1 ltac:(lia) E) as [[-> ->]|[-> [d [Ed ->]]]].
  - left. split; reflexivity.
  - right. exists d. split; [|exact Ed]. cbn [Z.to_nat repeat app]. rewrite app_nil_r. reflexivity.
Qed.
