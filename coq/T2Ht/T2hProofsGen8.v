(* HTJ2K packet header (C06), general part 10: the block loop of ONE precinct band, layer 0 (item (4), blocks):
     tt_encode_cpath   TagTree.Encode on a tree with the geometry of NewTagTree(w, h) is the walk on cpath
     block_agrees      the body of `for _, cb := range tree.blocks` against encodePacketHeaderCodeBlock under
                       the global correspondences InvI / InvM: same bits, same CodeBlockIncl, correspondences
                       re-established
     blocks_agree      the whole loop hth_blocks against enc_blocks
   for blocks without pass tables (block_pass_lens = None), not yet included, inside the grid, whose leaves
   hold their own inclusion / zero-bit-plane values (blk_ok). *)
From V Require Import Common.Base Framing.FrmWriters T2.T2Bio T2.T2TagTree T2.T2ProofsStore T2.T2ProofsTagTree T2.T2Header
  J2KGeo.GeoLayers
  T2Ht.T2hModel T2Ht.T2hProofsGen1 T2Ht.T2hProofsGen2 T2Ht.T2hProofsGen3 T2Ht.T2hProofsGen4 T2Ht.T2hProofsGen5
  T2Ht.T2hProofsGen6 T2Ht.T2hProofsGen7.

Lemma in_zseq_iff : forall n a, In a (zseq n) <-> 0 <= a < n.
Proof.
  intros n a. unfold zseq. rewrite in_map_iff. split.
  - intros [k [<- Hk]]. apply in_seq in Hk. lia.
  - intros H. exists (Z.to_nat a). split; [lia | apply in_seq; lia].
Qed.

Lemma enc_lengths_none : forall a b c d ta terms,
  enc_lengths a b c d ta None terms = enc_lengths a b c d false None [].
Proof. intros. unfold enc_lengths. destruct (d <=? 0); reflexivity. Qed.

Section BandBlocks.
Variable p : eband.
Hypothesis Hwb : ebn_w p <= 2 ^ 63.
Hypothesis Hhb : ebn_h p <= 2 ^ 63.
Let t := hth_new p 0.
Let w := ht_w t.
Let h := ht_h t.
Let n := Z.to_nat (ht_levels t).

Definition Geo (ct : ttree) : Prop := tt_w ct = w /\ tt_h ct = h /\ tt_lw ct = tt_lw (tt_new w h).

Lemma geo_same : forall ct ct', Geo ct -> enc_same ct ct' -> Geo ct'.
Proof. intros ct ct' [A [B C]] [_ [_ [_ [D [E F]]]]]. unfold Geo. repeat split; congruence. Qed.

Lemma tt_encode_cpath : forall ct x y thr, same_shapes ct -> Geo ct -> in_grid2 p 0 x y ->
  (forall k, (k < n)%nat -> vid ct (pid t x y k)) ->
  tt_encode ct x y thr = Ok (tt_enc_nodes ct (cpath w h x y n) 0 thr).
Proof.
  intros ct x y thr Hss [Gw [Gh Glw]] [Hx Hy] Hvid.
  pose proof (new_w_pos p 0 Hwb : 1 <= w <= 2 ^ 63) as Hw. pose proof (new_h_pos p 0 Hhb : 1 <= h <= 2 ^ 63) as Hh.
  destruct (new_levels_facts p 0 Hwb Hhb) as [N1 [N2 _]].
  assert (Hp : tt_path ct x y = map (hth_id w h x y) (zseq (Z.of_nat n))).
  { unfold tt_path. rewrite Glw. change (tt_path_lv (tt_lw (tt_new w h)) 0 x y) with (tt_path (tt_new w h) x y).
    rewrite (hth_ids_tt_path_levels w h x y Hw Hh). f_equal. f_equal. symmetry. exact N2. }
  unfold tt_encode.
  assert (Hr : tt_in_range ct x y = true).
  { unfold tt_in_range. rewrite Gw, Gh. change (0 <= x < w) in Hx. change (0 <= y < h) in Hy.
    destruct (Z.leb_spec 0 x); [|lia]. destruct (Z.ltb_spec x w); [|lia].
    destruct (Z.leb_spec 0 y); [|lia]. destruct (Z.ltb_spec y h); [|lia]. reflexivity. }
  rewrite Hr. cbn [negb].
  assert (Hv : forallb (tt_valid_id ct) (tt_path ct x y) = true).
  { apply forallb_forall. intros id Hin. rewrite Hp in Hin. apply in_map_iff in Hin as [a [<- Ha]].
    apply in_zseq_iff in Ha. apply (valid_id_vid ct _ Hss).
    replace a with (Z.of_nat (Z.to_nat a)) by lia. apply (Hvid (Z.to_nat a)). lia. }
  rewrite Hv. cbn [negb]. f_equal. f_equal. rewrite Hp. symmetry. apply cpath_rev.
Qed.

(* a block of the band as the correspondence needs it *)
Definition blk_ok (b : eblock) : Prop :=
  eb_included b = false /\ block_pass_lens b = None /\ in_grid2 p 0 (eb_cbx b) (eb_cby b) /\
  ival p 0 (eb_cbx b) (eb_cby b) 0 = (if hth_block_included b 0 then 0 else 1) /\
  (hth_block_included b 0 = true -> mval p 0 (eb_cbx b) (eb_cby b) 0 < 255).

Definition StateRel (isent msent : list (list bool)) (it zt : ttree) : Prop :=
  InvI p 0 isent it /\ InvM p 0 msent zt /\ Geo it /\ Geo zt.

Theorem block_agrees : forall isent msent it zt b bits inc ob' isent' msent',
  StateRel isent msent it zt -> incl_01 p 0 -> miss_nonneg p 0 -> blk_ok b ->
  hth_block t 0 (Some b) isent msent = Ok (bits, inc, ob', isent', msent') ->
  exists b' it' zt',
    enc_block it zt b 0 = Ok (bits, inc, b', it', zt') /\ StateRel isent' msent' it' zt'.
Proof.
  intros isent msent it zt b bits inc ob' isent' msent' [HI [HM [GI GZ]]] H01 Hnn [Hinc [Hpl [Hg [Hleaf Hz]]]] H.
  destruct (incl_walk_inv p 0 Hwb Hhb isent it _ _ HI H01 Hg) as [bs1 [is1 [it1 [i1 [E1 [C1 [Hi1 [S1 HI1]]]]]]]].
  cbn [hth_block] in H. fold t in E1. rewrite E1 in H. cbn [obind] in H.
  unfold enc_block. unfold hth_block_included in Hleaf, Hz.
  destruct (layer_contribution (eb_ld b) (eb_lp b) (eb_data b) (eb_npt b) 0) as [[included np] data] eqn:ELC.
  cbn [fst] in Hleaf, Hz. rewrite Hinc. cbn [negb].
  assert (HvI : forall k, (k < n)%nat -> vid it (pid t (eb_cbx b) (eb_cby b) k)).
  { intros k Hk. destruct HI as [_ [_ HI]]. apply (HI _ _ k Hg Hk). }
  rewrite (tt_encode_cpath it _ _ (0 + 1) ltac:(apply HI) GI Hg HvI). change (0 + 1) with 1.
  change (tt_enc_nodes it (cpath w h (eb_cbx b) (eb_cby b) n) 0 1 = (bs1, it1)) in C1. rewrite C1. cbn [obind fst snd].
  assert (Ei : i1 = included).
  { destruct included; rewrite Hleaf in Hi1.
    - apply Hi1. reflexivity.
    - destruct i1; [|reflexivity]. destruct Hi1 as [Hi1 _]. specialize (Hi1 eq_refl). lia. }
  subst i1. destruct included; cbn [negb] in H |- *.
  - (* included: zero bit planes, passes, lengths *)
    destruct (miss_walk_inv p 0 Hwb Hhb msent zt _ _ 999 HM Hnn Hg (Hz eq_refl) ltac:(lia))
      as [bs2 [ms2 [zt2 [E2 [C2 [S2 HM2]]]]]].
    fold t in E2. rewrite E2 in H. cbn [obind] in H.
    assert (HvZ : forall k, (k < n)%nat -> vid zt (pid t (eb_cbx b) (eb_cby b) k)).
    { intros k Hk. destruct HM as [_ [_ HM]]. apply (HM _ _ k Hg Hk). }
    rewrite (tt_encode_cpath zt _ _ 999 ltac:(apply HM) GZ Hg HvZ).
    change (tt_enc_nodes zt (cpath w h (eb_cbx b) (eb_cby b) n) 0 999 = (bs2, zt2)) in C2. rewrite C2. cbn [obind fst snd].
    destruct (enc_numpasses np) as [bs3| | |] eqn:E3; try discriminate. cbn [obind] in H |- *.
    change (eb_lp (eb_with b true (eb_nlb b))) with (eb_lp b).
    change (eb_npt (eb_with b true (eb_nlb b))) with (eb_npt b).
    change (eb_nlb (eb_with b true (eb_nlb b))) with (eb_nlb b).
    change (block_pass_lens (eb_with b true (eb_nlb b))) with (block_pass_lens b). rewrite Hpl.
    destruct (prev_and_total_passes false (eb_lp b) (eb_npt b) 0 np) as [prev total] eqn:EP. cbn [fst] in H.
    rewrite enc_lengths_none.
    destruct (enc_lengths (eb_nlb b) (zlen data) prev np false None []) as [ln| | |] eqn:E4; try discriminate.
    cbn [obind] in H |- *. injection H as <- <- <- <- <-.
    eexists. exists it1, zt2. split; [rewrite <- app_assoc; reflexivity|].
    split; [exact HI1|]. split; [exact HM2|]. split; [apply (geo_same it it1 GI S1) | apply (geo_same zt zt2 GZ S2)].
  - (* not included *)
    injection H as <- <- <- <- <-.
    exists b, it1, zt. split; [reflexivity|].
    split; [exact HI1|]. split; [exact HM|]. split; [apply (geo_same it it1 GI S1) | exact GZ].
Qed.

(* the loop *)
Theorem blocks_agree : forall bs isent msent it zt bits incs obs',
  StateRel isent msent it zt -> incl_01 p 0 -> miss_nonneg p 0 -> Forall blk_ok bs ->
  hth_blocks t 0 (map Some bs) isent msent = Ok (bits, incs, obs') ->
  exists bl it' zt', enc_blocks it zt bs 0 = Ok (bits, incs, bl, it', zt').
Proof.
  induction bs as [|b bs IH]; intros isent msent it zt bits incs obs' HR H01 Hnn Hok H.
  - cbn in H. injection H as <- <- <-. exists [], it, zt. reflexivity.
  - cbn [map hth_blocks] in H.
    destruct (hth_block t 0 (Some b) isent msent) as [[[[[bs1 inc1] ob1] is1] ms1]| | |] eqn:E1; try discriminate.
    cbn [obind] in H.
    destruct (hth_blocks t 0 (map Some bs) is1 ms1) as [[[bs2 incs2] obs2]| | |] eqn:E2; try discriminate.
    cbn [obind] in H. injection H as <- <- <-.
    destruct (block_agrees _ _ _ _ _ _ _ _ _ _ HR H01 Hnn (Forall_inv Hok) E1) as [b' [it1 [zt1 [C1 HR1]]]].
    destruct (IH _ _ _ _ _ _ _ HR1 H01 Hnn (Forall_inv_tail Hok) E2) as [bl [it2 [zt2 C2]]].
    cbn [enc_blocks]. rewrite C1. cbn [obind]. rewrite C2. cbn [obind].
    exists (b' :: bl), it2, zt2. reflexivity.
Qed.

End BandBlocks.
