(* HTJ2K packet header (C06), general part 8: ONE block against the GLOBAL correspondence of the coder
   states (first half of item (4) of T2hProofsGenMain.v), for every band and every leaf of its grid:
     InvM   flags of encodeMissingMSBs  <->  the classic zero-bit-plane tree: every node of every walk holds
            the HTJ2K value (where that is below 255), known = sent, low = value once known
     miss_walk_inv   one encodeMissingMSBs call and one Encode(threshold) walk write the same bits and
            re-establish InvM on the WHOLE tree *)
From V Require Import Common.Base T2.T2Bio T2.T2TagTree T2.T2ProofsStore T2.T2ProofsTagTree T2.T2Header
  T2Ht.T2hModel T2Ht.T2hProofsGen1 T2Ht.T2hProofsGen2 T2Ht.T2hProofsGen3 T2Ht.T2hProofsGen4 T2Ht.T2hProofsGen5.

(* ---------- reading the flags after a walk ---------- *)

Lemma mark_shape : forall t x y sent n, shape (mark t x y sent n) = shape sent.
Proof.
  intros t x y sent n. revert sent. induction n as [|k IH]; intros sent; [reflexivity|].
  cbn [mark]. rewrite IH. apply set2_shape.
Qed.

Lemma mark_get_out : forall t x y n sent id d, (forall k, (k < n)%nat -> id <> pid t x y k) ->
  get2 (mark t x y sent n) (fst id) (snd id) d = get2 sent (fst id) (snd id) d.
Proof.
  intros t x y n. induction n as [|k IH]; intros sent id d H; [reflexivity|].
  cbn [mark]. rewrite IH by (intros j Hj; apply H; lia).
  apply get2_set2_other. intros E. apply (H k ltac:(lia)). destruct id, (pid t x y k). cbn [fst snd] in E. congruence.
Qed.

Lemma mark_get_in : forall t x y n sent k d, (k < n)%nat ->
  valid2 sent (fst (pid t x y k)) (snd (pid t x y k)) = true ->
  get2 (mark t x y sent n) (fst (pid t x y k)) (snd (pid t x y k)) d = true.
Proof.
  intros t x y n. induction n as [|m IH]; intros sent k d Hk Hv; [lia|].
  cbn [mark]. destruct (Nat.eq_dec k m) as [->|Hne].
  - rewrite mark_get_out by (intros j Hj; apply pid_neq; lia). apply get2_set2_same. exact Hv.
  - apply IH; [lia|]. rewrite valid2_set2. exact Hv.
Qed.

(* two leaves of the grid that share the node of level k share all shifted coordinates from k on *)
Lemma node_identity : forall w h x y x' y' k, 1 <= w -> 1 <= h -> 0 <= x < w -> 0 <= y < h -> 0 <= x' < w -> 0 <= y' < h ->
  hth_id w h x' y' (Z.of_nat k) = hth_id w h x y (Z.of_nat k) ->
  Z.shiftr x' (Z.of_nat k) = Z.shiftr x (Z.of_nat k) /\ Z.shiftr y' (Z.of_nat k) = Z.shiftr y (Z.of_nat k).
Proof.
  intros w h x y x' y' k Hw Hh Hx Hy Hx' Hy' E. unfold hth_id in E. injection E as E.
  destruct (hth_pos_in_level w h x y (Z.of_nat k) ltac:(lia) Hx Hy) as [PX PY].
  destruct (hth_pos_in_level w h x' y' (Z.of_nat k) ltac:(lia) Hx' Hy') as [PX' PY'].
  set (lw := fst (hth_dim w h (Z.of_nat k))) in *.
  set (X := Z.shiftr x (Z.of_nat k)) in *. set (Y := Z.shiftr y (Z.of_nat k)) in *.
  set (X' := Z.shiftr x' (Z.of_nat k)) in *. set (Y' := Z.shiftr y' (Z.of_nat k)) in *.
  change (Z.shiftr (w + Z.shiftl 1 (Z.of_nat k) - 1) (Z.of_nat k)) with lw in E.
  assert (EY : Y' = Y).
  { destruct (Z.lt_trichotomy Y' Y) as [L|[L|L]]; [exfalso|exact L|exfalso].
    - assert ((Y' + 1) * lw <= Y * lw) by (apply Z.mul_le_mono_nonneg_r; lia). lia.
    - assert ((Y + 1) * lw <= Y' * lw) by (apply Z.mul_le_mono_nonneg_r; lia). lia. }
  split; [rewrite EY in E; lia | exact EY].
Qed.

Section OneBand.
Variable p : eband.
Variable layer : Z.
Hypothesis Hwb : ebn_w p <= 2 ^ 63.
Hypothesis Hhb : ebn_h p <= 2 ^ 63.
Let t := hth_new p layer.
Let w := ht_w t.
Let h := ht_h t.
Let n := Z.to_nat (ht_levels t).

Definition in_grid2 (x y : Z) : Prop := 0 <= x < w /\ 0 <= y < h.

Lemma walk_val_same : forall row0 x y x' y' k, in_grid2 x y -> in_grid2 x' y' ->
  pid t x' y' k = pid t x y k ->
  walk_val p layer row0 x' y' k = walk_val p layer row0 x y k /\
  walk_val p layer row0 x' y' (S k) = walk_val p layer row0 x y (S k).
Proof.
  intros row0 x y x' y' k [Hx Hy] [Hx' Hy'] E.
  pose proof (new_w_pos p layer Hwb : 1 <= w <= 2 ^ 63) as Hw. pose proof (new_h_pos p layer Hhb : 1 <= h <= 2 ^ 63) as Hh.
  destruct (node_identity w h x y x' y' k ltac:(lia) ltac:(lia) Hx Hy Hx' Hy' E) as [EX EY].
  unfold walk_val. split.
  - rewrite EX, EY. reflexivity.
  - replace (Z.of_nat (S k)) with (Z.of_nat k + 1) by lia. rewrite !shiftr_succ_half by lia. rewrite EX, EY. reflexivity.
Qed.

(* walk values of the missing-MSB array *)
Definition mval (x y : Z) (k : nat) : Z := walk_val p layer (miss0 p layer) x y k.

Definition InvM (msent : list (list bool)) (zt : ttree) : Prop :=
  shape msent = shape (ht_msent t) /\ same_shapes zt /\
  forall x y k, in_grid2 x y -> (k < n)%nat ->
    let id := pid t x y k in
    vid zt id /\ nu zt id = false /\ (mval x y k < 255 -> nv zt id = mval x y k) /\
    nl zt id = (if nk zt id then mval x y k else 0) /\
    get2 msent (fst id) (snd id) false = nk zt id.

(* the leaves (every block's eb_zbp, 255 for an absent position) are not negative *)
Definition miss_nonneg : Prop := row_all (fun v => 0 <= v) w h (miss0 p layer) 0.

Lemma mval_top : forall x y, mval x y n = 0.
Proof. intros x y. unfold mval, walk_val. fold t. fold n. rewrite Nat.ltb_irrefl. reflexivity. Qed.

Lemma mval_mono : forall x y k, miss_nonneg -> in_grid2 x y -> (k < n)%nat -> mval x y (S k) <= mval x y k.
Proof.
  intros x y k Hnn [Hx Hy] Hk. pose proof (new_w_pos p layer Hwb : 1 <= w <= 2 ^ 63) as Hw. pose proof (new_h_pos p layer Hhb : 1 <= h <= 2 ^ 63) as Hh.
  unfold mval, walk_val. fold t. fold n. fold w. fold h.
  destruct (Nat.ltb_spec k n); [|lia]. destruct (Nat.ltb_spec (S k) n).
  - apply hth_parent_le; try assumption; lia.
  - destruct (hth_pos_in_level w h x y (Z.of_nat k) ltac:(lia) Hx Hy) as [PX PY].
    apply (hth_rown_lower w h (miss0 p layer) k 0 ltac:(lia) Hnn _ _ PX PY).
Qed.

Lemma mval_chain : forall x y k, miss_nonneg -> in_grid2 x y -> (k <= n)%nat -> 0 <= mval x y k <= mval x y 0.
Proof.
  intros x y k Hnn Hg Hk.
  assert (A : forall j, (j <= n)%nat -> mval x y j <= mval x y 0).
  { induction j as [|j IH]; intros Hj; [lia|]. pose proof (mval_mono x y j Hnn Hg ltac:(lia)). specialize (IH ltac:(lia)). lia. }
  assert (B : forall d j, (j + d = n)%nat -> 0 <= mval x y j).
  { induction d as [|d IH]; intros j Hj.
    - assert (j = n) by lia. subst j. rewrite mval_top. lia.
    - pose proof (mval_mono x y j Hnn Hg ltac:(lia)). specialize (IH (S j) ltac:(lia)). lia. }
  split; [apply (B (n - k)%nat); lia | apply A; exact Hk].
Qed.

Theorem miss_walk_inv : forall msent zt x y thr, InvM msent zt -> miss_nonneg -> in_grid2 x y ->
  mval x y 0 < 255 -> 255 <= thr ->
  exists bits msent' zt',
    hth_encode_missing t msent x y = Ok (bits, msent') /\
    tt_enc_nodes zt (cpath w h x y n) 0 thr = (bits, zt') /\
    enc_same zt zt' /\ InvM msent' zt'.
Proof.
  intros msent zt x y thr [Hsh [Hss Hinv]] Hnn Hg Hleaf Hthr.
  pose proof Hg as [Hx Hy].
  assert (Hpre : forall k, (k < n)%nat ->
            nu zt (cid w h x y k) = false /\ nv zt (cid w h x y k) = mval x y k /\ mval x y (S k) <= mval x y k < thr /\
            nl zt (cid w h x y k) = (if nk zt (cid w h x y k) then mval x y k else 0)).
  { intros k Hk. destruct (Hinv x y k Hg Hk) as [_ [A [B [C _]]]].
    pose proof (mval_chain x y k Hnn Hg ltac:(lia)). pose proof (mval_mono x y k Hnn Hg Hk).
    change (cid w h x y k) with (pid t x y k). repeat split; try assumption; try lia. }
  destruct (enc_nodes_set_closed w h x y (mval x y) thr n zt Hss
              ltac:(intros k Hk; apply (Hinv x y k Hg Hk)) Hpre ltac:(rewrite mval_top; lia))
    as [zt' [E [Hsame [Hpost Hframe]]]].
  rewrite mval_top in E.
  exists (miss_bits (mval x y) (fun k => nk zt (cid w h x y k)) n), (mark t x y msent n), zt'.
  split; [|split; [exact E | split; [exact Hsame|]]].
  - unfold t at 1. rewrite (hth_miss_total p layer Hwb Hhb msent x y Hsh Hx Hy). fold t. fold n. f_equal. f_equal.
    apply miss_bits_ext. intros k Hk. destruct (Hinv x y k Hg Hk) as [_ [_ [_ [_ F]]]]. exact F.
  - split; [rewrite mark_shape; exact Hsh|]. split; [apply Hsame|].
    intros x' y' k Hg' Hk. cbv zeta.
    destruct (Hinv x' y' k Hg' Hk) as [V [A [B [C F]]]].
    split; [apply (enc_same_vid zt zt' _ Hsame V)|]. split; [rewrite (enc_same_nu zt zt' _ Hsame); exact A|].
    split; [rewrite (enc_same_nv zt zt' _ Hsame); exact B|].
    destruct (Z.eq_dec (snd (pid t x' y' k)) (snd (pid t x y k))) as [Es|Ns].
    + assert (Eid : pid t x' y' k = pid t x y k).
      { destruct (pid t x' y' k) eqn:E1, (pid t x y k) eqn:E2. cbn [snd] in Es.
        apply (f_equal fst) in E1, E2. cbn [fst] in E1, E2. unfold pid, hth_id in E1, E2. cbn [fst] in E1, E2. congruence. }
      destruct (walk_val_same (miss0 p layer) x y x' y' k Hg Hg' Eid) as [W1 _]. fold (mval x' y' k) in W1. fold (mval x y k) in W1.
      rewrite Eid, W1. destruct (Hpost k Hk) as [Q1 Q2]. change (cid w h x y k) with (pid t x y k) in Q1, Q2.
      rewrite Q1, Q2. split; [reflexivity|].
      apply mark_get_in; [exact Hk|]. rewrite (valid2_shape msent (ht_msent t)) by exact Hsh.
      destruct (hth_pos_in_level w h x y (Z.of_nat k) ltac:(lia) Hx Hy) as [PX PY].
      apply (flags_valid w h (ht_levels t) k _ _ Hk PX PY).
    + assert (Hout : ~ In (pid t x' y' k) (cpath w h x y n)).
      { intros Hin. clear - Hin Ns. induction n as [|m IH]; [exact Hin|]. cbn [cpath In] in Hin. destruct Hin as [E0|Hin]; [|apply IH; exact Hin].
        destruct (Nat.eq_dec m k) as [->|Hne]; [apply Ns; change (cid w h x y k) with (pid t x y k) in E0; rewrite E0; reflexivity|].
        apply (f_equal fst) in E0. unfold cid, pid, hth_id in E0. cbn [fst] in E0. lia. }
      destruct (Hframe _ Hout) as [F1 F2]. rewrite F1, F2. split; [exact C|].
      rewrite mark_get_out; [exact F|]. intros j Hj E1. apply Hout. rewrite E1. apply (cid_in w h x y n j Hj).
Qed.

End OneBand.
