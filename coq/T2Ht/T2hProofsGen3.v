(* HTJ2K packet header (C06), general part 5: the two walks of the HTJ2K coder in closed form (first half
   of lemma group (3)), for ANY tree, ANY leaf and ANY flag state:
     hth_miss_loop_closed   encodeMissingMSBs writes, from the root down, for every node of the walk not
                            yet sent, (value - parent value) zeros and a 1, and marks the walk as sent
     hth_incl_loop_closed   encodeInclusion writes, from the root down, for every node not yet sent the bit
                            1 - (value - parent value), stops behind the first node with value > 0 and
                            reports "included" iff there is none
   `pv k` is the value of the walk's node of level k (pv levels = 0 is the virtual parent of the root),
   `sb k` its sent flag before the call. *)
From V Require Import Common.Base T2.T2TagTree T2.T2ProofsStore T2.T2Header T2Ht.T2hModel T2Ht.T2hProofsGen1.

(* ---------- option-valued two-level reads ---------- *)

Lemma nth_opt_spec : forall {A} (l : list A) i d,
  nth_opt l i = if (0 <=? i) && (i <? zlen l) then Some (znth l i d) else None.
Proof.
  intros A l i d. unfold nth_opt, znth, zlen. destruct (Z.ltb_spec i 0) as [H|H].
  - destruct (Z.leb_spec 0 i); [lia|]. reflexivity.
  - destruct (Z.leb_spec 0 i); [|lia]. cbn [andb].
    destruct (Z.ltb_spec i (Z.of_nat (length l))) as [H1|H1].
    + destruct (nth_error l (Z.to_nat i)) eqn:E.
      * f_equal. symmetry. apply nth_error_nth. exact E.
      * apply nth_error_None in E. lia.
    + assert (E : nth_error l (Z.to_nat i) = None) by (apply nth_error_None; lia). rewrite E. reflexivity.
Qed.

Lemma get2o_spec : forall {A} (l : list (list A)) lv idx d,
  get2o l lv idx = if valid2 l lv idx then Some (get2 l lv idx d) else None.
Proof.
  intros A l lv idx d. unfold get2o, valid2, get2. rewrite (nth_opt_spec l lv []).
  destruct ((0 <=? lv) && (lv <? zlen l)); cbn [andb]; [|reflexivity].
  rewrite (nth_opt_spec _ idx d). reflexivity.
Qed.

Lemma valid2_set2 : forall {A} (l : list (list A)) lv idx v lv' idx',
  valid2 (set2 l lv idx v) lv' idx' = valid2 l lv' idx'.
Proof. intros. apply valid2_shape. apply set2_shape. Qed.

Lemma get2o_set2_same : forall {A} (l : list (list A)) lv idx v s,
  get2o l lv idx = Some s -> get2o (set2 l lv idx v) lv idx = Some v.
Proof.
  intros A l lv idx v s H. rewrite (get2o_spec l lv idx v) in H. rewrite (get2o_spec _ lv idx v), valid2_set2.
  destruct (valid2 l lv idx) eqn:E; [|discriminate]. rewrite get2_set2_same by exact E. reflexivity.
Qed.

Lemma get2o_set2_other : forall {A} (l : list (list A)) lv idx v lv' idx',
  (lv, idx) <> (lv', idx') -> get2o (set2 l lv idx v) lv' idx' = get2o l lv' idx'.
Proof.
  intros A l lv idx v lv' idx' H. rewrite (get2o_spec _ lv' idx' v), (get2o_spec l lv' idx' v), valid2_set2.
  rewrite get2_set2_other by exact H. reflexivity.
Qed.

(* ---------- the walk of leaf (x, y) ---------- *)

Section Walk.
Variable t : httree.
Variables x y : Z.

(* the node of level k *)
Definition pid (k : nat) : Z * Z := hth_id (ht_w t) (ht_h t) x y (Z.of_nat k).

Lemma pid_fst : forall k, fst (pid k) = Z.of_nat k.
Proof. reflexivity. Qed.

Lemma pid_neq : forall j k, j <> k -> pid j <> pid k.
Proof. intros j k H E. apply (f_equal fst) in E. rewrite !pid_fst in E. lia. Qed.

Variable pv : nat -> Z.
Variable sb : nat -> bool.

(* ----- encodeMissingMSBs ----- *)

Fixpoint miss_bits (n : nat) : list Z :=
  match n with
  | O => []
  | S k => (if sb k then [] else repeat 0 (Z.to_nat (pv k - pv (S k))) ++ [1]) ++ miss_bits k
  end.

Fixpoint mark (sent : list (list bool)) (n : nat) : list (list bool) :=
  match n with
  | O => sent
  | S k => mark (set2 sent (fst (pid k)) (snd (pid k)) true) k
  end.

Lemma hth_miss_loop_closed_gen : forall vals n level sent, level = Z.of_nat n ->
  (forall k, (k <= n)%nat ->
     hth_value t vals (Z.of_nat k) (Z.shiftr x (Z.of_nat k)) (Z.shiftr y (Z.of_nat k)) = Some (pv k)) ->
  (forall k, (k < n)%nat -> get2o sent (fst (pid k)) (snd (pid k)) = Some (sb k)) ->
  ht_miss t = vals ->
  hth_miss_loop t n level x y sent = Ok (miss_bits n, mark sent n).
Proof.
  intros vals. induction n as [|k IH]; intros level sent Hl Hv Hs Hm; [reflexivity|].
  cbn [hth_miss_loop miss_bits mark]. subst level.
  replace (Z.of_nat (S k) - 1) with (Z.of_nat k) by lia.
  pose proof (Hs k ltac:(lia)) as Hk. unfold pid, hth_id in Hk. cbn [fst snd] in Hk. rewrite Hk.
  assert (IH' : hth_miss_loop t k (Z.of_nat k) x y
                  (set2 sent (Z.of_nat k)
                     (Z.shiftr y (Z.of_nat k) * fst (hth_dim (ht_w t) (ht_h t) (Z.of_nat k)) + Z.shiftr x (Z.of_nat k)) true)
                = Ok (miss_bits k, mark (set2 sent (fst (pid k)) (snd (pid k)) true) k)).
  { apply IH; [reflexivity | intros j Hj; apply Hv; lia | | exact Hm].
    intros j Hj. rewrite get2o_set2_other; [apply Hs; lia|].
    intros E. apply (f_equal fst) in E. cbn [fst] in E. unfold pid, hth_id in E. cbn [fst] in E. lia. }
  rewrite IH'. cbn [obind fst snd].
  destruct (sb k).
  - reflexivity.
  - rewrite Hm. rewrite (Hv k ltac:(lia)), (Hv (S k) ltac:(lia)). reflexivity.
Qed.

Theorem hth_miss_loop_closed : forall n sent,
  (forall k, (k <= n)%nat ->
     hth_value t (ht_miss t) (Z.of_nat k) (Z.shiftr x (Z.of_nat k)) (Z.shiftr y (Z.of_nat k)) = Some (pv k)) ->
  (forall k, (k < n)%nat -> get2o sent (fst (pid k)) (snd (pid k)) = Some (sb k)) ->
  hth_miss_loop t n (Z.of_nat n) x y sent = Ok (miss_bits n, mark sent n).
Proof. intros n sent Hv Hs. apply (hth_miss_loop_closed_gen (ht_miss t)); auto. Qed.

(* ----- encodeInclusion ----- *)

Fixpoint incl_res (n : nat) : list Z * bool :=
  match n with
  | O => ([], true)
  | S k =>
    let b := if sb k then [] else [1 - (pv k - pv (S k))] in
    if pv k >? 0 then (b, false) else (b ++ fst (incl_res k), snd (incl_res k))
  end.

Fixpoint imark (sent : list (list bool)) (n : nat) : list (list bool) :=
  match n with
  | O => sent
  | S k =>
    let s' := set2 sent (fst (pid k)) (snd (pid k)) true in
    if pv k >? 0 then s' else imark s' k
  end.

Theorem hth_incl_loop_closed : forall n level sent, level = Z.of_nat n ->
  (forall k, (k <= n)%nat ->
     hth_value t (ht_incl t) (Z.of_nat k) (Z.shiftr x (Z.of_nat k)) (Z.shiftr y (Z.of_nat k)) = Some (pv k)) ->
  (forall k, (k < n)%nat -> get2o sent (fst (pid k)) (snd (pid k)) = Some (sb k)) ->
  hth_incl_loop t n level x y sent = Ok (fst (incl_res n), imark sent n, snd (incl_res n)).
Proof.
  induction n as [|k IH]; intros level sent Hl Hv Hs; [reflexivity|].
  cbn [hth_incl_loop incl_res imark]. subst level.
  replace (Z.of_nat (S k) - 1) with (Z.of_nat k) by lia.
  pose proof (Hs k ltac:(lia)) as Hk. unfold pid, hth_id in Hk. cbn [fst snd] in Hk. rewrite Hk.
  rewrite (Hv k ltac:(lia)).
  assert (IH' : hth_incl_loop t k (Z.of_nat k) x y
                  (set2 sent (Z.of_nat k)
                     (Z.shiftr y (Z.of_nat k) * fst (hth_dim (ht_w t) (ht_h t) (Z.of_nat k)) + Z.shiftr x (Z.of_nat k)) true)
                = Ok (fst (incl_res k), imark (set2 sent (fst (pid k)) (snd (pid k)) true) k, snd (incl_res k))).
  { apply IH; [reflexivity | intros j Hj; apply Hv; lia | ].
    intros j Hj. rewrite get2o_set2_other; [apply Hs; lia|].
    intros E. apply (f_equal fst) in E. cbn [fst] in E. unfold pid, hth_id in E. cbn [fst] in E. lia. }
  destruct (sb k).
  - destruct (pv k >? 0); [reflexivity|]. rewrite IH'. reflexivity.
  - rewrite (Hv (S k) ltac:(lia)). destruct (pv k >? 0); [reflexivity|]. rewrite IH'. reflexivity.
Qed.

End Walk.

(* extensionality in the flags / values actually read *)
Lemma miss_bits_ext : forall pv sb sb' n, (forall k, (k < n)%nat -> sb k = sb' k) ->
  miss_bits pv sb n = miss_bits pv sb' n.
Proof.
  intros pv sb sb' n. induction n as [|k IH]; intros H; [reflexivity|]. cbn [miss_bits].
  rewrite (H k ltac:(lia)), IH by (intros j Hj; apply H; lia). reflexivity.
Qed.

Lemma incl_res_ext : forall pv sb sb' n, (forall k, (k < n)%nat -> sb k = sb' k) ->
  incl_res pv sb n = incl_res pv sb' n.
Proof.
  intros pv sb sb' n. induction n as [|k IH]; intros H; [reflexivity|]. cbn [incl_res].
  rewrite (H k ltac:(lia)), IH by (intros j Hj; apply H; lia). reflexivity.
Qed.

(* "included" iff every node of the walk has value <= 0 *)
Lemma incl_res_included : forall pv sb n,
  snd (incl_res pv sb n) = true <-> (forall k, (k < n)%nat -> pv k <= 0).
Proof.
  intros pv sb n. induction n as [|k IH]; cbn [incl_res].
  - split; [intros _ k Hk; lia | reflexivity].
  - destruct (Z.gtb_spec (pv k) 0) as [H|H]; cbn [snd].
    + split; [discriminate | intros G; specialize (G k ltac:(lia)); lia].
    + rewrite IH. split; intros G j Hj.
      * destruct (Nat.eq_dec j k) as [->|]; [exact H | apply G; lia].
      * apply G. lia.
Qed.
