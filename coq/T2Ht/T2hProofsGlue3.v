(* HTJ2K vs classic packet-header coder (C06): exhaustive comparison, domain D3 (two or three bands,
   each without code-blocks or a grid of at most two positions; 4 block kinds): every pattern of
   leading / middle / trailing bands without contribution, and the packets without contribution *)
From V Require Import Common.Base T2.T2Header T2Ht.T2hModel T2Ht.T2hSpec T2Ht.T2hProofsSmall T2Ht.T2hProofsGlue.

Lemma glue_dom3_checked : forallb glue_check dom3 = true.
Proof. vm_compute. reflexivity. Qed.
