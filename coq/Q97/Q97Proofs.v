(* C12 — JPEG 2000 irreversible quantisation: QCD step fields, dead-zone quantiser error,
   linear propagation bound, clamp, and the end-to-end statement with the float transforms as
   named Section hypotheses. *)
From Coq Require Import QArith Qround Qabs Lqa.
From V Require Import Common.Base Q97.Q97Model.

Ltac b2p :=
  repeat match goal with
  | H : (_ <=? _)%Z = true |- _ => apply Z.leb_le in H
  | H : (_ <? _)%Z = true |- _ => apply Z.ltb_lt in H
  | H : (_ =? _)%Z = true |- _ => apply Z.eqb_eq in H
  | H : (_ && _)%bool = true |- _ => apply andb_prop in H; destruct H
  end.

Definition zseq (n : nat) : list Z := map Z.of_nat (seq 0 n).
Lemma In_zseq : forall n x, (0 <= x < Z.of_nat n)%Z -> In x (zseq n).
Proof.
  intros n x Hx. unfold zseq. replace x with (Z.of_nat (Z.to_nat x)) by lia.
  apply in_map. apply in_seq. lia.
Qed.

(* =====================================================================================
   1. qcd_step_roundtrip
   ===================================================================================== *)
Open Scope Z_scope.

(* 1a. every 5-bit exponent x 11-bit mantissa: pack -> big-endian bytes -> join -> unpack *)
Definition fields_ok (e m : Z) : bool :=
  let enc := q97_pack e m in
  let '(h, l) := q97_bytes enc in
  is_byte h && is_byte l && (q97_join h l =? enc) &&
  (let '(e', m') := q97_unpack (q97_join h l) in (e' =? e) && (m' =? m)).

Theorem qcd_fields_roundtrip : forall e m, 0 <= e < 32 -> 0 <= m < 2048 ->
  let enc := q97_pack e m in
  let '(h, l) := q97_bytes enc in
  0 <= h < 256 /\ 0 <= l < 256 /\ q97_join h l = enc /\ q97_unpack (q97_join h l) = (e, m).
Proof.
  intros e m He Hm.
  assert (H : forallb (fun e => forallb (fields_ok e) (zseq 2048)) (zseq 32) = true) by (vm_compute; reflexivity).
  pose proof (proj1 (forallb_forall _ _) H e (In_zseq 32 e ltac:(change (Z.of_nat 32) with 32; lia))) as H1. cbv beta in H1.
  pose proof (proj1 (forallb_forall _ _) H1 m (In_zseq 2048 m ltac:(change (Z.of_nat 2048) with 2048; lia))) as H2.
  unfold fields_ok in H2. cbv zeta in *.
  destruct (q97_bytes (q97_pack e m)) as [h l].
  destruct (q97_unpack (q97_join h l)) as [e' m'].
  unfold is_byte in H2. b2p. subst. repeat split; lia.
Qed.

(* 1b. every representable fixed value (1 <= fixed < 2^31, as int32(floor(step*8192)) delivers),
   exponent field not clamped: the decoded step (gain 0, rb = numbps) is at most the requested
   step fixed/8192 and misses it by less than one unit of the 11-bit mantissa; it is exact
   whenever fixed has at most 12 significant bits. Units: 2^-48. *)
Theorem qcd_step_within_ulp : forall fixed numbps,
  1 <= fixed < 2 ^ 31 -> 0 <= numbps ->
  0 <= numbps - (Z.log2 fixed - 13) <= 31 ->
  let '(e, m) := q97_encode_fields fixed numbps in
  0 <= e < 32 /\ 0 <= m < 2048 /\
  q97_step_u48 e m numbps <= fixed * 2 ^ 35 < q97_step_u48 e m numbps + q97_ulp_u48 e numbps /\
  (Z.log2 fixed <= 11 -> q97_step_u48 e m numbps = fixed * 2 ^ 35).
Proof.
  intros fixed numbps Hf Hn He.
  unfold q97_encode_fields, q97_fix.
  destruct (Z.leb_spec fixed 0) as [?|_]; [lia|].
  set (l := Z.log2 fixed) in *.
  destruct (Z.log2_spec fixed ltac:(lia)) as [Hlo Hhi]. fold l in Hlo, Hhi.
  assert (Hl0 : 0 <= l) by (apply Z.log2_nonneg).
  assert (Hl30 : l <= 30).
  { assert (l < 31); [|lia]. apply Z.log2_lt_pow2; lia. }
  set (expn := numbps - (l - 13)) in *.
  destruct (Z.ltb_spec expn 0) as [?|_]; [lia|]. destruct (Z.gtb_spec expn 31) as [?|_]; [lia|].
  assert (Hexp : numbps - expn - 11 + 48 = l + 24) by (unfold expn; ring).
  unfold q97_step_u48, q97_ulp_u48. rewrite Hexp.
  destruct (Z.ltb_spec (11 - l) 0) as [Hbig|Hsmall].
  - (* l >= 12 : mantissa = top 12 bits, truncated *)
    replace (- (11 - l)) with (l - 11) by ring.
    rewrite Z.shiftr_div_pow2 by lia.
    set (a := 2 ^ (l - 11)). assert (Ha : 0 < a) by (apply Z.pow_pos_nonneg; lia).
    assert (E2l : 2 ^ l = 2048 * a).
    { unfold a. change 2048 with (2 ^ 11). rewrite <- Z.pow_add_r by lia. f_equal. ring. }
    assert (E2l1 : 2 ^ Z.succ l = 4096 * a).
    { rewrite Z.pow_succ_r by lia. lia. }
    set (M := fixed / a).
    assert (HM : 2048 <= M < 4096).
    { unfold M. split; [apply Z.div_le_lower_bound; lia | apply Z.div_lt_upper_bound; lia]. }
    assert (Hdm : a * M <= fixed < a * M + a).
    { unfold M. pose proof (Z.div_mod fixed a ltac:(lia)). pose proof (Z.mod_pos_bound fixed a Ha). lia. }
    assert (Eland : Z.land M 2047 = M - 2048).
    { change 2047 with (Z.ones 11). rewrite Z.land_ones by lia. change (2 ^ 11) with 2048.
      symmetry. apply Z.mod_unique with (q := 1); lia. }
    rewrite Eland. replace (2048 + (M - 2048)) with M by ring.
    assert (Ep : 2 ^ (l + 24) = a * 2 ^ 35).
    { unfold a. rewrite <- Z.pow_add_r by lia. f_equal. ring. }
    rewrite Ep. assert (0 < 2 ^ 35) by reflexivity.
    split; [lia|]. split; [lia|]. split; [nia|]. intro; lia.
  - (* l <= 11 : mantissa exact *)
    set (n := 11 - l) in *.
    rewrite Z.shiftl_mul_pow2 by lia.
    assert (Hpn : 0 < 2 ^ n) by (apply Z.pow_pos_nonneg; lia).
    assert (E2048 : 2 ^ l * 2 ^ n = 2048).
    { rewrite <- Z.pow_add_r by lia. unfold n. replace (l + (11 - l)) with 11 by ring. reflexivity. }
    set (M := fixed * 2 ^ n).
    assert (HM : 2048 <= M < 4096).
    { unfold M. rewrite Z.pow_succ_r in Hhi by lia. nia. }
    assert (Ews : wrapS 32 M = M).
    { unfold wrapS. change (2 ^ 32) with 4294967296. change (2 ^ (32 - 1)) with 2147483648.
      rewrite Z.mod_small by lia. destruct (Z.ltb_spec M 2147483648); lia. }
    rewrite Ews.
    assert (Eland : Z.land M 2047 = M - 2048).
    { change 2047 with (Z.ones 11). rewrite Z.land_ones by lia. change (2 ^ 11) with 2048.
      symmetry. apply Z.mod_unique with (q := 1); lia. }
    rewrite Eland. replace (2048 + (M - 2048)) with M by ring.
    assert (Ep : M * 2 ^ (l + 24) = fixed * 2 ^ 35).
    { unfold M. rewrite <- Z.mul_assoc. rewrite <- Z.pow_add_r by lia. f_equal. f_equal. unfold n. ring. }
    rewrite Ep. assert (0 < 2 ^ (l + 24)) by (apply Z.pow_pos_nonneg; lia).
    split; [lia|]. split; [lia|]. split; [lia|]. intro; reflexivity.
Qed.

(* =====================================================================================
   4. clamp_in_range
   ===================================================================================== *)
Theorem clamp_in_range : forall signed bitDepth val, 1 <= bitDepth ->
  (if signed : bool then - 2 ^ (bitDepth - 1) <= q97_clamp signed bitDepth val <= 2 ^ (bitDepth - 1) - 1
   else 0 <= q97_clamp signed bitDepth val <= 2 ^ bitDepth - 1) /\
  0 <= q97_store signed bitDepth val < 2 ^ bitDepth.
Proof.
  intros signed bd val Hbd.
  assert (Hp : 0 < 2 ^ (bd - 1)) by (apply Z.pow_pos_nonneg; lia).
  assert (E : 2 ^ bd = 2 * 2 ^ (bd - 1)).
  { replace bd with (1 + (bd - 1)) at 1 by ring. rewrite Z.pow_add_r by lia. reflexivity. }
  unfold q97_store, q97_clamp. destruct signed; cbn [andb].
  - destruct (Z.ltb_spec val (- 2 ^ (bd - 1))); [|destruct (Z.gtb_spec val (2 ^ (bd - 1) - 1))];
      (split; [lia|]); match goal with |- context [?v <? 0] => destruct (Z.ltb_spec v 0) end; lia.
  - destruct (Z.ltb_spec val 0); [|destruct (Z.gtb_spec val (2 ^ bd - 1))]; split; lia.
Qed.

(* =====================================================================================
   2. deadzone_error
   ===================================================================================== *)
Open Scope Q_scope.

Lemma Qabs_le_iff : forall x y : Q, Qabs x <= y <-> - y <= x <= y.
Proof. intros; apply Qabs_Qle_condition. Qed.

Lemma qsign_abs : forall x : Q, x == (qsign x # 1) * Qabs x.
Proof.
  intro x. unfold qsign. destruct (Qlt_le_dec x 0) as [H|H].
  - rewrite Qabs_neg by lra. lra.
  - rewrite Qabs_pos by lra. lra.
Qed.

Lemma inject_Z_mult : forall a b : Z, (a * b # 1) == (a # 1) * (b # 1).
Proof. intros. unfold Qeq, Qmult; simpl. ring. Qed.
Lemma inject_Z_plus1 : forall a : Z, (a + 1 # 1) == (a # 1) + 1.
Proof. intros. unfold Qeq, Qplus; simpl. ring. Qed.

Lemma floor_bounds : forall a : Q, (Qfloor a # 1) <= a /\ a < (Qfloor a # 1) + 1.
Proof.
  intro a. split; [apply Qfloor_le|]. rewrite <- inject_Z_plus1. apply Qlt_floor.
Qed.

Lemma Qle_Z : forall a b : Z, (a <= b)%Z -> (a # 1) <= (b # 1).
Proof. intros a b H. unfold Qle; simpl. lia. Qed.
Lemma Qlt_Z_inv : forall a b : Z, (a # 1) < (b # 1) -> (a < b)%Z.
Proof. intros a b H. unfold Qlt in H; simpl in H. lia. Qed.

(* the mathematical dead-zone quantiser with mid-point reconstruction:
   |x - deq(q(x))| <= D always (strictly less inside the dead zone), and <= D/2 whenever q <> 0 *)
Theorem deadzone_error : forall x D : Q, 0 < D ->
  Qabs (x - dz_deq (dz_quant x D) D) <= D /\
  (dz_quant x D <> 0%Z -> Qabs (x - dz_deq (dz_quant x D) D) <= D / 2).
Proof.
  intros x D HD. unfold dz_quant, dz_deq.
  set (a := Qabs x / D). set (f := Qfloor a).
  destruct (floor_bounds a) as [Hf1 Hf2]. fold f in Hf1, Hf2.
  assert (Ha0 : 0 <= a).
  { unfold a. apply Qle_shift_div_l; [exact HD|]. rewrite Qmult_0_l. apply Qabs_nonneg. }
  assert (HaD : Qabs x == a * D) by (unfold a; field; lra).
  assert (Hf0 : (0 <= f)%Z).
  { assert ((-1 # 1) < (f # 1)) by lra. apply Qlt_Z_inv in H. lia. }
  pose proof (qsign_abs x) as Hx.
  assert (Hs : (qsign x = 1 \/ qsign x = -1)%Z) by (unfold qsign; destruct (Qlt_le_dec x 0); auto).
  destruct (Z.eqb_spec (qsign x * f) 0) as [Hz|Hnz].
  - (* dead zone: f = 0 *)
    assert (f = 0%Z) by (destruct Hs as [E|E]; rewrite E in Hz; lia).
    split; [|intro; contradiction].
    setoid_replace (x - 0) with x by ring. rewrite HaD.
    assert ((f # 1) == 0) by (rewrite H; reflexivity). nra.
  - assert (Hfpos : (1 <= f)%Z) by (destruct Hs as [E|E]; rewrite E in Hnz; lia).
    assert (Hf1' : 1 <= (f # 1)) by (apply (Qle_Z 1 f); exact Hfpos).
    assert (Esgn : (Z.sgn (qsign x * f) = qsign x)%Z) by (destruct Hs as [E|E]; rewrite E; lia).
    assert (Eabs : (Z.abs (qsign x * f) = f)%Z) by (destruct Hs as [E|E]; rewrite E; lia).
    rewrite Esgn, Eabs.
    assert (Hcore : Qabs (x - (qsign x # 1) * ((f # 1) + (1 # 2)) * D) <= D / 2).
    { rewrite Hx at 1. rewrite HaD.
      setoid_replace ((qsign x # 1) * (a * D) - (qsign x # 1) * ((f # 1) + (1 # 2)) * D)
        with ((qsign x # 1) * ((a - (f # 1) - (1 # 2)) * D)) by ring.
      rewrite Qabs_Qmult.
      assert (Es1 : Qabs (qsign x # 1) == 1) by (destruct Hs as [E|E]; rewrite E; reflexivity).
      rewrite Es1, Qmult_1_l. apply Qabs_le_iff. split.
      + setoid_replace (- (D / 2)) with ((- (1 # 2)) * D) by field. nra.
      + setoid_replace (D / 2) with ((1 # 2) * D) by field. nra. }
    split; [|intros _; exact Hcore].
    apply Qle_trans with (D / 2); [exact Hcore|].
    setoid_replace (D / 2) with ((1 # 2) * D) by field. nra.
Qed.

(* ---- the quantiser as coded: RoundToEven(x/D*64), six fractional bit-planes dropped ---- *)
Lemma rne_half : forall r : Q, - (1 # 2) <= (q_rne r # 1) - r <= (1 # 2).
Proof.
  intro r. unfold q_rne. set (f := Qfloor r).
  destruct (floor_bounds r) as [H1 H2]. fold f in H1, H2.
  destruct (Qcompare (r - (f # 1)) (1 # 2)) eqn:E.
  - apply Qeq_alt in E. destruct (Z.even f); [lra|]. rewrite inject_Z_plus1. lra.
  - apply Qlt_alt in E. lra.
  - apply Qgt_alt in E. rewrite inject_Z_plus1. lra.
Qed.

Lemma scale_bound : forall u c D : Q, 0 < D -> - c <= u <= c -> Qabs (u * D) <= c * D.
Proof. intros u c D HD [H1 H2]. apply Qabs_le_iff. split; nra. Qed.

Lemma inject_Z_64k : forall k : Z, (64 * k # 1) == (64 # 1) * (k # 1).
Proof. intro. apply inject_Z_mult. Qed.
Lemma inject_Z_64k63 : forall k : Z, (64 * k + 63 # 1) == (64 # 1) * (k # 1) + (63 # 1).
Proof. intro. unfold Qeq, Qplus, Qmult; simpl. ring. Qed.

Theorem deadzone_error_code : forall x D : Q, 0 < D ->
  Qabs (x - dz_deq (dz_quant_code x D) D) <= D /\
  (dz_quant_code x D <> 0%Z -> Qabs (x - dz_deq (dz_quant_code x D) D) <= (65 # 128) * D).
Proof.
  intros x D HD. unfold dz_quant_code, q97_trunc6, dz_deq.
  set (r := x / D * (64 # 1)).
  assert (Hx : x == r * D / (64 # 1)) by (unfold r; field; lra).
  pose proof (rne_half r) as Hr. set (v := q_rne r) in *.
  rewrite Z.shiftr_div_pow2 by lia. change (2 ^ 6)%Z with 64%Z.
  set (k := (Z.abs v / 64)%Z).
  assert (Hk : (64 * k <= Z.abs v <= 64 * k + 63)%Z).
  { unfold k. pose proof (Z.div_mod (Z.abs v) 64 ltac:(lia)). pose proof (Z.mod_pos_bound (Z.abs v) 64 ltac:(lia)). lia. }
  assert (Hk0 : (0 <= k)%Z) by (unfold k; apply Z.div_pos; lia).
  destruct (Z.eqb_spec (Z.sgn v * k) 0) as [Hz|Hnz].
  - (* index 0: |v| <= 63 *)
    split; [|intro; contradiction].
    assert (Hv : (Z.abs v <= 63)%Z).
    { destruct (Z.eq_dec k 0) as [->|Hk1]; [lia|]. assert (Z.sgn v = 0)%Z by nia. apply Z.sgn_null_iff in H. subst v. simpl. lia. }
    assert (Hvq : - (63 # 1) <= (v # 1) <= (63 # 1)).
    { split; [apply (Qle_Z (-63) v) | apply (Qle_Z v 63)]; lia. }
    setoid_replace (x - 0) with x by ring. rewrite Hx.
    setoid_replace (r * D / (64 # 1)) with (r / (64 # 1) * D) by (field).
    setoid_replace D with (1 * D) at 2 by ring.
    apply scale_bound; [exact HD|].
    split; [apply Qle_shift_div_l; [reflexivity|]; lra | apply Qle_shift_div_r; [reflexivity|]; lra].
  - assert (Hk1 : (1 <= k)%Z) by nia.
    assert (Hvn : v <> 0%Z) by (intro E; rewrite E in Hnz; simpl in Hnz; lia).
    assert (Esgn : (Z.sgn (Z.sgn v * k) = Z.sgn v)%Z).
    { destruct (Z.lt_trichotomy v 0) as [Hv|[Hv|Hv]]; [|contradiction|].
      - rewrite (Z.sgn_neg v Hv). lia.
      - rewrite (Z.sgn_pos v Hv). lia. }
    assert (Eabs : (Z.abs (Z.sgn v * k) = k)%Z).
    { destruct (Z.lt_trichotomy v 0) as [Hv|[Hv|Hv]]; [|contradiction|].
      - rewrite (Z.sgn_neg v Hv). lia.
      - rewrite (Z.sgn_pos v Hv). lia. }
    rewrite Esgn, Eabs.
    assert (Hcore : Qabs (x - (Z.sgn v # 1) * ((k # 1) + (1 # 2)) * D) <= (65 # 128) * D).
    { rewrite Hx.
      destruct (Z.lt_trichotomy v 0) as [Hv|[Hv|Hv]]; [|contradiction|].
      - rewrite (Z.sgn_neg v Hv). rewrite Z.abs_neq in Hk by lia.
        assert (A1 : (64 # 1) * (k # 1) <= - (v # 1)).
        { rewrite <- inject_Z_64k. setoid_replace (- (v # 1)) with (- v # 1) by (unfold Qeq, Qopp; simpl; ring).
          apply Qle_Z. lia. }
        assert (A2 : - (v # 1) <= (64 # 1) * (k # 1) + (63 # 1)).
        { rewrite <- inject_Z_64k63. setoid_replace (- (v # 1)) with (- v # 1) by (unfold Qeq, Qopp; simpl; ring).
          apply Qle_Z. lia. }
        setoid_replace (r * D / (64 # 1) - (-1 # 1) * ((k # 1) + (1 # 2)) * D)
          with ((r / (64 # 1) + (k # 1) + (1 # 2)) * D) by field.
        apply scale_bound; [exact HD|].
        assert (B : r / (64 # 1) == r * (1 # 64)) by field. rewrite B. lra.
      - rewrite (Z.sgn_pos v Hv). rewrite Z.abs_eq in Hk by lia.
        assert (A1 : (64 # 1) * (k # 1) <= (v # 1)) by (rewrite <- inject_Z_64k; apply Qle_Z; lia).
        assert (A2 : (v # 1) <= (64 # 1) * (k # 1) + (63 # 1)) by (rewrite <- inject_Z_64k63; apply Qle_Z; lia).
        setoid_replace (r * D / (64 # 1) - (1 # 1) * ((k # 1) + (1 # 2)) * D)
          with ((r / (64 # 1) - (k # 1) - (1 # 2)) * D) by field.
        apply scale_bound; [exact HD|].
        assert (B : r / (64 # 1) == r * (1 # 64)) by field. rewrite B. lra. }
    split; [|intros _; exact Hcore].
    apply Qle_trans with ((65 # 128) * D); [exact Hcore|]. nra.
Qed.

(* =====================================================================================
   3. C12_bound_linear  (same triangle-inequality core as JpegDCT.DctProofsC.C11_bound_linear,
      restated here with |e_k| <= D_k instead of Q_k/2 so the two areas stay independent)
   ===================================================================================== *)
Record lterm : Type := { lg : Q; le : Q; lw : Q; ld : Q }.
Definition lsum_ge (l : list lterm) : Q := fold_right (fun t acc => lg t * le t + acc) 0 l.
Definition lsum_wd (l : list lterm) : Q := fold_right (fun t acc => lw t * ld t + acc) 0 l.

Theorem C12_bound_linear : forall l : list lterm,
  Forall (fun t => Qabs (lg t) <= lw t /\ Qabs (le t) <= ld t) l ->
  Qabs (lsum_ge l) <= lsum_wd l.
Proof.
  induction l as [|t l IH]; intros HF.
  - simpl. unfold Qle; simpl; lia.
  - inversion HF as [|t' l' [Hg He] HF']; subst.
    cbn [lsum_ge lsum_wd fold_right]. fold (lsum_ge l). fold (lsum_wd l).
    apply Qle_trans with (Qabs (lg t * le t) + Qabs (lsum_ge l)); [apply Qabs_triangle|].
    apply Qplus_le_compat; [|apply IH; assumption].
    rewrite Qabs_Qmult.
    pose proof (Qabs_nonneg (lg t)). pose proof (Qabs_nonneg (le t)). nra.
Qed.

(* =====================================================================================
   5. C12_bound_partial
   ===================================================================================== *)
Lemma clamp_toward : forall (signed : bool) (bd y : Z) (t : Q), (1 <= bd)%Z ->
  (if signed then (- 2 ^ (bd - 1) # 1) <= t /\ t <= (2 ^ (bd - 1) - 1 # 1)
   else 0 <= t /\ t <= (2 ^ bd - 1 # 1)) ->
  Qabs ((q97_clamp signed bd y # 1) - t) <= Qabs ((y # 1) - t).
Proof.
  intros signed bd y t Hbd Ht. unfold q97_clamp. destruct signed.
  - destruct Ht as [T1 T2].
    destruct (Z.ltb_spec y (- 2 ^ (bd - 1))) as [H|H].
    + assert ((y # 1) <= (- 2 ^ (bd - 1) # 1)) by (apply Qle_Z; lia).
      rewrite !Qabs_neg by lra. lra.
    + destruct (Z.gtb_spec y (2 ^ (bd - 1) - 1)) as [H'|H']; [|apply Qle_refl].
      assert ((2 ^ (bd - 1) - 1 # 1) <= (y # 1)) by (apply Qle_Z; lia).
      rewrite !Qabs_pos by lra. lra.
  - destruct Ht as [T1 T2].
    destruct (Z.ltb_spec y 0) as [H|H].
    + assert ((y # 1) <= 0) by (apply (Qle_Z y 0); lia).
      rewrite !Qabs_neg by lra. lra.
    + destruct (Z.gtb_spec y (2 ^ bd - 1)) as [H'|H']; [|apply Qle_refl].
      assert ((2 ^ bd - 1 # 1) <= (y # 1)) by (apply Qle_Z; lia).
      rewrite !Qabs_pos by lra. lra.
Qed.

Section C12_partial.
  (* Everything the theorem does NOT prove about the float 9/7 pipeline enters here, by name. *)
  Variable npix : nat.                           (* output samples are 0 .. npix-1 *)
  Variable ks : list nat.                        (* the coefficient positions of the tile-component(s) *)
  Variable analysis : (nat -> Q) -> nat -> Q.    (* level shift + ICT + forward 9/7 as executed (float) *)
  Variable synthesis : (nat -> Q) -> nat -> Q.   (* inverse 9/7 + inverse ICT + level unshift as executed *)
  Variable G : nat -> nat -> Q.                  (* response of output sample p to coefficient k *)
  Variable w : nat -> nat -> Q.                  (* the absolute synthesis weights the bound uses *)
  Variable D : nat -> Q.                         (* step size declared in QCD for coefficient k's band *)
  Variable eps : Q.                              (* the fixed allowance for the float transform pair *)
  Variable quant : Q -> Q -> Z.                  (* the quantiser, with its proven error bound *)

  Hypothesis H_synthesis_linear : forall c c' p, (p < npix)%nat ->
    synthesis c p - synthesis c' p == fold_right (fun k acc => G p k * (c k - c' k) + acc) 0 ks.
  Hypothesis H_synthesis_weights : forall p k, Qabs (G p k) <= w p k.
  Hypothesis H_pair_near_identity : forall img p, (p < npix)%nat -> Qabs (synthesis (analysis img) p - img p) <= eps.
  Hypothesis H_steps_positive : forall k, In k ks -> 0 < D k.
  Hypothesis H_quant_error : forall x d, 0 < d -> Qabs (x - dz_deq (quant x d) d) <= d.

  Definition dequantised (img : nat -> Q) (k : nat) : Q := dz_deq (quant (analysis img k) (D k)) (D k).
  Definition declared_bound (p : nat) : Q := fold_right (fun k acc => w p k * D k + acc) 0 ks.

  Lemma fold_as_lsum : forall (c c' : nat -> Q) p l,
    fold_right (fun k acc => G p k * (c k - c' k) + acc) 0 l ==
    lsum_ge (map (fun k => {| lg := G p k; le := c k - c' k; lw := w p k; ld := D k |}) l).
  Proof. induction l as [|k l IH]; [reflexivity|]. cbn [fold_right map lsum_ge lg le]. fold (lsum_ge (map (fun k => {| lg := G p k; le := c k - c' k; lw := w p k; ld := D k |}) l)). rewrite IH. reflexivity. Qed.

  Lemma bound_as_lsum : forall (c c' : nat -> Q) p l,
    fold_right (fun k acc => w p k * D k + acc) 0 l ==
    lsum_wd (map (fun k => {| lg := G p k; le := c k - c' k; lw := w p k; ld := D k |}) l).
  Proof. induction l as [|k l IH]; [reflexivity|]. cbn [fold_right map lsum_wd lw ld]. fold (lsum_wd (map (fun k => {| lg := G p k; le := c k - c' k; lw := w p k; ld := D k |}) l)). rewrite IH. reflexivity. Qed.

  (* before the final rounding: synthesis of the dequantised coefficients is within
     sum_k w(p,k) D_k + eps of the source sample *)
  Lemma C12_presample_bound : forall img p, (p < npix)%nat ->
    Qabs (synthesis (dequantised img) p - img p) <= declared_bound p + eps.
  Proof.
    intros img p Hp.
    setoid_replace (synthesis (dequantised img) p - img p)
      with ((synthesis (dequantised img) p - synthesis (analysis img) p) + (synthesis (analysis img) p - img p)) by ring.
    apply Qle_trans with (Qabs (synthesis (dequantised img) p - synthesis (analysis img) p) + Qabs (synthesis (analysis img) p - img p));
      [apply Qabs_triangle|].
    apply Qplus_le_compat; [|apply H_pair_near_identity; exact Hp].
    rewrite (H_synthesis_linear _ _ p Hp). unfold declared_bound.
    rewrite (fold_as_lsum (dequantised img) (analysis img) p ks).
    rewrite (bound_as_lsum (dequantised img) (analysis img) p ks).
    apply C12_bound_linear. apply Forall_forall. intros t Ht.
    apply in_map_iff in Ht. destruct Ht as [k [<- Hk]]. cbn [lg le lw ld].
    split; [apply H_synthesis_weights|].
    unfold dequantised.
    setoid_replace (dz_deq (quant (analysis img k) (D k)) (D k) - analysis img k)
      with (- (analysis img k - dz_deq (quant (analysis img k) (D k)) (D k))) by ring.
    rewrite Qabs_opp. apply H_quant_error. apply H_steps_positive. exact Hk.
  Qed.

  (* C12_bound_partial: the decoded sample — ANY integer within 1/2 of the synthesis output (the
     decoder's float->int rounding), then clamped to the declared range by getGrayscalePixelData —
     differs from a source sample inside the declared range by at most
     sum_k w(p,k) D_k  +  eps  +  1/2, and lies in the declared range. *)
  Theorem C12_bound_partial : forall (signed : bool) (bd : Z) img p (rounded : Z),
    (p < npix)%nat -> (1 <= bd)%Z ->
    (if signed then (- 2 ^ (bd - 1) # 1) <= img p /\ img p <= (2 ^ (bd - 1) - 1 # 1)
     else 0 <= img p /\ img p <= (2 ^ bd - 1 # 1)) ->
    Qabs ((rounded # 1) - synthesis (dequantised img) p) <= 1 # 2 ->
    let out := q97_clamp signed bd rounded in
    Qabs ((out # 1) - img p) <= declared_bound p + eps + (1 # 2) /\
    (if signed then (- 2 ^ (bd - 1) <= out <= 2 ^ (bd - 1) - 1)%Z else (0 <= out <= 2 ^ bd - 1)%Z).
  Proof.
    intros signed bd img p rounded Hp Hbd Hrange Hround. cbv zeta. split.
    - apply Qle_trans with (Qabs ((rounded # 1) - img p)); [apply clamp_toward; assumption|].
      setoid_replace ((rounded # 1) - img p)
        with (((rounded # 1) - synthesis (dequantised img) p) + (synthesis (dequantised img) p - img p)) by ring.
      apply Qle_trans with (Qabs ((rounded # 1) - synthesis (dequantised img) p) + Qabs (synthesis (dequantised img) p - img p));
        [apply Qabs_triangle|].
      pose proof (C12_presample_bound img p Hp). lra.
    - exact (proj1 (clamp_in_range signed bd rounded Hbd)).
  Qed.
End C12_partial.
