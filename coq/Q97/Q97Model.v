(* EXTRACT *)
(* JPEG 2000 irreversible (9/7) quantisation: models of
     jpeg2000/quantization.go     encodeQuantizationStep (on the integer `fixed` = floor(step*8192)),
                                  decodeQuantizationStepWithGain / t2 decodeQuantStep (exact dyadic)
     jpeg2000/encoder.go          writeQCD (style 2: 16-bit big-endian SPqcd), quantizeSubbandFloat
                                  (RoundToEven(x / D * 64)) followed by T1's 6 fractional bit-planes
                                  that are never coded (loop `bitplane >= nmseDecFracBits`)
     jpeg2000/t2/tile_decoder.go  decodeQuantizationSteps (style 2), dequantizeSubbandFloat
                                  (0.5 * step * (2|q|+1): T1 with OpenJPEG reconstruction returns
                                  2|q|+1 for a non-zero index) — mid-point reconstruction
     jpeg2000/decoder.go          getGrayscalePixelData clamp and byte packing
   Floating point: step*8192, qualityScale (math.Pow) and the float32 division x/D are NOT modelled;
   the integer `fixed` and the quantiser over exact rationals are. A decoded step (1+mant/2048)*2^e
   has a 12-bit significand, so its float64 -> float32 -> float64 round trip in
   OpenJPEGRuntimeQuantizationSteps is exact. *)
From Coq Require Import QArith Qround Qabs.
From V Require Import Common.Base.

(* ---------- step size fields ---------- *)
(* fixed >= 1 (the code replaces fixed <= 0 by 1). log2 := bits.Len32(fixed) - 1 *)
Definition q97_fix (fixed : Z) : Z := if fixed <=? 0 then 1 else fixed.
Definition q97_encode_fields (fixed0 numbps : Z) : Z * Z :=
  let fixed := q97_fix fixed0 in
  let l := Z.log2 fixed in
  let p := l - 13 in
  let n := 11 - l in
  let mant := if n <? 0 then Z.shiftr fixed (- n) else wrapS 32 (Z.shiftl fixed n) in
  let mant := Z.land mant 2047 in
  let expn := numbps - p in
  let expn := if expn <? 0 then 0 else if expn >? 31 then 31 else expn in
  (expn, mant).
(* uint16((expn << 11) | int(mant)) *)
Definition q97_pack (expn mant : Z) : Z := wrapU 16 (Z.lor (Z.shiftl expn 11) mant).
Definition q97_encode (fixed numbps : Z) : Z :=
  let '(e, m) := q97_encode_fields fixed numbps in q97_pack e m.
(* decoder: expn = (encoded >> 11) & 0x1f ; mant = encoded & 0x7ff *)
Definition q97_unpack (enc : Z) : Z * Z := (Z.land (Z.shiftr enc 11) 31, Z.land enc 2047).
(* writeQCD: binary.BigEndian uint16 ; decoder: uint16(SPqcd[o])<<8 | uint16(SPqcd[o+1]) *)
Definition q97_bytes (enc : Z) : Z * Z := (Z.shiftr enc 8, Z.land enc 255).
Definition q97_join (hi lo : Z) : Z := wrapU 16 (Z.lor (Z.shiftl hi 8) lo).

(* Sqcd of the lossy QCD: uint8((guardBits << 5) | (style & 0x1F)), guard 2, style 2 *)
Definition q97_sqcd (guard style : Z) : Z := wrapU 8 (Z.lor (Z.shiftl guard 5) (Z.land style 31)).
Fixpoint q97_spqcd (encs : list Z) : list Z :=
  match encs with [] => [] | e :: r => let '(h, l) := q97_bytes e in h :: l :: q97_spqcd r end.

(* decoded step (1 + mant/2048) * 2^(rb - expn), rb = bitDepth + log2Gain, in units of 2^-48
   (an integer for rb - expn >= -37, which holds for expn <= 31, rb >= 0) *)
Definition q97_step_u48 (expn mant rb : Z) : Z := (2048 + mant) * 2 ^ (rb - expn - 11 + 48).
Definition q97_ulp_u48 (expn rb : Z) : Z := 2 ^ (rb - expn - 11 + 48).
Definition q97_step_Q (expn mant rb : Z) : Q := (q97_step_u48 expn mant rb # 1) / (2 ^ 48 # 1).

(* ---------- quantisers over exact rationals ---------- *)
Definition qsign (x : Q) : Z := if Qlt_le_dec x 0 then -1 else 1.
(* the mathematical dead-zone quantiser q = sign(x) floor(|x| / D) *)
Definition dz_quant (x D : Q) : Z := qsign x * Qfloor (Qabs x / D).
(* round half to even of a rational (math.RoundToEven) *)
Definition q_rne (r : Q) : Z :=
  let f := Qfloor r in
  match Qcompare (r - (f # 1)) (1 # 2) with
  | Lt => f
  | Gt => f + 1
  | Eq => if Z.even f then f else f + 1
  end.
(* T1 codes |v| down to bit-plane 6 only: the index is sign * (|v| >> 6) *)
Definition q97_trunc6 (v : Z) : Z := Z.sgn v * Z.shiftr (Z.abs v) 6.
(* the coded quantiser: RoundToEven(x / D * 64), then the 6 fractional planes are dropped *)
Definition dz_quant_code (x D : Q) : Z := q97_trunc6 (q_rne (x / D * (64 # 1))).
(* mid-point reconstruction: 0 -> 0, q -> sign(q) (|q| + 1/2) D *)
Definition dz_deq (q : Z) (D : Q) : Q :=
  if q =? 0 then 0 else (Z.sgn q # 1) * ((Z.abs q # 1) + (1 # 2)) * D.

(* ---------- clamp of getGrayscalePixelData ---------- *)
Definition q97_clamp (signed : bool) (bitDepth val : Z) : Z :=
  if signed then
    let lo := - 2 ^ (bitDepth - 1) in let hi := 2 ^ (bitDepth - 1) - 1 in
    if val <? lo then lo else if val >? hi then hi else val
  else
    let hi := 2 ^ bitDepth - 1 in
    if val <? 0 then 0 else if val >? hi then hi else val.
(* stored representation: two's complement in bitDepth bits for signed data *)
Definition q97_store (signed : bool) (bitDepth val : Z) : Z :=
  let v := q97_clamp signed bitDepth val in
  if signed && (v <? 0) then v + 2 ^ bitDepth else v.
