(* codeblock_partition and extract_assemble_subbands: the code-block rectangles partition each
   band, the encoder's list of code-blocks (buildTilePacketEncoderAt) and the decoder's grid
   (buildAndDecodeCodeBlocks) coincide position by position, and assembleSubbands applied to the
   encoder's code-blocks returns the coefficient array. *)
From V Require Import Common.Base J2KGeo.GeoModel J2KGeo.GeoProofsLists J2KGeo.GeoProofsTiles J2KGeo.GeoProofsBands.

(* ------------------------------------------------------------------------------------ *)
(* generic: writing back crops that cover the array restores it                          *)

Definition nrect : Type := (nat * nat * nat * nat)%type.          (* x0, y0, w, h *)
Definition nrect_ok (Wn Hn : nat) (r : nrect) : Prop :=
  let '(x0, y0, w, h) := r in (x0 + w <= Wn)%nat /\ (y0 + h <= Hn)%nat.
Definition ninside (Wn : nat) (r : nrect) (i : nat) : bool :=
  let '(x0, y0, w, h) := r in inside Wn x0 y0 w h i.
Definition put_crop (img : list Z) (Wn : nat) (acc : list Z) (r : nrect) : list Z :=
  let '(x0, y0, w, h) := r in blit acc Wn x0 y0 w h (crop img Wn x0 y0 w h).

Lemma fold_put_crop : forall img Wn Hn rs acc,
  length img = (Wn * Hn)%nat -> length acc = (Wn * Hn)%nat ->
  (forall r, In r rs -> nrect_ok Wn Hn r) ->
  (forall i, (i < Wn * Hn)%nat -> zn0 acc i = zn0 img i \/ exists r, In r rs /\ ninside Wn r i = true) ->
  fold_left (put_crop img Wn) rs acc = img.
Proof.
  intros img Wn Hn rs. induction rs as [|r rs IH]; intros acc Hli Hla Hok Hinv.
  - cbn [fold_left]. apply zn0_ext; [lia|]. intros i Hi.
    destruct (Hinv i ltac:(lia)) as [E|[r [[] _]]]. exact E.
  - cbn [fold_left]. destruct r as [[[x0 y0] w] h].
    pose proof (Hok (x0, y0, w, h) ltac:(left; reflexivity)) as [Hx Hy].
    destruct (blit_crop_spec img acc Wn Hn x0 y0 w h Hx Hy Hli Hla) as [HL HN].
    apply IH; [exact Hli|exact HL|intros r Hr; apply Hok; right; exact Hr|].
    intros i Hi. cbn [put_crop]. rewrite HN by exact Hi.
    destruct (inside Wn x0 y0 w h i) eqn:Ein; [left; reflexivity|].
    destruct (Hinv i Hi) as [E|[r [[<-|Hr] Hc]]]; [left; exact E| |].
    + cbn [ninside] in Hc. congruence.
    + right. exists r. split; assumption.
Qed.

(* crop of a crop *)
Lemma crop_crop : forall data Wn Hn ox oy bw bh lx ly cw ch,
  length data = (Wn * Hn)%nat -> (ox + bw <= Wn)%nat -> (oy + bh <= Hn)%nat ->
  (lx + cw <= bw)%nat -> (ly + ch <= bh)%nat ->
  crop (crop data Wn ox oy bw bh) bw lx ly cw ch = crop data Wn (ox + lx) (oy + ly) cw ch.
Proof.
  intros data Wn Hn ox oy bw bh lx ly cw ch Hl Hx Hy Hlx Hly.
  assert (Hb : length (crop data Wn ox oy bw bh) = (bh * bw)%nat) by (apply crop_length; nia).
  assert (H1 : length (crop (crop data Wn ox oy bw bh) bw lx ly cw ch) = (ch * cw)%nat) by (apply crop_length; nia).
  assert (H2 : length (crop data Wn (ox + lx) (oy + ly) cw ch) = (ch * cw)%nat) by (apply crop_length; nia).
  apply zn0_ext; [lia|]. intros i Hi. rewrite H1 in Hi.
  assert (Hcw : (0 < cw)%nat) by nia.
  pose proof (Nat.div_mod i cw ltac:(lia)) as Hdm. pose proof (Nat.mod_upper_bound i cw ltac:(lia)) as Hmb.
  assert (Hq : (i / cw < ch)%nat) by (apply Nat.div_lt_upper_bound; nia).
  replace i with (i / cw * cw + i mod cw)%nat by lia.
  rewrite !nth_crop by (try lia; nia).
  replace ((ly + i / cw) * bw + lx + i mod cw)%nat with ((ly + i / cw) * bw + (lx + i mod cw))%nat by lia.
  rewrite nth_crop by (try lia; nia). f_equal. lia.
Qed.

(* ------------------------------------------------------------------------------------ *)
(* lists                                                                                  *)

Lemma in_zrange : forall n z, In z (zrange n) <-> 0 <= z < n.
Proof.
  intros n z. unfold zrange. rewrite in_map_iff. split.
  - intros [k [<- Hk]]. apply in_seq in Hk. lia.
  - intros Hz. exists (Z.to_nat z). split; [lia|]. apply in_seq. lia.
Qed.

Lemma flat_map_nil : forall (A B : Type) (l : list A), flat_map (fun _ => @nil B) l = [].
Proof. induction l; simpl; auto. Qed.

Lemma map_flat_map : forall (A B C : Type) (f : B -> C) (g : A -> list B) l,
  map f (flat_map g l) = flat_map (fun a => map f (g a)) l.
Proof. induction l as [|a l IH]; [reflexivity|]. cbn [flat_map]. rewrite map_app, IH. reflexivity. Qed.

Lemma flat_map_ext_in : forall (A B : Type) (f g : A -> list B) l,
  (forall a, In a l -> f a = g a) -> flat_map f l = flat_map g l.
Proof.
  induction l as [|a l IH]; intros H; [reflexivity|]. cbn [flat_map].
  rewrite H by (left; reflexivity). rewrite IH by (intros; apply H; right; assumption). reflexivity.
Qed.

Lemma filter_all : forall (A : Type) (p : A -> bool) l, (forall a, In a l -> p a = true) -> filter p l = l.
Proof.
  induction l as [|a l IH]; intros H; [reflexivity|]. cbn [filter].
  rewrite H by (left; reflexivity). rewrite IH by (intros; apply H; right; assumption). reflexivity.
Qed.

(* ------------------------------------------------------------------------------------ *)
(* one band                                                                               *)

(* number of blocks along one axis *)
Lemma num_blocks_zero : forall T, 1 <= T -> enc_num_tiles 0 T = 0.
Proof. intros T HT. unfold enc_num_tiles. rewrite Z.quot_div_nonneg by lia. apply Z.div_small. lia. Qed.

Definition block_cell (b : band) (cbw cbh cbx cby : Z) : Z * Z * Z * Z * Z :=
  let lx0 := cbx * cbw in let ly0 := cby * cbh in
  let lx1 := if lx0 + cbw >? b_w b then b_w b else lx0 + cbw in
  let ly1 := if ly0 + cbh >? b_h b then b_h b else ly0 + cbh in
  (b_ox b + lx0, b_oy b + ly0, b_ox b + lx1, b_oy b + ly1, b_id b).

Definition cell_of_block (c : cblock) : Z * Z * Z * Z * Z :=
  (cb_gx0 c, cb_gy0 c, cb_gx0 c + cb_w c, cb_gy0 c + cb_h c, cb_band c).

Lemma enc_partition_cells : forall b bdata cbw cbh,
  map cell_of_block (enc_partition (b, bdata) cbw cbh) =
  flat_map (fun cby => map (fun cbx => block_cell b cbw cbh cbx cby) (zrange (enc_num_tiles (b_w b) cbw)))
           (zrange (enc_num_tiles (b_h b) cbh)).
Proof.
  intros b bdata cbw cbh. unfold enc_partition. rewrite map_flat_map.
  apply flat_map_ext_in. intros cby _. rewrite map_map. apply map_ext. intros cbx.
  unfold cell_of_block, block_cell. cbn [cb_gx0 cb_gy0 cb_w cb_h cb_band].
  repeat (apply (f_equal2 pair)); try reflexivity; lia.
Qed.

Lemma dec_band_cells_eq : forall b bdata cbw cbh, 0 <= b_w b -> 0 <= b_h b -> 1 <= cbw -> 1 <= cbh ->
  dec_band_cells b cbw cbh = map cell_of_block (enc_partition (b, bdata) cbw cbh).
Proof.
  intros b bdata cbw cbh Hw Hh Hcw Hch. rewrite enc_partition_cells. unfold dec_band_cells.
  destruct (Z.leb_spec (b_w b) 0) as [Hw0|Hw1]; cbn [orb].
  - assert (b_w b = 0) by lia. rewrite H, num_blocks_zero by lia.
    change (zrange 0) with (@nil Z). cbn [map]. rewrite flat_map_nil. reflexivity.
  - destruct (Z.leb_spec (b_h b) 0) as [Hh0|Hh1].
    + assert (b_h b = 0) by lia. rewrite H, num_blocks_zero by lia. reflexivity.
    + reflexivity.
Qed.

(* the cells of a band: inside the band, non-empty, a partition of the band *)
Section BandBlocks.
  Variable b : band.
  Variables cbw cbh : Z.
  Hypothesis Hw : 0 <= b_w b.
  Hypothesis Hh : 0 <= b_h b.
  Hypothesis Hcw : 1 <= cbw.
  Hypothesis Hch : 1 <= cbh.

  Let nx := enc_num_tiles (b_w b) cbw.
  Let ny := enc_num_tiles (b_h b) cbh.

  Lemma nx_range : forall cbx, 0 <= cbx < nx -> 1 <= b_w b /\ cbx * cbw < b_w b.
  Proof.
    intros cbx Hc. destruct (Z.eq_dec (b_w b) 0) as [E|E].
    - unfold nx in Hc. rewrite E, num_blocks_zero in Hc by lia. lia.
    - destruct (num_tiles_spec (b_w b) cbw ltac:(lia) ltac:(lia)) as [_ Hs]. fold nx in Hs. split; [lia|nia].
  Qed.

  Lemma ny_range : forall cby, 0 <= cby < ny -> 1 <= b_h b /\ cby * cbh < b_h b.
  Proof.
    intros cby Hc. destruct (Z.eq_dec (b_h b) 0) as [E|E].
    - unfold ny in Hc. rewrite E, num_blocks_zero in Hc by lia. lia.
    - destruct (num_tiles_spec (b_h b) cbh ltac:(lia) ltac:(lia)) as [_ Hs]. fold ny in Hs. split; [lia|nia].
  Qed.

  Lemma block_cell_facts : forall cbx cby, 0 <= cbx < nx -> 0 <= cby < ny ->
    let '(x0, y0, x1, y1, bd) := block_cell b cbw cbh cbx cby in
    x0 = b_ox b + cbx * cbw /\ y0 = b_oy b + cby * cbh /\
    x0 < x1 /\ y0 < y1 /\ x1 <= b_ox b + b_w b /\ y1 <= b_oy b + b_h b /\
    x1 = Z.min (x0 + cbw) (b_ox b + b_w b) /\ y1 = Z.min (y0 + cbh) (b_oy b + b_h b) /\ bd = b_id b.
  Proof.
    intros cbx cby Hx Hy. unfold block_cell.
    destruct (nx_range cbx Hx) as [_ Hxl]. destruct (ny_range cby Hy) as [_ Hyl].
    destruct (Z.gtb_spec (cbx * cbw + cbw) (b_w b)); destruct (Z.gtb_spec (cby * cbh + cbh) (b_h b));
      repeat split; lia.
  Qed.

  (* cover: the point (x, y) of the band lies in block ((x-ox)/cbw, (y-oy)/cbh) *)
  Lemma blocks_cover : forall x y, in_band b x y ->
    let cbx := (x - b_ox b) / cbw in let cby := (y - b_oy b) / cbh in
    0 <= cbx < nx /\ 0 <= cby < ny /\
    let '(x0, y0, x1, y1, _) := block_cell b cbw cbh cbx cby in x0 <= x < x1 /\ y0 <= y < y1.
  Proof.
    intros x y [Hx Hy]. cbv zeta.
    destruct (num_tiles_spec (b_w b) cbw ltac:(lia) ltac:(lia)) as [_ Hsx]. fold nx in Hsx.
    destruct (num_tiles_spec (b_h b) cbh ltac:(lia) ltac:(lia)) as [_ Hsy]. fold ny in Hsy.
    set (u := x - b_ox b) in *. set (v := y - b_oy b) in *.
    assert (Hqx : 0 <= u / cbw < nx) by (split; [apply Z.div_pos; lia|apply Z.div_lt_upper_bound; nia]).
    assert (Hqy : 0 <= v / cbh < ny) by (split; [apply Z.div_pos; lia|apply Z.div_lt_upper_bound; nia]).
    split; [exact Hqx|]. split; [exact Hqy|].
    pose proof (block_cell_facts (u / cbw) (v / cbh) Hqx Hqy) as F.
    destruct (block_cell b cbw cbh (u / cbw) (v / cbh)) as [[[[cx0 cy0] cx1] cy1] bd].
    destruct F as [E1 [E2 [_ [_ [_ [_ [E3 [E4 _]]]]]]]].
    pose proof (Z.div_mod u cbw ltac:(lia)). pose proof (Z.mod_pos_bound u cbw ltac:(lia)).
    pose proof (Z.div_mod v cbh ltac:(lia)). pose proof (Z.mod_pos_bound v cbh ltac:(lia)).
    unfold u, v in *. lia.
  Qed.

  (* disjoint: a point determines its block *)
  Lemma blocks_disjoint : forall cbx1 cby1 cbx2 cby2 x y,
    0 <= cbx1 < nx -> 0 <= cby1 < ny -> 0 <= cbx2 < nx -> 0 <= cby2 < ny ->
    (let '(x0, y0, x1, y1, _) := block_cell b cbw cbh cbx1 cby1 in x0 <= x < x1 /\ y0 <= y < y1) ->
    (let '(x0, y0, x1, y1, _) := block_cell b cbw cbh cbx2 cby2 in x0 <= x < x1 /\ y0 <= y < y1) ->
    cbx1 = cbx2 /\ cby1 = cby2.
  Proof.
    intros cbx1 cby1 cbx2 cby2 x y H1 H2 H3 H4 C1 C2.
    pose proof (block_cell_facts cbx1 cby1 H1 H2) as F1. pose proof (block_cell_facts cbx2 cby2 H3 H4) as F2.
    destruct (block_cell b cbw cbh cbx1 cby1) as [[[[ax0 ay0] ax1] ay1] abd].
    destruct (block_cell b cbw cbh cbx2 cby2) as [[[[bx0 by0] bx1] by1] bbd].
    destruct F1 as [A1 [A2 [_ [_ [_ [_ [A3 [A4 _]]]]]]]]. destruct F2 as [B1 [B2 [_ [_ [_ [_ [B3 [B4 _]]]]]]]].
    split.
    - transitivity ((x - b_ox b) / cbw); [apply div_interval|symmetry; apply div_interval]; lia.
    - transitivity ((y - b_oy b) / cbh); [apply div_interval|symmetry; apply div_interval]; lia.
  Qed.
End BandBlocks.

(* ------------------------------------------------------------------------------------ *)
(* all bands: encoder list = decoder grid                                                *)

Lemma flat_map_map : forall (A B C : Type) (g : A -> B) (f : B -> list C) l,
  flat_map f (map g l) = flat_map (fun a => f (g a)) l.
Proof. induction l as [|a l IH]; [reflexivity|]. cbn [map flat_map]. rewrite IH. reflexivity. Qed.

Definition dcell (d : dblock) : Z * Z * Z * Z * Z := (db_x0 d, db_y0 d, db_x1 d, db_y1 d, db_band d).

Lemma number_from_cells : forall cells k, map dcell (number_from k cells) = cells.
Proof.
  induction cells as [|[[[[a b] c] d] e] cells IH]; intros k; [reflexivity|].
  cbn [number_from map]. rewrite IH. reflexivity.
Qed.

Lemma number_from_idx : forall cells k,
  map db_idx (number_from k cells) = map (fun i => k + Z.of_nat i) (seq 0 (length cells)).
Proof.
  induction cells as [|[[[[a b] c] d] e] cells IH]; intros k; [reflexivity|].
  cbn [number_from map length seq db_idx]. f_equal; [lia|].
  rewrite IH, <- seq_shift, map_map. apply map_ext. intros i. lia.
Qed.

Section AllBlocks.
  Variables w h x0 y0 numLevels cbw cbh : Z.
  Hypothesis Hw : 0 <= w.
  Hypothesis Hh : 0 <= h.
  Hypothesis Hlv : 0 <= numLevels.
  Hypothesis Hcw : 1 <= cbw.
  Hypothesis Hch : 1 <= cbh.
  Variable coeffs : list Z.

  Let encs := enc_all_blocks coeffs w h x0 y0 numLevels cbw cbh.
  Let cells := flat_map (fun res =>
      flat_map (fun b => dec_band_cells b cbw cbh) (snd (dec_band_infos w h x0 y0 numLevels res)))
      (zrange (numLevels + 1)).

  Lemma cells_eq : cells = map cell_of_block encs.
  Proof.
    unfold cells, encs, enc_all_blocks. rewrite map_flat_map.
    apply flat_map_ext_in. intros res Hres. apply in_zrange in Hres.
    destruct (dec_band_infos_agree w h x0 y0 numLevels res) as [Hd _]. rewrite Hd.
    rewrite map_flat_map. unfold enc_subbands. rewrite flat_map_map.
    apply flat_map_ext_in. intros b Hb.
    destruct (bands_inside_array w h x0 y0 numLevels Hw Hh res b ltac:(lia) Hb) as [B1 [B2 _]].
    apply dec_band_cells_eq; assumption.
  Qed.

  (* membership in the cell list *)
  Lemma in_cells : forall c, In c cells ->
    exists res b cbx cby, 0 <= res <= numLevels /\ In b (enc_band_infos w h x0 y0 numLevels res) /\
      0 <= cbx < enc_num_tiles (b_w b) cbw /\ 0 <= cby < enc_num_tiles (b_h b) cbh /\
      c = block_cell b cbw cbh cbx cby.
  Proof.
    intros c Hc. unfold cells in Hc. apply in_flat_map in Hc. destruct Hc as [res [Hres Hc]].
    apply in_zrange in Hres. destruct (dec_band_infos_agree w h x0 y0 numLevels res) as [Hd _]. rewrite Hd in Hc.
    apply in_flat_map in Hc. destruct Hc as [b [Hb Hc]].
    destruct (bands_inside_array w h x0 y0 numLevels Hw Hh res b ltac:(lia) Hb) as [B1 [B2 _]].
    rewrite (dec_band_cells_eq b [] cbw cbh B1 B2 Hcw Hch), enc_partition_cells in Hc.
    apply in_flat_map in Hc. destruct Hc as [cby [Hcby Hc]]. apply in_map_iff in Hc. destruct Hc as [cbx [<- Hcbx]].
    apply in_zrange in Hcby. apply in_zrange in Hcbx.
    exists res, b, cbx, cby. repeat split; try lia; assumption.
  Qed.

  (* codeblock_partition, grid part: the decoder creates exactly the encoder's code-blocks, in
     the same order, so globalCBIdx (the position) identifies the same rectangle on both sides;
     no grid cell is dropped by the decoder's `actualWidth <= 0` test *)
  Theorem grids_agree :
    map dcell (dec_grid w h x0 y0 numLevels cbw cbh) = map cell_of_block encs /\
    map db_idx (dec_grid w h x0 y0 numLevels cbw cbh) = map Z.of_nat (seq 0 (length encs)).
  Proof.
    unfold dec_grid. fold cells.
    assert (Hf : filter (fun d => negb ((db_x1 d - db_x0 d <=? 0) || (db_y1 d - db_y0 d <=? 0))) (number_from 0 cells)
                 = number_from 0 cells).
    { apply filter_all. intros d Hd.
      assert (Hin : In (dcell d) cells) by (rewrite <- (number_from_cells cells 0); apply in_map; exact Hd).
      destruct (in_cells (dcell d) Hin) as [res [b [cbx [cby [Hr [Hb [Hx [Hy E]]]]]]]].
      destruct (bands_inside_array w h x0 y0 numLevels Hw Hh res b Hr Hb) as [B1 [B2 _]].
      pose proof (block_cell_facts b cbw cbh B1 B2 Hcw Hch cbx cby Hx Hy) as F. rewrite <- E in F.
      unfold dcell in F. destruct F as [_ [_ [F1 [F2 _]]]].
      destruct (Z.leb_spec (db_x1 d - db_x0 d) 0); [lia|]. destruct (Z.leb_spec (db_y1 d - db_y0 d) 0); [lia|]. reflexivity. }
    rewrite Hf. split.
    - rewrite number_from_cells. apply cells_eq.
    - rewrite number_from_idx, cells_eq, map_length. apply map_ext. intros i. lia.
  Qed.
End AllBlocks.

(* ------------------------------------------------------------------------------------ *)
(* extract_assemble_subbands                                                              *)

Section AssembleData.
  Variables w h x0 y0 numLevels cbw cbh : Z.
  Hypothesis Hw : 0 <= w.
  Hypothesis Hh : 0 <= h.
  Hypothesis Hlv : 0 <= numLevels.
  Hypothesis Hcw : 1 <= cbw.
  Hypothesis Hch : 1 <= cbh.
  Variable coeffs : list Z.
  Hypothesis Hlen : zlen coeffs = w * h.

  Let Wn := Z.to_nat w.
  Let Hn := Z.to_nat h.
  Let encs := enc_all_blocks coeffs w h x0 y0 numLevels cbw cbh.

  Definition band_data (b : band) : list Z :=
    crop coeffs Wn (Z.to_nat (b_ox b)) (Z.to_nat (b_oy b)) (Z.to_nat (b_w b)) (Z.to_nat (b_h b)).

  Definition enc_block (b : band) (cbx cby : Z) : cblock :=
    let lx0 := cbx * cbw in let ly0 := cby * cbh in
    let lx1 := if lx0 + cbw >? b_w b then b_w b else lx0 + cbw in
    let ly1 := if ly0 + cbh >? b_h b then b_h b else ly0 + cbh in
    mkBlock (b_ox b + lx0) (b_oy b + ly0) (lx1 - lx0) (ly1 - ly0) cbx cby (b_id b)
            (crop (band_data b) (Z.to_nat (b_w b)) (Z.to_nat lx0) (Z.to_nat ly0) (Z.to_nat (lx1 - lx0)) (Z.to_nat (ly1 - ly0))).

  Lemma in_encs_iff : forall c, In c encs <->
    exists res b cbx cby, 0 <= res <= numLevels /\ In b (enc_band_infos w h x0 y0 numLevels res) /\
      0 <= cbx < enc_num_tiles (b_w b) cbw /\ 0 <= cby < enc_num_tiles (b_h b) cbh /\ c = enc_block b cbx cby.
  Proof.
    intros c. unfold encs, enc_all_blocks. rewrite in_flat_map. split.
    - intros [res [Hres Hc]]. apply in_zrange in Hres. unfold enc_subbands in Hc. rewrite flat_map_map in Hc.
      apply in_flat_map in Hc. destruct Hc as [b [Hb Hc]]. unfold enc_partition in Hc.
      apply in_flat_map in Hc. destruct Hc as [cby [Hcby Hc]]. apply in_map_iff in Hc. destruct Hc as [cbx [<- Hcbx]].
      apply in_zrange in Hcby. apply in_zrange in Hcbx.
      exists res, b, cbx, cby. unfold enc_num_tiles. repeat split; try lia; try assumption.
    - intros [res [b [cbx [cby [Hr [Hb [Hx [Hy ->]]]]]]]].
      exists res. split; [apply in_zrange; lia|]. unfold enc_subbands. rewrite flat_map_map.
      apply in_flat_map. exists b. split; [exact Hb|]. unfold enc_partition.
      apply in_flat_map. exists cby. split; [apply in_zrange; exact Hy|].
      apply in_map_iff. exists cbx. split; [reflexivity|apply in_zrange; exact Hx].
  Qed.

  Definition nrect_of (c : cblock) : nrect :=
    (Z.to_nat (cb_gx0 c), Z.to_nat (cb_gy0 c), Z.to_nat (cb_w c), Z.to_nat (cb_h c)).

  Definition good (c : cblock) : Prop :=
    0 <= cb_gx0 c /\ 0 <= cb_gy0 c /\ 1 <= cb_w c /\ 1 <= cb_h c /\
    cb_gx0 c + cb_w c <= w /\ cb_gy0 c + cb_h c <= h /\
    cb_data c = crop coeffs Wn (Z.to_nat (cb_gx0 c)) (Z.to_nat (cb_gy0 c)) (Z.to_nat (cb_w c)) (Z.to_nat (cb_h c)).

  Lemma coeffs_length : length coeffs = (Wn * Hn)%nat.
  Proof. unfold zlen, Wn, Hn in *. nia. Qed.

  (* every encoder code-block is non-empty, inside the array, and carries exactly the
     coefficients of its rectangle *)
  Lemma enc_block_good : forall res b cbx cby, 0 <= res <= numLevels ->
    In b (enc_band_infos w h x0 y0 numLevels res) ->
    0 <= cbx < enc_num_tiles (b_w b) cbw -> 0 <= cby < enc_num_tiles (b_h b) cbh ->
    good (enc_block b cbx cby).
  Proof.
    intros res b cbx cby Hr Hb Hx Hy.
    destruct (bands_inside_array w h x0 y0 numLevels Hw Hh res b Hr Hb) as [B1 [B2 [B3 [B4 [B5 B6]]]]].
    destruct (nx_range b cbw cbh B1 Hcw cbx Hx) as [_ Hxl]. destruct (ny_range b cbw cbh B2 Hch cby Hy) as [_ Hyl].
    unfold good, enc_block. cbn [cb_gx0 cb_gy0 cb_w cb_h cb_data].
    set (lx1 := if cbx * cbw + cbw >? b_w b then b_w b else cbx * cbw + cbw).
    set (ly1 := if cby * cbh + cbh >? b_h b then b_h b else cby * cbh + cbh).
    assert (Hlx : cbx * cbw < lx1 <= b_w b) by (unfold lx1; destruct (Z.gtb_spec (cbx * cbw + cbw) (b_w b)); lia).
    assert (Hly : cby * cbh < ly1 <= b_h b) by (unfold ly1; destruct (Z.gtb_spec (cby * cbh + cbh) (b_h b)); lia).
    assert (0 <= cbx * cbw) by nia. assert (0 <= cby * cbh) by nia.
    repeat split; try lia.
    unfold band_data.
    rewrite (crop_crop coeffs Wn Hn) by (try apply coeffs_length; unfold Wn, Hn; lia).
    rewrite <- !Z2Nat.inj_add by lia. reflexivity.
  Qed.

  Lemma encs_good : forall c, In c encs -> good c.
  Proof.
    intros c Hc. apply in_encs_iff in Hc. destruct Hc as [res [b [cbx [cby [Hr [Hb [Hx [Hy ->]]]]]]]].
    eapply enc_block_good; eassumption.
  Qed.

  (* the decoder's copy loop on good blocks is put_crop *)
  Lemma fold_assemble_steps : forall bs acc, length acc = (Wn * Hn)%nat -> (forall c, In c bs -> good c) ->
    fold_left (fun acc blk =>
        let '(bx0, by0, bx1, by1, co) := blk in
        blit_guarded acc (Z.to_nat w) (Z.to_nat bx0) (Z.to_nat by0) (Z.to_nat (bx1 - bx0)) (Z.to_nat (by1 - by0)) co)
      (blocks_for_assembly bs) acc
    = fold_left (put_crop coeffs Wn) (map nrect_of bs) acc.
  Proof.
    induction bs as [|c bs IH]; intros acc Hla Hg; [reflexivity|].
    cbn [blocks_for_assembly map fold_left].
    destruct (Hg c ltac:(left; reflexivity)) as [G1 [G2 [G3 [G4 [G5 [G6 G7]]]]]].
    replace (cb_gx0 c + cb_w c - cb_gx0 c) with (cb_w c) by lia.
    replace (cb_gy0 c + cb_h c - cb_gy0 c) with (cb_h c) by lia.
    fold Wn. rewrite G7.
    set (nx0 := Z.to_nat (cb_gx0 c)). set (ny0 := Z.to_nat (cb_gy0 c)).
    set (nw := Z.to_nat (cb_w c)). set (nh := Z.to_nat (cb_h c)).
    assert (Hcl : length (crop coeffs Wn nx0 ny0 nw nh) = (nh * nw)%nat).
    { apply crop_length; [unfold nx0, nw, Wn; lia|]. rewrite coeffs_length. unfold ny0, nh, Hn. nia. }
    assert (P1 : (nx0 + nw <= Wn)%nat) by (unfold nx0, nw, Wn; lia).
    assert (P2 : ((ny0 + nh) * Wn <= length acc)%nat) by (rewrite Hla; unfold ny0, nh, Hn; nia).
    assert (P3 : (nh * nw <= length (crop coeffs Wn nx0 ny0 nw nh))%nat) by lia.
    rewrite (blit_guarded_eq Wn nx0 ny0 nw (crop coeffs Wn nx0 ny0 nw nh) nh acc P1 P2 P3).
    change (blit acc Wn nx0 ny0 nw nh (crop coeffs Wn nx0 ny0 nw nh)) with (put_crop coeffs Wn acc (nx0, ny0, nw, nh)).
    change (nx0, ny0, nw, nh) with (nrect_of c).
    change (fold_left (put_crop coeffs Wn) (map nrect_of bs) (put_crop coeffs Wn acc (nrect_of c)))
      with (fold_left (put_crop coeffs Wn) (map nrect_of bs) (put_crop coeffs Wn acc (nrect_of c))).
    rewrite <- IH.
    - reflexivity.
    - destruct (blit_crop_spec coeffs acc Wn Hn nx0 ny0 nw nh ltac:(unfold nx0, nw, Wn; lia) ltac:(unfold ny0, nh, Hn; lia)
                  coeffs_length Hla) as [HL _]. exact HL.
    - intros c' Hc'. apply Hg. right. exact Hc'.
  Qed.

  Theorem extract_assemble_subbands_id :
    dec_assemble w h (blocks_for_assembly encs) = coeffs.
  Proof.
    unfold dec_assemble.
    assert (Hz : length (zeros (Z.to_nat (w * h))) = (Wn * Hn)%nat) by (rewrite zeros_length; unfold Wn, Hn; nia).
    rewrite (fold_assemble_steps encs _ Hz encs_good).
    apply (fold_put_crop coeffs Wn Hn); [apply coeffs_length|exact Hz| |].
    - intros r Hr. apply in_map_iff in Hr. destruct Hr as [c [<- Hc]].
      destruct (encs_good c Hc) as [G1 [G2 [G3 [G4 [G5 [G6 _]]]]]]. unfold nrect_of, nrect_ok, Wn, Hn. lia.
    - intros i Hi. right.
      assert (HWn : (0 < Wn)%nat) by nia.
      pose proof (Nat.div_mod i Wn ltac:(lia)) as Hdm. pose proof (Nat.mod_upper_bound i Wn ltac:(lia)) as Hmb.
      assert (Hyy : (i / Wn < Hn)%nat) by (apply Nat.div_lt_upper_bound; lia).
      set (x := Z.of_nat (i mod Wn)). set (y := Z.of_nat (i / Wn)).
      destruct (bands_cover w h x0 y0 numLevels Hw Hh Hlv x y ltac:(unfold x, Wn in *; lia) ltac:(unfold y, Hn in *; lia))
        as [res [b [Hr [Hb Hin]]]].
      destruct (bands_inside_array w h x0 y0 numLevels Hw Hh res b Hr Hb) as [B1 [B2 _]].
      destruct (blocks_cover b cbw cbh B1 B2 Hcw Hch x y Hin) as [Hcx [Hcy Hc]].
      set (cbx := (x - b_ox b) / cbw) in *. set (cby := (y - b_oy b) / cbh) in *.
      exists (nrect_of (enc_block b cbx cby)). split.
      + apply in_map. apply in_encs_iff. exists res, b, cbx, cby. repeat split; try lia; assumption.
      + pose proof (enc_block_good res b cbx cby Hr Hb Hcx Hcy) as [G1 [G2 [G3 [G4 _]]]].
        unfold nrect_of, ninside.
        replace (Z.to_nat (cb_w (enc_block b cbx cby)))
          with (Z.to_nat (cb_gx0 (enc_block b cbx cby) + cb_w (enc_block b cbx cby) - cb_gx0 (enc_block b cbx cby))) by (f_equal; lia).
        replace (Z.to_nat (cb_h (enc_block b cbx cby)))
          with (Z.to_nat (cb_gy0 (enc_block b cbx cby) + cb_h (enc_block b cbx cby) - cb_gy0 (enc_block b cbx cby))) by (f_equal; lia).
        apply inside_iff; [lia|lia|]. fold x y.
        unfold block_cell in Hc. unfold enc_block. cbn [cb_gx0 cb_gy0 cb_w cb_h]. unfold rect_contains. lia.
  Qed.
End AssembleData.
