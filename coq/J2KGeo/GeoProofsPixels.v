(* pixel_roundtrip: the whole-image version of sample_codec_roundtrip.  For an interleaved
   image of numPixels x comps samples packed in the property's container, convertPixelData
   de-interleaves it into component arrays holding the true sample values, and
   GetPixelData (after level shift and inverse level shift) writes back exactly the input
   bytes — both the single-component (getGrayscalePixelData) and the interleaved
   (getInterleavedPixelData) path. *)
From V Require Import Common.Base J2KGeo.GeoModel J2KGeo.GeoProofsLists J2KGeo.GeoProofsSamples.

(* ------------------------------------------------------------------------------------ *)
(* lists of fixed-size chunks                                                            *)

Lemma flat_map_chunks_length : forall (f : Z -> list Z) k l, (forall a, length (f a) = k) ->
  length (flat_map f l) = (length l * k)%nat.
Proof.
  intros f k l Hk. induction l as [|a l IH]; [reflexivity|].
  cbn [flat_map length]. rewrite app_length, Hk, IH. lia.
Qed.

Lemma nth_flat_map_chunks : forall (f : Z -> list Z) k l j r, (forall a, length (f a) = k) ->
  (j < length l)%nat -> (r < k)%nat ->
  zn0 (flat_map f l) (j * k + r) = zn0 (f (zn0 l j)) r.
Proof.
  intros f k l. induction l as [|a l IH]; intros j r Hk Hj Hr; [simpl in Hj; lia|].
  cbn [flat_map]. unfold zn0 in *. destruct j as [|j].
  - cbn [Nat.mul plus nth]. rewrite app_nth1 by (rewrite Hk; lia). reflexivity.
  - rewrite app_nth2 by (rewrite Hk; nia). rewrite Hk.
    replace (S j * k + r - k)%nat with (j * k + r)%nat by nia. cbn [nth].
    apply IH; [assumption|simpl in Hj; lia|assumption].
Qed.

Lemma flat_map_ext_in' : forall (A B : Type) (f g : A -> list B) l,
  (forall a, In a l -> f a = g a) -> flat_map f l = flat_map g l.
Proof.
  induction l as [|a l IH]; intros H; [reflexivity|]. cbn [flat_map].
  rewrite H by (left; reflexivity). rewrite IH by (intros; apply H; right; assumption). reflexivity.
Qed.

Lemma flat_map_nth_seq : forall (g : Z -> list Z) l,
  flat_map (fun c => g (zn0 l c)) (seq 0 (length l)) = flat_map g l.
Proof.
  intros g l. induction l as [|a l IH]; [reflexivity|].
  cbn [length seq flat_map]. f_equal. rewrite <- seq_shift, flat_map_concat_map, map_map, <- flat_map_concat_map.
  exact IH.
Qed.

Lemma flat_map_rows : forall (g : Z -> list Z) n m l, length l = (n * m)%nat ->
  flat_map (fun i => flat_map (fun c => g (zn0 l (i * m + c))) (seq 0 m)) (seq 0 n) = flat_map g l.
Proof.
  intros g n m. induction n as [|n IH]; intros l Hl.
  - destruct l; [reflexivity|simpl in Hl; lia].
  - cbn [seq flat_map].
    transitivity (flat_map g (firstn m l ++ skipn m l)); [|rewrite firstn_skipn; reflexivity].
    rewrite flat_map_app.
    assert (Hf : length (firstn m l) = m) by (rewrite firstn_length; nia).
    f_equal.
    + rewrite <- (flat_map_nth_seq g (firstn m l)), Hf.
      apply flat_map_ext_in'. intros c Hc. apply in_seq in Hc. cbn [Nat.mul plus].
      unfold zn0. rewrite nth_firstn by lia. reflexivity.
    + rewrite <- seq_shift, flat_map_concat_map, map_map, <- flat_map_concat_map.
      rewrite <- (IH (skipn m l)) by (rewrite skipn_length; nia).
      apply flat_map_ext_in'. intros i _. apply flat_map_ext_in'. intros c _.
      unfold zn0. rewrite nth_skipn. do 2 f_equal. lia.
Qed.

Lemma flat_map_map' : forall (A B C : Type) (g : A -> B) (f : B -> list C) l,
  flat_map f (map g l) = flat_map (fun a => f (g a)) l.
Proof. induction l as [|a l IH]; [reflexivity|]. cbn [map flat_map]. rewrite IH. reflexivity. Qed.

Lemma nth_map_seq : forall (A : Type) (g : nat -> A) n i d, (i < n)%nat -> nth i (map g (seq 0 n)) d = g i.
Proof.
  intros A g n i d Hi. rewrite (nth_indep _ d (g 0%nat)) by (rewrite map_length, seq_length; lia).
  rewrite map_nth, seq_nth by lia. reflexivity.
Qed.

(* ------------------------------------------------------------------------------------ *)

Section Pixels.
  Variables (P : Z) (signed : bool) (numPixels comps : Z) (samples : list Z).
  Hypothesis HP : 1 <= P <= 16.
  Hypothesis Hnp : 0 <= numPixels.
  Hypothesis Hc : 1 <= comps.
  Hypothesis Hlen : zlen samples = numPixels * comps.
  Hypothesis Hrange : Forall (in_sample_range P signed) samples.

  Let n := Z.to_nat numPixels.
  Let m := Z.to_nat comps.
  Let k := Z.to_nat (bytes_per_sample P).
  Let bytes := flat_map (pack_sample P) samples.

  (* the component arrays: component c, pixel i holds sample i*comps + c *)
  Definition planar : list (list Z) :=
    map (fun c => map (fun i => zn0 samples (i * m + c)) (seq 0 n)) (seq 0 m).

  Lemma samples_length : length samples = (n * m)%nat.
  Proof. unfold zlen, n, m in *. nia. Qed.

  Lemma pack_len : forall v, length (pack_sample P v) = k.
  Proof. intros v. destruct (pack_sample_bytes P v HP) as [_ H]. unfold zlen, k in *. lia. Qed.

  Lemma k_cases : (P <= 8 /\ k = 1%nat) \/ (8 < P /\ k = 2%nat).
  Proof.
    unfold k, bytes_per_sample. rewrite Z.quot_div_nonneg by lia.
    destruct (Z_le_gt_dec P 8); [left|right]; (split; [lia|]).
    - replace ((P + 7) / 8) with 1; [reflexivity|]. apply Z.div_unique with (r := P - 1); lia.
    - replace ((P + 7) / 8) with 2; [reflexivity|]. apply Z.div_unique with (r := P - 9); lia.
  Qed.

  Lemma sample_range : forall j, (j < length samples)%nat -> in_sample_range P signed (zn0 samples j).
  Proof. intros j Hj. rewrite Forall_forall in Hrange. apply Hrange. apply nth_In. exact Hj. Qed.

  Lemma idx_bound : forall i c, (i < n)%nat -> (c < m)%nat -> (i * m + c < length samples)%nat.
  Proof. intros. rewrite samples_length. nia. Qed.

  (* convertPixelData de-interleaves and reads the true values *)
  Lemma convert_ok : convert_pixel_data numPixels comps P signed bytes = Ok planar.
  Proof.
    unfold convert_pixel_data.
    assert (Hbl : zlen bytes = numPixels * comps * bytes_per_sample P).
    { unfold zlen, bytes. rewrite (flat_map_chunks_length _ k) by exact pack_len.
      rewrite samples_length. unfold n, m, k.
      assert (0 <= bytes_per_sample P) by (unfold bytes_per_sample; apply Z.quot_pos; lia). nia. }
    rewrite Hbl, Z.ltb_irrefl. f_equal. unfold planar, zrange. fold n m.
    rewrite map_map. apply map_ext_in. intros c Hcin. apply in_seq in Hcin.
    rewrite map_map. apply map_ext_in. intros i Hiin. apply in_seq in Hiin.
    replace (Z.to_nat (Z.of_nat i * comps + Z.of_nat c)) with (i * m + c)%nat by (unfold m; nia).
    set (s := (i * m + c)%nat).
    assert (Hs : (s < length samples)%nat) by (apply idx_bound; lia).
    pose proof (enc_sample_pack P signed (zn0 samples s) HP (sample_range s Hs)) as He.
    unfold enc_sample in He.
    destruct k_cases as [[H8 Hk]|[H8 Hk]].
    - destruct (Z.leb_spec P 8); [|lia].
      rewrite <- He. f_equal. replace s with (s * k + 0)%nat at 1 by lia.
      unfold bytes. apply nth_flat_map_chunks; [exact pack_len|exact Hs|lia].
    - destruct (Z.leb_spec P 8); [lia|].
      rewrite <- He. f_equal.
      + replace (2 * s)%nat with (s * k + 0)%nat by lia.
        unfold bytes. apply nth_flat_map_chunks; [exact pack_len|exact Hs|lia].
      + replace (2 * s + 1)%nat with (s * k + 1)%nat by lia.
        unfold bytes. apply nth_flat_map_chunks; [exact pack_len|exact Hs|lia].
  Qed.

  (* every entry of the component arrays is a sample in range *)
  Lemma planar_entry : forall c i, (c < m)%nat -> (i < n)%nat ->
    zn0 (nth c planar []) i = zn0 samples (i * m + c).
  Proof.
    intros c i Hcm Hin. unfold planar. rewrite nth_map_seq by exact Hcm. unfold zn0 at 1.
    rewrite nth_map_seq by exact Hin. reflexivity.
  Qed.

  Lemma shift_unshift_planar :
    level_unshift_all P signed (level_shift_all P signed planar) = planar.
  Proof.
    unfold level_unshift_all, level_shift_all, planar. rewrite !map_map.
    apply map_ext_in. intros c Hcin. apply in_seq in Hcin. rewrite !map_map.
    apply map_ext_in. intros i Hiin. apply in_seq in Hiin.
    apply (dc_shift_range P signed _ HP). apply sample_range. apply idx_bound; lia.
  Qed.

  (* GetPixelData re-interleaves and writes the property's container *)
  Lemma get_pixel_data_planar : get_pixel_data numPixels comps P signed planar = bytes.
  Proof.
    unfold get_pixel_data, bytes.
    assert (Hd : forall i c, (i < n)%nat -> (c < m)%nat ->
              dec_bytes P signed (zn0 (nth c planar []) i) = pack_sample P (zn0 samples (i * m + c))).
    { intros i c Hi Hcm. rewrite planar_entry by assumption.
      apply dec_bytes_pack; [exact HP|]. apply sample_range. apply idx_bound; assumption. }
    destruct (Z.eqb_spec comps 1) as [E1|E1].
    - (* getGrayscalePixelData *)
      assert (Hm1 : m = 1%nat) by (unfold m; lia).
      unfold get_gray_pixel_data, zrange. fold n. rewrite flat_map_map'.
      rewrite <- (flat_map_nth_seq (pack_sample P) samples), samples_length, Hm1, Nat.mul_1_r.
      apply flat_map_ext_in'. intros i Hi. apply in_seq in Hi. rewrite Nat2Z.id.
      rewrite (Hd i 0%nat) by lia. rewrite Hm1. do 2 f_equal. lia.
    - (* getInterleavedPixelData *)
      unfold get_interleaved_pixel_data, zrange. fold n m. rewrite flat_map_map'.
      rewrite <- (flat_map_rows (pack_sample P) n m samples samples_length).
      apply flat_map_ext_in'. intros i Hi. apply in_seq in Hi. rewrite flat_map_map'.
      apply flat_map_ext_in'. intros c Hcc. apply in_seq in Hcc. rewrite !Nat2Z.id.
      apply Hd; lia.
  Qed.

  (* the whole-image round trip through the sample front end and back end *)
  Theorem pixel_roundtrip :
    exists data, convert_pixel_data numPixels comps P signed bytes = Ok data /\
      pixel_data_in_range numPixels comps data = true /\
      (forall c i, 0 <= c < comps -> 0 <= i < numPixels ->
         zn0 (nth (Z.to_nat c) data []) (Z.to_nat i) = zn0 samples (Z.to_nat (i * comps + c))) /\
      get_pixel_data numPixels comps P signed
        (level_unshift_all P signed (level_shift_all P signed data)) = bytes.
  Proof.
    exists planar. split; [exact convert_ok|]. split; [|split].
    - unfold pixel_data_in_range.
      assert (Hpl : length planar = m) by (unfold planar; rewrite map_length, seq_length; reflexivity).
      apply andb_true_iff. split.
      + apply Z.leb_le. unfold zlen. rewrite Hpl. unfold m. lia.
      + apply forallb_forall. intros row Hrow. fold m in Hrow. rewrite firstn_all2 in Hrow by lia.
        unfold planar in Hrow. apply in_map_iff in Hrow. destruct Hrow as [c [<- _]].
        apply Z.leb_le. unfold zlen. rewrite map_length, seq_length. unfold n. lia.
    - intros c i Hcr Hir. rewrite planar_entry by (unfold m, n; lia). f_equal. unfold m. nia.
    - rewrite shift_unshift_planar. exact get_pixel_data_planar.
  Qed.
End Pixels.
