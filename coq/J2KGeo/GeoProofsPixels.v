(* pixel_roundtrip: the whole-image version of sample_codec_roundtrip.  For an interleaved
   image of numPixels x comps samples packed in the property's container, convertPixelData
   de-interleaves it into component arrays holding the true sample values, and
   GetPixelData (after level shift and inverse level shift) writes back exactly the input
   bytes — both the single-component (getGrayscalePixelData) and the interleaved
   (getInterleavedPixelData) path. *)
From V Require Import Common.Base J2KGeo.GeoModel J2KGeo.GeoProofsLists J2KGeo.GeoProofsSamples.

(* ------------------------------------------------------------------------------------ *)
(* lists of fixed-size chunks                                                            *)

Lemma flat_map_chunks_length : forall (f : Z -> list Z) k l, (forall a, length (f a) = k) ->
  length (flat_map f l) = (length l * k)%nat.
Proof.
  intros f k l Hk. induction l as [|a l IH]; [reflexivity|].
  cbn [flat_map length]. rewrite app_length, Hk, IH. lia.
Qed.

Lemma nth_flat_map_chunks : forall (f : Z -> list Z) k l j r, (forall a, length (f a) = k) ->
  (j < length l)%nat -> (r < k)%nat ->
  zn0 (flat_map f l) (j * k + r) = zn0 (f (zn0 l j)) r.
Proof.
  intros f k l. induction l as [|a l IH]; intros j r Hk Hj Hr; [simpl in Hj; lia|].
  cbn [flat_map]. unfold zn0 in *. destruct j as [|j].
  - cbn [Nat.mul plus nth]. rewrite app_nth1 by (rewrite Hk; lia). reflexivity.
  - rewrite app_nth2 by (rewrite Hk; nia). rewrite Hk.
    replace (S j * k + r - k)%nat with (j * k + r)%nat by nia. cbn [nth].
    apply IH; [assumption|simpl in Hj; lia|assumption].
Qed.

Lemma flat_map_ext_in' : forall (A B : Type) (f g : A -> list B) l,
  (forall a, In a l -> f a = g a) -> flat_map f l = flat_map g l.
Proof.
  induction l as [|a l IH]; intros H; [reflexivity|]. cbn [flat_map].
  rewrite H by (left; reflexivity). rewrite IH by (intros; apply H; right; assumption). reflexivity.
Qed.

Lemma flat_map_nth_seq : forall (g : Z -> list Z) l,
  flat_map (fun c => g (zn0 l c)) (seq 0 (length l)) = flat_map g l.
Proof.
  intros g l. induction l as [|a l IH]; [reflexivity|].
  cbn [length seq flat_map]. f_equal. rewrite <- seq_shift, flat_map_concat_map, map_map, <- flat_map_concat_map.
  exact IH.
Qed.

Lemma flat_map_rows : forall (g : Z -> list Z) n m l, length l = (n * m)%nat ->
  flat_map (fun i => flat_map (fun c => g (zn0 l (i * m + c))) (seq 0 m)) (seq 0 n) = flat_map g l.
Proof.
  intros g n m. induction n as [|n IH]; intros l Hl.
  - destruct l; [reflexivity|simpl in Hl; lia].
  - cbn [seq flat_map].
    transitivity (flat_map g (firstn m l ++ skipn m l)); [|rewrite firstn_skipn; reflexivity].
    rewrite flat_map_app.
    assert (Hf : length (firstn m l) = m) by (rewrite firstn_length; nia).
    f_equal.
    + rewrite <- (flat_map_nth_seq g (firstn m l)), Hf.
      apply flat_map_ext_in'. intros c Hc. apply in_seq in Hc. cbn [Nat.mul plus].
      unfold zn0. rewrite nth_firstn by lia. reflexivity.
    + rewrite <- seq_shift, flat_map_concat_map, map_map, <- flat_map_concat_map.
      rewrite <- (IH (skipn m l)) by (rewrite skipn_length; nia).
      apply flat_map_ext_in'. intros i _. apply flat_map_ext_in'. intros c _.
      unfold zn0. rewrite nth_skipn. do 2 f_equal. lia.
Qed.
