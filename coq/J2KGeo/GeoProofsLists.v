(* List lemmas shared by the j2kgeo proofs: firstn/skipn arithmetic and the row-major copy
   primitives of GeoModel.v (row_slice, crop, set_row, blit, blit_guarded). *)
From V Require Import Common.Base J2KGeo.GeoModel.

Lemma skipn_add : forall (A : Type) (a b : nat) (l : list A), skipn a (skipn b l) = skipn (b + a) l.
Proof.
  intros A a b. revert a. induction b as [|b IH]; intros a l; [reflexivity|].
  destruct l as [|x l]; [rewrite !skipn_nil; reflexivity|]. cbn [skipn plus]. apply IH.
Qed.

Lemma firstn_add : forall (A : Type) (a b : nat) (l : list A),
  firstn (a + b) l = firstn a l ++ firstn b (skipn a l).
Proof.
  intros A a. induction a as [|a IH]; intros b l; [reflexivity|].
  destruct l as [|x l]; [rewrite !firstn_nil; reflexivity|].
  cbn [plus firstn skipn app]. f_equal. apply IH.
Qed.

Lemma nth_firstn : forall (A : Type) (n i : nat) (l : list A) (d : A), (i < n)%nat ->
  nth i (firstn n l) d = nth i l d.
Proof.
  intros A n. induction n as [|n IH]; intros i l d Hi; [lia|].
  destruct l as [|x l]; [destruct i; reflexivity|].
  destruct i as [|i]; [reflexivity|]. cbn [firstn nth]. apply IH. lia.
Qed.

Lemma nth_skipn : forall (A : Type) (n i : nat) (l : list A) (d : A),
  nth i (skipn n l) d = nth (n + i) l d.
Proof.
  intros A n. induction n as [|n IH]; intros i l d; [reflexivity|].
  destruct l as [|x l]; [destruct i; reflexivity|]. cbn [skipn plus nth]. apply IH.
Qed.

(* ------------------------------------------------------------------------------------ *)
(* row_slice / crop                                                                      *)

Lemma row_slice_length : forall l off n, (off + n <= length l)%nat -> length (row_slice l off n) = n.
Proof. intros. unfold row_slice. rewrite firstn_length, skipn_length. lia. Qed.

Lemma nth_row_slice : forall l off n i, (i < n)%nat -> zn0 (row_slice l off n) i = zn0 l (off + i).
Proof. intros. unfold zn0, row_slice. rewrite nth_firstn by lia. apply nth_skipn. Qed.

(* flat_map of rows of constant length w *)
Lemma flat_map_const_length : forall (f : nat -> list Z) (w : nat) (l : list nat),
  (forall y, In y l -> length (f y) = w) -> length (flat_map f l) = (length l * w)%nat.
Proof.
  intros f w l. induction l as [|y l IH]; intros H; [reflexivity|].
  cbn [flat_map length]. rewrite app_length, H by (left; reflexivity).
  rewrite IH by (intros; apply H; right; assumption). lia.
Qed.

Lemma nth_flat_map_rows : forall (f : nat -> list Z) (w h s y x : nat),
  (forall t, (s <= t < s + h)%nat -> length (f t) = w) -> (y < h)%nat -> (x < w)%nat ->
  zn0 (flat_map f (seq s h)) (y * w + x) = zn0 (f (s + y)%nat) x.
Proof.
  intros f w h. induction h as [|h IH]; intros s y x Hlen Hy Hx; [lia|].
  cbn [seq flat_map]. unfold zn0.
  destruct y as [|y].
  - rewrite Nat.add_0_r. cbn [Nat.mul plus]. rewrite app_nth1 by (rewrite Hlen by lia; lia). reflexivity.
  - rewrite app_nth2 by (rewrite Hlen by lia; nia). rewrite Hlen by lia.
    replace (S y * w + x - w)%nat with (y * w + x)%nat by nia.
    replace (s + S y)%nat with (S s + y)%nat by lia.
    apply (IH (S s) y x); [intros; apply Hlen|..]; lia.
Qed.

Lemma crop_length : forall data stride x0 y0 w h,
  (x0 + w <= stride)%nat -> ((y0 + h) * stride <= length data)%nat -> length (crop data stride x0 y0 w h) = (h * w)%nat.
Proof.
  intros. unfold crop. rewrite (flat_map_const_length _ w).
  - rewrite seq_length. reflexivity.
  - intros y Hy. apply in_seq in Hy. apply row_slice_length. nia.
Qed.

Lemma nth_crop : forall data stride x0 y0 w h x y,
  (x0 + w <= stride)%nat -> ((y0 + h) * stride <= length data)%nat -> (x < w)%nat -> (y < h)%nat ->
  zn0 (crop data stride x0 y0 w h) (y * w + x) = zn0 data ((y0 + y) * stride + x0 + x).
Proof.
  intros data stride x0 y0 w h x y Hx Hy Hxw Hyh. unfold crop.
  rewrite (nth_flat_map_rows _ w h 0 y x); [|intros t Ht; apply row_slice_length; nia|assumption|assumption].
  rewrite Nat.add_0_l, nth_row_slice by assumption. reflexivity.
Qed.

(* ------------------------------------------------------------------------------------ *)
(* set_row / blit                                                                        *)

Lemma set_row_length : forall dst off row, (off + length row <= length dst)%nat ->
  length (set_row dst off row) = length dst.
Proof.
  intros. unfold set_row. rewrite !app_length, firstn_length, skipn_length. lia.
Qed.

Lemma nth_set_row : forall dst off row i, (off + length row <= length dst)%nat ->
  zn0 (set_row dst off row) i =
  if (off <=? i)%nat && (i <? off + length row)%nat then zn0 row (i - off) else zn0 dst i.
Proof.
  intros dst off row i H. unfold set_row, zn0.
  destruct (Nat.leb_spec off i) as [Hle|Hlt]; cbn [andb].
  - rewrite app_nth2 by (rewrite firstn_length; lia). rewrite firstn_length.
    replace (Nat.min off (length dst)) with off by lia.
    destruct (Nat.ltb_spec i (off + length row)) as [Hin|Hout].
    + rewrite app_nth1 by lia. reflexivity.
    + rewrite app_nth2 by lia. rewrite nth_skipn. f_equal. lia.
  - rewrite app_nth1 by (rewrite firstn_length; lia). apply nth_firstn. lia.
Qed.

(* the rows of blit, one at a time (fold_left over seq s h) *)
Definition blit_rows (stride x0 y0 w : nat) (src : list Z) (s h : nat) (dst : list Z) : list Z :=
  fold_left (fun acc ty => set_row acc ((y0 + ty) * stride + x0) (row_slice src (ty * w) w)) (seq s h) dst.

Lemma blit_rows_spec : forall stride x0 y0 w src h s dst,
  (x0 + w <= stride)%nat -> ((y0 + s + h) * stride <= length dst)%nat -> ((s + h) * w <= length src)%nat ->
  length (blit_rows stride x0 y0 w src s h dst) = length dst /\
  forall i, zn0 (blit_rows stride x0 y0 w src s h dst) i =
    let y := (i / stride)%nat in let x := (i mod stride)%nat in
    if (y0 + s <=? y)%nat && (y <? y0 + s + h)%nat && (x0 <=? x)%nat && (x <? x0 + w)%nat
    then zn0 src ((y - y0) * w + (x - x0)) else zn0 dst i.
Proof.
  intros stride x0 y0 w src h. induction h as [|h IH]; intros s dst Hx Hy Hs.
  - unfold blit_rows. cbn [seq fold_left]. split; [reflexivity|]. intros i. cbv zeta.
    destruct (Nat.leb_spec (y0 + s) (i / stride)); destruct (Nat.ltb_spec (i / stride) (y0 + s + 0)); cbn [andb]; try reflexivity; lia.
  - unfold blit_rows. cbn [seq fold_left]. fold (blit_rows stride x0 y0 w src (S s) h).
    set (row := row_slice src (s * w) w).
    assert (Hrl : length row = w) by (apply row_slice_length; nia).
    set (off := ((y0 + s) * stride + x0)%nat).
    assert (Hoff : (off + length row <= length dst)%nat) by (rewrite Hrl; unfold off; nia).
    set (dst1 := set_row dst off row).
    assert (Hl1 : length dst1 = length dst) by (apply set_row_length; exact Hoff).
    destruct (IH (S s) dst1 Hx ltac:(rewrite Hl1; nia) ltac:(nia)) as [HL HN].
    unfold blit_rows in HL, HN.
    split; [rewrite HL; exact Hl1|].
    intros i. rewrite HN. cbv zeta.
    assert (Hst : (0 < stride)%nat \/ stride = 0%nat) by lia.
    destruct Hst as [Hst|Hst0].
    2:{ (* stride = 0 forces w = 0: nothing is ever inside *)
        assert (Hf : forall a, (a <? x0 + w)%nat = false) by (intros; apply Nat.ltb_ge; lia).
        rewrite !Hf, !andb_false_r. unfold dst1. rewrite nth_set_row by exact Hoff. rewrite Hrl.
        destruct (Nat.leb_spec off i); destruct (Nat.ltb_spec i (off + w)); cbn [andb]; try reflexivity; lia. }
    pose proof (Nat.div_mod i stride ltac:(lia)) as Hdm.
    pose proof (Nat.mod_upper_bound i stride ltac:(lia)) as Hmb.
    set (y := (i / stride)%nat) in *. set (x := (i mod stride)%nat) in *.
    unfold dst1. rewrite nth_set_row by exact Hoff. rewrite Hrl.
    destruct (Nat.leb_spec (y0 + S s) y) as [Ha|Ha]; destruct (Nat.ltb_spec y (y0 + S s + h)) as [Hb|Hb];
      destruct (Nat.leb_spec x0 x) as [Hc|Hc]; destruct (Nat.ltb_spec x (x0 + w)) as [Hd|Hd]; cbn [andb].
    all: destruct (Nat.leb_spec (y0 + s) y) as [He|He]; destruct (Nat.ltb_spec y (y0 + s + S h)) as [Hf|Hf]; cbn [andb]; try lia.
    all: destruct (Nat.leb_spec off i) as [Hg|Hg]; destruct (Nat.ltb_spec i (off + w)) as [Hh|Hh]; cbn [andb]; unfold off in *; try reflexivity; try nia.
    all: try (assert (y = (y0 + s)%nat) by nia; subst row; rewrite nth_row_slice by nia; f_equal; nia).
Qed.

Lemma blit_spec : forall dst stride x0 y0 w h src,
  (x0 + w <= stride)%nat -> ((y0 + h) * stride <= length dst)%nat -> (h * w <= length src)%nat ->
  length (blit dst stride x0 y0 w h src) = length dst /\
  forall i, zn0 (blit dst stride x0 y0 w h src) i =
    let y := (i / stride)%nat in let x := (i mod stride)%nat in
    if (y0 <=? y)%nat && (y <? y0 + h)%nat && (x0 <=? x)%nat && (x <? x0 + w)%nat
    then zn0 src ((y - y0) * w + (x - x0)) else zn0 dst i.
Proof.
  intros dst stride x0 y0 w h src Hx Hy Hs.
  pose proof (blit_rows_spec stride x0 y0 w src h 0 dst Hx ltac:(rewrite Nat.add_0_r; exact Hy) ltac:(exact Hs)) as [HL HN].
  unfold blit. fold (blit_rows stride x0 y0 w src 0 h dst). split; [exact HL|].
  intros i. rewrite HN. cbv zeta. rewrite !Nat.add_0_r. reflexivity.
Qed.

(* when the destination guard of blit_guarded never cuts a row it is blit *)
Lemma blit_guarded_eq : forall stride x0 y0 w src h dst,
  (x0 + w <= stride)%nat -> ((y0 + h) * stride <= length dst)%nat -> (h * w <= length src)%nat ->
  blit_guarded dst stride x0 y0 w h src = blit dst stride x0 y0 w h src.
Proof.
  intros stride x0 y0 w src h dst Hx Hy Hs. unfold blit_guarded, blit.
  assert (G : forall hh s d, ((y0 + s + hh) * stride <= length d)%nat -> ((s + hh) * w <= length src)%nat ->
    fold_left (fun acc ty => let off := ((y0 + ty) * stride + x0)%nat in
                 set_row acc off (firstn (length acc - off) (row_slice src (ty * w) w))) (seq s hh) d =
    fold_left (fun acc ty => set_row acc ((y0 + ty) * stride + x0) (row_slice src (ty * w) w)) (seq s hh) d).
  { induction hh as [|hh IH]; intros s d Hd Hsrc; [reflexivity|].
    cbn [seq fold_left]. cbv zeta.
    assert (Hrl : length (row_slice src (s * w) w) = w) by (apply row_slice_length; nia).
    rewrite firstn_all2 by (rewrite Hrl; nia).
    apply IH; [|nia]. rewrite set_row_length by (rewrite Hrl; nia). nia. }
  apply (G h 0%nat dst); [rewrite Nat.add_0_r; exact Hy|exact Hs].
Qed.

Lemma zeros_length : forall n, length (zeros n) = n.
Proof. intros. unfold zeros. apply repeat_length. Qed.

(* equality of two lists of the same length from equality of all entries *)
Lemma zn0_ext : forall (a b : list Z), length a = length b ->
  (forall i, (i < length a)%nat -> zn0 a i = zn0 b i) -> a = b.
Proof. intros a b Hl H. apply (nth_ext a b 0 0 Hl). intros n Hn. apply H. exact Hn. Qed.

(* ------------------------------------------------------------------------------------ *)
(* copying a rectangle out of an array and back into an array of the same shape          *)

Definition inside (Wn x0 y0 w h i : nat) : bool :=
  (y0 <=? i / Wn)%nat && (i / Wn <? y0 + h)%nat && (x0 <=? i mod Wn)%nat && (i mod Wn <? x0 + w)%nat.

Lemma blit_crop_spec : forall img dst Wn Hn x0 y0 w h,
  (x0 + w <= Wn)%nat -> (y0 + h <= Hn)%nat -> length img = (Wn * Hn)%nat -> length dst = (Wn * Hn)%nat ->
  length (blit dst Wn x0 y0 w h (crop img Wn x0 y0 w h)) = (Wn * Hn)%nat /\
  forall i, (i < Wn * Hn)%nat ->
    zn0 (blit dst Wn x0 y0 w h (crop img Wn x0 y0 w h)) i =
    if inside Wn x0 y0 w h i then zn0 img i else zn0 dst i.
Proof.
  intros img dst Wn Hn x0 y0 w h Hx Hy Hli Hld.
  assert (Hc : length (crop img Wn x0 y0 w h) = (h * w)%nat) by (apply crop_length; nia).
  destruct (blit_spec dst Wn x0 y0 w h (crop img Wn x0 y0 w h) Hx ltac:(nia) ltac:(lia)) as [HL HN].
  split; [lia|]. intros i Hi. rewrite HN. cbv zeta. unfold inside.
  destruct (Nat.leb_spec y0 (i / Wn)) as [Ha|Ha]; destruct (Nat.ltb_spec (i / Wn) (y0 + h)) as [Hb|Hb];
    destruct (Nat.leb_spec x0 (i mod Wn)) as [Hc'|Hc']; destruct (Nat.ltb_spec (i mod Wn) (x0 + w)) as [Hd|Hd];
    cbn [andb]; try reflexivity.
  rewrite nth_crop by (try nia; lia).
  assert (Wn <> 0)%nat by nia.
  pose proof (Nat.div_mod i Wn ltac:(lia)) as Hdm. f_equal. nia.
Qed.
