(* tiles_partition: the encoder's tile rectangles (Encoder.tileBounds), the decoder's
   (TileLayout.GetTileBounds used by AssembleTile, t2.NewTileDecoder used for the inverse
   DWT origin) coincide, are non-empty, pairwise disjoint and cover the image; tile extraction
   followed by AssembleTile is the identity on the image array. *)
From V Require Import Common.Base J2KGeo.GeoModel J2KGeo.GeoProofsLists.

Ltac rect_eq := apply (f_equal2 pair); [apply (f_equal2 pair); [apply (f_equal2 pair)|]|]; lia.

Definition rect_contains (r : rect) (x y : Z) : Prop :=
  let '(x0, y0, x1, y1) := r in x0 <= x < x1 /\ y0 <= y < y1.

(* ------------------------------------------------------------------------------------ *)
(* 1-D facts                                                                              *)

Lemma num_tiles_spec : forall N T, 1 <= T -> 1 <= N ->
  let n := enc_num_tiles N T in 1 <= n /\ (n - 1) * T < N <= n * T.
Proof.
  intros N T HT HN. cbv zeta. unfold enc_num_tiles. rewrite Z.quot_div_nonneg by lia.
  pose proof (Z.div_mod (N + T - 1) T ltac:(lia)) as Hdm.
  pose proof (Z.mod_pos_bound (N + T - 1) T ltac:(lia)) as Hmb.
  set (q := (N + T - 1) / T) in *. set (r := (N + T - 1) mod T) in *. nia.
Qed.

Lemma div_interval : forall T k x, 0 < T -> k * T <= x < k * T + T -> k = x / T.
Proof. intros T k x HT H. apply Z.div_unique with (r := x - k * T); lia. Qed.

Lemma idx_split : forall idx n, 0 < n -> 0 <= idx ->
  Z.rem idx n = idx mod n /\ Z.quot idx n = idx / n /\ 0 <= idx mod n < n /\ idx = (idx / n) * n + idx mod n.
Proof.
  intros idx n Hn Hi. rewrite Z.rem_mod_nonneg, Z.quot_div_nonneg by lia.
  pose proof (Z.div_mod idx n ltac:(lia)). pose proof (Z.mod_pos_bound idx n ltac:(lia)).
  repeat split; try lia.
Qed.

Lemma idx_row_col : forall idx nx ny, 0 < nx -> 0 <= idx < nx * ny -> 0 <= idx / nx < ny.
Proof.
  intros idx nx ny Hnx Hi. split; [apply Z.div_pos; lia|].
  apply Z.div_lt_upper_bound; lia.
Qed.

(* ------------------------------------------------------------------------------------ *)
(* the rectangles                                                                         *)

Section Tiles.
  Variables W H TW TH : Z.
  Hypothesis HTW : 1 <= TW <= W.
  Hypothesis HTH : 1 <= TH <= H.

  Let ntx := enc_num_tiles W TW.
  Let nty := enc_num_tiles H TH.

  Lemma ntx_spec : 1 <= ntx /\ (ntx - 1) * TW < W <= ntx * TW.
  Proof. apply num_tiles_spec; lia. Qed.
  Lemma nty_spec : 1 <= nty /\ (nty - 1) * TH < H <= nty * TH.
  Proof. apply num_tiles_spec; lia. Qed.

  (* explicit form of Encoder.tileBounds *)
  Lemma enc_tile_bounds_explicit : forall idx, 0 <= idx < ntx * nty ->
    let tx := idx mod ntx in let ty := idx / ntx in
    enc_tile_bounds W H idx TW TH ntx = (tx * TW, ty * TH, Z.min (tx * TW + TW) W, Z.min (ty * TH + TH) H) /\
    0 <= tx < ntx /\ 0 <= ty < nty.
  Proof.
    intros idx Hi. cbv zeta. destruct ntx_spec as [Hn1 _].
    destruct (idx_split idx ntx ltac:(lia) ltac:(lia)) as [Hr [Hq [Hm _]]].
    pose proof (idx_row_col idx ntx nty ltac:(lia) Hi) as Hrow.
    unfold enc_tile_bounds. rewrite Hr, Hq.
    split; [|split; assumption].
    destruct (Z.gtb_spec (idx mod ntx * TW + TW) W); destruct (Z.gtb_spec (idx / ntx * TH + TH) H);
      rect_eq.
  Qed.

  (* non-empty and inside the image; the tile origin is (tx*TW, ty*TH) *)
  Lemma enc_tile_nonempty : forall idx, 0 <= idx < ntx * nty ->
    let '(x0, y0, x1, y1) := enc_tile_bounds W H idx TW TH ntx in
    0 <= x0 /\ x0 < x1 /\ x1 <= W /\ 0 <= y0 /\ y0 < y1 /\ y1 <= H /\
    x0 = (idx mod ntx) * TW /\ y0 = (idx / ntx) * TH /\ x1 - x0 <= TW /\ y1 - y0 <= TH.
  Proof.
    intros idx Hi. destruct (enc_tile_bounds_explicit idx Hi) as [He [Hx Hy]]. cbv zeta in He. rewrite He.
    destruct ntx_spec as [_ Hsx]. destruct nty_spec as [_ Hsy].
    assert (idx mod ntx * TW < W) by nia. assert (idx / ntx * TH < H) by nia.
    repeat split; try lia; try nia.
  Qed.

  (* TileLayout (NewTileLayout from the SIZ the encoder writes) gives the same rectangles *)
  Lemma layout_agrees : forall idx, 0 <= idx < ntx * nty ->
    let tl := new_tile_layout W H 0 0 TW TH 0 0 in
    tile_count tl = ntx * nty /\ tl_imageWidth tl = W /\ tl_imageHeight tl = H /\
    layout_tile_bounds tl idx = enc_tile_bounds W H idx TW TH ntx.
  Proof.
    intros idx Hi. cbv zeta.
    assert (Hcx : ceil_div (W - 0) TW = ntx).
    { unfold ceil_div, ntx, enc_num_tiles. destruct (Z.leb_spec TW 0); [lia|].
      destruct (Z.geb_spec (W - 0) 0); [|lia]. f_equal. lia. }
    assert (Hcy : ceil_div (H - 0) TH = nty).
    { unfold ceil_div, nty, enc_num_tiles. destruct (Z.leb_spec TH 0); [lia|].
      destruct (Z.geb_spec (H - 0) 0); [|lia]. f_equal. lia. }
    unfold new_tile_layout, tile_count. cbn [tl_numTilesX tl_numTilesY tl_imageWidth tl_imageHeight].
    rewrite Hcx, Hcy. split; [reflexivity|]. split; [lia|]. split; [lia|].
    unfold layout_tile_bounds, tile_count.
    cbn [tl_numTilesX tl_numTilesY tl_tileWidth tl_tileHeight tl_tileOffsetX tl_tileOffsetY tl_imageX0 tl_imageY0 tl_imageX1 tl_imageY1].
    destruct (Z.ltb_spec idx 0); [lia|]. destruct (Z.geb_spec idx (ntx * nty)); [lia|]. cbn [orb].
    destruct (enc_tile_bounds_explicit idx Hi) as [He [Hx Hy]]. cbv zeta in He. rewrite He.
    destruct ntx_spec as [Hn1 _].
    destruct (idx_split idx ntx ltac:(lia) ltac:(lia)) as [Hr [Hq _]]. rewrite Hr, Hq.
    rewrite !Z.add_0_r.
    destruct (Z.ltb_spec (idx mod ntx * TW) 0); [nia|]. destruct (Z.ltb_spec (idx / ntx * TH) 0); [nia|].
    destruct (Z.gtb_spec (idx mod ntx * TW + TW) W); destruct (Z.gtb_spec (idx / ntx * TH + TH) H);
      rect_eq.
  Qed.

  (* t2.NewTileDecoder derives the same rectangle (tile count per row computed in uint32);
     with XRsiz = YRsiz = 1 its (x0, y0) is the origin handed to the inverse DWT *)
  Lemma decoder_agrees : forall idx, W < 2 ^ 31 -> 0 <= idx < ntx * nty ->
    dec_tile_bounds idx W H 0 0 TW TH 0 0 = enc_tile_bounds W H idx TW TH ntx.
  Proof.
    intros idx HW Hi. unfold dec_tile_bounds.
    assert (Hw : wrapU 32 (wrapU 32 (wrapU 32 (W - 0) + TW) - 1) = W + TW - 1).
    { unfold wrapU. change (2 ^ 31) with 2147483648 in HW. change (2 ^ 32) with 4294967296.
      rewrite (Z.mod_small (W - 0)) by lia. rewrite (Z.mod_small (W - 0 + TW)) by lia.
      rewrite Z.mod_small by lia. lia. }
    rewrite Hw. fold (enc_num_tiles W TW). fold ntx.
    destruct ntx_spec as [Hn1 _]. destruct (Z.leb_spec ntx 0); [lia|].
    destruct (enc_tile_bounds_explicit idx Hi) as [He [Hx Hy]]. cbv zeta in He. rewrite He.
    destruct (idx_split idx ntx ltac:(lia) ltac:(lia)) as [Hr [Hq _]]. rewrite Hr, Hq.
    rewrite !Z.add_0_l.
    destruct (Z.ltb_spec (idx mod ntx * TW) 0); [nia|]. destruct (Z.ltb_spec (idx / ntx * TH) 0); [nia|].
    destruct (Z.gtb_spec (idx mod ntx * TW + TW) W); destruct (Z.gtb_spec (idx / ntx * TH + TH) H);
      rect_eq.
  Qed.

  (* cover: every pixel lies in the tile (y/TH)*ntx + x/TW *)
  Lemma tiles_cover : forall x y, 0 <= x < W -> 0 <= y < H ->
    let idx := (y / TH) * ntx + x / TW in
    0 <= idx < ntx * nty /\ rect_contains (enc_tile_bounds W H idx TW TH ntx) x y.
  Proof.
    intros x y Hx Hy. cbv zeta.
    destruct ntx_spec as [Hn1 Hsx]. destruct nty_spec as [Hm1 Hsy].
    assert (Hqx : 0 <= x / TW < ntx) by (split; [apply Z.div_pos; lia|apply Z.div_lt_upper_bound; nia]).
    assert (Hqy : 0 <= y / TH < nty) by (split; [apply Z.div_pos; lia|apply Z.div_lt_upper_bound; nia]).
    set (idx := y / TH * ntx + x / TW).
    assert (Hi : 0 <= idx < ntx * nty) by (unfold idx; nia).
    split; [exact Hi|].
    destruct (enc_tile_bounds_explicit idx Hi) as [He _]. cbv zeta in He. rewrite He.
    assert (Hmod : idx mod ntx = x / TW).
    { unfold idx. rewrite Z.add_comm, Z.mod_add by lia. apply Z.mod_small. lia. }
    assert (Hdiv : idx / ntx = y / TH).
    { unfold idx. rewrite Z.add_comm, Z.div_add by lia. rewrite (Z.div_small (x / TW)) by lia. lia. }
    rewrite Hmod, Hdiv.
    pose proof (Z.div_mod x TW ltac:(lia)). pose proof (Z.mod_pos_bound x TW ltac:(lia)).
    pose proof (Z.div_mod y TH ltac:(lia)). pose proof (Z.mod_pos_bound y TH ltac:(lia)).
    unfold rect_contains. lia.
  Qed.

  (* pairwise disjoint: a pixel determines its tile *)
  Lemma tiles_disjoint : forall i j x y, 0 <= i < ntx * nty -> 0 <= j < ntx * nty ->
    rect_contains (enc_tile_bounds W H i TW TH ntx) x y ->
    rect_contains (enc_tile_bounds W H j TW TH ntx) x y -> i = j.
  Proof.
    intros i j x y Hi Hj Ci Cj.
    destruct (enc_tile_bounds_explicit i Hi) as [Hei [Hxi Hyi]]. cbv zeta in Hei. rewrite Hei in Ci.
    destruct (enc_tile_bounds_explicit j Hj) as [Hej [Hxj Hyj]]. cbv zeta in Hej. rewrite Hej in Cj.
    unfold rect_contains in Ci, Cj.
    destruct ntx_spec as [Hn1 _].
    assert (E1 : i mod ntx = x / TW) by (apply div_interval; lia).
    assert (E2 : j mod ntx = x / TW) by (apply div_interval; lia).
    assert (E3 : i / ntx = y / TH) by (apply div_interval; lia).
    assert (E4 : j / ntx = y / TH) by (apply div_interval; lia).
    pose proof (Z.div_mod i ntx ltac:(lia)). pose proof (Z.div_mod j ntx ltac:(lia)). nia.
  Qed.
End Tiles.

(* ------------------------------------------------------------------------------------ *)
(* data level: extraction followed by assembly                                           *)

Lemma inside_iff : forall Wn x0 y0 x1 y1 i, 0 <= x0 <= x1 -> 0 <= y0 <= y1 ->
  inside Wn (Z.to_nat x0) (Z.to_nat y0) (Z.to_nat (x1 - x0)) (Z.to_nat (y1 - y0)) i = true <->
  rect_contains (x0, y0, x1, y1) (Z.of_nat (i mod Wn)) (Z.of_nat (i / Wn)).
Proof.
  intros Wn x0 y0 x1 y1 i Hx Hy. unfold inside, rect_contains.
  rewrite !andb_true_iff, !Nat.leb_le, !Nat.ltb_lt. lia.
Qed.

Section TileData.
  Variables W H TW TH : Z.
  Hypothesis HTW : 1 <= TW <= W.
  Hypothesis HTH : 1 <= TH <= H.
  Variable img : list Z.
  Hypothesis Himg : zlen img = W * H.

  Let ntx := enc_num_tiles W TW.
  Let nty := enc_num_tiles H TH.
  Let tl := new_tile_layout W H 0 0 TW TH 0 0.
  Let bounds (idx : Z) : rect := enc_tile_bounds W H idx TW TH ntx.
  Let Wn := Z.to_nat W.
  Let Hn := Z.to_nat H.

  Lemma assemble_inv : forall k s acc, (s + k = Z.to_nat (ntx * nty))%nat ->
    length acc = (Wn * Hn)%nat ->
    (forall i, (i < Wn * Hn)%nat -> zn0 acc i = zn0 img i \/
       exists idx, (s <= idx < s + k)%nat /\
         rect_contains (bounds (Z.of_nat idx)) (Z.of_nat (i mod Wn)) (Z.of_nat (i / Wn))) ->
    assemble_tiles tl acc (Z.of_nat s) (map (extract_tile img W) (map bounds (map Z.of_nat (seq s k)))) = Ok img.
  Proof.
    assert (Hil : length img = (Wn * Hn)%nat) by (unfold zlen, Wn, Hn in *; nia).
    induction k as [|k IH]; intros s acc Hsk Hlen Hinv.
    - cbn [seq map assemble_tiles]. f_equal. apply zn0_ext; [lia|].
      intros i Hi. destruct (Hinv i ltac:(lia)) as [E|[idx [Hr _]]]; [exact E|lia].
    - cbn [seq map assemble_tiles].
      assert (Hs : 0 <= Z.of_nat s < ntx * nty) by lia.
      destruct (layout_agrees W H TW TH HTW HTH (Z.of_nat s) Hs) as [Hcnt [Hw [Hh Hb]]].
      fold tl in Hcnt, Hw, Hh, Hb. fold ntx nty in Hcnt. fold ntx in Hb. fold (bounds (Z.of_nat s)) in Hb.
      pose proof (enc_tile_nonempty W H TW TH HTW HTH (Z.of_nat s) Hs) as Hne.
      fold ntx in Hne. fold (bounds (Z.of_nat s)) in Hne.
      unfold assemble_tile. rewrite Hcnt, Hb, Hw.
      destruct (Z.ltb_spec (Z.of_nat s) 0); [lia|]. destruct (Z.geb_spec (Z.of_nat s) (ntx * nty)); [lia|]. cbn [orb].
      destruct (bounds (Z.of_nat s)) as [[[x0 y0] x1] y1] eqn:Eb.
      destruct Hne as [Hx0 [Hx01 [Hx1 [Hy0 [Hy01 [Hy1 _]]]]]].
      change (extract_tile img W (x0, y0, x1, y1))
        with (crop img Wn (Z.to_nat x0) (Z.to_nat y0) (Z.to_nat (x1 - x0)) (Z.to_nat (y1 - y0))).
      set (tile := crop img Wn (Z.to_nat x0) (Z.to_nat y0) (Z.to_nat (x1 - x0)) (Z.to_nat (y1 - y0))).
      assert (Htl : length tile = (Z.to_nat (y1 - y0) * Z.to_nat (x1 - x0))%nat).
      { apply crop_length; unfold Wn, Hn in *; [lia|nia]. }
      assert (Hzt : zlen tile = (x1 - x0) * (y1 - y0)).
      { unfold zlen. rewrite Htl, Nat2Z.inj_mul, !Z2Nat.id by lia. lia. }
      rewrite Hzt, Z.eqb_refl. cbn [negb obind].
      destruct (blit_crop_spec img acc Wn Hn (Z.to_nat x0) (Z.to_nat y0) (Z.to_nat (x1 - x0)) (Z.to_nat (y1 - y0))
                  ltac:(unfold Wn; lia) ltac:(unfold Hn; lia) Hil Hlen) as [HL HN].
      fold tile in HL, HN.
      replace (Z.of_nat s + 1) with (Z.of_nat (S s)) by lia.
      apply IH; [lia|exact HL|].
      intros i Hi. rewrite HN by exact Hi.
      destruct (inside Wn (Z.to_nat x0) (Z.to_nat y0) (Z.to_nat (x1 - x0)) (Z.to_nat (y1 - y0)) i) eqn:Ein; [left; reflexivity|].
      destruct (Hinv i Hi) as [E|[idx [Hr Hc]]]; [left; exact E|].
      right. exists idx. split; [|exact Hc].
      assert (idx <> s).
      { intros ->. rewrite Eb in Hc. apply (inside_iff Wn x0 y0 x1 y1 i) in Hc; [congruence|lia|lia]. }
      lia.
  Qed.

  Theorem tile_roundtrip_id : tile_roundtrip img W H TW TH = Ok img.
  Proof.
    unfold tile_roundtrip. fold tl.
    destruct (num_tiles_spec W TW ltac:(lia) ltac:(lia)) as [Hn1 _]. destruct (num_tiles_spec H TH ltac:(lia) ltac:(lia)) as [Hm1 _].
    fold ntx in Hn1. fold nty in Hm1.
    destruct (layout_agrees W H TW TH HTW HTH 0 ltac:(fold ntx nty; nia)) as [_ [Hw [Hh _]]]. fold tl in Hw, Hh.
    rewrite Hw, Hh. unfold enc_tiles, zrange. fold ntx nty.
    change (fun idx => enc_tile_bounds W H idx TW TH ntx) with bounds.
    apply (assemble_inv (Z.to_nat (ntx * nty)) 0 (zeros (Z.to_nat (W * H)))).
    - lia.
    - rewrite zeros_length. unfold Wn, Hn. nia.
    - intros i Hi. right.
      assert (HWn : (0 < Wn)%nat) by (unfold Wn; lia).
      pose proof (Nat.div_mod i Wn ltac:(lia)) as Hdm. pose proof (Nat.mod_upper_bound i Wn ltac:(lia)) as Hmb.
      assert (Hy : (i / Wn < Hn)%nat) by (apply Nat.div_lt_upper_bound; lia).
      destruct (tiles_cover W H TW TH HTW HTH (Z.of_nat (i mod Wn)) (Z.of_nat (i / Wn))
                  ltac:(unfold Wn in *; lia) ltac:(unfold Hn in *; lia)) as [Hr Hc].
      fold ntx nty in Hr, Hc.
      set (idx := Z.of_nat (i / Wn) / TH * ntx + Z.of_nat (i mod Wn) / TW) in *.
      exists (Z.to_nat idx). split; [lia|]. rewrite Z2Nat.id by lia. exact Hc.
  Qed.
End TileData.
