(* bands_partition, band_split_matches_dwt: the band rectangles of bandInfosForResolution
   (encoder.go and t2/geometry.go) partition the coefficient array, agree between encoder and
   decoder, and are the windows the 5/3 DWT model (V.DWT.DwtModel) transforms. *)
From V Require Import Common.Base J2KGeo.GeoModel DWT.DwtModel.

(* ------------------------------------------------------------------------------------ *)
(* 1-D split                                                                              *)

Lemma is_even_z_even : forall v, is_even_z v = Z.even v.
Proof.
  intros v. unfold is_even_z. change 1 with (Z.ones 1). rewrite Z.land_ones by lia.
  change (2 ^ 1) with 2. rewrite Zmod_even. destruct (Z.even v); reflexivity.
Qed.

Lemma split_len_range : forall n e, 0 <= n -> 0 <= split_len n e <= n.
Proof.
  intros n e Hn. unfold split_len. destruct e; rewrite Z.quot_div_nonneg by lia.
  - pose proof (Z.div_mod (n + 1) 2 ltac:(lia)). pose proof (Z.mod_pos_bound (n + 1) 2 ltac:(lia)). lia.
  - pose proof (Z.div_mod n 2 ltac:(lia)). pose proof (Z.mod_pos_bound n 2 ltac:(lia)). lia.
Qed.

(* ------------------------------------------------------------------------------------ *)
(* the chain of windows                                                                   *)

Lemma win_iter_S : forall n wn, win_iter (S n) wn = win_step (win_iter n wn).
Proof. induction n as [|n IH]; intros wn; [reflexivity|]. cbn [win_iter] in *. rewrite <- IH. reflexivity. Qed.

Definition winW (wn : win) : Z := let '(w, _, _, _) := wn in w.
Definition winH (wn : win) : Z := let '(_, h, _, _) := wn in h.

Lemma win_step_range : forall wn, 0 <= winW wn -> 0 <= winH wn ->
  0 <= winW (win_step wn) <= winW wn /\ 0 <= winH (win_step wn) <= winH wn.
Proof.
  intros [[[w h] x0] y0] Hw Hh. cbn [winW winH win_step] in *.
  split; apply split_len_range; assumption.
Qed.

Lemma win_iter_range : forall n wn, 0 <= winW wn -> 0 <= winH wn ->
  0 <= winW (win_iter n wn) <= winW wn /\ 0 <= winH (win_iter n wn) <= winH wn.
Proof.
  induction n as [|n IH]; intros wn Hw Hh; [cbn [win_iter]; lia|].
  rewrite win_iter_S. destruct (IH wn Hw Hh) as [H1 H2].
  destruct (win_step_range (win_iter n wn) ltac:(lia) ltac:(lia)). lia.
Qed.

Lemma win_iter_mono : forall a b wn, (a <= b)%nat -> 0 <= winW wn -> 0 <= winH wn ->
  winW (win_iter b wn) <= winW (win_iter a wn) /\ winH (win_iter b wn) <= winH (win_iter a wn).
Proof.
  intros a b wn Hab Hw Hh. induction Hab as [|b Hab IH]; [lia|].
  rewrite win_iter_S. destruct (win_iter_range b wn Hw Hh) as [H1 H2].
  destruct (win_step_range (win_iter b wn) ltac:(lia) ltac:(lia)). lia.
Qed.

(* ------------------------------------------------------------------------------------ *)
(* one resolution                                                                         *)

Definition in_band (b : band) (x y : Z) : Prop :=
  b_ox b <= x < b_ox b + b_w b /\ b_oy b <= y < b_oy b + b_h b.

Section Bands.
  Variables w h x0 y0 numLevels : Z.
  Hypothesis Hw : 0 <= w.
  Hypothesis Hh : 0 <= h.
  Hypothesis Hlv : 0 <= numLevels.

  Let D (k : nat) : win := win_iter k (w, h, x0, y0).
  Let rW (res : Z) : Z := winW (D (level_no numLevels res)).
  Let rH (res : Z) : Z := winH (D (level_no numLevels res)).

  Lemma enc_res_dims_eq : forall res, enc_res_dims w h x0 y0 numLevels res = (rW res, rH res).
  Proof.
    intros res. unfold enc_res_dims, rW, rH, D.
    destruct (win_iter (level_no numLevels res) (w, h, x0, y0)) as [[[a b] c] d]. reflexivity.
  Qed.

  Lemma level_no_pred : forall res, 1 <= res <= numLevels ->
    level_no numLevels (res - 1) = S (level_no numLevels res).
  Proof.
    intros res Hr. unfold level_no.
    destruct (Z.ltb_spec (numLevels - (res - 1)) 0); destruct (Z.ltb_spec (numLevels - res) 0); lia.
  Qed.

  Lemma level_no_top : level_no numLevels numLevels = 0%nat.
  Proof. unfold level_no. rewrite Z.sub_diag. reflexivity. Qed.

  Lemma res_dims_range : forall res, 0 <= rW res <= w /\ 0 <= rH res <= h.
  Proof. intros res. unfold rW, rH, D. apply (win_iter_range _ (w, h, x0, y0)); assumption. Qed.

  Lemma res_dims_low : forall res, 1 <= res <= numLevels ->
    0 <= rW (res - 1) <= rW res /\ 0 <= rH (res - 1) <= rH res.
  Proof.
    intros res Hr. unfold rW, rH. rewrite (level_no_pred res Hr). unfold D. rewrite win_iter_S.
    destruct (win_iter_range (level_no numLevels res) (w, h, x0, y0) Hw Hh) as [H1 H2].
    destruct (win_step_range (win_iter (level_no numLevels res) (w, h, x0, y0)) ltac:(lia) ltac:(lia)). lia.
  Qed.

  Lemma res_dims_mono : forall r1 r2, 0 <= r1 <= r2 -> r2 <= numLevels ->
    rW r1 <= rW r2 /\ rH r1 <= rH r2.
  Proof.
    intros r1 r2 H12 H2. unfold rW, rH, D.
    apply (win_iter_mono (level_no numLevels r2) (level_no numLevels r1) (w, h, x0, y0)); try assumption.
    unfold level_no. destruct (Z.ltb_spec (numLevels - r1) 0); destruct (Z.ltb_spec (numLevels - r2) 0); lia.
  Qed.

  Lemma res_dims_top : rW numLevels = w /\ rH numLevels = h.
  Proof. unfold rW, rH, D. rewrite level_no_top. split; reflexivity. Qed.

  (* explicit band list *)
  Lemma enc_band_infos_0 : enc_band_infos w h x0 y0 numLevels 0 = [mkBand 0 (rW 0) (rH 0) 0 0].
  Proof. unfold enc_band_infos. rewrite enc_res_dims_eq. reflexivity. Qed.

  Lemma enc_band_infos_pos : forall res, 1 <= res ->
    enc_band_infos w h x0 y0 numLevels res =
    [mkBand 1 (rW res - rW (res - 1)) (rH (res - 1)) (rW (res - 1)) 0;
     mkBand 2 (rW (res - 1)) (rH res - rH (res - 1)) 0 (rH (res - 1));
     mkBand 3 (rW res - rW (res - 1)) (rH res - rH (res - 1)) (rW (res - 1)) (rH (res - 1))].
  Proof.
    intros res Hr. unfold enc_band_infos. rewrite !enc_res_dims_eq.
    destruct (Z.eqb_spec res 0); [lia|]. reflexivity.
  Qed.

  (* the decoder's copy of the function returns the same bands (and the same dimensions) *)
  Lemma dec_band_infos_agree : forall res,
    snd (dec_band_infos w h x0 y0 numLevels res) = enc_band_infos w h x0 y0 numLevels res /\
    (let '(rw, rh, _, _) := fst (dec_band_infos w h x0 y0 numLevels res) in (rw, rh))
      = enc_res_dims w h x0 y0 numLevels res.
  Proof.
    intros res. unfold dec_band_infos, enc_band_infos, enc_res_dims, dec_res_dims.
    destruct (win_iter (level_no numLevels res) (w, h, x0, y0)) as [[[a b] c] d].
    destruct (Z.eqb_spec res 0); [split; reflexivity|].
    destruct (win_iter (level_no numLevels (res - 1)) (w, h, x0, y0)) as [[[a' b'] c'] d'].
    split; reflexivity.
  Qed.

  (* every band has non-negative size and lies inside its resolution rectangle *)
  Lemma bands_inside : forall res b, 0 <= res <= numLevels -> In b (enc_band_infos w h x0 y0 numLevels res) ->
    0 <= b_w b /\ 0 <= b_h b /\ 0 <= b_ox b /\ 0 <= b_oy b /\
    b_ox b + b_w b <= rW res /\ b_oy b + b_h b <= rH res.
  Proof.
    intros res b Hr Hin. destruct (Z.eq_dec res 0) as [->|Hnz].
    - rewrite enc_band_infos_0 in Hin. destruct Hin as [<-|[]]. cbn [b_w b_h b_ox b_oy].
      pose proof (res_dims_range 0). lia.
    - rewrite enc_band_infos_pos in Hin by lia. pose proof (res_dims_low res ltac:(lia)).
      destruct Hin as [<-|[<-|[<-|[]]]]; cbn [b_w b_h b_ox b_oy]; lia.
  Qed.

  Lemma bands_inside_array : forall res b, 0 <= res <= numLevels -> In b (enc_band_infos w h x0 y0 numLevels res) ->
    0 <= b_w b /\ 0 <= b_h b /\ 0 <= b_ox b /\ 0 <= b_oy b /\ b_ox b + b_w b <= w /\ b_oy b + b_h b <= h.
  Proof.
    intros res b Hr Hin. pose proof (bands_inside res b Hr Hin). pose proof (res_dims_range res). lia.
  Qed.

  (* per resolution: the three bands and the lower-resolution rectangle partition the
     resolution rectangle (lowW + highW = resW, lowH + highH = resH) *)
  Lemma bands_partition_res : forall res x y, 1 <= res <= numLevels ->
    0 <= x < rW res -> 0 <= y < rH res ->
    let bs := enc_band_infos w h x0 y0 numLevels res in
    let lower := x < rW (res - 1) /\ y < rH (res - 1) in
    (lower \/ exists b, In b bs /\ in_band b x y) /\
    (lower -> forall b, In b bs -> ~ in_band b x y) /\
    (forall b1 b2, In b1 bs -> In b2 bs -> in_band b1 x y -> in_band b2 x y -> b1 = b2).
  Proof.
    intros res x y Hr Hx Hy. cbv zeta. rewrite enc_band_infos_pos by lia.
    pose proof (res_dims_low res Hr) as Hl.
    set (lw := rW (res - 1)) in *. set (lh := rH (res - 1)) in *.
    split; [|split].
    - destruct (Z_lt_le_dec x lw); destruct (Z_lt_le_dec y lh).
      + left. lia.
      + right. eexists. split; [right; left; reflexivity|]. unfold in_band. cbn. lia.
      + right. eexists. split; [left; reflexivity|]. unfold in_band. cbn. lia.
      + right. eexists. split; [right; right; left; reflexivity|]. unfold in_band. cbn. lia.
    - intros [L1 L2] b Hin. unfold in_band.
      destruct Hin as [<-|[<-|[<-|[]]]]; cbn [b_w b_h b_ox b_oy]; lia.
    - intros b1 b2 H1 H2. unfold in_band.
      destruct H1 as [<-|[<-|[<-|[]]]]; destruct H2 as [<-|[<-|[<-|[]]]]; cbn [b_w b_h b_ox b_oy];
        intros; try reflexivity; lia.
  Qed.

  (* over all resolutions: every coefficient position lies in exactly one band *)
  Lemma bands_cover_upto : forall (k : nat) x y, Z.of_nat k <= numLevels ->
    0 <= x < rW (Z.of_nat k) -> 0 <= y < rH (Z.of_nat k) ->
    exists res b, 0 <= res <= Z.of_nat k /\ In b (enc_band_infos w h x0 y0 numLevels res) /\ in_band b x y.
  Proof.
    induction k as [|k IH]; intros x y Hk Hx Hy.
    - exists 0. eexists. split; [lia|]. rewrite enc_band_infos_0. split; [left; reflexivity|].
      unfold in_band. cbn. cbn in Hx, Hy. lia.
    - destruct (bands_partition_res (Z.of_nat (S k)) x y ltac:(lia) Hx Hy) as [[[L1 L2]|[b [Hin Hb]]] _].
      + replace (Z.of_nat (S k) - 1) with (Z.of_nat k) in L1, L2 by lia.
        destruct (IH x y ltac:(lia) ltac:(lia) ltac:(lia)) as [res [b [Hr Hb]]].
        exists res, b. split; [lia|exact Hb].
      + exists (Z.of_nat (S k)), b. split; [lia|]. split; assumption.
  Qed.

  Theorem bands_cover : forall x y, 0 <= x < w -> 0 <= y < h ->
    exists res b, 0 <= res <= numLevels /\ In b (enc_band_infos w h x0 y0 numLevels res) /\ in_band b x y.
  Proof.
    intros x y Hx Hy. destruct res_dims_top as [Tw Th].
    destruct (bands_cover_upto (Z.to_nat numLevels) x y) as [res [b [Hr Hb]]]; rewrite ?Z2Nat.id by lia; try lia.
    exists res, b. split; [lia|exact Hb].
  Qed.

  (* a point of a band of resolution res lies inside R(res) and, for res >= 1, outside R(res-1) *)
  Lemma band_point : forall res b x y, 0 <= res <= numLevels ->
    In b (enc_band_infos w h x0 y0 numLevels res) -> in_band b x y ->
    0 <= x < rW res /\ 0 <= y < rH res /\ (1 <= res -> ~ (x < rW (res - 1) /\ y < rH (res - 1))).
  Proof.
    intros res b x y Hr Hin Hb. pose proof (bands_inside res b Hr Hin) as Hi. unfold in_band in Hb.
    split; [lia|]. split; [lia|]. intros H1 [L1 L2].
    rewrite enc_band_infos_pos in Hin by lia.
    destruct Hin as [<-|[<-|[<-|[]]]]; cbn [b_w b_h b_ox b_oy] in *; lia.
  Qed.

  Theorem bands_disjoint : forall r1 b1 r2 b2 x y, 0 <= r1 <= numLevels -> 0 <= r2 <= numLevels ->
    In b1 (enc_band_infos w h x0 y0 numLevels r1) -> In b2 (enc_band_infos w h x0 y0 numLevels r2) ->
    in_band b1 x y -> in_band b2 x y -> r1 = r2 /\ b1 = b2.
  Proof.
    intros r1 b1 r2 b2 x y H1 H2 I1 I2 B1 B2.
    destruct (band_point r1 b1 x y H1 I1 B1) as [X1 [Y1 O1]].
    destruct (band_point r2 b2 x y H2 I2 B2) as [X2 [Y2 O2]].
    assert (E : r1 = r2).
    { destruct (Z.lt_total r1 r2) as [L|[E|L]]; [|exact E|].
      - exfalso. destruct (res_dims_mono r1 (r2 - 1) ltac:(lia) ltac:(lia)). apply O2; lia.
      - exfalso. destruct (res_dims_mono r2 (r1 - 1) ltac:(lia) ltac:(lia)). apply O1; lia. }
    split; [exact E|]. subst r2.
    destruct (Z.eq_dec r1 0) as [->|Hnz].
    - rewrite enc_band_infos_0 in I1, I2. destruct I1 as [<-|[]]. destruct I2 as [<-|[]]. reflexivity.
    - destruct (bands_partition_res r1 x y ltac:(lia) X1 Y1) as [_ [_ U]]. apply U; assumption.
  Qed.
End Bands.

(* ------------------------------------------------------------------------------------ *)
(* tie to the DWT model                                                                   *)

(* the split and the coordinate step are those of DwtModel (parity.go / layout.go) *)
Lemma split_len_dwt : forall (n : nat) (e : bool),
  split_len (Z.of_nat n) e = Z.of_nat (split_lengths n e).
Proof.
  intros n e. unfold split_len, split_lengths. destruct e.
  - rewrite Z.quot_div_nonneg by lia. rewrite Nat.div2_div, Nat2Z.inj_div. f_equal. lia.
  - rewrite Z.quot_div_nonneg by lia. rewrite Nat.div2_div, Nat2Z.inj_div. reflexivity.
Qed.

Lemma next_coord_dwt : forall v, next_coord_z v = next_coord v.
Proof. reflexivity. Qed.

Definition win_of (wn : window) : win := let '(w, h, x0, y0) := wn in (Z.of_nat w, Z.of_nat h, x0, y0).

Lemma win_step_dwt : forall wn, win_step (win_of wn) = win_of (next_window wn).
Proof.
  intros [[[w h] x0] y0]. cbn [win_of win_step next_window].
  rewrite !is_even_z_even. unfold is_even. rewrite !split_len_dwt. reflexivity.
Qed.

(* the k-th window of the encoder/decoder geometry is the window the k-th level of the DWT
   model transforms (level_windows of ForwardMultilevelWithParity / InverseMultilevelWithParity,
   nextLowpassWindow) *)
Lemma win_iter_dwt : forall k wn, win_iter k (win_of wn) = win_of (Nat.iter k next_window wn).
Proof.
  induction k as [|k IH]; intros wn; [reflexivity|].
  rewrite win_iter_S, IH. cbn [Nat.iter nat_rect]. apply win_step_dwt.
Qed.

Lemma iter_swap : forall (A : Type) (f : A -> A) k x, Nat.iter k f (f x) = f (Nat.iter k f x).
Proof.
  intros A f k x. induction k as [|k IH]; [reflexivity|].
  change (Nat.iter (S k) f (f x)) with (f (Nat.iter k f (f x))). rewrite IH. reflexivity.
Qed.

Lemma level_windows_length : forall n wn, length (level_windows n wn) = n.
Proof. induction n as [|n IH]; intros wn; [reflexivity|]. cbn [level_windows length]. rewrite IH. reflexivity. Qed.

Lemma level_windows_nth : forall n k wn, (k < n)%nat ->
  nth k (level_windows n wn) wn = Nat.iter k next_window wn.
Proof.
  induction n as [|n IH]; intros k wn Hk; [lia|].
  destruct k as [|k]; [reflexivity|]. cbn [level_windows nth].
  rewrite (nth_indep _ wn (next_window wn)) by (rewrite level_windows_length; lia).
  rewrite IH by lia. rewrite iter_swap. reflexivity.
Qed.

(* band_split_matches_dwt.  split_len n e is the number of low-pass samples of the 1-D 5/3
   transform of a signal of length n whose first sample has parity e: in DwtModel the
   transform of a window of width n continues on the first split_lengths n e samples
   (next_window; split_len_dwt above identifies the two functions for every n).  As an
   independent check on the transform itself, FINITE (all lengths up to 200, both parities):
   the constant signal 1 transforms to exactly split_len n e ones (low-pass) followed by
   zeros (high-pass) — so fwd53 produces split_len n e low-pass samples.  (n = 1 with odd
   parity is the doubling special case and is excluded: the output is [2].) *)
Definition lowpass_count_ok (e : bool) (n : nat) : bool :=
  let k := Z.to_nat (split_len (Z.of_nat n) e) in
  if list_eq_dec Z.eq_dec (fwd53 e (repeat 1 n)) (repeat 1 k ++ repeat 0 (n - k)) then true else false.

Lemma fwd53_lowpass_count_finite :
  forallb (lowpass_count_ok true) (seq 0 201) = true /\ forallb (lowpass_count_ok false) (seq 2 199) = true.
Proof. split; vm_compute; reflexivity. Qed.

Theorem band_split_matches_dwt : forall (e : bool) (n : nat), (n <= 200)%nat -> (e = false -> 2 <= n)%nat ->
  let k := Z.to_nat (split_len (Z.of_nat n) e) in
  fwd53 e (repeat 1 n) = repeat 1 k ++ repeat 0 (n - k) /\
  k = split_lengths n e /\
  win_step (Z.of_nat n, Z.of_nat n, if e then 0 else 1, if e then 0 else 1)
    = win_of (next_window (n, n, (if e then 0 else 1), (if e then 0 else 1))).
Proof.
  intros e n Hn He. cbv zeta. split; [|split].
  - destruct fwd53_lowpass_count_finite as [H1 H2]. rewrite forallb_forall in H1, H2.
    destruct e.
    + specialize (H1 n ltac:(apply in_seq; lia)). unfold lowpass_count_ok in H1.
      destruct (list_eq_dec Z.eq_dec _ _) as [E|]; [exact E|discriminate].
    + specialize (He eq_refl). specialize (H2 n ltac:(apply in_seq; lia)). unfold lowpass_count_ok in H2.
      destruct (list_eq_dec Z.eq_dec _ _) as [E|]; [exact E|discriminate].
  - rewrite split_len_dwt. lia.
  - apply (win_step_dwt (n, n, (if e then 0 else 1), (if e then 0 else 1))).
Qed.
