(* EXTRACT *)
(* Quality-layer bookkeeping of the JPEG 2000 encoder (encoder.go finalizeBlock,
   allocateRDLayerData / appendRDLosslessLayer / finalizeRDCodeBlockLayers, initRDLayerConfig;
   t2/packet_header_tagtree.go layerContribution / layerPassLengths /
   computePrevAndTotalPasses) and the parameter mapping of the lossless-only codec
   (lossless/parameters.go Validate, lossless/codec.go configureLosslessEncodeParams,
   layersFromRateLevels, openJPEGLayerRates, rateToTargetRatio).

   float64 values are never modelled: TargetRatio is the class (negative / zero / positive /
   NaN) that decides every comparison the code makes on it (`< 0`, `<= 0`, `> 0`); LayerRates
   is the list of the facts `rate > 0` that openJPEGLayerBudgets branches on. *)
From V Require Import Common.Base.

(* ------------------------------------------------------------------------------------ *)
(* code-block passes                                                                      *)

Definition pass : Type := (Z * Z)%type.                      (* Rate, ActualBytes *)

(* `x := p.Rate; if x == 0 { x = p.ActualBytes }` *)
Definition pass_rate (p : pass) : Z := if fst p =? 0 then snd p else fst p.

(* cb.Passes[k-1] with that fallback.  Callers guarantee 1 <= k <= len(passes). *)
Definition rate_at (passes : list pass) (k : Z) : Z :=
  pass_rate (nth (Z.to_nat (k - 1)) passes (0, 0)).

(* LayerAllocation.GetPassesForLayer on the row of this block (row = [] when the block index
   is outside CodeBlockPasses) *)
Definition get_passes (row : list Z) (layer : Z) : Z :=
  if layer >=? zlen row then 0 else nth (Z.to_nat layer) row 0.

(* data[a:b]; Go panics unless 0 <= a <= b <= cap.  Every b below is clamped to len(data). *)
Definition go_slice (data : list Z) (a b : Z) : outcome (list Z) :=
  if (0 <=? a) && (a <=? b) && (b <=? zlen data)
  then Ok (firstn (Z.to_nat (b - a)) (skipn (Z.to_nat a) data)) else Panic.

(* the per-layer loop of finalizeBlock == allocateRDLayerData; pcs = requested cumulative
   pass counts per layer *)
Fixpoint alloc_layers (passes : list pass) (data : list Z) (pcs : list Z) (prevEnd : Z)
  : outcome (list Z * list (list Z)) :=
  match pcs with
  | [] => Ok ([], [])
  | pc0 :: r =>
    let n := zlen passes in
    let pc := if pc0 >? n then n else pc0 in
    let e0 := if pc >? 0 then rate_at passes pc else prevEnd in
    let e1 := if e0 <? prevEnd then prevEnd else e0 in
    let e2 := if e1 >? zlen data then zlen data else e1 in
    obind (go_slice data prevEnd e2) (fun d =>
    obind (alloc_layers passes data r e2) (fun res =>
      Ok (pc :: fst res, d :: snd res)))
  end.

Definition set_nth {A} (l : list A) (i : nat) (v : A) : list A :=
  firstn i l ++ v :: skipn (S i) l.

(* the `if appendLossless && len(cb.Passes) > 0` block of finalizeBlock ==
   appendRDLosslessLayer.  Indexing LayerPasses[last] / LayerData[last] panics when last is
   out of range (numLayers <= 0). *)
Definition append_lossless (passes : list pass) (data : list Z) (numLayers : Z)
  (lp : list Z) (ld : list (list Z)) : outcome (list Z * list (list Z)) :=
  let n := zlen passes in
  let last := numLayers - 1 in
  let pp0 := if (last >? 0) && (last - 1 <? zlen lp) then nth (Z.to_nat (last - 1)) lp 0 else 0 in
  let pp1 := if pp0 <? 0 then 0 else pp0 in
  let prevPasses := if pp1 >? n then n else pp1 in
  if (last <? 0) || (last >=? zlen lp) then Panic else
  let start0 := if prevPasses >? 0 then rate_at passes prevPasses else 0 in
  let end0 := rate_at passes n in
  let start := if start0 <? 0 then 0 else start0 in
  let e1 := if end0 <? start then start else end0 in
  let e2 := if e1 >? zlen data then zlen data else e1 in
  obind (go_slice data start e2) (fun d =>
    Ok (set_nth lp (Z.to_nat last) n, set_nth ld (Z.to_nat last) d)).

(* Encoder.finalizeBlock.  cd = None models CompleteData == nil.  Result None = early return
   (LayerPasses / LayerData untouched); make([]int, numLayers) panics for numLayers < 0. *)
Definition finalize_block (passes : list pass) (cd : option (list Z)) (numLayers : Z)
  (row : list Z) (appendLossless : bool) : outcome (option (list Z * list (list Z))) :=
  match cd with
  | None => Ok None
  | Some data =>
    if zlen passes =? 0 then Ok None else
    if numLayers <? 0 then Panic else
    obind (alloc_layers passes data (map (get_passes row) (map Z.of_nat (seq 0 (Z.to_nat numLayers)))) 0)
      (fun res =>
        if appendLossless && (zlen passes >? 0)
        then obind (append_lossless passes data numLayers (fst res) (snd res)) (fun r => Ok (Some r))
        else Ok (Some res))
  end.

(* Encoder.finalizeRDCodeBlockLayers = initRDPassLengths; allocateRDLayerData;
   appendRDLosslessLayer — the same statements as finalizeBlock split into helpers. *)
Definition allocate_rd_layer_data (passes : list pass) (data : list Z) (numLayers : Z) (row : list Z)
  : outcome (list Z * list (list Z)) :=
  alloc_layers passes data (map (get_passes row) (map Z.of_nat (seq 0 (Z.to_nat numLayers)))) 0.

Definition finalize_rd_block (passes : list pass) (cd : option (list Z)) (numLayers : Z)
  (row : list Z) (appendLossless : bool) : outcome (option (list Z * list (list Z))) :=
  match cd with
  | None => Ok None
  | Some data =>
    if zlen passes =? 0 then Ok None else
    if numLayers <? 0 then Panic else
    obind (allocate_rd_layer_data passes data numLayers row) (fun res =>
      if appendLossless && (zlen passes >? 0)
      then obind (append_lossless passes data numLayers (fst res) (snd res)) (fun r => Ok (Some r))
      else Ok (Some res))
  end.

(* `if len(cb.PassLengths) == 0 { PassLengths[i] = Passes[i].Rate }` *)
Definition init_pass_lengths (existing : list Z) (passes : list pass) : list Z :=
  if zlen existing =? 0 then map fst passes else existing.

(* Encoder.initRDLayerConfig (and the same lines at the top of applyRateDistortion) *)
Definition init_rd_layer_config (numLayers : Z) (appendLosslessLayer lossless : bool) : Z * bool :=
  let nl := if numLayers <=? 0 then 1 else numLayers in
  let a := appendLosslessLayer && (nl >? 1) in
  (nl, if lossless && (nl >? 1) then true else a).

(* ------------------------------------------------------------------------------------ *)
(* t2: what the packet encoder reads back                                                 *)

(* PacketEncoder.layerContribution.  ld = None models LayerData == nil. *)
Definition layer_contribution (ld : option (list (list Z))) (lp : list Z) (data : list Z)
  (numPassesTotal : Z) (layer : Z) : bool * Z * list Z :=
  let fallback := (zlen data >? 0, numPassesTotal, data) in
  match ld with
  | None => fallback
  | Some ldl =>
    if layer <? zlen ldl then
      let '(incl, np) :=
        if layer <? zlen lp then
          let total := nth (Z.to_nat layer) lp 0 in
          let prev := if layer >? 0 then nth (Z.to_nat (layer - 1)) lp 0 else 0 in
          (total - prev >? 0, total - prev)
        else (false, 0) in
      (incl, np, nth (Z.to_nat layer) ldl [])
    else fallback
  end.

(* PacketEncoder.layerPassLengths.  Result None = nil.  make([]int, total-prev) panics when
   negative; PassLengths[i] with i = prev < 0 panics when the loop runs. *)
Definition layer_pass_lengths (ldnil : bool) (lp pl : list Z) (layer : Z) : outcome (option (list Z)) :=
  if negb ldnil && (layer <? zlen lp) then
    let total := nth (Z.to_nat layer) lp 0 in
    let prev := if layer >? 0 then nth (Z.to_nat (layer - 1)) lp 0 else 0 in
    if total <=? zlen pl then
      if total - prev <? 0 then Panic else
      if (prev <? 0) && (prev <? total) then Panic else
      let base := if (prev >? 0) && (prev <=? zlen pl) then nth (Z.to_nat (prev - 1)) pl 0 else 0 in
      Ok (Some (map (fun i => nth (Z.to_nat (prev + Z.of_nat i)) pl 0 - base) (seq 0 (Z.to_nat (total - prev)))))
    else Ok None
  else Ok (Some pl).

(* PacketEncoder.computePrevAndTotalPasses.  lpnil models LayerPasses == nil. *)
Definition prev_and_total_passes (lpnil : bool) (lp : list Z) (numPassesTotal layer newPasses : Z) : Z * Z :=
  if negb lpnil && (layer <? zlen lp) then
    (if layer >? 0 then nth (Z.to_nat (layer - 1)) lp 0 else 0, nth (Z.to_nat layer) lp 0)
  else if numPassesTotal >? 0 then
    let p0 := numPassesTotal - newPasses in
    let p := if p0 <? 0 then 0 else p0 in
    (p, p + newPasses)
  else (0, newPasses).

(* buildPassLengths on a non-empty cumulative PassLengths: per-pass lengths the packet header
   codes (negative steps clamped) *)
Fixpoint build_pass_lengths (prev : Z) (cumulative : list Z) : list Z :=
  match cumulative with
  | [] => []
  | v0 :: r => let v := if v0 <? prev then prev else v0 in (v - prev) :: build_pass_lengths v r
  end.

(* ------------------------------------------------------------------------------------ *)
(* parameter mapping of the lossless-only codec                                          *)

Inductive fclass := FNeg | FZero | FPos | FNaN.           (* class of a float64 *)
Definition f_lt0 (c : fclass) : bool := match c with FNeg => true | _ => false end.
Definition f_le0 (c : fclass) : bool := match c with FNeg | FZero => true | _ => false end.
Definition f_gt0 (c : fclass) : bool := match c with FPos => true | _ => false end.

Record lparams := mkLP {
  lp_NumLevels : Z; lp_AllowMCT : bool; lp_Rate : Z; lp_RateLevels : list Z;
  lp_Prog : Z;                                             (* uint8 *)
  lp_NumLayers : Z; lp_TargetRatio : fclass; lp_UsePCRDOpt : bool; lp_AppendLL : bool }.

Definition default_rate_levels : list Z := [1280; 640; 320; 160; 80; 40; 20; 10; 5].

(* NewLosslessParameters *)
Definition default_lparams : lparams :=
  mkLP 5 true 20 default_rate_levels 0 1 FZero false true.

(* JPEG2000LosslessParameters.Validate (always returns nil; adjusts in place) *)
Definition validate (p : lparams) : lparams :=
  let numLevels := if (lp_NumLevels p <? 0) || (lp_NumLevels p >? 6) then 5 else lp_NumLevels p in
  let numLayers := if lp_NumLayers p <? 1 then 1 else lp_NumLayers p in
  let rate := if lp_Rate p <? 0 then 0 else lp_Rate p in
  let levels := if (rate >? 0) && (zlen (lp_RateLevels p) =? 0) then default_rate_levels else lp_RateLevels p in
  let prog := if lp_Prog p >? 4 then 0 else lp_Prog p in
  let tr := if f_lt0 (lp_TargetRatio p) then FZero else lp_TargetRatio p in
  let numLayers2 := if lp_AppendLL p && (numLayers <? 2) && f_gt0 tr then 2 else numLayers in
  mkLP numLevels (lp_AllowMCT p) rate levels prog numLayers2 tr (lp_UsePCRDOpt p) (lp_AppendLL p).

(* rateToTargetRatio: the class of its result.  rate > 0: float64(rate), or
   float64(rate)*float64(bitsStored)/float64(bitsAllocated) with both > 0 — a positive float
   (rate >= 1, bitsStored >= 1, bitsAllocated <= 65535 because FrameInfo fields are uint16). *)
Definition rate_to_target_ratio (rate : Z) : fclass := if rate <=? 0 then FZero else FPos.

(* layersFromRateLevels *)
Definition layers_from_rate_levels (rate : Z) (levels : list Z) : Z :=
  if (rate <=? 0) || (zlen levels =? 0) then 1 else
  let layers := fold_left (fun acc v => if v >? rate then acc + 1 else acc) levels 1 in
  if layers <? 1 then 1 else layers.

(* openJPEGLayerRates: for every entry the fact `entry > 0` (true) / `entry == 0` (false);
   [] = nil.  Entries: the leading ladder values > rate (float64(v), v > rate > 0), then the
   rate itself scaled (positive, as above), then 0 when appendLossless. *)
Fixpoint ladder_prefix (rate : Z) (levels : list Z) : list bool :=
  match levels with
  | v :: r => if v >? rate then true :: ladder_prefix rate r else []
  | [] => []
  end.

Definition open_jpeg_layer_rates (rate : Z) (levels : list Z) (appendLossless : bool) : list bool :=
  if rate <=? 0 then [] else
  ladder_prefix rate levels ++ [true] ++ (if appendLossless then [false] else []).

Record eparams := mkEP {
  ep_NumLevels : Z; ep_Prog : Z; ep_NumLayers : Z; ep_TargetRatio : fclass; ep_UsePCRDOpt : bool;
  ep_EnableMCT : bool; ep_AppendLL : bool; ep_Lossless : bool; ep_LayerRates : list bool }.

(* Codec.configureLosslessEncodeParams on validated parameters (DefaultEncodeParams sets
   Lossless = true and nothing here changes it; NumLayers++ is Go int arithmetic) *)
Definition configure (p : lparams) : eparams :=
  let tr0 := lp_TargetRatio p in
  let tr := if f_le0 tr0 && (lp_Rate p >? 0) then rate_to_target_ratio (lp_Rate p) else tr0 in
  let nl0 := lp_NumLayers p in
  let nl1 := if f_gt0 tr && (nl0 <=? 1) then layers_from_rate_levels (lp_Rate p) (lp_RateLevels p) else nl0 in
  let nl2 := if f_gt0 tr && lp_AppendLL p then wrapS 64 (nl1 + 1) else nl1 in
  mkEP (lp_NumLevels p) (lp_Prog p) nl2 tr (lp_UsePCRDOpt p || f_gt0 tr) (lp_AllowMCT p) (lp_AppendLL p) true
       (open_jpeg_layer_rates (lp_Rate p) (lp_RateLevels p) (lp_AppendLL p)).

(* Codec.Encode: Validate then configureLosslessEncodeParams *)
Definition param_map (p : lparams) : eparams := configure (validate p).

(* the condition under which encodeTilePackets / writeTilesWithGlobalRateDistortion call
   applyRateDistortionGlobal, encodeCodeBlock takes the layered T1 path and writeTiles takes
   the global-PCRD path: `NumLayers > 1 || TargetRatio > 0` *)
Definition uses_rate_control (e : eparams) : bool := (ep_NumLayers e >? 1) || f_gt0 (ep_TargetRatio e).
