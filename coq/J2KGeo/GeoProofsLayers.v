(* Proofs about the quality-layer bookkeeping (GeoLayers.v): C05_final_layer_complete,
   its refutation for non-monotone allocations, and C05_param_map. *)
From V Require Import Common.Base J2KGeo.GeoModel J2KGeo.GeoLayers J2KGeo.GeoProofsLists.

(* ------------------------------------------------------------------------------------ *)
(* hypotheses on a code-block                                                            *)

(* cumulative bytes after k passes, k = 0 .. n *)
Definition cum (passes : list pass) (k : Z) : Z := if k <=? 0 then 0 else rate_at passes k.

(* The facts about the pass table that the theorems need: the rate the code reads for pass k
   (Rate, or ActualBytes when Rate = 0) is non-decreasing in k and lies in [0, len(data)].
   t1.normalizePassRates establishes exactly this for every block EncodeLayered returns (it
   clamps each Rate to the next pass's Rate and to len(data), and ActualBytes to Rate); the
   HT path builds the single pass {Rate 0, ActualBytes len(data)}.  The harness oracle
   geo_t1_rates_ok evaluates it on the real T1 encoder. *)
Definition rates_ok (passes : list pass) (dlen : Z) : Prop :=
  (forall k, 1 <= k <= zlen passes -> 0 <= rate_at passes k <= dlen) /\
  (forall j k, 1 <= j -> j <= k -> k <= zlen passes -> rate_at passes j <= rate_at passes k).

Lemma cum_range : forall passes dlen k, rates_ok passes dlen -> 0 <= dlen -> k <= zlen passes ->
  0 <= cum passes k <= dlen.
Proof.
  intros passes dlen k [Hr _] Hd Hk. unfold cum. destruct (Z.leb_spec k 0); [lia|]. apply Hr. lia.
Qed.

Lemma cum_mono : forall passes dlen j k, rates_ok passes dlen -> 0 <= dlen -> j <= k -> k <= zlen passes ->
  cum passes j <= cum passes k.
Proof.
  intros passes dlen j k Hok Hd Hjk Hk. pose proof Hok as [Hr Hm]. unfold cum.
  destruct (Z.leb_spec j 0); destruct (Z.leb_spec k 0); try lia.
  - apply Hr. lia.
  - apply Hm; lia.
Qed.

(* the clamp `if passCount > len(cb.Passes) { passCount = len(cb.Passes) }` *)
Definition cl (n pc : Z) : Z := if pc >? n then n else pc.

(* data[a:b] *)
Definition seg (data : list Z) (a b : Z) : list Z := firstn (Z.to_nat (b - a)) (skipn (Z.to_nat a) data).

Lemma seg_app : forall data a b c, 0 <= a -> a <= b -> b <= c -> c <= zlen data ->
  seg data a b ++ seg data b c = seg data a c.
Proof.
  intros data a b c Ha Hab Hbc Hc. unfold seg, zlen in *.
  replace (Z.to_nat b) with (Z.to_nat a + Z.to_nat (b - a))%nat by lia.
  rewrite <- skipn_add.
  set (l := skipn (Z.to_nat a) data).
  replace (Z.to_nat (c - a)) with (Z.to_nat (b - a) + Z.to_nat (c - b))%nat by lia.
  rewrite firstn_add. reflexivity.
Qed.

Lemma seg_nil : forall data a, seg data a a = [].
Proof. intros. unfold seg. rewrite Z.sub_diag. reflexivity. Qed.

Lemma go_slice_ok : forall data a b, 0 <= a -> a <= b -> b <= zlen data ->
  go_slice data a b = Ok (seg data a b).
Proof.
  intros data a b Ha Hab Hb. unfold go_slice.
  destruct (Z.leb_spec 0 a); [|lia]. destruct (Z.leb_spec a b); [|lia].
  destruct (Z.leb_spec b (zlen data)); [|lia]. reflexivity.
Qed.

(* ------------------------------------------------------------------------------------ *)
(* the per-layer loop never panics, whatever the allocation and the rates                *)

Lemma alloc_layers_total : forall passes data pcs e, 0 <= e <= zlen data ->
  exists ld, alloc_layers passes data pcs e = Ok (map (cl (zlen passes)) pcs, ld) /\ length ld = length pcs.
Proof.
  intros passes data pcs. induction pcs as [|pc0 r IH]; intros e He.
  - exists []. split; reflexivity.
  - cbn [alloc_layers map].
    set (n := zlen passes). fold (cl n pc0).
    set (pc := cl n pc0).
    set (e0 := if pc >? 0 then rate_at passes pc else e).
    set (e1 := if e0 <? e then e else e0).
    set (e2 := if e1 >? zlen data then zlen data else e1).
    assert (He1 : e <= e1) by (unfold e1; destruct (Z.ltb_spec e0 e); lia).
    assert (He2 : e <= e2 <= zlen data) by (unfold e2; destruct (Z.gtb_spec e1 (zlen data)); lia).
    rewrite go_slice_ok by lia. cbn [obind].
    destruct (IH e2 ltac:(lia)) as [ld [Heq Hl]]. rewrite Heq. cbn [obind fst snd].
    eexists. split; [reflexivity|]. simpl. lia.
Qed.

(* ------------------------------------------------------------------------------------ *)
(* monotone allocations                                                                  *)

(* the clamped pass counts p0 <= pc1 <= pc2 <= ... , all >= 0 *)
Fixpoint chain (n p0 : Z) (pcs : list Z) : Prop :=
  match pcs with
  | [] => True
  | pc :: r => p0 <= cl n pc /\ chain n (cl n pc) r
  end.

Fixpoint segs (data : list Z) (a : Z) (bs : list Z) : list (list Z) :=
  match bs with [] => [] | b :: t => seg data a b :: segs data b t end.

Lemma cl_le : forall n pc, 0 <= n -> cl n pc <= n.
Proof. intros. unfold cl. destruct (Z.gtb_spec pc n); lia. Qed.

Lemma last_indep : forall (l : list Z) a d d', last (a :: l) d = last (a :: l) d'.
Proof. induction l as [|b l IH]; intros a d d'; [reflexivity|]. cbn [last] in *. apply IH. Qed.

Lemma last_cons : forall (l : list Z) a d, last (a :: l) d = last l a.
Proof. destruct l as [|b l]; intros a d; [reflexivity|]. cbn [last]. apply last_indep. Qed.

Lemma concat_segs : forall passes data pcs p0, rates_ok passes (zlen data) ->
  0 <= p0 <= zlen passes -> chain (zlen passes) p0 pcs ->
  concat (segs data (cum passes p0) (map (fun pc => cum passes (cl (zlen passes) pc)) pcs))
  = seg data (cum passes p0) (cum passes (last (map (cl (zlen passes)) pcs) p0)).
Proof.
  intros passes data pcs. induction pcs as [|pc r IH]; intros p0 Hok Hp0 Hch.
  - simpl. rewrite seg_nil. reflexivity.
  - destruct Hch as [Hle Hch]. cbn [map segs concat].
    assert (Hn : 0 <= zlen passes) by (unfold zlen; lia).
    assert (Hd : 0 <= zlen data) by (unfold zlen; lia).
    pose proof (cl_le (zlen passes) pc Hn) as Hcl.
    rewrite IH by (auto; lia).
    assert (Hlast : last (map (cl (zlen passes)) (pc :: r)) p0 = last (map (cl (zlen passes)) r) (cl (zlen passes) pc))
      by (cbn [map]; apply last_cons).
    cbn [map] in Hlast. rewrite Hlast.
    (* the last element of a chain is >= its start *)
    assert (Hge : forall q l, 0 <= q <= zlen passes -> chain (zlen passes) q l ->
                   q <= last (map (cl (zlen passes)) l) q <= zlen passes).
    { clear - Hn. intros q l. revert q. induction l as [|x l IHl]; intros q Hq Hc; [simpl; lia|].
      destruct Hc as [H1 H2]. pose proof (cl_le (zlen passes) x Hn).
      assert (Hl : last (map (cl (zlen passes)) (x :: l)) q = last (map (cl (zlen passes)) l) (cl (zlen passes) x))
        by (cbn [map]; apply last_cons).
      rewrite Hl. specialize (IHl (cl (zlen passes) x) ltac:(lia) H2). lia. }
    pose proof (Hge (cl (zlen passes) pc) r ltac:(lia) Hch) as Hlr.
    apply seg_app.
    + pose proof (cum_range passes (zlen data) p0 Hok Hd ltac:(lia)). lia.
    + eapply cum_mono; eauto; lia.
    + eapply cum_mono; eauto; lia.
    + pose proof (cum_range passes (zlen data) (last (map (cl (zlen passes)) r) (cl (zlen passes) pc)) Hok Hd ltac:(lia)). lia.
Qed.

(* one step of the loop on a monotone allocation ends at cum (clamped pass count) *)
Lemma alloc_step_end : forall passes (data : list Z) p0 pc, rates_ok passes (zlen data) ->
  0 <= p0 <= zlen passes -> p0 <= cl (zlen passes) pc ->
  let pc' := cl (zlen passes) pc in
  let e := cum passes p0 in
  let e0 := if pc' >? 0 then rate_at passes pc' else e in
  let e1 := if e0 <? e then e else e0 in
  (if e1 >? zlen data then zlen data else e1) = cum passes pc'.
Proof.
  intros passes data p0 pc Hok Hp0 Hle. cbv zeta.
  assert (Hn : 0 <= zlen passes) by (unfold zlen; lia).
  assert (Hd : 0 <= zlen data) by (unfold zlen; lia).
  pose proof (cl_le (zlen passes) pc Hn) as Hcl.
  pose proof (cum_range passes (zlen data) (cl (zlen passes) pc) Hok Hd Hcl) as Hr.
  pose proof (cum_mono passes (zlen data) p0 (cl (zlen passes) pc) Hok Hd Hle Hcl) as Hm.
  destruct (Z.gtb_spec (cl (zlen passes) pc) 0) as [Hpos|Hz].
  - assert (Hc : cum passes (cl (zlen passes) pc) = rate_at passes (cl (zlen passes) pc)).
    { unfold cum. destruct (Z.leb_spec (cl (zlen passes) pc) 0); [lia|reflexivity]. }
    rewrite <- Hc.
    destruct (Z.ltb_spec (cum passes (cl (zlen passes) pc)) (cum passes p0)); [lia|].
    destruct (Z.gtb_spec (cum passes (cl (zlen passes) pc)) (zlen data)); [lia|reflexivity].
  - assert (Hp : p0 = cl (zlen passes) pc) by lia. rewrite <- Hp in *.
    destruct (Z.ltb_spec (cum passes p0) (cum passes p0)); [lia|].
    destruct (Z.gtb_spec (cum passes p0) (zlen data)); [lia|reflexivity].
Qed.

Lemma alloc_layers_prefix : forall passes data init tail p0, rates_ok passes (zlen data) ->
  0 <= p0 <= zlen passes -> chain (zlen passes) p0 init ->
  exists ldt, alloc_layers passes data (init ++ tail) (cum passes p0) =
    Ok (map (cl (zlen passes)) (init ++ tail),
        segs data (cum passes p0) (map (fun pc => cum passes (cl (zlen passes) pc)) init) ++ ldt) /\
    length ldt = length tail.
Proof.
  intros passes data init. induction init as [|pc init IH]; intros tail p0 Hok Hp0 Hch.
  - assert (Hd : 0 <= zlen data) by (unfold zlen; lia).
    pose proof (cum_range passes (zlen data) p0 Hok Hd ltac:(lia)) as Hr.
    destruct (alloc_layers_total passes data tail (cum passes p0) Hr) as [ld [Heq Hl]].
    exists ld. split; [exact Heq|exact Hl].
  - destruct Hch as [Hle Hch].
    assert (Hn : 0 <= zlen passes) by (unfold zlen; lia).
    assert (Hd : 0 <= zlen data) by (unfold zlen; lia).
    pose proof (cl_le (zlen passes) pc Hn) as Hcl.
    cbn [app alloc_layers map segs].
    fold (cl (zlen passes) pc).
    pose proof (alloc_step_end passes data p0 pc Hok Hp0 Hle) as Hend. cbv zeta in Hend.
    rewrite Hend.
    pose proof (cum_range passes (zlen data) p0 Hok Hd ltac:(lia)) as Hr0.
    pose proof (cum_range passes (zlen data) (cl (zlen passes) pc) Hok Hd Hcl) as Hr1.
    pose proof (cum_mono passes (zlen data) p0 (cl (zlen passes) pc) Hok Hd Hle Hcl) as Hm.
    rewrite go_slice_ok by lia. cbn [obind].
    destruct (IH tail (cl (zlen passes) pc) Hok ltac:(lia) Hch) as [ldt [Heq Hl]].
    rewrite Heq. cbn [obind fst snd]. exists ldt. split; [reflexivity|exact Hl].
Qed.

(* requested pass counts of the layers 0 .. k-1 *)
Definition pcs_of (row : list Z) (k : Z) : list Z :=
  map (get_passes row) (map Z.of_nat (seq 0 (Z.to_nat k))).

Lemma pcs_of_snoc : forall row k, 1 <= k ->
  pcs_of row k = pcs_of row (k - 1) ++ [get_passes row (k - 1)].
Proof.
  intros row k Hk. unfold pcs_of.
  replace (Z.to_nat k) with (S (Z.to_nat (k - 1))) by lia.
  rewrite seq_S, !map_app. cbn [map plus]. do 3 f_equal. lia.
Qed.

Lemma pcs_of_length : forall row k, length (pcs_of row k) = Z.to_nat k.
Proof. intros. unfold pcs_of. rewrite !map_length, seq_length. reflexivity. Qed.

(* THE PREMISE about the allocation: the clamped cumulative pass counts of the layers
   0 .. numLayers-2 are >= 0 and non-decreasing (the entry of the last layer is irrelevant: it
   is overwritten by the lossless layer). *)
Definition mono_alloc (passes : list pass) (row : list Z) (numLayers : Z) : Prop :=
  chain (zlen passes) 0 (pcs_of row (numLayers - 1)).

Lemma set_nth_snoc : forall (A : Type) (l : list A) (x v : A),
  set_nth (l ++ [x]) (length l) v = l ++ [v].
Proof.
  intros A l x v. unfold set_nth.
  rewrite firstn_app, Nat.sub_diag, firstn_all. cbn [firstn]. rewrite app_nil_r.
  rewrite skipn_all2 by (rewrite app_length; simpl; lia). reflexivity.
Qed.

Lemma nth_pred_last : forall (l : list Z) d, l <> [] -> nth (length l - 1) l d = last l d.
Proof.
  induction l as [|a l IH]; intros d Hne; [congruence|].
  destruct l as [|b l]; [reflexivity|].
  simpl length. replace (S (S (length l)) - 1)%nat with (S (length l)) by lia.
  change (nth (S (length l)) (a :: b :: l) d) with (nth (length l) (b :: l) d).
  change (last (a :: b :: l) d) with (last (b :: l) d).
  pose proof (IH d ltac:(congruence)) as H. simpl length in H.
  replace (S (length l) - 1)%nat with (length l) in H by lia. exact H.
Qed.

Lemma nth_snoc_prev : forall (l : list Z) (x : Z), l <> [] ->
  nth (length l - 1) (l ++ [x]) 0 = last l 0.
Proof.
  intros l x Hne. rewrite app_nth1 by (destruct l; [congruence|simpl; lia]).
  apply nth_pred_last. exact Hne.
Qed.

Lemma chain_last_range : forall n l q, 0 <= n -> 0 <= q <= n -> chain n q l -> q <= last (map (cl n) l) q <= n.
Proof.
  intros n l. induction l as [|x l IH]; intros q Hn Hq Hc; [simpl; lia|].
  destruct Hc as [H1 H2]. pose proof (cl_le n x Hn). cbn [map]. rewrite last_cons.
  specialize (IH (cl n x) Hn ltac:(lia) H2). lia.
Qed.

(* closed form of the result of either finaliser on a monotone allocation *)
Definition final_lp (passes : list pass) (row : list Z) (numLayers : Z) : list Z :=
  map (cl (zlen passes)) (pcs_of row (numLayers - 1)) ++ [zlen passes].

Definition final_ld (passes : list pass) (data : list Z) (row : list Z) (numLayers : Z) : list (list Z) :=
  segs data 0 (map (fun pc => cum passes (cl (zlen passes) pc)) (pcs_of row (numLayers - 1))) ++
  [seg data (cum passes (last (map (cl (zlen passes)) (pcs_of row (numLayers - 1))) 0)) (cum passes (zlen passes))].

Theorem finalize_block_closed_form : forall passes data numLayers row,
  passes <> [] -> rates_ok passes (zlen data) -> 2 <= numLayers -> mono_alloc passes row numLayers ->
  finalize_block passes (Some data) numLayers row true
  = Ok (Some (final_lp passes row numLayers, final_ld passes data row numLayers)).
Proof.
  intros passes data numLayers row Hne Hok Hnl Hmono.
  assert (Hn : 1 <= zlen passes) by (unfold zlen; destruct passes; [congruence|simpl; lia]).
  assert (Hd : 0 <= zlen data) by (unfold zlen; lia).
  unfold finalize_block.
  destruct (Z.eqb_spec (zlen passes) 0); [lia|].
  destruct (Z.ltb_spec numLayers 0); [lia|].
  fold (pcs_of row numLayers). rewrite (pcs_of_snoc row numLayers) by lia.
  set (init := pcs_of row (numLayers - 1)) in *.
  set (x := get_passes row (numLayers - 1)).
  assert (Hc0 : cum passes 0 = 0) by reflexivity.
  destruct (alloc_layers_prefix passes data init [x] 0 Hok ltac:(lia) Hmono) as [ldt [Heq Hl]].
  rewrite Hc0 in Heq. rewrite Heq. cbn [obind fst snd].
  destruct (Z.gtb_spec (zlen passes) 0); [|lia]. cbn [andb].
  destruct ldt as [|dt [|? ?]]; try (simpl in Hl; lia).
  (* append_lossless *)
  unfold append_lossless.
  assert (Hli : length init = Z.to_nat (numLayers - 1)) by (apply pcs_of_length).
  assert (Hlen : zlen (map (cl (zlen passes)) (init ++ [x])) = numLayers).
  { unfold zlen. rewrite map_length, app_length. simpl. lia. }
  rewrite Hlen.
  destruct (Z.gtb_spec (numLayers - 1) 0); [|lia].
  destruct (Z.ltb_spec (numLayers - 1 - 1) numLayers); [|lia]. cbn [andb].
  destruct (Z.ltb_spec (numLayers - 1) 0); [lia|].
  destruct (Z.geb_spec (numLayers - 1) numLayers); [lia|]. cbn [orb].
  (* prevPasses = last of the clamped counts *)
  rewrite map_app. cbn [map].
  assert (Hinit_ne : map (cl (zlen passes)) init <> []).
  { intro E. apply (f_equal (@length Z)) in E. rewrite map_length, Hli in E. simpl in E. lia. }
  replace (Z.to_nat (numLayers - 1 - 1)) with (length (map (cl (zlen passes)) init) - 1)%nat
    by (rewrite map_length, Hli; lia).
  rewrite nth_snoc_prev by exact Hinit_ne.
  set (pp := last (map (cl (zlen passes)) init) 0).
  pose proof (chain_last_range (zlen passes) init 0 ltac:(lia) ltac:(lia) Hmono) as Hpp. fold pp in Hpp.
  destruct (Z.ltb_spec pp 0); [lia|].
  destruct (Z.gtb_spec pp (zlen passes)); [lia|].
  assert (Hstart : (if pp >? 0 then rate_at passes pp else 0) = cum passes pp).
  { unfold cum. destruct (Z.gtb_spec pp 0); destruct (Z.leb_spec pp 0); try lia; reflexivity. }
  rewrite Hstart.
  assert (Hend : rate_at passes (zlen passes) = cum passes (zlen passes)).
  { unfold cum. destruct (Z.leb_spec (zlen passes) 0); [lia|reflexivity]. }
  rewrite Hend.
  pose proof (cum_range passes (zlen data) pp Hok Hd ltac:(lia)) as Hr1.
  pose proof (cum_range passes (zlen data) (zlen passes) Hok Hd ltac:(lia)) as Hr2.
  pose proof (cum_mono passes (zlen data) pp (zlen passes) Hok Hd ltac:(lia) ltac:(lia)) as Hm.
  destruct (Z.ltb_spec (cum passes pp) 0); [lia|].
  destruct (Z.ltb_spec (cum passes (zlen passes)) (cum passes pp)); [lia|].
  destruct (Z.gtb_spec (cum passes (zlen passes)) (zlen data)); [lia|].
  rewrite go_slice_ok by lia. cbn [obind].
  replace (Z.to_nat (numLayers - 1)) with (length (map (cl (zlen passes)) init)) at 1
    by (rewrite map_length, Hli; reflexivity).
  rewrite set_nth_snoc.
  replace (Z.to_nat (numLayers - 1))
    with (length (segs data 0 (map (fun pc => cum passes (cl (zlen passes) pc)) init))).
  2:{ assert (G : forall a bs, length (segs data a bs) = length bs) by (intros a bs; revert a; induction bs; intros; simpl; auto).
      rewrite G, map_length, Hli. reflexivity. }
  rewrite set_nth_snoc. reflexivity.
Qed.

(* finalizeRDCodeBlockLayers computes the same function *)
Lemma finalize_rd_block_eq : forall passes cd numLayers row a,
  finalize_rd_block passes cd numLayers row a = finalize_block passes cd numLayers row a.
Proof. reflexivity. Qed.

(* ------------------------------------------------------------------------------------ *)
(* consequences of the closed form                                                       *)

Lemma segs_length : forall data a bs, length (segs data a bs) = length bs.
Proof. intros data a bs. revert a. induction bs; intros; simpl; auto. Qed.

Lemma seg_from_0 : forall data b, seg data 0 b = firstn (Z.to_nat b) data.
Proof. intros. unfold seg. rewrite Z.sub_0_r. reflexivity. Qed.

Lemma seg_length : forall data a b, 0 <= a -> a <= b -> b <= zlen data -> zlen (seg data a b) = b - a.
Proof.
  intros data a b Ha Hab Hb. unfold seg, zlen in *. rewrite firstn_length, skipn_length. lia.
Qed.

Lemma final_ld_concat : forall passes data numLayers row,
  passes <> [] -> rates_ok passes (zlen data) -> 2 <= numLayers -> mono_alloc passes row numLayers ->
  concat (final_ld passes data row numLayers) = firstn (Z.to_nat (rate_at passes (zlen passes))) data.
Proof.
  intros passes data numLayers row Hne Hok Hnl Hmono.
  assert (Hn : 1 <= zlen passes) by (unfold zlen; destruct passes; [congruence|simpl; lia]).
  assert (Hd : 0 <= zlen data) by (unfold zlen; lia).
  unfold final_ld. rewrite concat_app. cbn [concat]. rewrite app_nil_r.
  pose proof (concat_segs passes data (pcs_of row (numLayers - 1)) 0 Hok ltac:(lia) Hmono) as Hc.
  change (cum passes 0) with 0 in Hc. rewrite Hc.
  set (pp := last (map (cl (zlen passes)) (pcs_of row (numLayers - 1))) 0).
  pose proof (chain_last_range (zlen passes) (pcs_of row (numLayers - 1)) 0 ltac:(lia) ltac:(lia) Hmono) as Hpp.
  fold pp in Hpp.
  pose proof (cum_range passes (zlen data) pp Hok Hd ltac:(lia)) as Hr1.
  pose proof (cum_range passes (zlen data) (zlen passes) Hok Hd ltac:(lia)) as Hr2.
  pose proof (cum_mono passes (zlen data) pp (zlen passes) Hok Hd ltac:(lia) ltac:(lia)) as Hm.
  rewrite seg_app by lia. rewrite seg_from_0.
  unfold cum. destruct (Z.leb_spec (zlen passes) 0); [lia|reflexivity].
Qed.

(* cumulative pass counts: within [0, n], non-decreasing, last = n *)
Definition nondecr (l : list Z) : Prop := forall i j, (i <= j < length l)%nat -> nth i l 0 <= nth j l 0.

Lemma chain_nth : forall n l q, 0 <= n -> 0 <= q <= n -> chain n q l ->
  (forall i, (i < length l)%nat -> q <= nth i (map (cl n) l) 0 <= n) /\ nondecr (map (cl n) l).
Proof.
  intros n l. induction l as [|x l IH]; intros q Hn Hq Hc.
  - split; [simpl; intros; lia|]. intros i j H. simpl in H. lia.
  - destruct Hc as [H1 H2]. pose proof (cl_le n x Hn) as Hcl.
    destruct (IH (cl n x) Hn ltac:(lia) H2) as [Hr Hnd].
    split.
    + intros i Hi. destruct i as [|i]; cbn [map nth]; [lia|].
      specialize (Hr i ltac:(simpl in Hi; lia)). lia.
    + intros i j Hij. cbn [map] in *. simpl length in Hij. rewrite map_length in Hij.
      destruct i as [|i]; destruct j as [|j]; cbn [nth]; try lia.
      * specialize (Hr j ltac:(lia)). lia.
      * apply Hnd. rewrite map_length. lia.
Qed.

Lemma final_lp_facts : forall passes numLayers row,
  passes <> [] -> 2 <= numLayers -> mono_alloc passes row numLayers ->
  length (final_lp passes row numLayers) = Z.to_nat numLayers /\
  (forall i, (i < Z.to_nat numLayers)%nat -> 0 <= nth i (final_lp passes row numLayers) 0 <= zlen passes) /\
  nondecr (final_lp passes row numLayers) /\
  nth (Z.to_nat (numLayers - 1)) (final_lp passes row numLayers) 0 = zlen passes.
Proof.
  intros passes numLayers row Hne Hnl Hmono.
  assert (Hn : 1 <= zlen passes) by (unfold zlen; destruct passes; [congruence|simpl; lia]).
  unfold final_lp. set (init := pcs_of row (numLayers - 1)) in *.
  assert (Hli : length (map (cl (zlen passes)) init) = Z.to_nat (numLayers - 1))
    by (rewrite map_length; apply pcs_of_length).
  destruct (chain_nth (zlen passes) init 0 ltac:(lia) ltac:(lia) Hmono) as [Hr Hnd].
  rewrite map_length in Hli.
  assert (Hli' : length (map (cl (zlen passes)) init) = Z.to_nat (numLayers - 1)) by (rewrite map_length; exact Hli).
  repeat split.
  - rewrite app_length, Hli'. simpl. lia.
  - destruct (Nat.lt_ge_cases i (Z.to_nat (numLayers - 1))) as [Hlt|Hge].
    + rewrite app_nth1 by lia. specialize (Hr i ltac:(lia)). lia.
    + rewrite app_nth2 by lia. replace (i - length (map (cl (zlen passes)) init))%nat with 0%nat by lia. simpl. lia.
  - destruct (Nat.lt_ge_cases i (Z.to_nat (numLayers - 1))) as [Hlt|Hge].
    + rewrite app_nth1 by lia. specialize (Hr i ltac:(lia)). lia.
    + rewrite app_nth2 by lia. replace (i - length (map (cl (zlen passes)) init))%nat with 0%nat by lia. simpl. lia.
  - intros i j Hij. rewrite app_length, Hli' in Hij. simpl in Hij.
    destruct (Nat.lt_ge_cases j (Z.to_nat (numLayers - 1))) as [Hlt|Hge].
    + rewrite !app_nth1 by lia. apply Hnd. lia.
    + rewrite (app_nth2 _ _ _ (n := j)) by lia.
      replace (j - length (map (cl (zlen passes)) init))%nat with 0%nat by lia. cbn [nth].
      destruct (Nat.lt_ge_cases i (Z.to_nat (numLayers - 1))) as [Hlt'|Hge'].
      * rewrite app_nth1 by lia. specialize (Hr i ltac:(lia)). lia.
      * rewrite app_nth2 by lia. replace (i - length (map (cl (zlen passes)) init))%nat with 0%nat by lia. simpl. lia.
  - rewrite app_nth2 by lia. replace (Z.to_nat (numLayers - 1) - length (map (cl (zlen passes)) init))%nat with 0%nat by lia.
    reflexivity.
Qed.

(* ------------------------------------------------------------------------------------ *)
(* what the packet encoder reads back (layerContribution)                                *)

Definition new_passes (lp : list Z) (layer : Z) : Z :=
  nth (Z.to_nat layer) lp 0 - (if layer >? 0 then nth (Z.to_nat (layer - 1)) lp 0 else 0).

Lemma layer_contribution_layered : forall ld lp data npt layer,
  0 <= layer -> layer < zlen ld -> layer < zlen lp ->
  layer_contribution (Some ld) lp data npt layer
  = (new_passes lp layer >? 0, new_passes lp layer, nth (Z.to_nat layer) ld []).
Proof.
  intros ld lp data npt layer H0 H1 H2. unfold layer_contribution, new_passes.
  destruct (Z.ltb_spec layer (zlen ld)); [|lia]. destruct (Z.ltb_spec layer (zlen lp)); [|lia].
  reflexivity.
Qed.

Definition zsum (l : list Z) : Z := fold_right Z.add 0 l.

Lemma zsum_app : forall a b, zsum (a ++ b) = zsum a + zsum b.
Proof. induction a as [|x a IH]; intros b; simpl; [lia|]. rewrite IH. lia. Qed.

(* sum of newPasses over the layers 0 .. k-1 = cumulative count of layer k-1 (telescoping) *)
Lemma new_passes_sum : forall lp k, (1 <= k)%nat ->
  zsum (map (new_passes lp) (map Z.of_nat (seq 0 k))) = nth (k - 1) lp 0.
Proof.
  intros lp k Hk. induction k as [|k IH]; [lia|].
  rewrite seq_S, !map_app, zsum_app. cbn [plus map zsum fold_right].
  destruct k as [|k].
  - cbn [seq map zsum fold_right]. unfold new_passes. simpl. lia.
  - rewrite IH by lia. unfold new_passes.
    destruct (Z.gtb_spec (Z.of_nat (S k)) 0); [|lia].
    replace (Z.to_nat (Z.of_nat (S k) - 1)) with k by lia.
    rewrite Nat2Z.id. replace (S k - 1)%nat with k by lia. replace (S (S k) - 1)%nat with (S k) by lia. lia.
Qed.

(* ------------------------------------------------------------------------------------ *)
(* ANY allocation: no panic, counts in range, last layer = all passes, last layer data ends *)
(* at rate(last pass)                                                                     *)

Definition clamp0n (n v : Z) : Z := let a := if v <? 0 then 0 else v in if a >? n then n else a.

Lemma clamp0n_range : forall n v, 0 <= n -> 0 <= clamp0n n v <= n.
Proof.
  intros n v Hn. unfold clamp0n.
  destruct (Z.ltb_spec v 0); [destruct (Z.gtb_spec 0 n)|destruct (Z.gtb_spec v n)]; lia.
Qed.

Lemma append_lossless_ok : forall passes data numLayers lp ld,
  passes <> [] -> rates_ok passes (zlen data) -> 1 <= numLayers ->
  length lp = Z.to_nat numLayers -> length ld = Z.to_nat numLayers ->
  let n := zlen passes in
  let pp := clamp0n n (if numLayers - 1 >? 0 then nth (Z.to_nat (numLayers - 2)) lp 0 else 0) in
  append_lossless passes data numLayers lp ld
  = Ok (set_nth lp (Z.to_nat (numLayers - 1)) n,
        set_nth ld (Z.to_nat (numLayers - 1)) (seg data (cum passes pp) (cum passes n))).
Proof.
  intros passes data numLayers lp ld Hne Hok Hnl Hlp Hld. cbv zeta.
  assert (Hn : 1 <= zlen passes) by (unfold zlen; destruct passes; [congruence|simpl; lia]).
  assert (Hd : 0 <= zlen data) by (unfold zlen; lia).
  unfold append_lossless.
  assert (Hzl : zlen lp = numLayers) by (unfold zlen; lia). rewrite Hzl.
  replace (numLayers - 1 - 1) with (numLayers - 2) by lia.
  assert (Hpp0 : (if (numLayers - 1 >? 0) && (numLayers - 2 <? numLayers) then nth (Z.to_nat (numLayers - 2)) lp 0 else 0)
                 = (if numLayers - 1 >? 0 then nth (Z.to_nat (numLayers - 2)) lp 0 else 0)).
  { destruct (Z.ltb_spec (numLayers - 2) numLayers); [|lia]. rewrite andb_true_r. reflexivity. }
  rewrite Hpp0.
  set (v := if numLayers - 1 >? 0 then nth (Z.to_nat (numLayers - 2)) lp 0 else 0).
  fold (clamp0n (zlen passes) v). set (pp := clamp0n (zlen passes) v).
  assert (Hpp : 0 <= pp <= zlen passes) by (apply clamp0n_range; lia).
  destruct (Z.ltb_spec (numLayers - 1) 0); [lia|].
  destruct (Z.geb_spec (numLayers - 1) numLayers); [lia|]. cbn [orb].
  assert (Hstart : (if pp >? 0 then rate_at passes pp else 0) = cum passes pp).
  { unfold cum. destruct (Z.gtb_spec pp 0); destruct (Z.leb_spec pp 0); try lia; reflexivity. }
  rewrite Hstart.
  assert (Hend : rate_at passes (zlen passes) = cum passes (zlen passes)).
  { unfold cum. destruct (Z.leb_spec (zlen passes) 0); [lia|reflexivity]. }
  rewrite Hend.
  pose proof (cum_range passes (zlen data) pp Hok Hd ltac:(lia)) as Hr1.
  pose proof (cum_range passes (zlen data) (zlen passes) Hok Hd ltac:(lia)) as Hr2.
  pose proof (cum_mono passes (zlen data) pp (zlen passes) Hok Hd ltac:(lia) ltac:(lia)) as Hm.
  destruct (Z.ltb_spec (cum passes pp) 0); [lia|].
  destruct (Z.ltb_spec (cum passes (zlen passes)) (cum passes pp)); [lia|].
  destruct (Z.gtb_spec (cum passes (zlen passes)) (zlen data)); [lia|].
  rewrite go_slice_ok by lia. reflexivity.
Qed.

Lemma set_nth_length : forall (A : Type) (l : list A) i v, (i < length l)%nat -> length (set_nth l i v) = length l.
Proof.
  intros A l i v Hi. unfold set_nth. rewrite app_length, firstn_length. cbn [length]. rewrite skipn_length. lia.
Qed.

Lemma nth_set_nth : forall (A : Type) (l : list A) i j v d, (i < length l)%nat ->
  nth j (set_nth l i v) d = if (j =? i)%nat then v else nth j l d.
Proof.
  intros A l i j v d Hi. unfold set_nth.
  destruct (Nat.eqb_spec j i) as [->|Hne].
  - rewrite app_nth2 by (rewrite firstn_length; lia). rewrite firstn_length.
    replace (i - Nat.min i (length l))%nat with 0%nat by lia. reflexivity.
  - destruct (Nat.lt_ge_cases j i).
    + rewrite app_nth1 by (rewrite firstn_length; lia). apply nth_firstn. lia.
    + rewrite app_nth2 by (rewrite firstn_length; lia). rewrite firstn_length.
      replace (j - Nat.min i (length l))%nat with (S (j - i - 1)) by lia. cbn [nth].
      rewrite nth_skipn. f_equal. lia.
Qed.

Theorem finalize_block_any_alloc : forall passes data numLayers row,
  passes <> [] -> rates_ok passes (zlen data) -> 1 <= numLayers ->
  exists lp ld, finalize_block passes (Some data) numLayers row true = Ok (Some (lp, ld)) /\
    length lp = Z.to_nat numLayers /\ length ld = Z.to_nat numLayers /\
    (forall i, (i < Z.to_nat numLayers)%nat -> nth i lp 0 <= zlen passes) /\
    nth (Z.to_nat (numLayers - 1)) lp 0 = zlen passes /\
    exists pp, 0 <= pp <= zlen passes /\
      nth (Z.to_nat (numLayers - 1)) ld [] = seg data (cum passes pp) (cum passes (zlen passes)).
Proof.
  intros passes data numLayers row Hne Hok Hnl.
  assert (Hn : 1 <= zlen passes) by (unfold zlen; destruct passes; [congruence|simpl; lia]).
  assert (Hd : 0 <= zlen data) by (unfold zlen; lia).
  unfold finalize_block.
  destruct (Z.eqb_spec (zlen passes) 0); [lia|]. destruct (Z.ltb_spec numLayers 0); [lia|].
  fold (pcs_of row numLayers).
  destruct (alloc_layers_total passes data (pcs_of row numLayers) 0 ltac:(lia)) as [ld0 [Heq Hl0]].
  rewrite Heq. cbn [obind fst snd]. destruct (Z.gtb_spec (zlen passes) 0); [|lia]. cbn [andb].
  set (lp0 := map (cl (zlen passes)) (pcs_of row numLayers)) in *.
  assert (Hlp0 : length lp0 = Z.to_nat numLayers) by (unfold lp0; rewrite map_length; apply pcs_of_length).
  rewrite pcs_of_length in Hl0.
  rewrite (append_lossless_ok passes data numLayers lp0 ld0 Hne Hok Hnl Hlp0 Hl0). cbn [obind].
  eexists. eexists. split; [reflexivity|].
  split; [rewrite set_nth_length by lia; exact Hlp0|].
  split; [rewrite set_nth_length by lia; exact Hl0|].
  split.
  { intros i Hi. rewrite nth_set_nth by lia. destruct (Nat.eqb_spec i (Z.to_nat (numLayers - 1))); [lia|].
    unfold lp0. rewrite (nth_indep _ 0 (cl (zlen passes) 0)) by (rewrite map_length, pcs_of_length; lia).
    rewrite map_nth. apply cl_le. lia. }
  split.
  { rewrite nth_set_nth by lia. rewrite Nat.eqb_refl. reflexivity. }
  eexists. split; [|rewrite nth_set_nth by lia; rewrite Nat.eqb_refl; reflexivity].
  apply clamp0n_range. lia.
Qed.

(* A non-monotone allocation breaks the statement (so the monotonicity premise is necessary):
   3 passes of 1 byte each, 3 layers, requested cumulative pass counts 2, 1, 0 — all within
   [0, 3].  Layer 0 takes bytes [0,2), layer 1 nothing, the lossless layer restarts at
   rate(pass 1) = 1 and takes bytes [1,3): byte 1 is delivered twice, and LayerPasses =
   [2; 1; 3] makes layerContribution report newPasses = -1 for layer 1. *)
Definition refuting_passes : list pass := [(1, 1); (2, 2); (3, 3)].
Definition refuting_data : list Z := [10; 11; 12].
Definition refuting_row : list Z := [2; 1; 0].

Lemma refuting_rates_ok : rates_ok refuting_passes (zlen refuting_data).
Proof.
  split.
  - intros k Hk. change (zlen refuting_passes) with 3 in Hk. change (zlen refuting_data) with 3.
    assert (Hc : k = 1 \/ k = 2 \/ k = 3) by lia. destruct Hc as [H1|[H1|H1]]; subst k; vm_compute; split; congruence.
  - intros j k Hj Hjk Hk. change (zlen refuting_passes) with 3 in Hk.
    assert (Hcj : j = 1 \/ j = 2 \/ j = 3) by lia. assert (Hck : k = 1 \/ k = 2 \/ k = 3) by lia.
    destruct Hcj as [Hj1|[Hj1|Hj1]]; destruct Hck as [Hk1|[Hk1|Hk1]]; subst j k; try lia; vm_compute; congruence.
Qed.

Theorem final_layer_complete_refuted :
  exists passes data numLayers row,
    passes <> [] /\ rates_ok passes (zlen data) /\ 2 <= numLayers /\
    Forall (fun v => 0 <= v <= zlen passes) row /\
    exists lp ld, finalize_block passes (Some data) numLayers row true = Ok (Some (lp, ld)) /\
      concat ld <> firstn (Z.to_nat (rate_at passes (zlen passes))) data /\
      new_passes lp 1 < 0.
Proof.
  exists refuting_passes, refuting_data, 3, refuting_row.
  split; [discriminate|]. split; [exact refuting_rates_ok|]. split; [lia|].
  split; [repeat constructor; vm_compute; congruence|].
  exists [2; 1; 3], [[10; 11]; []; [11; 12]].
  split; [vm_compute; reflexivity|]. split; [vm_compute; discriminate|vm_compute; reflexivity].
Qed.

(* ------------------------------------------------------------------------------------ *)
(* C05_final_layer_complete                                                              *)

Lemma nth_segs : forall data bs a i, (i < length bs)%nat ->
  nth i (segs data a bs) [] = seg data (if (i =? 0)%nat then a else nth (i - 1) bs 0) (nth i bs 0).
Proof.
  intros data bs. induction bs as [|b bs IH]; intros a i Hi; [simpl in Hi; lia|].
  destruct i as [|i]; [reflexivity|]. cbn [segs nth]. rewrite IH by (simpl in Hi; lia).
  destruct i as [|i]; [reflexivity|]. cbn [Nat.eqb]. replace (S (S i) - 1)%nat with (S i) by lia.
  replace (S i - 1)%nat with i by lia. reflexivity.
Qed.

Theorem final_layer_complete : forall passes data numLayers row (rd : bool),
  passes <> [] -> rates_ok passes (zlen data) -> 2 <= numLayers -> mono_alloc passes row numLayers ->
  exists lp ld,
    (if rd then finalize_rd_block passes (Some data) numLayers row true
     else finalize_block passes (Some data) numLayers row true) = Ok (Some (lp, ld)) /\
    length lp = Z.to_nat numLayers /\ length ld = Z.to_nat numLayers /\
    (* the layers deliver exactly the block's bytes up to the rate of its last pass *)
    concat ld = firstn (Z.to_nat (rate_at passes (zlen passes))) data /\
    (* LayerPasses: cumulative, within [0, total], last = total *)
    (forall i, (i < Z.to_nat numLayers)%nat -> 0 <= nth i lp 0 <= zlen passes) /\
    nondecr lp /\ nth (Z.to_nat (numLayers - 1)) lp 0 = zlen passes /\
    (* what layerContribution hands to the packet encoder *)
    (forall layer, 0 <= layer < numLayers ->
       layer_contribution (Some ld) lp data (zlen passes) layer
         = (new_passes lp layer >? 0, new_passes lp layer, nth (Z.to_nat layer) ld []) /\
       0 <= new_passes lp layer /\
       zlen (nth (Z.to_nat layer) ld [])
         = cum passes (nth (Z.to_nat layer) lp 0) - cum passes (if layer >? 0 then nth (Z.to_nat (layer - 1)) lp 0 else 0)) /\
    zsum (map (new_passes lp) (map Z.of_nat (seq 0 (Z.to_nat numLayers)))) = zlen passes.
Proof.
  intros passes data numLayers row rd Hne Hok Hnl Hmono.
  exists (final_lp passes row numLayers), (final_ld passes data row numLayers).
  assert (Hn : 1 <= zlen passes) by (unfold zlen; destruct passes; [congruence|simpl; lia]).
  assert (Hd : 0 <= zlen data) by (unfold zlen; lia).
  destruct (final_lp_facts passes numLayers row Hne Hnl Hmono) as [Hlen [Hrange [Hnd Hlast]]].
  assert (Hldlen : length (final_ld passes data row numLayers) = Z.to_nat numLayers).
  { unfold final_ld. rewrite app_length, segs_length, map_length, pcs_of_length. simpl. lia. }
  split.
  { destruct rd; [rewrite finalize_rd_block_eq|]; apply finalize_block_closed_form; assumption. }
  split; [exact Hlen|]. split; [exact Hldlen|].
  split; [apply final_ld_concat; assumption|].
  split; [exact Hrange|]. split; [exact Hnd|]. split; [exact Hlast|].
  split.
  - intros layer Hl.
    split; [apply layer_contribution_layered; unfold zlen; lia|].
    assert (Hnp : 0 <= new_passes (final_lp passes row numLayers) layer).
    { unfold new_passes. destruct (Z.gtb_spec layer 0).
      - assert (Hle := Hnd (Z.to_nat (layer - 1)) (Z.to_nat layer) ltac:(lia)). lia.
      - specialize (Hrange (Z.to_nat layer) ltac:(lia)). lia. }
    split; [exact Hnp|].
    (* length of the layer's data *)
    set (init := pcs_of row (numLayers - 1)) in *.
    assert (Hli : length init = Z.to_nat (numLayers - 1)) by apply pcs_of_length.
    set (bs := map (fun pc => cum passes (cl (zlen passes) pc)) init).
    assert (Hbl : length bs = Z.to_nat (numLayers - 1)) by (unfold bs; rewrite map_length; exact Hli).
    destruct (chain_nth (zlen passes) init 0 ltac:(lia) ltac:(lia) Hmono) as [Hr Hndi].
    assert (Hbs : forall i, (i < length init)%nat -> nth i bs 0 = cum passes (nth i (map (cl (zlen passes)) init) 0)).
    { intros i Hi. unfold bs. rewrite (nth_indep _ 0 (cum passes (cl (zlen passes) 0))) by (rewrite map_length; lia).
      rewrite (map_nth (fun pc => cum passes (cl (zlen passes) pc))).
      rewrite (nth_indep (map _ _) 0 (cl (zlen passes) 0)) by (rewrite map_length; lia).
      rewrite map_nth. reflexivity. }
    unfold final_ld, final_lp. fold init. fold bs.
    destruct (Z.ltb_spec layer (numLayers - 1)) as [Hlt|Hge].
    + (* a layer before the last *)
      rewrite app_nth1 by (rewrite segs_length; lia).
      rewrite nth_segs by lia.
      rewrite !app_nth1 by (rewrite map_length; lia).
      destruct (Z.gtb_spec layer 0) as [Hpos|Hz].
      * destruct (Nat.eqb_spec (Z.to_nat layer) 0); [lia|].
        replace (Z.to_nat (layer - 1)) with (Z.to_nat layer - 1)%nat by lia.
        rewrite !Hbs by lia.
        pose proof (Hr (Z.to_nat layer - 1)%nat ltac:(lia)) as R1. pose proof (Hr (Z.to_nat layer) ltac:(lia)) as R2.
        pose proof (Hndi (Z.to_nat layer - 1)%nat (Z.to_nat layer) ltac:(rewrite map_length; lia)) as R3.
        apply seg_length.
        -- pose proof (cum_range passes (zlen data) (nth (Z.to_nat layer - 1) (map (cl (zlen passes)) init) 0) Hok Hd ltac:(lia)). lia.
        -- eapply cum_mono; eauto; lia.
        -- pose proof (cum_range passes (zlen data) (nth (Z.to_nat layer) (map (cl (zlen passes)) init) 0) Hok Hd ltac:(lia)). lia.
      * assert (layer = 0) by lia. subst layer. cbn [Z.to_nat Nat.eqb].
        rewrite Hbs by lia. pose proof (Hr 0%nat ltac:(lia)) as R2.
        change (cum passes 0) with 0. rewrite Z.sub_0_r.
        pose proof (cum_range passes (zlen data) (nth 0 (map (cl (zlen passes)) init) 0) Hok Hd ltac:(lia)).
        rewrite seg_length by lia. lia.
    + (* the lossless layer *)
      assert (layer = numLayers - 1) by lia. subst layer.
      rewrite app_nth2 by (rewrite segs_length; lia). rewrite segs_length.
      replace (Z.to_nat (numLayers - 1) - length bs)%nat with 0%nat by lia. cbn [nth].
      rewrite app_nth2 by (rewrite map_length; lia). rewrite map_length.
      replace (Z.to_nat (numLayers - 1) - length init)%nat with 0%nat by lia. cbn [nth].
      destruct (Z.gtb_spec (numLayers - 1) 0); [|lia].
      rewrite app_nth1 by (rewrite map_length; lia).
      assert (Hinit_ne : map (cl (zlen passes)) init <> []).
      { intro E. apply (f_equal (@length Z)) in E. rewrite map_length, Hli in E. simpl in E. lia. }
      rewrite <- (nth_pred_last _ 0 Hinit_ne). rewrite map_length, Hli.
      replace (Z.to_nat (numLayers - 1 - 1)) with (Z.to_nat (numLayers - 1) - 1)%nat by lia.
      pose proof (Hr (Z.to_nat (numLayers - 1) - 1)%nat ltac:(lia)) as R1.
      apply seg_length.
      * pose proof (cum_range passes (zlen data) (nth (Z.to_nat (numLayers - 1) - 1) (map (cl (zlen passes)) init) 0) Hok Hd ltac:(lia)). lia.
      * eapply cum_mono; eauto; lia.
      * pose proof (cum_range passes (zlen data) (zlen passes) Hok Hd ltac:(lia)). lia.
  - rewrite new_passes_sum by lia.
    replace (Z.to_nat numLayers - 1)%nat with (Z.to_nat (numLayers - 1)) by lia. exact Hlast.
Qed.

(* ------------------------------------------------------------------------------------ *)
(* C05_param_map                                                                          *)

Lemma wrapS_id64 : forall x, - 2 ^ 63 <= x < 2 ^ 63 -> wrapS 64 x = x.
Proof.
  intros x Hx. unfold wrapS. change (2 ^ (64 - 1)) with (2 ^ 63). 
  assert (Hp : 2 ^ 64 = 2 * 2 ^ 63) by reflexivity.
  destruct (Z_lt_le_dec x 0) as [Hneg|Hpos].
  - assert (Hm : x mod 2 ^ 64 = x + 2 ^ 64) by (symmetry; apply Z.mod_unique with (q := -1); lia).
    rewrite Hm. destruct (Z.ltb_spec (x + 2 ^ 64) (2 ^ 63)); lia.
  - rewrite Z.mod_small by lia. destruct (Z.ltb_spec x (2 ^ 63)); lia.
Qed.

Lemma count_fold_range : forall rate levels acc,
  acc <= fold_left (fun a v => if v >? rate then a + 1 else a) levels acc <= acc + zlen levels.
Proof.
  intros rate levels. induction levels as [|v l IH]; intros acc.
  - unfold zlen. simpl. lia.
  - cbn [fold_left]. unfold zlen in *. cbn [length]. destruct (Z.gtb_spec v rate).
    + specialize (IH (acc + 1)). lia.
    + specialize (IH acc). lia.
Qed.

Lemma layers_from_range : forall rate levels, 1 <= layers_from_rate_levels rate levels <= 1 + zlen levels.
Proof.
  intros rate levels. unfold layers_from_rate_levels.
  assert (0 <= zlen levels) by (unfold zlen; lia).
  destruct ((rate <=? 0) || (zlen levels =? 0)); [lia|].
  pose proof (count_fold_range rate levels 1) as H1.
  destruct (Z.ltb_spec (fold_left (fun acc v => if v >? rate then acc + 1 else acc) levels 1) 1); lia.
Qed.

(* the parameter objects of the property: a final lossless layer is kept, or no rate target
   is requested (Rate <= 0 and TargetRatio not > 0; Validate turns negative values into 0,
   and every comparison the code makes treats NaN like 0) *)
Definition in_domain (p : lparams) : Prop :=
  lp_AppendLL p = true \/ (lp_Rate p <= 0 /\ f_gt0 (lp_TargetRatio p) = false).

(* Go ints: NumLayers++ must not overflow (any NumLayers below 2^62 and any ladder shorter
   than 2^62 entries) *)
Definition in_int_range (p : lparams) : Prop := lp_NumLayers p < 2 ^ 62 /\ zlen (lp_RateLevels p) < 2 ^ 62.

Theorem param_map_ok : forall p, in_domain p -> in_int_range p ->
  let e := param_map p in
  ep_Lossless e = true /\
  ((ep_NumLayers e = 1 /\ f_gt0 (ep_TargetRatio e) = false /\ uses_rate_control e = false) \/
   (2 <= ep_NumLayers e /\
    init_rd_layer_config (ep_NumLayers e) (ep_AppendLL e) (ep_Lossless e) = (ep_NumLayers e, true))).
Proof.
  intros p Hdom [Hnl Hlv]. cbv zeta. split; [reflexivity|].
  unfold param_map.
  (* facts about the validated parameters *)
  set (v := validate p).
  assert (Hv1 : 1 <= lp_NumLayers v < 2 ^ 62).
  { unfold v, validate. cbn [lp_NumLayers].
    destruct (Z.ltb_spec (lp_NumLayers p) 1) as [Hlt|Hge].
    - change (1 <? 2) with true. rewrite andb_true_r.
      destruct (lp_AppendLL p && f_gt0 (if f_lt0 (lp_TargetRatio p) then FZero else lp_TargetRatio p)); lia.
    - destruct (Z.ltb_spec (lp_NumLayers p) 2); [|rewrite andb_false_r; cbn [andb]; lia].
      rewrite andb_true_r.
      destruct (lp_AppendLL p && f_gt0 (if f_lt0 (lp_TargetRatio p) then FZero else lp_TargetRatio p)); lia. }
  assert (Hv2 : lp_AppendLL v = lp_AppendLL p) by reflexivity.
  assert (Hv3 : 0 <= lp_Rate v /\ (lp_Rate p <= 0 -> lp_Rate v = 0)).
  { unfold v, validate. cbn [lp_Rate]. destruct (Z.ltb_spec (lp_Rate p) 0); lia. }
  assert (Hv4 : f_gt0 (lp_TargetRatio v) = f_gt0 (lp_TargetRatio p)).
  { unfold v, validate. cbn [lp_TargetRatio]. destruct (lp_TargetRatio p); reflexivity. }
  assert (Hv5 : lp_AppendLL v = true -> f_gt0 (lp_TargetRatio v) = true -> 2 <= lp_NumLayers v).
  { unfold v, validate. cbn [lp_NumLayers lp_AppendLL lp_TargetRatio]. intros Ha Ht. rewrite Ha, Ht.
    destruct (Z.ltb_spec (lp_NumLayers p) 1); cbn [andb].
    - change (1 <? 2) with true. cbn. lia.
    - destruct (Z.ltb_spec (lp_NumLayers p) 2); cbn [andb]; lia. }
  assert (Hv6 : zlen (lp_RateLevels v) < 2 ^ 62).
  { unfold v, validate. cbn [lp_RateLevels].
    destruct ((((if lp_Rate p <? 0 then 0 else lp_Rate p) >? 0) && (zlen (lp_RateLevels p) =? 0))); [|exact Hlv].
    vm_compute. reflexivity. }
  clearbody v.
  (* configure *)
  unfold configure, uses_rate_control, init_rd_layer_config. cbn [ep_NumLayers ep_TargetRatio ep_AppendLL ep_Lossless].
  set (tr := if f_le0 (lp_TargetRatio v) && (lp_Rate v >? 0) then rate_to_target_ratio (lp_Rate v) else lp_TargetRatio v).
  pose proof (layers_from_range (lp_Rate v) (lp_RateLevels v)) as Hlf.
  destruct (f_gt0 tr) eqn:Htr; cbn [andb].
  - (* a rate target exists *)
    assert (HA : lp_AppendLL v = true).
    { destruct Hdom as [Ha|[Hr Ht]]; [rewrite Hv2; exact Ha|].
      exfalso. destruct Hv3 as [_ Hr0]. specialize (Hr0 Hr). unfold tr in Htr. rewrite Hr0 in Htr.
      change (0 >? 0) with false in Htr. rewrite andb_false_r in Htr. rewrite Hv4, Ht in Htr. discriminate. }
    rewrite HA.
    set (nl1 := if lp_NumLayers v <=? 1 then layers_from_rate_levels (lp_Rate v) (lp_RateLevels v) else lp_NumLayers v).
    assert (Hnl1 : 1 <= nl1 < 2 ^ 62 + 1) by (unfold nl1; destruct (Z.leb_spec (lp_NumLayers v) 1); lia).
    rewrite wrapS_id64 by (change (2 ^ 62) with 4611686018427387904 in *; change (2 ^ 63) with 9223372036854775808; lia).
    right. split; [lia|].
    destruct (Z.leb_spec (nl1 + 1) 0); [lia|]. destruct (Z.gtb_spec (nl1 + 1) 1); [|lia]. reflexivity.
  - (* no rate target: NumLayers is the validated value *)
    destruct (Z.eq_dec (lp_NumLayers v) 1) as [H1|H1].
    + left. rewrite H1. split; [reflexivity|]. split; reflexivity.
    + right. split; [lia|].
      destruct (Z.leb_spec (lp_NumLayers v) 0); [lia|]. destruct (Z.gtb_spec (lp_NumLayers v) 1); [|lia].
      reflexivity.
Qed.

(* outside the domain the statement fails: Rate = 20 with the default ladder and no final
   lossless layer gives rate-controlled layers whose last layer is not forced complete by the
   parameter mapping... the mapping still yields NumLayers >= 2 here (7 layers) and the encoder
   forces the lossless layer because Lossless = true; a single layer WITH a rate target, the
   only truncating configuration, is produced e.g. by Rate = 20, RateLevels = [5]: *)
Example param_map_outside_domain :
  let p := mkLP 5 true 20 [5] 0 1 FZero false false in
  ep_NumLayers (param_map p) = 1 /\ f_gt0 (ep_TargetRatio (param_map p)) = true /\
  uses_rate_control (param_map p) = true.
Proof. vm_compute. repeat split; reflexivity. Qed.

(* "no truncation" in the single-layer path: rate control is not run (uses_rate_control = false:
   encodeTilePackets does not call applyRateDistortionGlobal, encodeCodeBlock takes
   encodeSingleLayerCodeBlock), so LayerData stays nil and layerContribution includes the whole
   T1 output of the block with all its passes in layer 0 *)
Lemma single_layer_no_truncation : forall lp data npt layer,
  layer_contribution None lp data npt layer = (zlen data >? 0, npt, data).
Proof. reflexivity. Qed.
