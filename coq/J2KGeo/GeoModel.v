(* EXTRACT *)
(* Arithmetic / geometry core of the JPEG 2000 reversible pipeline (jpeg2000/encoder.go,
   decoder.go, tile_assembler.go, t2/geometry.go, t2/tile_decoder.go).

   Go `int` is Z.  Go `/` and `%` are Z.quot / Z.rem.  int32 narrowing is written `i32`
   where the Go code stores into an int32.  Slices are `list Z`; 2-D arrays are row-major
   lists.  Counted loops `for i := 0; i < n; i++` are `zrange n` (n comes from the
   parameters, never from data values).  The copy loops (`copy(dst[a:a+w], src[b:b+w])`)
   are total here (firstn/skipn); Go panics when a row is out of range, the theorems state
   (and prove) that all rows are in range on the property's domain. *)
From V Require Import Common.Base.

Definition i32 (x : Z) : Z := wrapS 32 x.
Definition zrange (n : Z) : list Z := map Z.of_nat (seq 0 (Z.to_nat n)).
Definition zn0 (l : list Z) (i : nat) : Z := nth i l 0.

(* ------------------------------------------------------------------------------------ *)
(* (a) samples: Encoder.convertPixelData, applyDCLevelShift, Decoder.applyInverseDCLevelShift,
       getGrayscalePixelData / getInterleavedPixelData                                       *)

(* 8-bit container (BitDepth <= 8): val := int32(b); if signed { val &= (1<<P)-1;
   if val >= 1<<(P-1) { val -= 1<<P } } *)
Definition enc_sample8 (P : Z) (signed : bool) (b : Z) : Z :=
  if signed then
    let v := Z.land b (2 ^ P - 1) in
    if v >=? 2 ^ (P - 1) then i32 (v - 2 ^ P) else v
  else b.

(* 16-bit little-endian container (BitDepth > 8): val := int32(lo) | int32(hi)<<8;
   if signed && val >= 1<<(P-1) { val -= 1<<P }   (no masking in this branch) *)
Definition enc_sample16 (P : Z) (signed : bool) (lo hi : Z) : Z :=
  let v := Z.lor lo (Z.shiftl hi 8) in
  if signed && (v >=? 2 ^ (P - 1)) then i32 (v - 2 ^ P) else v.

(* applyDCLevelShift: unsigned data only, data[i] -= int32(1 << (P-1)) *)
Definition dc_shift (P : Z) (signed : bool) (v : Z) : Z :=
  if signed then v else i32 (v - 2 ^ (P - 1)).

(* applyInverseDCLevelShift: unsigned data only, data[i] += int32(1 << (P-1)) *)
Definition dc_unshift (P : Z) (signed : bool) (v : Z) : Z :=
  if signed then v else i32 (v + 2 ^ (P - 1)).

(* clamp + two's complement: the value stored in the container (before byte splitting) *)
Definition dec_container (P : Z) (signed : bool) (v : Z) : Z :=
  if signed then
    let minV := - 2 ^ (P - 1) in
    let maxV := 2 ^ (P - 1) - 1 in
    let c := if v <? minV then minV else if v >? maxV then maxV else v in
    if c <? 0 then i32 (c + 2 ^ P) else c
  else
    let c := if v <? 0 then 0 else v in
    let maxV := 2 ^ P - 1 in
    if c >? maxV then maxV else c.

(* byte(val) ; byte(val), byte(val >> 8) *)
Definition dec_bytes (P : Z) (signed : bool) (v : Z) : list Z :=
  let u := dec_container P signed v in
  if P <=? 8 then [wrapU 8 u] else [wrapU 8 u; wrapU 8 (Z.shiftr u 8)].

(* one sample through encoder front end and decoder back end *)
Definition enc_sample (P : Z) (signed : bool) (bytes : list Z) : Z :=
  if P <=? 8 then enc_sample8 P signed (zn0 bytes 0)
  else enc_sample16 P signed (zn0 bytes 0) (zn0 bytes 1).

(* the container the property describes: P-bit two's complement in the low bits of one byte
   (P <= 8) or of a little-endian 16-bit word, unused high bits zero.  (Specification side;
   the harness packs its images with the same rule.) *)
Definition pack_sample (P : Z) (v : Z) : list Z :=
  let u := v mod 2 ^ P in
  if P <=? 8 then [u] else [u mod 256; u / 256].

(* whole image: convertPixelData (interleaved bytes -> component arrays) + level shift *)
Definition bytes_per_sample (P : Z) : Z := Z.quot (P + 7) 8.

Definition convert_pixel_data (numPixels comps P : Z) (signed : bool) (bytes : list Z)
  : outcome (list (list Z)) :=
  let expected := numPixels * comps * bytes_per_sample P in
  if zlen bytes <? expected then Err else
  Ok (map (fun c =>
        map (fun i =>
          let s := Z.to_nat (i * comps + c) in
          if P <=? 8 then enc_sample8 P signed (zn0 bytes s)
          else enc_sample16 P signed (zn0 bytes (2 * s)) (zn0 bytes (2 * s + 1)))
          (zrange numPixels))
      (zrange comps)).

Definition level_shift_all (P : Z) (signed : bool) (data : list (list Z)) : list (list Z) :=
  map (map (dc_shift P signed)) data.
Definition level_unshift_all (P : Z) (signed : bool) (data : list (list Z)) : list (list Z) :=
  map (map (dc_unshift P signed)) data.

(* GetPixelData: components == 1 -> getGrayscalePixelData, else getInterleavedPixelData.
   (Go indexes d.data[c][i] for i < width*height: panics if a component array is shorter;
   `pixel_data_in_range` is that guard.) *)
Definition pixel_data_in_range (numPixels comps : Z) (data : list (list Z)) : bool :=
  (comps <=? zlen data) && forallb (fun l => numPixels <=? zlen l) (firstn (Z.to_nat comps) data).

Definition get_gray_pixel_data (numPixels P : Z) (signed : bool) (data : list (list Z)) : list Z :=
  flat_map (fun i => dec_bytes P signed (zn0 (nth 0 data []) (Z.to_nat i))) (zrange numPixels).

Definition get_interleaved_pixel_data (numPixels comps P : Z) (signed : bool) (data : list (list Z)) : list Z :=
  flat_map (fun i =>
    flat_map (fun c => dec_bytes P signed (zn0 (nth (Z.to_nat c) data []) (Z.to_nat i))) (zrange comps))
    (zrange numPixels).

Definition get_pixel_data (numPixels comps P : Z) (signed : bool) (data : list (list Z)) : list Z :=
  if comps =? 1 then get_gray_pixel_data numPixels P signed data
  else get_interleaved_pixel_data numPixels comps P signed data.

(* ------------------------------------------------------------------------------------ *)
(* row-major copy primitives                                                             *)

Definition row_slice (l : list Z) (off n : nat) : list Z := firstn n (skipn off l).

(* for ty < h: copy(dst[ty*w : ty*w+w], src[(y0+ty)*stride+x0 : ...+w]) *)
Definition crop (data : list Z) (stride x0 y0 w h : nat) : list Z :=
  flat_map (fun ty => row_slice data ((y0 + ty) * stride + x0) w) (seq 0 h).

Definition set_row (dst : list Z) (off : nat) (row : list Z) : list Z :=
  firstn off dst ++ row ++ skipn (off + length row) dst.

(* for ty < h: copy(dst[(y0+ty)*stride+x0 : ...+w], src[ty*w : ty*w+w]) *)
Definition blit (dst : list Z) (stride x0 y0 w h : nat) (src : list Z) : list Z :=
  fold_left (fun acc ty => set_row acc ((y0 + ty) * stride + x0) (row_slice src (ty * w) w))
            (seq 0 h) dst.

(* element-wise copy with the guards `srcIdx < len(src) && dstIdx < len(dst)` of
   assembleSubbands: within a row both indices grow with x, so the copied elements are a
   prefix of the row; the source guard is the length cap of firstn, the destination guard
   cuts the row at len(dst) - dstBase. *)
Definition blit_guarded (dst : list Z) (stride x0 y0 w h : nat) (src : list Z) : list Z :=
  fold_left (fun acc ty =>
      let off := ((y0 + ty) * stride + x0)%nat in
      set_row acc off (firstn (length acc - off) (row_slice src (ty * w) w)))
    (seq 0 h) dst.

Definition zeros (n : nat) : list Z := repeat 0 n.

(* ------------------------------------------------------------------------------------ *)
(* (b) tiles                                                                              *)

Definition rect : Type := (Z * Z * Z * Z)%type.            (* x0, y0, x1, y1 (exclusive) *)

(* writeTiles / writeSIZ: tile size 0 means the whole image *)
Definition enc_tile_size (dim tile : Z) : Z := if tile =? 0 then dim else tile.
Definition enc_num_tiles (dim tile : Z) : Z := Z.quot (dim + tile - 1) tile.

(* Encoder.tileBounds *)
Definition enc_tile_bounds (W H idx tw th ntx : Z) : rect :=
  let tx := Z.rem idx ntx in
  let ty := Z.quot idx ntx in
  let x0 := tx * tw in
  let y0 := ty * th in
  let x1 := x0 + tw in
  let y1 := y0 + th in
  (x0, y0, (if x1 >? W then W else x1), (if y1 >? H then H else y1)).

(* tile_assembler.go *)
Definition ceil_div (a b : Z) : Z :=
  if b <=? 0 then 0 else if a >=? 0 then Z.quot (a + b - 1) b else Z.quot a b.

Record tile_layout := mkLayout {
  tl_imageWidth : Z; tl_imageHeight : Z;
  tl_imageX0 : Z; tl_imageY0 : Z; tl_imageX1 : Z; tl_imageY1 : Z;
  tl_tileWidth : Z; tl_tileHeight : Z;
  tl_numTilesX : Z; tl_numTilesY : Z;
  tl_tileOffsetX : Z; tl_tileOffsetY : Z }.

(* NewTileLayout (all SIZ fields are uint32 converted to int) *)
Definition new_tile_layout (Xsiz Ysiz XOsiz YOsiz XTsiz YTsiz XTOsiz YTOsiz : Z) : tile_layout :=
  mkLayout (Xsiz - XOsiz) (Ysiz - YOsiz) XOsiz YOsiz Xsiz Ysiz XTsiz YTsiz
           (ceil_div (Xsiz - XTOsiz) XTsiz) (ceil_div (Ysiz - YTOsiz) YTsiz) XTOsiz YTOsiz.

Definition tile_count (tl : tile_layout) : Z := tl_numTilesX tl * tl_numTilesY tl.

(* GetTileBounds.  (tileIdx % numTilesX cannot divide by zero: numTilesX = 0 makes the tile
   count 0 and the index check return first.) *)
Definition layout_tile_bounds (tl : tile_layout) (idx : Z) : rect :=
  if (idx <? 0) || (idx >=? tile_count tl) then (0, 0, 0, 0) else
  let tx := Z.rem idx (tl_numTilesX tl) in
  let ty := Z.quot idx (tl_numTilesX tl) in
  let gx0 := tx * tl_tileWidth tl + tl_tileOffsetX tl in
  let gy0 := ty * tl_tileHeight tl + tl_tileOffsetY tl in
  let gx1 := gx0 + tl_tileWidth tl in
  let gy1 := gy0 + tl_tileHeight tl in
  let gx0 := if gx0 <? tl_imageX0 tl then tl_imageX0 tl else gx0 in
  let gy0 := if gy0 <? tl_imageY0 tl then tl_imageY0 tl else gy0 in
  let gx1 := if gx1 >? tl_imageX1 tl then tl_imageX1 tl else gx1 in
  let gy1 := if gy1 >? tl_imageY1 tl then tl_imageY1 tl else gy1 in
  (gx0 - tl_imageX0 tl, gy0 - tl_imageY0 tl, gx1 - tl_imageX0 tl, gy1 - tl_imageY0 tl).

(* t2.NewTileDecoder: the tile rectangle the decoder derives for tile.Index; the tile count
   per row is computed in uint32.  XRsiz = YRsiz = 1 (as the encoder writes), so the
   component origin (compX0, compY0) handed to the inverse DWT is (tileX0, tileY0). *)
Definition dec_tile_bounds (idx Xsiz Ysiz XOsiz YOsiz XTsiz YTsiz XTOsiz YTOsiz : Z) : rect :=
  let n := Z.quot (wrapU 32 (wrapU 32 (wrapU 32 (Xsiz - XTOsiz) + XTsiz) - 1)) XTsiz in
  let ntx := if n <=? 0 then 1 else n in
  let tx := Z.rem idx ntx in
  let ty := Z.quot idx ntx in
  let gx0 := XTOsiz + tx * XTsiz in
  let gy0 := YTOsiz + ty * YTsiz in
  let gx1 := gx0 + XTsiz in
  let gy1 := gy0 + YTsiz in
  ((if gx0 <? XOsiz then XOsiz else gx0), (if gy0 <? YOsiz then YOsiz else gy0),
   (if gx1 >? Xsiz then Xsiz else gx1), (if gy1 >? Ysiz then Ysiz else gy1)).

(* Encoder.transformTile copy loops (one component) *)
Definition extract_tile (img : list Z) (W : Z) (r : rect) : list Z :=
  let '(x0, y0, x1, y1) := r in
  crop img (Z.to_nat W) (Z.to_nat x0) (Z.to_nat y0) (Z.to_nat (x1 - x0)) (Z.to_nat (y1 - y0)).

(* TileAssembler.AssembleTile (one component): Err = invalid tile index or the size check *)
Definition assemble_tile (tl : tile_layout) (acc : list Z) (idx : Z) (tile : list Z) : outcome (list Z) :=
  if (idx <? 0) || (idx >=? tile_count tl) then Err else
  let '(x0, y0, x1, y1) := layout_tile_bounds tl idx in
  if negb (zlen tile =? (x1 - x0) * (y1 - y0)) then Err else
  Ok (blit acc (Z.to_nat (tl_imageWidth tl)) (Z.to_nat x0) (Z.to_nat y0)
           (Z.to_nat (x1 - x0)) (Z.to_nat (y1 - y0)) tile).

(* the encoder's tile list (writeTiles with effective tile size tw x th) *)
Definition enc_tiles (W H tw th : Z) : list rect :=
  let ntx := enc_num_tiles W tw in
  let nty := enc_num_tiles H th in
  map (fun idx => enc_tile_bounds W H idx tw th ntx) (zrange (ntx * nty)).

(* decodeAllTiles over one component: NewTileAssembler (zeros), then AssembleTile(tileIdx, ..)
   with tileIdx = position of the tile in the codestream *)
Fixpoint assemble_tiles (tl : tile_layout) (acc : list Z) (idx : Z) (tiles : list (list Z)) : outcome (list Z) :=
  match tiles with
  | [] => Ok acc
  | t :: tiles' => obind (assemble_tile tl acc idx t) (fun acc' => assemble_tiles tl acc' (idx + 1) tiles')
  end.

(* extract every tile as the encoder does, reassemble as the decoder does (SIZ as written by
   writeSIZ: Xsiz = W, Ysiz = H, XTsiz = tw, YTsiz = th, all offsets 0) *)
Definition tile_roundtrip (img : list Z) (W H tw th : Z) : outcome (list Z) :=
  let tl := new_tile_layout W H 0 0 tw th 0 0 in
  assemble_tiles tl (zeros (Z.to_nat (tl_imageWidth tl * tl_imageHeight tl))) 0
    (map (extract_tile img W) (enc_tiles W H tw th)).

(* ------------------------------------------------------------------------------------ *)
(* (c) band geometry                                                                      *)

Definition split_len (n : Z) (even : bool) : Z := if even then Z.quot (n + 1) 2 else Z.quot n 2.
Definition is_even_z (v : Z) : bool := Z.land v 1 =? 0.
Definition next_coord_z (v : Z) : Z := Z.shiftr (v + 1) 1.

Definition win : Type := (Z * Z * Z * Z)%type.             (* width, height, x0, y0 *)
Definition win_step (wn : win) : win :=
  let '(w, h, x0, y0) := wn in
  (split_len w (is_even_z x0), split_len h (is_even_z y0), next_coord_z x0, next_coord_z y0).

Fixpoint win_iter (n : nat) (wn : win) : win :=
  match n with O => wn | S n' => win_iter n' (win_step wn) end.

Definition level_no (numLevels res : Z) : nat :=
  Z.to_nat (if numLevels - res <? 0 then 0 else numLevels - res).

(* encoder.go resolutionDimsWithOrigin (returns resW, resH) *)
Definition enc_res_dims (w h x0 y0 numLevels res : Z) : Z * Z :=
  let '(rw, rh, _, _) := win_iter (level_no numLevels res) (w, h, x0, y0) in (rw, rh).

(* t2/geometry.go resolutionDimsWithOrigin (returns resW, resH, resX0, resY0) *)
Definition dec_res_dims (w h x0 y0 numLevels res : Z) : win :=
  win_iter (level_no numLevels res) (w, h, x0, y0).

Record band := mkBand { b_id : Z; b_w : Z; b_h : Z; b_ox : Z; b_oy : Z }.

(* encoder.go bandInfosForResolution *)
Definition enc_band_infos (w h x0 y0 numLevels res : Z) : list band :=
  let '(resW, resH) := enc_res_dims w h x0 y0 numLevels res in
  if res =? 0 then [mkBand 0 resW resH 0 0] else
  let '(lowW, lowH) := enc_res_dims w h x0 y0 numLevels (res - 1) in
  let highW := resW - lowW in
  let highH := resH - lowH in
  [mkBand 1 highW lowH lowW 0; mkBand 2 lowW highH 0 lowH; mkBand 3 highW highH lowW lowH].

(* t2/geometry.go bandInfosForResolution *)
Definition dec_band_infos (w h x0 y0 numLevels res : Z) : win * list band :=
  let '(resW, resH, resX0, resY0) := dec_res_dims w h x0 y0 numLevels res in
  if res =? 0 then ((resW, resH, resX0, resY0), [mkBand 0 resW resH 0 0]) else
  let '(lowW, lowH, _, _) := dec_res_dims w h x0 y0 numLevels (res - 1) in
  let highW := resW - lowW in
  let highH := resH - lowH in
  ((resW, resH, resX0, resY0),
   [mkBand 1 highW lowH lowW 0; mkBand 2 lowW highH 0 lowH; mkBand 3 highW highH lowW lowH]).

(* Encoder.getSubbandsForResolution: band rectangle + extracted coefficients *)
Definition enc_subbands (data : list Z) (w h x0 y0 numLevels res : Z) : list (band * list Z) :=
  map (fun b => (b, crop data (Z.to_nat w) (Z.to_nat (b_ox b)) (Z.to_nat (b_oy b))
                          (Z.to_nat (b_w b)) (Z.to_nat (b_h b))))
      (enc_band_infos w h x0 y0 numLevels res).

(* ------------------------------------------------------------------------------------ *)
(* (d) code-block partition                                                              *)

Record cblock := mkBlock {
  cb_gx0 : Z; cb_gy0 : Z; cb_w : Z; cb_h : Z; cb_cbx : Z; cb_cby : Z; cb_band : Z; cb_data : list Z }.

(* Encoder.partitionIntoCodeBlocks *)
Definition enc_partition (sb : band * list Z) (cbw cbh : Z) : list cblock :=
  let '(b, bdata) := sb in
  let numCBX := Z.quot (b_w b + cbw - 1) cbw in
  let numCBY := Z.quot (b_h b + cbh - 1) cbh in
  flat_map (fun cby =>
    map (fun cbx =>
      let x0 := cbx * cbw in
      let y0 := cby * cbh in
      let x1 := if x0 + cbw >? b_w b then b_w b else x0 + cbw in
      let y1 := if y0 + cbh >? b_h b then b_h b else y0 + cbh in
      mkBlock (b_ox b + x0) (b_oy b + y0) (x1 - x0) (y1 - y0) cbx cby (b_id b)
              (crop bdata (Z.to_nat (b_w b)) (Z.to_nat x0) (Z.to_nat y0) (Z.to_nat (x1 - x0)) (Z.to_nat (y1 - y0))))
      (zrange numCBX))
    (zrange numCBY).

(* buildTilePacketEncoderAt: every code-block of one component in encoding order
   (res, band, cby, cbx); the position in this list is globalCBIdx. *)
Definition enc_all_blocks (data : list Z) (w h x0 y0 numLevels cbw cbh : Z) : list cblock :=
  flat_map (fun res =>
    flat_map (fun sb => enc_partition sb cbw cbh) (enc_subbands data w h x0 y0 numLevels res))
    (zrange (numLevels + 1)).

(* TileDecoder.buildAndDecodeCodeBlocks: the grid.  Bands with width <= 0 or height <= 0 are
   skipped; globalCBIdx is incremented for every grid cell of the other bands; a cell whose
   clipped size is <= 0 is skipped after the increment. *)
Record dblock := mkDBlock { db_idx : Z; db_x0 : Z; db_y0 : Z; db_x1 : Z; db_y1 : Z; db_band : Z }.

Definition dec_band_cells (b : band) (cbw cbh : Z) : list (Z * Z * Z * Z * Z) :=
  if (b_w b <=? 0) || (b_h b <=? 0) then [] else
  let numCBX := Z.quot (b_w b + cbw - 1) cbw in
  let numCBY := Z.quot (b_h b + cbh - 1) cbh in
  flat_map (fun cby =>
    map (fun cbx =>
      let lx0 := cbx * cbw in
      let ly0 := cby * cbh in
      let lx1 := if lx0 + cbw >? b_w b then b_w b else lx0 + cbw in
      let ly1 := if ly0 + cbh >? b_h b then b_h b else ly0 + cbh in
      (b_ox b + lx0, b_oy b + ly0, b_ox b + lx1, b_oy b + ly1, b_id b))
      (zrange numCBX))
    (zrange numCBY).

Fixpoint number_from (k : Z) (cells : list (Z * Z * Z * Z * Z)) : list dblock :=
  match cells with
  | [] => []
  | (x0, y0, x1, y1, bd) :: r => mkDBlock k x0 y0 x1 y1 bd :: number_from (k + 1) r
  end.

Definition dec_grid (w h x0 y0 numLevels cbw cbh : Z) : list dblock :=
  let cells := flat_map (fun res =>
      flat_map (fun b => dec_band_cells b cbw cbh) (snd (dec_band_infos w h x0 y0 numLevels res)))
      (zrange (numLevels + 1)) in
  filter (fun d => negb ((db_x1 d - db_x0 d <=? 0) || (db_y1 d - db_y0 d <=? 0))) (number_from 0 cells).

(* TileDecoder.assembleSubbands: zeros, then every block copied at (x0, y0) *)
Definition dec_assemble (w h : Z) (blocks : list (Z * Z * Z * Z * list Z)) : list Z :=
  fold_left (fun acc blk =>
      let '(x0, y0, x1, y1, coeffs) := blk in
      blit_guarded acc (Z.to_nat w) (Z.to_nat x0) (Z.to_nat y0) (Z.to_nat (x1 - x0)) (Z.to_nat (y1 - y0)) coeffs)
    blocks (zeros (Z.to_nat (w * h))).

(* encoder blocks handed to the decoder's assembly (T1/T2 deliver cb_data unchanged; the
   decoder's rectangle is its own grid, proved equal to the encoder's) *)
Definition blocks_for_assembly (bs : list cblock) : list (Z * Z * Z * Z * list Z) :=
  map (fun c => (cb_gx0 c, cb_gy0 c, cb_gx0 c + cb_w c, cb_gy0 c + cb_h c, cb_data c)) bs.
