(* sample_codec_roundtrip: Encoder.convertPixelData + applyDCLevelShift followed by
   Decoder.applyInverseDCLevelShift + GetPixelData is the identity on the P-bit container,
   for every precision 1..16, both signednesses, every representable sample value. *)
From V Require Import Common.Base J2KGeo.GeoModel.

Lemma wrapS32_id : forall x, - 2 ^ 31 <= x < 2 ^ 31 -> i32 x = x.
Proof.
  intros x Hx. unfold i32, wrapS. change (2 ^ (32 - 1)) with (2 ^ 31).
  assert (Hp : 2 ^ 32 = 2 * 2 ^ 31) by reflexivity.
  destruct (Z_lt_le_dec x 0) as [Hneg|Hpos].
  - assert (Hm : x mod 2 ^ 32 = x + 2 ^ 32) by (symmetry; apply Z.mod_unique with (q := -1); lia).
    rewrite Hm. destruct (Z.ltb_spec (x + 2 ^ 32) (2 ^ 31)); lia.
  - rewrite Z.mod_small by lia. destruct (Z.ltb_spec x (2 ^ 31)); lia.
Qed.

(* lo | hi<<8 = lo + 256*hi for a byte lo *)
Lemma lor_shiftl8 : forall lo hi, 0 <= lo < 256 -> 0 <= hi -> Z.lor lo (Z.shiftl hi 8) = lo + hi * 256.
Proof.
  intros lo hi Hlo Hhi. rewrite Z.shiftl_mul_pow2 by lia. change (2 ^ 8) with 256.
  assert (Hland : Z.land lo (hi * 256) = 0).
  { apply Z.bits_inj'. intros n Hn. rewrite Z.land_spec, Z.bits_0.
    destruct (Z_lt_le_dec n 8) as [Hlt|Hge].
    - change 256 with (2 ^ 8). rewrite Z.mul_pow2_bits_low by lia. apply andb_false_r.
    - assert (Hb : Z.testbit lo n = false).
      { destruct (Z.eq_dec lo 0) as [->|Hnz]; [apply Z.bits_0|].
        apply Z.bits_above_log2; [lia|].
        assert (Z.log2 lo < 8) by (apply Z.log2_lt_pow2; lia). lia. }
      rewrite Hb. reflexivity. }
  rewrite <- Z.lxor_lor by exact Hland. symmetry. apply Z.add_nocarry_lxor. exact Hland.
Qed.

Definition in_sample_range (P : Z) (signed : bool) (v : Z) : Prop :=
  if signed then - 2 ^ (P - 1) <= v < 2 ^ (P - 1) else 0 <= v < 2 ^ P.

Lemma pow2_split : forall P, 1 <= P -> 2 ^ P = 2 * 2 ^ (P - 1).
Proof. intros P HP. replace P with (1 + (P - 1)) at 1 by ring. rewrite Z.pow_add_r by lia. reflexivity. Qed.

Lemma pow2_bounds : forall P, 1 <= P <= 16 -> 1 <= 2 ^ (P - 1) <= 32768 /\ 2 ^ P = 2 * 2 ^ (P - 1).
Proof.
  intros P HP. split; [|apply pow2_split; lia].
  split.
  - assert (0 < 2 ^ (P - 1)) by (apply Z.pow_pos_nonneg; lia). lia.
  - change 32768 with (2 ^ 15). apply Z.pow_le_mono_r; lia.
Qed.

(* the container value u = v mod 2^P *)
Lemma container_value : forall P signed v, 1 <= P <= 16 -> in_sample_range P signed v ->
  v mod 2 ^ P = if v <? 0 then v + 2 ^ P else v.
Proof.
  intros P signed v HP Hv. destruct (pow2_bounds P HP) as [Hb Hs].
  unfold in_sample_range in Hv.
  destruct (Z.ltb_spec v 0) as [Hneg|Hpos].
  - destruct signed; [|lia]. symmetry. apply Z.mod_unique with (q := -1); lia.
  - apply Z.mod_small. destruct signed; lia.
Qed.

(* the encoder reads the true sample value out of the property's container *)
Lemma enc_sample_pack : forall P signed v, 1 <= P <= 16 -> in_sample_range P signed v ->
  enc_sample P signed (pack_sample P v) = v.
Proof.
  intros P signed v HP Hv. destruct (pow2_bounds P HP) as [Hb Hs].
  pose proof (container_value P signed v HP Hv) as Hu.
  unfold enc_sample, pack_sample. set (u := v mod 2 ^ P) in *.
  assert (Hur : 0 <= u < 2 ^ P) by (unfold u; apply Z.mod_pos_bound; lia).
  unfold in_sample_range in Hv.
  destruct (Z.leb_spec P 8) as [H8|H8].
  - (* one byte *)
    cbn [zn0 nth]. unfold zn0. cbn [nth]. unfold enc_sample8.
    destruct signed.
    + replace (2 ^ P - 1) with (Z.ones P) by (rewrite Z.ones_equiv; lia).
      rewrite Z.land_ones by lia. fold u. rewrite Z.mod_small by lia.
      destruct (Z.ltb_spec v 0) as [Hneg|Hpos]; rewrite Hu.
      * destruct (Z.geb_spec (v + 2 ^ P) (2 ^ (P - 1))); [|lia].
        rewrite wrapS32_id by (change (2 ^ 31) with 2147483648; lia). lia.
      * destruct (Z.geb_spec v (2 ^ (P - 1))); [lia|reflexivity].
    + rewrite Hu. destruct (Z.ltb_spec v 0); [lia|reflexivity].
  - (* little-endian 16-bit word *)
    unfold zn0. cbn [nth]. unfold enc_sample16.
    assert (Hdm : u = 256 * (u / 256) + u mod 256) by (apply Z.div_mod; lia).
    assert (Hm : 0 <= u mod 256 < 256) by (apply Z.mod_pos_bound; lia).
    assert (Hq : 0 <= u / 256) by (apply Z.div_pos; lia).
    rewrite lor_shiftl8 by lia.
    replace (u mod 256 + u / 256 * 256) with u by lia.
    destruct signed; cbn [andb].
    + destruct (Z.ltb_spec v 0) as [Hneg|Hpos]; rewrite Hu.
      * destruct (Z.geb_spec (v + 2 ^ P) (2 ^ (P - 1))); [|lia].
        rewrite wrapS32_id by (change (2 ^ 31) with 2147483648; lia). lia.
      * destruct (Z.geb_spec v (2 ^ (P - 1))); [lia|reflexivity].
    + rewrite Hu. destruct (Z.ltb_spec v 0); [lia|reflexivity].
Qed.

(* level shift: unsigned samples move to the signed range, inverse shift undoes it *)
Lemma dc_shift_range : forall P signed v, 1 <= P <= 16 -> in_sample_range P signed v ->
  - 2 ^ (P - 1) <= dc_shift P signed v < 2 ^ (P - 1) /\
  dc_unshift P signed (dc_shift P signed v) = v.
Proof.
  intros P signed v HP Hv. destruct (pow2_bounds P HP) as [Hb Hs].
  unfold in_sample_range in Hv. unfold dc_shift, dc_unshift. destruct signed; [lia|].
  rewrite wrapS32_id by (change (2 ^ 31) with 2147483648; lia).
  rewrite wrapS32_id by (change (2 ^ 31) with 2147483648; lia). lia.
Qed.

(* the decoder writes the property's container *)
Lemma dec_bytes_pack : forall P signed v, 1 <= P <= 16 -> in_sample_range P signed v ->
  dec_bytes P signed v = pack_sample P v.
Proof.
  intros P signed v HP Hv. destruct (pow2_bounds P HP) as [Hb Hs].
  pose proof (container_value P signed v HP Hv) as Hu.
  unfold dec_bytes, pack_sample. set (u := v mod 2 ^ P) in *.
  assert (Hur : 0 <= u < 2 ^ P) by (unfold u; apply Z.mod_pos_bound; lia).
  assert (Hc : dec_container P signed v = u).
  { unfold dec_container. unfold in_sample_range in Hv. destruct signed.
    - destruct (Z.ltb_spec v (- 2 ^ (P - 1))); [lia|].
      destruct (Z.gtb_spec v (2 ^ (P - 1) - 1)); [lia|].
      rewrite Hu. destruct (Z.ltb_spec v 0); [|reflexivity].
      apply wrapS32_id. change (2 ^ 31) with 2147483648. lia.
    - destruct (Z.ltb_spec v 0); [lia|].
      destruct (Z.gtb_spec v (2 ^ P - 1)); [lia|]. rewrite Hu. reflexivity. }
  rewrite Hc. unfold wrapU. change (2 ^ 8) with 256.
  destruct (Z.leb_spec P 8) as [H8|H8].
  - assert (2 ^ P <= 256) by (change 256 with (2 ^ 8); apply Z.pow_le_mono_r; lia).
    rewrite Z.mod_small by lia. reflexivity.
  - rewrite Z.shiftr_div_pow2 by lia. change (2 ^ 8) with 256.
    assert (u / 256 < 256).
    { apply Z.div_lt_upper_bound; [lia|]. assert (2 ^ P <= 65536) by (change 65536 with (2 ^ 16); apply Z.pow_le_mono_r; lia). lia. }
    assert (0 <= u / 256) by (apply Z.div_pos; lia).
    rewrite (Z.mod_small (u / 256)) by lia. reflexivity.
Qed.

Lemma pack_sample_bytes : forall P v, 1 <= P <= 16 ->
  Forall (fun b => 0 <= b < 256) (pack_sample P v) /\
  zlen (pack_sample P v) = bytes_per_sample P.
Proof.
  intros P v HP. unfold pack_sample, bytes_per_sample.
  assert (Hur : 0 <= v mod 2 ^ P < 2 ^ P) by (apply Z.mod_pos_bound; apply Z.pow_pos_nonneg; lia).
  destruct (Z.leb_spec P 8) as [H8|H8].
  - assert (2 ^ P <= 256) by (change 256 with (2 ^ 8); apply Z.pow_le_mono_r; lia).
    split; [repeat constructor; lia|].
    assert (Hq : Z.quot (P + 7) 8 = 1) by (rewrite Z.quot_div_nonneg by lia; symmetry; apply Z.div_unique with (r := P - 1); lia).
    rewrite Hq. reflexivity.
  - assert (2 ^ P <= 65536) by (change 65536 with (2 ^ 16); apply Z.pow_le_mono_r; lia).
    split.
    + repeat constructor; try (apply Z.mod_pos_bound; lia); try (apply Z.div_pos; lia).
      apply Z.div_lt_upper_bound; lia.
    + assert (Hq : Z.quot (P + 7) 8 = 2) by (rewrite Z.quot_div_nonneg by lia; symmetry; apply Z.div_unique with (r := P - 9); lia).
      rewrite Hq. reflexivity.
Qed.

(* The per-sample theorem.  The container the decoder writes is pack_sample P v: the value
   v mod 2^P — P-bit two's complement, every bit above bit P-1 zero — in one byte (P <= 8) or a
   little-endian 16-bit word (P > 8). *)
Theorem sample_codec_roundtrip : forall P signed v, 1 <= P <= 16 -> in_sample_range P signed v ->
  let bytes := pack_sample P v in
  let x := enc_sample P signed bytes in                  (* convertPixelData *)
  let s := dc_shift P signed x in                        (* applyDCLevelShift *)
  x = v /\
  - 2 ^ (P - 1) <= s < 2 ^ (P - 1) /\
  dc_unshift P signed s = v /\                           (* applyInverseDCLevelShift *)
  dec_bytes P signed (dc_unshift P signed s) = bytes /\  (* GetPixelData *)
  Forall (fun b => 0 <= b < 256) bytes /\ zlen bytes = bytes_per_sample P /\
  0 <= v mod 2 ^ P < 2 ^ P.
Proof.
  intros P signed v HP Hv. cbv zeta.
  rewrite (enc_sample_pack P signed v HP Hv).
  destruct (dc_shift_range P signed v HP Hv) as [Hr Hinv].
  destruct (pack_sample_bytes P v HP) as [Hb Hl].
  repeat split; try tauto; try lia.
  - rewrite Hinv. apply dec_bytes_pack; assumption.
  - apply Z.mod_pos_bound. apply Z.pow_pos_nonneg; lia.
  - apply Z.mod_pos_bound. apply Z.pow_pos_nonneg; lia.
Qed.
