(* C13, second half — the library decoders on EVERY header layout / table assignment of the
   independent T.81 Annex H encoder (JllT81Gen.t81_gen_hv; t81_gen = t81_gen_hv 17 writes the
   sampling byte 0x11 everywhere). Property theorems only. *)
From V Require Import Common.Base JpegLL.JllBits JpegLL.JllHuff JpegLL.JllModel JpegLL.JllT81
  JpegLL.JllT81Gen JpegLL.JllProofsBits JpegLL.JllProofsHuff JpegLL.JllProofs JpegLL.JllProofsRT
  JpegLL.JllProofsT81 JpegLL.JllProofsDest JpegLL.JllProofsDestHdr JpegLL.JllProofsDestMain
  JpegLL.JllProofsDestEnc.

(* lossless.Decode (model, byte-exact with the Go code by the correspondence run) returns the
   source image, geometry and precision from every stream t81_gen_hv produces for a 1- or
   3-component image: every predictor 1..7; any table destination Td in 0..3 per component
   (shared or not); ANY valid Huffman tables (Kraft sum <= 1 over lengths 1..16, distinct
   symbols; the generator refuses only a difference category without code); DHT segments with
   one or several tables, before and/or after SOF3, a destination possibly redefined (last
   definition in force), tables of class Tc = 1 kept apart; any number of APPn/COM segments with
   arbitrary payloads (also empty) anywhere between SOI and SOS; arbitrary distinct component
   identifiers; for a single-component frame ANY sampling byte hv = H1|V1 with H1, V1 in 1..4
   (the factors of a lone component do not change the image, T.81 A.1.1 / A.2.2; multi-component
   frames are written with 0x11).  (t81_gen_hv returns Some only for a well-formed source image:
   C13_generator_wf, and only for H1, V1 in 1..4: C13_generator_sampling.) *)
Theorem C13_decoder_on_every_t81_layout : forall hv sel cids tds items w h P pixels s,
  (length cids = 1 \/ length cids = 3)%nat ->
  t81_gen_hv hv sel cids tds items w h P pixels = Some s ->
  jll_decode s = Ok (pixels, w, h, Z.of_nat (length cids), P).
Proof. exact jll_decodes_t81_gen_hv_full. Qed.
Print Assumptions C13_decoder_on_every_t81_layout.

(* the same for lossless14sv1.Decode, predictor 1 (with the sampling factor check of parseSOF3
   restricted to numComponents > 1; see C13_sv1_grey_sampling_decoded) *)
Theorem C13_sv1_decoder_on_every_t81_layout : forall hv cids tds items w h P pixels s,
  (length cids = 1 \/ length cids = 3)%nat ->
  t81_gen_hv hv 1 cids tds items w h P pixels = Some s ->
  sv1_decode s = Ok (pixels, w, h, Z.of_nat (length cids), P).
Proof. exact sv1_decodes_t81_gen_hv_full. Qed.
Print Assumptions C13_sv1_decoder_on_every_t81_layout.

(* the instances with all sampling factors 1 *)
Theorem C13_decoder_on_every_t81_layout_h1v1 : forall sel cids tds items w h P pixels s,
  (length cids = 1 \/ length cids = 3)%nat ->
  t81_gen sel cids tds items w h P pixels = Some s ->
  jll_decode s = Ok (pixels, w, h, Z.of_nat (length cids), P).
Proof. exact jll_decodes_t81_gen_full. Qed.
Print Assumptions C13_decoder_on_every_t81_layout_h1v1.
Theorem C13_sv1_decoder_on_every_t81_layout_h1v1 : forall cids tds items w h P pixels s,
  (length cids = 1 \/ length cids = 3)%nat ->
  t81_gen 1 cids tds items w h P pixels = Some s ->
  sv1_decode s = Ok (pixels, w, h, Z.of_nat (length cids), P).
Proof. exact sv1_decodes_t81_gen_full. Qed.
Print Assumptions C13_sv1_decoder_on_every_t81_layout_h1v1.

(* limits of the decoders inside T.81 (replayed on the Go code): component counts 2 and 4 ... *)
Theorem C13_component_count_refuted :
  t81_gen 1 [1; 2] [0; 0] [GSof; GDht [(0, 0, (t81_std_bits, t81_std_vals))]] 2 1 8 [10; 20; 30; 40]
    = Some two_comp_stream /\
  t81_decode two_comp_stream = Some ([10; 20; 30; 40], 2, 1, 2, 8) /\
  jll_decode two_comp_stream = Err /\ sv1_decode two_comp_stream = Err /\
  ~ decoders_any_component_count_statement.
Proof. exact decoders_any_component_count_refuted. Qed.
Print Assumptions C13_component_count_refuted.

(* History (finding F54).  This file used to contain C13_sv1_grey_sampling_refuted: the model of
   lossless14sv1.Decode returned Err for grey_h2v2_stream, a conformant one-component frame whose
   SOF3 declares H1 = V1 = 2 (0x22, written by some encoders for greyscale), because parseSOF3
   required H = V = 1 of every component; lossless.Decode accepted it.  The witness replayed on
   the Go code was a defect; parseSOF3 now applies the check only when numComponents > 1.  On
   the repaired model the former witness is decoded (it is the t81_gen_hv stream for hv = 0x22
   and differs from the 0x11 stream in that byte only), and the general case is
   C13_sv1_decoder_on_every_t81_layout above. *)
Theorem C13_sv1_grey_sampling_decoded :
  t81_gen_hv 34 1 [1] [0] [GSof; GDht [(0, 0, (t81_std_bits, t81_std_vals))]] 2 1 8 [10; 20]
    = Some grey_h2v2_stream /\
  t81_gen 1 [1] [0] [GSof; GDht [(0, 0, (t81_std_bits, t81_std_vals))]] 2 1 8 [10; 20]
    = Some (firstn 13 grey_h2v2_stream ++ [17] ++ skipn 14 grey_h2v2_stream) /\
  jll_decode grey_h2v2_stream = Ok ([10; 20], 2, 1, 1, 8) /\
  sv1_decode grey_h2v2_stream = Ok ([10; 20], 2, 1, 1, 8).
Proof. exact grey_sampling_decoded. Qed.
Print Assumptions C13_sv1_grey_sampling_decoded.

(* the statement that Props/C13.v left to the harness (jll_decodes_t81_general_statement): both
   decoders on every stream of the earlier reference encoder t81_encode — any Td assignment, any
   list of valid tables with distinct destinations, DHT before or after SOF3, any APPn/COM
   segments after SOI — is a corollary (t81_encode's streams are streams of t81_gen) *)
Theorem C13_decoder_on_t81_general : forall sel tds tables dht_after extras w h comps P pixels s,
  comps = 1 \/ comps = 3 ->
  t81_encode sel tds tables dht_after extras w h comps P pixels = Some s ->
  jll_decode s = Ok (pixels, w, h, comps, P) /\
  (sel = 1 -> sv1_decode s = Ok (pixels, w, h, comps, P)).
Proof. exact jll_decodes_t81_general. Qed.
Print Assumptions C13_decoder_on_t81_general.

(* the generator accepts exactly well-formed images *)
Theorem C13_generator_wf : forall hv sel cids tds items w h P pixels s,
  (length cids = 1 \/ length cids = 3)%nat ->
  t81_gen_hv hv sel cids tds items w h P pixels = Some s ->
  wf_image w h (Z.of_nat (length cids)) P pixels.
Proof. exact t81_gen_hv_wf. Qed.
Print Assumptions C13_generator_wf.
(* ... and only sampling factors 1..4 *)
Theorem C13_generator_sampling : forall hv sel cids tds items w h P pixels s,
  t81_gen_hv hv sel cids tds items w h P pixels = Some s ->
  1 <= hv / 16 <= 4 /\ 1 <= hv mod 16 <= 4.
Proof. exact t81_gen_hv_sampling. Qed.
Print Assumptions C13_generator_sampling.

(* ---------- non-vacuity ---------- *)
(* three components with identifiers 7, 0, 200 and destinations 2, 1, 3; an empty COM first; one
   DHT segment with three tables (destination 2, a class-1 table for destination 0 that must not
   be used, destination 1); an APP1 whose payload looks like markers; SOF3; destination 2
   REDEFINED with another table after SOF3; destination 3 in its own DHT; an empty APP14 in
   front of SOS.  The hypotheses hold, and so do the conclusions (computed independently). *)
Example C13_every_layout_nonvacuous :
  let px := [1; 200; 30; 2; 201; 29; 250; 190; 35; 9; 0; 255] in
  let items := [GExtra 254 [];
                GDht [(0, 2, (t81_std_bits, t81_std_vals)); (1, 0, (t81g_alt_bits, t81g_alt_vals));
                      (0, 1, (t81g_alt_bits, t81g_alt_vals))];
                GExtra 225 [255; 218; 0]; GSof; GDht [(0, 2, (t81g_alt_bits, t81g_alt_vals))];
                GDht [(0, 3, (t81_std_bits, t81_std_vals))]; GExtra 238 []] in
  wf_image 2 2 (Z.of_nat (length [7; 0; 200])) 8 px /\
  exists s, t81_gen 1 [7; 0; 200] [2; 1; 3] items 2 2 8 px = Some s /\
            jll_decode s = Ok (px, 2, 2, 3, 8) /\ sv1_decode s = Ok (px, 2, 2, 3, 8) /\
            t81_decode s = Some (px, 2, 2, 3, 8).
Proof.
  cbv zeta. split.
  - apply wf_imageb_ok. vm_compute. reflexivity.
  - eexists. split; [vm_compute; reflexivity|]. split; [vm_compute; reflexivity|].
    split; vm_compute; reflexivity.
Qed.

(* predictor 6, one component, P = 16, table with 16 categories missing nothing, DHT before SOF3 *)
Example C13_every_layout_nonvacuous_p16 :
  let px := [0; 128; 255; 255; 0; 0; 1; 128] in
  wf_image 2 2 (Z.of_nat (length [9])) 16 px /\
  exists s, t81_gen 6 [9] [3] [GDht [(0, 3, (t81g_alt_bits, t81g_alt_vals))]; GExtra 239 [1; 2]; GSof] 2 2 16 px = Some s /\
            jll_decode s = Ok (px, 2, 2, 1, 16).
Proof.
  cbv zeta. split.
  - apply wf_imageb_ok. vm_compute. reflexivity.
  - eexists. split; [vm_compute; reflexivity|]. vm_compute; reflexivity.
Qed.

(* one component written with H1 = 4, V1 = 3 (0x43), P = 12, predictor 1, the table defined twice;
   the stream carries 0x43 at the sampling byte and both decoders return the source *)
Example C13_every_layout_nonvacuous_sampling :
  let px := [255; 15; 0; 0; 1; 8; 254; 7] in
  let items := [GDht [(0, 1, (t81_std_bits, t81_std_vals))]; GSof; GDht [(0, 1, (t81g_alt_bits, t81g_alt_vals))]] in
  wf_image 2 2 (Z.of_nat (length [5])) 12 px /\
  exists s, t81_gen_hv 67 1 [5] [1] items 2 2 12 px = Some s /\
            In 67 s /\
            t81_gen_hv 67 1 [5] [1] items 2 2 12 px <> t81_gen 1 [5] [1] items 2 2 12 px /\
            jll_decode s = Ok (px, 2, 2, 1, 12) /\ sv1_decode s = Ok (px, 2, 2, 1, 12).
Proof.
  cbv zeta. split.
  - apply wf_imageb_ok. vm_compute. reflexivity.
  - eexists. split; [vm_compute; reflexivity|]. split; [vm_compute; tauto|].
    split; [vm_compute; discriminate|]. split; vm_compute; reflexivity.
Qed.

(* an instance of C13_decoder_on_t81_general outside the configuration proved in Props/C13.v *)
Example C13_t81_general_nonvacuous :
  let px := [1; 200; 30; 2; 201; 29; 250; 190; 35; 9; 0; 255] in
  exists s,
    t81_encode 1 [0; 2; 3] [(0, (t81_std_bits, t81_std_vals)); (2, (t81g_alt_bits, t81g_alt_vals));
                            (3, (t81_std_bits, t81_std_vals))] false t81_demo_extras 2 2 3 8 px = Some s /\
    jll_decode s = Ok (px, 2, 2, 3, 8) /\ sv1_decode s = Ok (px, 2, 2, 3, 8).
Proof.
  cbv zeta. eexists. split; [vm_compute; reflexivity|]. split; vm_compute; reflexivity.
Qed.
