(* C09 for the EBCOT tier-1 block decoder: the number of loop iterations / entropy decisions of
   a block decode (d_work: one per sample visit, one per decision, (w+2)(h+2) per VISIT sweep,
   w*h for GetData) is bounded by a constant times block area times number of passes, and the
   pass loops terminate within fuel = passes + 1.  The number of passes is len(passLengths) or
   the numPasses argument, both sums of per-packet pass counts read from packet headers (each
   costs header bits), the area is at most 4096 (COD).  roishift is the literal 0 at the call
   sites t2/tile_decoder.go 711, 713, 716. *)
From V Require Import Common.Base T1.T1Store T1Safe.T1sModel T1Safe.T1sProofsTop T1Safe.T1sProofsProps.

Theorem C09_t1_decode_work :
  forall w h orient style data lens numPasses maxbp useT bits d,
  1 <= w <= 1024 -> 1 <= h <= 1024 ->
  t1s_block w h orient style data lens numPasses maxbp useT bits = Ok d ->
  d_work d <= 28 * w * h * (Z.max (zlen lens) numPasses) + w * h.
Proof. exact t1_decode_work. Qed.
Print Assumptions C09_t1_decode_work.

Theorem C09_t1_layered_work :
  forall w h orient style data lens maxbp roishift useT lossless bits d,
  1 <= w <= 1024 -> 1 <= h <= 1024 -> roishift <= 0 ->
  t1s_layered w h orient style data lens maxbp roishift useT lossless bits = Ok d ->
  d_work d <= zlen lens * t1s_K w h + w * h.
Proof. exact t1s_layered_work. Qed.
Print Assumptions C09_t1_layered_work.

Theorem C09_t1_bitplane_work :
  forall w h orient style data numPasses maxbp roishift bits d,
  1 <= w <= 1024 -> 1 <= h <= 1024 -> roishift <= 0 ->
  t1s_bitplane w h orient style data numPasses maxbp roishift bits = Ok d ->
  d_work d <= Z.max 0 numPasses * t1s_K w h + w * h.
Proof. exact t1s_bitplane_work. Qed.
Print Assumptions C09_t1_bitplane_work.

(* t1s_K w h = 15 w h + 4 + (w+2)(h+2) <= 28 w h *)
Theorem C09_t1_pass_constant : forall w h, 1 <= w -> 1 <= h -> t1s_K w h <= 28 * w * h.
Proof. exact t1s_K_bound. Qed.
Print Assumptions C09_t1_pass_constant.

Theorem C09_t1_fuel_linear : forall numPasses, 0 <= numPasses ->
  Z.of_nat (pass_fuel numPasses) = numPasses + 1.
Proof. exact t1s_fuel_linear. Qed.
Print Assumptions C09_t1_fuel_linear.

Example C09_t1_nonvacuous :
  1 <= 5 <= 1024 /\ 1 <= 9 <= 1024 /\
  (exists d, t1s_block 5 9 3 37 [255; 255; 0; 17] [1; 1; 2; 2; 3; 4; 4] 0 40 true
               [1; 1; 0; 1; 0; 0; 1; 1; 1; 0; 1; 1] = Ok d /\ d_work d = 656 /\
             28 * 5 * 9 * Z.max 7 0 + 5 * 9 = 8865).
Proof. split; [lia|]. split; [lia|]. eexists. split; [vm_compute; reflexivity|]. split; reflexivity. Qed.

Example C09_t1_nonvacuous_roishift :
  1 <= 8 <= 1024 /\ 1 <= 8 <= 1024 /\ 
  t1s_class (t1s_bitplane 8 8 0 1 [1; 2; 3; 4] 164 54 0 [1; 0; 1]) = Ok 14127.
Proof. split; [lia|]. split; [lia|]. vm_compute. reflexivity. Qed.

(* the guard roishift <= 0 is necessary (exported T1 API only; the T2 caller passes 0) *)
Theorem C09_t1_work_bound_needs_roishift0 :
  exists w h style data numPasses maxbp roishift bits d,
    1 <= w <= 1024 /\ 1 <= h <= 1024 /\ 0 < roishift /\
    t1s_bitplane w h 0 style data numPasses maxbp roishift bits = Ok d /\
    Z.max 0 numPasses * t1s_K w h + w * h < d_work d.
Proof. exact t1s_work_roishift_refuted. Qed.
Print Assumptions C09_t1_work_bound_needs_roishift0.

(* memory: bytes requested with make() by NewT1Decoder, the pass loop of
   DecodeLayeredWithMode (one buffer of len(segment)+2 per codeword segment, the segments being
   disjoint slices data[prevEnd:segmentEnd]; 19 context bytes per new decoder and per
   GetContexts) and GetData: linear in the block area, len(data) and the number of passes *)
Theorem C09_t1_layered_memory :
  forall w h orient style data lens maxbp roishift useT lossless bits,
  1 <= w <= 1024 -> 1 <= h <= 1024 ->
  t1s_layered_mem w h orient style data lens maxbp roishift useT lossless bits = Err \/
  exists m, t1s_layered_mem w h orient style data lens maxbp roishift useT lossless bits = Ok m /\
            m <= 8 * ((w + 2) * (h + 2)) + 4 * (w * h) + zlen data + 40 * zlen lens + 21.
Proof. exact t1s_layered_mem_total. Qed.
Print Assumptions C09_t1_layered_memory.

Example C09_t1_memory_nonvacuous :
  1 <= 5 <= 1024 /\ 1 <= 9 <= 1024 /\
  t1s_layered_mem 5 9 3 37 [255; 255; 0; 17] [1; 1; 2; 2; 3; 4; 4] 40 0 true false
                  [1; 1; 0; 1; 0; 0; 1; 1; 1; 0; 1; 1] = Ok 1080.
Proof. split; [lia|]. split; [lia|]. vm_compute. reflexivity. Qed.
