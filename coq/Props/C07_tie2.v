(* C07, tie by translation (second list): the run-interruption context functions of jpegls/lossless/runmode.go (ComputeErrorValue, ComputeMap, UpdateVariables, signInt) and jpegls/runmode Sign/Min/Max equal the model functions of JpegLS/JlsRun.v. *)
From V Require Import Common.Base Gen.KernelsMore_gen Tie.TieKernelsMore.

Theorem C07_tie2_rm_ComputeErrorValue : forall c temp k,
  jpegls_lossless_RunModeContext_ComputeErrorValue c temp k = R.ComputeErrorValue (rc_of c) temp k.
Proof. exact tie_rm_ComputeErrorValue. Qed.
Print Assumptions C07_tie2_rm_ComputeErrorValue.

Theorem C07_tie2_rm_ComputeMap : forall c e k,
  jpegls_lossless_RunModeContext_ComputeMap c e k = R.ComputeMap (rc_of c) e k.
Proof. exact tie_rm_ComputeMap. Qed.
Print Assumptions C07_tie2_rm_ComputeMap.

Theorem C07_tie2_rm_UpdateVariables : forall c e em reset,
  rc_of (jpegls_lossless_RunModeContext_UpdateVariables c e em reset) = R.UpdateVariables (rc_of c) e em reset.
Proof. exact tie_rm_UpdateVariables. Qed.
Print Assumptions C07_tie2_rm_UpdateVariables.

Theorem C07_tie2_signInt : forall n, jpegls_lossless_signInt n = R.signInt n.
Proof. exact tie_signInt. Qed.
Print Assumptions C07_tie2_signInt.

Theorem C07_tie2_Sign : forall n, jpegls_runmode_Sign n = R.signInt n.
Proof. exact tie_Sign. Qed.
Print Assumptions C07_tie2_Sign.

Theorem C07_tie2_Min : forall a b, jpegls_runmode_Min a b = Z.min a b.
Proof. exact tie_Min. Qed.
Print Assumptions C07_tie2_Min.

Theorem C07_tie2_Max : forall a b, jpegls_runmode_Max a b = Z.max a b.
Proof. exact tie_Max. Qed.
Print Assumptions C07_tie2_Max.

Example C07_tie2_instance :
  rc_of (jpegls_lossless_RunModeContext_UpdateVariables (mk_jpegls_lossless_RunModeContext 1 40 64 9) (-3) 5 64) =
  R.mkRunCtx 1 21 33 5.
Proof. vm_compute. reflexivity. Qed.
