(* C06 — HTJ2K lossless. Property theorems only.

   SCOPE (read this first).  The HT cleanup pass AS A WHOLE — quad scanning and context formation,
   the exponent predictor (kappa / E_max over the previous row), MagSgn bit packing, the three byte
   streams and the MEL/VLC byte fusion — IS modelled (HT/HtBlockEnc.v, HtBlockDec.v, byte-exact
   against the Go block coder) and its round trip is proved: see Props/C06_block.v
   (C06_ht_cleanup_roundtrip, _validated, C06_ht_segments_wellformed).  This file holds the
   component theorems below.  Still NOT a theorem: "decode (encode frame) = frame" for a whole
   frame — the chain block coder -> T2 packets (C04) -> 5/3 + RCT (C20) -> tile/components is not
   composed in Coq; the end-to-end round trip of the .201/.202 transfer syntaxes (all sizes incl.
   1-pixel wide/high, 8/16 bit, 1/3 components, block sizes, levels 0..6) and the 14
   OpenJPH/fo-dicom fixtures are decided by the Go oracles of harness/suites/j2ke2e (c05c06.go)
   together with the block-level oracles of harness/suites/ht.  The property level of C06 is
   PARTIAL for that reason only.

   What IS proved, over models tied to the Go code by the correspondence run and over tables
   regenerated from /repo on every run (Gen/HtTables_gen.v):
     C06_mel_roundtrip               MEL coder (MELEncoder/MELDecoder), every event sequence, through the stuffed bytes
     C06_ojph_mel_roundtrip          the live MEL pair (ojphMELWriter + terminateOJPHMELVLC fusion /
                                     ojphMELReader with its 8-run look-ahead), every event sequence
     C06_scup_fits_validated_block   Scup <= 4079 for every code-block the encoder accepts since the
                                     repair of finding F20 (width*height <= 4096), from the proved MEL
                                     size bound and the table maxima; cleanup-pass structure as named
                                     hypotheses (discharged from the block model in C06_block.v:
                                     C06_ht_suffix_fits)
     C06_uvlc_exhaustive / _pair     U-VLC: the whole range, spec coder and live pair coder
     C06_vlc_tables_inverse_exhaustive, C06_vlc_encode_decode   CxtVLC over the regenerated tables
     C06_scup_roundtrip              Scup locator
     C06_levels_clamp_sound          what calculateMaxLevels guarantees
     C06_kmax_sufficient / _consistent   Kmax from the QCD exponents as coded now (the defect
                                     class of finding F12), C06_sample_word_roundtrip
   The 5/3 transform and RCT inverses are C20; the T2 layer is shared with C04. *)
From V Require Import Common.Base Gen.HtTables_gen HT.HtMel HT.HtUvlc HT.HtVlc HT.HtLevels
  HT.HtProofsTables HT.HtProofsLevels HT.HtProofsMel HT.HtProofsMelOjph.

(* MEL: for any list of events of any length the decoder fed the encoder's terminated byte
   string (byte stuffing, closing of a pending run, padding) returns the events. *)
Theorem C06_mel_roundtrip : forall evs : list bool,
  mel_decode_bytes (length evs) (mel_encode_bytes evs) = Some evs.
Proof. exact mel_roundtrip. Qed.
Print Assumptions C06_mel_roundtrip.

(* the live pair: any events, any VLC writer state at termination (fused last byte or not), any
   bytes after the MEL segment (at least the two that carry Scup) *)
Theorem C06_ojph_mel_roundtrip : forall evs vt vu more rest,
  0 <= vt < 256 -> Forall (fun b => 0 <= b < 256) rest -> (2 <= length rest)%nat ->
  ojph_mel_decode_bytes (length evs)
    (fst (ojph_mel_terminate (melw_encode_all evs) vt vu more) ++ rest) = evs.
Proof. exact ojph_mel_roundtrip. Qed.
Print Assumptions C06_ojph_mel_roundtrip.
Example C06_ojph_mel_nonvacuous :
  ojph_mel_terminate (melw_encode_all [false; false; true; false]) 15 4 true = ([223], None) /\
  ojph_mel_terminate (melw_encode_all [false; false; true; false]) 15 4 false = ([208], Some 15).
Proof. vm_compute. split; reflexivity. Qed.

(* size of the MEL segment: at least 7 coded bits per byte, at most 6 bits per event *)
Theorem C06_ojph_mel_bytes_bound : forall evs vt vu more, 0 <= vt < 256 ->
  (7 * length (fst (ojph_mel_terminate (melw_encode_all evs) vt vu more)) <= 6 * length evs + 9)%nat.
Proof. exact ojph_mel_bytes_bound. Qed.
Print Assumptions C06_ojph_mel_bytes_bound.

(* the Scup budget of a validated code-block (hypotheses named in HtProofsMelOjph) *)
Theorem C06_scup_fits_validated_block : forall (Q nev melbytes vlcbits vlcbytes : Z),
  0 <= Q <= 1024 -> 0 <= nev <= Q + (Q + 1) / 2 -> 7 * melbytes <= 6 * nev + 9 ->
  0 <= vlcbits <= 4 + 7 * Q + 16 * ((Q + 1) / 2) -> 7 * (vlcbytes - 2) <= vlcbits ->
  melbytes + vlcbytes <= 4079.
Proof. exact scup_fits_validated_block. Qed.
Print Assumptions C06_scup_fits_validated_block.
Example C06_scup_budget_nonvacuous :
  0 <= 1024 <= 1024 /\ 0 <= 1536 <= 1024 + (1024 + 1) / 2 /\ 7 * 1317 <= 6 * 1536 + 9 /\
  0 <= 15364 <= 4 + 7 * 1024 + 16 * ((1024 + 1) / 2) /\ 7 * (2196 - 2) <= 15364 /\ 1317 + 2196 = 3513.
Proof. vm_compute. repeat split; congruence. Qed.

(* U-VLC, spec-style coder: the whole range 1..96 the 3+5+4-bit format expresses, any continuation *)
Theorem C06_uvlc_exhaustive : forall u rest, 1 <= u <= 96 ->
  uvlc_decode_residual (uvlc_stream u ++ rest) = Ok (u, rest).
Proof. exact uvlc_exhaustive. Qed.
Print Assumptions C06_uvlc_exhaustive.
Example C06_uvlc_nonvacuous : uvlc_stream 37 = [0; 0; 0; 0; 0; 1; 1; 1; 1; 0; 0; 0] /\ uvlc_stream 96 <> [].
Proof. vm_compute. split; [reflexivity|discriminate]. Qed.

(* U-VLC, live pair coder (what ojphEncode{Initial,NonInitial}UVLC emit / decodeOJPHUVLC reads over
   the regenerated-and-rebuilt tables), u0, u1 in 0..34, any 6 following stream bits *)
Theorem C06_uvlc_pair_exhaustive : forall (initial : bool) (u0 u1 rest : Z),
  0 <= u0 <= 34 -> 0 <= u1 <= 34 -> 0 <= rest < 64 ->
  let '(v, n) := pack_calls (if initial then ojph_uvlc_initial_calls u0 u1
                             else ojph_uvlc_noninitial_calls u0 u1) in
  ojph_uvlc_decode initial (ojph_uvlc_mode initial u0 u1) (v + Z.shiftl rest n) = (u0, u1, n).
Proof. exact uvlc_pair_exhaustive. Qed.
Print Assumptions C06_uvlc_pair_exhaustive.
Example C06_uvlc_pair_nonvacuous :
  pack_calls (ojph_uvlc_initial_calls 5 7) = (4, 12) /\ ojph_uvlc_mode true 5 7 = 256 /\
  pack_calls (ojph_uvlc_initial_calls 9 2) = (72, 9).
Proof. vm_compute. repeat split. Qed.

(* CxtVLC: every entry of the regenerated source tables decodes to its own fields and length *)
Theorem C06_vlc_tables_inverse_exhaustive : forall (first : bool) (e : vlc_entry) (peek : Z),
  In e (src_of first) -> Z.land peek (2 ^ ve_len e - 1) = ve_cwd e ->
  let t := vlc_decode (lookup_of first) (ve_cq e) peek in
  vl_rho t = ve_rho e /\ vl_uoff t = ve_uoff e /\ vl_ek t = ve_ek e /\ vl_e1 t = ve_e1 e /\
  vl_len t = ve_len e.
Proof. exact vlc_tables_inverse_exhaustive. Qed.
Print Assumptions C06_vlc_tables_inverse_exhaustive.
Example C06_vlc_tables_nonvacuous :
  (length (src_of true) = 444 /\ length (src_of false) = 358)%nat /\
  In (mk_vlc_entry 0 1 0 0 0 6 4) (src_of true) /\ Z.land 118 (2 ^ 4 - 1) = 6.
Proof. split; [vm_compute; split; reflexivity|]. split; [left; reflexivity|reflexivity]. Qed.

(* CxtVLC: the live encoder's table against the live decoder's table, whole index domain *)
Theorem C06_vlc_encode_decode : forall (first : bool) (cq rho eps peek : Z),
  0 <= cq < 8 -> 0 <= rho < 16 -> 0 <= eps < 16 -> ojph_valid cq rho eps = true ->
  let t := ojph_encode_tuple first cq rho eps in
  Z.land peek (2 ^ tuple_len t - 1) = tuple_cwd t ->
  let d := vlc_decode (lookup_of first) cq peek in
  1 <= tuple_len t <= 7 /\ vl_rho d = rho /\ vl_len d = tuple_len t /\ vl_ek d = tuple_ek t /\
  vl_e1 d = Z.land eps (tuple_ek t) /\ vl_uoff d = (if eps =? 0 then 0 else 1).
Proof. exact vlc_ojph_encode_decode. Qed.
Print Assumptions C06_vlc_encode_decode.
Example C06_vlc_encode_nonvacuous : ojph_valid 0 5 1 = true /\ ojph_encode_tuple true 0 5 1 = 3957.
Proof. vm_compute. split; reflexivity. Qed.

(* Scup locator *)
Theorem C06_scup_roundtrip : forall pre prev last scup,
  0 <= prev < 256 ->
  let block := pre ++ [prev; last] in
  2 <= scup <= zlen block -> scup <= 4079 ->
  let block' := scup_write block scup in
  exists prev' last', block' = pre ++ [prev'; last'] /\
    Z.land prev' 240 = Z.land prev 240 /\ 0 <= prev' < 256 /\ 0 <= last' < 256 /\
    scup_parse block' = Ok (firstn (Z.to_nat (zlen block - scup)) block',
                            skipn (Z.to_nat (zlen block - scup)) block') /\
    zlen (skipn (Z.to_nat (zlen block - scup)) block') = scup.
Proof. exact scup_roundtrip. Qed.
Print Assumptions C06_scup_roundtrip.
Example C06_scup_nonvacuous :
  scup_write [1; 2; 3; 171; 205] 3 = [1; 2; 3; 163; 0] /\ scup_parse [1; 2; 3; 163; 0] = Ok ([1; 2], [3; 163; 0]).
Proof. vm_compute. split; reflexivity. Qed.

(* level clamp: exactly what calculateMaxLevels guarantees (see HtProofsLevels) *)
Theorem C06_levels_clamp_sound : forall w h, 1 <= w <= 2 ^ 62 -> 1 <= h <= 2 ^ 62 ->
  let L := calc_max_levels w h in
  0 <= L <= 6 /\
  (forall l, (Z.of_nat l < L) -> 2 <= res_dim l (zmin w h) 0) /\
  (forall l, 1 <= res_dim l w 0 /\ 1 <= res_dim l h 0) /\
  (L < 6 -> res_dim (Z.to_nat L) (zmin w h) 0 = 1).
Proof. exact levels_clamp_sound. Qed.
Print Assumptions C06_levels_clamp_sound.
Example C06_levels_nonvacuous : calc_max_levels 1 500 = 0 /\ calc_max_levels 3 100 = 2 /\ calc_max_levels 65 65 = 6 /\ res_dim 2 3 0 = 1.
Proof. vm_compute. repeat split. Qed.

(* Kmax is large enough for every coefficient within the BIBO bound of its band (proviso: the one
   power-of-two gain, see HtProofsLevels.kmax_sufficient) *)
Theorem C06_kmax_sufficient : forall P rct L idx c,
  1 <= P <= 16 -> 0 <= L <= 6 -> 0 <= idx <= 3 * L ->
  let g := gain_of L idx in let p := prec_of P rct in let k := kmax_of L P rct idx in
  Z.abs c * e8 <= g * 2 ^ (p - 1) ->
  (g = 4 * e8 -> Z.abs c < 2 ^ (p + 1)) ->
  mag_bits c <= k /\ ht_kmax_ok k = true.
Proof. exact kmax_sufficient. Qed.
Print Assumptions C06_kmax_sufficient.
Example C06_kmax_nonvacuous :
  gain_of 0 0 = e8 /\ Z.abs (-128) * e8 <= gain_of 0 0 * 2 ^ (prec_of 8 false - 1) /\ kmax_of 0 8 false 0 = 8 /\
  gain_of 5 15 = 4 * e8 /\ Z.abs 131070 < 2 ^ (prec_of 16 false + 1) /\ kmax_of 5 16 false 15 = 17.
Proof. vm_compute. repeat split; congruence. Qed.

(* the proviso is discharged for the 5/3 predict step on two's-complement samples *)
Theorem C06_hh1_strict : forall p x00 x01 x02 x10 x11 x12 x20 x21 x22,
  1 <= p ->
  (forall x, In x [x00; x01; x02; x10; x11; x12; x20; x21; x22] -> - 2 ^ (p - 1) <= x <= 2 ^ (p - 1) - 1) ->
  let d0 := predict53 x00 x01 x02 in let d1 := predict53 x10 x11 x12 in let d2 := predict53 x20 x21 x22 in
  Z.abs (predict53 d0 d1 d2) <= 2 ^ (p + 1) - 2.
Proof. exact hh1_strict. Qed.
Print Assumptions C06_hh1_strict.
Example C06_hh1_nonvacuous : predict53 (predict53 127 (-128) 127) (predict53 (-128) 127 (-128)) (predict53 127 (-128) 127) = 510.
Proof. vm_compute. reflexivity. Qed.

(* encoder, QCD bytes, packet header and decoder derive the same Kmax / missing MSBs *)
Theorem C06_kmax_consistent : forall P rct L res band cb,
  1 <= P <= 16 -> 0 <= L <= 6 -> -1 <= res <= 7 -> -1 <= band <= 4 -> 0 <= cb <= 31 ->
  let qcd := qcd_rev_bytes L P rct in
  let k := enc_band_numbps L P rct res band in
  Forall (fun b => 0 <= b < 256) qcd /\
  (subband_index L res band < 0 -> k = 0 /\ dec_band_numbps qcd L res band = None) /\
  (0 <= subband_index L res band ->
     k = kmax_of L P rct (subband_index L res band) /\
     dec_band_numbps qcd L res band = Some k /\ ht_kmax_ok k = true /\
     snd (ht_pass_layout cb k) = k - 1 /\
     ht_missing_msbs true (snd (ht_pass_layout cb k)) k = k - 1 /\
     ht_missing_msbs false 0 k = k - 1 /\
     ht_dec_p (ht_missing_msbs true (snd (ht_pass_layout cb k)) k) = ht_enc_p k).
Proof. exact kmax_consistent. Qed.
Print Assumptions C06_kmax_consistent.
Example C06_kmax_consistent_nonvacuous :
  subband_index 2 1 3 = 3 /\ enc_band_numbps 2 8 false 1 3 = 10 /\ qcd_rev_bytes 2 8 false = [32; 72; 80; 80; 80; 72; 72; 72].
Proof. vm_compute. repeat split. Qed.

(* the coefficient <-> sign-magnitude word conversion of the cleanup coder is exact whenever the
   magnitude fits Kmax (and C06_kmax_sufficient says it does) *)
Theorem C06_sample_word_roundtrip : forall kmax v, 1 <= kmax <= 30 -> Z.abs v < 2 ^ kmax ->
  ht_sample_unpack kmax (ht_sample_pack kmax v) = v.
Proof. exact ht_sample_roundtrip. Qed.
Print Assumptions C06_sample_word_roundtrip.
Example C06_sample_word_nonvacuous :
  ht_sample_pack 8 (-128) = 3221225472 /\ ht_sample_unpack 7 (ht_sample_pack 7 (-128)) = 0.
Proof. vm_compute. split; reflexivity. Qed.
