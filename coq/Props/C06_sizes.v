(* C06 — HTJ2K lossless, the composed tile path: the code-block size hypothesis discharged.
   Property theorems only.

   Props/C06_pipe.v states the frame-level round trip pht_decode_tile (pht_encode_tile image) = image
   under three named hypotheses.  The third, hyp_ht_block_sizes ("no HT code-block is longer than
   65535 bytes", the limit beyond which PacketDecoder.decodePacket clamps a contribution), is a
   THEOREM here:

     C06_ht_block_bytes          HTEncoder.Encode (model HtBlockEnc.ht_block_encode) on a block of
        at most 1024 quads / 512 quad pairs whose coefficients have at most Kmax (1..30) magnitude bits
        returns at most 22219 bytes: every significant sample hands Uq - ek <= 31 bits to
        ojphMSWriter, which closes a byte after 8 bits (7 after a 0xFF byte), so the MagSgn part has
        at most (4 * 31 * 1024 + 7) / 7 = 18140 bytes; the MEL + VLC suffix has at most 4079
        (HtBlockProofsSize.ht_suffix_fits).
     C06_pipe_ht_block_sizes     for every parameter tuple in pht_scope and every sample array in
        range, hyp_kmax_fit implies hyp_ht_block_sizes (indeed every code-block of the tile is at
        most 22219 bytes: C06_pipe_ht_block_sizes_22219).  No assumption on all-zero blocks.
     C06_pipe_ht_roundtrip_two_hyps   the frame-level round trip with hyp_kmax_fit and
        hyp_no_zero_block only.
     C06_pipe_ht_block_sizes_levels0 / _levels1, C06_pipe_ht_roundtrip_one_hyp_levels0 / _levels1
        for zero levels, and for one level with tile origin (0,0), hyp_kmax_fit is a theorem
        (Props/C06_pipe.v), so hyp_ht_block_sizes holds unconditionally there and the round trip
        needs hyp_no_zero_block only. *)
From V Require Import Common.Base Pipe.PipeModel Pipe.PipeProofsFront
  HT.HtBlockEnc HT.HtBlockProofsQuad HT.HtBlockProofsBytes
  PipeHT.PhtModel PipeHT.PhtProofsMain PipeHT.PhtProofsSizes.

Theorem C06_ht_block_bytes : forall w h kmax data block,
  1 <= w -> 1 <= h -> 1 <= kmax <= 30 -> good kmax data ->
  Z.quot (w + 1) 2 * Z.quot (h + 1) 2 <= 1024 -> Z.quot (w + 3) 4 * Z.quot (h + 1) 2 <= 512 ->
  ht_block_encode w h kmax data = Ok block -> zlen block <= 22219.
Proof. exact ht_block_bytes. Qed.
Print Assumptions C06_ht_block_bytes.

(* a 4x4 block with Kmax = 9: 23 bytes *)
Example C06_ht_block_bytes_nonvacuous :
  let data := [22; -65; 49; 87; -54; -8; 34; -41; 34; 8; 370; 48; 70; -13; 345; 146] in
  good 9 data /\ exists block, ht_block_encode 4 4 9 data = Ok block /\ zlen block = 23.
Proof.
  cbv zeta. split; [repeat constructor; cbn; lia|]. eexists. split; vm_compute; reflexivity.
Qed.

Theorem C06_pipe_ht_block_sizes : forall p samples, pht_scope p -> samples_ok p samples ->
  hyp_kmax_fit p (pack_image p samples) -> hyp_ht_block_sizes p (pack_image p samples).
Proof. exact pht_block_sizes_from_kmax_fit. Qed.
Print Assumptions C06_pipe_ht_block_sizes.

Theorem C06_pipe_ht_block_sizes_22219 : forall p samples, pht_scope p -> samples_ok p samples ->
  hyp_kmax_fit p (pack_image p samples) ->
  forall coeffs, pipe_coeffs p (pack_image p samples) = Ok coeffs -> pht_blocks_bounded p 22219 coeffs.
Proof. exact pht_block_sizes_22219. Qed.
Print Assumptions C06_pipe_ht_block_sizes_22219.

Theorem C06_pipe_ht_roundtrip_two_hyps : forall p samples, pht_scope p -> samples_ok p samples ->
  let pix := pack_image p samples in
  hyp_kmax_fit p pix -> hyp_no_zero_block p pix ->
  exists tile, pht_encode_tile p pix = Ok tile /\ pht_decode_tile p tile = Ok pix.
Proof. exact pht_roundtrip_two_hyps. Qed.
Print Assumptions C06_pipe_ht_roundtrip_two_hyps.

(* an 8x8 8-bit image, TWO decomposition levels (where hyp_kmax_fit is not yet a theorem), 4x4
   code-blocks, RPCL: scope, samples and both remaining hypotheses hold *)
Example C06_pipe_ht_two_hyps_nonvacuous :
  let p := mkPP 8 8 1 8 false 2 4 4 false 2 0 0 8 in
  let s := [200; 3; 77; 140; 9; 250; 31; 66; 120; 5; 180; 91; 17; 230; 44; 101;
            7; 99; 212; 54; 163; 28; 240; 11; 87; 195; 33; 149; 68; 222; 2; 131;
            255; 0; 119; 73; 201; 36; 158; 94; 14; 247; 61; 176; 108; 25; 233; 82;
            45; 190; 6; 137; 97; 218; 52; 169; 123; 19; 244; 70; 185; 39; 152; 110] in
  pht_scope p /\ samples_ok p s /\ hyp_kmax_fit p (pack_image p s) /\ hyp_no_zero_block p (pack_image p s).
Proof.
  cbv zeta.
  split. { split; [|cbn; lia]. unfold pp_scope, pow2_size. cbn. repeat split; auto; lia. }
  split. { split; [reflexivity|]. repeat constructor; cbn; lia. }
  apply two_hyps_by_computation. vm_compute. reflexivity.
Qed.

Theorem C06_pipe_ht_block_sizes_levels0 : forall p samples, pht_scope p -> pp_levels p = 0 -> samples_ok p samples ->
  hyp_ht_block_sizes p (pack_image p samples).
Proof. exact pht_block_sizes_levels0. Qed.
Print Assumptions C06_pipe_ht_block_sizes_levels0.

Theorem C06_pipe_ht_block_sizes_levels1 : forall p samples, pht_scope p -> pp_levels p = 1 -> pp_x0 p = 0 -> pp_y0 p = 0 ->
  samples_ok p samples -> hyp_ht_block_sizes p (pack_image p samples).
Proof. exact pht_block_sizes_levels1. Qed.
Print Assumptions C06_pipe_ht_block_sizes_levels1.

Theorem C06_pipe_ht_roundtrip_one_hyp_levels0 : forall p samples, pht_scope p -> pp_levels p = 0 -> samples_ok p samples ->
  let pix := pack_image p samples in
  hyp_no_zero_block p pix ->
  exists tile, pht_encode_tile p pix = Ok tile /\ pht_decode_tile p tile = Ok pix.
Proof. exact pht_roundtrip_one_hyp_levels0. Qed.
Print Assumptions C06_pipe_ht_roundtrip_one_hyp_levels0.

Theorem C06_pipe_ht_roundtrip_one_hyp_levels1 : forall p samples, pht_scope p -> pp_levels p = 1 -> pp_x0 p = 0 -> pp_y0 p = 0 ->
  samples_ok p samples ->
  let pix := pack_image p samples in
  hyp_no_zero_block p pix ->
  exists tile, pht_encode_tile p pix = Ok tile /\ pht_decode_tile p tile = Ok pix.
Proof. exact pht_roundtrip_one_hyp_levels1. Qed.
Print Assumptions C06_pipe_ht_roundtrip_one_hyp_levels1.

(* a 4x4 one-level image at origin (0,0) and a 3x2 RGB image with zero levels: scope, samples and
   the one remaining hypothesis hold *)
Example C06_pipe_ht_one_hyp_nonvacuous :
  let p1 := mkPP 4 4 1 8 false 1 4 4 false 2 0 0 4 in
  let s1 := [200; 3; 77; 140; 9; 250; 31; 66; 120; 5; 180; 91; 17; 230; 44; 101] in
  let p0 := mkPP 3 2 3 8 false 0 4 4 true 2 0 0 3 in
  let s0 := [200; 3; 77; 140; 9; 250; 31; 66; 120; 5; 180; 91; 17; 230; 44; 101; 7; 99] in
  (pht_scope p1 /\ pp_levels p1 = 1 /\ pp_x0 p1 = 0 /\ pp_y0 p1 = 0 /\ samples_ok p1 s1 /\ hyp_no_zero_block p1 (pack_image p1 s1)) /\
  (pht_scope p0 /\ pp_levels p0 = 0 /\ samples_ok p0 s0 /\ hyp_no_zero_block p0 (pack_image p0 s0)).
Proof.
  cbv zeta. split.
  - split. { split; [|cbn; lia]. unfold pp_scope, pow2_size. cbn. repeat split; auto; lia. }
    split; [reflexivity|]. split; [reflexivity|]. split; [reflexivity|].
    split. { split; [reflexivity|]. repeat constructor; cbn; lia. }
    apply two_hyps_by_computation. vm_compute. reflexivity.
  - split. { split; [|cbn; lia]. unfold pp_scope, pow2_size. cbn. repeat split; auto; lia. }
    split; [reflexivity|].
    split. { split; [reflexivity|]. repeat constructor; cbn; lia. }
    apply two_hyps_by_computation. vm_compute. reflexivity.
Qed.
