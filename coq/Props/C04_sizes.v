(* C04 / C05 / C19 (pipe): the code-block size hypothesis hyp_block_sizes of the composed classic
   JPEG 2000 pipeline (Props/C04_pipe.v) - what is proved about it.  Property theorems only.

     C04_mq_output_size_pot      the MQ encoder writes at most 17/21 bytes per decision (+ 2 bytes +
        the potential of the start contexts, at most 72/21 byte per context; 0 for fresh contexts
        and for the T1 start contexts), whatever the decisions and contexts are.  (MqProofsSize had
        15/7.)  17/3 shifts per decision is the largest cycle mean of the MQ state graph
        (C04_mq_pot_cycle_tight), i.e. the best a per-state potential can give.
     C04_mq_block_fits           a codeword of at most 80953 decisions over the T1 start contexts
        has at most 65535 bytes.
     C04_pipe_block_sizes_from_decisions, C04_pipe_roundtrip_decisions
        hyp_block_sizes follows from the combinatorial hypothesis hyp_block_decisions (every
        code-block is the MQ codeword of at most 80953 decisions), and so does the round trip.
   OPEN (Pipe/PipeProofsSizes.v): t1_decision_count_statement (decisions <= samples * (7/4 planes
   + 1)); with it hyp_block_sizes is a theorem for code-blocks of at most 1024 samples (whole scope)
   and for 64x64 blocks with at most 10 magnitude bit-planes.  pipe_block_sizes_statement (whole
   scope) is neither proved nor refuted; the search harness/cmd/vh-blocksize found no 64x64 block
   above 1.03 x raw size (13703 bytes at 25 planes), so no counterexample is within reach. *)
From V Require Import Common.Base MQ.MqModel MQ.MqProofs MQ.MqProofsSizePot T1.T1ProofsComp
  Pipe.PipeModel Pipe.PipeProofsFront Pipe.PipeProofsMain Pipe.PipeProofsSizes.

Theorem C04_mq_output_size_pot : forall cx l, Forall cx_ok cx ->
  21 * zlen (mq_encode_cx cx l) <= 17 * zlen l + 42 + Phi cx.
Proof. exact mq_output_size_pot_cx. Qed.
Print Assumptions C04_mq_output_size_pot.

Theorem C04_mq_output_size_pot_fresh : forall n l, 21 * zlen (mq_encode n l) <= 17 * zlen l + 42.
Proof. exact mq_output_size_pot. Qed.
Print Assumptions C04_mq_output_size_pot_fresh.

Theorem C04_mq_potential_bounds : forall cx, Forall cx_ok cx -> 0 <= Phi cx <= 72 * zlen cx.
Proof. exact Phi_bounds. Qed.
Print Assumptions C04_mq_potential_bounds.

(* 300 decisions "1" on a context that starts in the state with Qe = 1 (every one an LPS until the
   state machine has adapted): 15 bytes; the bound gives (17 * 300 + 42 + 72) / 21 = 248 *)
Example C04_mq_output_size_pot_nonvacuous :
  Forall cx_ok [45] /\ Phi [45] = 72 /\ zlen (mq_encode_cx [45] (repeat (1, 0) 300)) = 15.
Proof.
  split; [constructor; [|constructor]; unfold cx_ok; vm_compute; repeat split; congruence|].
  split; vm_compute; reflexivity.
Qed.

Theorem C04_mq_pot_cycle_tight :
  tbl_nlps 45 = 43 /\ tbl_nmps 43 = 44 /\ tbl_nmps 44 = 45 /\ lps_cost 45 + 1 + 1 = 17.
Proof. exact pot_cycle_tight. Qed.

Theorem C04_mq_block_fits : forall l, zlen l <= 80953 -> zlen (mq_encode_cx cx0 l) <= 65535.
Proof. exact mq_block_fits. Qed.
Print Assumptions C04_mq_block_fits.

Example C04_mq_block_fits_nonvacuous :
  zlen (repeat (1, 16) 500 ++ repeat (0, 16) 500) <= 80953 /\
  zlen (mq_encode_cx cx0 (repeat (1, 16) 500 ++ repeat (0, 16) 500)) = 13.
Proof. split; vm_compute; [intro; discriminate|reflexivity]. Qed.

Theorem C04_pipe_block_sizes_from_decisions : forall p pix, hyp_block_decisions p pix -> hyp_block_sizes p pix.
Proof. exact pipe_block_sizes_from_decisions. Qed.
Print Assumptions C04_pipe_block_sizes_from_decisions.

Theorem C04_pipe_roundtrip_decisions : forall p, pp_scope p -> forall samples, samples_ok p samples ->
  let pix := pack_image p samples in
  hyp_block_decisions p pix ->
  exists tile, pipe_encode_tile p pix = Ok tile /\ pipe_decode_tile p tile = Ok pix.
Proof. exact pipe_roundtrip_decisions. Qed.
Print Assumptions C04_pipe_roundtrip_decisions.

(* the constant 4x4 image 128 (8 bit, zero levels): its one code-block is all-zero and its T1 output
   [255; 127] is the codeword of the empty decision list *)
Example C04_pipe_block_decisions_nonvacuous :
  let p := mkPP 4 4 1 8 false 0 4 4 false 0 0 0 4 in
  pp_scope p /\ samples_ok p (repeat 128 16) /\ hyp_block_decisions p (pack_image p (repeat 128 16)).
Proof.
  cbv zeta.
  split. { unfold pp_scope, pow2_size. cbn. repeat split; auto; lia. }
  split. { split; [reflexivity|]. repeat constructor; cbn; lia. }
  intros coeffs Ec.
  assert (E : pipe_coeffs (mkPP 4 4 1 8 false 0 4 4 false 0 0 0 4) (pack_image (mkPP 4 4 1 8 false 0 4 4 false 0 0 0 4) (repeat 128 16))
              = Ok [repeat 0 16]) by (vm_compute; reflexivity).
  rewrite E in Ec. injection Ec as <-. intros d [<-|[]] r cb Hin.
  vm_compute in Hin. destruct Hin as [Hin|[]]. injection Hin as <- <-.
  cbv zeta. intros bytes Eb. vm_compute in Eb. injection Eb as <-.
  exists []. split; [vm_compute; reflexivity|vm_compute; intro; discriminate].
Qed.
