(* C04 / C05 / C19 (pipe): the code-block size hypothesis hyp_block_sizes of the composed classic
   JPEG 2000 pipeline, discharged by counting the decisions of the T1 coder.  Property theorems only.

     C04_t1_pass_count        one coding pass: #symbols + potential after <= potential before
     C04_t1_syms_count        a w x h block with n coded planes hands at most w*h*(n+3) symbols to the
        arithmetic coder (one zero-coding / refinement decision per sample and plane; sign, run-length
        and UNIFORM symbols charged to the sample that becomes significant), any style without SEGSYM
     C04_t1_block_decisions   Encode (style 0, 6 fractional bits, all passes) of a block of K-bit
        coefficients is the MQ codeword over the T1 start contexts of at most w*h*(K+3) decisions
     C04_pipe_block_sizes_partial   hyp_block_sizes is a theorem when the nominal code-block area is
        <= 2048 (every size but 64x64; whole scope) or precision <= 8 or 2*levels + precision <= 15
        (64x64 included: at most 16 magnitude planes, 4096 * 19 = 77824 <= 80953 decisions)
     C04_pipe_roundtrip_small_blocks, C04_pipe_roundtrip_64, C04_pipe_roundtrip_reach
        the tile round trip with NO size hypothesis on that range
     C04_pipe_block_sizes_split     what remains of pipe_block_sizes_statement is exactly
        pipe_block_sizes_64_statement (64x64 blocks, precision >= 9 and 2*levels + precision >= 16)
   OPEN (Pipe/PipeProofsDecisions.v): pipe_block_sizes_64_statement, neither proved nor refuted. *)
From V Require Import Common.Base J2KGeo.GeoProofsSamples MQ.MqModel T1.T1Store T1.T1Model T1.T1Bytes T1.T1ProofsComp T1.T1ProofsCount
  Pipe.PipeModel Pipe.PipeProofsFront Pipe.PipeProofsMain Pipe.PipeProofsSizes Pipe.PipeProofsDecisions.

Theorem C04_t1_pass_count : forall wn hn orient style bp pt raw V F, Z.land style CblkStyleSegsym = 0 ->
  zlen (snd (enc_pass wn hn orient style bp pt raw V F)) +
  SA wn (Z.of_nat hn) (pa_of pt (fst (enc_pass wn hn orient style bp pt raw V F)))
    <= SA wn (Z.of_nat hn) (pb_of pt F).
Proof. exact enc_pass_count. Qed.
Print Assumptions C04_t1_pass_count.

Theorem C04_t1_syms_count : forall wn hn orient style maxbp low V,
  Z.land style CblkStyleSegsym = 0 -> 0 <= low <= maxbp -> maxbp <= 30 ->
  zlen (concat (enc_passes wn hn orient style maxbp V (all_passes maxbp low) true Leaf))
    <= Z.of_nat wn * Z.of_nat hn * (maxbp - low + 1 + 3).
Proof. exact enc_syms_count. Qed.
Print Assumptions C04_t1_syms_count.

(* the 2x2 block [64; 0; -128; 0] (planes 7 and 6 coded): 10 symbols, bound 4 * 5 = 20 *)
Example C04_t1_syms_count_nonvacuous :
  let V := pad_data 2 2 [64; 0; -128; 0] in
  Z.land 0 CblkStyleSegsym = 0 /\ 0 <= 6 <= 7 /\ 7 <= 30 /\
  zlen (concat (enc_passes 2 2 1 0 7 V (all_passes 7 6) true Leaf)) = 10.
Proof. cbv zeta. split; [reflexivity|]. split; [lia|]. split; [lia|]. vm_compute. reflexivity. Qed.

Theorem C04_t1_block_decisions : forall (wn hn : nat) (orient : Z) (cs : list Z) (K : Z),
  length cs = (wn * hn)%nat -> 0 <= K <= 25 -> (forall c, In c cs -> - 2 ^ K < c < 2 ^ K) ->
  let data := map (fun c => c * 64) cs in
  let n := find_max_bitplane data + 1 - 6 in
  0 < n ->
  block_decisions_le (Z.of_nat (wn * hn) * (K + 3)) wn hn orient (n * 3 - 2) data.
Proof. exact t1_block_decisions. Qed.
Print Assumptions C04_t1_block_decisions.

Example C04_t1_block_decisions_nonvacuous :
  let cs := [1; 0; -2; 0] in
  length cs = (2 * 2)%nat /\ 0 <= 2 <= 25 /\ (forall c, In c cs -> - 2 ^ 2 < c < 2 ^ 2) /\
  0 < find_max_bitplane (map (fun c => c * 64) cs) + 1 - 6 /\
  enc_plain 2 2 1 0 6 4 (map (fun c => c * 64) cs) = Ok [12; 79].
Proof.
  cbv zeta. split; [reflexivity|]. split; [lia|]. split.
  { intros c Hc. cbn [In] in Hc. change (2 ^ 2) with 4. intuition lia. }
  split; vm_compute; reflexivity.
Qed.

Theorem C04_pipe_block_decisions_partial : forall p samples, pp_scope p -> samples_ok p samples -> sizes_reach p ->
  hyp_block_decisions p (pack_image p samples).
Proof. exact pipe_block_decisions_partial. Qed.
Print Assumptions C04_pipe_block_decisions_partial.

Theorem C04_pipe_block_sizes_partial : forall p samples, pp_scope p -> samples_ok p samples ->
  (pp_cbw p * pp_cbh p <= 2048 \/ pp_prec p <= 8 \/ 2 * pp_levels p + pp_prec p <= 15) ->
  hyp_block_sizes p (pack_image p samples).
Proof. exact pipe_block_sizes_partial. Qed.
Print Assumptions C04_pipe_block_sizes_partial.

Theorem C04_pipe_roundtrip_reach : forall p samples, pp_scope p -> samples_ok p samples ->
  (pp_cbw p * pp_cbh p <= 2048 \/ pp_prec p <= 8 \/ 2 * pp_levels p + pp_prec p <= 15) ->
  exists tile, pipe_encode_tile p (pack_image p samples) = Ok tile /\
               pipe_decode_tile p tile = Ok (pack_image p samples).
Proof. exact pipe_roundtrip_reach. Qed.
Print Assumptions C04_pipe_roundtrip_reach.

Theorem C04_pipe_roundtrip_small_blocks : forall p samples, pp_scope p -> samples_ok p samples ->
  pp_cbw p * pp_cbh p <= 2048 ->
  exists tile, pipe_encode_tile p (pack_image p samples) = Ok tile /\
               pipe_decode_tile p tile = Ok (pack_image p samples).
Proof. exact pipe_roundtrip_small_blocks. Qed.
Print Assumptions C04_pipe_roundtrip_small_blocks.

Theorem C04_pipe_roundtrip_64 : forall p samples, pp_scope p -> samples_ok p samples ->
  (pp_prec p <= 8 \/ 2 * pp_levels p + pp_prec p <= 15) ->
  exists tile, pipe_encode_tile p (pack_image p samples) = Ok tile /\
               pipe_decode_tile p tile = Ok (pack_image p samples).
Proof. exact pipe_roundtrip_64. Qed.
Print Assumptions C04_pipe_roundtrip_64.

(* the hypotheses on concrete tuples: a 2x2 RGB image (RCT, one level, 4x4 blocks), and the parameter
   tuples 512x512 / 16 bit / 5 levels / 32x64 blocks and 512x512 / 8 bit / 6 levels / 64x64 blocks *)
Example C04_pipe_roundtrip_reach_nonvacuous :
  let p := mkPP 2 2 3 8 false 1 4 4 true 2 0 0 2 in
  let samples := [10; 200; 30; 40; 255; 0; 1; 2; 3; 250; 128; 7] in
  pp_scope p /\ samples_ok p samples /\ sizes_reach p /\
  pp_scope (mkPP 512 512 1 16 false 5 32 64 false 0 0 0 512) /\ sizes_reach (mkPP 512 512 1 16 false 5 32 64 false 0 0 0 512) /\
  pp_scope (mkPP 512 512 1 8 false 6 64 64 false 0 0 0 512) /\ sizes_reach (mkPP 512 512 1 8 false 6 64 64 false 0 0 0 512) /\
  pp_scope (mkPP 512 512 1 12 true 1 64 64 false 0 0 0 512) /\ sizes_reach (mkPP 512 512 1 12 true 1 64 64 false 0 0 0 512).
Proof.
  cbv zeta.
  split; [unfold pp_scope, pow2_size; cbn; lia|].
  split.
  { split; [reflexivity|]. unfold in_sample_range. cbn. repeat constructor; lia. }
  split; [left; cbn; lia|].
  split; [unfold pp_scope, pow2_size; cbn; lia|]. split; [left; cbn; lia|].
  split; [unfold pp_scope, pow2_size; cbn; lia|]. split; [right; left; cbn; lia|].
  split; [unfold pp_scope, pow2_size; cbn; lia|]. right; right; cbn; lia.
Qed.

Theorem C04_pipe_block_sizes_split : pipe_block_sizes_64_statement -> pipe_block_sizes_statement.
Proof. exact pipe_block_sizes_split. Qed.
Print Assumptions C04_pipe_block_sizes_split.
