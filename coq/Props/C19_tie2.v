(* C19, tie by translation (second list): the parity helpers of jpeg2000/wavelet (isEven, nextCoord, splitLengths, min32) equal the model functions of DWT/DwtModel.v. *)
From V Require Import Common.Base Gen.KernelsMore_gen Tie.TieKernelsMoreJ2K.

Theorem C19_tie2_wav_isEven : forall v, jpeg2000_wavelet_isEven v = D.is_even v.
Proof. exact tie_wav_isEven. Qed.
Print Assumptions C19_tie2_wav_isEven.

Theorem C19_tie2_wav_isEven_z : forall v, jpeg2000_wavelet_isEven v = G.is_even_z v.
Proof. exact tie_wav_isEven_z. Qed.
Print Assumptions C19_tie2_wav_isEven_z.

Theorem C19_tie2_wav_nextCoord : forall v, jpeg2000_wavelet_nextCoord v = D.next_coord v.
Proof. exact tie_wav_nextCoord. Qed.
Print Assumptions C19_tie2_wav_nextCoord.

Theorem C19_tie2_wav_splitLengths : forall n e,
  jpeg2000_wavelet_splitLengths (Z.of_nat n) e = Z.of_nat (D.split_lengths n e).
Proof. exact tie_wav_splitLengths. Qed.
Print Assumptions C19_tie2_wav_splitLengths.

Theorem C19_tie2_wav_splitLengths_z : forall n e, jpeg2000_wavelet_splitLengths n e = G.split_len n e.
Proof. exact tie_wav_splitLengths_z. Qed.
Print Assumptions C19_tie2_wav_splitLengths_z.

Theorem C19_tie2_min32 : forall a b, jpeg2000_wavelet_min32 a b = Z.min a b.
Proof. exact tie_min32. Qed.
Print Assumptions C19_tie2_min32.

Example C19_tie2_instance : jpeg2000_wavelet_splitLengths (Z.of_nat 7) true = 4 /\ jpeg2000_wavelet_isEven (-3) = false.
Proof. vm_compute. split; reflexivity. Qed.
