(* C13 — JPEG Lossless streams and decoders conform to T.81 Annex H (an independent codec
   written from the standard agrees). Property theorems only.
    *)
From V Require Import Common.Base JpegLL.JllBits JpegLL.JllHuff JpegLL.JllModel JpegLL.JllT81
  JpegLL.JllProofsBits JpegLL.JllProofsHuff JpegLL.JllProofs JpegLL.JllProofsRT JpegLL.JllProofsT81
  JpegLL.JllProofsCanon JpegLL.JllProofsT81Dec JpegLL.JllProofsOpt JpegLL.JllProofsOpt2
  JpegLL.JllProofsOpt3 JpegLL.JllProofsOpt4.

(* First sentence of C13 in the model world: the independent T.81 Annex H decoder (written from
   the standard: Annex C code tables searched as an association list, DECODE/RECEIVE/EXTEND,
   H.1.2.1 prediction with one sliding state per component, sums modulo 2^16, marker parser
   with fill bytes) returns the exact source image, geometry and precision from the stream of
   lossless.Encode for every predictor 1..7 and automatic selection (0) ... *)
Theorem C13_t81_decodes_lossless : forall w h comps P pred pixels s,
  wf_image w h comps P pixels -> 0 <= pred <= 7 ->
  jll_encode w h comps P pred pixels = Ok s ->
  t81_decode s = Some (pixels, w, h, comps, P).
Proof. exact t81_decodes_jll_full. Qed.
Print Assumptions C13_t81_decodes_lossless.

(* ... and from the stream of lossless14sv1.Encode. *)
Theorem C13_t81_decodes_sv1 : forall w h comps P pixels s,
  wf_image w h comps P pixels ->
  sv1_encode w h comps P pixels = Ok s ->
  t81_decode s = Some (pixels, w, h, comps, P).
Proof. exact t81_decodes_sv1_full. Qed.
Print Assumptions C13_t81_decodes_sv1.

(* The prediction used by encodeScan / decodeScan / optimizeHuffmanTables is the rule of
   H.1.2.1 (first sample 2^(P-1), first line Ra, first column Rb, otherwise Table H.1) for
   every predictor 1..7. *)
Theorem C13_edge_rule_is_t81 : forall pred P r c0 l a al, 1 <= pred <= 7 ->
  ll_pred pred (2 ^ (P - 1)) r c0 l a al =
  if r then (if c0 then 2 ^ (P - 1) else l) else if c0 then a else t81_predictor pred l a al.
Proof. exact edge_rule_is_t81. Qed.
Print Assumptions C13_edge_rule_is_t81.

(* The Huffman codes of Annex C (HUFFSIZE/HUFFCODE, written from Figures C.1-C.2) are the codes
   of BuildHuffmanCodes, for every valid table. *)
Theorem C13_annexC_codes : forall bits vals s, table_facts bits vals -> In s vals ->
  t81_find_val (t81_entries bits vals) s = Some (snd (code_of bits vals s), fst (code_of bits vals s)).
Proof. exact find_val_code_of. Qed.
Print Assumptions C13_annexC_codes.

(* For every predictor 1..7 the stream written by lossless.Encode (model, byte-exact with the
   Go code by the correspondence run) is, byte for byte, the stream of the independent T.81
   Annex H encoder (plane-wise H.1.2.1 prediction, modulo-2^16 differences, Table H.2
   categories, Annex C codes, F.1.2.3 stuffing) given the same Huffman table. *)
Theorem C13_code_equals_t81 : forall w h comps P pred pixels bits vals s,
  wf_image w h comps P pixels -> 1 <= pred <= 7 ->
  build_optimal (count_freqs (ll_diffs w comps P pred (pixels_to_rows w h comps P pixels))) = Ok (bits, vals) ->
  t81_table_ok bits vals = true ->
  covers vals (ll_diffs w comps P pred (pixels_to_rows w h comps P pixels)) ->
  jll_encode w h comps P pred pixels = Ok s ->
  t81_encode pred (repeat 0 (Z.to_nat comps)) [(0, (bits, vals))] true [(224, jfif_payload)]
             w h comps P pixels = Some s.
Proof. exact code_equals_t81. Qed.
Print Assumptions C13_code_equals_t81.

(* lossless14sv1.Encode is lossless.Encode with predictor 1 (so the above covers SV1) *)
Theorem C13_sv1_is_pred1 : forall w h comps P pixels, wf_image w h comps P pixels ->
  sv1_encode w h comps P pixels = jll_encode w h comps P 1 pixels.
Proof. exact sv1_encode_is_pred1. Qed.
Print Assumptions C13_sv1_is_pred1.

(* Conversely lossless.Decode reconstructs the source of the stream of the independent T.81
   encoder for every predictor 1..7 and ANY valid Huffman table containing the categories
   that occur; lossless14sv1.Decode does for predictor 1.  (Proved for table 0 on every
   component, DHT after SOF3, JFIF APP0 in front; the other table assignments, DHT placements
   and extra segments are exercised by the correspondence/oracle run only:
   jll_decodes_t81_general_statement.) *)
Theorem C13_decoder_on_t81 : forall w h comps P pred pixels bits vals s,
  wf_image w h comps P pixels -> 1 <= pred <= 7 ->
  t81_table_ok bits vals = true ->
  covers vals (ll_diffs w comps P pred (pixels_to_rows w h comps P pixels)) ->
  t81_encode pred (repeat 0 (Z.to_nat comps)) [(0, (bits, vals))] true [(224, jfif_payload)]
             w h comps P pixels = Some s ->
  jll_decode s = Ok (pixels, w, h, comps, P).
Proof. exact jll_decodes_t81. Qed.
Print Assumptions C13_decoder_on_t81.

Theorem C13_sv1_decoder_on_t81 : forall w h comps P pixels bits vals s,
  wf_image w h comps P pixels ->
  t81_table_ok bits vals = true ->
  covers vals (ll_diffs w comps P 1 (pixels_to_rows w h comps P pixels)) ->
  t81_encode 1 (repeat 0 (Z.to_nat comps)) [(0, (bits, vals))] true [(224, jfif_payload)]
             w h comps P pixels = Some s ->
  sv1_decode s = Ok (pixels, w, h, comps, P).
Proof. exact sv1_decodes_t81. Qed.
Print Assumptions C13_sv1_decoder_on_t81.

(* the independent codec is self-consistent (decoder after encoder) in that configuration, for
   every predictor and every valid table; the general configuration is t81_roundtrip_statement *)
Theorem C13_t81_roundtrip_config : forall w h comps P pred pixels bits vals s,
  wf_image w h comps P pixels -> 1 <= pred <= 7 ->
  t81_table_ok bits vals = true ->
  covers vals (ll_diffs w comps P pred (pixels_to_rows w h comps P pixels)) ->
  t81_encode pred (repeat 0 (Z.to_nat comps)) [(0, (bits, vals))] true [(224, jfif_payload)]
             w h comps P pixels = Some s ->
  t81_decode s = Some (pixels, w, h, comps, P).
Proof. exact t81_roundtrip_partial. Qed.
Print Assumptions C13_t81_roundtrip_config.

(* ---------- non-vacuity / instances ---------- *)
(* predictor 7, three components, P = 12: hypotheses hold, both encoders give the same bytes,
   and the independent decoder returns the source *)
Example C13_code_equals_t81_nonvacuous :
  let px := [1; 0; 255; 15; 0; 8;  2; 0; 250; 15; 10; 8;  3; 1; 0; 0; 255; 7;  9; 1; 5; 0; 0; 8] in
  wf_image 2 2 3 12 px /\
  exists bits vals s,
    build_optimal (count_freqs (ll_diffs 2 3 12 7 (pixels_to_rows 2 2 3 12 px))) = Ok (bits, vals) /\
    t81_table_ok bits vals = true /\
    covers vals (ll_diffs 2 3 12 7 (pixels_to_rows 2 2 3 12 px)) /\
    jll_encode 2 2 3 12 7 px = Ok s /\
    t81_decode s = Some (px, 2, 2, 3, 12).
Proof.
  cbv zeta. split.
  - apply wf_imageb_ok. vm_compute. reflexivity.
  - eexists. eexists. eexists. split; [vm_compute; reflexivity|]. split; [vm_compute; reflexivity|].
    split; [apply coversb_ok; vm_compute; reflexivity|]. split; [vm_compute; reflexivity|].
    vm_compute. reflexivity.
Qed.

(* an instance of the general statement that is not covered by the proved configuration:
   Td = 0,2,3, standard table, DHT before SOF3, extra APP1/COM/APP14 segments with marker-like
   payload bytes; both library decoders (the stream uses predictor 1) and the independent
   decoder return the source *)
Example C13_general_instance :
  let px := [1; 200; 30; 2; 201; 29; 250; 190; 35; 9; 0; 255] in
  exists s,
    t81_encode 1 [0; 2; 3] [(0, (t81_std_bits, t81_std_vals)); (2, (t81_std_bits, t81_std_vals));
                            (3, (t81_std_bits, t81_std_vals))] false t81_demo_extras 2 2 3 8 px = Some s /\
    jll_decode s = Ok (px, 2, 2, 3, 8) /\ sv1_decode s = Ok (px, 2, 2, 3, 8) /\
    t81_decode s = Some (px, 2, 2, 3, 8).
Proof.
  cbv zeta. eexists. split; [vm_compute; reflexivity|].
  split; [vm_compute; reflexivity|]. split; vm_compute; reflexivity.
Qed.

(* the T.81 edge rule is not vacuous: a first-line and a first-column sample, predictor 7 *)
Example C13_edge_rule_nonvacuous :
  ll_pred 7 (2 ^ (8 - 1)) true false 10 0 0 = 10 /\ ll_pred 7 (2 ^ (8 - 1)) false true 0 20 0 = 20 /\
  ll_pred 7 (2 ^ (8 - 1)) false false 10 21 0 = 15.
Proof. vm_compute. repeat split; reflexivity. Qed.
