(* C02, tie by translation (second list): losslessDifference and edgeAwarePrediction of jpeg/lossless equal the model (JpegLL/JllModel.v edge_aware). *)
From V Require Import Common.Base Gen.KernelsMore_gen Tie.TieKernelsMoreJpeg.

Theorem C02_tie2_ll_losslessDifference : forall s p, jpeg_lossless_losslessDifference s p = s - p.
Proof. exact tie_ll_losslessDifference. Qed.
Print Assumptions C02_tie2_ll_losslessDifference.

Theorem C02_tie2_edgeAwarePrediction : forall pr row col ra rb rc dflt,
  jpeg_lossless_edgeAwarePrediction pr row col ra rb rc dflt =
  LL.edge_aware pr (row =? 0) (col =? 0) ra rb rc dflt.
Proof. exact tie_edgeAwarePrediction. Qed.
Print Assumptions C02_tie2_edgeAwarePrediction.

Example C02_tie2_instance : jpeg_lossless_edgeAwarePrediction 4 3 5 10 20 7 128 = 23.
Proof. vm_compute. reflexivity. Qed.
