(* C07, tie by translation: the near-lossless kernels of jpegls/lossless/traits.go, translated from the Go
   source on every run, equal the model functions the C07 theorems are stated about. *)
From V Require Import Common.Base Gen.Kernels_gen Tie.TieKernels.
Require V.JpegLS.JlsParams V.JpegLS.JlsModel.
Module M := V.JpegLS.JlsModel.

Theorem C07_tie_quantize : forall t e, jpegls_lossless_Traits_quantize t e = M.quantize (jp t) e.
Proof. exact tie_quantize. Qed.
Print Assumptions C07_tie_quantize.

Theorem C07_tie_ComputeErrorValue : forall t e,
  jpegls_lossless_Traits_ComputeErrorValue t e = M.Traits_ComputeErrorValue (jp t) e.
Proof. exact tie_ComputeErrorValue. Qed.
Print Assumptions C07_tie_ComputeErrorValue.

Theorem C07_tie_fixReconstructedValue : forall t v,
  jpegls_lossless_Traits_fixReconstructedValue t v = M.fixReconstructedValue (jp t) v.
Proof. exact tie_fixReconstructedValue. Qed.
Print Assumptions C07_tie_fixReconstructedValue.

Theorem C07_tie_ComputeReconstructedSample : forall t pr ev,
  jpegls_lossless_Traits_ComputeReconstructedSample t pr ev = M.ComputeReconstructedSample (jp t) pr ev.
Proof. exact tie_ComputeReconstructedSample. Qed.
Print Assumptions C07_tie_ComputeReconstructedSample.

Theorem C07_tie_QuantizeGradient : forall t d, jpegls_lossless_Traits_QuantizeGradient t d = M.quantizeGradient (jp t) d.
Proof. exact tie_QuantizeGradient. Qed.
Print Assumptions C07_tie_QuantizeGradient.

Theorem C07_tie_IsNear : forall t l r,
  jpegls_lossless_Traits_IsNear t l r = (Z.abs (l - r) <=? jpegls_lossless_Traits_Near t).
Proof. exact tie_IsNear. Qed.
Print Assumptions C07_tie_IsNear.

Example C07_tie_instance :
  jpegls_lossless_Traits_quantize (traits_of (V.JpegLS.JlsParams.jls_params 16 255)) 37558 = 73 /\
  jpegls_lossless_Traits_ComputeErrorValue (traits_of (V.JpegLS.JlsParams.jls_params 8 2)) (-130) = -26.
Proof. vm_compute. split; reflexivity. Qed.
