(* C08 — no decoder panics, JPEG-LS part (jpegls/lossless and jpegls/nearlossless decoders).
   Property theorems only. Models: JpegLS/JlsModel.v (decoders), JpegLS/JlsSafe.v (the same
   decoders with every Go slice index, J[RunIndex], contexts[i] and division an explicit Panic
   check; the GolombReader as coded with its index and shift-count checks). *)
From V Require Import Common.Base JpegLS.JlsParams JpegLS.JlsGolomb JpegLS.JlsRun JpegLS.JlsModel JpegLS.JlsSafe.
From V Require Import JpegLS.JlsProofsSafe.

(* For ANY byte list the lossless decoder model returns Ok or Err: never Panic; OutOfFuel only
   when an accepted frame header declares more than `lim` samples (the Go code allocates that
   many ints before decoding; lim is the harness's allocation budget, not a loop fuel: all loop
   fuels are lengths of the input or of decoded lines and are proved sufficient). The decoder with
   all indexing explicit computes the same function, so no check can fire. *)
Theorem C08_jls_decode_total : forall lim bs,
  res_ok (budget_hit lim) (jls_decode lim bs) /\ jls_decode_safe lim bs = jls_decode lim bs.
Proof. exact jls_decode_total. Qed.
Print Assumptions C08_jls_decode_total.

Theorem C08_jlsn_decode_total : forall lim bs,
  res_ok (budget_hit lim) (jlsn_decode lim bs) /\ jlsn_decode_safe lim bs = jlsn_decode lim bs.
Proof. exact jlsn_decode_total. Qed.
Print Assumptions C08_jlsn_decode_total.

(* The GolombReader as coded (64-bit cache, validBits, position, positionFF, optimistic and slow
   refill): for every buffer and every sequence of ReadBit / ReadBits(n >= 0) calls no index is
   out of range and no shift count negative; each call returns a value or an error. *)
Theorem C08_jls_reader_no_panic : forall data script, Forall (fun n => 0 <= n) script ->
  exists r, gr_script data script = Ok r.
Proof. exact gr_no_panic. Qed.
Print Assumptions C08_jls_reader_no_panic.

(* non-vacuity: garbage, a truncated stream, a stream with absurd LSE parameters, a frame header
   declaring 65535 x 65535 x 3 samples (budget), and a reader script running into a marker *)
Example C08_jls_nonvacuous_garbage :
  jls_decode 1000 [255; 216; 255; 218; 0; 8; 0; 0; 0; 0; 0; 0; 255; 255; 127] = Ok (mkDecoded [] 0 0 0 0 0) /\
  jlsn_decode 1000 [1; 2; 3] = Err /\
  jls_decode 1000 [255; 216; 255; 247; 0; 11; 8; 0; 4; 0; 4; 1; 1; 17; 0; 255; 218; 0; 8; 1; 1; 0; 0; 0; 0; 192; 0] = Err.
Proof. repeat split; vm_compute; reflexivity. Qed.

Example C08_jls_nonvacuous_lse :
  match jlsn_decode 1000 [255; 216; 255; 247; 0; 11; 8; 0; 2; 0; 2; 1; 1; 17; 0;
                          255; 248; 0; 13; 1; 0; 1; 255; 255; 0; 0; 0; 1; 0; 1;
                          255; 218; 0; 8; 1; 1; 0; 200; 0; 0; 170; 85; 255; 217] with
  | Ok _ | Err => True | _ => False end.
Proof. vm_compute. exact I. Qed.

Example C08_jls_nonvacuous_budget :
  jls_decode 1000 [255; 216; 255; 247; 0; 17; 8; 255; 255; 255; 255; 3; 1; 17; 0; 2; 17; 0; 3; 17; 0;
                   255; 218; 0; 12; 3; 1; 0; 2; 0; 3; 0; 0; 2; 0; 255; 217] = OutOfFuel /\
  budget_hit 1000.
Proof. split; [vm_compute; reflexivity | apply (BudgetHit 1000 65535 65535 3); lia]. Qed.

Example C08_jls_nonvacuous_reader :
  gr_script [255; 127; 1; 255; 216] [0; 3; 8; 0; 16; 32] = Ok ([1; 7; 255; 1], false).
Proof. vm_compute. reflexivity. Qed.
