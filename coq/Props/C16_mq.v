(* Property-level theorems of the MQ arithmetic coder (jpeg2000/mqc), in Props format.
   The integrator merges the C20_/C16_/C08_ blocks into Props/C20.v, C16.v, C08.v. *)
From V Require Import Common.Base MQ.MqModel MQ.MqProofs MQ.MqProofsDec MQ.MqProofsRt MQ.MqProofsRt2 MQ.MqProofsTerm.

(* ====================================== C16 ====================================== *)

(* Encoder invariant after ANY decision sequence from any valid initial contexts:
   0x8000 <= a < 0x10000, 1 <= ct <= 12, (c + a) * 2^ct <= 2^27 + 2^24, c < 2^27 —
   so no uint32 operation of Encode / renorme / byteout wraps. *)
Theorem C16_mq_encoder_invariant : forall cx l, Forall cx_ok cx ->
  let e := enc_encode_list (enc_new_cx cx) l in
  0x8000 <= e_a e < 0x10000 /\ 1 <= e_ct e <= 12 /\
  0 <= e_c e /\ (e_c e + e_a e) * 2 ^ e_ct e <= 0x9000000 /\ e_c e < 2 ^ 27.
Proof. exact mq_encoder_invariant. Qed.
Print Assumptions C16_mq_encoder_invariant.

(* No unescaped marker: in the bytes returned by Flush after any decision sequence every 0xFF
   is followed by a byte <= 0x8F, the segment does not end in 0xFF, and it is not empty. *)
Theorem C16_mq_no_marker : forall n l,
  let out := mq_encode n l in
  Forall is_byteP out /\ no_marker_in out /\ out <> [].
Proof. exact mq_no_marker. Qed.
Print Assumptions C16_mq_no_marker.

Theorem C16_mq_no_marker_cx : forall cx l, Forall cx_ok cx ->
  let out := mq_encode_cx cx l in
  Forall is_byteP out /\ no_marker_in out /\ out <> [].
Proof. exact mq_no_marker_cx. Qed.
Print Assumptions C16_mq_no_marker_cx.

(* the stuffing path is exercised: the empty sequence already produces FF 7F *)
Example C16_mq_no_marker_nonvacuous :
  mq_encode 2 [(1,1); (0,0); (0,1); (0,0); (1,0); (0,1); (0,1); (1,0); (1,1); (0,1)] = [175; 255; 127] /\
  Forall cx_ok [46; 3; 4] /\
  mq_encode_cx [46; 3; 4] [(1,0); (0,2); (1,1); (1,0); (0,0); (1,2); (1,2); (0,1)] = [175; 234].
Proof.
  split; [vm_compute; reflexivity|]. split; [|vm_compute; reflexivity].
  repeat constructor; vm_compute; congruence.
Qed.

(* Predictable termination: after any decision sequence, ErtermEnc does not index outside the
   buffer and the bytes GetBuffer then returns contain no FF followed by > 0x8F and do not end
   in FF. *)
Theorem C16_mq_erterm_no_marker : forall cx l, Forall cx_ok cx ->
  let e := enc_encode_list (enc_new_cx cx) l in
  enc_erterm_panics e = false /\
  let out := enc_get_buffer (enc_erterm e) in Forall is_byteP out /\ no_marker_in out.
Proof. exact mq_erterm_no_marker. Qed.
Print Assumptions C16_mq_erterm_no_marker.

(* RAW (bypass) segments: the bytes BypassInitEnc ; BypassEncode* ; BypassFlushEnc(erterm) add
   above the starting position: every FF is followed by a byte < 0x80 and the segment does not
   end in FF (either value of erterm), provided the byte before the segment is not FF (which
   Flush and ErtermEnc guarantee, see C16_mq_no_marker / C16_mq_erterm_no_marker). *)
Theorem C16_mq_bypass_segment_no_marker : forall e0 bits erterm,
  Forall (fun b => b = 0 \/ b = 1) bits ->
  (e_pre e0 = [] \/ hd 0 (e_pre e0) <> 255) ->
  let e3 := enc_bypass_flush (fold_left enc_bypass_encode bits (enc_bypass_init e0)) erterm in
  exists seg, e_pre e3 = rev seg ++ e_pre e0 /\ Forall is_byteP seg /\
    (forall l1 y l2, seg = l1 ++ 255 :: y :: l2 -> y < 0x80) /\
    (forall l1, seg <> l1 ++ [255]).
Proof. exact bypass_segment_no_marker. Qed.
Print Assumptions C16_mq_bypass_segment_no_marker.

(* the FF 2A rule under predictable termination, and the dropped FF without it *)
Example C16_mq_bypass_nonvacuous :
  e_pre (enc_bypass_flush (fold_left enc_bypass_encode [1;1;1;1;1;1;1;1] (enc_bypass_init (enc_new 2))) true)
    = rev [255; 42] ++ [] /\
  e_pre (enc_bypass_flush (fold_left enc_bypass_encode [1;1;1;1;1;1;1;1] (enc_bypass_init (enc_new 2))) false)
    = rev [] ++ [].
Proof. split; vm_compute; reflexivity. Qed.

