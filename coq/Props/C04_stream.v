(* C04 (stream): the codestream the composed encoder model writes (Pipe/PipeModel.v: pipe_codestream
   = SOC SIZ COD QCD COM SOT SOD tile EOC) read back by the model of the Go codestream parser
   (Parsers/PrsJ2k.v: parseMainHeader, parseTile).  The parser model returns only the SIZ record
   and offsets (COD / QCD / COM are validated - code-block exponents, level count, segment
   lengths - but their fields are not returned); results are M values = (outcome, allocation
   requests). *)
From V Require Import Common.Base Parsers.PrsOutcome Parsers.PrsJ2k Pipe.PipeModel Pipe.PipeProofsFront
  PipeStream.PstProofsPrs.
Require V.Pipe.PipeProofsMain V.Framing.FrmJ2k V.PipeStream.PstModel V.PipeStream.PstProofsEncodeL.
Require V.PipeStream.PstSizComps V.PipeStream.PstProofsSizComps.
Require V.Props.C04_pipe.

(* parseMainHeader accepts, returns the geometry of p and stops exactly on the SOT; the three
   allocation requests are the SIZ component table, the QCD body and the COM body *)
Theorem C04_pipe_stream_header_roundtrip : forall p tile fuel, pp_scope p -> (5 <= fuel)%nat ->
  k_main_header fuel (pipe_codestream p tile) =
    (Ok (mkSiz (pp_w p) (pp_h p) 0 0 (pp_w p) (pp_h p) 0 0 (pp_nc p), zlen (pipe_main_header p)),
     [pp_nc p * 3; 3 * pp_levels p + 1; 33]).
Proof. exact pst_main_header_parse. Qed.
Print Assumptions C04_pipe_stream_header_roundtrip.

(* with the fuel the Go-side wrapper uses (fuel_of data) *)
Theorem C04_pipe_stream_header_roundtrip_fuel_of : forall p tile, pp_scope p ->
  fst (k_main_header (fuel_of (pipe_codestream p tile)) (pipe_codestream p tile)) =
    Ok (mkSiz (pp_w p) (pp_h p) 0 0 (pp_w p) (pp_h p) 0 0 (pp_nc p), zlen (pipe_main_header p)).
Proof. exact pst_main_header_parse_fuel_of. Qed.
Print Assumptions C04_pipe_stream_header_roundtrip_fuel_of.

(* parseTile at that offset: Isot = 0, SOT and SOD consumed, the data delimited by Psot is exactly
   the tile (no condition on the tile bytes: the parser does not scan for markers when Psot is
   consistent), and the next two bytes are the EOC at the end of the data *)
Theorem C04_pipe_stream_tile_delimited : forall p tile csiz fuel, zlen tile + 14 < 2 ^ 32 -> (1 <= fuel)%nat ->
  let hl := zlen (pipe_main_header p) in
  k_parse_tile fuel csiz (pipe_codestream p tile) hl = (Ok (0, hl + 14 + zlen tile), []) /\
  k_slice (pipe_codestream p tile) (hl + 14) (zlen tile) = tile /\
  zlen (pipe_codestream p tile) = hl + 14 + zlen tile + 2 /\
  k_rd16 (pipe_codestream p tile) (hl + 14 + zlen tile) = ret (65497, hl + 14 + zlen tile + 2).
Proof. exact pst_tile_parse. Qed.
Print Assumptions C04_pipe_stream_tile_delimited.

(* pixels -> Encode -> parser model -> delimited tile bytes -> tile decoder -> the same pixels
   (partial: hyp_block_sizes as in C04_pipe_roundtrip_partial, and the tile-part fits Psot) *)
Theorem C04_pipe_stream_roundtrip_partial : forall p, pp_scope p -> forall samples, samples_ok p samples ->
  let pix := pack_image p samples in
  V.Pipe.PipeProofsMain.hyp_block_sizes p pix -> hyp_psot_fits p pix ->
  exists cs hl e, pipe_encode p pix = Ok cs /\
    fst (k_main_header (fuel_of cs) cs) = Ok (mkSiz (pp_w p) (pp_h p) 0 0 (pp_w p) (pp_h p) 0 0 (pp_nc p), hl) /\
    fst (k_parse_tile (fuel_of cs) (pp_nc p) cs hl) = Ok (0, e) /\
    hl + 14 <= e /\ e + 2 = zlen cs /\
    pipe_decode_tile p (k_slice cs (hl + 14) (e - (hl + 14))) = Ok pix.
Proof. exact pst_stream_roundtrip_partial. Qed.
Print Assumptions C04_pipe_stream_roundtrip_partial.

(* the same chain with the walker's verdict added (C16 and C04 in one statement): the encoder's
   output is one well-formed codestream whose header declares p (PstModel.pipe_header: width, height,
   components, precision, signedness, levels, code-block size, order, Psot = n + 14), the parser model
   finds the geometry and delimits n tile bytes, the tile decoder returns the pixels *)
Theorem C04_pipe_stream_roundtrip_wellformed_partial : forall p, pp_scope p -> forall samples, samples_ok p samples ->
  let pix := pack_image p samples in
  V.Pipe.PipeProofsMain.hyp_block_sizes p pix -> hyp_psot_fits p pix ->
  exists cs hl e n, pipe_encode p pix = Ok cs /\
    V.Framing.FrmJ2k.j2k_wellformed cs = Some (V.PipeStream.PstModel.pipe_header p n) /\
    fst (k_main_header (fuel_of cs) cs) = Ok (mkSiz (pp_w p) (pp_h p) 0 0 (pp_w p) (pp_h p) 0 0 (pp_nc p), hl) /\
    fst (k_parse_tile (fuel_of cs) (pp_nc p) cs hl) = Ok (0, e) /\
    hl + 14 <= e /\ e + 2 = zlen cs /\ n = e - (hl + 14) /\
    pipe_decode_tile p (k_slice cs (hl + 14) n) = Ok pix.
Proof. exact V.PipeStream.PstProofsEncodeL.pst_stream_roundtrip_wellformed_partial. Qed.
Print Assumptions C04_pipe_stream_roundtrip_wellformed_partial.

(* what Decoder.Decode REPORTS through Width / Height / Components / BitDepth / IsSigned
   (PstSizComps.k_siz_report: extractImageParameters on the SIZ parseMainHeader stored, bit depth and
   signedness from the FIRST component's Ssiz, `&0x7F + 1` and `&0x80`) is exactly the encode arguments *)
Theorem C04_pipe_stream_reports_geometry : forall p tile, pp_scope p ->
  V.PipeStream.PstSizComps.k_siz_report (pipe_codestream p tile)
  = Ok (pp_w p, pp_h p, pp_nc p, pp_prec p, pp_signed p).
Proof. exact V.PipeStream.PstProofsSizComps.pst_stream_reports_geometry. Qed.
Print Assumptions C04_pipe_stream_reports_geometry.

(* pixels AND the five reported values (and the walker's verdict) for what the encoder returns *)
Theorem C04_pipe_stream_roundtrip_reports_partial : forall p, pp_scope p -> forall samples, samples_ok p samples ->
  let pix := pack_image p samples in
  V.Pipe.PipeProofsMain.hyp_block_sizes p pix -> hyp_psot_fits p pix ->
  exists cs hl e n, pipe_encode p pix = Ok cs /\
    V.Framing.FrmJ2k.j2k_wellformed cs = Some (V.PipeStream.PstModel.pipe_header p n) /\
    V.PipeStream.PstSizComps.k_siz_report cs = Ok (pp_w p, pp_h p, pp_nc p, pp_prec p, pp_signed p) /\
    fst (k_main_header (fuel_of cs) cs) = Ok (mkSiz (pp_w p) (pp_h p) 0 0 (pp_w p) (pp_h p) 0 0 (pp_nc p), hl) /\
    fst (k_parse_tile (fuel_of cs) (pp_nc p) cs hl) = Ok (0, e) /\
    hl + 14 <= e /\ e + 2 = zlen cs /\ n = e - (hl + 14) /\
    pipe_decode_tile p (k_slice cs (hl + 14) n) = Ok pix.
Proof. exact V.PipeStream.PstProofsSizComps.pst_stream_roundtrip_reports_partial. Qed.
Print Assumptions C04_pipe_stream_roundtrip_reports_partial.

(* ---- non-vacuity ---- *)

Definition ex_p : pparams := V.Props.C04_pipe.ex_p.
Definition ex_samples : list Z := V.Props.C04_pipe.ex_samples.
Definition ex_tile : list Z := [1; 2; 3].

(* header: ex_p is in scope; the parser model run on a concrete codestream (113-byte main header) *)
Example C04_pipe_stream_example_header :
  pp_scope ex_p /\ (5 <= fuel_of (pipe_codestream ex_p ex_tile))%nat /\
  k_main_header 5 (pipe_codestream ex_p ex_tile) = (Ok (mkSiz 2 2 0 0 2 2 0 0 3, 113), [9; 4; 33]) /\
  fst (k_main_header 4 (pipe_codestream ex_p ex_tile)) = OutOfFuel.
Proof.
  split; [exact (proj1 V.Props.C04_pipe.C04_pipe_example_hypotheses)|].
  split; [vm_compute; lia|]. split; vm_compute; reflexivity.
Qed.

(* tile: a tile body containing FF 91 (which a strict walker refuses inside tile data) is
   delimited all the same, because Psot is used *)
Example C04_pipe_stream_example_tile :
  zlen [1; 255; 145; 7] + 14 < 2 ^ 32 /\
  k_parse_tile 1 3 (pipe_codestream ex_p [1; 255; 145; 7]) 113 = (Ok (0, 131), []) /\
  k_slice (pipe_codestream ex_p [1; 255; 145; 7]) 127 4 = [1; 255; 145; 7].
Proof. split; [vm_compute; reflexivity|]. split; vm_compute; reflexivity. Qed.

(* round trip: the hypotheses on the 2x2 RGB image of C04_pipe, and the conclusion computed *)
Example C04_pipe_stream_example_roundtrip :
  pp_scope ex_p /\ samples_ok ex_p ex_samples /\
  V.Pipe.PipeProofsMain.hyp_block_sizes ex_p (pack_image ex_p ex_samples) /\
  hyp_psot_fits ex_p (pack_image ex_p ex_samples) /\
  exists cs, pipe_encode ex_p (pack_image ex_p ex_samples) = Ok cs /\
    fst (k_main_header (fuel_of cs) cs) = Ok (mkSiz 2 2 0 0 2 2 0 0 3, 113) /\
    (exists e, fst (k_parse_tile (fuel_of cs) 3 cs 113) = Ok (0, e) /\ 127 + 10 <= e /\
       pipe_decode_tile ex_p (k_slice cs 127 (e - 127)) = Ok (pack_image ex_p ex_samples)).
Proof.
  destruct V.Props.C04_pipe.C04_pipe_example_hypotheses as (H1 & H2 & H3).
  split; [exact H1|]. split; [exact H2|]. split; [exact H3|]. split.
  { intros tile E. vm_compute in E. injection E as <-. vm_compute. reflexivity. }
  eexists. split; [vm_compute; reflexivity|]. split; [vm_compute; reflexivity|].
  eexists. split; [vm_compute; reflexivity|]. split; [vm_compute; discriminate | vm_compute; reflexivity].
Qed.

(* the joint statement on the same image: the walker accepts what the encoder returns and declares
   2 x 2, 3 components, 8 bit unsigned, one 5/3 level, RPCL *)
Example C04_pipe_stream_example_wellformed :
  exists cs n, pipe_encode ex_p (pack_image ex_p ex_samples) = Ok cs /\
    V.Framing.FrmJ2k.j2k_wellformed cs = Some (V.PipeStream.PstModel.pipe_header ex_p n) /\ 10 <= n /\
    V.Framing.FrmJ2k.jk_comps (V.PipeStream.PstModel.pipe_header ex_p n) = [(7, 1, 1); (7, 1, 1); (7, 1, 1)].
Proof.
  eexists. exists 60. split; [vm_compute; reflexivity|]. split; [vm_compute; reflexivity|].
  split; [lia | vm_compute; reflexivity].
Qed.

(* the reported values on concrete streams: 8 bit unsigned RGB, and 12 bit signed with 4 components;
   a stream whose second component had another Ssiz would still report the first one's *)
Example C04_pipe_stream_example_reports :
  V.PipeStream.PstSizComps.k_siz_report (pipe_codestream ex_p ex_tile) = Ok (2, 2, 3, 8, false) /\
  pp_scope (mkPP 5 3 4 12 true 1 4 8 true 2 0 0 5) /\
  V.PipeStream.PstSizComps.k_siz_report (pipe_codestream (mkPP 5 3 4 12 true 1 4 8 true 2 0 0 5) [7])
    = Ok (5, 3, 4, 12, true) /\
  V.PipeStream.PstSizComps.k_siz_report [255; 79; 255; 82] = Err.
Proof.
  split; [vm_compute; reflexivity|]. split; [unfold pp_scope, pow2_size; cbn; lia|].
  split; vm_compute; reflexivity.
Qed.
