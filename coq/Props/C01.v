(* C01 — RLE Lossless: Encode then Decode returns the original bytes (+ one zero byte when the
   native frame length is odd); the encoded frame is a valid DICOM PS3.5 Annex G stream from
   which an independent PackBits reader recovers the pixels. Property theorems only.

   Models: RLE/RleModel.v (rle.go as coded), RLE/RleSpec.v (Annex G, written independently).
   geom = (bytesAllocated, samplesPerPixel, planar, npix = Rows*Columns as an arbitrary
   positive Z). Outcome Ok/Err/Panic/OutOfFuel: every theorem below concludes Ok, so it
   excludes errors, panics and fuel exhaustion of the model.

   Scope note: the segment offsets of the format are 32-bit. Since /repo commit bc7f8bf
   (finding F26) encodeFrame returns an error when a segment would start at or beyond 2^32
   (C01_encode_err_iff); every stream it does return round-trips and is valid with no size
   hypothesis (C01_roundtrip), and it returns one whenever 64 + planes*(2*npix+1) <= 2^32
   (C01_encode_ok_below_4GiB). The pre-fix witness is recorded in RLE/RleProofs.v. *)
From V Require Import Common.Base RLE.RleModel RLE.RleSpec RLE.RleEncProofs RLE.RleDecProofs
  RLE.RleFrameLemmas RLE.RleFrameEnc RLE.RleFrameDec RLE.RleProofs.

(* Encoder state machine, ANY byte sequence: the output so far is a sequence of legal
   packets (literal count 1..128, replicate count 2..128); the independent reader applied
   to it, followed by the pending literals and the pending run, is exactly the input
   consumed; repeatCnt <= 128 and bufferPos <= 128 at rest. This is where the 2/3 replicate
   threshold and the 127/128/129/256 split points are covered — for all inputs. *)
Theorem C01_segment_invariant : forall l o c, bytesP l -> enc_bytes c_init l = (o, c) ->
  exists cs d, o = enc_chunks cs /\ Forall chunk_ok cs /\
    packbits o = Some d /\
    d ++ c_tmp c ++ zrep (c_prev c) (c_rep c) = l /\
    0 <= c_rep c <= 128 /\ zlen (c_tmp c) <= 128 /\ (3 <= c_rep c -> c_tmp c = []).
Proof. exact enc_invariant. Qed.
Print Assumptions C01_segment_invariant.

(* tempBuffer is [132]byte: the two pushes of "case 2" stay within 130 bytes *)
Theorem C01_literal_buffer_bound : forall c x y, cinv c -> zlen (c_tmp c ++ [x; y]) <= 130.
Proof. exact enc_tmp_bound. Qed.
Print Assumptions C01_literal_buffer_bound.

(* One plane: the independent reader recovers it from the encoder's segment, and so does the
   model of rleDecoder.decode (with or without the pad byte, whatever follows), writing
   exactly the plane at start, start+offset, ... *)
Theorem C01_segment_roundtrip : forall l, bytesP l ->
  packbits (encode_segment l) = Some l /\
  (l <> [] -> forall pad tail i pos off blen, zlen pad <= 1 -> 0 < off -> pos + (zlen l - 1) * off < blen ->
     dec_loop (S (length (encode_segment l ++ pad ++ tail))) (encode_segment l ++ pad ++ tail)
              i (i + (zlen (encode_segment l) + zlen pad)) pos off blen = Ok l).
Proof. exact rle_segment_roundtrip. Qed.
Print Assumptions C01_segment_roundtrip.

(* Frame level: for every accepted geometry (ba in {1,2,4}, spp in {1,3}, planar or not,
   npix = Rows*Columns any positive integer) and every byte frame of the native length:
   whenever Encode returns a stream, Decode of it returns the frame (+ one zero byte when the
   native length is odd) and the stream is valid Annex G (even length, 64-byte header, count
   = planes, offsets[0] = 64, offsets even, strictly ascending, inside the stream, unused
   offsets zero). No size hypothesis. *)
Theorem C01_roundtrip : forall g frame enc, geom_ok g -> bytesP frame -> zlen frame = frame_len g ->
  rle_encode g frame = Ok enc ->
  rle_decode g enc = Ok (frame ++ pad_of g) /\ annexG_valid (g_ba g * g_spp g) enc = true.
Proof. exact rle_roundtrip. Qed.
Print Assumptions C01_roundtrip.

(* Encode refuses a frame (error, never a panic) exactly when a segment would start beyond
   the 32-bit offset range; otherwise it returns the closed-form stream ... *)
Theorem C01_encode_err_iff : forall g frame, geom_ok g -> zlen frame = frame_len g ->
  (rle_encode g frame = Err <-> overflows (seg_list g frame) = true) /\
  (overflows (seg_list g frame) = false -> rle_encode g frame = Ok (stream_of (seg_list g frame))).
Proof. exact rle_encode_err_iff. Qed.
Print Assumptions C01_encode_err_iff.

Theorem C01_overflows_iff : forall segs,
  overflows segs = true <->
  exists j, (j < length segs)%nat /\ 64 + zlen (body (firstn j segs)) > 4294967295.
Proof. exact overflows_iff. Qed.
Print Assumptions C01_overflows_iff.

(* ... and it accepts every frame whose worst-case encoding fits 4 GiB (every native frame up
   to 2^31 - 40 bytes): the domain explored by the harness lies well inside. *)
Theorem C01_encode_ok_below_4GiB : forall g frame, geom_ok g -> bytesP frame -> zlen frame = frame_len g ->
  64 + nseg g * (2 * g_npix g + 1) <= 2 ^ 32 ->
  exists enc, rle_encode g frame = Ok enc.
Proof. exact rle_encode_ok_below_4GiB. Qed.
Print Assumptions C01_encode_ok_below_4GiB.

(* The same through encodeFrame's / decodeFrame's FrameInfo argument (uint16 fields,
   BitsAllocated 8/16/32, Rows, Columns in 1..65535), description checks and allocation included. *)
Theorem C01_roundtrip_frameinfo : forall fi frame enc, fi_ok fi -> bytesP frame ->
  zlen frame = frame_len (fi_geom fi) ->
  rle_encode_frame fi frame = Ok enc ->
  rle_decode_frame fi enc = Ok (frame ++ pad_of (fi_geom fi)).
Proof. exact rle_roundtrip_frameinfo. Qed.
Print Assumptions C01_roundtrip_frameinfo.

(* The independent Annex G reader, applied to segment s as delimited by the header of the
   encoded frame, returns byte plane s of the frame ... *)
Theorem C01_independent_reader : forall g frame enc s, geom_ok g -> bytesP frame -> zlen frame = frame_len g ->
  rle_encode g frame = Ok enc -> 0 <= s < g_ba g * g_spp g ->
  packbits_n (g_npix g) (nth (Z.to_nat s) (segments (g_ba g * g_spp g) enc) []) = Some (plane g frame s).
Proof. exact rle_independent_reader. Qed.
Print Assumptions C01_independent_reader.

(* ... where byte k of plane s is frame[seg_pos s + k*offset] ... *)
Theorem C01_plane_content : forall g frame s k, geom_ok g -> zlen frame = frame_len g ->
  0 <= s < nseg g -> 0 <= k < g_npix g ->
  zlen (plane g frame s) = g_npix g /\
  znth (plane g frame s) k 0 = znth frame (seg_pos g s + k * seg_off_dec g) 0.
Proof. exact plane_content. Qed.
Print Assumptions C01_plane_content.

(* ... and (s,k) -> seg_pos s + k*offset is a bijection onto [0, frame_len), for both
   planar configurations; encoder and decoder use the same offset. *)
Theorem C01_plane_bijection : forall g, geom_ok g ->
  (forall s k, 0 <= s < nseg g -> 0 <= k < g_npix g ->
     0 <= seg_pos g s + k * seg_off_dec g < frame_len g) /\
  (forall i, 0 <= i < frame_len g ->
     exists s k, 0 <= s < nseg g /\ 0 <= k < g_npix g /\ i = seg_pos g s + k * seg_off_dec g) /\
  (forall s1 k1 s2 k2, 0 <= s1 < nseg g -> 0 <= k1 < g_npix g -> 0 <= s2 < nseg g -> 0 <= k2 < g_npix g ->
     seg_pos g s1 + k1 * seg_off_dec g = seg_pos g s2 + k2 * seg_off_dec g -> s1 = s2 /\ k1 = k2) /\
  seg_off_enc g = seg_off_dec g.
Proof. exact plane_bijection. Qed.
Print Assumptions C01_plane_bijection.

(* The decoder accepts every legal packet split, not only the encoder's. *)
Theorem C01_decode_any_split : forall g frame (css : list (list chunk)), geom_ok g -> zlen frame = frame_len g ->
  length css = Z.to_nat (nseg g) ->
  (forall j, (j < length css)%nat -> Forall chunk_ok (nth j css []) /\
                                     dat_chunks (nth j css []) = plane g frame (Z.of_nat j)) ->
  overflows (map enc_chunks css) = false ->
  rle_decode g (stream_of (map enc_chunks css)) = Ok (frame ++ pad_of g).
Proof. exact rle_decode_any_split. Qed.
Print Assumptions C01_decode_any_split.

(* For ANY input bytes: when decode returns normally all its writes were inside the buffer
   (this is the guard under which the model's scatter stands for buffer[pos] = b). *)
Theorem C01_decode_writes_in_range : forall fuel rest i e pos off blen w,
  bytesP rest -> 0 <= off ->
  dec_loop fuel rest i e pos off blen = Ok w ->
  w = [] \/ pos + (zlen w - 1) * off < blen.
Proof. exact dec_loop_in_range. Qed.
Print Assumptions C01_decode_writes_in_range.

(* ---------------------------------------------------------------- non-vacuity *)

Lemma bytesP_of_all_bytes : forall l, all_bytes l = true -> bytesP l.
Proof.
  intros l H. apply Forall_forall. intros x Hx. unfold all_bytes in H. rewrite forallb_forall in H.
  specialize (H x Hx). unfold is_byte in H. apply andb_prop in H. destruct H as [H1 H2].
  unfold byteP. split; [apply Z.leb_le; assumption|apply Z.ltb_lt; assumption].
Qed.

(* 16-bit RGB, colour-by-pixel, 5 pixels: 6 byte planes *)
Definition ex_g : geom := mkG 2 3 false 5.
Definition ex_frame : list Z :=
  [1;0;2;0;3;0; 1;0;2;0;3;0; 1;0;2;0;3;0; 1;1;2;0;3;7; 9;1;2;0;3;7].

Example C01_roundtrip_nonvacuous :
  geom_ok ex_g /\ bytesP ex_frame /\ zlen ex_frame = frame_len ex_g /\
  64 + nseg ex_g * (2 * g_npix ex_g + 1) <= 2 ^ 32 /\
  exists enc, rle_encode ex_g ex_frame = Ok enc /\ zlen enc = 82 /\
              rle_decode ex_g enc = Ok ex_frame /\ annexG_valid 6 enc = true /\
              packbits_n 5 (nth 1 (segments 6 enc) []) = Some [1;1;1;1;9].
Proof.
  split. { unfold geom_ok, ex_g; cbn; lia. }
  split. { apply bytesP_of_all_bytes. reflexivity. }
  split. { reflexivity. }
  split. { vm_compute. discriminate. }
  eexists. split; [vm_compute; reflexivity|]. repeat split; vm_compute; reflexivity.
Qed.

(* 8-bit monochrome, 131 pixels (odd frame length): a run of 130 (128 + 2) and one literal *)
Definition ex_g2 : geom := mkG 1 1 false 131.
Definition ex_frame2 : list Z := repeat 5 130 ++ [6].

Example C01_roundtrip_odd_nonvacuous :
  geom_ok ex_g2 /\ bytesP ex_frame2 /\ zlen ex_frame2 = frame_len ex_g2 /\
  rle_encode ex_g2 ex_frame2 = Ok (header 1 (64 :: repeat 0 14) ++ [129; 5; 2; 5; 5; 6]) /\
  rle_decode ex_g2 (header 1 (64 :: repeat 0 14) ++ [129; 5; 2; 5; 5; 6]) = Ok (ex_frame2 ++ [0]) /\
  pad_of ex_g2 = [0].
Proof.
  split. { unfold geom_ok, ex_g2; cbn; lia. }
  split. { apply bytesP_of_all_bytes. reflexivity. }
  repeat split; vm_compute; reflexivity.
Qed.

(* encoder state mid-run: after 129 equal bytes one replicate(128) is out and one byte pends *)
Example C01_segment_invariant_nonvacuous :
  bytesP (repeat 7 129) /\
  enc_bytes c_init (repeat 7 129) = ([129; 7], mkC [] 7 1) /\
  packbits [129; 7] = Some (repeat 7 128).
Proof. split; [apply bytesP_of_all_bytes; reflexivity|]. split; vm_compute; reflexivity. Qed.

(* another legal split of the same plane: literal(2) + replicate(3) for [4;4;4;4;4] *)
Example C01_decode_any_split_nonvacuous :
  let g := mkG 1 1 false 5 in let frame := [4;4;4;4;4] in
  let css := [[Lit [4;4]; Rep 4 3]] in
  geom_ok g /\ zlen frame = frame_len g /\ length css = Z.to_nat (nseg g) /\
  Forall chunk_ok (nth 0 css []) /\ dat_chunks (nth 0 css []) = plane g frame 0 /\
  overflows (map enc_chunks css) = false /\
  rle_decode g (stream_of (map enc_chunks css)) = Ok (frame ++ [0]).
Proof.
  cbv zeta. split. { unfold geom_ok; cbn; lia. }
  split; [reflexivity|]. split; [reflexivity|].
  split. { cbn [nth]. constructor; [|constructor; [|constructor]]; cbn [chunk_ok].
           - split; [vm_compute; split; discriminate|apply bytesP_of_all_bytes; reflexivity].
           - unfold byteP. lia. }
  repeat split; vm_compute; reflexivity.
Qed.

Example C01_frameinfo_nonvacuous :
  fi_ok (mkFI 65535 65535 32 3 1) /\ fi_geom (mkFI 65535 65535 32 3 1) = mkG 4 3 true 4294836225.
Proof. split; [unfold fi_ok; cbn; lia|reflexivity]. Qed.

(* the overflow test on a concrete frame: offsets 64,68,..., none above MaxUint32 *)
Example C01_encode_err_iff_nonvacuous :
  geom_ok ex_g /\ zlen ex_frame = frame_len ex_g /\
  offsets_from 64 (seg_list ex_g ex_frame) = [64; 68; 72; 74; 76; 80] /\
  overflows (seg_list ex_g ex_frame) = false.
Proof. split; [unfold geom_ok, ex_g; cbn; lia|]. repeat split; vm_compute; reflexivity. Qed.
