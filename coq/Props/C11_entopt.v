(* C11 / C15 (entropy layer, optimised tables) -- the hypothesis mcus_ok of C11_ent_scan_roundtrip
   is discharged when the Huffman tables are those BuildOptimalHuffmanTable derives from the
   histograms of the scan's own symbols (C02_optgen_build_table_ok: valid for ANY histogram).
   What remains is the shape / range part [mcus_shape]: one 64-entry block per component, DC
   differences and AC coefficients within +-32767, DC values int32.
   Honest scope: the histogram is [hist] of the symbol lists [scan_dc_syms] / [scan_ac_syms]
   (exactly the table look-ups of the model's encodeBlock); the Go pass that computes it
   (baseline countBlock with its own huffmanCategory) is not a separate model function.
   Property theorems only. *)
From V Require Import Common.Base JpegLL.JllBits JpegLL.JllHuff JpegLL.JllT81
  JpegLL.JllProofsBits JpegLL.JllProofsHuff JpegDCT.DctZigzag JpegDCT.DctRestart
  JpegEnt.JentModel JpegEnt.JentProofsBlock JpegEnt.JentProofsScan JpegEnt.JentProofsNat
  JpegEnt.JentProofsEx JpegEnt.JentProofsOpt1 JpegEnt.JentProofsOpt2.

(* BuildOptimalHuffmanTable of the histogram of ANY list of byte symbols (fewer than 2^63 of
   them) is a valid canonical table that contains every one of them *)
Theorem C11_entopt_table_of_syms : forall syms, Forall (fun s => 0 <= s < 256) syms -> zlen syms < 2 ^ 63 ->
  exists bits vals, build_optimal (hist syms) = Ok (bits, vals) /\ t81_table_ok bits vals = true /\
                    incl syms vals.
Proof. exact opt_table_of_syms. Qed.
Print Assumptions C11_entopt_table_of_syms.
Example C11_entopt_table_instance :
  Forall (fun s => 0 <= s < 256) [240; 240; 0; 17; 255; 17; 130] /\
  build_optimal (hist [240; 240; 0; 17; 255; 17; 130])
  = Ok ([0; 2; 3; 0; 0; 0; 0; 0; 0; 0; 0; 0; 0; 0; 0; 0], [17; 240; 0; 130; 255]).
Proof.
  split; [|vm_compute; reflexivity].
  repeat constructor; lia.
Qed.

(* with optimised tables the table part of mcus_ok holds *)
Theorem C11_entopt_mcus_ok : forall codes dcT acT tabs preds mcus, mcus_shape tabs preds mcus ->
  (forall t, In t tabs -> opt_tables_for codes dcT acT tabs preds mcus t /\
     zlen (scan_dc_syms t tabs preds mcus) < 2 ^ 63 /\ zlen (scan_ac_syms t tabs mcus) < 2 ^ 63) ->
  mcus_ok codes dcT acT tabs preds mcus.
Proof. exact opt_mcus_ok. Qed.
Print Assumptions C11_entopt_mcus_ok.

(* decodeScan inverts encodeScan, without mcus_ok, for optimised tables *)
Theorem C11_entopt_scan_roundtrip : forall codes dcT acT tabs mcus tail,
  mcus_shape tabs (map (fun _ => 0) tabs) mcus ->
  (forall t, In t tabs -> opt_tables_for codes dcT acT tabs (map (fun _ => 0) tabs) mcus t /\
     zlen (scan_dc_syms t tabs (map (fun _ => 0) tabs) mcus) < 2 ^ 63 /\
     zlen (scan_ac_syms t tabs mcus) < 2 ^ 63) ->
  scan_end tail ->
  dec_scan dcT acT (map comp_of tabs) 0 (length mcus) (enc_scan_bytes codes tabs mcus ++ tail)
  = Ok (concat (map (tag 0) mcus)).
Proof. exact opt_scan_roundtrip. Qed.
Print Assumptions C11_entopt_scan_roundtrip.
Example C11_entopt_scan_instance :
  mcus_shape ex_tabs (map (fun _ => 0) ex_tabs) ex_mcus /\
  (forall t, In t ex_tabs ->
     opt_tables_for ex_opt_codes ex_opt_dcT ex_opt_acT ex_tabs (map (fun _ => 0) ex_tabs) ex_mcus t /\
     zlen (scan_dc_syms t ex_tabs (map (fun _ => 0) ex_tabs) ex_mcus) < 2 ^ 63 /\
     zlen (scan_ac_syms t ex_tabs ex_mcus) < 2 ^ 63) /\
  scan_end [255; 217] /\
  length (snd (ex_opt_d 1)) = 3%nat /\ length (snd (ex_opt_a 0)) = 8%nat.
Proof.
  split; [exact ex_opt_shape|]. split; [exact ex_opt_tables|]. split; [exact ex_scan_end|]. exact ex_opt_sizes.
Qed.
