(* C03, tie by translation (second list): the JPEG-LS error-value site of both codecs (Encoder/Decoder.computeErrorValue, defect F06), NewTraits, EdgeDetection and Context.GetPredictionCorrection, translated from the Go source on every run, equal the model functions of JpegLS/JlsModel.v and JlsParams.v. *)
From V Require Import Common.Base Gen.KernelsMore_gen Tie.TieKernelsMore.

Theorem C03_tie2_enc_computeErrorValue : forall enc delta,
  jpegls_lossless_Encoder_computeErrorValue enc delta =
  M.ll_computeErrorValue (jp (jpegls_lossless_Encoder_traits enc)) delta.
Proof. exact tie_enc_computeErrorValue. Qed.
Print Assumptions C03_tie2_enc_computeErrorValue.

Theorem C03_tie2_dec_computeErrorValue : forall dec delta,
  jpegls_lossless_Decoder_computeErrorValue dec delta =
  M.ll_computeErrorValue (jp (jpegls_lossless_Decoder_traits dec)) delta.
Proof. exact tie_dec_computeErrorValue. Qed.
Print Assumptions C03_tie2_dec_computeErrorValue.

Theorem C03_tie2_NewTraits : forall m n r, m < 2 ^ 62 -> 0 <= n ->
  option_map jp (jpegls_lossless_NewTraits m n r) = Some (P.ComputeCodingParameters m n r).
Proof. exact tie_NewTraits. Qed.
Print Assumptions C03_tie2_NewTraits.

Theorem C03_tie2_EdgeDetection : forall a b c d th,
  jpegls_lossless_EdgeDetection a b c d th =
  ((Z.abs (a - b) <=? th) && (Z.abs (b - c) <=? th) && (Z.abs (c - d) <=? th)).
Proof. exact tie_EdgeDetection. Qed.
Print Assumptions C03_tie2_EdgeDetection.

Theorem C03_tie2_GetPredictionCorrection : forall c,
  jpegls_lossless_Context_GetPredictionCorrection c = M.cC (ctx_of c).
Proof. exact tie_GetPredictionCorrection. Qed.
Print Assumptions C03_tie2_GetPredictionCorrection.

Example C03_tie2_instance : 4095 < 2 ^ 62 /\ 0 <= 3 /\
  option_map jp (jpegls_lossless_NewTraits 4095 3 64) = Some (P.ComputeCodingParameters 4095 3 64) /\
  jpegls_lossless_EdgeDetection 10 12 11 9 2 = true.
Proof. split; [lia|]. split; [lia|]. split; vm_compute; reflexivity. Qed.
