(* C04, tie by translation (second list): the geometry helpers of jpeg2000 (root package) and jpeg2000/t2 (ceilDiv, floorDiv, ceilDivPow2, isEven, nextCoord, splitLengths, subbandIndex, subbandIndexForResolutionBand, losslessLog2Gain, TileLayout.GetTileCount) equal the model functions of J2KGeo/GeoModel.v, T2/T2Packets.v and Pipe/PipeModel.v. *)
From V Require Import Common.Base Gen.KernelsMore_gen Tie.TieKernelsMoreJ2K Tie.TieKernelsMoreLoops.
Require V.T2.T2Bio.

Theorem C04_tie2_j2k_ceilDiv : forall a b, jpeg2000_ceilDiv a b = G.ceil_div a b.
Proof. exact tie_j2k_ceilDiv. Qed.
Print Assumptions C04_tie2_j2k_ceilDiv.

Theorem C04_tie2_t2_ceilDiv : forall a b, jpeg2000_t2_ceilDiv a b = TP.ceil_div a b.
Proof. exact tie_t2_ceilDiv. Qed.
Print Assumptions C04_tie2_t2_ceilDiv.

Theorem C04_tie2_t2_floorDiv : forall a b, jpeg2000_t2_floorDiv a b = TP.floor_div a b.
Proof. exact tie_t2_floorDiv. Qed.
Print Assumptions C04_tie2_t2_floorDiv.

Theorem C04_tie2_j2k_ceilDivPow2 : forall n pow, jpeg2000_ceilDivPow2 n pow = PM.ceil_div_pow2 n pow.
Proof. exact tie_j2k_ceilDivPow2. Qed.
Print Assumptions C04_tie2_j2k_ceilDivPow2.

Theorem C04_tie2_t2_ceilDivPow2 : forall n pow, jpeg2000_t2_ceilDivPow2 n pow = PM.ceil_div_pow2 n pow.
Proof. exact tie_t2_ceilDivPow2. Qed.
Print Assumptions C04_tie2_t2_ceilDivPow2.

Theorem C04_tie2_j2k_isEven : forall v, jpeg2000_isEven v = G.is_even_z v.
Proof. exact tie_j2k_isEven. Qed.
Print Assumptions C04_tie2_j2k_isEven.

Theorem C04_tie2_t2_isEven : forall v, jpeg2000_t2_isEven v = G.is_even_z v.
Proof. exact tie_t2_isEven. Qed.
Print Assumptions C04_tie2_t2_isEven.

Theorem C04_tie2_j2k_nextCoord : forall v, jpeg2000_nextCoord v = G.next_coord_z v.
Proof. exact tie_j2k_nextCoord. Qed.
Print Assumptions C04_tie2_j2k_nextCoord.

Theorem C04_tie2_t2_nextCoord : forall v, jpeg2000_t2_nextCoord v = G.next_coord_z v.
Proof. exact tie_t2_nextCoord. Qed.
Print Assumptions C04_tie2_t2_nextCoord.

Theorem C04_tie2_j2k_splitLengths : forall n e, jpeg2000_splitLengths n e = G.split_len n e.
Proof. exact tie_j2k_splitLengths. Qed.
Print Assumptions C04_tie2_j2k_splitLengths.

Theorem C04_tie2_t2_splitLengths : forall n e, jpeg2000_t2_splitLengths n e = G.split_len n e.
Proof. exact tie_t2_splitLengths. Qed.
Print Assumptions C04_tie2_t2_splitLengths.

Theorem C04_tie2_j2k_losslessLog2Gain : forall r b, jpeg2000_losslessLog2Gain r b = PM.log2_gain r b.
Proof. exact tie_j2k_losslessLog2Gain. Qed.
Print Assumptions C04_tie2_j2k_losslessLog2Gain.

Theorem C04_tie2_j2k_subbandIndex : forall l r b, jpeg2000_subbandIndex l r b = PM.subband_index l r b.
Proof. exact tie_j2k_subbandIndex. Qed.
Print Assumptions C04_tie2_j2k_subbandIndex.

Theorem C04_tie2_t2_subbandIndex : forall l r b, jpeg2000_t2_subbandIndex l r b = PM.subband_index l r b.
Proof. exact tie_t2_subbandIndex. Qed.
Print Assumptions C04_tie2_t2_subbandIndex.

Theorem C04_tie2_j2k_subbandIndexForResolutionBand : forall l r b, (r <> 0 \/ (b = 0 /\ 0 <= l)) ->
  jpeg2000_subbandIndexForResolutionBand l r b = PM.subband_index l r b.
Proof. exact tie_j2k_subbandIndexForResolutionBand. Qed.
Print Assumptions C04_tie2_j2k_subbandIndexForResolutionBand.

Theorem C04_tie2_GetTileCount : forall t, jpeg2000_TileLayout_GetTileCount t = G.tile_count (layout_of t).
Proof. exact tie_GetTileCount. Qed.
Print Assumptions C04_tie2_GetTileCount.

Theorem C04_tie2_t2_floorLog2 : forall n, n < 2 ^ 63 -> jpeg2000_t2_floorLog2 n = Some (V.T2.T2Bio.floor_log2 n).
Proof. exact tie_t2_floorLog2. Qed.
Print Assumptions C04_tie2_t2_floorLog2.

Theorem C04_tie2_j2k_log2 : forall n, n < 2 ^ 63 -> jpeg2000_log2 n = Some (V.T2.T2Bio.floor_log2 n).
Proof. exact tie_j2k_log2. Qed.
Print Assumptions C04_tie2_j2k_log2.

Example C04_tie2_log2_instance : 1000 < 2 ^ 63 /\ jpeg2000_t2_floorLog2 1000 = Some 9.
Proof. split; [lia|vm_compute; reflexivity]. Qed.

Example C04_tie2_instance : (2 <> 0 \/ (3 = 0 /\ 0 <= 5)) /\
  jpeg2000_subbandIndexForResolutionBand 5 2 3 = 6 /\ jpeg2000_t2_floorDiv (-7) 2 = -4 /\
  (* outside the hypothesis the two functions differ: *)
  jpeg2000_subbandIndexForResolutionBand 5 0 2 = 0 /\ PM.subband_index 5 0 2 = -1.
Proof. vm_compute. repeat split; try reflexivity. left. discriminate. Qed.
