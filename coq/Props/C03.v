(* C03 — JPEG-LS lossless round trip (jpegls/lossless). Property theorems only. *)
From V Require Import Common.Base JpegLS.JlsParams JpegLS.JlsGolomb JpegLS.JlsRun JpegLS.JlsModel.
From V Require Import JpegLS.JlsProofsParams JpegLS.JlsProofsGolomb JpegLS.JlsProofsWriter JpegLS.JlsProofsSample
                      JpegLS.JlsProofsRun JpegLS.JlsProofsNear0 JpegLS.JlsProofsInterrupt JpegLS.JlsProofsLine
                      JpegLS.JlsProofsStream JpegLS.JlsProofsTotal.

(* Whole image, byte level: for every geometry (the encoder accepts up to 65535 x 65535), 1 or 3 components, precision
   2..16 and samples below 2^P, the decoder model applied to the encoder model's output returns
   the input samples (in their container), width, height, component count, precision. *)
Theorem C03_roundtrip : forall w h comps P pixelData stream lim,
  w * h * comps <= lim ->
  zlen (pixelsToIntegers P pixelData) = w * h * comps ->
  Forall (in_range P) (pixelsToIntegers P pixelData) ->
  jls_encode w h comps P pixelData = Ok stream ->
  jls_decode lim stream =
  Ok (mkDecoded (integersToPixels P (2 ^ P - 1) (pixelsToIntegers P pixelData)) w h comps P 0).
Proof. exact jls_roundtrip. Qed.
Print Assumptions C03_roundtrip.

(* the encoder does not fail on any well-formed call (the round trip is not vacuous) *)
Theorem C03_encode_total : forall w h comps P pixelData,
  1 <= w <= 65535 -> 1 <= h <= 65535 -> comps = 1 \/ comps = 3 -> 2 <= P <= 16 ->
  w * h * comps * Z.quot (P + 7) 8 <= zlen pixelData ->
  exists stream, jls_encode w h comps P pixelData = Ok stream.
Proof. intros. apply encode_total; try assumption; lia. Qed.
Print Assumptions C03_encode_total.

(* the sample containers: the decoded container bytes are the source bytes *)
Theorem C03_container_8 : forall P px, P <= 8 -> 2 <= P ->
  Forall (in_range P) px -> integersToPixels P (2 ^ P - 1) (pixelsToIntegers P px) = px.
Proof. exact container_roundtrip_8. Qed.
Print Assumptions C03_container_8.

Theorem C03_container_16 : forall P n px,
  8 < P <= 16 -> length px = (2 * n)%nat -> Forall (fun b => 0 <= b < 256) px ->
  Forall (in_range P) (pixelsToIntegers P px) ->
  integersToPixels P (2 ^ P - 1) (pixelsToIntegers P px) = px.
Proof. exact container_roundtrip_16. Qed.
Print Assumptions C03_container_16.

(* regular mode, one sample, every context, every precision (full-range jumps included: the
   error is reduced modulo RANGE) *)
Theorem C03_sample_exact : forall P store c qs ra rb rc x rest ops c' stored,
  2 <= P <= 16 -> 0 <= x <= 2 ^ P - 1 ->
  regular_enc PkLossless store (jls_params P 0) c qs ra rb rc x = (ops, c', stored) ->
  regular_dec (jls_params P 0) c qs ra rb rc (ops_bits ops ++ rest) = Some (x, c', rest) /\ stored = x /\
  Forall wop_ok ops.
Proof. exact sample_exact. Qed.
Print Assumptions C03_sample_exact.

(* limited-length Golomb code with escape *)
Theorem C03_golomb_roundtrip : forall k m limit qbpp rest,
  0 <= k <= 32 -> 0 <= qbpp <= 32 -> qbpp + 1 < limit <= 64 -> 0 <= m ->
  (limit - (qbpp + 1) <= Z.shiftr m k -> m - 1 < 2 ^ qbpp) ->
  decode_value k limit qbpp (ops_bits (encode_mapped_ops k m limit qbpp) ++ rest) = Some (m, rest).
Proof. exact golomb_roundtrip. Qed.
Print Assumptions C03_golomb_roundtrip.

(* flat regions: run-length code incl. end of line, RunIndex on both sides *)
Theorem C03_run_roundtrip : forall fuel n remaining ri rest,
  0 <= ri <= 31 -> 0 <= n <= remaining -> 1 <= remaining -> (Z.to_nat n < fuel)%nat ->
  exists ops ri',
    EncodeRunLength fuel n (n =? remaining) ri = Some (ops, ri') /\ 0 <= ri' <= 31 /\
    DecodeRunLength (ops_bits ops ++ rest) remaining ri = Some (n, ri', rest) /\
    Forall wop_ok ops.
Proof. exact run_roundtrip. Qed.
Print Assumptions C03_run_roundtrip.

(* isolated outliers: run interruption sample, both run contexts, both map conditions *)
Theorem C03_run_interruption_roundtrip : forall p ri c e rest,
  rc_type c = 0 \/ rc_type c = 1 -> (rc_type c = 1 -> e <> 0) -> 0 <= ri <= 31 ->
  GetGolombCode c <= 32 -> 0 <= jp_qbpp p <= 32 ->
  jp_qbpp p + 1 < jp_limit p - Jof ri - 1 -> jp_limit p <= 64 -> 2 * Z.abs e <= 2 ^ jp_qbpp p ->
  DecodeRunInterruption p ri c (ops_bits (fst (EncodeRunInterruption p ri c e)) ++ rest) =
  Some (e, snd (EncodeRunInterruption p ri c e), rest) /\
  (1 <= jp_qbpp p -> Forall wop_ok (fst (EncodeRunInterruption p ri c e))).
Proof. exact run_interruption_roundtrip. Qed.
Print Assumptions C03_run_interruption_roundtrip.

(* bit stuffing: the packed stream unstuffs to the written bits plus < 8 zero pad bits, and has
   no marker inside (after 0xFF the next byte is < 0x80; 0xFF is never last) *)
Theorem C03_stuff_unstuff : forall bits,
  exists pad, jls_bits_of_bytes (jls_pack bits) = bits ++ repeat false pad /\ (pad < 8)%nat.
Proof. exact jls_stuff_unstuff. Qed.
Print Assumptions C03_stuff_unstuff.

Theorem C03_no_marker : forall bits,
  jls_marker_free (jls_pack bits) = true /\ Forall (fun b => 0 <= b < 256) (jls_pack bits).
Proof. exact jls_no_marker. Qed.
Print Assumptions C03_no_marker.

(* the GolombWriter as coded (32-bit buffer, double flush, Flush padding) is that packing *)
Theorem C03_writer_as_coded : forall ops, Forall wop_ok ops -> gw_run ops = jls_pack (ops_bits ops).
Proof. exact gw_run_pack. Qed.
Print Assumptions C03_writer_as_coded.

(* non-vacuity: a 12-bit image with a full-range jump (the former failing input, finding F06),
   a three-component image, and a hypothesis instance of every implication above *)
Example C03_nonvacuous_F06 :
  Forall (in_range 12) (pixelsToIntegers 12 [1; 8]) /\
  (exists s, jls_encode 1 1 1 12 [1; 8] = Ok s /\
             jls_decode 1000 s = Ok (mkDecoded [1; 8] 1 1 1 12 0)).
Proof.
  split; [apply in_range_forallb; vm_compute; reflexivity|].
  eexists. split; [vm_compute; reflexivity|]. vm_compute. reflexivity.
Qed.

Example C03_nonvacuous_rgb :
  exists s, jls_encode 2 2 3 8 [255; 0; 7; 255; 0; 7; 0; 255; 9; 1; 2; 3] = Ok s /\
            jls_decode 1000 s = Ok (mkDecoded [255; 0; 7; 255; 0; 7; 0; 255; 9; 1; 2; 3] 2 2 3 8 0).
Proof. eexists. split; [vm_compute; reflexivity|]. vm_compute. reflexivity. Qed.

Example C03_nonvacuous_golomb_escape :
  (32 - (8 + 1) <= Z.shiftr 255 0 -> 255 - 1 < 2 ^ 8) /\
  decode_value 0 32 8 (ops_bits (encode_mapped_ops 0 255 32 8) ++ [true]) = Some (255, [true]).
Proof. split; [intros _; vm_compute; reflexivity | vm_compute; reflexivity]. Qed.

Example C03_nonvacuous_writer : Forall wop_ok [(255, 8); (1, 1); (0, 31); (1, 32)] /\
  gw_run [(255, 8); (1, 1); (0, 31); (1, 32)] = [255; 64; 0; 0; 0; 0; 0; 0; 0; 128].
Proof.
  split; [|vm_compute; reflexivity].
  repeat constructor; unfold wop_ok; cbn [fst snd]; try lia; vm_compute; reflexivity.
Qed.
