(* C19 (pipe, tiles): the composed reversible path over a TileWidth x TileHeight grid - per tile the
   single-tile pipeline at the tile's origin on the reference grid (parity of the wavelet windows,
   band rectangles, the decoder's precinct geometry at the origin), tile extraction / assembly,
   colour transform and packing once on the image (coq/Pipe/PipeModel.v pipe_encode_tiles /
   pipe_decode_tiles, byte-exact per tile against jpeg2000.Encoder / Decoder in the correspondence
   run). *)
From V Require Import Common.Base J2KGeo.GeoModel J2KGeo.GeoProofsSamples T2.T2Header T2.T2Packets
  Pipe.PipeModel Pipe.PipeProofsFront Pipe.PipeProofsGeo Pipe.PipeProofsPgeom Pipe.PipeProofsEnc
  Pipe.PipeProofsMain Pipe.PipeLBlock Pipe.PipeTMain Pipe.PipeTBig.
Require V.T2.T2ProofsProg.

(* ---- the end-to-end theorem (partial: the hypothesis of the single-tile theorem, per tile: no
        code-block of any tile compresses to more than 65535 bytes) ---- *)

Theorem C19_pipe_tiles_roundtrip_partial : forall p tw th, pp_scope p -> 0 <= tw <= pp_w p -> 0 <= th <= pp_h p ->
  forall samples, samples_ok p samples ->
  let pix := pack_image p samples in
  hyp_tile_block_sizes p tw th pix ->
  exists tiles, pipe_encode_tiles p tw th pix = Ok tiles /\ pipe_decode_tiles p tw th tiles = Ok pix.
Proof. exact pipe_tiles_roundtrip_partial. Qed.
Print Assumptions C19_pipe_tiles_roundtrip_partial.

(* tiles x quality layers: nl >= 2 layers and ANY per-tile allocation of passes to layers with
   monotone rows (with more than one tile the encoder runs one global rate-distortion allocation
   over the blocks of all tiles; the allocation is a parameter, as in C05_pipe) *)
Theorem C19_pipe_tiles_layers_roundtrip_partial : forall p tw th nl talloc,
  pp_scope p -> 0 <= tw <= pp_w p -> 0 <= th <= pp_h p -> 2 <= nl -> talloc_ok nl talloc ->
  forall samples, samples_ok p samples ->
  let pix := pack_image p samples in
  hyp_tile_block_sizes p tw th pix ->
  exists tiles, pipe_encode_tiles_layers p nl talloc tw th pix = Ok tiles /\
                pipe_decode_tiles_layers p nl tw th tiles = Ok pix.
Proof. exact pipe_tiles_layers_roundtrip_partial. Qed.
Print Assumptions C19_pipe_tiles_layers_roundtrip_partial.

(* ... and for EVERY tile size 0 <= TileWidth, TileHeight < 2^31 (0 = the dimension): a tile size
   above the image dimension gives the same rectangles as the dimension itself in the encoder
   (tileBounds), the decoder (NewTileDecoder from XTsiz / YTsiz) and the assembler (TileLayout) *)
Theorem C19_pipe_tiles_roundtrip_any_size : forall p tw th, pp_scope p -> 0 <= tw < 2 ^ 31 -> 0 <= th < 2 ^ 31 ->
  forall samples, samples_ok p samples ->
  let pix := pack_image p samples in
  hyp_tile_block_sizes p tw th pix ->
  exists tiles, pipe_encode_tiles p tw th pix = Ok tiles /\ pipe_decode_tiles p tw th tiles = Ok pix.
Proof. exact pipe_tiles_roundtrip_any_size. Qed.
Print Assumptions C19_pipe_tiles_roundtrip_any_size.

Theorem C19_pipe_tiles_layers_roundtrip_any_size : forall p tw th nl talloc,
  pp_scope p -> 0 <= tw < 2 ^ 31 -> 0 <= th < 2 ^ 31 -> 2 <= nl -> talloc_ok nl talloc ->
  forall samples, samples_ok p samples ->
  let pix := pack_image p samples in
  hyp_tile_block_sizes p tw th pix ->
  exists tiles, pipe_encode_tiles_layers p nl talloc tw th pix = Ok tiles /\
                pipe_decode_tiles_layers p nl tw th tiles = Ok pix.
Proof. exact pipe_tiles_layers_roundtrip_any_size. Qed.
Print Assumptions C19_pipe_tiles_layers_roundtrip_any_size.

Theorem C19_pipe_big_tile_rectangles : forall W H T U, 1 <= W < 2 ^ 31 -> 1 <= H < 2 ^ 31 -> 1 <= T < 2 ^ 31 -> 1 <= U < 2 ^ 31 ->
  enc_tiles W H T U = enc_tiles W H (Z.min T W) (Z.min U H) /\
  forall idx, 0 <= idx -> dec_tile_bounds idx W H 0 0 T U 0 0 = enc_tile_bounds W H idx T U (enc_num_tiles W T).
Proof.
  intros W H T U A B C D. split; [exact (enc_tiles_clamp W H T U A B C D) | exact (decoder_agrees_gen W H T U A B C D)].
Qed.
Print Assumptions C19_pipe_big_tile_rectangles.

(* ---- what had to be proved for the chain ---- *)

(* one tile at ANY origin inside the 32768 x 32768 reference grid (pp_scope bounds pp_x0, pp_y0):
   DWT with the origin's parity, blocks, T1, T2 and back return the tile's planes *)
Theorem C19_pipe_tile_at_origin : forall p, pp_scope p -> forall planes,
  planes_ok p (2 ^ pp_prec p) planes -> blocks_small p (map (pipe_fdwt p) planes) ->
  exists tile, obind (pipe_cells p (map (pipe_fdwt p) planes)) (pipe_tile_bytes p) = Ok tile /\
               pipe_dec_planes p tile = Ok planes.
Proof. exact pipe_planes_roundtrip. Qed.
Print Assumptions C19_pipe_tile_at_origin.

(* every tile of the grid is a parameter set in scope: non-empty, inside the image, origin (x0, y0) *)
Theorem C19_pipe_tile_in_scope : forall p, pp_scope p -> forall tw th, 0 <= tw <= pp_w p -> 0 <= th <= pp_h p ->
  forall idx, 0 <= idx < enc_num_tiles (pp_w p) (enc_tile_size (pp_w p) tw) * enc_num_tiles (pp_h p) (enc_tile_size (pp_h p) th) ->
  pp_scope (tile_pp p (enc_tile_bounds (pp_w p) (pp_h p) idx (enc_tile_size (pp_w p) tw) (enc_tile_size (pp_h p) th)
                         (enc_num_tiles (pp_w p) (enc_tile_size (pp_w p) tw)))).
Proof. intros p Hsc tw th Htw Hth idx Hi. exact (proj1 (tile_scope p Hsc tw th Htw Hth idx Hi)). Qed.
Print Assumptions C19_pipe_tile_in_scope.

(* the packet encoder is given the tile-LOCAL component bounds, the packet decoder the bounds at the
   tile origin: with one precinct per resolution both position keys are (0, 0) and the packet
   sequences of all five progression orders coincide *)
Theorem C19_pipe_position_keys : forall p, pp_scope p -> forall c r, 0 <= r <= pp_levels p ->
  precinct_position_key (pipe_pgeom p) (pp_levels p + 1) c r 0 = Some (0, 0) /\
  precinct_position_key (pipe_pgeom_dec p) (pp_levels p + 1) c r 0 = Some (0, 0).
Proof. intros p Hsc c r Hr. split; [exact (pos_key_enc p Hsc c r Hr) | exact (pos_key_dec p Hsc c r Hr)]. Qed.
Print Assumptions C19_pipe_position_keys.

Theorem C19_pipe_packet_sequence : forall p, pp_scope p -> forall nl cells,
  (forall c r, enc_pidx cells c r = [] \/ enc_pidx cells c r = [0]) ->
  enc_packets (pp_order p) nl (pp_levels p + 1) (pp_nc p) (pipe_pgeom p) cells =
  enc_packets (pp_order p) nl (pp_levels p + 1) (pp_nc p) (pipe_pgeom_dec p) cells.
Proof. exact enc_packets_geom. Qed.
Print Assumptions C19_pipe_packet_sequence.

(* the decoder's resolution rectangle at the origin: inside the reference grid; it may be EMPTY (odd
   origins), and then every band of the resolution is empty; its precinct entries are the encoder's
   block grid in every case *)
Theorem C19_pipe_resolution_rect : forall p, pp_scope p -> forall r, 0 <= r <= pp_levels p ->
  exists rw rh rx ry,
    dec_band_infos (pp_w p) (pp_h p) (pp_x0 p) (pp_y0 p) (pp_levels p) r = ((rw, rh, rx, ry), rbands p r) /\
    0 <= rw /\ 0 <= rh /\ 0 <= rx /\ 0 <= ry /\ rx + rw <= 32768 /\ ry + rh <= 32768 /\
    (forall b, In b (rbands p r) -> b_w b <= rw /\ b_h b <= rh).
Proof. exact dec_infos_gen. Qed.
Print Assumptions C19_pipe_resolution_rect.

Theorem C19_pipe_precinct_entries : forall p, pp_scope p -> forall r, 0 <= r <= pp_levels p ->
  res_entries p r = flat_map (fun b => map (fun xy => (0, b_id b, fst xy, snd xy)) (bgrid p b)) (rbands p r).
Proof. exact res_entries_origin. Qed.
Print Assumptions C19_pipe_precinct_entries.

(* ---- non-vacuity: a 5x3 grey image, 2 levels, 2x2 tiles: 6 tiles, odd origins (x0 = 2, 4; y0 = 2),
        tile widths 2, 2, 1 (empty resolutions) ---- *)

Definition ext_p : pparams := mkPP 5 3 1 8 false 2 4 4 false 0 0 0 5.
Definition ext_samples : list Z := [10; 200; 30; 40; 255; 0; 1; 2; 3; 250; 128; 7; 99; 100; 101].

Example C19_pipe_example_roundtrip :
  exists tiles, pipe_encode_tiles ext_p 2 2 (pack_image ext_p ext_samples) = Ok tiles /\
                pipe_decode_tiles ext_p 2 2 tiles = Ok (pack_image ext_p ext_samples) /\ zlen tiles = 6 /\
                Forall (fun t => 3 <= zlen t) tiles.
Proof.
  eexists. split; [vm_compute; reflexivity|]. split; [vm_compute; reflexivity|]. split; [reflexivity|].
  repeat constructor; vm_compute; discriminate.
Qed.

(* a tile wider than the image: 7x2 tiles on the 5x3 image = one column of two tiles *)
Example C19_pipe_example_big_tile :
  exists tiles, pipe_encode_tiles ext_p 7 2 (pack_image ext_p ext_samples) = Ok tiles /\
                pipe_decode_tiles ext_p 7 2 tiles = Ok (pack_image ext_p ext_samples) /\ zlen tiles = 2.
Proof. eexists. split; [vm_compute; reflexivity|]. split; [vm_compute; reflexivity | reflexivity]. Qed.

Definition ext_talloc : Z -> Z -> bkey -> list Z := fun _ _ _ => [1; 3; 0].

Example C19_pipe_example_layers_roundtrip :
  exists tiles, pipe_encode_tiles_layers ext_p 3 ext_talloc 2 2 (pack_image ext_p ext_samples) = Ok tiles /\
                pipe_decode_tiles_layers ext_p 3 2 2 tiles = Ok (pack_image ext_p ext_samples) /\ zlen tiles = 6 /\
                Forall (fun t => 9 <= zlen t) tiles.
Proof.
  eexists. split; [vm_compute; reflexivity|]. split; [vm_compute; reflexivity|]. split; [reflexivity|].
  repeat constructor; vm_compute; discriminate.
Qed.

Example C19_pipe_example_talloc : 2 <= 3 /\ talloc_ok 3 ext_talloc.
Proof.
  split; [lia|]. intros idx c k. apply row_ok_of_nondec. unfold ext_talloc. vm_compute. repeat split; intros H0; discriminate H0.
Qed.

Definition ext_planes : list (list Z) :=
  match pipe_front ext_p (pack_image ext_p ext_samples) with Ok x => x | _ => [] end.

Example C19_pipe_example_hypotheses :
  pp_scope ext_p /\ 0 <= 2 <= pp_w ext_p /\ 0 <= 2 <= pp_h ext_p /\ samples_ok ext_p ext_samples /\
  hyp_tile_block_sizes ext_p 2 2 (pack_image ext_p ext_samples).
Proof.
  split; [unfold pp_scope, pow2_size, ext_p; cbn; lia|]. split; [cbn; lia|]. split; [cbn; lia|].
  split.
  { split; [reflexivity|]. unfold ext_samples, ext_p, in_sample_range. cbn. repeat constructor; lia. }
  intros planes Ep.
  assert (Ef : pipe_front ext_p (pack_image ext_p ext_samples) = Ok ext_planes) by (vm_compute; reflexivity).
  rewrite Ef in Ep. injection Ep as <-. intros r Hr d Hd rr cb Hin b Eb.
  assert (Hb : forallb (fun r0 => forallb (fun d0 => forallb (fun rc : Z * cblock =>
                   match enc_code_block (tile_pp ext_p r0) (fst rc) (snd rc) (cb_cbx (snd rc)) (cb_cby (snd rc)) with
                   | Ok b0 => zlen (eb_data b0) <=? 65535 | _ => false end) (enc_blocks (tile_pp ext_p r0) d0))
                 (map (fun pl => pipe_fdwt (tile_pp ext_p r0) (extract_tile pl (pp_w ext_p) r0)) ext_planes))
                 (enc_tiles (pp_w ext_p) (pp_h ext_p) (enc_tile_size (pp_w ext_p) 2) (enc_tile_size (pp_h ext_p) 2)) = true)
    by (vm_compute; reflexivity).
  rewrite forallb_forall in Hb. specialize (Hb r Hr). rewrite forallb_forall in Hb. specialize (Hb d Hd).
  rewrite forallb_forall in Hb. specialize (Hb (rr, cb) Hin).
  cbn [fst snd] in Hb. rewrite Eb in Hb. apply Z.leb_le in Hb. exact Hb.
Qed.
