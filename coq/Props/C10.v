(* C10 — codec contract over histories. Property theorems only.
   Models: Contract/CtrFrames.v (frame loops), Contract/CtrDataflow.v (field dataflow of one coder
   object, hand summaries of jpeg2000.Encoder / jpeg2000.Decoder); facts: Gen/Facts_gen.v. *)
From Coq Require Import String List Bool Arith.
Import ListNotations.
From V Require Import Common.Base Contract.CtrFrames Contract.CtrProofsFrames
  Contract.CtrDataflow Contract.CtrProofsDataflow Contract.CtrProofsFacts.

(* n input frames give exactly n output frames, output i = f(frame i), for both loop shapes
   found in the ten codec.go files (fresh coder per frame; one jpeg2000.Encoder reused), any n. *)
Theorem C10_one_to_one_in_order : forall (F O S : Type) (enc1 : F -> option O)
    (encS : S -> F -> option O * S) (Inv : S -> Prop),
  (forall s f, Inv s -> fst (encS s f) = enc1 f /\ Inv (snd (encS s f))) ->
  forall e s0 dst0 fs out, Inv s0 ->
    (framesA F O enc1 e dst0 fs = (out, true) \/ framesB F O S encS e s0 dst0 fs = (out, true)) ->
    exists outs, out = dst0 ++ outs /\ length outs = length fs /\
      forall i f, nth_error fs i = Some f ->
        exists o, nth_error outs i = Some o /\ enc1 f = Some o.
Proof. exact one_to_one_in_order. Qed.
Print Assumptions C10_one_to_one_in_order.

Example C10_one_to_one_nonvacuous :
  let enc1 := fun n : nat => if Nat.eqb n 9 then None else Some (n + 100)%nat in
  let encS := fun (s n : nat) => (enc1 n, S s) in
  (forall s f, True -> fst (encS s f) = enc1 f /\ True) /\
  framesB nat nat nat encS true O [] [1; 2; 3]%nat = ([101; 102; 103]%nat, true) /\
  framesA nat nat enc1 true [] [1; 9; 3]%nat = ([101]%nat, false).
Proof. cbv zeta. repeat split. Qed.

(* on an error the destination holds exactly the outputs of the frames before the failing one *)
Theorem C10_failure_is_a_prefix : forall (F O : Type) (enc1 : F -> option O) e dst0 fs out, fs <> [] ->
  framesA F O enc1 e dst0 fs = (out, false) ->
  exists outs, out = dst0 ++ outs /\ (length outs < length fs)%nat /\
    map Some outs = firstn (length outs) (map enc1 fs) /\
    exists f, nth_error fs (length outs) = Some f /\ enc1 f = None.
Proof. exact failure_is_a_prefix. Qed.
Print Assumptions C10_failure_is_a_prefix.

(* two sequences that agree at position i give the same output at position i (permutations,
   sub-sequences, repeats are instances) *)
Theorem C10_same_frame_same_output : forall (F O : Type) (enc1 : F -> option O) e fs fs' out out' i,
  framesA F O enc1 e [] fs = (out, true) -> framesA F O enc1 e [] fs' = (out', true) ->
  nth_error fs i = nth_error fs' i -> nth_error out i = nth_error out' i.
Proof. exact same_frame_same_output. Qed.
Print Assumptions C10_same_frame_same_output.

(* a call history on one codec object (no method assigns a receiver field: C18_facts) *)
Theorem C10_codec_history_independent : forall (C R : Type) (call : C -> R) (before after : list C) (c : C),
  nth_error (history_outputs call (before ++ c :: after)) (length before) = Some (call c).
Proof. exact codec_history_independent. Qed.
Print Assumptions C10_codec_history_independent.

(* History independence of one coder object, for every summary with
   self_initialising summary = true, every interpretation of the opaque stages, every history. *)
Theorem C10_history_independent : forall (D A : Type) app app0 appendD
    (cfg : list field) (c : call) (ms : list call) (r0 : rec D),
  self_initialising cfg c = true ->
  forallb (compatible cfg c) ms = true ->
  (forall f, In f (memo_fields (c_steps c)) -> r0 f = None) ->
  forall (h : list (call * A)) (a : A),
    Forall (fun ca => In (fst ca) ms) h ->
    snd (exec_call D A app app0 appendD a (run_history D A app app0 appendD h r0) c)
    = snd (exec_call D A app app0 appendD a r0 c).
Proof. exact history_independent. Qed.
Print Assumptions C10_history_independent.

Theorem C10_frame_independent : forall (D A : Type) app app0 appendD
    (cfg : list field) (c : call) (ms : list call) (r0 : rec D),
  self_initialising cfg c = true ->
  forallb (compatible cfg c) ms = true ->
  (forall f, In f (memo_fields (c_steps c)) -> r0 f = None) ->
  exists F : A -> D,
    forall (h : list (call * A)) (a : A),
      Forall (fun ca => In (fst ca) ms) h ->
      snd (exec_call D A app app0 appendD a (run_history D A app app0 appendD h r0) c) = F a.
Proof. exact frame_independent. Qed.
Print Assumptions C10_frame_independent.

(* the hypotheses are met by the summary of jpeg2000.Encoder.Encode *)
Example C10_history_independent_nonvacuous :
  self_initialising encoder_cfg encoder_encode = true /\
  forallb (compatible encoder_cfg encoder_encode) [encoder_encode] = true /\
  (forall f, In f (memo_fields (c_steps encoder_encode)) -> fresh nat f = None) /\
  Forall (fun ca : call * nat => In (fst ca) [encoder_encode]) [(encoder_encode, 3%nat); (encoder_encode, 4%nat)].
Proof.
  split; [vm_compute; reflexivity|]. split; [vm_compute; reflexivity|].
  split; [reflexivity|]. repeat constructor.
Qed.

(* the link between the two models: a self-initialising summary gives the invariant that makes
   the reused-encoder loop equal to the fresh-encoder loop *)
Theorem C10_reused_object : forall (D A : Type) app app0 appendD (cfg : list field) (c : call) (r0 : rec D),
  self_initialising cfg c = true ->
  compatible cfg c c = true ->
  (forall f, In f (memo_fields (c_steps c)) -> r0 f = None) ->
  forall (s : rec D) (a : A),
    hinv D app0 cfg (memo_list (c_steps c)) r0 s ->
    snd (exec_call D A app app0 appendD a s c) = snd (exec_call D A app app0 appendD a r0 c) /\
    hinv D app0 cfg (memo_list (c_steps c)) r0 (fst (exec_call D A app app0 appendD a s c)).
Proof. exact reused_object_inv_step. Qed.
Print Assumptions C10_reused_object.

(* without caches: the output is determined by the argument and the current configuration *)
Theorem C10_config_determines_output : forall (D A : Type) app app0 appendD (cfg : list field) (c : call),
  self_initialising cfg c = true -> memo_list (c_steps c) = [] ->
  forall (r r' : rec D) (a : A), agree D cfg r r' ->
    snd (exec_call D A app app0 appendD a r c) = snd (exec_call D A app app0 appendD a r' c).
Proof. exact config_determines_output. Qed.
Print Assumptions C10_config_determines_output.

(* the regenerated write/read-site facts of jpeg2000.Decoder and jpeg2000.Encoder are all
   accounted for by the hand summaries (re-proved on every run; a new field or write site
   breaks it) *)
Theorem C10_facts_cover : decoder_facts_cover = true /\ encoder_facts_cover = true.
Proof. exact facts_cover. Qed.
Print Assumptions C10_facts_cover.

(* jpeg2000.Encoder: the summary is self-initialising (computed), hence one Encoder object
   reused over any number of frames and calls codes every frame as a new encoder would *)
Theorem C10_encoder_history_independent :
  forall (D A : Type) app app0 appendD (r0 : rec D) (h : list (call * A)) (a : A),
    Forall (fun ca => In (fst ca) [encoder_encode]) h ->
    snd (exec_call D A app app0 appendD a (run_history D A app app0 appendD h r0) encoder_encode)
    = snd (exec_call D A app app0 appendD a r0 encoder_encode).
Proof. exact encoder_history_independent. Qed.
Print Assumptions C10_encoder_history_independent.

(* ... also when the caller changes the EncodeParams between calls (finding F25, repaired:
   Encode clears the quantisation cache; before, the tables of the first call were reused) *)
Theorem C10_encoder_params_determine_output :
  forall (D A : Type) app app0 appendD (r0 : rec D) (h : list (call * A)) (a : A),
    Forall (fun ca => In (fst ca) [encoder_encode; encoder_set_params]) h ->
    let r := run_history D A app app0 appendD h r0 in
    snd (exec_call D A app app0 appendD a r encoder_encode)
    = snd (exec_call D A app app0 appendD a (rupd D (fresh D) "params" (r "params")) encoder_encode).
Proof. exact encoder_params_determine_output. Qed.
Print Assumptions C10_encoder_params_determine_output.

(* jpeg2000.Decoder (finding F21, repaired: Decode clears bindings, mctInverse, mctOffsets,
   roiMasks and a stream-derived ROI configuration): self-initialising (computed), hence every
   Decode on a used Decoder returns what a fresh Decoder configured alike returns.
   Historical witness: decode a stream with MCT/MCC/MCO markers, then a plain one, on one
   Decoder — 540 of 768 bytes wrong; see unrepaired_decoder_history_dependent. *)
Theorem C10_decoder_self_initialising :
  self_initialising decoder_cfg decoder_decode = true
  /\ compatible decoder_cfg decoder_decode decoder_decode = true
  /\ memo_list (c_steps decoder_decode) = [].
Proof. exact decoder_self_initialising. Qed.
Print Assumptions C10_decoder_self_initialising.

Theorem C10_decoder_history_independent :
  forall (D A : Type) app app0 appendD (r0 : rec D) (h : list (call * A)) (a : A),
    Forall (fun ca => In (fst ca) [decoder_decode]) h ->
    snd (exec_call D A app app0 appendD a (run_history D A app app0 appendD h r0) decoder_decode)
    = snd (exec_call D A app app0 appendD a r0 decoder_decode).
Proof. exact decoder_history_independent. Qed.
Print Assumptions C10_decoder_history_independent.

Theorem C10_decoder_config_determines_output :
  forall (D A : Type) app app0 appendD (r r' : rec D) (a : A),
    agree D decoder_cfg r r' ->
    snd (exec_call D A app app0 appendD a r decoder_decode)
    = snd (exec_call D A app app0 appendD a r' decoder_decode).
Proof. exact decoder_config_determines_output. Qed.
Print Assumptions C10_decoder_config_determines_output.

(* the criterion discriminates: the summaries of the Decoder and Encoder as they were before
   the repairs are rejected / depend on their history under a concrete interpretation *)
Example C10_criterion_nonvacuous :
  self_initialising decoder_cfg_unrepaired decoder_decode_unrepaired = false
  /\ dec_out decoder_decode_unrepaired [(decoder_decode_unrepaired, (true, false))] (false, false)
       <> dec_out decoder_decode_unrepaired [] (false, false)
  /\ dec_out decoder_decode_unrepaired [(decoder_decode_unrepaired, (false, true))] (false, false)
       <> dec_out decoder_decode_unrepaired [] (false, false)
  /\ dec_out decoder_decode [(decoder_decode, (true, false))] (false, false) = dec_out decoder_decode [] (false, false)
  /\ dec_out decoder_decode [(decoder_decode, (false, true))] (false, false) = dec_out decoder_decode [] (false, false).
Proof. exact unrepaired_decoder_history_dependent. Qed.

(* lossless syntaxes: frame-wise inverse coders give the source sequence back *)
Theorem C10_sequence_roundtrip : forall (F O : Type) (enc1 : F -> option O) (dec1 : O -> option F),
  (forall f o, enc1 f = Some o -> dec1 o = Some f) ->
  forall e e' fs outs, fs <> [] ->
    framesA F O enc1 e [] fs = (outs, true) ->
    framesA O F dec1 e' [] outs = (fs, true).
Proof. exact sequence_roundtrip. Qed.
Print Assumptions C10_sequence_roundtrip.

Example C10_sequence_roundtrip_nonvacuous :
  let enc1 := fun n : nat => Some (n + 5)%nat in
  let dec1 := fun m : nat => Some (m - 5)%nat in
  (forall f o, enc1 f = Some o -> dec1 o = Some f) /\
  framesA nat nat enc1 true [] [4; 0; 4]%nat = ([9; 5; 9]%nat, true).
Proof.
  cbv zeta. split; [|reflexivity]. intros f o H. inversion H. f_equal. lia.
Qed.

(* decoded frame size: Rows x Columns x SamplesPerPixel x ceil(BitsAllocated/8), RLE rounded to even *)
Theorem C10_output_size :
  (forall r c s b, (rle_decoded_len r c s b) mod 2 = 0) /\
  (forall r c s b, decoded_len r c s b <= rle_decoded_len r c s b <= decoded_len r c s b + 1) /\
  (forall b, 1 <= b <= 65536 -> rle_bytes_allocated b = bytes_per_sample b).
Proof. exact (conj rle_decoded_len_even (conj rle_decoded_len_bounds rle_bytes_allocated_ok)). Qed.
Print Assumptions C10_output_size.

(* Not a theorem: "the caller's input buffers are left unmodified" — model functions take
   immutable lists; the Go side is checked by the suite (hash before/after every call; finding
   F22, repaired: the JPEG 2000 parser merged tile-parts into the caller's buffer).
   KNOWN, NOT REPAIRED (finding on C10's size clause): with BitsAllocated = 16 and
   BitsStored <= 8 the codecs .50 .51 .57 .70 .80 .81 .90 .91 .92 .93 pick the sample width from
   BitsStored: decoded frames have half the required length and the lossless ones do not round
   trip.  Suite signatures c10:<ts>:decoded-length:alloc16-stored<=8 and
   c10:<ts>:lossless-mismatch:alloc16-stored<=8. *)
