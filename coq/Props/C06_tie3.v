(* C06, tie by translation (third list): the generated bodies of jpeg2000/htj2k MagnitudeExponent and calculateMaxLevels (loops; fuelled and option-valued in the translation) return Some and equal HtLevels.mag_bits / HtLevels.calc_max_levels, the functions the C06 theorems (Kmax fit, level clamp) are stated about, in the range in which the Go loops terminate without overflow. *)
From V Require Import Common.Base Gen.KernelsMore_gen Tie.TieKernelsMore2HT.
Require V.HT.HtLevels.

Theorem C06_tie3_MagnitudeExponent : forall m, 0 <= m < 2 ^ 63 ->
  jpeg2000_htj2k_MagnitudeExponent m = Some (V.HT.HtLevels.mag_bits m).
Proof. exact tie_ht_MagnitudeExponent. Qed.
Print Assumptions C06_tie3_MagnitudeExponent.

Theorem C06_tie3_calculateMaxLevels : forall w h, Z.min w h <= 2 ^ 62 ->
  jpeg2000_htj2k_calculateMaxLevels w h = Some (V.HT.HtLevels.calc_max_levels w h).
Proof. exact tie_ht_calculateMaxLevels. Qed.
Print Assumptions C06_tie3_calculateMaxLevels.

Example C06_tie3_instance :
  0 <= 1000 < 2 ^ 63 /\ jpeg2000_htj2k_MagnitudeExponent 1000 = Some 10 /\
  Z.min 513 40 <= 2 ^ 62 /\ jpeg2000_htj2k_calculateMaxLevels 513 40 = Some 6 /\
  jpeg2000_htj2k_calculateMaxLevels 5 9 = Some 3 /\
  (* outside the first hypothesis (not a uint32) the two functions differ: *)
  jpeg2000_htj2k_MagnitudeExponent (-4) = Some 0 /\ V.HT.HtLevels.mag_bits (-4) = 3.
Proof. vm_compute. repeat split; try reflexivity; discriminate. Qed.
