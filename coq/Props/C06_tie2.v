(* C06, tie by translation (second list): ojphUVLC (htj2k/openjph_cleanup_encoder.go) equals HT/HtUvlc.v ojph_uvlc, and the encoder's subbandIndex equals HT/HtLevels.v subband_index. *)
From V Require Import Common.Base Gen.KernelsMore_gen Tie.TieKernelsMoreJ2K.

Theorem C06_tie2_ojphUVLC : forall code, uvlc_tuple (jpeg2000_htj2k_ojphUVLC code) = HU.ojph_uvlc code.
Proof. exact tie_ojphUVLC. Qed.
Print Assumptions C06_tie2_ojphUVLC.

Theorem C06_tie2_j2k_subbandIndex_ht : forall l r b, jpeg2000_subbandIndex l r b = HL.subband_index l r b.
Proof. exact tie_j2k_subbandIndex_ht. Qed.
Print Assumptions C06_tie2_j2k_subbandIndex_ht.

Example C06_tie2_instance : uvlc_tuple (jpeg2000_htj2k_ojphUVLC 40) = (0, 3, 31, 5, 1, 4).
Proof. vm_compute. reflexivity. Qed.
