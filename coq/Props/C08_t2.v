(* C08 — no decoder panics: the JPEG 2000 tier-2 packet layer (area t2).
   Property theorems only.  Models: T2/T2Bio.v (bioReader), T2/T2TagTree.v (TagTree.Decode,
   DecodeInclusion, DecodeZeroBitPlanes), T2/T2Header.v (parsePacketHeaderMulti and its codes),
   T2/T2Packets.v (decodePacket, the five packet loops).  In the models every slice index
   of the Go code is an explicit check that yields Panic, every loop has fuel with the
   distinguished result OutOfFuel; `good P o` says: o is Ok a with P a, or Err - never Panic,
   never OutOfFuel. *)
From V Require Import Common.Base T2.T2Bio T2.T2TagTree T2.T2Header T2.T2Packets
  T2.T2ProofsStore T2.T2ProofsSafe T2.T2ProofsSafe2.

(* parsePacketHeaderMulti: for ANY bytes, any layer number, any TERMALL switch, any list of
   bands (any grid sizes incl. <= 0, any position lists incl. positions outside the grid, any
   CodeBlockState values, any number of states) whose stored tag trees are well-formed
   (band_wf: whatever NewTagTree built and Decode changed), the parser returns Ok or Err,
   consumes between 0 and len(data) bytes, and leaves bands satisfying band_wf again. *)
Theorem C08_t2_packet_parser_no_panic : forall data layer bands termAll, Forall band_wf bands ->
  good (fun res => let '(bytesRead, _, _, bands') := res in
                   0 <= bytesRead <= zlen data /\ Forall band_wf bands')
       (parse_header data layer bands termAll).
Proof. exact packet_parser_no_panic. Qed.
Print Assumptions C08_t2_packet_parser_no_panic.

Example C08_t2_packet_parser_nonvacuous :
  let b := {| dbn_w := 3; dbn_h := 2; dbn_pos := [(0, 0); (7, 7); (2, 1)]; dbn_incl := Some (tt_new 3 2);
              dbn_zbp := None; dbn_states := Some [dblock_init] |} in
  Forall band_wf [b] /\
  parse_header [255; 255; 255] 70000 [b] true = Err /\
  (exists bands', parse_header [200; 0; 7] 0 [b] false = Ok (1, true, [dincl_skip; dincl_skip], bands')).
Proof.
  cbv zeta. split.
  - constructor; [|constructor]. split; cbn [dbn_incl dbn_zbp]; intros t E; inversion E; subst. apply tt_new_wf.
  - split; [vm_compute; reflexivity | eexists; vm_compute; reflexivity].
Qed.

(* TagTree.Decode (and with it DecodeInclusion / DecodeZeroBitPlanes): any well-formed tree -
   any node values, lower bounds and unset flags -, any reader state with 0 <= ct <= 8, any
   position (also outside the grid: error) and any threshold: no index leaves the node arrays,
   the loops terminate, the tree stays well-formed. *)
Theorem C08_t2_tagtree_decode_no_panic : forall t r x y thr, rd_ok r -> wf_tree t ->
  good (fun res => wf_tree (snd (fst res))) (tt_decode t r x y thr).
Proof. exact tagtree_decode_no_panic. Qed.
Print Assumptions C08_t2_tagtree_decode_no_panic.

Theorem C08_t2_tagtree_new_wf : forall w h, wf_tree (tt_new w h).
Proof. exact tt_new_wf. Qed.
Print Assumptions C08_t2_tagtree_new_wf.

Example C08_t2_tagtree_decode_nonvacuous :
  rd_ok (rd_init [37; 255; 3]) /\ wf_tree (tt_new 5 3) /\
  (exists t' r', tt_decode (tt_new 5 3) (rd_init [37; 255; 3]) 4 2 70000 = Ok (5, t', r')) /\
  tt_decode (tt_new 5 3) (rd_init [37; 255; 3]) 5 2 9 = Err /\
  tt_decode (tt_new 5 3) (rd_init [0]) 1 1 40 = Err.
Proof.
  split; [apply rd_init_ok|]. split; [apply tt_new_wf|].
  split; [eexists; eexists; vm_compute; reflexivity|]. split; vm_compute; reflexivity.
Qed.

(* The body loop of decodePacket: for ANY CodeBlockIncl list (any lengths, negative or huge),
   any tile data, any non-negative offset, strict / resilient on or off: every data[a:b] is in
   range; the offset never decreases and never passes len(data). *)
Theorem C08_t2_packet_body_no_panic : forall incs data offset strict resilient partial, 0 <= offset ->
  good (fun res => let '(_, off', _) := res in offset <= off' /\ (offset <= zlen data -> off' <= zlen data))
       (dec_body data offset strict resilient partial incs).
Proof. exact packet_body_no_panic. Qed.
Print Assumptions C08_t2_packet_body_no_panic.

(* decodePacket, and DecodePackets for every progression order: for ANY tile bytes, any
   geometry tables, any layer / resolution / component counts, any style byte, strict /
   resilient on or off - Ok or Err. *)
Theorem C08_t2_dec_packet_no_panic : forall data offset geo store termAll strict resilient it,
  0 <= offset -> store_wf store ->
  good (fun res => let '(_, off', store') := res in
          offset <= off' /\ (offset <= zlen data -> off' <= zlen data) /\ store_wf store')
       (dec_packet data offset geo store termAll strict resilient it).
Proof. exact dec_packet_no_panic. Qed.
Print Assumptions C08_t2_dec_packet_no_panic.

Theorem C08_t2_packet_decoder_no_panic : forall data order nl nr nc g dpidx geo style strict resilient,
  good (fun _ => True) (dec_packets data order nl nr nc g dpidx geo style strict resilient).
Proof. exact packet_decoder_no_panic. Qed.
Print Assumptions C08_t2_packet_decoder_no_panic.

Example C08_t2_packet_decoder_nonvacuous :
  let g := {| pg_bounds := fun _ => (0, 0, 8, 8); pg_sampling := fun _ => (1, 1); pg_precinct := fun _ => (32768, 32768) |} in
  let geo := [((0, 0, 0, 0), (2, 2, []))] in
  (exists ps, dec_packets [128; 1; 2; 3] 0 2 1 1 g (fun _ _ => [0]) geo 0 false false = Ok ps /\ length ps = 2%nat) /\
  dec_packets [255; 255; 255; 255; 255] 2 1 1 1 g (fun _ _ => [0]) geo 4 true false = Err /\
  dec_packets [128] 7 1 1 1 g (fun _ _ => [0]) geo 0 false false = Err.
Proof.
  cbv zeta. split; [eexists; split; [vm_compute; reflexivity | reflexivity]|].
  split; vm_compute; reflexivity.
Qed.
