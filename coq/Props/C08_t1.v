(* C08 for the EBCOT tier-1 block decoder (jpeg2000/t1/decoder.go) on ARBITRARY input.
   Model: T1Safe/T1sModel.v (panic-explicit; MQ / raw decisions are an arbitrary oracle list,
   sound because Props/C08_mq.v proves the entropy decoder itself in bounds for any data and any
   context sequence < len(contexts); the model tracks len(contexts), which is 0 for a raw
   decoder).  Guards = what t2/tile_decoder.go establishes: 1 <= w,h (569-571), w,h <= 1024
   (codestream/parser.go 962-964, types.go 94-98, tile_decoder.go 553-568).  style (all 64
   combinations and any other integer), orientation, data, pass lengths, pass count,
   maxBitplane, roishift, useTERMALL, lossless and the oracle are unconstrained. *)
From V Require Import Common.Base T1.T1Store T1Safe.T1sModel T1Safe.T1sProofsTop T1Safe.T1sProofsProps.

(* decodeCodeBlock's dispatch (DecodeLayeredWithMode when pass lengths are present, else
   DecodeWithBitplane; then GetData): a result or an error, never Panic, never OutOfFuel with
   fuel = number of passes + 1 *)
Theorem C08_t1_decode_total :
  forall w h orient style data lens numPasses maxbp useT bits,
  1 <= w <= 1024 -> 1 <= h <= 1024 ->
  exists r, t1s_block w h orient style data lens numPasses maxbp useT bits = Ok r \/
            t1s_block w h orient style data lens numPasses maxbp useT bits = Err.
Proof. exact t1_decode_total. Qed.
Print Assumptions C08_t1_decode_total.

(* NewT1Decoder + DecodeLayeredWithMode + GetData with every argument free, incl. roishift *)
Theorem C08_t1_layered_no_panic :
  forall w h orient style data lens maxbp roishift useT lossless bits,
  1 <= w <= 1024 -> 1 <= h <= 1024 ->
  exists r, t1s_layered w h orient style data lens maxbp roishift useT lossless bits = Ok r \/
            t1s_layered w h orient style data lens maxbp roishift useT lossless bits = Err.
Proof. exact t1s_layered_no_panic. Qed.
Print Assumptions C08_t1_layered_no_panic.

(* NewT1Decoder + DecodeWithBitplane + GetData with every argument free *)
Theorem C08_t1_bitplane_no_panic :
  forall w h orient style data numPasses maxbp roishift bits,
  1 <= w <= 1024 -> 1 <= h <= 1024 ->
  exists r, t1s_bitplane w h orient style data numPasses maxbp roishift bits = Ok r \/
            t1s_bitplane w h orient style data numPasses maxbp roishift bits = Err.
Proof. exact t1s_bitplane_no_panic. Qed.
Print Assumptions C08_t1_bitplane_no_panic.

(* instances of the hypotheses: a lazy+termall+segsym block with inconsistent pass lengths and a
   hostile maxBitplane; the model really runs to a result / an error there *)
Example C08_t1_nonvacuous_ok :
  1 <= 5 <= 1024 /\ 1 <= 9 <= 1024 /\
  t1s_class (t1s_block 5 9 3 37 [255; 255; 0; 17] [1; 1; 2; 2; 3; 4; 4] 0 40 true
                       [1; 1; 0; 1; 0; 0; 1; 1; 1; 0; 1; 1]) = Ok 656.
Proof. split; [lia|]. split; [lia|]. vm_compute. reflexivity. Qed.

Example C08_t1_nonvacuous_err :
  1 <= 64 <= 1024 /\ 1 <= 64 <= 1024 /\
  t1s_class (t1s_layered 64 64 1 1 [1; 2; 3] [2; 1; 9] 9 0 false false [1; 1; 1]) = Err.
Proof. split; [lia|]. split; [lia|]. vm_compute. reflexivity. Qed.

Example C08_t1_nonvacuous_bitplane :
  1 <= 1024 <= 1024 /\ 1 <= 4 <= 1024 /\
  t1s_class (t1s_bitplane 1024 4 2 63 [0] 3 1000 5 [1; 1; 1; 1; 1; 1; 1]) = Ok 6150868.
Proof. split; [lia|]. split; [lia|]. vm_compute. reflexivity. Qed.

(* ---- the part of the composition that lives in the MQ area, instantiated for T1 ---- *)
From V Require Import MQ.MqModel MQ.MqProofs MQ.MqProofsDec T1Safe.T1sProofsMq.

(* one codeword segment on the real MQ decoder model: fresh decoder on any bytes with 19 valid
   context states, any interleaving of Decode(ctx < 19) and RawDecode(): all indices in range *)
Theorem C08_t1_mq_segment_in_bounds : forall data cx ops,
  Forall cx_ok cx -> zlen cx = 19 ->
  Forall (fun o => fst o = 0 -> 0 <= snd o < 19) ops ->
  exists d0 d' bits, dec_new_cx data cx = Ok d0 /\
    dec_mixed_list d0 ops = Ok (d', bits) /\ dec_inv data d' /\
    length bits = length ops /\ 0 <= d_bp d' <= zlen data.
Proof. exact t1s_mq_segment_in_bounds. Qed.
Print Assumptions C08_t1_mq_segment_in_bounds.

(* ReinitAfterTermination / ResetContexts / SetContextState between passes keep the invariant *)
Theorem C08_t1_mq_reinit_inv : forall data d c ct cx',
  dec_inv data d -> Forall cx_ok cx' ->
  dec_inv data (mkDec 32768 c ct (d_eos d) (d_bp d) (d_dlen d) (d_cur d) (d_rest d) cx').
Proof. exact t1s_mq_reinit_inv. Qed.
Print Assumptions C08_t1_mq_reinit_inv.

Theorem C08_t1_init_contexts_ok : Forall cx_ok t1s_init_cx /\ zlen t1s_init_cx = 19.
Proof. exact t1s_init_cx_ok. Qed.
Print Assumptions C08_t1_init_contexts_ok.

Example C08_t1_mq_segment_nonvacuous :
  zlen t1s_init_cx = 19 /\
  Forall (fun o => fst o = 0 -> 0 <= snd o < 19) [(0, 17); (0, 18); (1, 0); (0, 9); (1, 5)] /\
  exists d0 r, dec_new_cx [255; 143; 7] t1s_init_cx = Ok d0 /\
               dec_mixed_list d0 [(0, 17); (0, 18); (1, 0); (0, 9); (1, 5)] = Ok r /\
               length (snd r) = 5%nat.
Proof.
  split; [reflexivity|]. split.
  - repeat constructor; cbn [fst snd]; intros; try lia; try discriminate.
  - eexists. eexists. split; [vm_compute; reflexivity|]. split; [vm_compute; reflexivity|]. reflexivity.
Qed.

(* the size guard is needed: without tile_decoder.go 569-571 NewT1Decoder panics in make()
   (replayed on Go: t1.NewT1Decoder(-3, 4, 0) -> "makeslice: len out of range") *)
Example C08_t1_size_guard_needed :
  t1s_class (t1s_bitplane (-3) 4 0 0 [0] 1 1 0 []) = Panic.
Proof. vm_compute. reflexivity. Qed.
