(* C07 — JPEG-LS near-lossless bound (jpegls/nearlossless). Property theorems only. *)
From V Require Import Common.Base JpegLS.JlsParams JpegLS.JlsGolomb JpegLS.JlsRun JpegLS.JlsModel.
From V Require Import JpegLS.JlsProofsParams JpegLS.JlsProofsGolomb JpegLS.JlsProofsWriter JpegLS.JlsProofsSample
                      JpegLS.JlsProofsNear0 JpegLS.JlsProofsLine JpegLS.JlsProofsStream JpegLS.JlsProofsTotal.

(* Whole image, byte level: for every image, precision 2..16 and NEAR in 0..min(255, MAXVAL/2)
   the decoder model returns, from the encoder model's stream, samples recon with
   |recon_i - source_i| <= NEAR and 0 <= recon_i <= 2^P - 1, reports the NEAR requested and the
   original width, height, component count and precision. *)
Theorem C07_bound : forall w h comps P near pixelData stream lim,
  w * h * comps <= lim -> near <= near_max P ->
  zlen (pixelsToIntegers P pixelData) = w * h * comps ->
  Forall (in_range P) (pixelsToIntegers P pixelData) ->
  jlsn_encode w h comps P near pixelData = Ok stream ->
  exists recon,
    jlsn_decode lim stream = Ok (mkDecoded (integersToPixels P (2 ^ P - 1) recon) w h comps P near) /\
    Forall2 (near_close near) (pixelsToIntegers P pixelData) recon /\ Forall (in_range P) recon.
Proof. exact jlsn_bound. Qed.
Print Assumptions C07_bound.

(* NEAR = 0 is exact *)
Theorem C07_near0_exact : forall w h comps P pixelData stream lim,
  w * h * comps <= lim ->
  zlen (pixelsToIntegers P pixelData) = w * h * comps ->
  Forall (in_range P) (pixelsToIntegers P pixelData) ->
  jlsn_encode w h comps P 0 pixelData = Ok stream ->
  jlsn_decode lim stream =
  Ok (mkDecoded (integersToPixels P (2 ^ P - 1) (pixelsToIntegers P pixelData)) w h comps P 0).
Proof. exact jlsn_near0_exact. Qed.
Print Assumptions C07_near0_exact.

(* the encoder does not fail on any well-formed call *)
Theorem C07_encode_total : forall w h comps P near pixelData,
  1 <= w <= 65535 -> 1 <= h <= 65535 -> comps = 1 \/ comps = 3 -> 2 <= P <= 16 -> 0 <= near <= 255 ->
  w * h * comps * Z.quot (P + 7) 8 <= zlen pixelData ->
  exists stream, jlsn_encode w h comps P near pixelData = Ok stream.
Proof. intros. apply encode_total; assumption. Qed.
Print Assumptions C07_encode_total.

(* one regular-mode sample, every context, every precision and NEAR: quantisation, modulo
   reduction, clamp; the decoder's reconstruction is what the encoder stores (so later
   neighbours agree) and both make the same context update *)
Theorem C07_sample_near : forall P near store c qs ra rb rc x rest ops c' stored,
  2 <= P <= 16 -> 0 <= near <= near_max P -> 0 <= x <= 2 ^ P - 1 ->
  regular_enc PkNear store (jls_params P near) c qs ra rb rc x = (ops, c', stored) ->
  exists x',
    regular_dec (jls_params P near) c qs ra rb rc (ops_bits ops ++ rest) = Some (x', c', rest) /\
    Z.abs (x' - x) <= near /\ 0 <= x' <= 2 ^ P - 1 /\
    stored = (if store then x' else x) /\ Forall wop_ok ops.
Proof. exact sample_near. Qed.
Print Assumptions C07_sample_near.

(* non-vacuity: NEAR = 3 at 8 bits with samples within NEAR of 0 and of MAXVAL, and the
   largest NEAR of a precision *)
Example C07_nonvacuous :
  3 <= near_max 8 /\ Forall (in_range 8) (pixelsToIntegers 8 [0; 2; 253; 255; 100; 107; 3; 252; 1]) /\
  (exists s, jlsn_encode 3 3 1 8 3 [0; 2; 253; 255; 100; 107; 3; 252; 1] = Ok s /\
             jlsn_decode 1000 s = Ok (mkDecoded [0; 0; 252; 252; 98; 105; 0; 252; 0] 3 3 1 8 3)).
Proof.
  split; [vm_compute; discriminate|]. split.
  - apply in_range_forallb; vm_compute; reflexivity.
  - eexists. split; [vm_compute; reflexivity|]. vm_compute. reflexivity.
Qed.

Example C07_nonvacuous_nearmax : near_max 4 = 7 /\
  (exists s d, jlsn_encode 2 1 1 4 7 [0; 15] = Ok s /\ jlsn_decode 1000 s = Ok d /\ dc_near d = 7 /\
               Forall2 (near_close 7) [0; 15] (dc_pixels d)).
Proof.
  split; [reflexivity|]. eexists. eexists. split; [vm_compute; reflexivity|]. split; [vm_compute; reflexivity|].
  split; [reflexivity|]. repeat constructor; unfold near_close; vm_compute; discriminate.
Qed.
