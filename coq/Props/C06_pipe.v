(* C06 — HTJ2K lossless, the composed tile path: sample codec, RCT, 5/3 DWT, band / code-block
   geometry, HT cleanup block coder with its Kmax / missing-MSB signalling, T2 packets, and back.
   Property theorems only.

   MODEL: PipeHT/PhtModel.v = Pipe/PipeModel.v with the block-coder dependent parts of
   jpeg2000.Encoder / t2.TileDecoder replaced as HTJ2KMode replaces them (no `<<= 6`, bandNumbps from
   the OpenJPH quantisation, one cleanup pass, zero bit planes = Kmax - 1, HTEncoder / HTDecoder,
   no `/= 2`).  Tied to Go by harness/suites/pipeht (exported API only): the model DECODER returns
   what the Go decoder returns on the tile-part bodies of every Go HTJ2K codestream; per code-block
   (zero bit planes, passes, bytes) model = Go on every case; the model ENCODER's tile bytes = the
   Go tile-part bodies on every case without an all-zero code-block (with one, Go's HTJ2K packet
   header coder, which is not modelled, writes different headers).

   THEOREM:
     C06_pipe_ht_roundtrip_partial   for every parameter tuple in pht_scope (1 <= w, h <= 32768,
        1..4 components, precision 1..16, signed or not, 0..6 levels, code-block sizes 4..64 with
        area <= 4096, MCT on or off, progression LRCP / RLCP / RPCL; one tile, one layer, default
        precincts) and every sample array in range: pht_decode_tile (pht_encode_tile image) = image,
        under three named hypotheses:
          hyp_kmax_fit        every wavelet coefficient has at most Kmax magnitude bits (Kmax of its
                              band as Encoder.bandNumbps computes it)
          hyp_no_zero_block   no code-block of the tile is all-zero
          hyp_ht_block_sizes  no HT code-block is longer than 65535 bytes
     C06_pipe_ht_decode_given_delivery   the decoder half for ANY tile bytes and WITHOUT the
        no-zero-block restriction, with the tier-2 transport as the hypothesis hyp_t2_delivers:
        if DecodePackets / gatherCBData on the tile bytes deliver every non-zero code-block as
        encodeCodeBlock made it (HT bytes, 1 pass, Kmax - 1 zero bit planes) and nothing for the
        all-zero code-blocks, then pht_decode_tile returns the image (HT block decoder with
        Kmax / missing MSBs from the QCD, all-zero convention, geometry, inverse DWT, inverse RCT,
        sample packing).  The instance below is the tile the Go HTJ2K encoder writes for a constant
        image (three all-zero code-blocks, one EMPTY packet).
     C06_pipe_ht_hyps_checker_sound   the extracted checker PhtHyps.pht_hyps, which the suite runs on
        every generated image with the tile bytes the GO encoder wrote, is sound for the four
        hypotheses: a reported 1 implies the hypothesis (so hyp_kmax_fit, hyp_ht_block_sizes and
        hyp_t2_delivers are established for every generated case, not assumed).
     C06_pipe_ht_kmax_fit_levels0, C06_pipe_ht_roundtrip_partial2_levels0,
     C06_pipe_ht_decode_given_delivery2_levels0
        hyp_kmax_fit is a THEOREM for zero decomposition levels (level-shifted samples within 2^(P-1),
        RCT outputs within 2^P, Kmax = P resp. P + 1), so both theorems hold there without it.
     C06_pipe_ht_growth_bound_insufficient
        why the coefficient-range argument of the MQ pipeline (C04_pipe_coefficients_fit, from the
        multilevel growth bound 231 * A + 227) cannot discharge hyp_kmax_fit for >= 1 level: for every
        precision 1..16, level count 1..6 and band that bound is >= 2^Kmax.  The general statement
        (PhtProofsKmax.pht_kmax_fit_statement) is open: it needs per-band BIBO gains of the composite
        filters plus a rounding bound; it is tight (1015 of 1023 at 8 bits, HH of depth 5). *)
From V Require Import Common.Base Pipe.PipeModel Pipe.PipeProofsFront
  PipeHT.PhtModel PipeHT.PhtHyps PipeHT.PhtProofsMain PipeHT.PhtProofsCheck PipeHT.PhtProofsDeliv PipeHT.PhtProofsDelivCheck
  PipeHT.PhtProofsHyps PipeHT.PhtProofsKmax PipeHT.PhtProofsDwt1 PipeHT.PhtProofsKmax1.
Require V.HT.HtProofsLevels V.HT.HtProofsTables V.DWT.DwtGrowth2.

Theorem C06_pipe_ht_roundtrip_partial : forall p samples, pht_scope p -> samples_ok p samples ->
  let pix := pack_image p samples in
  hyp_kmax_fit p pix -> hyp_no_zero_block p pix -> hyp_ht_block_sizes p pix ->
  exists tile, pht_encode_tile p pix = Ok tile /\ pht_decode_tile p tile = Ok pix.
Proof. exact pht_roundtrip_partial. Qed.
Print Assumptions C06_pipe_ht_roundtrip_partial.

(* a 4x4 8-bit image, one decomposition level, RPCL: all hypotheses hold and the tile is 43 bytes *)
Example C06_pipe_ht_nonvacuous :
  let p := mkPP 4 4 1 8 false 1 4 4 false 2 0 0 4 in
  let s := [200; 3; 77; 140; 9; 250; 31; 66; 120; 5; 180; 91; 17; 230; 44; 101] in
  pht_scope p /\ samples_ok p s /\
  hyp_kmax_fit p (pack_image p s) /\ hyp_no_zero_block p (pack_image p s) /\ hyp_ht_block_sizes p (pack_image p s) /\
  pht_encode_tile p (pack_image p s) =
    Ok [192; 42; 0; 170; 117; 224; 241; 0; 66; 148; 0; 192; 42; 32; 21; 16; 10; 144; 96; 33; 43; 250; 0; 66; 148; 0; 66;
        10; 71; 230; 0; 65; 148; 0; 226; 194; 242; 34; 242; 0; 129; 148; 0].
Proof.
  cbv zeta.
  split. { split; [|cbn; lia]. unfold pp_scope, pow2_size. cbn. repeat split; auto; lia. }
  split. { split; [reflexivity|]. repeat constructor; cbn; lia. }
  rewrite <- and_assoc, <- and_assoc. split; [|vm_compute; reflexivity].
  rewrite and_assoc.
  apply (hyps_by_computation _ _ [[22; -65; 49; 87; -54; -8; 34; -41; 34; 8; 370; 48; 70; -13; 345; 146]]);
    vm_compute; reflexivity.
Qed.

(* three components with RCT, zero levels *)
Example C06_pipe_ht_nonvacuous_rct :
  let p := mkPP 3 2 3 8 false 0 4 4 true 2 0 0 3 in
  let s := [200; 3; 77; 140; 9; 250; 31; 66; 120; 5; 180; 91; 17; 230; 44; 101; 7; 99] in
  pht_scope p /\ samples_ok p s /\
  hyp_kmax_fit p (pack_image p s) /\ hyp_no_zero_block p (pack_image p s) /\ hyp_ht_block_sizes p (pack_image p s).
Proof.
  cbv zeta.
  split. { split; [|cbn; lia]. unfold pp_scope, pow2_size. cbn. repeat split; auto; lia. }
  split. { split; [reflexivity|]. repeat constructor; cbn; lia. }
  apply (hyps_by_computation _ _ [[-58; -26; -58; -14; 2; -75]; [74; 241; 54; -89; -186; 92]; [197; 131; -35; -175; -213; 94]]);
    vm_compute; reflexivity.
Qed.

Theorem C06_pipe_ht_decode_given_delivery : forall p samples tile, pht_scope p -> samples_ok p samples ->
  let pix := pack_image p samples in
  hyp_kmax_fit p pix -> hyp_t2_delivers p pix tile ->
  pht_decode_tile p tile = Ok pix.
Proof. exact pht_decode_given_delivery. Qed.
Print Assumptions C06_pipe_ht_decode_given_delivery.

(* the constant 4x4 image 200, one level, RPCL: the tile-part bodies of the Go HTJ2K codestream
   (c02a000e4747c70081b400 | 00); HL, LH, HH are all-zero blocks, the second packet is empty *)
Example C06_pipe_ht_delivery_nonvacuous :
  let p := mkPP 4 4 1 8 false 1 4 4 false 2 0 0 4 in
  let s := repeat 200 16 in
  let tile := [192; 42; 0; 14; 71; 71; 199; 0; 129; 180; 0; 0] in
  pht_scope p /\ samples_ok p s /\ hyp_kmax_fit p (pack_image p s) /\ hyp_t2_delivers p (pack_image p s) tile /\
  ~ hyp_no_zero_block p (pack_image p s) /\
  pht_decode_tile p tile = Ok (pack_image p s).
Proof.
  cbv zeta.
  assert (Ec : pipe_coeffs (mkPP 4 4 1 8 false 1 4 4 false 2 0 0 4) (pack_image (mkPP 4 4 1 8 false 1 4 4 false 2 0 0 4) (repeat 200 16))
               = Ok [[72; 72; 0; 0; 72; 72; 0; 0; 0; 0; 0; 0; 0; 0; 0; 0]]) by (vm_compute; reflexivity).
  split. { split; [|cbn; lia]. unfold pp_scope, pow2_size. cbn. repeat split; auto; lia. }
  split. { split; [reflexivity|]. repeat constructor; cbn; lia. }
  split. { intros c Ec'. rewrite Ec in Ec'. injection Ec' as <-. apply kmax_fit_b_ok. vm_compute. reflexivity. }
  split. { apply (t2_delivers_b_ok _ _ _ _ Ec). vm_compute. reflexivity. }
  split; [|vm_compute; reflexivity].
  intros H. specialize (H _ Ec).
  assert (Hb : no_zero_block_b (mkPP 4 4 1 8 false 1 4 4 false 2 0 0 4) [[72; 72; 0; 0; 72; 72; 0; 0; 0; 0; 0; 0; 0; 0; 0; 0]] = false)
    by (vm_compute; reflexivity).
  unfold no_zero_block in H.
  (* the HL block of resolution 1 is all-zero *)
  assert (Hin : In (1, GeoModel.mkBlock 2 0 2 2 0 0 1 [0; 0; 0; 0])
                   (enc_blocks (mkPP 4 4 1 8 false 1 4 4 false 2 0 0 4) [72; 72; 0; 0; 72; 72; 0; 0; 0; 0; 0; 0; 0; 0; 0; 0])).
  { vm_compute. auto 6. }
  destruct (H _ (or_introl eq_refl) _ _ Hin) as [v [Hv Hn]]. cbn in Hv. intuition.
Qed.

Theorem C06_pipe_ht_hyps_checker_sound : forall p pix tile k z s t, pht_hyps p pix tile = Ok (k, z, s, t) ->
  (k = true -> hyp_kmax_fit p pix) /\ (z = true -> hyp_no_zero_block p pix) /\
  (s = true -> hyp_ht_block_sizes p pix) /\ (t = true -> hyp_t2_delivers p pix tile).
Proof. exact pht_hyps_sound. Qed.
Print Assumptions C06_pipe_ht_hyps_checker_sound.

Example C06_pipe_ht_hyps_checker_nonvacuous :
  let p := mkPP 4 4 1 8 false 1 4 4 false 2 0 0 4 in
  pht_hyps p (pack_image p (repeat 200 16)) [192; 42; 0; 14; 71; 71; 199; 0; 129; 180; 0; 0] = Ok (true, false, true, true) /\
  (* a damaged tile (first packet's data byte changed) is not accepted *)
  pht_hyps p (pack_image p (repeat 200 16)) [192; 42; 0; 15; 71; 71; 199; 0; 129; 180; 0; 0] = Ok (true, false, true, false).
Proof. cbv zeta. split; vm_compute; reflexivity. Qed.

Theorem C06_pipe_ht_kmax_fit_levels0 : forall p samples, pht_scope p -> pp_levels p = 0 -> samples_ok p samples ->
  hyp_kmax_fit p (pack_image p samples).
Proof. exact pht_kmax_fit_levels0. Qed.
Print Assumptions C06_pipe_ht_kmax_fit_levels0.

Theorem C06_pipe_ht_roundtrip_partial2_levels0 : forall p samples, pht_scope p -> pp_levels p = 0 -> samples_ok p samples ->
  let pix := pack_image p samples in
  hyp_no_zero_block p pix -> hyp_ht_block_sizes p pix ->
  exists tile, pht_encode_tile p pix = Ok tile /\ pht_decode_tile p tile = Ok pix.
Proof. exact pht_roundtrip_partial2_levels0. Qed.
Print Assumptions C06_pipe_ht_roundtrip_partial2_levels0.

Theorem C06_pipe_ht_decode_given_delivery2_levels0 : forall p samples tile, pht_scope p -> pp_levels p = 0 -> samples_ok p samples ->
  let pix := pack_image p samples in
  hyp_t2_delivers p pix tile -> pht_decode_tile p tile = Ok pix.
Proof. exact pht_decode_given_delivery2_levels0. Qed.
Print Assumptions C06_pipe_ht_decode_given_delivery2_levels0.

(* the 3x2 RGB image of C06_pipe_ht_nonvacuous_rct has zero levels: scope, samples and the two
   remaining hypotheses hold *)
Example C06_pipe_ht_levels0_nonvacuous :
  let p := mkPP 3 2 3 8 false 0 4 4 true 2 0 0 3 in
  let s := [200; 3; 77; 140; 9; 250; 31; 66; 120; 5; 180; 91; 17; 230; 44; 101; 7; 99] in
  pht_scope p /\ pp_levels p = 0 /\ samples_ok p s /\
  hyp_no_zero_block p (pack_image p s) /\ hyp_ht_block_sizes p (pack_image p s).
Proof.
  destruct C06_pipe_ht_nonvacuous_rct as (A & B & _ & C & D). cbv zeta.
  split; [exact A|]. split; [reflexivity|]. split; [exact B|]. split; [exact C | exact D].
Qed.

Theorem C06_pipe_ht_growth_bound_insufficient : forall rct,
  forallb (fun P => forallb (fun L => forallb (fun idx =>
      2 ^ HtProofsLevels.kmax_of L P rct idx <=? 231 * 2 ^ (P - 1) + 227) (HtProofsTables.zrange 0 (3 * L)))
    (HtProofsTables.zrange 1 6)) (HtProofsTables.zrange 1 16) = true.
Proof. exact growth_bound_above_kmax. Qed.
Print Assumptions C06_pipe_ht_growth_bound_insufficient.
Example C06_pipe_ht_growth_bound_instance :
  HtProofsLevels.kmax_of 5 8 false 3 = 10 /\ 2 ^ 10 <= 231 * 2 ^ (8 - 1) + 227 /\ 231 * 2 ^ (8 - 1) + 227 = 29795.
Proof. repeat split; vm_compute; try reflexivity; intro; discriminate. Qed.

(* ---- one decomposition level (tile origin (0,0)): hyp_kmax_fit is a theorem ----
   Samples in the two's-complement range [-A, A-1] (A = 2^(P-1); 2^P for the planes after the RCT)
   go through one level of the 5/3 transform as coded (floors of predict / update included) to
   coefficients within +-(4A - 2) (PhtProofsDwt1.fwd53_ml1_ab), and every band of a one-level
   decomposition has Kmax = P + 1 (P + 2 with the RCT bit), so |c| <= 4A - 2 < 2^Kmax. *)
Theorem C06_pipe_ht_kmax_fit_levels1 : forall p samples, pht_scope p -> pp_levels p = 1 -> pp_x0 p = 0 -> pp_y0 p = 0 ->
  samples_ok p samples -> hyp_kmax_fit p (pack_image p samples).
Proof. exact pht_kmax_fit_levels1. Qed.
Print Assumptions C06_pipe_ht_kmax_fit_levels1.

Theorem C06_pipe_ht_roundtrip_partial2_levels1 : forall p samples, pht_scope p -> pp_levels p = 1 -> pp_x0 p = 0 -> pp_y0 p = 0 ->
  samples_ok p samples ->
  let pix := pack_image p samples in
  hyp_no_zero_block p pix -> hyp_ht_block_sizes p pix ->
  exists tile, pht_encode_tile p pix = Ok tile /\ pht_decode_tile p tile = Ok pix.
Proof. exact pht_roundtrip_partial2_levels1. Qed.
Print Assumptions C06_pipe_ht_roundtrip_partial2_levels1.

Theorem C06_pipe_ht_decode_given_delivery2_levels1 : forall p samples tile, pht_scope p -> pp_levels p = 1 -> pp_x0 p = 0 -> pp_y0 p = 0 ->
  samples_ok p samples ->
  let pix := pack_image p samples in
  hyp_t2_delivers p pix tile -> pht_decode_tile p tile = Ok pix.
Proof. exact pht_decode_given_delivery2_levels1. Qed.
Print Assumptions C06_pipe_ht_decode_given_delivery2_levels1.

(* the one-level DWT bound itself *)
Theorem C06_dwt53_one_level_asym_bound : forall A d w h, 1 <= A -> abnd A d ->
  DwtGrowth.bnd (4 * A - 2) (DwtModel.fwd53_ml d w h 1 0 0).
Proof. exact fwd53_ml1_ab. Qed.
Print Assumptions C06_dwt53_one_level_asym_bound.

(* the 4x4 one-level image of C06_pipe_ht_nonvacuous (origin (0,0)) and the constant image with the
   Go-written tile of C06_pipe_ht_delivery_nonvacuous are instances; the bound 4A - 2 is attained
   by the HH coefficient of the 2x2 checkerboard of extreme samples *)
Example C06_pipe_ht_levels1_nonvacuous :
  let p := mkPP 4 4 1 8 false 1 4 4 false 2 0 0 4 in
  let s := [200; 3; 77; 140; 9; 250; 31; 66; 120; 5; 180; 91; 17; 230; 44; 101] in
  pht_scope p /\ pp_levels p = 1 /\ pp_x0 p = 0 /\ pp_y0 p = 0 /\ samples_ok p s /\
  hyp_no_zero_block p (pack_image p s) /\ hyp_ht_block_sizes p (pack_image p s) /\
  hyp_t2_delivers p (pack_image p (repeat 200 16)) [192; 42; 0; 14; 71; 71; 199; 0; 129; 180; 0; 0] /\
  abnd 128 [127; -128; -128; 127] /\ DwtModel.fwd53_ml [127; -128; -128; 127] 2 2 1 0 0 = [0; 0; 0; 510] /\ 4 * 128 - 2 = 510.
Proof.
  destruct C06_pipe_ht_nonvacuous as (A & B & _ & C & D & _).
  destruct C06_pipe_ht_delivery_nonvacuous as (_ & _ & _ & E & _).
  cbv zeta.
  split; [exact A|]. split; [reflexivity|]. split; [reflexivity|]. split; [reflexivity|]. split; [exact B|].
  split; [exact C|]. split; [exact D|]. split; [exact E|].
  split; [repeat constructor; lia|]. split; vm_compute; reflexivity.
Qed.

(* why the one-level argument does not iterate: the level-by-level composition of the per-pass
   bounds (LL window of a level within Lb (Lb B), Lb a = (3a+1)/2; the other bands within 4 B) is
   already >= 2^Kmax for the HH band of depth 2, for every precision 1..16 *)
Theorem C06_pipe_ht_level_recursion_insufficient : forall rct,
  forallb (fun P => 2 ^ HtProofsLevels.kmax_of 2 P rct 3 <=?
                    4 * DwtGrowth2.Lb (DwtGrowth2.Lb (2 ^ (HtProofsLevels.prec_of P rct - 1))))
          (HtProofsTables.zrange 1 16) = true.
Proof. exact level_recursion_insufficient. Qed.
Print Assumptions C06_pipe_ht_level_recursion_insufficient.
Example C06_pipe_ht_level_recursion_instance :
  HtProofsLevels.kmax_of 2 8 false 3 = 10 /\ 4 * DwtGrowth2.Lb (DwtGrowth2.Lb 128) = 1152 /\ 2 ^ 10 <= 1152.
Proof. repeat split; vm_compute; try reflexivity; intro; discriminate. Qed.
