(* C20, tie by translation (third list): the generated body of jpeg2000/t1 getMagRefinementContext equals T1Ctx.mr_ctx (the magnitude-refinement context of the T1 model, T1Model enc/dec refinement pass; T1CtxProofs.mr_ctx_matches_annexD relates it to Table D.4) for ALL flag words. *)
From V Require Import Common.Base Gen.KernelsMore_gen Tie.TieKernelsMore2J2K.
Require V.T1.T1Ctx.

Theorem C20_tie3_getMagRefinementContext : forall flags,
  jpeg2000_t1_getMagRefinementContext flags = V.T1.T1Ctx.mr_ctx flags.
Proof. exact tie_t1_getMagRefinementContext. Qed.
Print Assumptions C20_tie3_getMagRefinementContext.

Example C20_tie3_instance :
  jpeg2000_t1_getMagRefinementContext 0 = 14 /\ jpeg2000_t1_getMagRefinementContext 16 = 15 /\
  jpeg2000_t1_getMagRefinementContext 18 = 16 /\ jpeg2000_t1_getMagRefinementContext 2 = 16.
Proof. vm_compute. repeat split; reflexivity. Qed.
