(* C02 (extension) — standard.BuildOptimalHuffmanTable for ANY 256-entry frequency vector: the
   alphabet-size restriction of C02_build_table_ok (counters zero outside categories 0..16) is
   removed.  Property theorems only. *)
From V Require Import Common.Base JpegLL.JllBits JpegLL.JllHuff JpegLL.JllModel JpegLL.JllT81
  JpegLL.JllProofsBits JpegLL.JllProofsHuff JpegLL.JllProofs JpegLL.JllProofsOpt JpegLL.JllProofsOpt2
  JpegLL.JllProofsOpt3 JpegLL.JllProofsOptG1 JpegLL.JllProofsOptG2 JpegLL.JllProofsOptG3.

(* For ANY 256 non-negative counters with sum < 2^63 and some non-zero entry,
   BuildOptimalHuffmanTable (merge loop with pseudo symbol 256, others-chains, the libjpeg
   256 -> 16 length limiting, removal of the pseudo symbol) returns - no index out of range,
   no exhaustion of the model's loop fuel - a valid canonical table (16 byte counts, Kraft sum
   <= 1, distinct byte symbols, as many symbols as codes) that contains every symbol with a
   non-zero count. *)
Theorem C02_optgen_build_table_ok : forall freqs, freqs_gen freqs ->
  (exists i, 0 <= i < 256 /\ znth freqs i 0 <> 0) ->
  exists bits vals, build_optimal freqs = Ok (bits, vals) /\ t81_table_ok bits vals = true /\
    (forall i, 0 <= i < 256 -> znth freqs i 0 <> 0 -> In i vals).
Proof. exact build_optimal_gen_ok. Qed.
Print Assumptions C02_optgen_build_table_ok.

(* ... the same including the final `_ = table.Build()` of the Go function *)
Theorem C02_optgen_build_with_Build : forall freqs, freqs_gen freqs ->
  (exists i, 0 <= i < 256 /\ znth freqs i 0 <> 0) ->
  exists bits vals, build_optimal_table freqs = Ok (bits, vals) /\ t81_table_ok bits vals = true /\
    (forall i, 0 <= i < 256 -> znth freqs i 0 <> 0 -> In i vals).
Proof. exact build_optimal_table_gen_ok. Qed.
Print Assumptions C02_optgen_build_with_Build.

(* the statement left open in JllProofsOpt3 (build_optimal_no_panic_statement), also for the
   all-zero vector: never Panic, never OutOfFuel *)
Theorem C02_optgen_no_panic : forall freqs, freqs_gen freqs -> exists bv, build_optimal freqs = Ok bv.
Proof. exact build_optimal_no_panic. Qed.
Print Assumptions C02_optgen_no_panic.

(* The length-limiting loop alone, on ANY vector of 257 counts >= 0 with bits[0] = 0, at most 257
   codes and Kraft equality sum_l bits[l] * 2^(256-l) = 2^256: `for bits[j] == 0 { j-- }` stops at
   a j >= 1, no count becomes negative, the fuel suffices, and the result has the same number of
   codes, the same Kraft sum and nothing above length 16. *)
Theorem C02_optgen_limit_all_ok : forall N l, linv N l 256 ->
  exists l', limit_all sizes_hi l = Ok l' /\ linv N l' 16.
Proof. exact limit_all_ok. Qed.
Print Assumptions C02_optgen_limit_all_ok.

(* the merge loop delivers Kraft-complete code sizes for any counters *)
Theorem C02_optgen_merge_kraft : forall freqs, freqs_gen freqs ->
  (exists i, 0 <= i < 256 /\ znth freqs i 0 <> 0) ->
  exists cs, merge_loop 258 (freq0 freqs) (repeat 0 257) (repeat (-1) 257) = Ok cs /\ sizes256_ok cs freqs.
Proof. exact merge_result_kraft. Qed.
Print Assumptions C02_optgen_merge_kraft.

(* ---------- non-vacuity ---------- *)
(* 40 symbols (not the categories 0..16: symbols 100..139) with counts 2^0 .. 2^39: the optimal
   tree is 40 deep, so the limiting loop really runs (two codes of length 40 before it), and the
   hypotheses hold *)
Definition pow_freqs : list Z := repeat 0 100 ++ map (fun k => 2 ^ k) (seqZ 0 40) ++ repeat 0 116.

Example C02_optgen_nonvacuous :
  freqs_gen pow_freqs /\ (exists i, 0 <= i < 256 /\ znth pow_freqs i 0 <> 0) /\
  ~ freqs_ok pow_freqs /\
  (exists cs bits, merge_loop 258 (freq0 pow_freqs) (repeat 0 257) (repeat (-1) 257) = Ok cs /\
     count_sizes cs (repeat 0 257) = Ok bits /\ znth bits 40 0 = 2 /\ linv 41 bits 256) /\
  build_optimal pow_freqs
  = Ok ([1; 1; 1; 1; 1; 1; 1; 1; 1; 1; 1; 0; 0; 0; 2; 27],
        rev (seqZ 100 40)).
Proof.
  split; [|split; [|split; [|split]]].
  - split; [reflexivity|]. split; [|vm_compute; reflexivity].
    apply Forall_forall. intros x Hx. apply Z.leb_le. revert x Hx. apply forallb_forall. vm_compute. reflexivity.
  - exists 100. split; [lia|]. vm_compute. discriminate.
  - intros (_ & _ & H & _). specialize (H 100 ltac:(lia)). vm_compute in H. discriminate.
  - eexists. eexists. split; [vm_compute; reflexivity|]. split; [vm_compute; reflexivity|].
    split; [vm_compute; reflexivity|].
    split; [reflexivity|]. split.
    { apply Forall_forall. intros x Hx. apply Z.leb_le. revert x Hx. apply forallb_forall. vm_compute. reflexivity. }
    split; [reflexivity|]. split; [vm_compute; reflexivity|]. split; [lia|]. split; [vm_compute; reflexivity|].
    intros k Hk. apply znth_beyond. unfold zlen. cbn [length]. lia.
  - vm_compute. reflexivity.
Qed.
