(* Property-level theorems of the MQ arithmetic coder (jpeg2000/mqc), in Props format.
   The integrator merges the C20_/C16_/C08_ blocks into Props/C20.v, C16.v, C08.v. *)
From V Require Import Common.Base MQ.MqModel MQ.MqProofs MQ.MqProofsDec MQ.MqProofsRt MQ.MqProofsRt2 MQ.MqProofsTerm.

(* ====================================== C20 ====================================== *)

(* The probability tables regenerated from mqc.go are well formed: 47 entries each, every
   next-state index < 47, switch in {0,1}, 0 < Qe <= 0x5601 < 0x8000. *)
Theorem C20_mq_tables_wf : mq_tables_wf_b = true.
Proof. exact mq_tables_wf. Qed.
Print Assumptions C20_mq_tables_wf.

(* THE PROPERTY (MQ part of C20), unbounded: for any number of contexts and ANY sequence of
   (bit, context) pairs with bit in {0,1} and context < n, the decoder returns the bits given
   to the encoder.  Both machines start from fresh contexts (NewMQEncoder / NewMQDecoder). *)
Theorem C20_mq_roundtrip : forall (n : nat) (l : list (Z * Z)),
  Forall (decision_ok (Z.of_nat n)) l ->
  mq_decode n (mq_encode n l) (map snd l) = Ok (map fst l).
Proof. exact mq_roundtrip. Qed.
Print Assumptions C20_mq_roundtrip.

(* the same from any valid initial context bytes (SetContextState / NewMQDecoderWithContexts,
   as the T1 coder initialises them: 46, 3, 4) *)
Theorem C20_mq_roundtrip_cx : forall (cx : list Z) (l : list (Z * Z)),
  Forall cx_ok cx -> Forall (decision_ok (zlen cx)) l ->
  mq_decode_cx cx (mq_encode_cx cx l) (map snd l) = Ok (map fst l).
Proof. exact mq_roundtrip_cx. Qed.
Print Assumptions C20_mq_roundtrip_cx.

Example C20_mq_roundtrip_cx_nonvacuous :
  Forall cx_ok [4; 0; 0; 0; 0; 0; 0; 0; 0; 0; 0; 0; 0; 0; 0; 0; 0; 3; 46] /\
  Forall (decision_ok 19) [(1, 18); (0, 17); (1, 0); (1, 5); (0, 18)] /\
  mq_decode_cx [4; 0; 0; 0; 0; 0; 0; 0; 0; 0; 0; 0; 0; 0; 0; 0; 0; 3; 46]
    (mq_encode_cx [4; 0; 0; 0; 0; 0; 0; 0; 0; 0; 0; 0; 0; 0; 0; 0; 0; 3; 46]
       [(1, 18); (0, 17); (1, 0); (1, 5); (0, 18)]) [18; 17; 0; 5; 18] = Ok [1; 0; 1; 1; 0].
Proof.
  split; [repeat constructor; vm_compute; congruence|].
  split; [repeat constructor; cbn [fst snd]; auto; lia | vm_compute; reflexivity].
Qed.

(* BOUNDED (independent check by evaluation): all decision sequences of length <= 9 over 2 fresh contexts round-trip (complete
   enumeration inside Coq, not using the proof above). *)
Theorem C20_mq_roundtrip_bounded_9 : forall l : list (Z * Z),
  (length l <= 9)%nat -> Forall (decision_ok 2) l ->
  mq_decode 2 (mq_encode 2 l) (map snd l) = Ok (map fst l).
Proof. exact mq_roundtrip_bounded_9. Qed.
Print Assumptions C20_mq_roundtrip_bounded_9.

Example C20_mq_roundtrip_nonvacuous :
  Forall (decision_ok 2) [(1, 0); (0, 1); (1, 1); (1, 0); (0, 0)] /\
  mq_encode 2 [(1, 0); (0, 1); (1, 1); (1, 0); (0, 0)] = [175].
Proof.
  split; [|vm_compute; reflexivity].
  repeat constructor; cbn [fst snd]; auto; lia.
Qed.

