(* C11, numeric part: accuracy of the CODED integer kernels (DCTISlow / IDCTISlow, libjpeg
   jfdctint/jidctint with CONST_BITS = 13, PASS1_BITS = 2) and the unconditional per-sample
   bound for one greyscale block. *)
From Coq Require Import Reals List ZArith.
From V Require Import Common.Base Gen.JpegTables_gen JpegDCT.DctQuant JpegDCT.DctIslow JpegDCT.DctBound
  JpegDCT.DctNumDefs JpegDCT.DctNumDefsF JpegDCT.DctNumProofsI JpegDCT.DctNumProofsJ JpegDCT.DctNumProofsK
  JpegDCT.DctNumProofsL JpegDCT.DctNumProofsF JpegDCT.DctNumProofsE JpegDCT.DctNumProofsM JpegDCT.DctNumProofsN
  JpegDCT.DctNumDefsG JpegDCT.DctNumProofsG JpegDCT.DctNumProofsQ JpegDCT.DctNumProofsX.
From V Require Import JpegDCT.DctGeometry JpegDCT.DctPipeline JpegDCT.DctNumProofsImg.
Import ListNotations.

(* one 1-D pass of the coded inverse butterfly is exactly the integer matrix Mi *)
Theorem C11_idct_pass_is_matrix : forall (f : nat -> Z) n, (n < 8)%nat ->
  oget n (idct_1d ijg_consts (octf f)) = zsum8 (fun k => Mz n k * f k)%Z.
Proof. exact idct_1d_lin. Qed.
Print Assumptions C11_idct_pass_is_matrix.
Example C11_idct_pass_instance : (3 < 8)%nat /\
  oget 3 (idct_1d ijg_consts (octf (fun k => Z.of_nat k + 1)%Z)) = zsum8 (fun k => Mz 3 k * (Z.of_nat k + 1))%Z /\
  zsum8 (fun k => Mz 3 k * (Z.of_nat k + 1))%Z = (-68318)%Z.
Proof. exact ex_pass. Qed.

(* ijgDescale is round-to-nearest whenever its int32 narrowing is the identity *)
Theorem C11_descale_round : forall v s : Z, (1 <= s)%Z -> (- 2 ^ 31 <= v + 2 ^ (s - 1) < 2 ^ 31)%Z ->
  (- 2 ^ (s - 1) <= 2 ^ s * descale v s - v <= 2 ^ (s - 1))%Z.
Proof. exact descale_round. Qed.
Print Assumptions C11_descale_round.
Example C11_descale_instance : (1 <= 11)%Z /\ (- 2 ^ 31 <= 3071 + 2 ^ (11 - 1) < 2 ^ 31)%Z /\
  descale 3071 11 = 1%Z /\ descale 3072 11 = 2%Z.
Proof. exact ex_descale. Qed.

(* the coded FIX constants against the exact cosines: entry (n,k) of Mi is within MuT/10000 of
   2^13 * sqrt 8 * C(k)/2 * cos((2n+1) k pi / 16)   (interval arithmetic) *)
Theorem C11_fix_consts_vs_cos : forall n k, (n < 8)%nat -> (k < 8)%nat ->
  (Rabs (IZR (Mz n k) - A1 n k) <= IZR (muz n k) / 10000)%R.
Proof. exact mu_bound. Qed.
Print Assumptions C11_fix_consts_vs_cos.
Example C11_fix_consts_instance : (1 < 8)%nat /\ (3 < 8)%nat /\ Mz 1 3 = (-2259)%Z /\ muz 1 3 = 11679%Z.
Proof. repeat split; repeat constructor. Qed.

(* inverse kernel against the exact real IDCT: di0(B) = 1/2 + 61214/2^19 + B * kappa *)
Theorem C11_idct_islow_accuracy : forall (coef qt : list Z) (B : Z),
  length coef = 64%nat -> length qt = 64%nat -> (0 <= B <= 1173)%Z ->
  (forall k, (k < 64)%nat -> (Z.abs (nth k coef 0%Z * nth k qt 0%Z) <= B)%Z) ->
  forall y x, (y < 8)%nat -> (x < 8)%nat ->
  (Rabs (IZR (nth (8 * y + x) (idct_islow coef qt) 0%Z)
         - clampR (exact_idct (fun k => IZR (nth k coef 0%Z * nth k qt 0%Z)) y x + 128)) <= idct_di0 B)%R.
Proof. exact idct_islow_accuracy. Qed.
Print Assumptions C11_idct_islow_accuracy.
Example C11_idct_islow_accuracy_instance :
  length ex_coef = 64%nat /\ length ex_qt = 64%nat /\ (0 <= 220 <= 1173)%Z /\
  (forall k, (k < 64)%nat -> (Z.abs (nth k ex_coef 0 * nth k ex_qt 0) <= 220)%Z).
Proof. exact ex_coef_hyps. Qed.

Theorem C11_idct_di0_values :
  (idct_rho <= 6168 / 10000 /\ idct_kappa <= 8110 / 10000000 /\ idct_di0 1152 <= 1552 / 1000)%R.
Proof. exact (conj idct_rho_val (conj idct_kappa_val idct_di0_1152)). Qed.
Print Assumptions C11_idct_di0_values.

(* forward kernel against the exact real DCT-II of the level-shifted block: every coded
   coefficient / 8 is within fdct_err8 / 8 <= 0.34 of the exact coefficient *)
Theorem C11_dct_islow_accuracy : forall block, length block = 64%nat ->
  (forall k, (k < 64)%nat -> (0 <= nth k block 0 <= 255)%Z) ->
  forall v u, (v < 8)%nat -> (u < 8)%nat ->
  (Rabs (IZR (nth (8 * v + u) (dct_islow block) 0%Z) / 8
         - exact_fdct (fun k => IZR (nth k block 0%Z) - 128) v u) <= fdct_err8 / 8)%R.
Proof. exact dct_islow_accuracy. Qed.
Print Assumptions C11_dct_islow_accuracy.
Example C11_dct_islow_accuracy_instance :
  length ex_block = 64%nat /\ (forall k, (k < 64)%nat -> (0 <= nth k ex_block 0 <= 255)%Z).
Proof. exact (conj (proj1 ex_block_hyps) (proj1 (proj2 (proj2 ex_block_hyps)))). Qed.

Theorem C11_fdct_err8_value : (fdct_err8 <= 2720 / 1000)%R.
Proof. exact fdct_err8_val. Qed.
Print Assumptions C11_fdct_err8_value.

(* the coded pass pair (forward pass then inverse pass) is 2^29 * identity up to sD = 132002 *)
Theorem C11_pass_pair_identity : forall n' (w : nat -> R) Wb, (n' < 8)%nat ->
  (forall n, (n < 8)%nat -> (Rabs (w n) <= Wb)%R) ->
  (Rabs (rsum8 (fun k => IZR (Mz n' k) * rsum8 (fun n => IZR (Mz n k) * w n)) - 2 ^ 29 * w n') <= sD * Wb)%R.
Proof. exact colcomp. Qed.
Print Assumptions C11_pass_pair_identity.
Example C11_pass_pair_instance : (2 < 8)%nat /\ (forall n, (n < 8)%nat -> (Rabs ((fun _ => 1) n) <= 1)%R).
Proof. split; [repeat constructor | intros; rewrite Rabs_R1; apply Rle_refl]. Qed.

(* unconditional: one greyscale block through the coded encoder and decoder kernels *)
Theorem C11_grey_block_bound : forall block qt, length block = 64%nat -> length qt = 64%nat ->
  (forall k, (k < 64)%nat -> (0 <= nth k block 0 <= 255)%Z) ->
  (forall k, (k < 64)%nat -> (1 <= nth k qt 0 <= 255)%Z) ->
  forall y x, (y < 8)%nat -> (x < 8)%nat ->
  (Rabs (IZR (nth (8 * y + x) (idct_islow (quant_block8 (dct_islow block) qt) qt) 0%Z)
         - IZR (nth (8 * y + x) block 0%Z)) <= tableBound qt + pipe_delta)%R.
Proof. exact grey_block_bound. Qed.
Print Assumptions C11_grey_block_bound.
Example C11_grey_block_bound_instance :
  length ex_block = 64%nat /\ length ex_qt = 64%nat /\
  (forall k, (k < 64)%nat -> (0 <= nth k ex_block 0 <= 255)%Z) /\
  (forall k, (k < 64)%nat -> (1 <= nth k ex_qt 0 <= 255)%Z).
Proof. exact ex_block_hyps. Qed.

Theorem C11_pipe_delta_value : (pipe_delta <= 1437 / 1000)%R.
Proof. exact pipe_delta_val. Qed.
Print Assumptions C11_pipe_delta_value.

Theorem C11_grey_bound : forall block qt, length block = 64%nat -> length qt = 64%nat ->
  (forall k, (k < 64)%nat -> (0 <= nth k block 0 <= 255)%Z) ->
  (forall k, (k < 64)%nat -> (1 <= nth k qt 0 <= 255)%Z) ->
  forall y x, (y < 8)%nat -> (x < 8)%nat ->
  (Rabs (IZR (nth (8 * y + x) (idct_islow (quant_block8 (dct_islow block) qt) qt) 0%Z)
         - IZR (nth (8 * y + x) block 0%Z)) <= boundGrey qt)%R.
Proof. exact grey_block_boundGrey. Qed.
Print Assumptions C11_grey_bound.
Example C11_grey_bound_instance :
  (length ex_block = 64%nat /\ length ex_qt = 64%nat /\
   (forall k, (k < 64)%nat -> (0 <= nth k ex_block 0 <= 255)%Z) /\
   (forall k, (k < 64)%nat -> (1 <= nth k ex_qt 0 <= 255)%Z)) /\
  (fold_right Z.max 0%Z (map (fun p => Z.abs (fst p - snd p)) (combine (idct_islow ex_coef ex_qt) ex_block)) = 52%Z
   /\ nth 0 ex_block 0%Z = 11%Z /\ nth 0 (idct_islow ex_coef ex_qt) 0%Z = 0%Z).
Proof. exact (conj ex_block_hyps ex_block_decoded). Qed.

(* ... for every table the encoders can declare (either base table, quality 1..100) *)
Theorem C11_grey_bound_quality : forall quality base block,
  (1 <= quality <= 100)%Z -> base = jpeg_qt_luma \/ base = jpeg_qt_chroma ->
  length block = 64%nat -> (forall k, (k < 64)%nat -> (0 <= nth k block 0 <= 255)%Z) ->
  forall y x, (y < 8)%nat -> (x < 8)%nat ->
  let qt := scale_quant_table base quality in
  (Rabs (IZR (nth (8 * y + x) (idct_islow (quant_block8 (dct_islow block) qt) qt) 0%Z)
         - IZR (nth (8 * y + x) block 0%Z)) <= boundGrey qt)%R.
Proof. exact grey_block_quality. Qed.
Print Assumptions C11_grey_bound_quality.
Example C11_grey_bound_quality_instance :
  (1 <= 50 <= 100)%Z /\ (jpeg_qt_luma = jpeg_qt_luma \/ jpeg_qt_luma = jpeg_qt_chroma) /\
  length ex_block = 64%nat /\ (forall k, (k < 64)%nat -> (0 <= nth k ex_block 0 <= 255)%Z) /\
  scale_quant_table jpeg_qt_luma 50 = ex_qt.
Proof.
  split; [split; discriminate|]. split; [left; reflexivity|].
  split; [exact (proj1 ex_block_hyps)|]. split; [exact (proj1 (proj2 (proj2 ex_block_hyps)))|].
  vm_compute. reflexivity.
Qed.

(* WHOLE greyscale image of any size through the model of the codec's geometry (block grid with
   edge replication, DCTISlow, quantiser, IDCTISlow, block placement, pixel read-back) *)
Theorem C11_grey_image_bound_delta : forall w h quality px,
  (1 <= w)%Z -> (1 <= h)%Z -> (1 <= quality <= 100)%Z ->
  length px = Z.to_nat (w * h) -> Forall (fun v => (0 <= v <= 255)%Z) px ->
  forall x y, (0 <= x < w)%Z -> (0 <= y < h)%Z ->
  (Rabs (IZR (znth (pipeline8 w h 1 quality px) (y * w + x)%Z 0%Z) - IZR (znth px (y * w + x)%Z 0%Z))
   <= tableBound (scale_quant_table jpeg_qt_luma quality) + pipe_delta)%R.
Proof. exact grey_image_bound_delta. Qed.
Print Assumptions C11_grey_image_bound_delta.

Theorem C11_grey_image_bound : forall w h quality px,
  (1 <= w)%Z -> (1 <= h)%Z -> (1 <= quality <= 100)%Z ->
  length px = Z.to_nat (w * h) -> Forall (fun v => (0 <= v <= 255)%Z) px ->
  forall x y, (0 <= x < w)%Z -> (0 <= y < h)%Z ->
  (Rabs (IZR (znth (pipeline8 w h 1 quality px) (y * w + x)%Z 0%Z) - IZR (znth px (y * w + x)%Z 0%Z))
   <= boundGrey (scale_quant_table jpeg_qt_luma quality))%R.
Proof. exact grey_image_bound. Qed.
Print Assumptions C11_grey_image_bound.
Example C11_grey_image_bound_instance :
  (1 <= 11 /\ 1 <= 5 /\ 1 <= 90 <= 100 /\ length ex_img = Z.to_nat (11 * 5) /\
   Forall (fun v => 0 <= v <= 255) ex_img /\ (0 <= 9 < 11 /\ 0 <= 3 < 5) /\
   znth (pipeline8 11 5 1 90 ex_img) (3 * 11 + 9) 0 = 28 /\ znth ex_img (3 * 11 + 9) 0 = 29)%Z.
Proof. exact ex_img_hyps. Qed.

Theorem C11_grey_image_length : forall w h quality px, (0 <= w)%Z -> (0 <= h)%Z ->
  length (pipeline8 w h 1 quality px) = Z.to_nat (w * h).
Proof. exact grey_image_length. Qed.
Print Assumptions C11_grey_image_length.
Example C11_grey_image_length_instance : (0 <= 11)%Z /\ (0 <= 5)%Z /\ length (pipeline8 11 5 1 90 ex_img) = 55%nat.
Proof. repeat split; try discriminate. Qed.
