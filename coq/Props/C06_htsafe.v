(* C06 / C08 glue for the HTJ2K cleanup-pass block decoder: the two decoder models are one function.
   HT/HtBlockDec.v `ht_block_decode` (per-row lists, reads outside a stripe modelled as 0) is the
   model the C06 round trip is stated about; HtSafe/HtsModel.v `hts_samples` (flat scratch array
   with stride sstr, vnScratch updated in place, every index / table lookup / shift count / make()
   an explicit check) is the model C08 / C09 prove total and bounded.  Both are compared with the
   Go decoder on every correspondence run; until now no theorem related them.

     C06_htsafe_refines      for EVERY byte string and coding context, inside the geometry the
                             callers guarantee, the two models return the same outcome: Ok with the
                             same samples, or Err and Err (hts_samples is never Panic / OutOfFuel
                             by C08, ht_block_decode has only Ok / Err).  No direction is lost:
                             there is no input on which one model rejects what the other decodes.
     C06_htsafe_refines_wide the same for block sides up to 65536 (the bound only keeps make()
                             below maxAlloc) - covers every size the C06 theorems speak about.
     C06_htsafe_roundtrip_validated
                             the C06 validated round trip restated for the panic-explicit model:
                             decode(encode(block)) = block, and no panic on the way.
     C06_htsafe_phase1       the abstraction used: after phase 1 stripe r of the scratch array
                             (quad q at r*sstr + 2q, its U at r*sstr + 2q + 1) is row r of
                             dec_row0 / dec_rows.
   Proof: HtSafe/HtsProofsEq1..8 (checked primitives = pure primitives; phase 1 by quad pair, row,
   rows; phase 2 by quad, quad row with the in-place vnScratch update, rows; top level). *)
From V Require Import Common.Base HT.HtBlockBits HT.HtBlockEnc HT.HtBlockDec HT.HtBlockProofsQuad
  T1.T1Store HtSafe.HtsModel HtSafe.HtsProofsP1 HtSafe.HtsProofsEq1 HtSafe.HtsProofsEq2 HtSafe.HtsProofsEq3
  HtSafe.HtsProofsEq7 HtSafe.HtsProofsEq8.

Theorem C06_htsafe_refines : forall w h kmax missing data,
  1 <= w <= 1024 -> 1 <= h <= 1024 ->
  hts_samples w h kmax missing data = ht_block_decode w h kmax missing data.
Proof. exact hts_refines_ht_block_decode. Qed.
Print Assumptions C06_htsafe_refines.

Theorem C06_htsafe_refines_wide : forall w h kmax missing data,
  1 <= w <= 65536 -> 1 <= h <= 65536 ->
  hts_samples w h kmax missing data = ht_block_decode w h kmax missing data.
Proof. exact hts_refines_gen. Qed.
Print Assumptions C06_htsafe_refines_wide.

(* non-vacuous: a 5x3 block and an 8x8 block written by the encoder (both models return the
   samples), the 5x3 block with a damaged byte (both return the same wrong samples), with the last
   byte cut and with a wrong missing-MSB count (both Err) *)
Example C06_htsafe_refines_nonvacuous :
  let b53 := [148; 4; 22; 254; 112; 190; 87; 127; 254; 145; 49; 121; 0] in
  let d88 := [3; -1; 0; 7; 0; 0; 12; -5;  1; 0; 0; 0; -128; 100; 2; 0;  0; 9; 0; 0; 0; 0; 0; 1;
              -77; 0; 0; 31; 0; -2; 0; 0;  0; 0; 0; 0; 0; 0; 0; 0;  5; -6; 7; -8; 9; -10; 11; -12;
              0; 0; 64; 0; 0; -64; 0; 0;  1; 1; 1; 1; -1; -1; -1; 127] in
  let b88 := [36; 252; 55; 54; 201; 76; 8; 30; 98; 193; 30; 156; 116; 1; 31; 0; 130; 63; 8; 224; 64;
              164; 164; 90; 23; 119; 37; 148; 217; 236; 220; 2; 0; 89; 224; 131; 115; 82; 180; 213; 1] in
  (1 <= 5 <= 1024 /\ 1 <= 3 <= 1024 /\ 1 <= 8 <= 1024) /\
  hts_samples 5 3 6 5 b53 = Ok [3; -1; 0; 7; 2; 0; 0; -5; 1; 0; 12; 0; 0; -2; 9] /\
  ht_block_decode 5 3 6 5 b53 = Ok [3; -1; 0; 7; 2; 0; 0; -5; 1; 0; 12; 0; 0; -2; 9] /\
  ht_block_encode 8 8 8 d88 = Ok b88 /\
  hts_samples 8 8 8 7 b88 = Ok d88 /\ ht_block_decode 8 8 8 7 b88 = Ok d88 /\
  hts_samples 5 3 6 5 [148; 4; 22; 254; 112; 190; 87; 127; 14; 145; 49; 121; 0]
    = Ok [3; -1; 0; 7; 1; 0; 0; -5; 1; 1; 0; 0; 0; 8; -16] /\
  ht_block_decode 5 3 6 5 [148; 4; 22; 254; 112; 190; 87; 127; 14; 145; 49; 121; 0]
    = Ok [3; -1; 0; 7; 1; 0; 0; -5; 1; 1; 0; 0; 0; 8; -16] /\
  hts_samples 5 3 6 5 [148; 4; 22; 254; 112; 190; 87; 127; 254; 145; 49; 121] = Err /\
  ht_block_decode 5 3 6 5 [148; 4; 22; 254; 112; 190; 87; 127; 254; 145; 49; 121] = Err /\
  hts_samples 5 3 6 2 b53 = Err /\ ht_block_decode 5 3 6 2 b53 = Err.
Proof. cbv zeta. split; [lia|]. repeat split; vm_compute; reflexivity. Qed.

Theorem C06_htsafe_roundtrip_validated : forall w h W0 H0 kmax data,
  1 <= w <= W0 -> 1 <= h <= H0 -> W0 mod 4 = 0 -> H0 mod 2 = 0 -> W0 * H0 <= 4096 ->
  1 <= kmax <= 30 -> zlen data = w * h -> good kmax data ->
  exists block, ht_block_encode w h kmax data = Ok block /\
                hts_samples w h kmax (kmax - 1) block = Ok data /\
                hts_decode w h kmax (kmax - 1) block <> Panic.
Proof. exact htsafe_cleanup_roundtrip_validated. Qed.
Print Assumptions C06_htsafe_roundtrip_validated.
Example C06_htsafe_roundtrip_nonvacuous :
  let d := [3; -1; 0; 7; 0; 0; 12; -5; 1; 0; 0; 0; -128; 100; 2; 0; 0; 9; 0; 0] in
  (1 <= 5 <= 64 /\ 1 <= 4 <= 64 /\ 64 mod 4 = 0 /\ 64 mod 2 = 0 /\ 64 * 64 <= 4096 /\ zlen d = 5 * 4 /\ good 8 d) /\
  hts_samples 5 4 8 7 [20; 22; 194; 63; 196; 216; 18; 241; 84; 178; 208; 119; 0] = Ok d.
Proof.
  cbv zeta. split; [|vm_compute; reflexivity].
  repeat split; try lia; try reflexivity. repeat constructor; cbn; lia.
Qed.

(* the abstraction function of the proof: phase 1 leaves in stripe r of the scratch array the row r
   that the valid-input model computes (rdq k t base = the k quads (t, U) read from base on) *)
Theorem C06_htsafe_phase1 : forall n w h sstr R NPn,
  5 <= sstr -> w + 2 <= sstr -> 4 * Z.of_nat NPn <= sstr -> n = sstr * (R + 1) + 8 -> 1 <= R ->
  forall s NRn,
  hts_npairs w = NPn -> hts_nrowsN h = NRn -> Z.of_nat NRn + 1 <= R ->
  Z.quot (w + 3) 4 * 4 = 4 * Z.of_nat NPn -> melk_ok (h_d s) ->
  exists s', hts_phase1 n w h sstr s = Ok s' /\
    stripes sstr NPn (h_s s') 0
      (fst (dec_row0 NPn w 0 0 (h_d s)) ::
       dec_rows NRn NPn (fst (dec_row0 NPn w 0 0 (h_d s))) w (snd (dec_row0 NPn w 0 0 (h_d s)))).
Proof. exact hts_phase1_eq. Qed.
Print Assumptions C06_htsafe_phase1.
