(* C13, tie by translation (second list): losslessDifference of jpeg/lossless14sv1. *)
From V Require Import Common.Base Gen.KernelsMore_gen Tie.TieKernelsMoreJpeg.

Theorem C13_tie2_sv1_losslessDifference : forall s p, jpeg_lossless14sv1_losslessDifference s p = s - p.
Proof. exact tie_sv1_losslessDifference. Qed.
Print Assumptions C13_tie2_sv1_losslessDifference.

Example C13_tie2_instance : jpeg_lossless14sv1_losslessDifference 3 65535 = -65532.
Proof. vm_compute. reflexivity. Qed.
