(* C11 (entropy layer) -- the Huffman layer of the baseline JPEG codec is lossless on the
   quantised coefficients, so the loss of the codec is the loss of the DCT/quantiser stage
   bounded in C11.v.  Property theorems only (models: JpegEnt/JentModel.v; proofs:
   JpegEnt/JentProofsBlock.v, JentProofsScan.v, JentProofsNat.v).
   Hypotheses: valid tables (T.81 Annex C: t81_table_ok), containing the symbols the data
   needs, and coefficients / DC differences in the range the code supports (|v| <= 32767,
   categories 0..15).  Not proved here: that the tables BuildOptimalHuffmanTable derives from
   the image's own statistics contain every needed symbol (checked by the correspondence run:
   model decoder on Go's DHT + scan bytes = model coefficients, for every generated image). *)
From V Require Import Common.Base Gen.JpegTables_gen JpegLL.JllBits JpegLL.JllHuff JpegLL.JllT81
  JpegLL.JllProofsBits JpegLL.JllProofsHuff JpegDCT.DctZigzag JpegDCT.DctRestart
  JpegEnt.JentModel JpegEnt.JentProofsBlock JpegEnt.JentProofsScan JpegEnt.JentProofsNat
  JpegEnt.JentProofsEx JpegEnt.JentProofs12RT.

(* decodeBlock inverts encodeBlock: for any valid table pair containing the needed symbols and
   any block in the encodable range, decoding the encoder's bits followed by ANY rest B returns
   the block (zig-zag order), the new DC predictor, and a reader standing for exactly B *)
Theorem C11_ent_block_roundtrip : forall db dv ab av dcT acT td ta pred zz st B,
  t81_table_ok db dv = true -> t81_table_ok ab av = true ->
  sel_table dcT td = Ok (Some (ht_of db dv)) -> sel_table acT ta = Ok (Some (ht_of ab av)) ->
  block_ok dv av pred zz ->
  rep st (wbits (enc_block_words (build_codes db dv) (build_codes ab av) pred zz) ++ B) ->
  exists st', dec_block dcT acT td ta pred st = Ok (zz, hd 0 zz, st') /\ rep st' B.
Proof. exact ent_block_roundtrip. Qed.
Print Assumptions C11_ent_block_roundtrip.
Example C11_ent_block_instance :
  t81_table_ok ex_dbL ex_dvL = true /\ t81_table_ok ex_abL ex_avL = true /\
  sel_table ex_dcT 0 = Ok (Some (ht_of ex_dbL ex_dvL)) /\ sel_table ex_acT 0 = Ok (Some (ht_of ex_abL ex_avL)) /\
  block_ok ex_dvL ex_avL 3 ex_zz1 /\ block_ok ex_dvL ex_avL (-26) ex_zz2 /\
  length (enc_block_words (build_codes ex_dbL ex_dvL) (build_codes ex_abL ex_avL) (-26) ex_zz2) = 9%nat.
Proof.
  destruct ex_tables_ok as (H1 & H2 & _). destruct ex_sel as [S1 S2]. destruct ex_block_ok as [B1 B2].
  refine (conj H1 (conj H2 (conj S1 (conj S2 (conj B1 (conj B2 _)))))). vm_compute. reflexivity.
Qed.

(* decodeScan inverts encodeScan (bytes, with FF00 stuffing and the 1-padding of Flush), DC
   predictors threaded per component through the MCUs; tabs = [0] is encodeGrayscale,
   tabs = [0;1;1] is encodeRGB (4:4:4 interleaved) *)
Theorem C11_ent_scan_roundtrip : forall codes dcT acT tabs mcus tail,
  mcus_ok codes dcT acT tabs (map (fun _ => 0) tabs) mcus -> scan_end tail ->
  dec_scan dcT acT (map comp_of tabs) 0 (length mcus) (enc_scan_bytes codes tabs mcus ++ tail)
  = Ok (concat (map (tag 0) mcus)).
Proof. exact ent_scan_roundtrip. Qed.
Print Assumptions C11_ent_scan_roundtrip.
Example C11_ent_scan_instance :
  mcus_ok ex_codes ex_dcT ex_acT [0; 1; 1] (map (fun _ => 0) [0; 1; 1]) ex_mcus /\ scan_end [255; 217] /\
  length (enc_scan_bytes ex_codes [0; 1; 1] ex_mcus) = 62%nat.
Proof. split; [exact ex_mcus_ok | split; [exact ex_scan_end | vm_compute; reflexivity]]. Qed.

(* baseline.Encode's grey scan end to end at this layer: natural-order quantised blocks ->
   DHT payloads + scan bytes -> parseDHT + decodeScan -> the same natural-order blocks *)
Theorem C11_ent_grey_lossless : forall db dv ab av blocks tail,
  t81_table_ok db dv = true -> t81_table_ok ab av = true ->
  Forall (fun b => length b = 64%nat) blocks ->
  chain_ok dv av 0 (map to_zigzag blocks) -> scan_end tail ->
  obind (ent_decode [dht_payload 0 0 db dv; dht_payload 1 0 ab av] [comp_of 0] 0 (length blocks)
                    (enc_grey_scan [(db, dv, ab, av)] blocks ++ tail))
        (fun bl => Ok (blocks_natural bl))
  = Ok (map (fun b => (0, b)) blocks).
Proof. exact ent_grey_lossless. Qed.
Print Assumptions C11_ent_grey_lossless.
Example C11_ent_grey_instance :
  Forall (fun b => length b = 64%nat) [ex_nat1; ex_nat2; ex_nat1] /\
  chain_ok ex_dvL ex_avL 0 (map to_zigzag [ex_nat1; ex_nat2; ex_nat1]) /\ scan_end [255; 217].
Proof. split; [exact ex_nat_len | split; [exact ex_chain_ok | exact ex_scan_end]]. Qed.

(* the zig-zag reordering done by the encoder is undone by the decoder's stores *)
Theorem C11_ent_zigzag_inverse : forall b, length b = 64%nat -> from_zigzag (to_zigzag b) = b.
Proof. exact from_to_zigzag. Qed.
Print Assumptions C11_ent_zigzag_inverse.
Example C11_ent_zigzag_instance : length ex_nat2 = 64%nat /\ to_zigzag ex_nat2 = ex_zz2.
Proof. split; vm_compute; reflexivity. Qed.

(* the 12-bit extended sequential decodeBlock inverts the same block code (its encodeBlock has
   the shape of the baseline one; the encoder side of sequential12.go is not modelled
   separately) *)
Theorem C11_ent12_block_roundtrip : forall db dv ab av pred zz st B,
  t81_table_ok db dv = true -> t81_table_ok ab av = true ->
  block_ok dv av pred zz ->
  rep st (wbits (enc_block_words (build_codes db dv) (build_codes ab av) pred zz) ++ B) ->
  exists st', dec_block12 (ht_of db dv) (ht_of ab av) pred st = Ok (zz, hd 0 zz, st') /\ rep st' B.
Proof. exact ent_block12_roundtrip. Qed.
Print Assumptions C11_ent12_block_roundtrip.
Example C11_ent12_block_instance :
  t81_table_ok ex_dbL ex_dvL = true /\ t81_table_ok ex_abL ex_avL = true /\ block_ok ex_dvL ex_avL (-26) ex_zz2.
Proof. destruct ex_tables_ok as (H1 & H2 & _). destruct ex_block_ok as [_ B2]. exact (conj H1 (conj H2 B2)). Qed.
