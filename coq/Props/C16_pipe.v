(* C16 (pipe): the codestream the composed JPEG 2000 encoder model writes (Pipe/PipeModel.v,
   byte-exact against jpeg2000.Encoder in the correspondence run) is accepted by the strict walker
   written from the standard (Framing/FrmJ2k.v: SOC first, SIZ/COD/QCD/COM lengths exact, SOT with
   Psot exact, no marker code FF90..FFFF inside the tile data, EOC last, nothing after), and the
   header the walker returns declares exactly the arguments (self-describing). *)
From V Require Import Common.Base Framing.FrmBase Framing.FrmJ2k Framing.FrmProofsHdr
  Pipe.PipeModel Pipe.PipeProofsFront
  PipeStream.PstModel PipeStream.PstHeader PipeStream.PstProofsWalk PipeStream.PstProofsTiles
  PipeStream.PstProofsTilesN PipeStream.PstProofsTop PipeStream.PstProofsEncTiles
  PipeStream.PstProofsCleanMain PipeStream.PstProofsCleanLayersMain PipeStream.PstProofsEncode
  PipeStream.PstProofsEncodeL PipeStream.PstProofsMct.

(* the walker cut at the first SOT is the walker *)
Theorem C16_pipe_walk_split : forall l,
  j2k_walk l = wbind (j2k_walk_main l) (fun x => let '(s, ms, l2, pos2) := x in j2k_walk_tiles s ms l2 pos2).
Proof. exact j2k_walk_split. Qed.
Print Assumptions C16_pipe_walk_split.

(* the main header: accepted, consumed exactly up to the SOT, declared geometry = arguments *)
Theorem C16_pipe_header_wellformed : forall p rest, pp_scope p -> starts_tiles rest ->
  j2k_walk_main (pipe_main_header p ++ rest)
    = WOk (pipe_siz p, pipe_mstate p, rest, zlen (pipe_main_header p)) /\
  sz_x (pipe_siz p) - sz_xo (pipe_siz p) = pp_w p /\
  sz_y (pipe_siz p) - sz_yo (pipe_siz p) = pp_h p /\
  sz_c (pipe_siz p) = pp_nc p /\
  sz_comps (pipe_siz p)
    = repeat (pp_prec p - 1 + (if pp_signed p then 128 else 0), 1, 1) (Z.to_nat (pp_nc p)) /\
  ms_cod (pipe_mstate p) = Some (pipe_cod p) /\ ms_qcd (pipe_mstate p) = Some (64, 3 * pp_levels p + 1).
Proof. exact pipe_header_wellformed. Qed.
Print Assumptions C16_pipe_header_wellformed.

(* the same for every layer count and tile size the SIZ/COD fields can carry *)
Theorem C16_pipe_header_wellformed_general : forall p nl tw th rest,
  pp_scope p -> 1 <= nl <= 65535 -> tile_grid_ok p tw th -> starts_tiles rest ->
  j2k_walk_main (pst_main_header p nl tw th ++ rest)
  = WOk (pipe_siz_tiles p tw th, pipe_mstate_layers p nl, rest, zlen (pst_main_header p nl tw th)).
Proof. exact walk_main_header. Qed.
Print Assumptions C16_pipe_header_wellformed_general.

(* the whole single-tile codestream around ANY tile bytes that contain no FF followed by a byte
   >= 0x90 and do not end in FF (tile_clean) and fit Psot *)
Theorem C16_pipe_codestream_wellformed : forall p tile,
  pp_scope p -> zlen tile + 14 < 4294967296 -> tile_clean tile = true ->
  j2k_wellformed (pipe_codestream p tile) = Some (pipe_header p (zlen tile)).
Proof. exact pipe_codestream_wellformed. Qed.
Print Assumptions C16_pipe_codestream_wellformed.

(* tile_clean is exactly the walker's condition: an unclean tile is rejected *)
Theorem C16_pipe_codestream_wellformed_inv : forall p tile h,
  pp_scope p -> zlen tile + 14 < 4294967296 ->
  j2k_wellformed (pipe_codestream p tile) = Some h -> tile_clean tile = true.
Proof. exact pipe_codestream_wellformed_inv. Qed.
Print Assumptions C16_pipe_codestream_wellformed_inv.

(* what the returned header declares *)
Theorem C16_pipe_header_declares : forall p n,
  jk_width (pipe_header p n) = pp_w p /\ jk_height (pipe_header p n) = pp_h p /\
  jk_csiz (pipe_header p n) = pp_nc p /\
  jk_comps (pipe_header p n)
    = repeat (pp_prec p - 1 + (if pp_signed p then 128 else 0), 1, 1) (Z.to_nat (pp_nc p)) /\
  jk_xtsiz (pipe_header p n) = pp_w p /\ jk_ytsiz (pipe_header p n) = pp_h p /\
  jk_ntiles (pipe_header p n) = 1 /\
  jk_tileparts (pipe_header p n) = [(0, n + 14)] /\
  cd_levels (jk_cod (pipe_header p n)) = pp_levels p /\ cd_layers (jk_cod (pipe_header p n)) = 1 /\
  cd_prog (jk_cod (pipe_header p n)) = pp_order p /\ cd_transform (jk_cod (pipe_header p n)) = 1 /\
  2 ^ cd_xcb (jk_cod (pipe_header p n)) = 2 ^ Z.log2 (pp_cbw p) /\
  2 ^ cd_ycb (jk_cod (pipe_header p n)) = 2 ^ Z.log2 (pp_cbh p).
Proof. exact pipe_header_declares. Qed.
Print Assumptions C16_pipe_header_declares.

(* quality layers *)
Theorem C16_pipe_codestream_layers_wellformed : forall p nl tile,
  pp_scope p -> 1 <= nl <= 65535 -> zlen tile + 14 < 4294967296 -> tile_clean tile = true ->
  j2k_wellformed (pipe_codestream_layers p nl tile) = Some (pipe_header_layers p nl (zlen tile)).
Proof. exact pipe_codestream_layers_wellformed. Qed.
Print Assumptions C16_pipe_codestream_layers_wellformed.

(* tiles: one tile-part per tile of the SIZ grid, Isot = 0, 1, ..., every Psot exact *)
Theorem C16_pipe_codestream_tiles_wellformed : forall p tw th tiles,
  pp_scope p -> tile_grid_ok p tw th ->
  zlen tiles = siz_tiles_x (pipe_siz_tiles p tw th) * siz_tiles_y (pipe_siz_tiles p tw th) ->
  Forall tile_ok tiles ->
  j2k_wellformed (pipe_codestream_tiles p tw th tiles) = Some (pst_header p 1 tw th tiles).
Proof. exact pipe_codestream_tiles_wellformed. Qed.
Print Assumptions C16_pipe_codestream_tiles_wellformed.

Theorem C16_pipe_codestream_tiles_layers_wellformed : forall p nl tw th tiles,
  pp_scope p -> 1 <= nl <= 65535 -> tile_grid_ok p tw th ->
  zlen tiles = siz_tiles_x (pipe_siz_tiles p tw th) * siz_tiles_y (pipe_siz_tiles p tw th) ->
  Forall tile_ok tiles ->
  j2k_wellformed (pipe_codestream_tiles_layers p nl tw th tiles) = Some (pst_header p nl tw th tiles).
Proof. exact pipe_codestream_tiles_layers_wellformed. Qed.
Print Assumptions C16_pipe_codestream_tiles_layers_wellformed.

(* ---- the encoder's own tiles ---- *)

(* every tile the composed encoder model produces is clean: packet headers come from the bio writer
   (after FF only 7 bits, an extra byte after a final FF), packet bodies are concatenations of MQ
   Flush outputs (FF is followed by at most 0x8F, no segment ends in FF); the one-byte fallback tile
   [0] too.  No hypothesis on p or the pixels. *)
Theorem C16_pipe_encode_tile_clean : forall p pix tile,
  pipe_encode_tile p pix = Ok tile -> tile_clean tile = true.
Proof. exact pipe_encode_tile_clean. Qed.
Print Assumptions C16_pipe_encode_tile_clean.

Theorem C16_pipe_encode_tiles_clean : forall p tw th pix tiles,
  pipe_encode_tiles p tw th pix = Ok tiles -> Forall (fun t => tile_clean t = true) tiles.
Proof. exact pipe_encode_tiles_clean. Qed.
Print Assumptions C16_pipe_encode_tiles_clean.

(* Encoder.Encode: whatever it returns is one well-formed, self-describing codestream.  Partial: ONE
   hypothesis remains, psot_fits (the tile is shorter than 2^32 - 14 bytes, Psot is a uint32). *)
Theorem C16_pipe_encode_wellformed_partial : forall p pix cs,
  pp_scope p ->
  (forall tile, pipe_encode_tile p pix = Ok tile -> psot_fits tile) ->
  pipe_encode p pix = Ok cs ->
  exists n, j2k_wellformed cs = Some (pipe_header p n) /\ zlen cs = zlen (pipe_main_header p) + 14 + n + 2.
Proof. exact pipe_encode_wellformed_partial. Qed.
Print Assumptions C16_pipe_encode_wellformed_partial.

(* the tiled encoder: the tile count equals the SIZ grid, every tile is clean *)
Theorem C16_pipe_encode_tiles_wellformed_partial : forall p tw th pix tiles,
  pp_scope p -> tile_grid_ok p tw th ->
  pipe_encode_tiles p tw th pix = Ok tiles -> Forall psot_fits tiles ->
  j2k_wellformed (pipe_codestream_tiles p tw th tiles) = Some (pst_header p 1 tw th tiles).
Proof. exact pipe_encode_tiles_wellformed_partial. Qed.
Print Assumptions C16_pipe_encode_tiles_wellformed_partial.

(* quality layers (any allocation) and tiles x layers: the encoder's tiles are clean as well *)
Theorem C16_pipe_encode_tile_layers_clean : forall p nl alloc pix tile,
  pipe_encode_tile_layers p nl alloc pix = Ok tile -> tile_clean tile = true.
Proof. exact pipe_encode_tile_layers_clean. Qed.
Print Assumptions C16_pipe_encode_tile_layers_clean.

Theorem C16_pipe_encode_layers_wellformed_partial : forall p nl alloc pix tile,
  pp_scope p -> 1 <= nl <= 65535 ->
  pipe_encode_tile_layers p nl alloc pix = Ok tile -> psot_fits tile ->
  j2k_wellformed (pipe_codestream_layers p nl tile) = Some (pipe_header_layers p nl (zlen tile)).
Proof. exact pipe_encode_layers_wellformed_partial. Qed.
Print Assumptions C16_pipe_encode_layers_wellformed_partial.

Theorem C16_pipe_encode_tiles_layers_wellformed_partial : forall p nl talloc tw th pix tiles,
  pp_scope p -> 1 <= nl <= 65535 -> tile_grid_ok p tw th ->
  pipe_encode_tiles_layers p nl talloc tw th pix = Ok tiles -> Forall psot_fits tiles ->
  j2k_wellformed (pipe_codestream_tiles_layers p nl tw th tiles) = Some (pst_header p nl tw th tiles).
Proof. exact pipe_encode_tiles_layers_wellformed_partial. Qed.
Print Assumptions C16_pipe_encode_tiles_layers_wellformed_partial.

(* self-describing, component transform: the COD MCT byte says what the encoder did - except for
   4 components with EnableMCT, where the header declares a transform that was not applied
   (usesColorTransform: Components >= 3; Encoder.Encode: Components == 3). C16 asks the header to
   declare what was GIVEN to the encoder (EnableMCT was given), so this is recorded as an
   observation about interoperability (DESIGN.md), not as a violation of C16; the library's own
   decoder only inverts the transform for exactly 3 components, so C04 is unaffected. *)
Theorem C16_pipe_mct_flag_agrees : forall p n, pp_nc p <> 4 -> 1 <= pp_nc p <= 4 ->
  cd_mct (jk_cod (pipe_header p n)) = if uses_rct p then 1 else 0.
Proof. exact mct_flag_agrees. Qed.
Print Assumptions C16_pipe_mct_flag_agrees.

Theorem C16_pipe_mct_flag_4comp_observation : exists p, pp_scope p /\
  (forall n, cd_mct (jk_cod (pipe_header p n)) = 1) /\ uses_rct p = false.
Proof. exact mct_flag_4comp_refuted. Qed.
Print Assumptions C16_pipe_mct_flag_4comp_observation.

(* ---- non-vacuity ---- *)

Definition c16_ex_p : pparams := mkPP 2 2 3 8 false 1 4 4 true 2 0 0 2.
Definition c16_ex_pix : list Z := [10; 200; 30; 40; 255; 0; 1; 2; 3; 250; 128; 7].

(* the hypotheses of the header theorems, and the header bytes *)
Example C16_pipe_example_header :
  pp_scope c16_ex_p /\ starts_tiles [255; 144; 0; 10] /\ tile_grid_ok c16_ex_p 0 0 /\ tile_grid_ok c16_ex_p 1 2 /\
  firstn 6 (pipe_main_header c16_ex_p) = [255; 79; 255; 81; 0; 47] /\ zlen (pipe_main_header c16_ex_p) = 113.
Proof.
  split; [unfold pp_scope, pow2_size, c16_ex_p; cbn; lia|].
  split; [eexists; left; reflexivity|].
  split; [unfold tile_grid_ok; vm_compute; intuition discriminate|].
  split; [unfold tile_grid_ok; vm_compute; intuition discriminate|].
  split; vm_compute; reflexivity.
Qed.

(* the hypotheses of the codestream theorem on the tile the encoder model really produces for a
   2x2 RGB image (RCT, one DWT level, RPCL), and the walker's verdict computed directly *)
Example C16_pipe_example_codestream :
  exists tile cs, pipe_encode_tile c16_ex_p c16_ex_pix = Ok tile /\ pipe_encode c16_ex_p c16_ex_pix = Ok cs /\
    10 <= zlen tile /\ zlen tile + 14 < 4294967296 /\ tile_clean tile = true /\
    j2k_wellformed cs = Some (pipe_header c16_ex_p (zlen tile)).
Proof.
  eexists. eexists. split; [vm_compute; reflexivity|]. split; [vm_compute; reflexivity|].
  split; [vm_compute; discriminate|]. split; [vm_compute; reflexivity|]. split; vm_compute; reflexivity.
Qed.

(* an unclean tile (FF 91 inside; FF last) is rejected by the walker *)
Example C16_pipe_example_unclean :
  tile_clean [1; 255; 145; 2] = false /\ j2k_wellformed (pipe_codestream c16_ex_p [1; 255; 145; 2]) = None /\
  tile_clean [1; 255] = false /\ j2k_wellformed (pipe_codestream c16_ex_p [1; 255]) = None /\
  tile_clean [1; 255; 143; 2] = true.
Proof. repeat split; vm_compute; reflexivity. Qed.

(* layers / tiles: a 4x2 grey image cut into two 2x2 tiles, three layers *)
Definition c16_ex_pt : pparams := mkPP 4 2 1 8 false 0 4 4 false 0 0 0 4.
Example C16_pipe_example_tiles :
  pp_scope c16_ex_pt /\ tile_grid_ok c16_ex_pt 2 2 /\
  zlen [[1; 255; 143]; [7]] = siz_tiles_x (pipe_siz_tiles c16_ex_pt 2 2) * siz_tiles_y (pipe_siz_tiles c16_ex_pt 2 2) /\
  Forall tile_ok [[1; 255; 143]; [7]] /\
  jk_tileparts (pst_header c16_ex_pt 3 2 2 [[1; 255; 143]; [7]]) = [(0, 17); (1, 15)] /\
  j2k_wellformed (pipe_codestream_tiles_layers c16_ex_pt 3 2 2 [[1; 255; 143]; [7]])
    = Some (pst_header c16_ex_pt 3 2 2 [[1; 255; 143]; [7]]).
Proof.
  split; [unfold pp_scope, pow2_size, c16_ex_pt; cbn; lia|].
  split; [unfold tile_grid_ok; vm_compute; intuition discriminate|].
  split; [vm_compute; reflexivity|].
  split; [repeat constructor; vm_compute; reflexivity|].
  split; vm_compute; reflexivity.
Qed.

(* the hypotheses of the encoder theorems on concrete images *)
Example C16_pipe_example_encode :
  (forall tile, pipe_encode_tile c16_ex_p c16_ex_pix = Ok tile -> psot_fits tile) /\
  (exists cs, pipe_encode c16_ex_p c16_ex_pix = Ok cs /\ 130 <= zlen cs) /\
  exists tiles, pipe_encode_tiles c16_ex_pt 2 2 [10; 200; 30; 40; 255; 0; 1; 2] = Ok tiles /\
    Forall psot_fits tiles /\ zlen tiles = 2 /\ Forall (fun t => 2 <= zlen t) tiles.
Proof.
  split.
  { intros tile E. vm_compute in E. injection E as <-. vm_compute. reflexivity. }
  split; [eexists; split; [vm_compute; reflexivity | vm_compute; discriminate]|].
  eexists. split; [vm_compute; reflexivity|].
  split; [repeat constructor; vm_compute; reflexivity|].
  split; [vm_compute; reflexivity | repeat constructor; vm_compute; discriminate].
Qed.

(* layers: three layers on the 2x2 RGB image (allocation 1, 3, all passes), and 2 tiles x 2 layers *)
Example C16_pipe_example_encode_layers :
  (exists tile, pipe_encode_tile_layers c16_ex_p 3 (fun _ _ => [1; 3; 0]) c16_ex_pix = Ok tile /\
     psot_fits tile /\ 10 <= zlen tile /\
     j2k_wellformed (pipe_codestream_layers c16_ex_p 3 tile) = Some (pipe_header_layers c16_ex_p 3 (zlen tile))) /\
  exists tiles, pipe_encode_tiles_layers c16_ex_pt 2 (fun _ _ _ => [1; 0]) 2 2 [10; 200; 30; 40; 255; 0; 1; 2] = Ok tiles /\
    Forall psot_fits tiles /\ zlen tiles = 2.
Proof.
  split.
  { eexists. split; [vm_compute; reflexivity|]. split; [vm_compute; reflexivity|].
    split; [vm_compute; discriminate | vm_compute; reflexivity]. }
  eexists. split; [vm_compute; reflexivity|].
  split; [repeat constructor; vm_compute; reflexivity | vm_compute; reflexivity].
Qed.

(* the MCT flag on the 2x2 RGB example: declared and applied *)
Example C16_pipe_example_mct :
  pp_nc c16_ex_p <> 4 /\ 1 <= pp_nc c16_ex_p <= 4 /\ uses_rct c16_ex_p = true /\
  cd_mct (jk_cod (pipe_header c16_ex_p 60)) = 1.
Proof. repeat split; vm_compute; congruence. Qed.
