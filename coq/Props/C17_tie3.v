(* C17, tie by translation (third list): the generated body of jpeg2000 isPowerOfTwo equals FrmValidate.pow2_4_1024 on 4..1024, so the code-block size guard of validateParams (n < 4 || n > 1024 || !isPowerOfTwo(n)) equals the guard inside FrmValidate.j2k_accepts for ALL n. *)
From V Require Import Common.Base Gen.KernelsMore_gen Tie.TieKernelsMore2J2K.
Require V.Framing.FrmValidate.

Theorem C17_tie3_isPowerOfTwo : forall n, 4 <= n <= 1024 ->
  jpeg2000_isPowerOfTwo n = V.Framing.FrmValidate.pow2_4_1024 n.
Proof. exact tie_j2k_isPowerOfTwo. Qed.
Print Assumptions C17_tie3_isPowerOfTwo.

Theorem C17_tie3_cb_guard : forall n,
  ((n <? 4) || (1024 <? n) || negb (jpeg2000_isPowerOfTwo n)) =
  ((n <? 4) || (1024 <? n) || negb (V.Framing.FrmValidate.pow2_4_1024 n)).
Proof. exact tie_j2k_cb_guard. Qed.
Print Assumptions C17_tie3_cb_guard.

Example C17_tie3_instance :
  4 <= 64 <= 1024 /\ jpeg2000_isPowerOfTwo 64 = true /\ jpeg2000_isPowerOfTwo 96 = false /\
  (* outside the hypothesis the two functions differ: *)
  jpeg2000_isPowerOfTwo 2048 = true /\ V.Framing.FrmValidate.pow2_4_1024 2048 = false.
Proof. vm_compute. repeat split; try reflexivity; discriminate. Qed.
