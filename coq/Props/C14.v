(* C14 — JPEG-LS against T.87. Property theorems only. *)
From V Require Import Common.Base JpegLS.JlsParams JpegLS.JlsGolomb JpegLS.JlsRun JpegLS.JlsModel JpegLS.JlsT87Dec.
From V Require Import JpegLS.JlsProofsParams JpegLS.JlsProofsGolomb JpegLS.JlsProofsSample JpegLS.JlsProofsNear0
                      JpegLS.JlsProofsRun JpegLS.JlsProofsInterrupt
                      JpegLS.JlsProofsLine JpegLS.JlsProofsStream JpegLS.JlsProofsT87 JpegLS.JlsProofsTotal
                      JpegLS.JlsProofsT87Line JpegLS.JlsProofsT87Stream.

(* the coded parameter function equals the standard's formulas (A.2.1, C.2.4.1.1) on the whole
   domain 2 <= P <= 16, 0 <= NEAR <= min(255, MAXVAL/2) *)
Theorem C14_params_match_T87 : forall P near,
  2 <= P <= 16 -> 0 <= near <= near_max P ->
  jls_params P near = t87_params P near /\
  a_init (jp_range (jls_params P near)) = t87_a_init (jp_range (t87_params P near)).
Proof. exact params_match_T87. Qed.
Print Assumptions C14_params_match_T87.

(* the T.87 Annex H.3 image encodes to the published bit stream (both encoders) *)
Theorem C14_H3_vector :
  jls_encode 4 4 1 8 h3_image =
    Ok ([255; 216; 255; 247; 0; 11; 8; 0; 4; 0; 4; 1; 1; 17; 0; 255; 218; 0; 8; 1; 1; 0; 0; 0; 0]
        ++ h3_scan ++ [255; 217]) /\
  jlsn_encode 4 4 1 8 0 h3_image = jls_encode 4 4 1 8 h3_image /\
  (match encode_scan_ops PkLossless (jls_params 8 0) 4 4 1 h3_image with
   | Ok ops => jls_pack (ops_bits ops) = h3_scan
   | _ => False
   end).
Proof. exact H3_vector. Qed.
Print Assumptions C14_H3_vector.

(* the lossless encoder and the near-lossless encoder with NEAR = 0 are the same function *)
Theorem C14_near0_same_bytes : forall w h comps P pixelData,
  Forall (in_range P) (pixelsToIntegers P pixelData) ->
  jls_encode w h comps P pixelData = jlsn_encode w h comps P 0 pixelData.
Proof. exact near0_same_function. Qed.
Print Assumptions C14_near0_same_bytes.

(* each decoder decodes the other package's (NEAR = 0) streams to the source *)
Theorem C14_cross_near_decodes_lossless : forall w h comps P pixelData stream lim,
  w * h * comps <= lim ->
  zlen (pixelsToIntegers P pixelData) = w * h * comps ->
  Forall (in_range P) (pixelsToIntegers P pixelData) ->
  jls_encode w h comps P pixelData = Ok stream ->
  jlsn_decode lim stream =
  Ok (mkDecoded (integersToPixels P (2 ^ P - 1) (pixelsToIntegers P pixelData)) w h comps P 0).
Proof. exact cross_decode_near_of_lossless. Qed.
Print Assumptions C14_cross_near_decodes_lossless.

Theorem C14_cross_lossless_decodes_near0 : forall w h comps P pixelData stream lim,
  w * h * comps <= lim ->
  zlen (pixelsToIntegers P pixelData) = w * h * comps ->
  Forall (in_range P) (pixelsToIntegers P pixelData) ->
  jlsn_encode w h comps P 0 pixelData = Ok stream ->
  jls_decode lim stream =
  Ok (mkDecoded (integersToPixels P (2 ^ P - 1) (pixelsToIntegers P pixelData)) w h comps P 0).
Proof. exact cross_decode_lossless_of_near0. Qed.
Print Assumptions C14_cross_lossless_decodes_near0.

(* the independent T.87 decoder: building blocks equal to the library model's, and agreement on
   whole streams decided by computation on finite domains (the general theorem is
   C14_t87_decoder_agrees below; the extracted decoder is also run against Go on every
   generated stream by the harness) *)
Theorem C14_T87dec_reconstruct : forall P near px sign e,
  2 <= P <= 16 -> 0 <= near <= near_max P ->
  sign = 1 \/ sign = -1 -> 0 <= px <= 2 ^ P - 1 ->
  - (jp_range (jls_params P near) - 1) <= e <= jp_range (jls_params P near) - 1 ->
  t87_reconstruct (jls_params P near) px sign e = ComputeReconstructedSample (jls_params P near) px (sign * e).
Proof. exact t87_reconstruct_eq. Qed.
Print Assumptions C14_T87dec_reconstruct.

Theorem C14_T87dec_context : forall q1 q2 q3,
  -4 <= q1 <= 4 -> -4 <= q2 <= 4 -> -4 <= q3 <= 4 ->
  (q1 * 9 + q2) * 9 + q3 <> 0 ->
  t87_context q1 q2 q3 = (sgn_of ((q1 * 9 + q2) * 9 + q3), Z.abs ((q1 * 9 + q2) * 9 + q3)).
Proof. exact t87_context_eq. Qed.
Print Assumptions C14_T87dec_context.

Theorem C14_T87dec_update : forall p c e,
  0 <= tA c + Z.abs e < 16777216 -> Z.abs (tB c + e * (2 * jp_near p + 1)) < 16777216 ->
  UpdateContext (mkCtx (tA c) (tB c) (tC c) (tN c)) e (jp_near p) (jp_reset p) =
  mkCtx (tA (t87_update p c e)) (tB (t87_update p c e)) (tC (t87_update p c e)) (tN (t87_update p c e)).
Proof. exact t87_update_eq. Qed.
Print Assumptions C14_T87dec_update.

Theorem C14_T87dec_agrees_small_images :
  forallb (fun near =>
    forallb (t87_same 1 1 1 2 near) (all_lists 1) &&
    forallb (t87_same 2 1 1 2 near) (all_lists 2) &&
    forallb (t87_same 1 2 1 2 near) (all_lists 2) &&
    forallb (t87_same 2 2 1 2 near) (all_lists 4) &&
    forallb (t87_same 3 1 1 2 near) (all_lists 3) &&
    forallb (t87_same 1 1 3 2 near) (all_lists 3)) [0; 1] = true.
Proof. exact t87_agrees_small_images. Qed.
Print Assumptions C14_T87dec_agrees_small_images.

Theorem C14_T87dec_H3 :
  t87_same 4 4 1 8 0 h3_image = true /\ t87_same 4 4 1 8 1 h3_image = true /\ t87_same 4 4 1 8 3 h3_image = true /\
  match jls_encode 4 4 1 8 h3_image with
  | Ok s => match t87_decode 1000 s with Ok a => ti_pixels a = h3_image | _ => False end
  | _ => False
  end.
Proof. exact t87_agrees_H3. Qed.
Print Assumptions C14_T87dec_H3.

(* the T.87 decoder on the bits the coded encoder wrote, symbol level, all parameters *)
Theorem C14_T87dec_golomb : forall k m limit qbpp rest,
  0 <= k <= 32 -> 0 <= qbpp <= 32 -> qbpp + 1 < limit <= 64 -> 0 <= m ->
  (limit - (qbpp + 1) <= Z.shiftr m k -> m - 1 < 2 ^ qbpp) ->
  t87_golomb k limit qbpp (ops_bits (encode_mapped_ops k m limit qbpp) ++ rest) = Some (m, rest).
Proof. exact t87_golomb_roundtrip. Qed.
Print Assumptions C14_T87dec_golomb.

Theorem C14_T87dec_regular : forall P near c t st ra rb rc rd x rest ops c' stored,
  2 <= P <= 16 -> 0 <= near <= near_max P -> 0 <= x <= 2 ^ P - 1 ->
  context_qs (jls_params P near) ra rb rc rd <> 0 ->
  nth (Z.to_nat (Z.abs (context_qs (jls_params P near) ra rb rc rd))) (ts_ctx st) (mkT87Ctx 0 0 0 0) = t ->
  ctx_rel t c ->
  1 <= cN c -> 0 <= cA c <= cN c * 65536 -> cA c < 8388608 -> Z.abs (cB c) < 8388608 ->
  regular_enc PkNear true (jls_params P near) c (context_qs (jls_params P near) ra rb rc rd) ra rb rc x = (ops, c', stored) ->
  exists t',
    t87_regular (jls_params P near) st ra rb rc rd (ops_bits ops ++ rest) =
      Some (stored, mkT87St (t87_set (Z.to_nat (Z.abs (context_qs (jls_params P near) ra rb rc rd))) (ts_ctx st) t')
                            (ts_r365 st) (ts_r366 st) (ts_runindex st), rest) /\
    ctx_rel t' c'.
Proof. exact t87_regular_roundtrip. Qed.
Print Assumptions C14_T87dec_regular.

Theorem C14_T87dec_run_length : forall fuel n remaining ri rest ops ri',
  0 <= ri <= 31 -> 0 <= n <= remaining -> 1 <= remaining ->
  EncodeRunLength fuel n (n =? remaining) ri = Some (ops, ri') ->
  t87_run_length (ops_bits ops ++ rest) remaining 0 ri = Some (n, (n =? remaining), ri', rest).
Proof. exact t87_run_length_roundtrip. Qed.
Print Assumptions C14_T87dec_run_length.

Theorem C14_T87dec_interruption : forall P near st c e ra rb rest,
  2 <= P <= 16 -> 0 <= near <= near_max P ->
  rc_type c = 0 \/ rc_type c = 1 ->
  run_rel (if rc_type c =? 0 then ts_r365 st else ts_r366 st) c -> runctx_ok c -> 0 <= ts_runindex st <= 31 ->
  (rc_type c = 1 -> e <> 0) -> 2 * Z.abs e <= jp_range (jls_params P near) ->
  0 <= (if rc_type c =? 1 then ra else rb) <= 2 ^ P - 1 ->
  exists u',
    t87_interruption (jls_params P near) st (rc_type c) ra rb
      (ops_bits (fst (EncodeRunInterruption (jls_params P near) (ts_runindex st) c e)) ++ rest) =
    Some (ComputeReconstructedSample (jls_params P near) (if rc_type c =? 1 then ra else rb)
            ((if (rc_type c =? 0) && (ra >? rb) then -1 else 1) * e),
          (if rc_type c =? 0 then mkT87St (ts_ctx st) u' (ts_r366 st) (ts_runindex st)
           else mkT87St (ts_ctx st) (ts_r365 st) u' (ts_runindex st)), rest) /\
    run_rel u' (snd (EncodeRunInterruption (jls_params P near) (ts_runindex st) c e)).
Proof. exact t87_interruption_roundtrip. Qed.
Print Assumptions C14_T87dec_interruption.

(* the independent T.87 decoder on WHOLE encoder streams: for every stream the near-lossless
   encoder model emits — one component, or three components sample-interleaved (ILV 2, the only
   multi-component mode the library writes); any P in 2..16; any NEAR in 0..min(255, MAXVAL/2);
   any samples below 2^P; any dimensions up to 65535 — the decoder written from the standard
   (JlsT87Dec.t87_decode) and the library decoder model return the same container bytes,
   geometry, precision and NEAR. Proof: line lockstep over the symbol-level round trips below
   (regular, run length, run interruption) with the state-equality invariant (365 contexts with
   bounds 1 <= N <= 64, 0 <= A <= N*2^16, -N < B <= 0; two run contexts; RUNindex), equality of
   the causal templates (JlsProofsT87Line, JlsProofsT87Line3), then marker segments, bit
   unstuffing and the output container (JlsProofsT87Stream). *)
Theorem C14_t87_decoder_agrees : forall w h comps P near pixelData stream lim,
  w * h * comps <= lim -> near <= near_max P ->
  zlen (pixelsToIntegers P pixelData) = w * h * comps ->
  Forall (in_range P) (pixelsToIntegers P pixelData) ->
  jlsn_encode w h comps P near pixelData = Ok stream ->
  exists recon,
    jlsn_decode lim stream = Ok (mkDecoded (integersToPixels P (2 ^ P - 1) recon) w h comps P near) /\
    t87_decode lim stream = Ok (mkT87Img (integersToPixels P (2 ^ P - 1) recon) w h comps P near).
Proof. exact t87_decoder_agrees. Qed.
Print Assumptions C14_t87_decoder_agrees.

(* the lossless encoder's streams: the lossless decoder model and the T.87 decoder both return
   the source *)
Theorem C14_t87_decoder_agrees_lossless : forall w h comps P pixelData stream lim,
  w * h * comps <= lim ->
  zlen (pixelsToIntegers P pixelData) = w * h * comps ->
  Forall (in_range P) (pixelsToIntegers P pixelData) ->
  jls_encode w h comps P pixelData = Ok stream ->
  jls_decode lim stream =
    Ok (mkDecoded (integersToPixels P (2 ^ P - 1) (pixelsToIntegers P pixelData)) w h comps P 0) /\
  t87_decode lim stream =
    Ok (mkT87Img (integersToPixels P (2 ^ P - 1) (pixelsToIntegers P pixelData)) w h comps P 0).
Proof. exact t87_decoder_agrees_lossless. Qed.
Print Assumptions C14_t87_decoder_agrees_lossless.

(* the same as a relation between the two outcomes (JlsProofsT87.t87_agrees_statement) *)
Theorem C14_t87_agrees : t87_agrees_statement.
Proof. exact t87_agrees. Qed.
Print Assumptions C14_t87_agrees.

(* non-vacuity *)
Example C14_nonvacuous_params : 2 <= 8 <= 16 /\ 0 <= 34 <= near_max 8 /\ jp_t3 (jls_params 8 34) = 177.
Proof. repeat split; try lia; vm_compute; try reflexivity; discriminate. Qed.

Example C14_nonvacuous_same_bytes :
  Forall (in_range 12) (pixelsToIntegers 12 [1; 8]) /\
  jls_encode 1 1 1 12 [1; 8] =
  Ok [255; 216; 255; 247; 0; 11; 12; 0; 1; 0; 1; 1; 1; 17; 0; 255; 218; 0; 8; 1; 1; 0; 0; 0; 0; 0; 0; 0; 0; 31; 251; 255; 217].
Proof.
  split; [apply in_range_forallb; vm_compute; reflexivity | vm_compute; reflexivity].
Qed.

Example C14_nonvacuous_context : t87_context (-1) 2 0 = (-1, 63).
Proof. reflexivity. Qed.

Example C14_nonvacuous_t87_agrees :
  exists stream,
    jlsn_encode 2 2 3 8 2 [10; 200; 30; 12; 199; 33; 90; 91; 92; 10; 200; 30] = Ok stream /\
    2 * 2 * 3 <= 1000 /\ 2 <= near_max 8 /\
    zlen (pixelsToIntegers 8 [10; 200; 30; 12; 199; 33; 90; 91; 92; 10; 200; 30]) = 2 * 2 * 3 /\
    Forall (in_range 8) (pixelsToIntegers 8 [10; 200; 30; 12; 199; 33; 90; 91; 92; 10; 200; 30]) /\
    match t87_decode 1000 stream, jlsn_decode 1000 stream with
    | Ok a, Ok b => ti_pixels a = dc_pixels b /\ ti_comps a = 3 /\ ti_near a = 2
    | _, _ => False
    end.
Proof.
  eexists. split; [vm_compute; reflexivity|].
  split; [lia|]. split; [vm_compute; discriminate|]. split; [vm_compute; reflexivity|].
  split; [apply in_range_forallb; vm_compute; reflexivity|].
  vm_compute. split; [reflexivity|]. split; reflexivity.
Qed.
