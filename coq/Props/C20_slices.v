(* C20, tie by translation over slices: ApplyRCTToComponents / ApplyInverseRCTToComponents of
   jpeg2000/colorspace/rct.go, translated from the Go source on every run with the bounds check of every index
   expression explicit (None = Go's run-time panic), return exactly the planes of the list models
   rct_fwd_list / rct_inv_list about which C20_rct_* are stated. *)
From V Require Import Common.Base Tie.GoSem Gen.KernelsSlices_gen Tie.TieSlices.
Require V.J2K.RCT.
Module R := V.J2K.RCT.

Theorem C20_tie_ApplyRCTToComponents : forall r g b, length g = length r -> length b = length r ->
  jpeg2000_colorspace_ApplyRCTToComponents r g b =
  Some (map c1 (R.rct_fwd_list r g b), map c2 (R.rct_fwd_list r g b), map c3 (R.rct_fwd_list r g b)).
Proof. exact tie_ApplyRCTToComponents. Qed.
Print Assumptions C20_tie_ApplyRCTToComponents.

Theorem C20_tie_ApplyInverseRCTToComponents : forall y cb cr, length cb = length y -> length cr = length y ->
  jpeg2000_colorspace_ApplyInverseRCTToComponents y cb cr =
  Some (map c1 (R.rct_inv_list (combine (combine y cb) cr)), map c2 (R.rct_inv_list (combine (combine y cb) cr)),
        map c3 (R.rct_inv_list (combine (combine y cb) cr))).
Proof. exact tie_ApplyInverseRCTToComponents. Qed.
Print Assumptions C20_tie_ApplyInverseRCTToComponents.

(* the hypotheses are met, and a shorter plane is a run-time panic of the Go code (None) *)
Example C20_tie_slices_instance :
  jpeg2000_colorspace_ApplyRCTToComponents [10; 200; 0] [20; 100; 0] [30; 0; 255] = Some ([20; 100; 63], [10; -100; 255], [-10; 100; 0]) /\
  jpeg2000_colorspace_ApplyRCTToComponents [1; 2; 3] [1; 2] [1; 2; 3] = None.
Proof. vm_compute. split; reflexivity. Qed.
