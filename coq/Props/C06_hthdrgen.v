(* C06 — HTJ2K lossless: the packet-header coder PacketEncoder.encodeHTJ2KPacketHeader against the classic
   coder encodePacketHeaderWithTagTreeMulti for ARBITRARY grids (the general part of
   T2hProofsGlue.hth_classic_coincide_statement).  Property theorems only.

   MODEL: T2Ht/T2hModel.v (HTJ2K coder), T2/T2TagTree.v + T2/T2Header.v (classic tag trees / coder); both
   tied to Go by the suites t2ht and t2 (see Props/C06_hthdr.v, Props/C04_t2.v).

   THEOREMS (all grids, all leaves, all flag states):
     C06_hthdrgen_dims        the l-th (levelWidths, levelHeights) entry of NewTagTree is dimension(l) of the
                              HTJ2K precinct tree; t.levels = len(levelWidths)
     C06_hthdrgen_path        the (level, index) pairs encodeInclusion / encodeMissingMSBs touch for leaf
                              (x, y) are the classic leaf-to-root stack tt_path
     C06_hthdrgen_parent_le   the built value arrays are monotone along every walk (parent <= child)
     C06_hthdrgen_incl_01     0 / 1 leaves give 0 / 1 nodes; C06_hthdrgen_zero_iff: a node is 0 iff a child is
     C06_hthdrgen_miss_closed / C06_hthdrgen_incl_closed   the bits of the two HTJ2K walks in closed form
     C06_hthdrgen_miss_walk   one encodeMissingMSBs walk writes the bits of TagTree.Encode on a tree with
                              the same values and known = sent, and leaves known = sent, low = value
     C06_hthdrgen_incl_walk   one encodeInclusion walk writes the bits of TagTree.Encode(threshold 1) on a
                              tree holding 0 / nothing where the HTJ2K tree holds 0 / 1, reports "included"
                              iff the walk holds only zeros, and re-establishes the correspondence
     C06_hthdrgen_incl_total / C06_hthdrgen_miss_total   on newHTJ2KPrecinctTree of ANY band (any block
                              list, grid sides up to 2^63), any leaf of the grid and any flag array of the
                              right shape, encodeInclusion / encodeMissingMSBs never index out of range and
                              return the closed forms (values = the rows of C06_hthdrgen_rows, the virtual
                              parent of the root reads 0)
     C06_hthdrgen_miss_block / C06_hthdrgen_incl_block   ONE block against the GLOBAL state correspondence
                              (InvM / InvI: every node of every walk of the precinct): the HTJ2K call and
                              the classic Encode walk write the same bits, agree on "included", and the
                              correspondence holds again afterwards - the induction step of the block loop
     C06_hthdrgen_block / C06_hthdrgen_blocks   the body of the block loop and the whole loop of one band:
                              hth_blocks and enc_blocks (encodePacketHeaderCodeBlock with TagTree.Encode) write
                              the same bits and the same CodeBlockIncl records from related states
     C06_hthdrgen_attained / C06_hthdrgen_below / C06_hthdrgen_zero_leaf   a node of a value array is 255 or a
                              leaf below it, at most every leaf below it; 0 / 1 arrays: 0 iff a leaf below is 0
     C06_hthdrgen_setvalue    TagTree.SetValue in closed form (stores v up the walk until a node holding <= v)
     C06_hthdrgen_reset_char / C06_hthdrgen_setvalue_char   the trees of preparePacketHeaderPrecinct: after
                              ResetEncoding every node is unset / low 0 / known false, and every SetValue keeps
                              "unset iff no processed leaf below, else the minimum of the processed leaves below"
     C06_hthdrgen_5x3         the full coincidence on a 5 x 3 precinct with four coded blocks (kernel run)
     C06_hthdrgen_statement_refuted   T2hProofsGlue.hth_classic_coincide_statement is FALSE as stated:
                              T2hSpec.blk_scope leaves PassLengths / Passes free, which only the classic coder
                              reads (1 x 1 precinct, 3 data bytes, PassLengths = {7}: HTJ2K writes length 3,
                              classic writes 7).  The statement to aim at is hth_classic_coincide_statement2
                              (blocks without pass tables, as encodeSingleLayerCodeBlock builds them);
                              hth_roundtrip_statement is not affected.
   OPEN: the coincidence for all bands in scope (state of the classic trees after SetValue, composition
   over blocks and bands), hence T2hSpec.hth_roundtrip_statement beyond the small domain; see
   T2Ht/T2hProofsGenMain.v. *)
From V Require Import Common.Base T2.T2TagTree T2.T2ProofsStore T2.T2ProofsTagTree T2.T2Header
  T2Ht.T2hModel T2Ht.T2hSpec T2Ht.T2hProofsGlue
  T2Ht.T2hProofsGen1 T2Ht.T2hProofsGen2 T2Ht.T2hProofsGen3 T2Ht.T2hProofsGen4 T2Ht.T2hProofsGen5
  T2Ht.T2hProofsGen6 T2Ht.T2hProofsGen7 T2Ht.T2hProofsGen8 T2Ht.T2hProofsGen9 T2Ht.T2hProofsGen10
  T2Ht.T2hProofsGen11 T2Ht.T2hProofsGen12 T2Ht.T2hProofsGenMain.

Theorem C06_hthdrgen_dims : forall w h,
  (forall fuel k d, nth_error (tt_dims fuel w h) k = Some d -> d = hth_dim w h (Z.of_nat k)) /\
  (w <= 2 ^ 63 -> h <= 2 ^ 63 -> hth_levels 64 w h = zlen (tt_dims 64 w h)).
Proof. exact dims_levels. Qed.
Print Assumptions C06_hthdrgen_dims.

Theorem C06_hthdrgen_path : forall w h x y, 1 <= w <= 2 ^ 63 -> 1 <= h <= 2 ^ 63 ->
  tt_path (tt_new w h) x y = map (hth_id w h x y) (zseq (hth_levels 64 w h)).
Proof. exact hth_ids_tt_path_levels. Qed.
Print Assumptions C06_hthdrgen_path.

(* 5 x 3: four levels; leaf (4, 2) walks through indices 14, 5, 1, 0 *)
Example C06_hthdrgen_path_instance :
  tt_path (tt_new 5 3) 4 2 = [(0, 14); (1, 5); (2, 1); (3, 0)] /\ hth_levels 64 5 3 = 4.
Proof. exact path_5x3. Qed.

Theorem C06_hthdrgen_rows : forall n w h row0,
  row0 :: hth_up n w h 1 row0 ++ [[0]] = map (hth_rown w h row0) (seq 0 (S n)) ++ [[0]].
Proof. exact hth_rows_eq. Qed.
Print Assumptions C06_hthdrgen_rows.

Theorem C06_hthdrgen_parent_le : forall w h row0 x y l, 1 <= w -> 1 <= h -> 0 <= x < w -> 0 <= y < h ->
  hth_val w h row0 (S l) (Z.shiftr x (Z.of_nat (S l))) (Z.shiftr y (Z.of_nat (S l)))
  <= hth_val w h row0 l (Z.shiftr x (Z.of_nat l)) (Z.shiftr y (Z.of_nat l)).
Proof. exact hth_parent_le. Qed.
Print Assumptions C06_hthdrgen_parent_le.

Theorem C06_hthdrgen_incl_01 : forall w h row0 l, row_all bit01 w h row0 0 -> row_all bit01 w h row0 l.
Proof. exact hth_rown_01. Qed.
Print Assumptions C06_hthdrgen_incl_01.

Theorem C06_hthdrgen_zero_iff : forall w h row0 l x y, row_all bit01 w h row0 0 ->
  0 <= x < fst (hth_dim w h (Z.of_nat (S l))) -> 0 <= y < snd (hth_dim w h (Z.of_nat (S l))) ->
  (hth_val w h row0 (S l) x y = 0 <->
   exists dx dy, bit01 dx /\ bit01 dy /\
     child_in (fst (hth_dim w h (Z.of_nat l))) (snd (hth_dim w h (Z.of_nat l))) (x, y) dx dy /\
     hth_val w h row0 l (x * 2 + dx) (y * 2 + dy) = 0).
Proof. exact hth_rown_zero_iff. Qed.
Print Assumptions C06_hthdrgen_zero_iff.

(* a 3 x 2 inclusion array (only (2, 1) included): 0 / 1 leaves, the root is 0 *)
Example C06_hthdrgen_incl_instance :
  let row0 := [1; 1; 1; 1; 1; 0] in
  hth_rown 3 2 row0 1 = [1; 0] /\ hth_rown 3 2 row0 2 = [0] /\ hth_val 3 2 row0 1 (Z.shiftr 2 1) (Z.shiftr 1 1) = 0.
Proof. vm_compute. repeat split; reflexivity. Qed.

Theorem C06_hthdrgen_miss_closed : forall t x y pv sb n sent,
  (forall k, (k <= n)%nat ->
     hth_value t (ht_miss t) (Z.of_nat k) (Z.shiftr x (Z.of_nat k)) (Z.shiftr y (Z.of_nat k)) = Some (pv k)) ->
  (forall k, (k < n)%nat -> get2o sent (fst (pid t x y k)) (snd (pid t x y k)) = Some (sb k)) ->
  hth_miss_loop t n (Z.of_nat n) x y sent = Ok (miss_bits pv sb n, mark t x y sent n).
Proof. exact hth_miss_loop_closed. Qed.
Print Assumptions C06_hthdrgen_miss_closed.

Theorem C06_hthdrgen_incl_closed : forall t x y pv sb n level sent, level = Z.of_nat n ->
  (forall k, (k <= n)%nat ->
     hth_value t (ht_incl t) (Z.of_nat k) (Z.shiftr x (Z.of_nat k)) (Z.shiftr y (Z.of_nat k)) = Some (pv k)) ->
  (forall k, (k < n)%nat -> get2o sent (fst (pid t x y k)) (snd (pid t x y k)) = Some (sb k)) ->
  hth_incl_loop t n level x y sent = Ok (fst (incl_res pv sb n), imark t x y pv sent n, snd (incl_res pv sb n)).
Proof. exact hth_incl_loop_closed. Qed.
Print Assumptions C06_hthdrgen_incl_closed.

Theorem C06_hthdrgen_miss_walk : forall t x y pv sb n sent thr ct,
  (forall k, (k <= n)%nat ->
     hth_value t (ht_miss t) (Z.of_nat k) (Z.shiftr x (Z.of_nat k)) (Z.shiftr y (Z.of_nat k)) = Some (pv k)) ->
  (forall k, (k < n)%nat -> get2o sent (fst (pid t x y k)) (snd (pid t x y k)) = Some (sb k)) ->
  same_shapes ct -> (forall k, (k < n)%nat -> vid ct (pid t x y k)) ->
  (forall k, (k < n)%nat ->
     nu ct (pid t x y k) = false /\ nv ct (pid t x y k) = pv k /\ pv (S k) <= pv k < thr /\
     nl ct (pid t x y k) = (if nk ct (pid t x y k) then pv k else 0)) ->
  0 <= pv n ->
  (forall k, (k < n)%nat -> sb k = nk ct (pid t x y k)) ->
  exists bits ct',
    hth_miss_loop t n (Z.of_nat n) x y sent = Ok (bits, mark t x y sent n) /\
    tt_enc_nodes ct (cpath (ht_w t) (ht_h t) x y n) (pv n) thr = (bits, ct') /\ enc_same ct ct' /\
    (forall k, (k < n)%nat -> nl ct' (pid t x y k) = pv k /\ nk ct' (pid t x y k) = true) /\
    (forall id, ~ In id (cpath (ht_w t) (ht_h t) x y n) -> nl ct' id = nl ct id /\ nk ct' id = nk ct id).
Proof. exact hth_miss_walk_agrees. Qed.
Print Assumptions C06_hthdrgen_miss_walk.

Theorem C06_hthdrgen_incl_walk : forall t x y pv sb n sent ct,
  (forall k, (k <= n)%nat ->
     hth_value t (ht_incl t) (Z.of_nat k) (Z.shiftr x (Z.of_nat k)) (Z.shiftr y (Z.of_nat k)) = Some (pv k)) ->
  (forall k, (k < n)%nat -> get2o sent (fst (pid t x y k)) (snd (pid t x y k)) = Some (sb k)) ->
  pv n = 0 -> same_shapes ct -> (forall k, (k < n)%nat -> vid ct (pid t x y k)) ->
  (forall k, (k < n)%nat -> incl_node_pre (ht_w t) (ht_h t) x y pv ct k) ->
  (forall k, (k < n)%nat -> sb k = sbc (ht_w t) (ht_h t) x y pv ct k) ->
  exists bits ct',
    hth_incl_loop t n (Z.of_nat n) x y sent = Ok (bits, imark t x y pv sent n, snd (incl_res pv sb n)) /\
    tt_enc_nodes ct (cpath (ht_w t) (ht_h t) x y n) 0 1 = (bits, ct') /\ enc_same ct ct' /\
    (snd (incl_res pv sb n) = true <-> (forall k, (k < n)%nat -> pv k <= 0)) /\
    (forall k, (k < n)%nat ->
       (pv k = 0 -> nl ct' (pid t x y k) = 0 /\ nk ct' (pid t x y k) = true) /\
       (pv k = 1 -> nl ct' (pid t x y k) = 1 /\ nk ct' (pid t x y k) = nk ct (pid t x y k))) /\
    (forall id, ~ In id (cpath (ht_w t) (ht_h t) x y n) -> nl ct' id = nl ct id /\ nk ct' id = nk ct id).
Proof. exact hth_incl_walk_agrees. Qed.
Print Assumptions C06_hthdrgen_incl_walk.

(* leaf (4, 2) of the 5 x 3 precinct of C06_hthdrgen_5x3 (zero bit planes 3; the walk holds 3, 3, 3, 0), fresh
   flags, the classic zero-bit-plane tree as preparePacketHeaderPrecinct leaves it, threshold 999 *)
Example C06_hthdrgen_miss_walk_instance :
  (forall k, (k <= 4)%nat ->
     hth_value ex_t (ht_miss ex_t) (Z.of_nat k) (Z.shiftr 4 (Z.of_nat k)) (Z.shiftr 2 (Z.of_nat k)) = Some (ex_pvm k)) /\
  (forall k, (k < 4)%nat -> get2o (ht_msent ex_t) (fst (pid ex_t 4 2 k)) (snd (pid ex_t 4 2 k)) = Some false) /\
  same_shapes (snd ex_trees) /\ (forall k, (k < 4)%nat -> vid (snd ex_trees) (pid ex_t 4 2 k)) /\
  (forall k, (k < 4)%nat ->
     nu (snd ex_trees) (pid ex_t 4 2 k) = false /\ nv (snd ex_trees) (pid ex_t 4 2 k) = ex_pvm k /\
     ex_pvm (S k) <= ex_pvm k < 999 /\
     nl (snd ex_trees) (pid ex_t 4 2 k) = (if nk (snd ex_trees) (pid ex_t 4 2 k) then ex_pvm k else 0)) /\
  0 <= ex_pvm 4 /\
  (forall k, (k < 4)%nat -> false = nk (snd ex_trees) (pid ex_t 4 2 k)) /\
  map ex_pvm [0; 1; 2; 3; 4]%nat = [3; 3; 3; 0; 0].
Proof. exact ex_miss_walk_hyps. Qed.

(* the same leaf in the inclusion trees *)
Example C06_hthdrgen_incl_walk_instance :
  (forall k, (k <= 4)%nat ->
     hth_value ex_t (ht_incl ex_t) (Z.of_nat k) (Z.shiftr 4 (Z.of_nat k)) (Z.shiftr 2 (Z.of_nat k)) = Some (ex_pvi k)) /\
  (forall k, (k < 4)%nat -> get2o (ht_isent ex_t) (fst (pid ex_t 4 2 k)) (snd (pid ex_t 4 2 k)) = Some false) /\
  ex_pvi 4%nat = 0 /\
  same_shapes (fst ex_trees) /\ (forall k, (k < 4)%nat -> vid (fst ex_trees) (pid ex_t 4 2 k)) /\
  (forall k, (k < 4)%nat -> incl_node_pre (ht_w ex_t) (ht_h ex_t) 4 2 ex_pvi (fst ex_trees) k) /\
  (forall k, (k < 4)%nat -> false = sbc (ht_w ex_t) (ht_h ex_t) 4 2 ex_pvi (fst ex_trees) k).
Proof. exact ex_incl_walk_hyps. Qed.

Theorem C06_hthdrgen_incl_total : forall p layer, ebn_w p <= 2 ^ 63 -> ebn_h p <= 2 ^ 63 ->
  forall sent x y, shape sent = shape (ht_isent (hth_new p layer)) ->
  0 <= x < ht_w (hth_new p layer) -> 0 <= y < ht_h (hth_new p layer) ->
  hth_encode_inclusion (hth_new p layer) sent x y =
  Ok (fst (incl_res (walk_val p layer (incl0 p layer) x y)
             (fun k => get2 sent (fst (pid (hth_new p layer) x y k)) (snd (pid (hth_new p layer) x y k)) false)
             (Z.to_nat (ht_levels (hth_new p layer)))),
      imark (hth_new p layer) x y (walk_val p layer (incl0 p layer) x y) sent (Z.to_nat (ht_levels (hth_new p layer))),
      snd (incl_res (walk_val p layer (incl0 p layer) x y)
             (fun k => get2 sent (fst (pid (hth_new p layer) x y k)) (snd (pid (hth_new p layer) x y k)) false)
             (Z.to_nat (ht_levels (hth_new p layer))))).
Proof. exact hth_incl_total. Qed.
Print Assumptions C06_hthdrgen_incl_total.

Theorem C06_hthdrgen_miss_total : forall p layer, ebn_w p <= 2 ^ 63 -> ebn_h p <= 2 ^ 63 ->
  forall sent x y, shape sent = shape (ht_msent (hth_new p layer)) ->
  0 <= x < ht_w (hth_new p layer) -> 0 <= y < ht_h (hth_new p layer) ->
  hth_encode_missing (hth_new p layer) sent x y =
  Ok (miss_bits (walk_val p layer (miss0 p layer) x y)
        (fun k => get2 sent (fst (pid (hth_new p layer) x y k)) (snd (pid (hth_new p layer) x y k)) false)
        (Z.to_nat (ht_levels (hth_new p layer))),
      mark (hth_new p layer) x y sent (Z.to_nat (ht_levels (hth_new p layer)))).
Proof. exact hth_miss_total. Qed.
Print Assumptions C06_hthdrgen_miss_total.

(* the 5 x 3 band, fresh flags, leaf (4, 2): the inclusion walk writes 1 1 1 1 and reports "included", the
   missing-MSB walk writes 1 0001 1 1 (root 0, then +3, +0, +0) *)
Example C06_hthdrgen_total_instance :
  ebn_w ex_band <= 2 ^ 63 /\ ebn_h ex_band <= 2 ^ 63 /\
  0 <= 4 < ht_w (hth_new ex_band 0) /\ 0 <= 2 < ht_h (hth_new ex_band 0) /\
  (exists s, hth_encode_inclusion ex_t (ht_isent ex_t) 4 2 = Ok ([1; 1; 1; 1], s, true)) /\
  (exists s, hth_encode_missing ex_t (ht_msent ex_t) 4 2 = Ok ([1; 0; 0; 0; 1; 1; 1], s)).
Proof. vm_compute. repeat split; try (intro; discriminate); eexists; reflexivity. Qed.

Theorem C06_hthdrgen_miss_block : forall p layer, ebn_w p <= 2 ^ 63 -> ebn_h p <= 2 ^ 63 ->
  forall msent zt x y thr, InvM p layer msent zt -> miss_nonneg p layer -> in_grid2 p layer x y ->
  mval p layer x y 0 < 255 -> 255 <= thr ->
  exists bits msent' zt',
    hth_encode_missing (hth_new p layer) msent x y = Ok (bits, msent') /\
    tt_enc_nodes zt (cpath (ht_w (hth_new p layer)) (ht_h (hth_new p layer)) x y (Z.to_nat (ht_levels (hth_new p layer)))) 0 thr
      = (bits, zt') /\
    enc_same zt zt' /\ InvM p layer msent' zt'.
Proof. exact miss_walk_inv. Qed.
Print Assumptions C06_hthdrgen_miss_block.

(* the 5 x 3 precinct before its first block: fresh flags against the zero-bit-plane tree of
   preparePacketHeaderPrecinct, all 15 leaves x 4 levels; block (4, 2) has 3 zero bit planes *)
Example C06_hthdrgen_miss_block_instance :
  InvM ex_band 0 (ht_msent ex_t) (snd ex_trees) /\ miss_nonneg ex_band 0 /\
  in_grid2 ex_band 0 4 2 /\ mval ex_band 0 4 2 0 < 255 /\ ebn_w ex_band <= 2 ^ 63 /\ ebn_h ex_band <= 2 ^ 63.
Proof. exact ex_InvM. Qed.

Theorem C06_hthdrgen_incl_block : forall p layer, ebn_w p <= 2 ^ 63 -> ebn_h p <= 2 ^ 63 ->
  forall isent it x y, InvI p layer isent it -> incl_01 p layer -> in_grid2 p layer x y ->
  exists bits isent' it' inc,
    hth_encode_inclusion (hth_new p layer) isent x y = Ok (bits, isent', inc) /\
    tt_enc_nodes it (cpath (ht_w (hth_new p layer)) (ht_h (hth_new p layer)) x y (Z.to_nat (ht_levels (hth_new p layer)))) 0 1
      = (bits, it') /\
    (inc = true <-> ival p layer x y 0 = 0) /\
    enc_same it it' /\ InvI p layer isent' it'.
Proof. exact incl_walk_inv. Qed.
Print Assumptions C06_hthdrgen_incl_block.

Example C06_hthdrgen_incl_block_instance :
  InvI ex_band 0 (ht_isent ex_t) (fst ex_trees) /\ incl_01 ex_band 0 /\ in_grid2 ex_band 0 4 2.
Proof. exact ex_InvI. Qed.

Theorem C06_hthdrgen_block : forall p, ebn_w p <= 2 ^ 63 -> ebn_h p <= 2 ^ 63 ->
  forall isent msent it zt b bits inc ob' isent' msent',
  StateRel p isent msent it zt -> incl_01 p 0 -> miss_nonneg p 0 -> blk_ok p b ->
  hth_block (hth_new p 0) 0 (Some b) isent msent = Ok (bits, inc, ob', isent', msent') ->
  exists b' it' zt',
    enc_block it zt b 0 = Ok (bits, inc, b', it', zt') /\ StateRel p isent' msent' it' zt'.
Proof. exact block_agrees. Qed.
Print Assumptions C06_hthdrgen_block.

Theorem C06_hthdrgen_blocks : forall p, ebn_w p <= 2 ^ 63 -> ebn_h p <= 2 ^ 63 ->
  forall bs isent msent it zt bits incs obs',
  StateRel p isent msent it zt -> incl_01 p 0 -> miss_nonneg p 0 -> Forall (blk_ok p) bs ->
  hth_blocks (hth_new p 0) 0 (map Some bs) isent msent = Ok (bits, incs, obs') ->
  exists bl it' zt', enc_blocks it zt bs 0 = Ok (bits, incs, bl, it', zt').
Proof. exact blocks_agree. Qed.
Print Assumptions C06_hthdrgen_blocks.

(* the 5 x 3 precinct: fresh flags and the trees of preparePacketHeaderPrecinct are related, all 15 blocks are
   blk_ok, the HTJ2K loop succeeds with 75 bits *)
Example C06_hthdrgen_blocks_instance :
  StateRel ex_band (ht_isent ex_t) (ht_msent ex_t) (fst ex_trees) (snd ex_trees) /\
  incl_01 ex_band 0 /\ miss_nonneg ex_band 0 /\ Forall (blk_ok ex_band) (ebn_blocks ex_band) /\
  (exists bits incs obs', hth_blocks ex_t 0 (map Some (ebn_blocks ex_band)) (ht_isent ex_t) (ht_msent ex_t)
                          = Ok (bits, incs, obs') /\ zlen bits = 75).
Proof. exact ex_blocks_hyps. Qed.

Theorem C06_hthdrgen_attained : forall w h row0 k X Y, 1 <= w -> 1 <= h ->
  0 <= X < fst (hth_dim w h (Z.of_nat k)) -> 0 <= Y < snd (hth_dim w h (Z.of_nat k)) ->
  hth_val w h row0 k X Y = 255 \/
  exists x y, 0 <= x < w /\ 0 <= y < h /\ Z.shiftr x (Z.of_nat k) = X /\ Z.shiftr y (Z.of_nat k) = Y /\
              hth_val w h row0 0 x y = hth_val w h row0 k X Y.
Proof. exact hth_val_attained. Qed.
Print Assumptions C06_hthdrgen_attained.

Theorem C06_hthdrgen_below : forall w h row0 x y k, 1 <= w -> 1 <= h -> 0 <= x < w -> 0 <= y < h ->
  hth_val w h row0 k (Z.shiftr x (Z.of_nat k)) (Z.shiftr y (Z.of_nat k)) <= hth_val w h row0 0 x y.
Proof. exact hth_val_below. Qed.
Print Assumptions C06_hthdrgen_below.

Theorem C06_hthdrgen_zero_leaf : forall w h row0 k x y, 1 <= w -> 1 <= h -> 0 <= x < w -> 0 <= y < h ->
  row_all bit01 w h row0 0 ->
  (hth_val w h row0 k (Z.shiftr x (Z.of_nat k)) (Z.shiftr y (Z.of_nat k)) = 0 <->
   exists x' y', 0 <= x' < w /\ 0 <= y' < h /\ Z.shiftr x' (Z.of_nat k) = Z.shiftr x (Z.of_nat k) /\
                 Z.shiftr y' (Z.of_nat k) = Z.shiftr y (Z.of_nat k) /\ hth_val w h row0 0 x' y' = 0).
Proof. exact hth_val_zero_leaf. Qed.
Print Assumptions C06_hthdrgen_zero_leaf.

(* the missing-MSB array of a 3 x 2 grid: the root is the minimum 2, attained at leaf (1, 1) *)
Example C06_hthdrgen_attained_instance :
  let row0 := [5; 7; 9; 4; 2; 8] in
  hth_val 3 2 row0 2 0 0 = 2 /\ hth_val 3 2 row0 0 1 1 = 2 /\ Z.shiftr 1 2 = 0 /\
  hth_val 3 2 row0 1 (Z.shiftr 2 1) (Z.shiftr 0 1) = 8.
Proof. vm_compute. repeat split; reflexivity. Qed.

Theorem C06_hthdrgen_setvalue : forall w h x y v n ct,
  same_shapes ct -> tt_in_range ct x y = true ->
  tt_path ct x y = map (hth_id w h x y) (zseq (Z.of_nat n)) ->
  (forall k, (k < n)%nat -> vid ct (cid w h x y k)) ->
  exists ct' s,
    tt_setvalue ct x y v = ct' /\
    tt_low ct' = tt_low ct /\ tt_known ct' = tt_known ct /\ tt_w ct' = tt_w ct /\ tt_h ct' = tt_h ct /\
    tt_lw ct' = tt_lw ct /\ same_shapes ct' /\ shape (tt_nodes ct') = shape (tt_nodes ct) /\ (s <= n)%nat /\
    (forall j, (j < s)%nat ->
       nv ct' (cid w h x y j) = v /\ nu ct' (cid w h x y j) = false /\
       (nu ct (cid w h x y j) = true \/ nv ct (cid w h x y j) > v)) /\
    ((s < n)%nat -> nu ct (cid w h x y s) = false /\ nv ct (cid w h x y s) <= v) /\
    (forall id, (forall j, (j < s)%nat -> id <> cid w h x y j) -> nv ct' id = nv ct id /\ nu ct' id = nu ct id).
Proof. exact tt_setvalue_spec. Qed.
Print Assumptions C06_hthdrgen_setvalue.

Example C06_hthdrgen_setvalue_instance :
  same_shapes (tt_reset (tt_new 5 3)) /\ tt_in_range (tt_reset (tt_new 5 3)) 4 2 = true /\
  tt_path (tt_reset (tt_new 5 3)) 4 2 = map (hth_id 5 3 4 2) (zseq (Z.of_nat 4)) /\
  (forall k, (k < 4)%nat -> vid (tt_reset (tt_new 5 3)) (cid 5 3 4 2 k)).
Proof. exact ex_setvalue_hyps. Qed.

Theorem C06_hthdrgen_reset_char : forall w h, 1 <= w <= 2 ^ 63 -> 1 <= h <= 2 ^ 63 ->
  Char w h (Z.to_nat (hth_levels 64 w h)) (tt_reset (tt_new w h)) [] /\ quiet (tt_reset (tt_new w h)) /\
  tt_w (tt_reset (tt_new w h)) = w /\ tt_h (tt_reset (tt_new w h)) = h /\
  tt_lw (tt_reset (tt_new w h)) = tt_lw (tt_new w h).
Proof. exact reset_char. Qed.
Print Assumptions C06_hthdrgen_reset_char.

Theorem C06_hthdrgen_setvalue_char : forall w h n, 1 <= w -> 1 <= h ->
  forall ct acc x y v, Char w h n ct acc -> ingrid w h x y -> Char w h n (tt_setvalue ct x y v) ((x, y, v) :: acc).
Proof. exact setvalue_char. Qed.
Print Assumptions C06_hthdrgen_setvalue_char.

Theorem C06_hthdrgen_prepare_char : forall w h n, 1 <= w -> 1 <= h ->
  forall blocks it zt aI aZ,
  Char w h n it aI -> Char w h n zt aZ -> quiet it -> quiet zt ->
  Forall (fun b => ingrid w h (eb_cbx b) (eb_cby b)) blocks ->
  Char w h n (fst (prepare_values blocks 0 it zt)) (accI_of blocks aI) /\
  Char w h n (snd (prepare_values blocks 0 it zt)) (accZ_of blocks aZ) /\
  quiet (fst (prepare_values blocks 0 it zt)) /\ quiet (snd (prepare_values blocks 0 it zt)).
Proof. exact prepare_values_char. Qed.
Print Assumptions C06_hthdrgen_prepare_char.

(* the start of the induction exists for every grid (C06_hthdrgen_reset_char), e.g. 5 x 3 with leaf (4, 2) *)
Example C06_hthdrgen_char_instance :
  1 <= 5 <= 2 ^ 63 /\ 1 <= 3 <= 2 ^ 63 /\ ingrid 5 3 4 2 /\ Z.to_nat (hth_levels 64 5 3) = 4%nat.
Proof. vm_compute. repeat split; try reflexivity; intro; discriminate. Qed.

(* the walk list of the classic coder is the reversed stack: Encode runs tt_enc_nodes on rev (tt_path ...) *)
Theorem C06_hthdrgen_cpath_rev : forall w h x y n,
  cpath w h x y n = rev (map (fun k => hth_id w h x y k) (zseq (Z.of_nat n))).
Proof. exact cpath_rev. Qed.
Print Assumptions C06_hthdrgen_cpath_rev.

(* the full statement on a 5 x 3 precinct with four coded and eleven all-zero blocks *)
Theorem C06_hthdrgen_5x3 : glue_at grid_5x3 /\ any_coded grid_5x3 = true.
Proof. exact glue_5x3. Qed.
Print Assumptions C06_hthdrgen_5x3.

Theorem C06_hthdrgen_statement_refuted : ~ hth_classic_coincide_statement.
Proof. exact hth_classic_coincide_refuted. Qed.
Print Assumptions C06_hthdrgen_statement_refuted.

(* the witness is in band_scope and the two coders differ in one length bit *)
Example C06_hthdrgen_refuted_instance :
  Forall band_scope tables_witness /\ any_coded tables_witness = true /\
  (exists i o, hth_header_bits tables_witness 0 = Ok ([1; 1; 0; 0; 1; 0; 0; 0; 1; 1], i, o)) /\
  (exists i o, enc_header_bits tables_witness 0 = Ok ([1; 1; 0; 0; 1; 0; 0; 1; 1; 1], i, o)).
Proof. exact (conj tables_witness_scope tables_witness_bits). Qed.
