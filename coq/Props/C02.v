(* C02 — JPEG Lossless (process 14, predictors 1-7, automatic selection) and the
   Selection-Value-1 codec: exact reconstruction. Property theorems only.
    *)
From V Require Import Common.Base JpegLL.JllBits JpegLL.JllHuff JpegLL.JllModel JpegLL.JllT81
  JpegLL.JllProofsBits JpegLL.JllProofsHuff JpegLL.JllProofs JpegLL.JllProofsRT JpegLL.JllProofsT81
  JpegLL.JllProofsCanon JpegLL.JllProofsT81Dec JpegLL.JllProofsOpt JpegLL.JllProofsOpt2
  JpegLL.JllProofsOpt3 JpegLL.JllProofsOpt4.

(* All 65536 differences d in [-32768, 32767] go through EncodeLosslessDifference /
   ReceiveLosslessDifference exactly: the category is at most 16 (16 only for -32768, without
   magnitude bits), it is the category counted for the Huffman table (diffCategory), and the
   decoder's EXTEND of the magnitude bits gives d back. *)
Theorem C02_category_exhaustive : forall d, -32768 <= d <= 32767 ->
  let '(cat, mag) := encode_lossless_diff d in
  0 <= cat <= 16 /\ lossless_value cat (mag mod 2 ^ cat) = d /\ cat = diff_category d.
Proof. exact cat_exhaustive. Qed.
Print Assumptions C02_category_exhaustive.

(* jpeg/lossless: for every precision, every sample below 2^P and EVERY predicted value (so
   every predictor 1-7, every neighbourhood, every edge rule), the decoder's reconstruction
   (sum modulo 2^16) of the encoder's int16-narrowed difference is the sample. *)
Theorem C02_diff_reconstruct : forall P x px, 2 <= P <= 16 -> 0 <= x < 2 ^ P ->
  recon16 px (narrow_diff x px) = x.
Proof. exact diff_reconstruct. Qed.
Print Assumptions C02_diff_reconstruct.

(* jpeg/lossless14sv1 (single wrap by 2^P): exact whenever the prediction is itself a sample
   value, which is all the SV1 codec (predictor 1) ever uses. *)
Theorem C02_diff_reconstruct_sv1 : forall P x px, 2 <= P <= 16 -> 0 <= x < 2 ^ P -> 0 <= px < 2 ^ P ->
  recon (2 ^ P) px (narrow_diff x px) = x.
Proof. exact diff_reconstruct_single_wrap. Qed.
Print Assumptions C02_diff_reconstruct_sv1.

(* For every valid Huffman table (BITS/HUFFVAL, Kraft sum <= 1 over lengths 1..16, distinct
   symbols) the bit-serial mincode/maxcode/valptr decoder of HuffmanTable.Build/Decode, reading
   through the byte-stuffing bit reader, returns the symbol whose BuildHuffmanCodes code starts
   the stream, and leaves the rest of the stream. *)
Theorem C02_huff_prefix_decode : forall bits vals s st B,
  t81_table_ok bits vals = true -> In s vals ->
  rep st (bits_of (Z.to_nat (snd (code_of bits vals s))) (fst (code_of bits vals s)) ++ B) ->
  exists st', huff_decode (ht_of bits vals) st = Some (s, st') /\ rep st' B.
Proof. exact huff_prefix_decode. Qed.
Print Assumptions C02_huff_prefix_decode.

(* ... and that decoder (HuffmanTable.Build's mincode/maxcode/valptr + bit-serial Decode) is the
   canonical decoder of the Annex C code table on EVERY input, code word or not. *)
Theorem C02_mmv_decoder_is_canonical : forall bits vals st, table_facts bits vals ->
  huff_decode (ht_of bits vals) st = canon_decode 16 (t81_entries bits vals) 0 0 st.
Proof. exact mmv_decoder_is_canonical. Qed.
Print Assumptions C02_mmv_decoder_is_canonical.

(* The lookupTable fast path of HuffmanDecoder.Decode (taken only when nBits >= 8, and whose
   table Build fills wrongly) is dead: every ReadBit / ReadBits leaves 0 <= nBits <= 7. *)
Theorem C02_fast_path_dead : forall st n v st', 0 <= r_n st <= 7 -> 0 <= n ->
  read_bits st n = Some (v, st') -> 0 <= r_n st' <= 7.
Proof. exact fast_path_dead_read_bits. Qed.
Print Assumptions C02_fast_path_dead.
Theorem C02_fast_path_dead_bit : forall st b st', 0 <= r_n st <= 7 ->
  read_bit st = Some (b, st') -> 0 <= r_n st' <= 7.
Proof. exact fast_path_dead_read_bit. Qed.
Print Assumptions C02_fast_path_dead_bit.

(* HuffmanTable.Build validates the table first: it never panics, whatever BITS/HUFFVAL are,
   and returns the table when it is valid *)
Theorem C02_build_never_panics : forall bits vals, build_table bits vals <> Panic.
Proof. exact build_table_never_panics. Qed.
Print Assumptions C02_build_never_panics.
Theorem C02_build_no_panic : forall bits vals, table_facts bits vals ->
  build_table bits vals = Ok (ht_of bits vals).
Proof. exact build_table_no_panic. Qed.
Print Assumptions C02_build_no_panic.

(* Whatever sequence of (value, bit count 1..16) the bit writer wrote (0xFF/0x00 stuffing,
   1-padding on Flush), the bit reader reads back, whatever follows the scan. *)
Theorem C02_stuff_unstuff : forall ws tail,
  Forall (fun vn => 0 < snd vn <= 16) ws ->
  read_all (r_init (write_all w_init ws ++ tail)) (map snd ws)
  = Some (map (fun vn => fst vn mod 2 ^ snd vn) ws).
Proof. exact stuff_unstuff. Qed.
Print Assumptions C02_stuff_unstuff.

(* BuildOptimalHuffmanTable (libjpeg's jpeg_gen_optimal_table: merge loop with pseudo symbol 256,
   others-chains, 256 -> 16 length limiting, removal of the pseudo symbol), applied to 256
   non-negative counters that are zero outside the categories 0..16 and not all zero, ALWAYS
   returns a valid canonical table (16 byte counts, Kraft sum <= 1, distinct byte symbols, as
   many symbols as codes) that contains every symbol with a non-zero count.  Proof: every tree
   of the merge forest satisfies the Kraft equality (JllProofsOpt); the numeric post-processing
   is decided for all 11918 Kraft-complete count vectors with at most 18 leaves of depth <= 17
   by a pruned exhaustive search whose completeness is proved (JllProofsOpt2). *)
Theorem C02_build_table_ok : forall freqs, freqs_ok freqs ->
  (exists i, 0 <= i < 256 /\ znth freqs i 0 <> 0) ->
  exists bits vals, build_optimal freqs = Ok (bits, vals) /\ t81_table_ok bits vals = true /\
    (forall i, 0 <= i < 256 -> znth freqs i 0 <> 0 -> In i vals).
Proof. exact build_optimal_ok. Qed.
Print Assumptions C02_build_table_ok.

(* For ANY 256 non-negative counters with sum < 2^63 (not only those of the lossless encoders)
   the merge loop of BuildOptimalHuffmanTable terminates with all code sizes <= 256 (a forest of
   257 trees undergoes at most 256 merges), so `bits[size]++` on the 257-entry array cannot index
   out of range (finding F48: the array had 33 entries), and the function reduces to the length
   limiting of that count vector.  (That the limiting itself never fails for arbitrary vectors is
   build_optimal_no_panic_statement, not proved.) *)
Theorem C02_build_count_sizes_ok : forall freqs, freqs_gen freqs ->
  exists cs bits,
    merge_loop 258 (freq0 freqs) (repeat 0 257) (repeat (-1) 257) = Ok cs /\
    count_sizes cs (repeat 0 257) = Ok bits /\
    build_optimal freqs =
    obind (limit_all sizes_hi bits) (fun bits' =>
      Ok (firstn 16 (skipn 1 (remove_pseudo 257 bits' 256)), opt_values cs)).
Proof. exact build_optimal_count_sizes_ok. Qed.
Print Assumptions C02_build_count_sizes_ok.

(* lossless.Decode (lossless.Encode img pred) = img with its geometry and precision, for every
   well-formed image (1 or 3 components, P in 2..16, samples below 2^P in the 8-bit / 16-bit
   little-endian container, dimensions 1..65535), every predictor 1..7 and automatic selection
   (0).  No hypothesis on the Huffman table is left. *)
Theorem C02_roundtrip : forall w h comps P pred pixels s,
  wf_image w h comps P pixels -> 0 <= pred <= 7 ->
  jll_encode w h comps P pred pixels = Ok s ->
  jll_decode s = Ok (pixels, w, h, comps, P).
Proof. exact jll_roundtrip_full. Qed.
Print Assumptions C02_roundtrip.

(* ... and the encoder does produce a stream for every such image *)
Theorem C02_encode_total : forall w h comps P pred pixels,
  wf_image w h comps P pixels -> 0 <= pred <= 7 -> exists s, jll_encode w h comps P pred pixels = Ok s.
Proof. exact jll_encode_total. Qed.
Print Assumptions C02_encode_total.

(* the same for the Selection-Value-1 codec *)
Theorem C02_roundtrip_sv1 : forall w h comps P pixels s,
  wf_image w h comps P pixels ->
  sv1_encode w h comps P pixels = Ok s ->
  sv1_decode s = Ok (pixels, w, h, comps, P).
Proof. exact sv1_roundtrip_full. Qed.
Print Assumptions C02_roundtrip_sv1.

(* ---------- non-vacuity ---------- *)
(* P = 15, predictor 4, the image {0,32767,32767,0} on which the decoder used to fail (F08):
   the hypotheses hold and the encoder produces a stream *)
Example C02_roundtrip_nonvacuous :
  let px := [0; 0; 255; 127; 255; 127; 0; 0] in
  wf_image 2 2 1 15 px /\
  table_hyp (ll_diffs 2 1 15 (effective_pred 2 2 1 15 4 px) (pixels_to_rows 2 2 1 15 px)) /\
  exists s, jll_encode 2 2 1 15 4 px = Ok s /\ jll_decode s = Ok (px, 2, 2, 1, 15).
Proof.
  cbv zeta. split; [|split].
  - apply wf_imageb_ok. vm_compute. reflexivity.
  - eexists. eexists. split; [vm_compute; reflexivity|]. split; [vm_compute; reflexivity|].
    apply coversb_ok. vm_compute. reflexivity.
  - eexists. split; [vm_compute; reflexivity|]. vm_compute. reflexivity.
Qed.

(* three components, P = 8, automatic selection *)
Example C02_roundtrip_nonvacuous_auto :
  let px := [10; 200; 30; 11; 201; 29; 12; 190; 35; 9; 202; 31] in
  wf_image 2 2 3 8 px /\
  table_hyp (ll_diffs 2 3 8 (effective_pred 2 2 3 8 0 px) (pixels_to_rows 2 2 3 8 px)) /\
  exists s, jll_encode 2 2 3 8 0 px = Ok s /\ jll_decode s = Ok (px, 2, 2, 3, 8).
Proof.
  cbv zeta. split; [|split].
  - apply wf_imageb_ok. vm_compute. reflexivity.
  - eexists. eexists. split; [vm_compute; reflexivity|]. split; [vm_compute; reflexivity|].
    apply coversb_ok. vm_compute. reflexivity.
  - eexists. split; [vm_compute; reflexivity|]. vm_compute. reflexivity.
Qed.

(* the SV1 codec at P = 16 with a difference of -32768 (category 16) *)
Example C02_roundtrip_sv1_nonvacuous :
  let px := [0; 0; 0; 128; 255; 255] in
  wf_image 3 1 1 16 px /\
  table_hyp (sv1_diffs 3 1 16 (pixels_to_rows 3 1 1 16 px)) /\
  In (-32768) (sv1_diffs 3 1 16 (pixels_to_rows 3 1 1 16 px)) /\
  exists s, sv1_encode 3 1 1 16 px = Ok s /\ sv1_decode s = Ok (px, 3, 1, 1, 16).
Proof.
  cbv zeta. split; [|split; [|split]].
  - apply wf_imageb_ok. vm_compute. reflexivity.
  - eexists. eexists. split; [vm_compute; reflexivity|]. split; [vm_compute; reflexivity|].
    apply coversb_ok. vm_compute. reflexivity.
  - vm_compute. tauto.
  - eexists. split; [vm_compute; reflexivity|]. vm_compute. reflexivity.
Qed.

Example C02_diff_reconstruct_nonvacuous :
  (* predictor 4 at P = 15 with Ra = Rb = 32767, Rc = 0, x = 0: the prediction 65534 is outside
     [0, 2^15) and the narrowed difference is 2 *)
  predictor 4 32767 32767 0 = 65534 /\ narrow_diff 0 65534 = 2 /\ recon16 65534 2 = 0.
Proof. vm_compute. repeat split; reflexivity. Qed.

Example C02_huff_nonvacuous :
  t81_table_ok t81_std_bits t81_std_vals = true /\ code_of t81_std_bits t81_std_vals 16 = (16382, 14).
Proof. vm_compute. split; reflexivity. Qed.
