(* C09 (RLE part) — bounded memory and time of decodeFrame for ARBITRARY uint16 FrameInfo and
   ARBITRARY input. Property theorems only. *)
From V Require Import Common.Base RLE.RleModel RLE.RleEncProofs RLE.RleDecProofs RLE.RleSafeProofs.

(* Memory: the only allocation of decodeFrame, make([]byte, frameSize), is reached only after
   the segment count of the description was matched against the stream's 1..15 segments, so
   the request is at most 15*65535*65535 + 1 = 64422543376 bytes, below makeslice's limit
   2^48 (no "len out of range" panic). The data need not even be bytes. *)
Theorem C09_rle_alloc_bound : forall fi data n, fi_u16 fi ->
  rle_decode_alloc fi data = Some n -> 0 <= n <= rle_alloc_max /\ rle_alloc_max < max_alloc.
Proof. exact rle_alloc_bound. Qed.
Print Assumptions C09_rle_alloc_bound.

(* Time: the model's loops run on fuel computed from the input length only (decode: len+1
   per segment, at most 15 segments, 16 header words); they never exhaust it. *)
Theorem C09_rle_decode_frame_terminates : forall fi data, fi_u16 fi -> bytesP data ->
  okerr (rle_decode_frame fi data).
Proof. exact rle_decode_frame_safe. Qed.
Print Assumptions C09_rle_decode_frame_terminates.

Example C09_rle_nonvacuous :
  fi_u16 (mkFI 65535 65535 120 1 0) /\
  rle_decode_alloc (mkFI 65535 65535 120 1 0) (header 15 (repeat 64 15)) = Some rle_alloc_max /\
  rle_alloc_max = 15 * 65535 * 65535 + 1.
Proof. split; [unfold fi_u16, u16; cbn; lia|]. split; vm_compute; reflexivity. Qed.
