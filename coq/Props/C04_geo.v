(* C04 — reversible single-tile JPEG 2000: the arithmetic / geometry part (area j2kgeo).
   Property theorems only.  Models: J2KGeo/GeoModel.v (convertPixelData, level shifts,
   GetPixelData; splitLengths / nextCoord / resolutionDimsWithOrigin / bandInfosForResolution of
   encoder.go and t2/geometry.go; getSubbandsForResolution; partitionIntoCodeBlocks;
   buildAndDecodeCodeBlocks grid; assembleSubbands). *)
From V Require Import Common.Base J2KGeo.GeoModel J2KGeo.GeoProofsSamples J2KGeo.GeoProofsPixels J2KGeo.GeoProofsTiles
  J2KGeo.GeoProofsBands J2KGeo.GeoProofsBlocks DWT.DwtModel.

(* Samples.  For every precision 1..16, signed or not, every representable value v: the encoder
   reads v out of the P-bit container, the level shift puts it in the signed P-bit range, the
   decoder's inverse shift and GetPixelData write back the container — v mod 2^P (two's
   complement in the low P bits, every higher bit zero) in one byte (P <= 8) or a little-endian
   16-bit word (P > 8). *)
Theorem C04_sample_codec_roundtrip : forall P signed v, 1 <= P <= 16 -> in_sample_range P signed v ->
  let bytes := pack_sample P v in
  let x := enc_sample P signed bytes in
  let s := dc_shift P signed x in
  x = v /\ - 2 ^ (P - 1) <= s < 2 ^ (P - 1) /\ dc_unshift P signed s = v /\
  dec_bytes P signed (dc_unshift P signed s) = bytes /\
  Forall (fun b => 0 <= b < 256) bytes /\ zlen bytes = bytes_per_sample P /\ 0 <= v mod 2 ^ P < 2 ^ P.
Proof. exact sample_codec_roundtrip. Qed.
Print Assumptions C04_sample_codec_roundtrip.

Example C04_sample_codec_nonvacuous :
  1 <= 12 <= 16 /\ in_sample_range 12 true (-2048) /\ pack_sample 12 (-2048) = [0; 8] /\
  in_sample_range 5 true (-3) /\ pack_sample 5 (-3) = [29] /\ enc_sample 5 true [29] = -3 /\
  in_sample_range 16 false 65535 /\ dc_shift 16 false 65535 = 32767.
Proof. unfold in_sample_range. vm_compute. repeat split; congruence. Qed.

(* Whole images (1 to 4 or any number >= 1 of components, any number of pixels): for an
   interleaved image packed in that container, convertPixelData yields component arrays holding
   the true sample values (component c, pixel i = sample i*comps + c) and GetPixelData after the
   level shift and its inverse returns the input bytes — single-component and interleaved path. *)
Theorem C04_pixel_roundtrip : forall (P : Z) (signed : bool) (numPixels comps : Z) (samples : list Z),
  1 <= P <= 16 -> 0 <= numPixels -> 1 <= comps -> zlen samples = numPixels * comps ->
  Forall (in_sample_range P signed) samples ->
  exists data, convert_pixel_data numPixels comps P signed (flat_map (pack_sample P) samples) = Ok data /\
    pixel_data_in_range numPixels comps data = true /\
    (forall c i, 0 <= c < comps -> 0 <= i < numPixels ->
       zn0 (nth (Z.to_nat c) data []) (Z.to_nat i) = zn0 samples (Z.to_nat (i * comps + c))) /\
    get_pixel_data numPixels comps P signed (level_unshift_all P signed (level_shift_all P signed data))
      = flat_map (pack_sample P) samples.
Proof. exact pixel_roundtrip. Qed.
Print Assumptions C04_pixel_roundtrip.

Example C04_pixel_roundtrip_nonvacuous :
  zlen [-1; 2; -3; 4; 5; -6] = 2 * 3 /\ Forall (in_sample_range 4 true) [-1; 2; -3; 4; 5; -6] /\
  flat_map (pack_sample 4) [-1; 2; -3; 4; 5; -6] = [15; 2; 13; 4; 5; 10] /\
  convert_pixel_data 2 3 4 true [15; 2; 13; 4; 5; 10] = Ok [[-1; 4]; [2; 5]; [-3; -6]].
Proof. unfold in_sample_range. split; [reflexivity|]. split; [repeat constructor; vm_compute; congruence|vm_compute; split; reflexivity]. Qed.

(* Bands, one resolution: the HL, LH, HH rectangles of bandInfosForResolution and the rectangle
   of the next lower resolution partition the resolution rectangle (lowW + highW = resW,
   lowH + highH = resH), for every width, height >= 0, every origin, every level count. *)
Theorem C04_bands_partition_res : forall w h x0 y0 numLevels : Z, 0 <= w -> 0 <= h ->
  forall res x y, 1 <= res <= numLevels ->
  0 <= x < winW (win_iter (level_no numLevels res) (w, h, x0, y0)) ->
  0 <= y < winH (win_iter (level_no numLevels res) (w, h, x0, y0)) ->
  let bs := enc_band_infos w h x0 y0 numLevels res in
  let lower := x < winW (win_iter (level_no numLevels (res - 1)) (w, h, x0, y0)) /\
               y < winH (win_iter (level_no numLevels (res - 1)) (w, h, x0, y0)) in
  (lower \/ exists b, In b bs /\ in_band b x y) /\
  (lower -> forall b, In b bs -> ~ in_band b x y) /\
  (forall b1 b2, In b1 bs -> In b2 bs -> in_band b1 x y -> in_band b2 x y -> b1 = b2).
Proof. exact bands_partition_res. Qed.
Print Assumptions C04_bands_partition_res.

(* Bands, all resolutions: every position of the width x height coefficient array lies in
   exactly one band; every band has non-negative size and lies inside the array. *)
Theorem C04_bands_cover : forall w h x0 y0 numLevels : Z, 0 <= w -> 0 <= h -> 0 <= numLevels ->
  forall x y, 0 <= x < w -> 0 <= y < h ->
  exists res b, 0 <= res <= numLevels /\ In b (enc_band_infos w h x0 y0 numLevels res) /\ in_band b x y.
Proof. exact bands_cover. Qed.
Print Assumptions C04_bands_cover.

Theorem C04_bands_disjoint : forall w h x0 y0 numLevels : Z, 0 <= w -> 0 <= h ->
  forall r1 b1 r2 b2 x y, 0 <= r1 <= numLevels -> 0 <= r2 <= numLevels ->
  In b1 (enc_band_infos w h x0 y0 numLevels r1) -> In b2 (enc_band_infos w h x0 y0 numLevels r2) ->
  in_band b1 x y -> in_band b2 x y -> r1 = r2 /\ b1 = b2.
Proof. exact bands_disjoint. Qed.
Print Assumptions C04_bands_disjoint.

Theorem C04_bands_inside : forall w h x0 y0 numLevels : Z, 0 <= w -> 0 <= h ->
  forall res b, 0 <= res <= numLevels -> In b (enc_band_infos w h x0 y0 numLevels res) ->
  0 <= b_w b /\ 0 <= b_h b /\ 0 <= b_ox b /\ 0 <= b_oy b /\ b_ox b + b_w b <= w /\ b_oy b + b_h b <= h.
Proof. exact bands_inside_array. Qed.
Print Assumptions C04_bands_inside.

Example C04_bands_nonvacuous :
  0 <= 7 /\ 0 <= 5 /\ 1 <= 2 <= 2 /\
  enc_band_infos 7 5 1 0 2 2 = [mkBand 1 4 3 3 0; mkBand 2 3 2 0 3; mkBand 3 4 2 3 3] /\
  enc_band_infos 7 5 1 0 2 0 = [mkBand 0 1 2 0 0] /\ in_band (mkBand 3 4 2 3 3) 6 4.
Proof. unfold in_band. vm_compute. repeat split; congruence. Qed.

(* encoder (encoder.go) and decoder (t2/geometry.go) compute the same bands and dimensions *)
Theorem C04_bands_enc_dec_agree : forall w h x0 y0 numLevels res : Z,
  snd (dec_band_infos w h x0 y0 numLevels res) = enc_band_infos w h x0 y0 numLevels res /\
  (let '(rw, rh, _, _) := fst (dec_band_infos w h x0 y0 numLevels res) in (rw, rh))
    = enc_res_dims w h x0 y0 numLevels res.
Proof. exact dec_band_infos_agree. Qed.
Print Assumptions C04_bands_enc_dec_agree.

(* The split is the DWT's: splitLengths / nextCoord / isEven are the functions of the wavelet
   package (DwtModel.split_lengths / next_coord / is_even), so the k-th resolution window of the
   band geometry is the window the k-th level of the 5/3 transform works on (nextLowpassWindow
   iterated: DwtModel.level_windows), for every size and origin. *)
Theorem C04_band_windows_are_dwt_windows : forall (k : nat) (wn : window),
  win_iter k (win_of wn) = win_of (Nat.iter k next_window wn).
Proof. exact win_iter_dwt. Qed.
Print Assumptions C04_band_windows_are_dwt_windows.

Theorem C04_split_is_dwt_split : forall (n : nat) (e : bool),
  split_len (Z.of_nat n) e = Z.of_nat (split_lengths n e).
Proof. exact split_len_dwt. Qed.
Print Assumptions C04_split_is_dwt_split.

(* FINITE (n <= 200): on the constant signal the model of Forward53_1DWithParity produces exactly
   split_len n e low-pass samples (ones) followed by high-pass samples (zeros). *)
Theorem C04_band_split_matches_dwt : forall (e : bool) (n : nat), (n <= 200)%nat -> (e = false -> 2 <= n)%nat ->
  let k := Z.to_nat (split_len (Z.of_nat n) e) in
  fwd53 e (repeat 1 n) = repeat 1 k ++ repeat 0 (n - k) /\
  k = split_lengths n e /\
  win_step (Z.of_nat n, Z.of_nat n, if e then 0 else 1, if e then 0 else 1)
    = win_of (next_window (n, n, (if e then 0 else 1), (if e then 0 else 1))).
Proof. exact band_split_matches_dwt. Qed.
Print Assumptions C04_band_split_matches_dwt.

Example C04_band_split_nonvacuous :
  (7 <= 200)%nat /\ (2 <= 7)%nat /\ fwd53 false (repeat 1 7%nat) = [1; 1; 1; 0; 0; 0; 0] /\
  split_len 7 false = 3 /\ split_len 7 true = 4.
Proof. vm_compute. repeat split; try congruence; lia. Qed.

(* Code-blocks of one band (any band size >= 0, any block size >= 1): every grid cell is a
   non-empty rectangle inside the band, the cells cover the band and are pairwise disjoint. *)
Theorem C04_codeblock_cells : forall (b : band) (cbw cbh : Z), 0 <= b_w b -> 0 <= b_h b -> 1 <= cbw -> 1 <= cbh ->
  forall cbx cby, 0 <= cbx < enc_num_tiles (b_w b) cbw -> 0 <= cby < enc_num_tiles (b_h b) cbh ->
  let '(x0, y0, x1, y1, bd) := block_cell b cbw cbh cbx cby in
  x0 = b_ox b + cbx * cbw /\ y0 = b_oy b + cby * cbh /\ x0 < x1 /\ y0 < y1 /\
  x1 <= b_ox b + b_w b /\ y1 <= b_oy b + b_h b /\
  x1 = Z.min (x0 + cbw) (b_ox b + b_w b) /\ y1 = Z.min (y0 + cbh) (b_oy b + b_h b) /\ bd = b_id b.
Proof. exact block_cell_facts. Qed.
Print Assumptions C04_codeblock_cells.

Theorem C04_codeblock_cover : forall (b : band) (cbw cbh : Z), 0 <= b_w b -> 0 <= b_h b -> 1 <= cbw -> 1 <= cbh ->
  forall x y, in_band b x y ->
  let cbx := (x - b_ox b) / cbw in let cby := (y - b_oy b) / cbh in
  0 <= cbx < enc_num_tiles (b_w b) cbw /\ 0 <= cby < enc_num_tiles (b_h b) cbh /\
  (let '(x0, y0, x1, y1, _) := block_cell b cbw cbh cbx cby in x0 <= x < x1 /\ y0 <= y < y1).
Proof. exact blocks_cover. Qed.
Print Assumptions C04_codeblock_cover.

Theorem C04_codeblock_disjoint : forall (b : band) (cbw cbh : Z), 0 <= b_w b -> 0 <= b_h b -> 1 <= cbw -> 1 <= cbh ->
  forall cbx1 cby1 cbx2 cby2 x y,
  0 <= cbx1 < enc_num_tiles (b_w b) cbw -> 0 <= cby1 < enc_num_tiles (b_h b) cbh ->
  0 <= cbx2 < enc_num_tiles (b_w b) cbw -> 0 <= cby2 < enc_num_tiles (b_h b) cbh ->
  (let '(x0, y0, x1, y1, _) := block_cell b cbw cbh cbx1 cby1 in x0 <= x < x1 /\ y0 <= y < y1) ->
  (let '(x0, y0, x1, y1, _) := block_cell b cbw cbh cbx2 cby2 in x0 <= x < x1 /\ y0 <= y < y1) ->
  cbx1 = cbx2 /\ cby1 = cby2.
Proof. exact blocks_disjoint. Qed.
Print Assumptions C04_codeblock_disjoint.

Example C04_codeblock_nonvacuous :
  0 <= b_w (mkBand 1 4 3 3 0) /\ 1 <= 4 /\ in_band (mkBand 1 4 3 3 0) 6 2 /\
  enc_num_tiles 4 4 = 1 /\ enc_num_tiles 3 2 = 2 /\ block_cell (mkBand 1 4 3 3 0) 4 2 0 1 = (3, 2, 7, 3, 1) /\
  enc_num_tiles 0 4 = 0 /\ enc_num_tiles 1 64 = 1.
Proof. unfold in_band. vm_compute. repeat split; congruence. Qed.

(* The decoder's grid (buildAndDecodeCodeBlocks) is the encoder's code-block list
   (buildTilePacketEncoderAt) rectangle by rectangle, band by band, in the same order: the
   global code-block index means the same block on both sides, and the decoder drops no cell. *)
Theorem C04_codeblock_grids_agree : forall w h x0 y0 numLevels cbw cbh : Z,
  0 <= w -> 0 <= h -> 1 <= cbw -> 1 <= cbh -> forall coeffs : list Z,
  map dcell (dec_grid w h x0 y0 numLevels cbw cbh) =
    map cell_of_block (enc_all_blocks coeffs w h x0 y0 numLevels cbw cbh) /\
  map db_idx (dec_grid w h x0 y0 numLevels cbw cbh) =
    map Z.of_nat (seq 0 (length (enc_all_blocks coeffs w h x0 y0 numLevels cbw cbh))).
Proof. exact grids_agree. Qed.
Print Assumptions C04_codeblock_grids_agree.

(* Extracting the bands (getSubbandsForResolution), cutting them into code-blocks
   (partitionIntoCodeBlocks) and copying every block back at its rectangle (assembleSubbands)
   returns the coefficient array — including 0- and 1-sample-wide bands, any origin, any number
   of levels, any block size >= 1. *)
Theorem C04_extract_assemble_subbands : forall w h x0 y0 numLevels cbw cbh : Z,
  0 <= w -> 0 <= h -> 0 <= numLevels -> 1 <= cbw -> 1 <= cbh ->
  forall coeffs : list Z, zlen coeffs = w * h ->
  dec_assemble w h (blocks_for_assembly (enc_all_blocks coeffs w h x0 y0 numLevels cbw cbh)) = coeffs.
Proof. exact extract_assemble_subbands_id. Qed.
Print Assumptions C04_extract_assemble_subbands.

Example C04_extract_assemble_nonvacuous :
  0 <= 3 /\ 0 <= 2 /\ 0 <= 1 /\ 1 <= 2 /\ zlen [1; 2; 3; 4; 5; 6] = 3 * 2 /\
  map cb_data (enc_all_blocks [1; 2; 3; 4; 5; 6] 3 2 1 0 1 2 2) = [[1]; [2; 3]; [4]; [5; 6]].
Proof. vm_compute. repeat split; congruence. Qed.
