(* C05 — JPEG 2000 Lossless-Only transfer syntaxes: quality-layer bookkeeping and parameter
   mapping (area j2kgeo).  Property theorems only.  Models: J2KGeo/GeoLayers.v (finalizeBlock,
   finalizeRDCodeBlockLayers, initRDLayerConfig, layerContribution, Validate,
   configureLosslessEncodeParams, layersFromRateLevels, openJPEGLayerRates). *)
From V Require Import Common.Base J2KGeo.GeoModel J2KGeo.GeoLayers J2KGeo.GeoProofsLayers.

(* For every code-block with at least one pass whose pass rates are non-decreasing and within
   [0, len(CompleteData)] (rates_ok: the postcondition of t1.normalizePassRates), every number
   of layers >= 2, the final lossless layer appended, and EVERY allocation whose clamped
   cumulative pass counts of the layers before the last are >= 0 and non-decreasing
   (mono_alloc; all allocators of rate_distortion.go produce such rows — evaluated at run time
   by the oracle geo_allocator_monotone), both finalisers
   - deliver in their layers exactly CompleteData[0 : rate(last pass)],
   - set LayerPasses to cumulative counts within [0, total] whose last entry is the total,
   so layerContribution reports newPasses >= 0 in every layer, the sum over the layers is the
   total number of passes, and the bytes of a layer are rate(LayerPasses[l]) -
   rate(LayerPasses[l-1]) long (the lengths the packet header codes). *)
Theorem C05_final_layer_complete : forall passes data numLayers row (rd : bool),
  passes <> [] -> rates_ok passes (zlen data) -> 2 <= numLayers -> mono_alloc passes row numLayers ->
  exists lp ld,
    (if rd then finalize_rd_block passes (Some data) numLayers row true
     else finalize_block passes (Some data) numLayers row true) = Ok (Some (lp, ld)) /\
    length lp = Z.to_nat numLayers /\ length ld = Z.to_nat numLayers /\
    concat ld = firstn (Z.to_nat (rate_at passes (zlen passes))) data /\
    (forall i, (i < Z.to_nat numLayers)%nat -> 0 <= nth i lp 0 <= zlen passes) /\
    nondecr lp /\ nth (Z.to_nat (numLayers - 1)) lp 0 = zlen passes /\
    (forall layer, 0 <= layer < numLayers ->
       layer_contribution (Some ld) lp data (zlen passes) layer
         = (new_passes lp layer >? 0, new_passes lp layer, nth (Z.to_nat layer) ld []) /\
       0 <= new_passes lp layer /\
       zlen (nth (Z.to_nat layer) ld [])
         = cum passes (nth (Z.to_nat layer) lp 0) - cum passes (if layer >? 0 then nth (Z.to_nat (layer - 1)) lp 0 else 0)) /\
    zsum (map (new_passes lp) (map Z.of_nat (seq 0 (Z.to_nat numLayers)))) = zlen passes.
Proof. exact final_layer_complete. Qed.
Print Assumptions C05_final_layer_complete.

Example C05_final_layer_complete_nonvacuous :
  rates_ok refuting_passes (zlen refuting_data) /\ 2 <= 3 /\ mono_alloc refuting_passes [1; 1; 0] 3 /\
  finalize_block refuting_passes (Some refuting_data) 3 [1; 1; 0] true = Ok (Some ([1; 1; 3], [[10]; []; [11; 12]])).
Proof. split; [exact refuting_rates_ok|]. split; [lia|]. split; [vm_compute; repeat split; congruence|vm_compute; reflexivity]. Qed.

(* ANY allocation at all (arbitrary integers per layer), any number of layers >= 1: neither
   finaliser panics, every LayerPasses entry is <= total, the last entry is the total and the
   last layer's bytes end at rate(last pass).  (What can fail without monotonicity is the
   START of the last layer: next theorem.) *)
Theorem C05_final_layer_any_alloc : forall passes data numLayers row,
  passes <> [] -> rates_ok passes (zlen data) -> 1 <= numLayers ->
  exists lp ld, finalize_block passes (Some data) numLayers row true = Ok (Some (lp, ld)) /\
    length lp = Z.to_nat numLayers /\ length ld = Z.to_nat numLayers /\
    (forall i, (i < Z.to_nat numLayers)%nat -> nth i lp 0 <= zlen passes) /\
    nth (Z.to_nat (numLayers - 1)) lp 0 = zlen passes /\
    exists pp, 0 <= pp <= zlen passes /\
      nth (Z.to_nat (numLayers - 1)) ld [] = seg data (cum passes pp) (cum passes (zlen passes)).
Proof. exact finalize_block_any_alloc. Qed.
Print Assumptions C05_final_layer_any_alloc.

(* the two finalisers are the same function *)
Theorem C05_finalisers_equal : forall passes cd numLayers row a,
  finalize_rd_block passes cd numLayers row a = finalize_block passes cd numLayers row a.
Proof. exact finalize_rd_block_eq. Qed.
Print Assumptions C05_finalisers_equal.

(* The monotonicity premise is necessary: a non-monotone allocation (2, 1, 0 cumulative passes
   for a 3-pass block, all within range) duplicates a byte and yields newPasses = -1. *)
Theorem C05_final_layer_complete_refuted :
  exists passes data numLayers row,
    passes <> [] /\ rates_ok passes (zlen data) /\ 2 <= numLayers /\
    Forall (fun v => 0 <= v <= zlen passes) row /\
    exists lp ld, finalize_block passes (Some data) numLayers row true = Ok (Some (lp, ld)) /\
      concat ld <> firstn (Z.to_nat (rate_at passes (zlen passes))) data /\
      new_passes lp 1 < 0.
Proof. exact final_layer_complete_refuted. Qed.
Print Assumptions C05_final_layer_complete_refuted.

(* Parameter mapping.  For every parameter object of the property's domain — the final lossless
   layer kept, or no rate target (Rate <= 0 and TargetRatio not > 0); every other field
   arbitrary: NumLevels, NumLayers, Rate, RateLevels, progression, MCT and PCRD switches —
   Validate followed by configureLosslessEncodeParams yields Lossless = true and either
   - NumLayers = 1 with no target ratio, in which case the encoder runs no rate control at all
     (uses_rate_control = false: the condition `NumLayers > 1 || TargetRatio > 0` guarding
     applyRateDistortionGlobal and the layered T1 path), or
   - NumLayers >= 2, in which case initRDLayerConfig forces appendLossless = true — the premise
     of C05_final_layer_complete.
   (in_int_range: NumLayers and len(RateLevels) below 2^62, so that NumLayers++ cannot wrap.) *)
Theorem C05_param_map : forall p, in_domain p -> in_int_range p ->
  let e := param_map p in
  ep_Lossless e = true /\
  ((ep_NumLayers e = 1 /\ f_gt0 (ep_TargetRatio e) = false /\ uses_rate_control e = false) \/
   (2 <= ep_NumLayers e /\
    init_rd_layer_config (ep_NumLayers e) (ep_AppendLL e) (ep_Lossless e) = (ep_NumLayers e, true))).
Proof. exact param_map_ok. Qed.
Print Assumptions C05_param_map.

Example C05_param_map_nonvacuous :
  in_domain default_lparams /\ in_int_range default_lparams /\
  ep_NumLayers (param_map default_lparams) = 8 /\
  ep_LayerRates (param_map default_lparams) = [true; true; true; true; true; true; true; false] /\
  in_domain (mkLP 9 false (-3) [] 200 0 FNaN true false) /\
  ep_NumLayers (param_map (mkLP 9 false (-3) [] 200 0 FNaN true false)) = 1 /\
  uses_rate_control (param_map (mkLP 9 false (-3) [] 200 0 FNaN true false)) = false.
Proof.
  unfold in_domain, in_int_range. vm_compute.
  repeat split; try congruence; try (left; reflexivity); try (right; split; [discriminate|reflexivity]).
Qed.

(* "no truncation" in the single-layer path: with rate control off LayerData stays nil and
   layerContribution includes the block's whole T1 output with all its passes *)
Theorem C05_single_layer_no_truncation : forall lp data npt layer,
  layer_contribution None lp data npt layer = (zlen data >? 0, npt, data).
Proof. exact single_layer_no_truncation. Qed.
Print Assumptions C05_single_layer_no_truncation.
