(* C20, tie by translation (second list): isLazyRawPass, isTerminatingPass (t1/encoder.go) and reconstructSignificantValue, refineReconstructedValue (t1/decoder.go, int32 wrap explicit) equal the model functions of T1/T1Model.v (recon_sig / recon_ref with the OpenJPEG reconstruction flag set, which is what the code does). *)
From V Require Import Common.Base Gen.KernelsMore_gen Tie.TieKernelsMoreJ2K.

Theorem C20_tie2_isLazyRawPass : forall bp m pt st, jpeg2000_t1_isLazyRawPass bp m pt st = T1M.is_lazy_raw bp m pt st.
Proof. exact tie_isLazyRawPass. Qed.
Print Assumptions C20_tie2_isLazyRawPass.

Theorem C20_tie2_isTerminatingPass : forall bp m pt st, jpeg2000_t1_isTerminatingPass bp m pt st = T1M.is_terminating bp m pt st.
Proof. exact tie_isTerminatingPass. Qed.
Print Assumptions C20_tie2_isTerminatingPass.

Theorem C20_tie2_reconstructSignificantValue : forall bp s,
  jpeg2000_t1_reconstructSignificantValue bp s = T1M.recon_sig true bp s.
Proof. exact tie_reconstructSignificantValue. Qed.
Print Assumptions C20_tie2_reconstructSignificantValue.

Theorem C20_tie2_refineReconstructedValue : forall cur bp b,
  jpeg2000_t1_refineReconstructedValue cur bp b = T1M.recon_ref true cur bp b.
Proof. exact tie_refineReconstructedValue. Qed.
Print Assumptions C20_tie2_refineReconstructedValue.

Example C20_tie2_instance : jpeg2000_t1_reconstructSignificantValue 4 1 = -24 /\
  jpeg2000_t1_refineReconstructedValue (-24) 3 1 = -28.
Proof. vm_compute. split; reflexivity. Qed.
