(* C02 / C13, tie by translation: jpeg/lossless Predictor and diffCategory, translated from the Go source on
   every run, equal the model functions of JpegLL. *)
From V Require Import Common.Base Gen.Kernels_gen Tie.TieKernels.
Require V.JpegLL.JllHuff V.JpegLL.JllModel.

Theorem C02_tie_Predictor : forall p ra rb rc, jpeg_lossless_Predictor p ra rb rc = V.JpegLL.JllModel.predictor p ra rb rc.
Proof. exact tie_Predictor. Qed.
Print Assumptions C02_tie_Predictor.

Theorem C02_tie_diffCategory : forall v r, jpeg_lossless_diffCategory v = Some r -> V.JpegLL.JllHuff.diff_category v = r.
Proof. exact tie_diffCategory. Qed.
Print Assumptions C02_tie_diffCategory.

Example C02_tie_instance : jpeg_lossless_diffCategory (-32768) = Some 16 /\ jpeg_lossless_Predictor 7 5 8 0 = 6.
Proof. vm_compute. split; reflexivity. Qed.
