(* C20, tie by translation, 5/3 lifting: Forward53_1DWithParity / Inverse53_1DWithParity translated from the Go
   source on every run (int32 wrap-around, every bounds check, make and copy explicit) equal DwtModel.fwd53 / inv53 on a
   complete small domain, decided in the kernel; the general statement is kept as dwt_tie_statement (open). *)
From V Require Import Common.Base Tie.GoSem Gen.KernelsSlices_gen Tie.TieDwtSmall.
Require V.DWT.DwtModel.
Module D := V.DWT.DwtModel.

(* every list of length 0..5 over {-3, 0, 2, 5} (1365 lists), both parities, both directions; and None (Go panics)
   exactly on the one input the model marks as panicking *)
Theorem C20_tie_dwt53_1d_small_partial : forall x even, In x small_lists ->
  (D.dwt1d_panics even x = false ->
     jpeg2000_wavelet_Forward53_1DWithParity x even = Some (D.fwd53 even x) /\
     jpeg2000_wavelet_Inverse53_1DWithParity x even = Some (D.inv53 even x)) /\
  (D.dwt1d_panics even x = true ->
     jpeg2000_wavelet_Forward53_1DWithParity x even = None /\ jpeg2000_wavelet_Inverse53_1DWithParity x even = None).
Proof. exact dwt_tie_small. Qed.
Print Assumptions C20_tie_dwt53_1d_small_partial.

Definition in_listb (x : list Z) (ls : list (list Z)) : bool := existsb (zlist_eqb x) ls.

Example C20_tie_dwt_instance : in_listb [5; -3; 0; 2; 5] small_lists = true /\
  jpeg2000_wavelet_Forward53_1DWithParity [100; 101; 103; 90; 80; 7; 9] true = Some (D.fwd53 true [100; 101; 103; 90; 80; 7; 9]) /\
  jpeg2000_wavelet_Forward53_1DWithParity [] false = None.
Proof. vm_compute. repeat split. Qed.

(* GENERAL: for every list (any length below 2^31, which is what Go's int32 index arithmetic in dwt53.go can address)
   of samples in [-2^28, 2^28) the translated Go functions return exactly the model's transforms, both parities, both
   directions; and they panic (None) exactly on the input dwt1d_panics marks.  Proved by loop invariants over the four
   forward and two inverse loops of the translation (Tie/DwtTie*.v), incl. the no-overflow argument for int32. *)
From V Require Import Tie.DwtTiePartial.

Theorem C20_tie_dwt53_1d : forall even x, Forall (fun v => - 2 ^ 28 <= v < 2 ^ 28) x ->
  D.dwt1d_panics even x = false -> zlen x < 2 ^ 31 ->
  jpeg2000_wavelet_Forward53_1DWithParity x even = Some (D.fwd53 even x) /\
  jpeg2000_wavelet_Inverse53_1DWithParity x even = Some (D.inv53 even x).
Proof. exact tie_dwt53_partial. Qed.
Print Assumptions C20_tie_dwt53_1d.

Theorem C20_tie_dwt53_1d_panics : forall even x, D.dwt1d_panics even x = true ->
  jpeg2000_wavelet_Forward53_1DWithParity x even = None /\ jpeg2000_wavelet_Inverse53_1DWithParity x even = None.
Proof. exact tie_dwt53_panics. Qed.
Print Assumptions C20_tie_dwt53_1d_panics.

Example C20_tie_dwt53_1d_instance :
  Forall (fun v => - 2 ^ 28 <= v < 2 ^ 28) [5; -3; 268435455; -268435456; 7; 0; 1] /\
  D.dwt1d_panics false [5; -3; 268435455; -268435456; 7; 0; 1] = false /\
  zlen [5; -3; 268435455; -268435456; 7; 0; 1] < 2 ^ 31.
Proof. split; [repeat constructor; lia | split; [reflexivity | vm_compute; reflexivity]]. Qed.
