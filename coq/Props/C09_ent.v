(* C09 (entropy layer) -- decoding work is bounded by the input length and the declared size.
   The scan decoder (JpegEnt/JentModel.v) runs nmcu * (sum of V*H) block decodes, each at
   most 64 - 1 iterations of the AC loop and two table walks of at most 16 steps per symbol;
   an ACCEPTED scan of N declared blocks has at least N/4 bytes after the SOS header (every
   block consumes at least two bits), restart intervals included; a declared size that the
   input cannot pay for ends in Err at the first exhausted read, never in unbounded work.
   Proofs: JpegEnt/JentProofsWork.v, JentProofsTotal.v. *)
From V Require Import Common.Base JpegLL.JllBits JpegLL.JllHuff JpegLL.JllProofsBits
  JpegDCT.DctRestart JpegEnt.JentModel JpegEnt.JentProofsTotal JpegEnt.JentProofsWork
  JpegEnt.JentProofsEx JpegEnt.JentProofs12.

(* the AC loop of decodeBlock makes at most 64 - k iterations: that much fuel is never used up,
   for any table and any input *)
Theorem C09_ent_block_iterations : forall fuel act k zz st, tab_nonneg act ->
  (Z.to_nat (64 - k) < fuel)%nat -> safe (dec_ac fuel act k zz st).
Proof. exact dec_ac_safe. Qed.
Print Assumptions C09_ent_block_iterations.

(* every decoded block consumes at least two bits of the (unstuffed or stuffed) scan data *)
Theorem C09_ent_block_consumes : forall dcT acT td ta pred st zz p st',
  tabs_nonneg dcT -> tabs_nonneg acT -> rinv st ->
  dec_block dcT acT td ta pred st = Ok (zz, p, st') -> rmeas st' + 2 <= rmeas st /\ rinv st'.
Proof. exact dec_block_meas. Qed.
Print Assumptions C09_ent_block_consumes.

(* an accepted scan returns exactly the declared number of blocks, and that number is at most
   four times the number of bytes after the SOS header *)
Theorem C09_ent_scan_declared : forall dcT acT comps ri nmcu rest bl,
  tabs_nonneg dcT -> tabs_nonneg acT ->
  dec_scan dcT acT comps ri nmcu rest = Ok bl ->
  zlen bl = Z.of_nat nmcu * mcu_blocks comps /\ Z.of_nat nmcu * mcu_blocks comps <= 4 * zlen rest.
Proof. exact dec_scan_declared. Qed.
Print Assumptions C09_ent_scan_declared.

(* the same from the DHT payloads on *)
Theorem C09_ent_decode_work : forall payloads comps ri nmcu rest bl,
  Forall bytes_ok payloads ->
  ent_decode payloads comps ri nmcu rest = Ok bl -> zlen bl <= 4 * zlen rest.
Proof. exact ent_decode_work. Qed.
Print Assumptions C09_ent_decode_work.
Example C09_ent_decode_instance :
  (* 6 blocks out of 64 bytes; the same bytes under a header declaring 1000 MCUs: Err *)
  (exists bl, dec_scan ex_dcT ex_acT (map (fun t => mkEC 1 1 t t) [0; 1; 1]) 0 2
                (enc_scan_bytes ex_codes [0; 1; 1] ex_mcus ++ [255; 217]) = Ok bl /\ zlen bl = 6) /\
  zlen (enc_scan_bytes ex_codes [0; 1; 1] ex_mcus ++ [255; 217]) = 64 /\
  dec_scan ex_dcT ex_acT (map (fun t => mkEC 1 1 t t) [0; 1; 1]) 0 1000
           (enc_scan_bytes ex_codes [0; 1; 1] ex_mcus ++ [255; 217]) = Err.
Proof.
  split; [eexists; split; vm_compute; reflexivity | split; vm_compute; reflexivity].
Qed.

(* 12-bit extended sequential decoder: an accepted scan returns the declared number of blocks,
   and that number is at most four times the number of bytes after the SOS header *)
Theorem C09_ent12_decode_work : forall payloads nblocks rest bl,
  Forall bytes_ok payloads -> ent_decode12 payloads nblocks rest = Ok bl ->
  length bl = nblocks /\ Z.of_nat nblocks <= 4 * zlen rest.
Proof. exact ent_decode12_work. Qed.
Print Assumptions C09_ent12_decode_work.
