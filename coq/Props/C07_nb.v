(* C07, tie by translation: the neighbour selection (T.87 edge rules: first line, first column, last column)
   of jpegls/nearlossless — Encoder/Decoder.getNeighbors (one component, called for x > 0) and
   Encoder/Decoder.sampleNeighbors (sample interleaved) — translated from the Go source on every run with the
   bounds check of every index expression explicit (None = Go's run-time panic; Gen/KernelsNb_gen.v), return,
   for EVERY position of the image whose own index lies inside the sample buffer, exactly what neighbors1 /
   sampleNeighbors of JpegLS/JlsModel.v (the functions the C07 round-trip theorems are about) return on the
   window cut out of the buffer; in particular they never panic there. *)
From V Require Import Common.Base Tie.GoSem Gen.KernelsNb_gen Tie.TieNb Tie.TieNbNear.
Require V.JpegLS.JlsModel.
Module M := V.JpegLS.JlsModel.

Theorem C07_tie_Encoder_getNeighbors : forall (r : jpegls_nearlossless_Encoder) pixels x y comp pfp pn1,
  let w := jpegls_nearlossless_Encoder_width r in let nc := jpegls_nearlossless_Encoder_components r in
  in_image pixels w nc comp x y -> 0 < x ->
  jpegls_nearlossless_Encoder_getNeighbors r pixels x y comp =
  Some (M.neighbors1 w y x pfp pn1 (px pixels w nc comp (x - 1) y) (win pixels w nc comp x y)).
Proof. exact tie_nl_enc_getNeighbors. Qed.
Print Assumptions C07_tie_Encoder_getNeighbors.

Theorem C07_tie_Encoder_sampleNeighbors : forall (r : jpegls_nearlossless_Encoder) pixels x y comp plf pplf,
  let w := jpegls_nearlossless_Encoder_width r in let nc := jpegls_nearlossless_Encoder_components r in
  in_image pixels w nc comp x y ->
  jpegls_nearlossless_Encoder_sampleNeighbors r pixels x y comp plf pplf =
  Some (M.sampleNeighbors w y x plf pplf
          (px pixels w nc comp (x - 1) y)
          (px pixels w nc comp (x - 1) (y - 1))
          (px pixels w nc comp x (y - 1))
          (px pixels w nc comp (Z.min (x + 1) (w - 1)) (y - 1))).
Proof. exact tie_nl_enc_sampleNeighbors. Qed.
Print Assumptions C07_tie_Encoder_sampleNeighbors.

Theorem C07_tie_Decoder_getNeighbors : forall (r : jpegls_nearlossless_Decoder) pixels x y comp pfp pn1,
  let w := jpegls_nearlossless_Decoder_width r in let nc := jpegls_nearlossless_Decoder_components r in
  in_image pixels w nc comp x y -> 0 < x ->
  jpegls_nearlossless_Decoder_getNeighbors r pixels x y comp =
  Some (M.neighbors1 w y x pfp pn1 (px pixels w nc comp (x - 1) y) (win pixels w nc comp x y)).
Proof. exact tie_nl_dec_getNeighbors. Qed.
Print Assumptions C07_tie_Decoder_getNeighbors.

Theorem C07_tie_Decoder_sampleNeighbors : forall (r : jpegls_nearlossless_Decoder) pixels x y comp plf pplf,
  let w := jpegls_nearlossless_Decoder_width r in let nc := jpegls_nearlossless_Decoder_components r in
  in_image pixels w nc comp x y ->
  jpegls_nearlossless_Decoder_sampleNeighbors r pixels x y comp plf pplf =
  Some (M.sampleNeighbors w y x plf pplf
          (px pixels w nc comp (x - 1) y)
          (px pixels w nc comp (x - 1) (y - 1))
          (px pixels w nc comp x (y - 1))
          (px pixels w nc comp (Z.min (x + 1) (w - 1)) (y - 1))).
Proof. exact tie_nl_dec_sampleNeighbors. Qed.
Print Assumptions C07_tie_Decoder_sampleNeighbors.

(* in_image holds at every position of a full buffer (what Encode / Decode allocate) *)
Theorem C07_nb_in_image_full : forall pixels w h nc comp x y,
  zlen pixels = w * h * nc -> 0 <= x < w -> 0 <= y < h -> 0 <= comp < nc ->
  in_image pixels w nc comp x y.
Proof. exact in_image_full. Qed.
Print Assumptions C07_nb_in_image_full.

(* a 3x2 image: one component, position (1,1) and the last column (2,1); three components sample interleaved,
   first column (0,1) of component 1 (NE neighbour read from the buffer because width > 1) and last column
   (2,1) of component 2; both sides evaluated; a buffer that ends before the sample is a panic of the decoder *)
Definition C07_nb_traits := mk_jpegls_lossless_Traits 255 0 256 8 32 64 3 7 21.
Definition C07_nb_enc (nc : Z) := mk_jpegls_nearlossless_Encoder 3 2 nc 8 255 2 C07_nb_traits.
Definition C07_nb_dec (nc : Z) := mk_jpegls_nearlossless_Decoder 3 2 nc 8 255 2 0 3 7 21 C07_nb_traits.
Definition C07_nb_img1 := [10; 20; 30; 40; 50; 60].
Definition C07_nb_img3 := [10; 11; 12; 20; 21; 22; 30; 31; 32; 40; 41; 42; 50; 51; 52; 60; 61; 62].

Example C07_nb_instance :
  in_image C07_nb_img1 3 1 0 1 1 /\ in_image C07_nb_img3 3 3 1 0 1 /\
  jpegls_nearlossless_Encoder_getNeighbors (C07_nb_enc 1) C07_nb_img1 1 1 0 = Some (40, 20, 10, 30) /\
  M.neighbors1 3 1 1 7 9 40 (win C07_nb_img1 3 1 0 1 1) = (40, 20, 10, 30) /\
  jpegls_nearlossless_Decoder_getNeighbors (C07_nb_dec 1) C07_nb_img1 2 1 0 = Some (50, 30, 20, 30) /\
  M.neighbors1 3 1 2 7 9 50 (win C07_nb_img1 3 1 0 2 1) = (50, 30, 20, 30) /\
  jpegls_nearlossless_Encoder_sampleNeighbors (C07_nb_enc 3) C07_nb_img3 0 1 1 11 5 = Some (11, 11, 5, 21) /\
  M.sampleNeighbors 3 1 0 11 5 (px C07_nb_img3 3 3 1 (-1) 1) (px C07_nb_img3 3 3 1 (-1) 0) (px C07_nb_img3 3 3 1 0 0)
     (px C07_nb_img3 3 3 1 (Z.min 1 2) 0) = (11, 11, 5, 21) /\
  jpegls_nearlossless_Decoder_sampleNeighbors (C07_nb_dec 3) C07_nb_img3 2 1 2 12 6 = Some (52, 32, 22, 32) /\
  M.sampleNeighbors 3 1 2 12 6 52 22 32 32 = (52, 32, 22, 32) /\
  jpegls_nearlossless_Decoder_getNeighbors (C07_nb_dec 1) [10; 20; 30] 1 1 0 = None.
Proof.
  split; [unfold in_image, zlen; cbn; lia|]. split; [unfold in_image, zlen; cbn; lia|].
  vm_compute. repeat split; reflexivity.
Qed.
