(* C09 — bounded time and memory. Property theorems only.
   Time: every marker / segment loop of the modelled parsers finishes within length+2 iterations
   (no OutOfFuel): each iteration consumes input (JPEG 2000 skipSegment with length 0/1 moves the
   offset back by at most 2 after 4 bytes were read). Memory: every allocation request recorded by
   a model is bounded by c*S + 2*length + 65536, where S = width*height*components declared by the
   FIRST frame header of the stream, of any kind (frame_declared bs = declared_S bs for JPEG / JPEG-LS
   streams: the decoders reject a second frame header, F44, and a frame header of a process they do
   not implement, F47) resp. by the SIZ segment.
   What the theorems cannot show - wall-clock time, GC and allocator behaviour, and the work of the
   entropy / packet decoders - is measured by harness/suites/parsers (10 s, 512 MiB + 64*S). *)
From V Require Import Common.Base Parsers.PrsOutcome Parsers.PrsJls Parsers.PrsJpeg Parsers.PrsBaseline
  Parsers.PrsJ2k Parsers.PrsRle Parsers.PrsProofsBase Parsers.PrsProofsJls Parsers.PrsProofsJpeg
  Parsers.PrsProofsBaseline Parsers.PrsProofsJ2k Parsers.PrsProofsRle.

(* ---- termination ---- *)
Theorem C09_jls_lossless_terminates : forall bs, bytes bs -> fst (jlsl_decode (fuel_of bs) bs) <> OutOfFuel.
Proof. exact jlsl_decode_fuel. Qed.
Print Assumptions C09_jls_lossless_terminates.
Theorem C09_jls_near_terminates : forall bs, bytes bs -> fst (jlsn_decode (fuel_of bs) bs) <> OutOfFuel.
Proof. exact jlsn_decode_fuel. Qed.
Print Assumptions C09_jls_near_terminates.
Theorem C09_jpeg_lossless_terminates : forall bs, bytes bs -> fst (jll_decode (fuel_of bs) bs) <> OutOfFuel.
Proof. exact jll_decode_fuel. Qed.
Print Assumptions C09_jpeg_lossless_terminates.
Theorem C09_jpeg_sv1_terminates : forall bs, bytes bs -> fst (sv1_decode (fuel_of bs) bs) <> OutOfFuel.
Proof. exact sv1_decode_fuel. Qed.
Print Assumptions C09_jpeg_sv1_terminates.
Theorem C09_jpeg_baseline_terminates : forall bs, bytes bs -> fst (bl_decode (fuel_of bs) bs) <> OutOfFuel.
Proof. exact bl_decode_fuel. Qed.
Print Assumptions C09_jpeg_baseline_terminates.
Theorem C09_j2k_main_header_terminates : forall d, bytes d -> fst (k_main_header (fuel_of d) d) <> OutOfFuel.
Proof. exact k_main_header_fuel. Qed.
Print Assumptions C09_j2k_main_header_terminates.
Theorem C09_j2k_tile_part_terminates : forall cs d o, bytes d -> 0 <= o ->
  fst (k_parse_tile (fuel_of d) cs d o) <> OutOfFuel.
Proof. exact k_parse_tile_fuel. Qed.
Print Assumptions C09_j2k_tile_part_terminates.
(* every parsed tile-part consumes input, so the tile sequence of Parse is finite *)
Theorem C09_j2k_tile_part_progress : forall cs d o i o', bytes d -> 0 <= o ->
  fst (k_parse_tile (fuel_of d) cs d o) = Ok (i, o') -> o + 2 <= o'.
Proof. exact k_parse_tile_progress. Qed.
Print Assumptions C09_j2k_tile_part_progress.

(* ---- allocation requests, relative to the declared size ---- *)
Theorem C09_jls_lossless_alloc : forall bs, bytes bs ->
  Forall (fun a => a <= 8 * frame_declared bs + 2 * zlen bs + 65536) (snd (jlsl_decode (fuel_of bs) bs)).
Proof. exact jlsl_decode_alloc. Qed.
Print Assumptions C09_jls_lossless_alloc.
Theorem C09_jls_near_alloc : forall bs, bytes bs ->
  Forall (fun a => a <= 8 * frame_declared bs + 2 * zlen bs + 65536) (snd (jlsn_decode (fuel_of bs) bs)).
Proof. exact jlsn_decode_alloc. Qed.
Print Assumptions C09_jls_near_alloc.
Theorem C09_jpeg_lossless_alloc : forall bs, bytes bs ->
  Forall (fun a => a <= 8 * frame_declared bs + 2 * zlen bs + 65536) (snd (jll_decode (fuel_of bs) bs)).
Proof. exact jll_decode_alloc. Qed.
Print Assumptions C09_jpeg_lossless_alloc.
Theorem C09_jpeg_sv1_alloc : forall bs, bytes bs ->
  Forall (fun a => a <= 8 * frame_declared bs + 2 * zlen bs + 65536) (snd (sv1_decode (fuel_of bs) bs)).
Proof. exact sv1_decode_alloc. Qed.
Print Assumptions C09_jpeg_sv1_alloc.
Theorem C09_jpeg_baseline_alloc : forall bs, bytes bs ->
  Forall (fun a => a <= 64 * frame_declared bs + 2 * zlen bs + 65536) (snd (bl_decode (fuel_of bs) bs)).
Proof. exact bl_decode_alloc. Qed.
Print Assumptions C09_jpeg_baseline_alloc.
Theorem C09_j2k_main_header_alloc : forall d, bytes d ->
  Forall (fun a => a <= 1048576) (snd (k_main_header (fuel_of d) d)).
Proof. exact k_main_header_alloc. Qed.
Print Assumptions C09_j2k_main_header_alloc.
Theorem C09_j2k_assembler_alloc : forall d s o, bytes d -> fst (k_main_header (fuel_of d) d) = Ok (s, o) ->
  fst (k_assembler s) <> Panic /\ Forall (fun a => a <= 4 * siz_S s + 393216) (snd (k_assembler s)).
Proof. exact k_header_then_assembler. Qed.
Print Assumptions C09_j2k_assembler_alloc.
Theorem C09_rle_any_frameinfo_alloc : forall w h ba spp data, u16 w -> u16 h -> u16 ba -> u16 spp ->
  fst (rle_frame_prefix w h ba spp data) <> Panic /\ fst (rle_frame_prefix w h ba spp data) <> OutOfFuel /\
  Forall (fun a => a <= 15 * (w * h * spp) + 1) (snd (rle_frame_prefix w h ba spp data)).
Proof. exact rle_frame_prefix_good. Qed.
Print Assumptions C09_rle_any_frameinfo_alloc.

(* ---- non-vacuity ---- *)
Example C09_nonvacuous_jls_alloc :
  let bs := [255;216;255;247;0;11;8;0;2;0;3;1;1;17;0;255;218;0;8;1;1;0;0;0;0] in
  bytes bs /\ frame_declared bs = 6 /\ snd (jlsl_decode (fuel_of bs) bs) = [9; 14600; 6; 512; 48; 6].
Proof. cbv zeta. split; [unfold bytes; repeat constructor; lia|]. split; vm_compute; reflexivity. Qed.

Example C09_nonvacuous_sv1_alloc :
  let bs := [255;216;255;195;0;11;8;0;3;0;4;1;1;17;0;255;217] in
  bytes bs /\ frame_declared bs = 12 /\ snd (sv1_decode (fuel_of bs) bs) = [9; 8; 96; 12].
Proof. cbv zeta. split; [unfold bytes; repeat constructor; lia|]. split; vm_compute; reflexivity. Qed.

Example C09_nonvacuous_tile_progress :
  bytes [255;144;0;10;0;0;0;0;0;0;0;1;255;147;1;2;3;255;217] /\
  fst (k_parse_tile 30 1 [255;144;0;10;0;0;0;0;0;0;0;1;255;147;1;2;3;255;217] 0) = Ok (0, 17).
Proof. split; [unfold bytes; repeat constructor; lia|vm_compute; reflexivity]. Qed.
