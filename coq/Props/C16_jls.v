(* C16 — JPEG-LS (jpegls/lossless, jpegls/nearlossless): every frame the byte-exact encoder models
   emit is exactly one self-delimiting T.87 codestream and its headers declare the arguments.
   Property theorems only. The walker jls_walk / jls_wellformed (Framing/FrmJls.v) is written from
   T.87 Annex C: SOI first, every marker segment's length field delimits its payload, SOF55 and SOS
   syntax and ranges, inside the scan every FF is followed by a byte < 0x80, EOI last, nothing
   after EOI. jls_declared w h comps bd near is the header record with X = w, Y = h, Nf = comps,
   P = bd, one scan with NEAR = near over all components, no LSE, no DRI.
   (JlsModel names are used qualified - M = V.JpegLS.JlsModel - because they clash with Framing's.) *)
From V Require Import Common.Base.
Require V.JpegLS.JlsParams V.JpegLS.JlsModel V.JpegLS.JlsProofsGolomb V.JpegLS.JlsProofsNear0 V.JpegLS.JlsProofsTotal.
From V Require Import Framing.FrmBase Framing.FrmJpeg Framing.FrmJls Framing.FrmProofsHdr JlsStream.JstProofsFrame
  JlsStream.JstProofsAccept.

(* the frame around ANY marker-free scan: SOI, SOF55, SOS, scan, EOI *)
Theorem C16_jls_walk_frame : forall w h comps bd near scan,
  dims16 h w -> 2 <= bd <= 16 -> comps = 1 \/ comps = 3 ->
  0 <= near <= V.JpegLS.JlsParams.near_max bd ->
  V.JpegLS.JlsProofsGolomb.jls_marker_free scan = true ->
  jls_walk ([255; 216] ++ M.write_sof55 w h comps bd ++ M.write_sos comps near ++ scan ++ [255; 217])
  = WOk (jls_declared w h comps bd near).
Proof. exact walk_frame. Qed.
Print Assumptions C16_jls_walk_frame.

(* jpegls/lossless.Encode: EVERY frame it returns is accepted by the walker, which consumes all of
   it and reports (w, h, comps, bd, NEAR = 0); with any byte(s) appended it is rejected. The ranges
   w, h in 1..65535, comps 1 or 3, bd 2..16 are enforced by the encoder (last conjuncts); the buffer
   may be longer than needed (only the first w*h*comps samples are coded = coded_samples). The one
   hypothesis: the coded samples are below 2^bd (Encode does not check samples against bitDepth). *)
Theorem C16_jls_frame_wellformed : forall w h comps bd pixelData bytes,
  Forall (V.JpegLS.JlsProofsNear0.in_range bd) (coded_samples w h comps bd pixelData) ->
  M.jls_encode w h comps bd pixelData = Ok bytes ->
  jls_wellformed bytes = Some (jls_declared w h comps bd 0) /\
  (forall b t, jls_wellformed (bytes ++ b :: t) = None) /\
  1 <= w <= 65535 /\ 1 <= h <= 65535 /\ (comps = 1 \/ comps = 3) /\ 2 <= bd <= 16.
Proof. exact jls_accepted_frame_wellformed. Qed.
Print Assumptions C16_jls_frame_wellformed.

(* 4 x 3, 8 bit, one component, one spare byte at the end of the buffer *)
Example C16_jls_frame_wellformed_instance :
  let px := [10; 200; 200; 200; 37; 255; 0; 0; 0; 0; 0; 1; 99] in
  exists bytes,
    Forall (V.JpegLS.JlsProofsNear0.in_range 8) (coded_samples 4 3 1 8 px) /\
    M.jls_encode 4 3 1 8 px = Ok bytes /\
    jls_wellformed bytes = Some (jls_declared 4 3 1 8 0) /\ (24 < zlen bytes)%Z.
Proof.
  eexists. split; [apply V.JpegLS.JlsProofsTotal.in_range_forallb; vm_compute; reflexivity|].
  split; [vm_compute; reflexivity|]. split; vm_compute; reflexivity.
Qed.

(* precision 8 and 16: no sample hypothesis at all - every accepted call on bytes *)
Theorem C16_jls_frame_wellformed_8_16 : forall w h comps bd pixelData bytes,
  bd = 8 \/ bd = 16 -> Forall (fun b => 0 <= b < 256) pixelData ->
  M.jls_encode w h comps bd pixelData = Ok bytes ->
  jls_wellformed bytes = Some (jls_declared w h comps bd 0) /\
  (forall b t, jls_wellformed (bytes ++ b :: t) = None).
Proof. exact jls_accepted_frame_wellformed_8_16. Qed.
Print Assumptions C16_jls_frame_wellformed_8_16.

(* jpegls/nearlossless.Encode with NEAR <= min(255, MAXVAL/2) *)
Theorem C16_jlsn_frame_wellformed : forall w h comps bd near pixelData bytes,
  near <= V.JpegLS.JlsParams.near_max bd ->
  Forall (V.JpegLS.JlsProofsNear0.in_range bd) (coded_samples w h comps bd pixelData) ->
  M.jlsn_encode w h comps bd near pixelData = Ok bytes ->
  jls_wellformed bytes = Some (jls_declared w h comps bd near) /\
  (forall b t, jls_wellformed (bytes ++ b :: t) = None) /\
  1 <= w <= 65535 /\ 1 <= h <= 65535 /\ (comps = 1 \/ comps = 3) /\ 2 <= bd <= 16 /\ 0 <= near.
Proof. exact jlsn_accepted_frame_wellformed. Qed.
Print Assumptions C16_jlsn_frame_wellformed.

(* three components, 12 bit (two bytes per sample, little endian), NEAR = 3 *)
Example C16_jlsn_frame_wellformed_instance :
  let px := [10; 0; 200; 1; 255; 15;  11; 0; 190; 1; 0; 15;
             255; 15; 255; 15; 255; 15;  0; 0; 0; 0; 0; 0] in
  exists bytes,
    3 <= V.JpegLS.JlsParams.near_max 12 /\
    Forall (V.JpegLS.JlsProofsNear0.in_range 12) (coded_samples 2 2 3 12 px) /\
    M.jlsn_encode 2 2 3 12 3 px = Ok bytes /\
    jls_wellformed bytes = Some (jls_declared 2 2 3 12 3).
Proof.
  eexists. split; [vm_compute; discriminate|].
  split; [apply V.JpegLS.JlsProofsTotal.in_range_forallb; vm_compute; reflexivity|].
  split; vm_compute; reflexivity.
Qed.

(* the NEAR hypothesis is necessary (known finding F33: nearlossless.Encode accepts NEAR up to 255
   for every precision): a 2-bit frame with NEAR = 2 > MAXVAL/2 = 1 is emitted and is not a T.87
   codestream (C.2.3: NEAR <= min(255, MAXVAL/2)) *)
Theorem C16_jlsn_frame_near_above_half_rejected :
  exists bytes, M.jlsn_encode 2 1 1 2 2 [0; 3] = Ok bytes /\ jls_walk bytes = WBad RJlsNear 15.
Proof. exact jlsn_frame_near_above_half_rejected. Qed.
Print Assumptions C16_jlsn_frame_near_above_half_rejected.
