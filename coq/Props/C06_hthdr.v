(* C06 — HTJ2K lossless: the packet-header coder PacketEncoder.encodeHTJ2KPacketHeader
   (Go translation of OpenJPH's precinct::prepare_precinct: binary inclusion quad tree, separate
   missing-MSB tree, skippedBands) against the library's GENERIC packet-header parser
   parsePacketHeaderMulti.  Property theorems only.

   MODEL: T2Ht/T2hModel.v (hth_header = encodeHTJ2KPacketHeader with newHTJ2KPrecinctTree,
   encodeInclusion, encodeMissingMSBs, dimension / value / sent over the eband / eblock records of
   T2/T2Header.v; encodeNumPasses, encodeCodeBlockLengths, the bit writer and the parser are the
   existing models of T2/T2Header.v).  Tied to Go by harness/suites/t2ht (hook
   VerifEncodeHTJ2KPacketHeader, .work/t2ht-hook.go.txt): header bytes, inclusion records and the
   blocks' Included / NumLenBits afterwards, model = Go on every case; the parser model = Go's
   parsePacketHeaderMulti on the same bytes; suite t2ht-api drives jpeg2000.Encoder (HTJ2KMode) on
   images with all-zero code-blocks through the exported API.

   SCOPE: one packet of a single-layer codestream (layer 0, fresh encoder and decoder state: the
   HTJ2K path never has more layers), any number of precinct bands.  T2hSpec.band_scope: a band has
   no code-blocks and an empty grid, or one block for EVERY position of its w x h grid.

   THEOREMS:
     C06_hthdr_roundtrip_all_zero   ANY bands (any grids, even malformed ones): if no block has
        data, the header is the single byte 00 and the parser reports the empty packet after
        exactly that byte, no records.
     C06_hthdr_roundtrip_small      the complete round trip (bytes consumed = header length,
        header-present flag, one record per position in band / raster order: not included for
        the all-zero blocks, passes, length and zero bit planes for the others) for every one
        of the 104 191 precinct configurations of T2hProofsMain.small_domain (all grids with at
        most 6 positions x 4 block kinds; 3x3, 4x2, 2x4 x 3 kinds; all 2- and 3-band packets of
        bands without blocks or with at most 2 positions x 4 kinds), decided inside the kernel.
     C06_hthdr_bits_decoder_order   ANY bands: the delayed "non-empty" bit and the skippedBands
        zeros make the written bit string equal to 1 followed by the bits of the same loop in
        decoder order (or the single bit 0).
     C06_hthdr_absent_position_refuted, C06_hthdr_zero_dims_refuted   the grid conditions of the
        scope are necessary (model witnesses, replayed on Go by the suite's exploratory class; the
        configurations are not reachable through jpeg2000.Encoder).
   OPEN: T2hSpec.hth_roundtrip_statement for arbitrary grids and values (the tag-tree walk; see the
   end of T2Ht/T2hProofsMain.v for the four missing lemmas). *)
From V Require Import Common.Base T2.T2Header T2Ht.T2hModel T2Ht.T2hSpec T2Ht.T2hProofsSmall
  T2Ht.T2hProofsEmpty T2Ht.T2hProofsBands T2Ht.T2hProofsMain.

Theorem C06_hthdr_roundtrip_all_zero : forall bands rest,
  (forall p, In p bands -> forall b, In b (ebn_blocks p) -> eb_ld b = None /\ eb_data b = []) ->
  exists hdr incs obss dincs ds,
    hth_header bands 0 = Ok (hdr, incs, obss) /\
    parse_header (hdr ++ rest) 0 (map hth_dband bands) false = Ok (zlen hdr, any_coded bands, dincs, ds) /\
    map dview dincs = expect_all bands.
Proof. exact hth_roundtrip_all_zero. Qed.
Print Assumptions C06_hthdr_roundtrip_all_zero.

(* a 2 x 2 precinct band of four all-zero blocks followed by a 1 x 1 one *)
Example C06_hthdr_all_zero_instance :
  let bands := [hth_mk_band 2 2 [hth_mk_block 0 0 7 0 [] 0; hth_mk_block 1 0 7 0 [] 0;
                                 hth_mk_block 0 1 7 0 [] 0; hth_mk_block 1 1 7 0 [] 0];
                hth_mk_band 1 1 [hth_mk_block 0 0 9 0 [] 0]] in
  forall p, In p bands -> forall b, In b (ebn_blocks p) -> eb_ld b = None /\ eb_data b = [].
Proof.
  intros bands p Hp b Hb. destruct Hp as [<-|[<-|[]]]; cbn in Hb;
    repeat (destruct Hb as [<-|Hb]; [split; reflexivity|]); contradiction.
Qed.

Theorem C06_hthdr_roundtrip_small : forall bands, In bands small_domain ->
  exists hdr incs obss dincs ds,
    hth_header bands 0 = Ok (hdr, incs, obss) /\
    parse_header (hdr ++ rest_b) 0 (map hth_dband bands) false = Ok (zlen hdr, any_coded bands, dincs, ds) /\
    map dview dincs = expect_all bands.
Proof. exact hth_roundtrip_small. Qed.
Print Assumptions C06_hthdr_roundtrip_small.

(* an instance of the domain: three bands, coded and all-zero blocks mixed *)
Example C06_hthdr_small_instance :
  let bs := nth (Z.to_nat 30007) dom3 [] in
  In bs small_domain /\ any_coded bs = true /\
  existsb (fun p => existsb (fun b => negb (blk_coded b)) (ebn_blocks p)) bs = true /\ zlen bs = 3.
Proof.
  split.
  - unfold small_domain. apply in_or_app. right. apply in_or_app. right. apply nth_In.
    apply Nat.ltb_lt. vm_compute. reflexivity.
  - vm_compute. repeat split; reflexivity.
Qed.

Theorem C06_hthdr_bits_decoder_order : forall bands layer bs incs obss,
  hth_header_bits bands layer = Ok (bs, incs, obss) ->
  (bs = [0] /\ hth_bands bands layer false 0 = Ok ([], incs, obss, false)) \/
  (exists d, bs = 1 :: d /\ hth_bands bands layer true 0 = Ok (d, incs, obss, true)).
Proof. exact hth_header_bits_split. Qed.
Print Assumptions C06_hthdr_bits_decoder_order.

Theorem C06_hthdr_absent_position_refuted :
  parsed_view absent_witness [170] = Some ([false; true], 2, 2, [(true, 1, 3, 2); (false, 0, 0, 0)]).
Proof. exact hth_absent_position_refuted. Qed.
Print Assumptions C06_hthdr_absent_position_refuted.

Theorem C06_hthdr_zero_dims_refuted :
  parsed_view zero_dims_witness [170] = Some ([true], 2, 1, []).
Proof. exact hth_zero_dims_refuted. Qed.
Print Assumptions C06_hthdr_zero_dims_refuted.
