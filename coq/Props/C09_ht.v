(* C09 for the HTJ2K cleanup-pass block decoder: for every byte string the work counter of the
   panic-explicit model (one unit per scratch / vn / out write, MEL event, VLC advance, U-VLC
   decode and sample decode, plus the lengths of the zero-initialised arrays and the final
   conversion loop; each unit is at most 64 Go loop iterations, see HtSafe/HtsModel.v) and the
   bytes requested with make() / append are bounded by linear functions of w*h (and of the
   cleanup-segment length, itself <= 4079, for the MEL bit buffer); all loops are count loops
   over the geometry, the only fuel (MEL refill, 8) is never exhausted. *)
From V Require Import Common.Base HtSafe.HtsModel HtSafe.HtsProofsTop.

Theorem C09_ht_decode_bounded : forall w h kmax missing data,
  1 <= w <= 1024 /\ 1 <= h <= 1024 ->
  hts_decode w h kmax missing data = Err \/
  exists l work mem, hts_decode w h kmax missing data = Ok (l, work, mem) /\
    zlen l = w * h /\
    work <= 64 * (w * h) + 64 /\
    mem <= 40 * (w * h) + 8 * zlen data + 64 /\ mem <= 40 * (w * h) + 32696.
Proof. exact hts_decode_total. Qed.
Print Assumptions C09_ht_decode_bounded.

Example C09_ht_nonvacuous :
  (1 <= 5 <= 1024 /\ 1 <= 3 <= 1024) /\
  (exists l, hts_decode 5 3 6 5 [148; 4; 22; 254; 112; 190; 87; 127; 254; 145; 49; 121; 0] = Ok (l, 178, 352)) /\
  64 * (5 * 3) + 64 = 1024 /\ 40 * (5 * 3) + 8 * 13 + 64 = 768.
Proof. split; [lia|]. split; [eexists; vm_compute; reflexivity|]. split; reflexivity. Qed.
