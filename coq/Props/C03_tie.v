(* C03, tie by translation: the sample-level kernels of jpegls/lossless, translated from the Go source on
   every run (Gen/Kernels_gen.v), equal the model functions the C03 theorems are stated about. *)
From V Require Import Common.Base Gen.Kernels_gen Tie.TieKernels.
Require V.JpegLS.JlsParams V.JpegLS.JlsModel.
Module M := V.JpegLS.JlsModel.

Theorem C03_tie_ModuloRange : forall t e, jpegls_lossless_Traits_ModuloRange t e = M.ModuloRange (jp t) e.
Proof. exact tie_ModuloRange. Qed.
Print Assumptions C03_tie_ModuloRange.

Theorem C03_tie_ComputeReconstructedSample : forall t pr ev,
  jpegls_lossless_Traits_ComputeReconstructedSample t pr ev = M.ComputeReconstructedSample (jp t) pr ev.
Proof. exact tie_ComputeReconstructedSample. Qed.
Print Assumptions C03_tie_ComputeReconstructedSample.

Theorem C03_tie_CorrectPrediction : forall t v, jpegls_lossless_Traits_CorrectPrediction t v = M.CorrectPrediction (jp t) v.
Proof. exact tie_CorrectPrediction. Qed.
Print Assumptions C03_tie_CorrectPrediction.

Theorem C03_tie_Predict : forall a b c, jpegls_lossless_Predict a b c = M.Predict a b c.
Proof. exact tie_Predict. Qed.
Print Assumptions C03_tie_Predict.

Theorem C03_tie_context : forall g a b c d,
  (let '(q1, q2, q3) := jpegls_lossless_GradientQuantizer_ComputeContext g a b c d in
   jpegls_lossless_ComputeContextID q1 q2 q3) = M.context_qs (gq g) a b c d.
Proof. exact tie_context_qs. Qed.
Print Assumptions C03_tie_context.

Theorem C03_tie_sign : forall i s, jpegls_lossless_BitwiseSign i = M.BitwiseSign i /\ jpegls_lossless_ApplySign i s = M.ApplySign i s.
Proof. intros; split; [apply tie_BitwiseSign | apply tie_ApplySign]. Qed.
Print Assumptions C03_tie_sign.

Theorem C03_tie_UpdateContext : forall c e near reset,
  ctx_of (jpegls_lossless_Context_UpdateContext c e near reset) = M.UpdateContext (ctx_of c) e near reset.
Proof. exact tie_UpdateContext. Qed.
Print Assumptions C03_tie_UpdateContext.

(* the Go loop `for (N << k) < A && k < 16` always ends within the 17 iterations the model allows *)
Theorem C03_tie_ComputeGolombParameter : forall c,
  jpegls_lossless_Context_ComputeGolombParameter c = Some (M.ComputeGolombParameter (ctx_of c)).
Proof. exact tie_ComputeGolombParameter. Qed.
Print Assumptions C03_tie_ComputeGolombParameter.

Theorem C03_tie_GetErrorCorrection : forall c k near,
  jpegls_lossless_Context_GetErrorCorrection c k near = M.GetErrorCorrection (ctx_of c) k near.
Proof. exact tie_GetErrorCorrection. Qed.
Print Assumptions C03_tie_GetErrorCorrection.

Theorem C03_tie_MapErrorValue : forall e, jpegls_lossless_MapErrorValue e = M.MapErrorValue e /\ jpegls_lossless_UnmapErrorValue e = M.UnmapErrorValue e.
Proof. intros; split; [apply tie_MapErrorValue | apply tie_UnmapErrorValue]. Qed.
Print Assumptions C03_tie_MapErrorValue.

(* non-vacuity / sanity: the translated kernels compute on a concrete 12-bit traits value *)
Example C03_tie_instance :
  jpegls_lossless_Traits_ModuloRange (traits_of (V.JpegLS.JlsParams.jls_params 12 0)) 2049 = -2047 /\
  jpegls_lossless_Context_ComputeGolombParameter (mk_jpegls_lossless_Context 70 3 0 0) = Some 5.
Proof. vm_compute. split; reflexivity. Qed.
