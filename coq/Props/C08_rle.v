(* C08 (RLE part) — decodeFrame never panics: for ARBITRARY uint16 FrameInfo and ARBITRARY
   bytes the panic-explicit model of rle.Codec.decodeFrame (RLE/RleModel.v: rle_decode_frame,
   every slice index, the [15]int offsets index and the makeslice size check written out)
   ends in Ok or Err — never Panic, never OutOfFuel. Property theorems only. *)
From V Require Import Common.Base RLE.RleModel RLE.RleEncProofs RLE.RleDecProofs RLE.RleSafeProofs.

Theorem C08_rle_decode_frame_no_panic : forall fi data, fi_u16 fi -> bytesP data ->
  okerr (rle_decode_frame fi data).
Proof. exact rle_decode_frame_safe. Qed.
Print Assumptions C08_rle_decode_frame_no_panic.

(* the same, spelled out *)
Theorem C08_rle_decode_frame_not_Panic : forall fi data, fi_u16 fi -> bytesP data ->
  rle_decode_frame fi data <> Panic /\ rle_decode_frame fi data <> OutOfFuel.
Proof.
  intros fi data Hfi Hb. pose proof (rle_decode_frame_safe fi data Hfi Hb) as H.
  destruct (rle_decode_frame fi data); cbn in H; split; try discriminate; contradiction.
Qed.
Print Assumptions C08_rle_decode_frame_not_Panic.

(* the inner loop, for any window inside the data: rleData is never indexed out of range *)
Theorem C08_rle_decode_loop_safe : forall fuel rest i e pos off blen,
  bytesP rest -> (length rest < fuel)%nat -> e - i <= zlen rest ->
  okerr (dec_loop fuel rest i e pos off blen).
Proof. exact dec_loop_safe. Qed.
Print Assumptions C08_rle_decode_loop_safe.

(* ... and every write it makes is inside the output buffer *)
Theorem C08_rle_decode_writes_in_range : forall fuel rest i e pos off blen w,
  bytesP rest -> 0 <= off ->
  dec_loop fuel rest i e pos off blen = Ok w ->
  w = [] \/ pos + (zlen w - 1) * off < blen.
Proof. exact dec_loop_in_range. Qed.
Print Assumptions C08_rle_decode_writes_in_range.

(* non-vacuity: descriptions far outside the accepted domain, on a stream whose header
   announces the matching segment count *)
Example C08_rle_nonvacuous :
  let fi := mkFI 65535 65535 120 1 3 in            (* 15 bytes per sample, 65535 x 65535 *)
  let hdr := header 15 (repeat 64 15) in
  fi_u16 fi /\ bytesP hdr /\ rle_decode_frame_prefix fi hdr = Ok tt /\
  rle_decode_frame (mkFI 3 1 0 1 0) hdr = Err /\        (* BitsAllocated = 0 *)
  rle_decode_frame (mkFI 3 1 65535 65535 0) hdr = Err.  (* 8192 x 65535 segments *)
Proof.
  cbv zeta. split; [unfold fi_u16, u16; cbn; lia|].
  split; [apply Forall_forall; intros x Hx; vm_compute in Hx; unfold byteP; lia|].
  repeat split; vm_compute; reflexivity.
Qed.
