(* C16 — JPEG lossless (jpeg/lossless, jpeg/lossless14sv1): every frame the byte-exact encoder
   models emit for a well-formed image is exactly one self-delimiting T.81 codestream and its
   headers declare the arguments. Property theorems only. The walker jpeg_walk / jpeg_wellformed
   (Framing/FrmJpeg.v) is written from T.81 Annex B: SOI first, every marker segment's length field
   delimits its payload, SOF3 / DHT (incl. the reserved all-ones code word) / SOS syntax, in the
   entropy-coded data every FF is followed by 00, EOI last, nothing after EOI.
   jll_declared w h comps P pred: SOF3 with X = w, Y = h, Nf = comps, precision P; one scan over
   all components with Ss = pred; no DRI; one APPn segment (JFIF).
   (JllModel names are used qualified - JM = V.JpegLL.JllModel, RT = V.JpegLL.JllProofsRT.) *)
From V Require Import Common.Base.
Require V.JpegLL.JllModel V.JpegLL.JllT81 V.JpegLL.JllProofs V.JpegLL.JllProofsRT.
From V Require Import Framing.FrmBase Framing.FrmJpeg Framing.FrmProofsHdr Framing.FrmProofsFrame
  JllStream.JlstProofsFrame.

(* the stream layout of both encoders, for any valid table that leaves the all-ones code free *)
Theorem C16_jll_stream_wellformed : forall w h comps P pred diffs bits vals,
  dims16 h w -> 2 <= P <= 16 -> comps = 1 \/ comps = 3 -> 1 <= pred <= 7 ->
  V.JpegLL.JllT81.t81_table_ok bits vals = true -> V.JpegLL.JllT81.t81_kraft bits 1 <= 65535 ->
  V.JpegLL.JllProofs.diffs_ok vals diffs ->
  jpeg_walk (RT.stream_of w h comps P pred diffs bits vals) = WOk (jll_declared w h comps P pred) /\
  (forall b t, exists pos,
     jpeg_walk (RT.stream_of w h comps P pred diffs bits vals ++ b :: t) = WBad RTrailing pos).
Proof. exact stream_frame_wellformed. Qed.
Print Assumptions C16_jll_stream_wellformed.

(* jpeg/lossless.Encode, predictor 0..7 (0 = automatic selection; the header declares the one used) *)
Theorem C16_jll_frame_wellformed : forall w h comps P pred pixels s,
  RT.wf_image w h comps P pixels -> 0 <= pred <= 7 ->
  JM.jll_encode w h comps P pred pixels = Ok s ->
  jpeg_wellformed s = Some (jll_declared w h comps P (RT.effective_pred w h comps P pred pixels)) /\
  (forall b t, jpeg_wellformed (s ++ b :: t) = None).
Proof. exact jll_frame_wellformed. Qed.
Print Assumptions C16_jll_frame_wellformed.

(* 3 x 2, 3 components, 8 bit, predictor 4 *)
Example C16_jll_frame_wellformed_instance :
  let px := [10; 200; 30; 11; 201; 29; 255; 0; 255;  9; 190; 33; 12; 12; 12; 255; 255; 255] in
  exists s,
    RT.wf_image 3 2 3 8 px /\ JM.jll_encode 3 2 3 8 4 px = Ok s /\
    jpeg_wellformed s = Some (jll_declared 3 2 3 8 4) /\ (60 < zlen s)%Z.
Proof.
  eexists. split; [apply RT.wf_imageb_ok; vm_compute; reflexivity|].
  split; [vm_compute; reflexivity|]. split; vm_compute; reflexivity.
Qed.

(* jpeg/lossless14sv1.Encode (predictor 1) *)
Theorem C16_sv1_frame_wellformed : forall w h comps P pixels s,
  RT.wf_image w h comps P pixels ->
  JM.sv1_encode w h comps P pixels = Ok s ->
  jpeg_wellformed s = Some (jll_declared w h comps P 1) /\
  (forall b t, jpeg_wellformed (s ++ b :: t) = None).
Proof. exact sv1_frame_wellformed. Qed.
Print Assumptions C16_sv1_frame_wellformed.

(* 2 x 2, one component, 12 bit (little-endian byte pairs) *)
Example C16_sv1_frame_wellformed_instance :
  let px := [10; 0; 255; 15; 0; 8; 1; 8] in
  exists s,
    RT.wf_image 2 2 1 12 px /\ JM.sv1_encode 2 2 1 12 px = Ok s /\
    jpeg_wellformed s = Some (jll_declared 2 2 1 12 1).
Proof.
  eexists. split; [apply RT.wf_imageb_ok; vm_compute; reflexivity|].
  split; vm_compute; reflexivity.
Qed.
