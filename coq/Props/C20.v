(* C20 — JPEG 2000 building blocks are exact inverses. Property theorems only. *)
From V Require Import Common.Base J2K.RCT J2K.RCTProofs.

(* RCT over unbounded integers: the inverse undoes the forward transform for all triples. *)
Theorem C20_rct_inverse : forall r g b : Z,
  let '(y, cb, cr) := rct_fwd r g b in rct_inv y cb cr = (r, g, b).
Proof. exact rct_inverse_Z. Qed.
Print Assumptions C20_rct_inverse.

(* RCT as coded (int32 arithmetic with wrap-around written out): for all triples within
   +-2^28, which is the property's domain, the coded inverse undoes the coded forward. *)
Theorem C20_rct_inverse_int32 : forall r g b : Z,
  in28 r -> in28 g -> in28 b ->
  let '(y, cb, cr) := rct_fwd32 r g b in rct_inv32 y cb cr = (r, g, b).
Proof. exact rct_inv32_of_fwd. Qed.
Print Assumptions C20_rct_inverse_int32.

(* Slice versions (ApplyRCTToComponents / ApplyInverseRCTToComponents), any length. *)
Theorem C20_rct_slices_inverse : forall r g b : list Z,
  length r = length g -> length g = length b ->
  Forall in28 r -> Forall in28 g -> Forall in28 b ->
  rct_inv_list (rct_fwd_list r g b) = combine (combine r g) b.
Proof. exact rct_list_inverse. Qed.
Print Assumptions C20_rct_slices_inverse.

Example C20_rct_nonvacuous :
  in28 (2 ^ 28) /\ in28 (- 2 ^ 28) /\ rct_fwd32 (2 ^ 28) (- 2 ^ 28) 255 = (-67108801, 268435711, 536870912).
Proof. unfold in28. repeat split; try lia. Qed.
