(* C08 (entropy layer) -- no decoder panics: the part of baseline.Decode after the headers
   (parseDHT, decodeScan, decodeBlock, Huffman Decode / ReceiveExtend, restart handling) returns
   a result or an error for EVERY byte string, EVERY set of DHT payloads (also tables that are
   not prefix codes, incomplete, empty, with duplicate symbols, with size nibbles the coder
   never produces), every restart interval, every declared number of MCUs and every sampling
   factor.  Model: JpegEnt/JentModel.v (every table / array index is an explicit check that
   yields Panic); proofs: JpegEnt/JentProofsTotal.v.  `safe o` = o is Ok or Err. *)
From V Require Import Common.Base JpegLL.JllBits JpegLL.JllHuff JpegLL.JllProofsBits
  JpegDCT.DctRestart JpegEnt.JentModel JpegEnt.JentProofsTotal JpegEnt.JentProofsEx JpegEnt.JentProofs12.

Theorem C08_ent_decode_total : forall payloads comps ri nmcu rest,
  Forall bytes_ok payloads -> sels_ok comps ->
  safe (ent_decode payloads comps ri nmcu rest).
Proof. exact ent_decode_total. Qed.
Print Assumptions C08_ent_decode_total.
Example C08_ent_decode_instance :
  Forall bytes_ok [ex_ff_dc; ex_ff_ac] /\ sels_ok [mkEC 4 4 0 0] /\
  ent_decode [ex_bad_dht] [mkEC 1 1 0 0] 0 1 [0; 0] = Err /\
  ent_decode [ex_ff_dc; ex_ff_ac] [mkEC 1 1 0 0] 0 1 (repeat 85 40) = Err /\
  ent_decode [ex_ff_dc] [mkEC 1 1 0 0] 0 1 (repeat 85 40) = Err /\
  ent_decode [ex_ff_dc; ex_ff_ac] [mkEC 4 4 0 0] 7 3 [0; 255; 208; 0; 255; 0; 255; 209; 255; 217] = Err.
Proof. destruct ex_bytes_ok as [H1 H2]. destruct ex_hostile as (A & B & C & D). repeat split; assumption. Qed.

(* decodeScan for arbitrary already-built tables (values non-negative, as bytes are) *)
Theorem C08_ent_scan_total : forall dcT acT comps ri nmcu rest,
  tabs_nonneg acT -> comps_ok dcT acT comps -> safe (dec_scan dcT acT comps ri nmcu rest).
Proof. exact dec_scan_safe. Qed.
Print Assumptions C08_ent_scan_total.

(* decodeBlock: `k += r`, the coefficient stores and both table lookups *)
Theorem C08_ent_block_total : forall dcT acT td ta pred st,
  tabs_nonneg acT -> 0 <= td < zlen dcT -> 0 <= ta < zlen acT ->
  safe (dec_block dcT acT td ta pred st).
Proof. exact dec_block_safe. Qed.
Print Assumptions C08_ent_block_total.
Example C08_ent_block_instance :
  tabs_nonneg ex_acT /\ 0 <= 1 < zlen ex_dcT /\ 0 <= 3 < zlen ex_acT /\
  dec_block ex_dcT ex_acT 1 3 0 (r_init [18; 52]) = Err.
Proof.
  split; [exact ex_acT_nonneg | split; [cbn; lia | split; [cbn; lia | vm_compute; reflexivity]]].
Qed.

(* parseDHT: never a panic, and the fuel (= payload length) is never exhausted *)
Theorem C08_ent_parse_dht_total : forall fuel data dcT acT,
  bytes_ok data -> (length data <= fuel)%nat ->
  tabs_nonneg dcT -> tabs_nonneg acT -> tabs4 dcT -> tabs4 acT ->
  dht_post (bl_parse_dht fuel data dcT acT).
Proof. exact bl_parse_dht_safe. Qed.
Print Assumptions C08_ent_parse_dht_total.

(* the 12-bit extended sequential decoder (jpeg/extended/sequential12.go) after its headers:
   parseDHT (destination 0 only), the nil-table check of parseSOS, the scan byte loop,
   decodeBlock -- any DHT payloads, any bytes, any declared number of blocks *)
Theorem C08_ent12_decode_total : forall payloads nblocks rest,
  Forall bytes_ok payloads -> safe (ent_decode12 payloads nblocks rest).
Proof. exact ent_decode12_total. Qed.
Print Assumptions C08_ent12_decode_total.
Example C08_ent12_decode_instance :
  Forall bytes_ok [ex_ff_dc; ex_ff_ac] /\
  ent_decode12 [ex_ff_dc; ex_ff_ac] 3 (repeat 85 40) = Err /\
  ent_decode12 [ex_ff_dc] 3 (repeat 85 40) = Err /\
  ent_decode12 [ex_ff_dc; ex_ff_ac] 3 [85; 255] = Err.
Proof. destruct ex_bytes_ok as [H1 _]. repeat split; try exact H1; vm_compute; reflexivity. Qed.
