(* C06 — HTJ2K lossless, the composed tile path WITH all-zero code-blocks: towards dropping
   hyp_no_zero_block.  Property theorems only.

   Props/C06_pipe.v / C06_sizes.v state the frame-level round trip for PhtModel.pht_encode_tile, which
   writes its packet headers with the classic coder and is the Go encoder only on tiles without an
   all-zero code-block (hyp_no_zero_block).  Here:

   MODEL: PipeHT/PhtProofsZeroDef.v  pht_encode_tile_z = the same tile encoder with
   PacketEncoder.encodePacket calling encodeHTJ2KPacketHeader (T2Ht/T2hModel.hth_header, modelled byte
   exactly and tied to Go by harness/suites/t2ht): the Go HTJ2K encoder on EVERY tile.  On the
   constant 4x4 image 200 it reproduces the Go tile bytes c02a000e4747c70081b400 | 00 (Example below).
   pht_roundtrip_z = pht_decode_tile after pht_encode_tile_z.

   THEOREMS
     C06_hthdr_classic_coincide_small    the HTJ2K and the classic packet-header coder write the same
        bits and records for every packet of T2hProofsMain.small_domain (104 191 precinct configurations)
        that has a contribution, and [0] versus 1 :: one 0 per band for those that have none; decided in
        the kernel over the whole domain.  No differing configuration was found.
     C06_hthdr_classic_same_header_small the same as header bytes.
     C06_pipe_ht_zero_roundtrip_given_delivery (_levels0, _levels1)
        pht_scope, samples in range, hyp_kmax_fit (a theorem for 0 / 1 levels): if the packets that
        pht_encode_tile_z writes deliver the blocks (hyp_t2_delivers, all-zero blocks allowed),
        decode (encode_z image) = image.  No hyp_no_zero_block.
     C06_pipe_ht_zero_roundtrip_checked  the same from the executable check (encoder model, then
        PhtHyps.pht_hyps on its output).
     C06_pipe_ht_zero_roundtrip_2x2      decode (encode_z image) = image for EVERY 2x2 single-component
        image of precision 3 with one decomposition level (four code-blocks LL / HL / LH / HH of one
        coefficient each; 2290 of the 4096 images have an all-zero code-block), LRCP / RLCP / RPCL.
     C06_pipe_ht_zero_eq_classic_2x2     on that domain encode_z = encode whenever no code-block is
        all-zero.
   OPEN  PhtProofsZero.pht_zero_roundtrip_statement, pht_zero_eq_classic_statement,
         T2hProofsGlue.hth_classic_coincide_statement (see the ends of PipeHT/PhtProofsZero.v and
         T2Ht/T2hProofsGlueMain.v for what is missing). *)
From V Require Import Common.Base T2.T2Header T2Ht.T2hModel T2Ht.T2hSpec T2Ht.T2hProofsSmall T2Ht.T2hProofsMain
  T2Ht.T2hProofsGlue T2Ht.T2hProofsGlueMain
  Pipe.PipeModel Pipe.PipeProofsFront PipeHT.PhtModel PipeHT.PhtHyps PipeHT.PhtProofsMain PipeHT.PhtProofsCheck
  PipeHT.PhtProofsDeliv PipeHT.PhtProofsDelivCheck PipeHT.PhtProofsZeroDef PipeHT.PhtProofsZero.

(* ---------- the two header coders ---------- *)

Theorem C06_hthdr_classic_coincide_small : forall bands, In bands small_domain -> glue_at bands.
Proof. exact hth_classic_coincide_small. Qed.
Print Assumptions C06_hthdr_classic_coincide_small.

Theorem C06_hthdr_classic_same_header_small : forall bands, In bands small_domain -> any_coded bands = true ->
  exists hdr incs obss st, hth_header bands 0 = Ok (hdr, incs, obss) /\ enc_header bands 0 = Ok (hdr, incs, st).
Proof. exact hth_classic_same_header_small. Qed.
Print Assumptions C06_hthdr_classic_same_header_small.

(* entry 2500 of the domain: a 1 x 5 precinct band, blocks coded / all-zero / coded / all-zero /
   all-zero: the common header is 4 bytes *)
Example C06_hthdr_classic_small_instance :
  let bands := nth 2500 small_domain [] in
  In bands small_domain /\ any_coded bands = true /\
  map (fun p => map (fun b => zlen (eb_data b)) (ebn_blocks p)) bands = [[1; 0; 1; 0; 0]] /\
  exists incs obss, hth_header bands 0 = Ok ([255; 66; 240; 128], incs, obss).
Proof.
  cbv zeta. split.
  - apply nth_In. pose proof small_domain_size as S. unfold zlen in S. lia.
  - split; [vm_compute; reflexivity|]. split; [vm_compute; reflexivity|].
    eexists. eexists. vm_compute. reflexivity.
Qed.

Theorem C06_hthdr_classic_differ_all_zero : forall bands,
  (forall p, In p bands -> forall b, In b (ebn_blocks p) -> eb_ld b = None /\ eb_data b = []) ->
  exists incs obss, hth_header_bits bands 0 = Ok ([0], incs, obss).
Proof. exact hth_classic_differ_all_zero. Qed.
Print Assumptions C06_hthdr_classic_differ_all_zero.

(* two bands of all-zero blocks: HTJ2K writes the bit 0, the classic coder 1 0 0 *)
Example C06_hthdr_classic_differ_instance :
  let bands := [hth_mk_band 2 1 [hth_mk_block 0 0 7 0 [] 0; hth_mk_block 1 0 7 0 [] 0];
                hth_mk_band 1 1 [hth_mk_block 0 0 9 0 [] 0]] in
  (forall p, In p bands -> forall b, In b (ebn_blocks p) -> eb_ld b = None /\ eb_data b = []) /\
  (exists incs st, enc_header_bits bands 0 = Ok ([1; 0; 0], incs, st)).
Proof.
  cbv zeta. split.
  - intros p Hp b Hb. destruct Hp as [<-|[<-|[]]]; cbn in Hb;
      repeat (destruct Hb as [<-|Hb]; [split; reflexivity|]); contradiction.
  - eexists. eexists. vm_compute. reflexivity.
Qed.

(* ---------- the tile round trip with the HTJ2K header coder ---------- *)

Theorem C06_pipe_ht_zero_roundtrip_given_delivery : forall p samples tile, pht_scope p -> samples_ok p samples ->
  let pix := pack_image p samples in
  hyp_kmax_fit p pix -> pht_encode_tile_z p pix = Ok tile -> hyp_t2_delivers p pix tile ->
  pht_roundtrip_z p pix = Ok pix.
Proof. exact pht_zero_roundtrip_given_delivery. Qed.
Print Assumptions C06_pipe_ht_zero_roundtrip_given_delivery.

(* the constant 4x4 image 200, one level, RPCL: HL, LH, HH are all-zero code-blocks; the encoder model
   writes the tile bytes of the Go HTJ2K codestream, whose second packet is the empty packet 00 *)
Example C06_pipe_ht_zero_nonvacuous :
  let p := mkPP 4 4 1 8 false 1 4 4 false 2 0 0 4 in
  let s := repeat 200 16 in
  let tile := [192; 42; 0; 14; 71; 71; 199; 0; 129; 180; 0; 0] in
  pht_scope p /\ samples_ok p s /\ hyp_kmax_fit p (pack_image p s) /\
  pht_encode_tile_z p (pack_image p s) = Ok tile /\ hyp_t2_delivers p (pack_image p s) tile /\
  ~ hyp_no_zero_block p (pack_image p s) /\
  pht_encode_tile p (pack_image p s) <> Ok tile /\
  pht_roundtrip_z p (pack_image p s) = Ok (pack_image p s).
Proof.
  cbv zeta.
  assert (Ec : pipe_coeffs (mkPP 4 4 1 8 false 1 4 4 false 2 0 0 4) (pack_image (mkPP 4 4 1 8 false 1 4 4 false 2 0 0 4) (repeat 200 16))
               = Ok [[72; 72; 0; 0; 72; 72; 0; 0; 0; 0; 0; 0; 0; 0; 0; 0]]) by (vm_compute; reflexivity).
  split. { split; [|cbn; lia]. unfold pp_scope, pow2_size. cbn. repeat split; auto; lia. }
  split. { split; [reflexivity|]. repeat constructor; cbn; lia. }
  split. { intros c Ec'. rewrite Ec in Ec'. injection Ec' as <-. apply kmax_fit_b_ok. vm_compute. reflexivity. }
  split. { vm_compute. reflexivity. }
  split. { apply (t2_delivers_b_ok _ _ _ _ Ec). vm_compute. reflexivity. }
  split.
  { intros H. specialize (H _ Ec). unfold no_zero_block in H.
    assert (Hin : In (1, GeoModel.mkBlock 2 0 2 2 0 0 1 [0; 0; 0; 0])
                     (enc_blocks (mkPP 4 4 1 8 false 1 4 4 false 2 0 0 4) [72; 72; 0; 0; 72; 72; 0; 0; 0; 0; 0; 0; 0; 0; 0; 0])).
    { vm_compute. auto 6. }
    destruct (H _ (or_introl eq_refl) _ _ Hin) as [v [Hv Hn]]. cbn in Hv. intuition. }
  split; [vm_compute; discriminate | vm_compute; reflexivity].
Qed.

Theorem C06_pipe_ht_zero_roundtrip_given_delivery_levels0 : forall p samples tile, pht_scope p -> pp_levels p = 0 ->
  samples_ok p samples ->
  let pix := pack_image p samples in
  pht_encode_tile_z p pix = Ok tile -> hyp_t2_delivers p pix tile -> pht_roundtrip_z p pix = Ok pix.
Proof. exact pht_zero_roundtrip_given_delivery_levels0. Qed.
Print Assumptions C06_pipe_ht_zero_roundtrip_given_delivery_levels0.

Theorem C06_pipe_ht_zero_roundtrip_given_delivery_levels1 : forall p samples tile, pht_scope p -> pp_levels p = 1 ->
  pp_x0 p = 0 -> pp_y0 p = 0 -> samples_ok p samples ->
  let pix := pack_image p samples in
  pht_encode_tile_z p pix = Ok tile -> hyp_t2_delivers p pix tile -> pht_roundtrip_z p pix = Ok pix.
Proof. exact pht_zero_roundtrip_given_delivery_levels1. Qed.
Print Assumptions C06_pipe_ht_zero_roundtrip_given_delivery_levels1.

(* a mid-grey 3x3 image without decomposition (the single code-block is all-zero: the tile is the
   empty packet 00) and the constant image above *)
Example C06_pipe_ht_zero_levels_nonvacuous :
  let p0 := mkPP 3 3 1 8 false 0 4 4 false 2 0 0 3 in
  let p1 := mkPP 4 4 1 8 false 1 4 4 false 2 0 0 4 in
  (pht_scope p0 /\ pp_levels p0 = 0 /\ samples_ok p0 (repeat 128 9) /\
   pht_encode_tile_z p0 (pack_image p0 (repeat 128 9)) = Ok [0] /\ hyp_t2_delivers p0 (pack_image p0 (repeat 128 9)) [0]) /\
  (pht_scope p1 /\ pp_levels p1 = 1 /\ pp_x0 p1 = 0 /\ pp_y0 p1 = 0 /\ samples_ok p1 (repeat 200 16) /\
   pht_encode_tile_z p1 (pack_image p1 (repeat 200 16)) = Ok [192; 42; 0; 14; 71; 71; 199; 0; 129; 180; 0; 0] /\
   hyp_t2_delivers p1 (pack_image p1 (repeat 200 16)) [192; 42; 0; 14; 71; 71; 199; 0; 129; 180; 0; 0]).
Proof.
  cbv zeta. split.
  - split. { split; [|cbn; lia]. unfold pp_scope, pow2_size. cbn. repeat split; auto; lia. }
    split; [reflexivity|].
    split. { split; [reflexivity|]. repeat constructor; cbn; lia. }
    split; [vm_compute; reflexivity|].
    assert (Ec : pipe_coeffs (mkPP 3 3 1 8 false 0 4 4 false 2 0 0 3) (pack_image (mkPP 3 3 1 8 false 0 4 4 false 2 0 0 3) (repeat 128 9))
                 = Ok [[0; 0; 0; 0; 0; 0; 0; 0; 0]]) by (vm_compute; reflexivity).
    apply (t2_delivers_b_ok _ _ _ _ Ec). vm_compute. reflexivity.
  - split. { split; [|cbn; lia]. unfold pp_scope, pow2_size. cbn. repeat split; auto; lia. }
    split; [reflexivity|]. split; [reflexivity|]. split; [reflexivity|].
    split. { split; [reflexivity|]. repeat constructor; cbn; lia. }
    split; [vm_compute; reflexivity|].
    assert (Ec : pipe_coeffs (mkPP 4 4 1 8 false 1 4 4 false 2 0 0 4) (pack_image (mkPP 4 4 1 8 false 1 4 4 false 2 0 0 4) (repeat 200 16))
                 = Ok [[72; 72; 0; 0; 72; 72; 0; 0; 0; 0; 0; 0; 0; 0; 0; 0]]) by (vm_compute; reflexivity).
    apply (t2_delivers_b_ok _ _ _ _ Ec). vm_compute. reflexivity.
Qed.

Theorem C06_pipe_ht_zero_roundtrip_checked : forall p samples z s, pht_scope p -> samples_ok p samples ->
  let pix := pack_image p samples in
  pht_zero_check p pix = Ok (true, z, s, true) -> pht_roundtrip_z p pix = Ok pix.
Proof. exact pht_zero_roundtrip_checked. Qed.
Print Assumptions C06_pipe_ht_zero_roundtrip_checked.

(* an 8x8 RGB image with RCT and two levels whose second and third colour planes are constant: 6 of
   its 21 packets are empty; the check reports kmax_fit, NOT no_zero_block, block sizes, delivery *)
Example C06_pipe_ht_zero_checked_nonvacuous :
  let p := mkPP 8 8 3 8 false 2 4 4 true 2 0 0 8 in
  let s := flat_map (fun i => [Z.of_nat i; 100; 7]) (seq 0 64) in
  pht_scope p /\ samples_ok p s /\ pht_zero_check p (pack_image p s) = Ok (true, false, true, true).
Proof.
  cbv zeta.
  split. { split; [|cbn; lia]. unfold pp_scope, pow2_size. cbn. repeat split; auto; lia. }
  split. { split; [reflexivity|]. apply Forall_forall. intros v Hv. cbn in Hv.
           repeat (destruct Hv as [<-|Hv]; [cbn; lia|]). contradiction. }
  vm_compute. reflexivity.
Qed.

Theorem C06_pipe_ht_zero_roundtrip_2x2 : forall o s, In o [0; 1; 2] -> In s dom22 ->
  pht_roundtrip_z (pp22 3 o) (pack_image (pp22 3 o) s) = Ok (pack_image (pp22 3 o) s).
Proof. exact pht_zero_roundtrip_2x2. Qed.
Print Assumptions C06_pipe_ht_zero_roundtrip_2x2.

Theorem C06_pipe_ht_zero_eq_classic_2x2 : forall o s, In o [0; 1; 2] -> In s dom22 ->
  has_zero_block (pp22 3 o) s = false ->
  pht_encode_tile_z (pp22 3 o) (pack_image (pp22 3 o) s) = pht_encode_tile (pp22 3 o) (pack_image (pp22 3 o) s).
Proof. exact pht_zero_eq_classic_2x2. Qed.
Print Assumptions C06_pipe_ht_zero_eq_classic_2x2.

(* the domain: 4096 images, 2290 with an all-zero code-block; [4; 4; 4; 4] (mid-grey) has four, its
   tile is two empty packets; [7; 0; 0; 2] has none *)
Example C06_pipe_ht_zero_2x2_instance :
  zlen dom22 = 4096 /\ zlen (filter (has_zero_block (pp22 3 2)) dom22) = 2290 /\
  In [4; 4; 4; 4] dom22 /\ pht_encode_tile_z (pp22 3 2) (pack_image (pp22 3 2) [4; 4; 4; 4]) = Ok [0; 0] /\
  In [7; 0; 0; 2] dom22 /\ has_zero_block (pp22 3 2) [7; 0; 0; 2] = false.
Proof.
  split; [exact zero_dom_size|]. split; [exact zero_dom_has_zero|].
  split. { apply (in_all_lists (zseq 8) [4; 4; 4; 4]). repeat constructor; apply in_zseq8; lia. }
  split; [vm_compute; reflexivity|].
  split. { apply (in_all_lists (zseq 8) [7; 0; 0; 2]). repeat constructor; apply in_zseq8; lia. }
  vm_compute. reflexivity.
Qed.

Theorem C06_pipe_ht_zero_roundtrip_partial :
  (forall p samples tile, pht_scope p -> samples_ok p samples ->
     let pix := pack_image p samples in
     hyp_kmax_fit p pix -> pht_encode_tile_z p pix = Ok tile -> hyp_t2_delivers p pix tile ->
     pht_roundtrip_z p pix = Ok pix) /\
  (forall o s, In o [0; 1; 2] -> In s dom22 ->
     pht_roundtrip_z (pp22 3 o) (pack_image (pp22 3 o) s) = Ok (pack_image (pp22 3 o) s)).
Proof. exact pht_zero_roundtrip_partial. Qed.
Print Assumptions C06_pipe_ht_zero_roundtrip_partial.
